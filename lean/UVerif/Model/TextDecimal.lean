/-
  UVerif.Model.TextDecimal — `support::decimal` (number/support/decimal.hpp) and the decimal printers built on it:
    * `support::add` (same-sign branch: ripple carry over little-endian digit vectors)      — literal
    * `support::mul` (schoolbook rows accumulated with `add`, `unpad`)                       — literal
    * `support::div`                                                                         — at the level of the
        quotient of the denoted naturals (long division by repeated subtraction is not transcribed)
    * integer `convert_to_decimal_string` / `to_string`   (integer_impl.hpp:1228-1252)
    * fixpnt `convert_to_decimal_string` / `operator<<`    (fixpnt_impl.hpp:1884-1961)
    * edecimal `convert_integer`, `parse`, `operator<<`    (edecimal_impl.hpp)
  A `decimal` is its little-endian digit list (`List Nat`); the sign flag is carried separately where needed.
-/
import UVerif.Model.TextCore

namespace UVerif.Text

/-! ### support::decimal -/

/-- zero padding of the shorter operand (`insert(end(), r - l, 0)`). -/
def padTo (l : List Nat) (n : Nat) : List Nat := l ++ List.replicate (n - l.length) 0

/-- the carry loop of `add` on equally long digit vectors; a final carry is appended (`push_back(1)`). -/
def decAddLoop : List Nat → List Nat → Nat → List Nat
  | a :: as, b :: bs, c =>
    let s := a + b + c
    if s > 9 then (s - 10) :: decAddLoop as bs 1 else s :: decAddLoop as bs 0
  | _, _, c => if c ≠ 0 then [1] else []

/-- `support::add(lhs, rhs)` for operands of equal sign (the only case the printers use). -/
def decAdd (l r : List Nat) : List Nat :=
  let n := max l.length r.length
  decAddLoop (padTo l n) (padTo r n) 0

/-- `unpad()`: remove most-significant zero digits, keep at least one digit. -/
def decUnpadRev : List Nat → List Nat      -- on the reversed (most significant first) list
  | [] => []
  | [d] => [d]
  | d :: ds => if d = 0 then decUnpadRev ds else d :: ds

def decUnpad (l : List Nat) : List Nat := (decUnpadRev l.reverse).reverse

/-- `iszero()`: exactly one digit, and it is 0. -/
def decIsZero (l : List Nat) : Bool := l == [0]

/-- one row of `mul`: `digit = s * b + carry; *pit = digit % 10; carry = digit / 10`, final carry pushed. -/
def decMulRow (s : Nat) : List Nat → Nat → List Nat
  | [], c => if c ≠ 0 then [c] else []
  | b :: bs, c => let d := s * b + c; (d % 10) :: decMulRow s bs (d / 10)

/-- rows of `mul` accumulated into `product` (starts as the one-digit zero). -/
def decMulRows (big : List Nat) : List Nat → Nat → List Nat → List Nat
  | [], _, product => product
  | s :: ss, position, product =>
    decMulRows big ss (position + 1) (decAdd product (List.replicate position 0 ++ decMulRow s big 0))

/-- `support::mul(lhs, rhs)` (magnitudes). -/
def decMul (l r : List Nat) : List Nat :=
  if decIsZero l || decIsZero r then [0]
  else if l.length < r.length then decUnpad (decMulRows r l 0 [0])
  else decUnpad (decMulRows l r 0 [0])

/-- `less(lhs, rhs)` on unpadded magnitudes: by length, then from the most significant digit. -/
def decLessRev : List Nat → List Nat → Bool
  | a :: as, b :: bs => if a < b then true else if a > b then false else decLessRev as bs
  | _, _ => false

def decLess (l r : List Nat) : Bool :=
  if l.length < r.length then true else if l.length > r.length then false else decLessRev l.reverse r.reverse

/-- `support::div(lhs, rhs)` on magnitudes, `rhs ≠ 0`: the quotient of the denoted naturals. -/
def decDiv (l r : List Nat) : List Nat :=
  if decLess l r then [0] else decOfNat (decVal l / decVal r)

/-- "convert to decimal by adding and doubling multipliers":
    `for (i = lo; i < lo + cnt; ++i) { if (number.at(i)) add(part, multiplier); add(multiplier, multiplier); }` -/
def addDouble (v : Nat) : Nat → Nat → List Nat → List Nat → List Nat
  | 0, _, part, _ => part
  | cnt + 1, i, part, multiplier =>
    addDouble v cnt (i + 1) (if v.testBit i then decAdd part multiplier else part) (decAdd multiplier multiplier)

/-- `for (i = 0; i < k; ++i) add(d, d)` -/
def decDoubleN : Nat → List Nat → List Nat
  | 0, d => d
  | k + 1, d => decDoubleN k (decAdd d d)

/-- digits most significant first as characters (`for (rit = rbegin(); …) str << (int)*rit`). -/
def decChars (l : List Nat) : List Char := l.reverse.map digitChar

/-! ### integer: convert_to_decimal_string / to_string -/

/-- magnitude pattern used by the printers: `value.sign() ? twosComplement(value) : value` in `nbits` bits. -/
def magnitudePattern (nbits v : Nat) : Nat :=
  if v.testBit (nbits - 1) then (2 ^ nbits - v % 2 ^ nbits) % 2 ^ nbits else v % 2 ^ nbits

def integerToDecimalString (nbits v : Nat) : List Char :=
  if v % 2 ^ nbits = 0 then ['0']
  else
    let number := magnitudePattern nbits v
    let part := addDouble number nbits 0 [0] [1]
    (if v.testBit (nbits - 1) then ['-'] else []) ++ decChars part

/-! ### fixpnt: convert_to_decimal_string -/

def fixpntToDecimalString (nbits rbits v : Nat) : List Char :=
  if v % 2 ^ nbits = 0 then
    ['0'] ++ (if rbits > 0 then ['.'] ++ List.replicate rbits '0' else [])
  else
    let neg := v.testBit (nbits - 1)
    let number := magnitudePattern nbits v
    let intPart : List Char :=
      if nbits > rbits then decChars (addDouble number (nbits - rbits) rbits [0] [1]) else ['0']
    let fracPart : List Char :=
      if rbits > 0 then
        let range := List.replicate rbits 0 ++ [1]                      -- setdigit(1); shiftLeft(rbits)
        let levels := decDoubleN rbits [1]                               -- setdigit(1); rbits × add(levels, levels)
        let step := decDiv range levels
        let part := addDouble number rbits 0 [0] [1]
        let part := decMul part step
        let nrLeadingZeros := range.length - part.length - 1
        let written := nrLeadingZeros + part.length
        ['.'] ++ List.replicate nrLeadingZeros '0' ++ decChars part ++ List.replicate (rbits - written) '0'
      else []
    (if neg then ['-'] else []) ++ intPart ++ fracPart

/-! ### edecimal -/

/-- `convert_integer(v)` for a magnitude: `while (v) { if (v & 1) *this += base; base += base; v >>= 1; }`
    (`fuel` ≥ bit length). -/
def addDoubleWhile : Nat → Nat → List Nat → List Nat → List Nat
  | 0, _, acc, _ => acc
  | fuel + 1, v, acc, base =>
    if v = 0 then acc
    else addDoubleWhile fuel (v / 2) (if v % 2 = 1 then decAdd acc base else acc) (decAdd base base)

/-- edecimal from a native integer `x`, printed with `operator<<`. -/
def edecOfInt (x : Int) : List Char :=
  if x = 0 then ['0']
  else
    let digits := addDoubleWhile 64 x.natAbs [0] [1]
    (if x < 0 then ['-'] else []) ++ decChars digits

/-- `unpad()` of edecimal on the most-significant-first digit list: drop leading zeros, keep the last digit
    (`for (i = n-1; i > 0; --i) if (digit[i] == 0) pop_back(); else return;`). -/
def edecUnpadMsd : List Nat → List Nat
  | d :: e :: ds => if d = 0 then edecUnpadMsd (e :: ds) else d :: e :: ds
  | l => l

/-- `edecimal::parse` on an object whose sign flag is `neg0`, followed by `operator<<`:
    `none` when the regex `[+-]*[0123456789]+` does not match (the object is left unchanged).
    As repaired ("fix: edecimal parse must reset the sign of the receiving object", "fix: edecimal parse must not
    keep leading zeros or a negative zero"): `clear(); setpos();` — the old flag `neg0` is dropped —, a leading `-`
    sets the flag, the digits are pushed, reversed, `unpad()`ed, and `if (iszero()) setpos()`. -/
def edecParsePrint (_neg0 : Bool) (s : List Char) : Option (List Char) :=
  let body := dropSigns s
  if body.isEmpty || !allB isDigit body then none
  else
    let cleared := false          -- clear(); setpos(): the flag `_neg0` the object held before is reset
    let (neg, rest) := match s with
      | '-' :: r => (true, r)
      | '+' :: r => (cleared, r)
      | r => (cleared, r)
    -- every remaining character is pushed as a digit (`default: v = 0`, so a further sign character becomes 0)
    let digits := rest.map (fun c => if isDigit c then digitVal c else 0)
    let digits := edecUnpadMsd digits                    -- reverse(); unpad();
    let neg := if digits.all (· == 0) then false else neg -- if (iszero()) setpos();
    some ((if neg then ['-'] else []) ++ digits.map digitChar)

end UVerif.Text
