/-
  UVerif.Model.TextFloat — binary text forms of cfloat and fixpnt as functions on `List Char`:
    * cfloat `to_binary`            (cfloat_impl.hpp:3295-3317)
    * cfloat `assign("0b…")`         (cfloat_impl.hpp:1346-1423)
    * fixpnt `to_binary`            (fixpnt_impl.hpp:1998-2021)
    * fixpnt `assign("0b…")`         (fixpnt_impl.hpp:257-343; the decimal branch is a stub in the C++ and is not modelled)
  An encoding is a `Nat` below `2^nbits`; the block type does not occur (bit access `at(i)`/`setbit(i,·)` only).
-/
import UVerif.Model.TextCore

namespace UVerif.Text

/-! ### cfloat -/

/-- `to_binary(cfloat)`, `nibbleMarker = false`: `0b` sign `.` es exponent bits `.` fbits fraction bits. -/
def cfloatToBinary (nbits es v : Nat) : List Char :=
  let fbits := nbits - 1 - es
  ['0', 'b'] ++ [bitChar (v.testBit (nbits - 1))] ++ ['.'] ++ bitCharsFrom v fbits es ++ ['.'] ++ bitCharsFrom v 0 fbits

/-- the nibble markers of `to_binary(·, true)`: a `'` after the character of bit `i` when `i > 0 ∧ i % 4 = 0`. -/
def bitCharsMarked (v lo : Nat) : Nat → List Char
  | 0 => []
  | k + 1 => bitChar (v.testBit (lo + k)) :: ((if k > 0 ∧ k % 4 = 0 then ['\''] else []) ++ bitCharsMarked v lo k)

def cfloatToBinaryMarked (nbits es v : Nat) : List Char :=
  let fbits := nbits - 1 - es
  ['0', 'b'] ++ [bitChar (v.testBit (nbits - 1))] ++ ['.'] ++ bitCharsMarked v fbits es ++ ['.'] ++ bitCharsMarked v 0 fbits

/-- first loop of `assign`: keep `0`, `1`, `.`; drop `'`; any other character aborts (`none`). -/
def cfFilter : List Char → Option (List Char)
  | [] => some []
  | c :: cs =>
    if c = '0' ∨ c = '1' ∨ c = '.' then (cfFilter cs).map (c :: ·)
    else if c = '\'' then cfFilter cs
    else none

def countBits : List Char → Nat
  | [] => 0
  | c :: cs => (if c = '.' then 0 else 1) + countBits cs

def countDots : List Char → Nat
  | [] => 0
  | c :: cs => (if c = '.' then 1 else 0) + countDots cs

/-- second loop of `assign` over the filtered characters: `field` counts dots seen, `nrExp` the characters seen
    while `field = 1` (starting at −1 because the dot itself is counted), `bit` the next bit index + 1.
    Result: the encoding, or 0 after `clear(); return`. -/
def cfAssignLoop (es : Nat) : List Char → Nat → Int → Nat → Nat → Nat
  | [], field, _, _, value => if field ≠ 2 then 0 else value
  | c :: cs, field, nrExp, bit, value =>
    if c = '.' then
      let field' := field + 1
      if field' = 2 ∧ nrExp ≠ (es : Int) then 0
      else cfAssignLoop es cs field' (if field' = 1 then nrExp + 1 else nrExp) bit value
    else
      let bit' := bit - 1
      let value' := setBit value bit' (c = '1')
      cfAssignLoop es cs field (if field = 1 then nrExp + 1 else nrExp) bit' value'

/-- `cfloat::assign(str)`; every early `return *this` happens after the initial `clear()`, i.e. yields 0. -/
def cfloatAssign (nbits es : Nat) (s : List Char) : Nat :=
  if s.length > 2 then
    match s with
    | '0' :: 'b' :: r =>
      match cfFilter r with
      | none => 0
      | some bits =>
        if countBits bits ≠ nbits then 0
        else if countDots bits ≠ 2 then 0
        else cfAssignLoop es bits 0 (-1) nbits 0
    | _ => 0
  else 0

/-! ### fixpnt -/

/-- `to_binary(fixpnt)`, `nibbleMarker = false`. -/
def fixpntToBinary (nbits rbits v : Nat) : List Char :=
  ['0', 'b'] ++ (if nbits > rbits then bitCharsFrom v rbits (nbits - rbits) else ['0']) ++ ['.'] ++ bitCharsFrom v 0 rbits

/-- integer part with markers: a `'` after bit `i` when `i - rbits > 0 ∧ (i - rbits) % 4 = 0`. -/
def fxIntMarked (v rbits : Nat) : Nat → List Char
  | 0 => []
  | k + 1 => bitChar (v.testBit (rbits + k)) :: ((if k > 0 ∧ k % 4 = 0 then ['\''] else []) ++ fxIntMarked v rbits k)

/-- fraction part with markers: a `'` after bit `i` when `(rbits - i) % 4 = 0 ∧ i ≠ 0`. -/
def fxFracMarked (v rbits : Nat) : Nat → List Char
  | 0 => []
  | k + 1 => bitChar (v.testBit k) :: ((if (rbits - k) % 4 = 0 ∧ k ≠ 0 then ['\''] else []) ++ fxFracMarked v rbits k)

def fixpntToBinaryMarked (nbits rbits v : Nat) : List Char :=
  ['0', 'b'] ++ (if nbits > rbits then fxIntMarked v rbits (nbits - rbits) else ['0']) ++ ['.'] ++ fxFracMarked v rbits rbits

/-- the reverse scan of `assign` (argument: the REVERSED string): `b` stops, `'` is skipped, `.` must sit at
    position `rbits` (else `clear(); break`), `0` clears the bit, ANY other character sets it; `setbit` beyond
    `nbits` is a no-op. -/
def fxLoop (nbits rbits : Nat) : List Char → Nat → Nat → Nat
  | [], _, value => value
  | c :: cs, pos, value =>
    if c = 'b' then value
    else if c = '\'' then fxLoop nbits rbits cs pos value
    else if c = '.' then (if pos ≠ rbits then 0 else fxLoop nbits rbits cs pos value)
    else if c = '0' then fxLoop nbits rbits cs (pos + 1) (if pos < nbits then setBit value pos false else value)
    else fxLoop nbits rbits cs (pos + 1) (if pos < nbits then setBit value pos true else value)

/-- `fixpnt::assign(number)`: `some` encoding for the binary branch, `none` for the (stub) decimal branch. -/
def fixpntAssign (nbits rbits : Nat) (s : List Char) : Option Nat :=
  if s.length < 3 then some 0
  else match s with
    | '0' :: 'b' :: _ => some (fxLoop nbits rbits s.reverse 0 0)
    | _ => none

end UVerif.Text
