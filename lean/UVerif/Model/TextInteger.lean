/-
  UVerif.Model.TextInteger — text paths of `integer<nbits,bt>` and `einteger<bt>` as functions on `List Char`:
    * integer `operator<<` = `convert_to_string` base 10 (blocks of 10^k digits)     (integer_impl.hpp:1543-1641)
    * integer `to_hex`                                                                 (integer/manipulators.hpp:43-59)
    * integer `parse` (octal stub, hexadecimal, decimal)                               (integer_impl.hpp:1403-1535)
    * einteger `operator<<` = `convert_to_string` base 10 with `reduce` by one limb    (einteger_impl.hpp:961-1060, 323-377)
  The arithmetic of `integer` that the printer calls (`/`, `%` on the working type `Integer`, `*`, `+=` in the decimal
  parser) is taken at its meaning — truncating division on the signed values, the ring mod 2^nbits — which is what
  property C08 establishes for it; it is NOT re-derived here.  Everything textual is transcribed loop by loop.
-/
import UVerif.Basic
import UVerif.Model.TextCore

namespace UVerif.Text
open UVerif

/-! ### integer: operator<< (decimal) -/

/-- digits per block: `digits_in_block10` for the block width. -/
def digitsInBlock10 (w : Nat) : Nat := if w = 8 then 2 else if w = 16 then 4 else if w = 32 then 9 else 18

/-- inner loop: `c = '0' + v % 10; v /= 10; result[pos] = c; if (pos-- == 0) break;` for at most `k` digits,
    `cap` = pos + 1 = positions left. Little-endian digits. -/
def blockDigitsLE (v : Nat) : Nat → Nat → List Nat
  | 0, _ => []
  | _, 0 => []
  | k + 1, cap + 1 => (v % 10) :: blockDigitsLE (v / 10) k cap

/-- width of the working type `Integer` of the decimal branch of `convert_to_string`:
    `integer<(nbits < bitsInBlock ? bitsInBlock : nbits + 1)>` — nbits+1 bits to hold |maxneg|, and at least one
    whole block so that `block10 = 10^k < 2^(w-1)` is representable (as repaired by "fix: integer operator<< must
    convert in a type wide enough to hold block10"; the pinned tree used nbits+1 throughout, D19). -/
def ostreamWidth (nbits w : Nat) : Nat := if nbits < w then w else nbits + 1

/-- the `while (!t.iszero())` loop on `Integer` (`W` bits, signed value `t`):
    `t2 = t / block10; r = t % block10; v = r.block(0); … t = t2;`. -/
def intOstreamLoop (W w k : Nat) (b10 : Int) : Nat → Int → Nat → List Nat
  | 0, _, _ => []
  | fuel + 1, t, cap =>
    if t = 0 ∨ cap = 0 then []
    else
      let q := toSigned W (ofSigned W (Int.tdiv t b10))
      let r := Int.tmod t b10
      let v := ofSigned W r % 2 ^ w
      let ds := blockDigitsLE v k cap
      ds ++ intOstreamLoop W w k b10 fuel q (cap - ds.length)

/-- `block10` as stored in `Integer`: `10^k` reduced to the working width, read as signed. -/
def block10Value (nbits w : Nat) : Int :=
  toSigned (ostreamWidth nbits w) (10 ^ digitsInBlock10 w % 2 ^ ostreamWidth nbits w)

/-- `ostr << integer<nbits,bt>` with default flags, `w` = bits per block. `none`: `block10` is zero in
    `Integer` (division by zero — not modelled; cannot happen for the four block widths). -/
def integerOstream (nbits w v : Nat) : Option (List Char) :=
  let b10 := block10Value nbits w
  if b10 = 0 then none else
  let neg := v.testBit (nbits - 1)
  let t : Int := (toSigned nbits v).natAbs
  let cap := nbits / 3 + 1
  let ds := intOstreamLoop (ostreamWidth nbits w) w (digitsInBlock10 w) b10 (cap + 1) t cap
  let buf := List.replicate (cap - ds.length) '0' ++ ds.reverse.map digitChar
  let s := stripZeros buf
  let s := if s.isEmpty then ['0'] else s
  some ((if neg then ['-'] else []) ++ s)

/-! ### integer: to_hex -/

/-- `to_hex(integer)`: `0x` + `1 + (nbits-1)/4` nibbles, upper case. -/
def integerToHex (nbits v : Nat) : List Char :=
  ['0', 'x'] ++ (hexDigits (v % 2 ^ nbits) (1 + (nbits - 1) / 4)).map hexUpperChar

/-! ### integer: parse -/

inductive IntForm where
  | octal | hex | decimal | other
deriving DecidableEq, Repr

def isOctDigit (c : Char) : Bool := 48 ≤ c.toNat && c.toNat ≤ 55

/-- which of the three regexes (`regex_match`, tried in this order) accepts the text. -/
def integerForm (s : List Char) : IntForm :=
  let r := dropSigns s
  match r with
  | '0' :: d :: ds =>
    if (49 ≤ d.toNat && d.toNat ≤ 55) && allB isOctDigit ds then .octal
    else if (d = 'x' ∨ d = 'X') ∧ !ds.isEmpty ∧ allB (fun c => isHexDigit c || c == '\'') ds then .hex
    else if allB isDigit r then .decimal
    else .other
  | _ => if !r.isEmpty && allB isDigit r then .decimal else .other

/-- `setbyte(byteIndex, data)`: overwrite bits `8·idx … min(8·idx+8, nbits) − 1` with the low bits of `data`
    (`end = (start + 8 < nbits ? start + 8 : nbits)`: the byte is clipped at the width, so a partial most
    significant byte never sets storage bits outside `nbits`; nothing is written when `8·idx ≥ nbits`). -/
def setByte (nbits v idx byte : Nat) : Nat :=
  let lo := 8 * idx
  let cnt := min (lo + 8) nbits - lo
  v % 2 ^ lo + (byte % 2 ^ cnt) * 2 ^ lo + v / 2 ^ (lo + cnt) * 2 ^ (lo + cnt)

/-- two's complement negation in `nbits` bits (`value = -value`). -/
def negN (nbits v : Nat) : Nat := (2 ^ nbits - v % 2 ^ nbits) % 2 ^ nbits

/-- the reverse scan of the hexadecimal branch (argument: the REVERSED text) with `maxByteIndex = (nbits+7)/8`
    (as repaired: the partial most significant byte is read, D20).  The scan runs to the `x` whatever the number
    of digits; bytes are stored only while `byteIndex < maxByteIndex` (as repaired: the sign in front of a
    full-width digit string is reached).  Returns the value and `bSuccess`. -/
def intHexLoop (nbits maxByte : Nat) : List Char → Nat → Nat → Bool → Nat → Nat × Bool
  | [], _, _, _, value => (value, true)
  | c :: cs, byte, idx, odd, value =>
    if c = '\'' then intHexLoop nbits maxByte cs byte idx odd value
    else if c = 'x' ∨ c = 'X' then
      let value := if odd ∧ idx < maxByte then setByte nbits value idx byte else value
      match cs with
      | '0' :: rest =>
        match rest with
        | [] => (value, true)
        | '+' :: _ => (value, true)
        | '-' :: _ => (negN nbits value, true)
        | _ => (value, false)
      | _ => (value, false)
    else
      let d := (hexVal? c).getD 0
      if odd then
        let byte' := byte + d * 16
        intHexLoop nbits maxByte cs byte' (idx + 1) false
          (if idx < maxByte then setByte nbits value idx byte' else value)
      else intHexLoop nbits maxByte cs d idx true value

/-- the reverse scan of the decimal branch: `-` negates what has been accumulated, `+` stops, a digit adds
    `scale * digit` and multiplies `scale` by 10 — all in `integer<nbits>`, i.e. mod 2^nbits. -/
def intDecLoop (nbits : Nat) : List Char → Nat → Nat → Nat
  | [], value, _ => value
  | c :: cs, value, scale =>
    if c = '-' then intDecLoop nbits cs (negN nbits value) scale
    else if c = '+' then value
    else intDecLoop nbits cs ((value + scale * digitVal c) % 2 ^ nbits) (scale * 10 % 2 ^ nbits)

/-- `parse(number, value)`: `some` encoding when it returns true, `none` when it returns false (value cleared). -/
def integerParse (nbits : Nat) (s : List Char) : Option Nat :=
  match integerForm s with
  | .octal => none
  | .hex =>
    let (v, ok) := intHexLoop nbits ((nbits + 7) / 8) s.reverse 0 0 false 0
    if ok then some (v % 2 ^ nbits) else none
  | .decimal => some (intDecLoop nbits s.reverse 0 (1 % 2 ^ nbits))
  | .other => none

/-! ### einteger: operator<< (decimal) -/

/-- `iszero()`: no limb, or a single zero limb. -/
def eintIsZero (l : List Nat) : Bool := l == [] || l == [0]

/-- `remove_leading_zeros()` on little-endian limbs. -/
def stripTopZerosRev : List Nat → List Nat
  | [] => []
  | d :: ds => if d = 0 then stripTopZerosRev ds else d :: ds

def stripTopZeros (l : List Nat) : List Nat := (stripTopZerosRev l.reverse).reverse

/-- the single-limb-divisor loop of `reduce` over the limbs most significant first. -/
def limbLongDiv (B d : Nat) : List Nat → Nat → List Nat × Nat
  | [], rem => ([], rem)
  | a :: as, rem =>
    let dividend := rem * B + a
    let q := dividend / d
    let (qs, r) := limbLongDiv B d as (dividend - q * d)
    ((q % B) :: qs, r)

/-- `q.reduce(t, block10, r)` for a one-limb divisor `d`; returns the limbs of `q` and `r.block(0)`. -/
def eintReduce1 (B d : Nat) (t : List Nat) : List Nat × Nat :=
  if eintIsZero t then ([], 0)
  else match t with
    | [a0] => (if a0 / d = 0 then [] else [a0 / d], a0 % d)
    | _ =>
      let top := stripTopZerosRev t.reverse            -- limbs m-1 … 0
      let (qs, r) := limbLongDiv B d top 0
      (stripTopZerosRev qs |>.reverse, r)

def eintOstreamLoop (B d k : Nat) : Nat → List Nat → Nat → List Nat
  | 0, _, _ => []
  | fuel + 1, t, cap =>
    if eintIsZero t ∨ cap = 0 then []
    else
      let (q, rv) := eintReduce1 B d t
      let ds := blockDigitsLE rv k cap
      ds ++ eintOstreamLoop B d k fuel q (cap - ds.length)

/-- `ostr << einteger<bt>`: sign flag, little-endian limbs of `w` bits. -/
def eintOstream (w : Nat) (neg : Bool) (limbs : List Nat) : List Char :=
  if limbs.isEmpty then ['0'] else
  let k := digitsInBlock10 w
  let cap := limbs.length * w / 3 + 1
  let ds := eintOstreamLoop (2 ^ w) (10 ^ k) k (cap + 1) limbs cap
  let buf := List.replicate (cap - ds.length) '0' ++ ds.reverse.map digitChar
  let s := stripZeros buf
  let s := if s.isEmpty then ['0'] else s
  (if neg then ['-'] else []) ++ s

end UVerif.Text
