/-
  UVerif.Model.TextPosit — the posit text forms as functions on `List Char`:
    * bitblock `to_hex`                     (internal/bitblock/bitblock.hpp:659-692)
    * `hex_format(posit)`                   (posit_impl.hpp:1718-1725)
    * `parse(std::string&, posit&)` / `>>`  (posit_parse.hpp:16-69)
  `std::regex_match` is reduced to the grammar it accepts, the two `istringstream` extractions to the
  functions `decExtract32` / `hexExtract64` (libstdc++ `num_get` for `unsigned` resp. `uint64_t` with
  `std::hex`): both are trusted library contracts, transcribed here, checked by the correspondence run.
-/
import UVerif.Model.TextCore

namespace UVerif.Text

/-- number of hexits `to_hex` prints for a `bitblock<nbits>`, `nbits ≥ 4`:
    `(nbits >> 2) + (nbits % 4 ? 1 : 0)` = ⌈nbits/4⌉ (as repaired by "fix: bitblock to_hex must print
    ceil(nbits/4) hexits"; the pinned tree had the two arms of the conditional swapped, D18). -/
def positNrHexits (nbits : Nat) : Nat := (nbits >>> 2) + (if nbits % 4 ≠ 0 then 1 else 0)

/-- `to_hex(bitblock<nbits>)` with default arguments: `"0x"` + hexits, lower case. -/
def positToHex (nbits v : Nat) : List Char :=
  let w := v % 2 ^ nbits
  ['0', 'x'] ++
    (if nbits = 1 ∨ nbits = 2 ∨ nbits = 3 then [hexLowerChar w]
     else (hexDigits w (positNrHexits nbits)).map hexLowerChar)

/-- `hex_format(p)`: `ss << nbits << '.' << es << 'x' << to_hex(p.get()) << 'p'`. -/
def positHexFormat (nbits es v : Nat) : List Char :=
  natToDec nbits ++ ['.'] ++ natToDec es ++ ['x'] ++ positToHex nbits v ++ ['p']

/-- the language of `[\d]+\.[0123456789][xX][\w]+[p]*` under `regex_match` ("C" locale): digits, a dot, one
    digit, `x|X`, one or more word characters (`p` is a word character, so the `[p]*` tail adds nothing). -/
def positGrammar (s : List Char) : Bool :=
  let ds := s.takeWhile isDigit
  !ds.isEmpty &&
    match s.dropWhile isDigit with
    | '.' :: e :: x :: w => isDigit e && (x == 'x' || x == 'X') && !w.isEmpty && allB isWord w
    | _ => false

/-- `istringstream(str) >> unsigned` on a string of decimal digits: the value, `UINT_MAX` on overflow. -/
def decExtract32 (s : List Char) : Nat :=
  let v := decStrVal (s.takeWhile isDigit)
  if v ≥ 2 ^ 32 then 2 ^ 32 - 1 else v

/-- `istringstream(str) >> std::hex >> uint64_t` on a string of word characters: an optional `0x`/`0X`, then the
    longest run of hex digits; no digit at all: 0 (failbit); more than 64 bits: `UINT64_MAX` (failbit). -/
def hexExtract64 (s : List Char) : Nat :=
  let body := match s with
    | '0' :: x :: rest => if x = 'x' ∨ x = 'X' then rest else s
    | _ => s
  let v := (hexStrVal? (body.takeWhile isHexDigit) 0).getD 0
  if v ≥ 2 ^ 64 then 2 ^ 64 - 1 else v

/-- the three hand-written scanning loops of `parse`: text before the first `.`, between it and the first
    `x|X`, between that and the first `p`. -/
def positFields (s : List Char) : List Char × List Char × List Char :=
  let nbitsStr := s.takeWhile (· ≠ '.')
  let r1 := (s.dropWhile (· ≠ '.')).drop 1
  let esStr := r1.takeWhile (fun c => !(c == 'x' || c == 'X'))
  let r2 := (r1.dropWhile (fun c => !(c == 'x' || c == 'X'))).drop 1
  let bitStr := r2.takeWhile (· ≠ 'p')
  (nbitsStr, esStr, bitStr)

/-- `parse(txt, p)` on the regex branch: `some` encoding; `none` = the text is not of the posit form and the
    `double` branch is taken (conversion from `double` is C03's subject, not modelled here). -/
def positParse (nbits : Nat) (s : List Char) : Option Nat :=
  if positGrammar s then
    let (nbitsStr, _, bitStr) := positFields s
    let nbitsIn := decExtract32 nbitsStr
    let raw := hexExtract64 bitStr
    -- "if not aligned, setbits takes the least significant nbits, so we need to shift"
    let raw := if nbits < nbitsIn then raw >>> (nbitsIn - nbits) else raw
    some (raw % 2 ^ nbits)          -- setbits(raw)
  else none

/-- `parse(hex_format(p))`. -/
def positRoundTrip (nbits es v : Nat) : Option Nat := positParse nbits (positHexFormat nbits es v)

end UVerif.Text
