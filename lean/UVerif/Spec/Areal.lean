/-
  UVerif.Spec.Areal — the value set of areal<nbits,es> and the enclosure relation of property C18, written from
  the number system's definition (sign | es exponent bits | fbits fraction bits | uncertainty bit).

  * exponent field e = 0      : subnormal,  value = f / 2^fbits · 2^(1 - bias)
  * exponent field e ≥ 1      : normal/supernormal, value = (1 + f/2^fbits) · 2^(e - bias),   bias = 2^(es-1) - 1
  * all-ones exponent AND all-ones fraction:  ubit clear = ±infinity,  ubit set = NaN
  * ubit set on any other encoding: the open interval between the value of the encoding with the ubit cleared
    and the next exact encoding away from zero (the interval above maxpos is (maxpos, ∞)).
-/
import UVerif.Basic

namespace UVerif.Areal

structure Cfg where
  nbits : Nat
  es    : Nat
deriving Repr, DecidableEq

def Cfg.fbits (c : Cfg) : Nat := c.nbits - 2 - c.es
def Cfg.bias (c : Cfg) : Int := (2 ^ (c.es - 1) : Nat) - 1

/-- fields of an encoding -/
def signOf (c : Cfg) (b : Nat) : Bool := b.testBit (c.nbits - 1)
def expOf (c : Cfg) (b : Nat) : Nat := (b >>> (1 + c.fbits)) % 2 ^ c.es
def fracOf (c : Cfg) (b : Nat) : Nat := (b >>> 1) % 2 ^ c.fbits
def ubitOf (b : Nat) : Bool := b.testBit 0

/-- magnitude part of an encoding (sign cleared) -/
def magOf (c : Cfg) (b : Nat) : Nat := b % 2 ^ (c.nbits - 1)

/-- the inf pattern (sign cleared): all ones except the ubit -/
def infMag (c : Cfg) : Nat := 2 ^ (c.nbits - 1) - 2
/-- the NaN pattern (sign cleared): all ones -/
def nanMag (c : Cfg) : Nat := 2 ^ (c.nbits - 1) - 1
/-- maxpos (sign cleared): 0-1…1-1…10-0 -/
def maxposMag (c : Cfg) : Nat := 2 ^ (c.nbits - 1) - 4

def isNaN (c : Cfg) (b : Nat) : Bool := magOf c b == nanMag c
def isInf (c : Cfg) (b : Nat) : Bool := magOf c b == infMag c

/-- value of an exact magnitude encoding `L` (ubit clear, L ≤ maxposMag). -/
def magVal (c : Cfg) (L : Nat) : Rat :=
  let e := expOf c L
  let f := fracOf c L
  if e = 0 then dyadic f (1 - c.bias - (c.fbits : Int))
  else dyadic (f + 2 ^ c.fbits) ((e : Int) - c.bias - (c.fbits : Int))

/-- the source of a conversion -/
inductive Src where
  | nan
  | inf (neg : Bool)
  | fin (neg : Bool) (x : Rat)        -- x ≥ 0 is the magnitude; (neg, 0) is a signed zero
deriving Repr

/-- `Encloses c src b`: the areal encoding `b` (an nbits-bit pattern) encloses the source, property C18. -/
def encloses (c : Cfg) (src : Src) (b : Nat) : Bool :=
  b < 2 ^ c.nbits &&
  match src with
  | .nan => isNaN c b
  | .inf neg => isInf c b && signOf c b == neg
  | .fin neg x =>
    signOf c b == neg &&
    (let B := magOf c b
     let L := B - B % 2              -- ubit cleared
     L ≤ maxposMag c &&
     (if !ubitOf B then magVal c L == x
      else magVal c L < x && (L == maxposMag c || x < magVal c (L + 2))))

/-- the unique encoding that encloses a finite source (used to print the expected value): bisection on L. -/
def enclosing (c : Cfg) (neg : Bool) (x : Rat) : Nat :=
  let sgn := if neg then 2 ^ (c.nbits - 1) else 0
  -- largest exact L (even) with magVal L ≤ x, by bisection over k = L/2 ∈ [0, maxposMag/2]
  let rec go (fuel lo hi : Nat) : Nat :=
    match fuel with
    | 0 => lo
    | fuel + 1 =>
      if hi ≤ lo + 1 then lo
      else
        let mid := (lo + hi) / 2
        if magVal c (2 * mid) ≤ x then go fuel mid hi else go fuel lo mid
  let top := maxposMag c / 2
  let k := if magVal c (2 * top) ≤ x then top else go (c.nbits + 1) 0 top
  let L := 2 * k
  sgn + L + (if magVal c L == x then 0 else 1)

end UVerif.Areal
