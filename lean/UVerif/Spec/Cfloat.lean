/-
  UVerif.Spec.Cfloat — the value set of cfloat<nbits,es,bt,sub,sup,sat> and the IEEE-style rounding
  relation, written from the format definition and the property text (C02/C03/C04/C06), not from the
  arithmetic code.

  Encoding (cfloat_impl.hpp, class comment and setinf/setnan): sign | es exponent bits | fbits fraction bits,
  bias 2^(es-1)-1;
    NaN      = exponent all ones and fraction all ones (sign 0: quiet, sign 1: signalling);
    infinity = exponent all ones and fraction 1…10, in every configuration (`isinf`, `numeric_limits::infinity`);
    other encodings with exponent all ones: supernormal finite values when `sup`, NaN otherwise;
    exponent 0: subnormal values f/2^fbits · 2^(1-bias) when `sub`, (signed) zero otherwise.
-/
import UVerif.Basic

namespace UVerif.Cfloat

structure Cfg where
  nbits : Nat
  es    : Nat
  bt    : Nat := 8          -- bits in a storage block (8/16/32); irrelevant to the value set
  sub   : Bool := false
  sup   : Bool := false
  sat   : Bool := false
deriving Repr, DecidableEq

namespace Cfg
def fbits (c : Cfg) : Nat := c.nbits - 1 - c.es
def bias (c : Cfg) : Int := (2 ^ (c.es - 1) : Nat) - 1
/-- the all-ones exponent field -/
def emax (c : Cfg) : Nat := 2 ^ c.es - 1
def valid (c : Cfg) : Bool := c.es ≥ 1 && c.nbits > c.es + 1 && (c.es > 1 || (c.sub && c.sup))
def signOf (c : Cfg) (b : Nat) : Bool := b.testBit (c.nbits - 1)
def expOf (c : Cfg) (b : Nat) : Nat := (b >>> c.fbits) % 2 ^ c.es
def fracOf (c : Cfg) (b : Nat) : Nat := b % 2 ^ c.fbits
end Cfg

/-- what an encoding denotes -/
inductive Val where
  | nan (signalling : Bool)
  | inf (neg : Bool)
  | fin (neg : Bool) (mag : Rat)        -- mag ≥ 0; zeros are `fin s 0`
deriving Repr, DecidableEq

def Val.isNan : Val → Bool | .nan _ => true | _ => false
def Val.isZero : Val → Bool | .fin _ m => m == 0 | _ => false

/-- value of an n-bit cfloat encoding -/
def cfVal (c : Cfg) (b : Nat) : Val :=
  let s := c.signOf b
  let e := c.expOf b
  let f := c.fracOf b
  let fb := c.fbits
  let one : Rat := ((2 ^ fb : Nat) : Rat)
  if e = c.emax ∧ f = 2 ^ fb - 1 then .nan s
  else if e = c.emax ∧ f = 2 ^ fb - 2 then .inf s
  else if e = c.emax then
    if c.sup then .fin s ((1 + (f : Rat) / one) * pow2 ((e : Int) - c.bias)) else .nan s
  else if e = 0 then
    if c.sub then .fin s ((f : Rat) / one * pow2 (1 - c.bias)) else .fin s 0
  else .fin s ((1 + (f : Rat) / one) * pow2 ((e : Int) - c.bias))

/-- ⌊log2 X⌋ for a positive rational -/
def floorLog2 (X : Rat) : Int :=
  if X ≤ 0 then 0 else
  let e0 : Int := (Nat.log2 X.num.toNat : Int) - (Nat.log2 X.den : Int)
  if pow2 e0 ≤ X then (if pow2 (e0 + 1) ≤ X then e0 + 1 else e0) else e0 - 1

/-- smallest positive normal value -/
def minNormal (c : Cfg) : Rat := pow2 (1 - c.bias)

/-- the largest finite value of the configuration -/
def maxFinite (c : Cfg) : Rat :=
  let fb := c.fbits
  let one : Rat := ((2 ^ fb : Nat) : Rat)
  if c.sup ∧ 2 ^ fb ≥ 3 then (1 + ((2 ^ fb - 3 : Nat) : Rat) / one) * pow2 ((c.emax : Int) - c.bias)
  else if c.emax ≥ 2 then (1 + ((2 ^ fb - 1 : Nat) : Rat) / one) * pow2 ((c.emax : Int) - 1 - c.bias)
  else if c.sub then ((2 ^ fb - 1 : Nat) : Rat) / one * pow2 (1 - c.bias)
  else 0

/-- spacing of the (exponent-unbounded) lattice around a positive X: 2^(max(⌊log2 X⌋, 1-bias) - fbits) -/
def ulpAt (c : Cfg) (X : Rat) : Rat :=
  let e := floorLog2 X
  let e := if e < 1 - c.bias then 1 - c.bias else e
  pow2 (e - (c.fbits : Int))

/-- X (positive) rounds beyond the largest finite value: X ≥ maxFinite + ulp/2, where the tie goes up exactly
    when maxFinite sits on an odd lattice point (it always does when 2^fbits ≥ 3 or ¬sup). -/
def overflows (c : Cfg) (X : Rat) : Bool :=
  let M := maxFinite c
  let u := ulpAt c M
  let k := (M / u).floor
  X > M + u / 2 || (X == M + u / 2 && k % 2 != 0)

/-- `IeeeNearest` on a non-zero exact result x: the executable relation.
    r is judged through its value only (every encoding of the right value is accepted):
    * no subnormals and |x| < min normal  ⇒ zero with the sign of x;
    * x rounds beyond the largest finite value ⇒ infinity with the sign of x, or ±maxFinite when saturating;
    * otherwise r is finite with the sign of x, lies on the lattice of x's binade (spacing u) and is a nearest
      lattice point: |x|/u − k ∈ [−1/2, 1/2], the two ends only when k is even (ties to even). This compares r
      with its two lattice neighbours k−1 and k+1. -/
def nearestNZ (c : Cfg) (x : Rat) (r : Nat) : Bool :=
  let neg := decide (x < 0)
  let X := if neg then -x else x
  match cfVal c r with
  | .nan _ => false
  | .inf s => s == neg && !c.sat && overflows c X
  | .fin s m =>
    s == neg &&
    (if !c.sub && X < minNormal c then m == 0
     else if overflows c X then c.sat && m == maxFinite c
     else
       let u := ulpAt c X
       let q := m / u
       let d := X / u - q
       q.den == 1 && m ≤ maxFinite c &&
       ((-(1:Rat)/2 < d && d < 1/2) || ((d == 1/2 || d == -(1:Rat)/2) && q.num % 2 == 0)))

/-- exact result of an operation as the property describes it -/
inductive Expect where
  | nan                       -- any NaN encoding
  | inf (neg : Bool)
  | zero (neg : Option Bool)  -- exact zero; `none`: either sign (zero sum)
  | real (x : Rat)            -- non-zero exact result, to be rounded
deriving Repr

/-- the special-value table of C02 + exact arithmetic on finite operands -/
def expectOp (op : String) (a b : Val) : Expect :=
  match op, a, b with
  | _, .nan _, _ => .nan
  | _, _, .nan _ => .nan
  | "add", .inf s, .inf t => if s == t then .inf s else .nan
  | "add", .inf s, .fin _ _ => .inf s
  | "add", .fin _ _, .inf t => .inf t
  | "add", .fin s x, .fin t y =>
    let vx := if s then -x else x
    let vy := if t then -y else y
    if vx + vy = 0 then .zero none else .real (vx + vy)
  | "sub", .inf s, .inf t => if s != t then .inf s else .nan
  | "sub", .inf s, .fin _ _ => .inf s
  | "sub", .fin _ _, .inf t => .inf (!t)
  | "sub", .fin s x, .fin t y =>
    let vx := if s then -x else x
    let vy := if t then -y else y
    if vx - vy = 0 then .zero none else .real (vx - vy)
  | "mul", .inf s, .inf t => .inf (s != t)
  | "mul", .inf s, .fin t y => if y = 0 then .nan else .inf (s != t)
  | "mul", .fin s x, .inf t => if x = 0 then .nan else .inf (s != t)
  | "mul", .fin s x, .fin t y => if x = 0 ∨ y = 0 then .zero (some (s != t)) else .real ((if s != t then -1 else 1) * (x * y))
  | "div", .inf _, .inf _ => .nan
  | "div", .inf s, .fin t _ => .inf (s != t)
  | "div", .fin s _, .inf t => .zero (some (s != t))
  | "div", .fin s x, .fin t y =>
    if y = 0 then (if x = 0 then .nan else .inf (s != t))
    else if x = 0 then .zero (some (s != t))
    else .real ((if s != t then -1 else 1) * (x / y))
  | _, _, _ => .nan

/-- does the encoding r satisfy the expectation? (the sign of a zero SUM is left open: property text) -/
def satisfies (c : Cfg) (e : Expect) (r : Nat) : Bool :=
  r < 2 ^ c.nbits &&
  match e with
  | .nan => (cfVal c r).isNan
  | .inf s => cfVal c r == .inf s
  | .zero none => (cfVal c r).isZero
  | .zero (some s) => cfVal c r == .fin s 0
  | .real x => nearestNZ c x r

/-- `IeeeNearest cfg x r` — the relation the property states, for an exact real result x. -/
def IeeeNearest (c : Cfg) (x : Rat) (r : Nat) : Prop :=
  (if x = 0 then (cfVal c r).isZero else nearestNZ c x r) = true

instance (c : Cfg) (x : Rat) (r : Nat) : Decidable (IeeeNearest c x r) := by
  unfold IeeeNearest; infer_instance

/-! ### the rounding function (used for messages, for the IEEE twins, and for `to_native` models) -/

/-- round a positive X on the configuration's lattice: returns the magnitude or `none` for overflow -/
def roundMag (c : Cfg) (X : Rat) : Option Rat :=
  if !c.sub && X < minNormal c then some 0
  else if overflows c X then none
  else
    let u := ulpAt c X
    some ((rne (X / u) : Rat) * u)

/-- encoding of a finite non-negative lattice magnitude (≤ maxFinite) -/
def encodeMag (c : Cfg) (m : Rat) : Nat :=
  if m = 0 then 0
  else
    let fb := c.fbits
    let e := floorLog2 m
    if e < 1 - c.bias then
      -- subnormal: f = m / 2^(1-bias-fbits)
      (m / pow2 (1 - c.bias - (fb : Int))).floor.toNat
    else
      let f := ((m / pow2 e - 1) * ((2 ^ fb : Nat) : Rat)).floor.toNat
      ((e + c.bias).toNat <<< fb) + f

/-- X (positive) is a value of the configuration: rounding does not change it -/
def exactlyRepresentable (c : Cfg) (X : Rat) : Bool :=
  match roundMag c X with
  | some m => m == X
  | none => false

/-- input class of the known defect D4 (`cfloat.convert.sat_nosup_cusp`): X lies at or below the binade of the
    all-ones exponent and its (unbounded-exponent) RNE lands on the value the inf encoding would have as a
    supernormal, (2 − 2/2^fbits)·2^top, or carries out of that binade to 2^(top+1) (the code then writes
    INF_ENCODING). With fbits ≥ 2 both values can only be reached from the binade of the all-ones exponent;
    with fbits = 1 the first one is 2^top itself and is also reached by a carry out of the binade below. -/
def roundsToInfPattern (c : Cfg) (X : Rat) : Bool :=
  let u := ulpAt c X
  let top : Int := (c.emax : Int) - c.bias
  let R := (rne (X / u) : Rat) * u
  decide (floorLog2 X ≤ top) &&
    (R == (2 - 2 / ((2 ^ c.fbits : Nat) : Rat)) * pow2 top || R == pow2 (top + 1))

def maxFiniteEnc (c : Cfg) : Nat := encodeMag c (maxFinite c)
def infEnc (c : Cfg) : Nat := 2 ^ (c.nbits - 1) - 2
def signBit (c : Cfg) (s : Bool) : Nat := if s then 2 ^ (c.nbits - 1) else 0

/-- the canonical encoding the spec expects for a non-zero exact result -/
def ieeeRound (c : Cfg) (x : Rat) : Nat :=
  let neg := decide (x < 0)
  let X := if neg then -x else x
  signBit c neg +
  match roundMag c X with
  | none => if c.sat then maxFiniteEnc c else infEnc c
  | some m => encodeMag c m

def showVal : Val → String
  | .nan s => if s then "snan" else "qnan"
  | .inf s => if s then "-inf" else "+inf"
  | .fin s m => (if s then "-" else "+") ++ showRat m

def showExpect (c : Cfg) : Expect → String
  | .nan => "NaN"
  | .inf s => if s then "-inf" else "+inf"
  | .zero none => "±0"
  | .zero (some s) => if s then "-0" else "+0"
  | .real x => s!"exact {showRat x} rounds to {toHex (ieeeRound c x)}"

/-! ### IEEE-754 binary32 / binary64 bit patterns (hardware twins, native conversions) -/

/-- value of an IEEE bit pattern with `eb` exponent and `fb` fraction bits -/
def ieeeVal (eb fb : Nat) (b : Nat) : Val :=
  let s := b.testBit (eb + fb)
  let e := (b >>> fb) % 2 ^ eb
  let f := b % 2 ^ fb
  let bias : Int := (2 ^ (eb - 1) : Nat) - 1
  let one : Rat := ((2 ^ fb : Nat) : Rat)
  if e = 2 ^ eb - 1 then (if f = 0 then .inf s else .nan (!f.testBit (fb - 1)))
  else if e = 0 then .fin s ((f : Rat) / one * pow2 (1 - bias))
  else .fin s ((1 + (f : Rat) / one) * pow2 ((e : Int) - bias))

/-- the cfloat configuration whose finite encodings coincide with IEEE binary(1+eb+fb) -/
def ieeeCfg (eb fb : Nat) : Cfg := { nbits := 1 + eb + fb, es := eb, bt := 32, sub := true, sup := false, sat := false }

/-- IEEE bit pattern of a value: RNE, overflow to infinity; NaN ↦ the default quiet NaN -/
def ieeeEncode (eb fb : Nat) (v : Val) : Nat :=
  let c := ieeeCfg eb fb
  let infB := (2 ^ eb - 1) <<< fb
  match v with
  | .nan _ => infB + 2 ^ (fb - 1)
  | .inf s => signBit c s + infB
  | .fin s m =>
    signBit c s +
    (if m = 0 then 0 else
     match roundMag c m with
     | none => infB
     | some r => if r ≥ pow2 ((2 ^ eb - 1 : Nat) - c.bias) then infB else encodeMag c r)

end UVerif.Cfloat
