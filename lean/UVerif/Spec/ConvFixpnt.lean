/-
  UVerif.Spec.ConvFixpnt — what properties C03 / C04 / C15 say about fixpnt<nbits, rbits, Modulo|Saturate>, on Int / Rat,
  independent of the model.

  An encoding `p < 2^n` denotes `toSigned n p / 2^r`.
  C03: a native source with exact value x is stored as the multiple of 2^-r nearest to x (ties to the even raw integer; exact
       when x is a multiple of 2^-r), and a magnitude outside the range "wraps or clamps per its arithmetic mode":
       Modulo reduces the rounded raw integer modulo 2^n, Saturate clamps it to [maxneg, maxpos].
  C04: read-back to a native floating-point type wide enough to hold the value is exact, converting back returns the
       encoding; integer reads return the exact value truncated toward zero whenever that fits the integer type.
  C15: `fixpnt<n2,r2> = fixpnt<n1,r1>` yields the target value nearest to the source value under the same rule.
-/
import UVerif.Basic
import UVerif.Spec.Fixpnt

namespace UVerif.ConvFixpntSpec
open UVerif

/-- exact value of an encoding -/
def value (n r p : Nat) : Rat := ((toSigned n p : Int) : Rat) / ((2 ^ r : Nat) : Rat)

/-- C03, integer source: v · 2^r is an integer, no rounding; wrap or clamp -/
def fromInt (n r : Nat) (sat : Bool) (v : Int) : Nat := FixpntSpec.finish n sat (v * ((2 ^ r : Nat) : Int))

/-- C03, real source x: round x · 2^r to the nearest integer (ties to even), then wrap or clamp -/
def fromRat (n r : Nat) (sat : Bool) (x : Rat) : Nat := FixpntSpec.finish n sat (rne (x * ((2 ^ r : Nat) : Rat)))

/-- C04: integer read = truncation toward zero -/
def toInt (n r p : Nat) : Int := truncZ (value n r p)

/-- C15: the same rounding and range rule between two configurations -/
def resize (n1 r1 n2 r2 : Nat) (sat : Bool) (p : Nat) : Nat := fromRat n2 r2 sat (value n1 r1 p)

/-- does `z` fit a native integer type of `sz` bits? -/
def fitsInt (sz : Nat) (signed : Bool) (z : Int) : Bool :=
  if signed then decide (-((2 ^ (sz - 1) : Nat) : Int) ≤ z) && decide (z < ((2 ^ (sz - 1) : Nat) : Int))
  else decide (0 ≤ z) && decide (z < ((2 ^ sz : Nat) : Int))

end UVerif.ConvFixpntSpec
