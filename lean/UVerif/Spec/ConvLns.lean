/-
  UVerif.Spec.ConvLns — what properties C03 / C04 / C15 say about the conversions of lns<nbits,rbits>, written from the
  property texts and the definition of the number system (value = (-1)^s · 2^(E / 2^rbits)), not from the C++.

  C03 (from native): "… for lns the nearest value in the logarithmic domain, or its neighbour when the source is within a
  few double ulps of a log-domain midpoint … Zeros, infinities and NaNs map to the type's zero, infinity/NaR and NaN
  encodings".  For a source x ≠ 0 the nearest exponent field is E = ⌊2^r·log2|x| + 1/2⌋ = ⌊(G+1)/2⌋ with
  G = ⌊2^(r+1)·log2|x|⌋.  "Within a few (k = 4) double ulps": with G_lo, G_hi computed for |x|·(1 − k·2^-52) and
  |x|·(1 + k·2^-52), every E between ⌊(G_lo+1)/2⌋ and ⌊(G_hi+1)/2⌋ is accepted (rounding to nearest is monotone).
  G is evaluated by the certified interval logarithm `Lns.floorLog` (sound: UVerifProofs/Lemmas/LnsLogSound.lean).
  Exact powers of two: x = 2^e gives G_lo = 2·e·2^r − 1, G_hi = 2·e·2^r, hence exactly E = e·2^r.
  Range: Saturating clamps to ±maxpos above the range and goes to zero or ±minpos below it; Wrapping stores the exponent
  field modulo 2^(nbits-1) (as C09 says for the arithmetic).  lns has no infinity: ±inf map to ±maxpos.

  C04 (to native): lns is not in the statement's list; the clause checked here is the one that makes sense for a
  transcendental read-back — exact when the value is a power of two (E a multiple of 2^r), otherwise faithful: within one
  unit in the last place of 2^(E/2^r), whenever the native type's normal range holds the value; the integer casts
  (= SignedInt(double(x))) return the truncation of a double within one ulp of the exact value (the exact truncation for
  powers of two); converting the native value back returns the encoding.  These predicates live in Driver/ConvLns.lean
  (`toNativeOk`, `truncInterval`, `holdable`) because they need the driver's certified enclosure of 2^(E/2^r).

  C15 (lns → lns): the target value nearest to the source value in the log domain, identity whenever representable
  (r2 ≥ r1 and in range), either neighbour on an exact log-domain tie.
-/
import UVerif.Basic
import UVerif.Spec.Lns

namespace UVerif.ConvLns.Spec
open UVerif UVerif.Lns

/-- a native source value -/
inductive Src where
  | nan
  | inf (neg : Bool)
  | zero
  | num (neg : Bool) (m : Nat) (e : Int)      -- (-1)^neg · m · 2^e, m > 0
deriving Repr

/-- ⌊2^s·log2 (m·2^e·(2^52 + d)/2^52)⌋ for m > 0, |d| < 2^52 (`none`: the certified bounds disagree) -/
def scaledLog (s : Nat) (m : Nat) (e : Int) (d : Int) : Option Int :=
  if m = 0 then none else
  let L := Nat.log2 m
  if L + 53 > P then none else
  -- y = m / 2^L ∈ [1, 2) as a P-bit fixed-point number, times (2^52 + d) / 2^52 — exact because P - L ≥ 52
  let y : Nat := (m * ((2 ^ 52 : Nat) + d).toNat) <<< (P - L - 52)
  match floorLog s ⟨y, y⟩ with
  | none => none
  | some g => some (g + ((2 ^ s : Nat) : Int) * (e + (L : Int)))

/-- how many double ulps count as "a few" -/
def fewUlps : Nat := 4

/-- the exponent fields (an interval) the property accepts for the source m·2^e with relative tolerance tol·2^-52 -/
def acceptedWith (r : Nat) (m : Nat) (e : Int) (tol : Nat) : Option (Int × Int) :=
  match scaledLog (r + 1) m e (-(tol : Int)), scaledLog (r + 1) m e (tol : Int) with
  | some glo, some ghi => some ((glo + 1) / 2, (ghi + 1) / 2)
  | _, _ => none

def accepted (r : Nat) (m : Nat) (e : Int) : Option (Int × Int) := acceptedWith r m e fewUlps

/-- does the encoding `res` store one of the exponents lo … hi (with the range rule of the behaviour)? -/
def storesOneOf (n : Nat) (wrap : Bool) (neg : Bool) (lo hi : Int) (res : Nat) : Bool :=
  if wrap then
    res < 2 ^ n && res.testBit (n - 1) == neg &&
      (List.range ((hi - lo).toNat + 1)).any (fun i => res % 2 ^ (n - 1) == ofSigned (n - 1) (lo + (i : Int)))
  else
    match decode n res with
    | .nan => false
    | .zero => lo < minE n                                   -- below the range: zero or ±minpos
    | .num s E =>
      s == neg &&
        ((lo ≤ E && E ≤ hi && minE n ≤ E && E ≤ maxE n)
          || (E == maxE n && hi ≥ maxE n)                    -- above the range: ±maxpos
          || (E == minE n && lo < minE n))

/-- C03: the acceptance predicate for `lns = native`; `none` = the interval evaluation could not decide -/
def fromOk (n r : Nat) (wrap : Bool) (src : Src) (res : Nat) : Option Bool :=
  if res ≥ 2 ^ n then some false else
  match src with
  | .nan => some (decode n res == .nan)
  | .zero => some (decode n res == .zero)
  | .inf neg => some (decode n res == .num neg (maxE n))
  | .num neg m e =>
    match accepted r m e with
    | none => none
    | some (lo, hi) => some (storesOneOf n wrap neg lo hi res)

/-- the nearest exponent (for messages and tags) -/
def nearestE (r : Nat) (m : Nat) (e : Int) : Option Int :=
  match scaledLog (r + 1) m e 0 with
  | some g => some ((g + 1) / 2)
  | none => none

/-! ### C15: lns<n1,r1> → lns<n2,r2> -/

/-- target exponents accepted for the source exponent E1 (units 2^-r1): exact rescaling when r2 ≥ r1, otherwise the
    nearest multiple, both neighbours on an exact tie -/
def rescale (r1 r2 : Nat) (E1 : Int) : Int × Int :=
  if r2 ≥ r1 then let E := E1 * ((2 ^ (r2 - r1) : Nat) : Int); (E, E)
  else
    let D : Int := ((2 ^ (r1 - r2) : Nat) : Int)
    let q := E1 / D                       -- floor
    let rem := E1 % D
    if rem = 0 then (q, q)
    else if 2 * rem < D then (q, q)
    else if 2 * rem > D then (q + 1, q + 1)
    else (q, q + 1)

def l2lOk (n2 r1 r2 : Nat) (wrap : Bool) (src : Val) (res : Nat) : Bool :=
  res < 2 ^ n2 &&
  match src with
  | .nan => decode n2 res == .nan
  | .zero => decode n2 res == .zero
  | .num neg E1 =>
    let (lo, hi) := rescale r1 r2 E1
    storesOneOf n2 wrap neg lo hi res

end UVerif.ConvLns.Spec
