/-
  UVerif.Spec.ConvPosInt — what property C15 says about the posit ↔ integer adapters, on `Rat`/`Int`,
  independent of the model.

  C15: a conversion between families "yields the target value nearest to the source value under the TARGET's rounding and
  range rule, and is the identity whenever the source value is representable in the target".
    * target integer<ibits>: its rule (C03/C04/C08) is truncation toward zero, then reduction modulo 2^ibits (two's complement);
    * target posit<n,es>: the Posit-Standard rounding relation `nearestB` (nearest, ties to the even encoding, never 0 and never
      NaR for a non-zero source, clamp to ±maxpos / ±minpos).
  NaR denotes no real number, so the text assigns it no integer: a NaR source is not judged (only canonical form).
-/
import UVerif.Basic
import UVerif.Spec.Posit

namespace UVerif.ConvPosIntSpec
open UVerif UVerif.Posit

/-- value of an `ibits`-bit two's-complement pattern -/
def intVal (ibits a : Nat) : Int := toSigned ibits a

/-- value of an `ibits`-bit pattern of integer<ibits, bt, NumberType>: two's complement for IntegerNumber, the plain binary
    value for WholeNumber / NaturalNumber (`u = true`) -/
def intValK (u : Bool) (ibits a : Nat) : Int := if u then ((a % 2 ^ ibits : Nat) : Int) else toSigned ibits a

/-- posit → integer: the pattern the property demands (`none` for NaR) -/
def p2iExpect (n es ibits p : Nat) : Option Nat :=
  (positVal n es p).map (fun x => ofSigned ibits (truncZ x))

/-- posit → integer: judge the implementation's raw storage `r` -/
def p2iOk (n es ibits p r : Nat) : Bool :=
  match p2iExpect n es ibits p with
  | none => r < 2 ^ ibits
  | some e => r == e

/-- integer → posit: `r` is the Standard's rounding of the exact integer value -/
def i2pOk (ibits n es a r : Nat) : Bool :=
  r < 2 ^ n && nearestB n es ((intVal ibits a : Int) : Rat) r

def i2pOkK (u : Bool) (ibits n es a r : Nat) : Bool :=
  r < 2 ^ n && nearestB n es ((intValK u ibits a : Int) : Rat) r

/-- the source integer is exactly a value of posit<n,es> and `r` is its encoding -/
def i2pExact (ibits n es a r : Nat) : Bool :=
  positVal n es r == some ((intVal ibits a : Int) : Rat)

def i2pExactK (u : Bool) (ibits n es a r : Nat) : Bool :=
  positVal n es r == some ((intValK u ibits a : Int) : Rat)

/-- the posit's value is an integer that fits integer<ibits> -/
def p2iRepresentable (n es ibits p : Nat) : Bool :=
  match positVal n es p with
  | none => false
  | some x => x.den == 1 && -(2 ^ (ibits - 1) : Nat) ≤ x.num && x.num < (2 ^ (ibits - 1) : Nat)

/-- the posit's value is an integer in the range of integer<ibits, bt, NumberType> -/
def p2iRepresentableK (u : Bool) (n es ibits p : Nat) : Bool :=
  match positVal n es p with
  | none => false
  | some x => x.den == 1 &&
      (if u then 0 ≤ x.num && x.num < (2 ^ ibits : Nat) else -(2 ^ (ibits - 1) : Nat) ≤ x.num && x.num < (2 ^ (ibits - 1) : Nat))

def rtiOkK (u : Bool) (ibits n es a r back : Nat) : Bool :=
  !(i2pExactK u ibits n es a r) || back == a % 2 ^ ibits

def rtpOkK (u : Bool) (n es ibits p v back : Nat) : Bool :=
  !(p2iRepresentableK u n es ibits p) || (some v == p2iExpect n es ibits p && back == p % 2 ^ n)

/-- round trip integer → posit → integer: whenever the integer is representable in the posit (so the first leg had to be
    exact), the second leg returns the original pattern -/
def rtiOk (ibits n es a r back : Nat) : Bool :=
  !(i2pExact ibits n es a r) || back == a % 2 ^ ibits

/-- round trip posit → integer → posit: whenever the posit's value is an integer that fits, both legs are exact -/
def rtpOk (n es ibits p v back : Nat) : Bool :=
  !(p2iRepresentable n es ibits p) || (some v == p2iExpect n es ibits p && back == p % 2 ^ n)

end UVerif.ConvPosIntSpec
