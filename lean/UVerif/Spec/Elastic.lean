/-
  UVerif.Spec.Elastic — what property C14 (and the decimal-text clause of C16) demands of the elastic types,
  written from the property text on `Int` and `Rat`, independent of the C++:
    * einteger / edecimal  + - * / % shifts negation comparisons = integer arithmetic, `/` truncating toward
      zero, `a == (a/b)*b + a%b`;
    * erational + - * / = rational arithmetic, printed in lowest terms, positive denominator, one zero `0/1`;
    * decimal output = the decimal expansion of the value.
-/
import UVerif.Basic

namespace UVerif.ElasticSpec

/-- exact result of a binary integer operator; `none` = outside the property (division by zero is C19). -/
def intBin (op : String) (a b : Int) : Option Int :=
  match op with
  | "add" => some (a + b)
  | "sub" => some (a - b)
  | "mul" => some (a * b)
  | "div" => if b = 0 then none else some (Int.tdiv a b)
  | "rem" => if b = 0 then none else some (Int.tmod a b)
  | _ => none

/-- left shift by `k` positions in radix `R` (2 for einteger, 10 for edecimal). -/
def shlSpec (R : Nat) (a : Int) (k : Nat) : Int := a * (R : Int) ^ k

/-- right shift: the quotient by `R^k`. The property text does not say whether a negative value is
    rounded toward zero or toward −∞, so both are accepted. -/
def shrSpec (R : Nat) (a : Int) (k : Nat) : List Int :=
  let t := Int.tdiv a ((R : Int) ^ k)
  let f := Int.fdiv a ((R : Int) ^ k)
  if t = f then [t] else [t, f]

/-- the six comparison operators as a bit mask: == != < <= > >= -/
def cmpMask (a b : Int) : Nat :=
  (if a = b then 1 else 0) + (if a ≠ b then 2 else 0) + (if a < b then 4 else 0) + (if a ≤ b then 8 else 0)
   + (if a > b then 16 else 0) + (if a ≥ b then 32 else 0)

/-- the decimal expansion of an integer: optional `-`, no leading zeros, `0` for zero. -/
def decText (a : Int) : String := toString a

def ratBin (op : String) (x y : Rat) : Option Rat :=
  match op with
  | "add" => some (x + y)
  | "sub" => some (x - y)
  | "mul" => some (x * y)
  | "div" => if y = 0 then none else some (x / y)
  | _ => none

/-- the one admissible text of a rational: lowest terms, positive denominator, sign in front, zero = `0/1`.
    (`Rat` is kept normalised by Lean core: `den > 0`, `num.natAbs` coprime to `den`.) -/
def ratText (q : Rat) : String := s!"{q.num}/{q.den}"

end UVerif.ElasticSpec
