/-
  UVerif.Spec.Except — property C19 ("exception mode changes error signalling only, never a computed value"),
  written from the property text and the comments of the `exceptions.hpp` files, not from the operators.

  For every family:  `…Err`  = the operands for which quiet mode signals an error condition (the property's list),
                     `…KindApplies` = the exception type whose documented meaning fits the operands,
  and one predicate `specCheck` that judges an observed pair (quiet build outcome, throwing build outcome).
  Encodings are naturals `< 2^nbits`; elastic operands are integers.
-/
import UVerif.Basic

namespace UVerif.Exc

/-- the operations the exception switches touch. `conv` = conversion to a native integer type. -/
inductive Op
  | add | sub | mul | div | rem | recip | conv
deriving DecidableEq, Repr, Inhabited

def Op.ofString? : String → Option Op
  | "add" => some .add | "sub" => some .sub | "mul" => some .mul | "div" => some .div | "rem" => some .rem
  | "rec" => some .recip
  | "tos" | "toi" | "tol" | "toll" | "tous" | "toui" | "toul" | "toull" => some .conv
  | _ => none

/-- arithmetic exception types of the `exceptions.hpp` files (only those an arithmetic operator can throw). -/
inductive ExcKind
  | posit_operand_is_nar | posit_divide_by_zero | posit_divide_by_nar | posit_numerator_is_nar | posit_nar
  | posit_division_result_is_zero | posit_division_result_is_infinite
  | cfloat_operand_is_nan | cfloat_divide_by_zero | cfloat_divide_by_nan
  | fixpnt_divide_by_zero
  | integer_divide_by_zero
  | lns_divide_by_zero
  | einteger_divide_by_zero | edecimal_integer_divide_by_zero | erational_divide_by_zero
deriving DecidableEq, Repr, Inhabited

def ExcKind.name : ExcKind → String
  | .posit_operand_is_nar => "posit_operand_is_nar"
  | .posit_divide_by_zero => "posit_divide_by_zero"
  | .posit_divide_by_nar => "posit_divide_by_nar"
  | .posit_numerator_is_nar => "posit_numerator_is_nar"
  | .posit_nar => "posit_nar"
  | .posit_division_result_is_zero => "posit_division_result_is_zero"
  | .posit_division_result_is_infinite => "posit_division_result_is_infinite"
  | .cfloat_operand_is_nan => "cfloat_operand_is_nan"
  | .cfloat_divide_by_zero => "cfloat_divide_by_zero"
  | .cfloat_divide_by_nan => "cfloat_divide_by_nan"
  | .fixpnt_divide_by_zero => "fixpnt_divide_by_zero"
  | .integer_divide_by_zero => "integer_divide_by_zero"
  | .lns_divide_by_zero => "lns_divide_by_zero"
  | .einteger_divide_by_zero => "einteger_divide_by_zero"
  | .edecimal_integer_divide_by_zero => "edecimal_integer_divide_by_zero"
  | .erational_divide_by_zero => "erational_divide_by_zero"

def ExcKind.all : List ExcKind :=
  [.posit_operand_is_nar, .posit_divide_by_zero, .posit_divide_by_nar, .posit_numerator_is_nar, .posit_nar,
   .posit_division_result_is_zero, .posit_division_result_is_infinite,
   .cfloat_operand_is_nan, .cfloat_divide_by_zero, .cfloat_divide_by_nan, .fixpnt_divide_by_zero,
   .integer_divide_by_zero, .lns_divide_by_zero, .einteger_divide_by_zero, .edecimal_integer_divide_by_zero,
   .erational_divide_by_zero]

def ExcKind.ofName? (s : String) : Option ExcKind := ExcKind.all.find? (fun k => k.name == s)

/-! ### posit — "NaR operand, division by zero or by NaR" -/
namespace PositSpec

/-- NaR is the encoding 1 0…0 (Posit Standard). -/
def isNaR (n a : Nat) : Bool := a == 2 ^ (n - 1)
/-- zero is the encoding 0…0. -/
def isZero (_n a : Nat) : Bool := a == 0

/-- operands for which quiet mode signals an error condition. `rec` is 1/a. -/
def err (n : Nat) (op : Op) (a b : Nat) : Bool :=
  match op with
  | .add | .sub | .mul => isNaR n a || isNaR n b
  | .div => isNaR n a || isNaR n b || isZero n b
  | .recip => isNaR n a || isZero n a
  | .conv => isNaR n a
  | .rem => false

/-- the documented meaning of each posit exception type (posit/exceptions.hpp):
    posit_nar "a rvar is NaR"; divide_by_zero "the denominator in a division operator is 0"; divide_by_nar
    "the denominator … is NaR"; numerator_is_nar "the numerator in a division operator is NaR"; operand_is_nar
    "an rvar in a binary operator is NaR". The two `division_result_*` types describe no operand. -/
def kindApplies (n : Nat) (op : Op) (a b : Nat) (k : ExcKind) : Bool :=
  match k with
  | .posit_operand_is_nar => (op == .add || op == .sub || op == .mul || op == .div) && (isNaR n a || isNaR n b)
  | .posit_divide_by_zero => (op == .div && isZero n b) || (op == .recip && isZero n a)
  | .posit_divide_by_nar => op == .div && isNaR n b
  | .posit_numerator_is_nar => op == .div && isNaR n a
  | .posit_nar => (op == .conv || op == .recip) && isNaR n a
  | _ => false

/-- the exception type the throwing build is documented to raise first (its tests run in this order). -/
def kind (n : Nat) (op : Op) (a b : Nat) : ExcKind :=
  match op with
  | .div => if isZero n b then .posit_divide_by_zero else if isNaR n b then .posit_divide_by_nar else .posit_numerator_is_nar
  | .conv => .posit_nar
  | .recip => if isZero n a then .posit_divide_by_zero else .posit_nar
  | _ => .posit_operand_is_nar

end PositSpec

/-! ### cfloat — "signalling NaN operand, division by zero/NaN" -/
namespace CFloatSpec

/-- configuration: nbits, es, subnormals, supernormals (saturation plays no role in classification). -/
structure Cfg where
  n : Nat
  es : Nat
  sub : Bool
  sup : Bool
deriving Repr, DecidableEq

def Cfg.fbits (c : Cfg) : Nat := c.n - 1 - c.es
def sign (c : Cfg) (a : Nat) : Bool := a / 2 ^ (c.n - 1) % 2 == 1
def expo (c : Cfg) (a : Nat) : Nat := a / 2 ^ c.fbits % 2 ^ c.es
def frac (c : Cfg) (a : Nat) : Nat := a % 2 ^ c.fbits

/-- infinity: exponent all ones, fraction 1…10 (both signs). -/
def isInf (c : Cfg) (a : Nat) : Bool := expo c a == 2 ^ c.es - 1 && frac c a + 2 == 2 ^ c.fbits
/-- NaN: with supernormals only exponent and fraction all ones; without supernormals every all-ones-exponent
    encoding that is not infinity. -/
def isNaN (c : Cfg) (a : Nat) : Bool :=
  expo c a == 2 ^ c.es - 1 && (if c.sup then frac c a + 1 == 2 ^ c.fbits else !(isInf c a))
/-- a NaN with the sign bit set is signalling, with the sign bit clear quiet. -/
def isSNaN (c : Cfg) (a : Nat) : Bool := isNaN c a && sign c a
def isQNaN (c : Cfg) (a : Nat) : Bool := isNaN c a && !sign c a
/-- zero: ±0; without subnormals every encoding with exponent field 0 reads as zero. -/
def isZero (c : Cfg) (a : Nat) : Bool := expo c a == 0 && (if c.sub then frac c a == 0 else true)

def err (c : Cfg) (op : Op) (a b : Nat) : Bool :=
  match op with
  | .add | .sub | .mul => isSNaN c a || isSNaN c b
  | .div => isSNaN c a || isSNaN c b || isZero c b || isNaN c b
  | _ => false

/-- cfloat/exceptions.hpp: divide_by_zero "divide by zero"; divide_by_nan "the denominator in a division operator
    is NaN"; operand_is_nan "an rvar in a binary operator is NaN". -/
def kindApplies (c : Cfg) (op : Op) (a b : Nat) (k : ExcKind) : Bool :=
  match k with
  | .cfloat_operand_is_nan => (op == .add || op == .sub || op == .mul || op == .div) && (isNaN c a || isNaN c b)
  | .cfloat_divide_by_zero => op == .div && isZero c b
  | .cfloat_divide_by_nan => op == .div && isNaN c b
  | _ => false

def kind (c : Cfg) (op : Op) (_a b : Nat) : ExcKind :=
  match op with
  | .div => if isZero c b then .cfloat_divide_by_zero else if isNaN c b then .cfloat_divide_by_nan else .cfloat_operand_is_nan
  | _ => .cfloat_operand_is_nan

end CFloatSpec

/-! ### fixpnt, integer — "division by zero" -/
namespace FixedSpec
def err (op : Op) (_a b : Nat) : Bool := (op == .div || op == .rem) && b == 0
def kindApplies (want : ExcKind) (op : Op) (a b : Nat) (k : ExcKind) : Bool := k == want && err op a b
end FixedSpec

/-! ### lns — "division by zero"; zero is the encoding 0.10…0 -/
namespace LnsSpec
def isZero (n a : Nat) : Bool := a == 2 ^ (n - 2)
def isNaN (n a : Nat) : Bool := a == 2 ^ (n - 1) + 2 ^ (n - 2)
def err (n : Nat) (op : Op) (_a b : Nat) : Bool := op == .div && isZero n b
def kindApplies (n : Nat) (op : Op) (a b : Nat) (k : ExcKind) : Bool := k == .lns_divide_by_zero && err n op a b
end LnsSpec

/-! ### elastic types — "division by zero" on integers -/
namespace ElasticSpec
def err (op : Op) (_a b : Int) : Bool := (op == .div || op == .rem) && b == 0
def kindApplies (want : ExcKind) (op : Op) (a b : Int) (k : ExcKind) : Bool := k == want && err op a b
end ElasticSpec

/-! ### the judgement of one observed pair -/

/-- what a build did with one operation: returned a value (text of the encoding), threw, or died in a hardware trap. -/
inductive Obs
  | val (v : String)
  | thrown (name : String)
  | trap
deriving DecidableEq, Repr, Inhabited

def Obs.ofString (s : String) : Option Obs :=
  if s.startsWith "ok:" then some (.val (s.drop 3).toString)
  else if s.startsWith "throw:" then some (.thrown (s.drop 6).toString)
  else if s == "sig:FPE" then some .trap
  else none

def Obs.toString : Obs → String
  | .val v => "ok:" ++ v
  | .thrown n => "throw:" ++ n
  | .trap => "sig:FPE"

def Obs.isThrown : Obs → Bool
  | .thrown _ => true
  | _ => false

/-- The property, clause by clause, for one operation on concrete operands.
    `errCond`  : the operands are in the property's list for the family;
    `applies`  : the exception type's documented meaning fits the operands;
    `stderrSignal` : the family's quiet-mode error signal is a message on std::cerr (fixpnt, integer, elastic) —
                     then quiet mode must signal exactly on the listed operands as well;
    `q`, `t`   : what the quiet and the throwing build did; `qe` : the quiet build wrote to std::cerr. -/
def specCheck (errCond : Bool) (applies : ExcKind → Bool) (stderrSignal : Bool) (q t : Obs) (qe : Bool) : Except String Unit := do
  -- (1) an operation that completes without throwing returns the quiet-mode encoding
  match t with
  | .val v =>
    if q != .val v then throw s!"throwing build returned {v}, quiet build {q.toString}"
  | .trap => throw "throwing build did not complete (hardware trap)"
  | .thrown _ => pure ()
  -- (2) thrown exactly for the listed operands
  if t.isThrown && !errCond then throw "exception thrown for operands outside the property's list"
  if !t.isThrown && errCond then throw "no exception although quiet mode signals an error for these operands"
  -- (3) of the documented type
  match t with
  | .thrown nm =>
    match ExcKind.ofName? nm with
    | some k => if !(applies k) then throw s!"exception type {nm} does not describe these operands"
    | none => throw s!"undocumented exception type {nm}"
  | _ => pure ()
  -- (4) quiet-mode signal on std::cerr exactly for the listed operands
  if stderrSignal && qe != errCond then
    throw (if qe then "quiet build wrote an error message to std::cerr for operands outside the property's list"
           else "quiet build wrote no error message for a listed operand")

/-- the same four clauses as one Boolean (what the theorems talk about; `specCheck` is this plus a reason text —
    `specCheck_ok_iff` in UVerifProofs/Lemmas/Except.lean). -/
def specHolds (errCond : Bool) (applies : ExcKind → Bool) (stderrSignal : Bool) (q t : Obs) (qe : Bool) : Bool :=
  (match t with
   | .val v => q == .val v
   | .trap => false
   | .thrown _ => true) &&
  (t.isThrown == errCond) &&
  (match t with
   | .thrown nm => (match ExcKind.ofName? nm with | some k => applies k | none => false)
   | _ => true) &&
  (!stderrSignal || qe == errCond)


end UVerif.Exc
