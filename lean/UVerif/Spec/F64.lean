/-
  UVerif.Spec.F64 — what the properties C13 / C10 say, on exact rationals, independent of Model.F64.

  * `valMag p ew B`   value of the magnitude pattern `B` (exponent field ‖ fraction field) of an IEEE-style
                      format, by the textbook formula; the formula is also used one step beyond the
                      largest finite pattern (the would-be value of the infinity pattern, `2^(emax+1)`),
                      which is what "round to nearest, overflow to infinity" compares against.
  * `isRN p ew x r`   the RELATION "pattern r is a round-to-nearest-even image of the exact rational x":
                      x lies between the midpoints to r's two neighbours, a midpoint only if r is even.
                      The sign of a zero result is not constrained.
  * `ulpMag`, `halfUlpOK`, `weakUlpOK`  the normalisation predicates of C10.
-/
import UVerif.Basic

namespace UVerif.SpecF64

/-- exponent of the smallest subnormal: `3 - 2^(ew-1) - p`. -/
def eminQ (p ew : Nat) : Int := 3 - (2 ^ (ew - 1) : Nat) - (p : Int)

/-- value of a magnitude pattern (sign bit removed); also defined for the infinity pattern. -/
def valMag (p ew : Nat) (B : Nat) : Rat :=
  let e := B >>> (p - 1)
  let fr := B % 2 ^ (p - 1)
  if e = 0 then dyadic fr (eminQ p ew)
  else dyadic (2 ^ (p - 1) + fr : Nat) (eminQ p ew + (e : Int) - 1)

def magOf (p ew : Nat) (b : Nat) : Nat := b % 2 ^ (p - 1 + ew)
def signOf (p ew : Nat) (b : Nat) : Bool := b.testBit (p - 1 + ew)
def infMag (p ew : Nat) : Nat := (2 ^ ew - 1) <<< (p - 1)
def isFinPat (p ew : Nat) (b : Nat) : Bool := magOf p ew b < infMag p ew
def isInfPat (p ew : Nat) (b : Nat) : Bool := magOf p ew b == infMag p ew
def isNaNPat (p ew : Nat) (b : Nat) : Bool := magOf p ew b > infMag p ew

/-- exact value of a finite pattern. -/
def valOf (p ew : Nat) (b : Nat) : Rat :=
  let v := valMag p ew (magOf p ew b)
  if signOf p ew b then -v else v

def absR (x : Rat) : Rat := if x < 0 then -x else x

/-- `r` is a round-to-nearest-even image of `x` (overflow to infinity included, NaN never). -/
def isRN (p ew : Nat) (x : Rat) (r : Nat) : Bool :=
  let B := magOf p ew r
  if B > infMag p ew then false
  else if B = 0 then
    -- zero (either sign): |x| at most half the smallest subnormal (zero is even, the tie goes to it)
    absR x ≤ valMag p ew 1 / 2
  else
    let y := if signOf p ew r then -x else x
    let lo := (valMag p ew (B - 1) + valMag p ew B) / 2
    let okLo := if B % 2 = 0 then lo ≤ y else lo < y
    if B = infMag p ew then okLo
    else
      let hi := (valMag p ew B + valMag p ew (B + 1)) / 2
      let okHi := if B % 2 = 0 then y ≤ hi else y < hi
      okLo && okHi

/-- unit in the last place of the binade of a finite magnitude pattern. -/
def ulpMag (p ew : Nat) (B : Nat) : Rat := valMag p ew (B + 1) - valMag p ew B

/-- `|lo| ≤ ½ ulp(hi)` (both finite patterns). -/
def halfUlpOK (p ew : Nat) (hi lo : Nat) : Bool :=
  2 * absR (valOf p ew lo) ≤ ulpMag p ew (magOf p ew hi) || (magOf p ew hi == 0 && magOf p ew lo == 0)

/-- `|lo| ≤ ulp(hi)` (weak normalisation). -/
def weakUlpOK (p ew : Nat) (hi lo : Nat) : Bool :=
  absR (valOf p ew lo) ≤ ulpMag p ew (magOf p ew hi)

/-! binary64 instances -/
def val64 (b : Nat) : Rat := valOf 53 11 b
def isFin64 (b : Nat) : Bool := isFinPat 53 11 b
def isNaN64 (b : Nat) : Bool := isNaNPat 53 11 b
def isInf64 (b : Nat) : Bool := isInfPat 53 11 b
def isRN64 (x : Rat) (r : Nat) : Bool := isRN 53 11 x r
def mag64 (b : Nat) : Nat := magOf 53 11 b

/-- `|a| ≤ max/2` on patterns: the guard of C13. -/
def halfMaxOK64 (b : Nat) : Bool := mag64 b ≤ 0x7fdfffffffffffff

end UVerif.SpecF64
