/-
  UVerif.Spec.Fixpnt — what property C07 says, on `Int`/`Rat`, independent of the limb model.
  A `fixpnt<n,r>` encoding `p < 2^n` denotes `toSigned n p / 2^r`.  Working in units of `2^-r` (raw integers):
  sum/difference are exact integers, the product is `a·b / 2^r`, the quotient `a·2^r / b`, both rounded to the
  nearest integer with ties to even; then Modulo wraps into `n` bits and Saturate clamps to [maxneg, maxpos].
-/
import UVerif.Basic

namespace UVerif.FixpntSpec
open UVerif

def val (n p : Nat) : Int := toSigned n p

def maxposZ (n : Nat) : Int := (2 ^ (n - 1) : Nat) - 1
def maxnegZ (n : Nat) : Int := -(2 ^ (n - 1) : Nat)

def clamp (n : Nat) (x : Int) : Int := if x > maxposZ n then maxposZ n else if x < maxnegZ n then maxnegZ n else x

/-- wrap (Modulo) or clamp (Saturate) an exact raw integer into an n-bit pattern -/
def finish (n : Nat) (sat : Bool) (x : Int) : Nat := if sat then ofSigned n (clamp n x) else ofSigned n x

def add (n : Nat) (sat : Bool) (a b : Nat) : Nat := finish n sat (val n a + val n b)
def sub (n : Nat) (sat : Bool) (a b : Nat) : Nat := finish n sat (val n a - val n b)
def neg (n : Nat) (sat : Bool) (a : Nat) : Nat := finish n sat (-(val n a))
def inc (n : Nat) (sat : Bool) (a : Nat) : Nat := finish n sat (val n a + 1)
def dec (n : Nat) (sat : Bool) (a : Nat) : Nat := finish n sat (val n a - 1)

/-- exact product in units of 2^-r -/
def mulExact (n r a b : Nat) : Rat := ((val n a * val n b : Int) : Rat) / ((2 ^ r : Nat) : Rat)
def mul (n r : Nat) (sat : Bool) (a b : Nat) : Nat := finish n sat (rne (mulExact n r a b))

/-- exact quotient in units of 2^-r (b ≠ 0) -/
def divExact (n r a b : Nat) : Rat := ((val n a * (2 ^ r : Nat) : Int) : Rat) / ((val n b : Int) : Rat)
def div (n r : Nat) (sat : Bool) (a b : Nat) : Nat := finish n sat (rne (divExact n r a b))

def cmpMask (n a b : Nat) : Nat :=
  let x := val n a
  let y := val n b
  (if x = y then 1 else 0) + (if x ≠ y then 2 else 0) + (if x < y then 4 else 0) + (if x ≤ y then 8 else 0)
    + (if x > y then 16 else 0) + (if x ≥ y then 32 else 0)

end UVerif.FixpntSpec
