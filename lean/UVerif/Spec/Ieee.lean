import UVerif.Basic
namespace UVerif

/-- exact value of an IEEE-754 binary interchange pattern (`none` = inf/NaN) -/
def ieeeVal (eb mb bits : Nat) : Option Rat :=
  let sign := bits.testBit (eb + mb)
  let E := (bits >>> mb) % 2 ^ eb
  let M := bits % 2 ^ mb
  let bias : Int := 2 ^ (eb - 1) - 1
  if E = 2 ^ eb - 1 then none
  else
    let mag : Rat := if E = 0 then dyadic M (1 - bias - mb) else dyadic (2 ^ mb + M : Nat) ((E : Int) - bias - mb)
    some (if sign then -mag else mag)

def ieeeIsNaN (eb mb bits : Nat) : Bool := (bits >>> mb) % 2 ^ eb == 2 ^ eb - 1 && bits % 2 ^ mb != 0
def ieeeIsInf (eb mb bits : Nat) : Bool := (bits >>> mb) % 2 ^ eb == 2 ^ eb - 1 && bits % 2 ^ mb == 0

/-- exact value of an x87 extended pattern -/
def x87Val (se mant : Nat) : Option Rat :=
  let sign := se.testBit 15
  let E : Nat := se % 2 ^ 15
  if E = 2 ^ 15 - 1 then none
  else
    let e : Int := (if E = 0 then 1 else (E : Int)) - 16383 - 63
    some (if sign then -(dyadic mant e) else dyadic mant e)

end UVerif
