/-
  UVerif.Spec.Integer — what property C08 says, on `Int`, independent of the limb model.
  An `integer<n>` encoding `p < 2^n` denotes `toSigned n p`; every ring operation returns the pattern of the
  exact `Int` result reduced modulo `2^n` (`ofSigned n`).
-/
import UVerif.Basic

namespace UVerif.IntegerSpec
open UVerif

/-- value of an `n`-bit pattern -/
def val (n p : Nat) : Int := toSigned n p

/-- pattern of an integer modulo 2^n -/
def wrap (n : Nat) (x : Int) : Nat := ofSigned n x

def fits (n : Nat) (x : Int) : Bool := n > 0 && -(2 ^ (n - 1) : Nat) ≤ x && x < (2 ^ (n - 1) : Nat)

def add (n a b : Nat) : Nat := wrap n (val n a + val n b)
def sub (n a b : Nat) : Nat := wrap n (val n a - val n b)
def mul (n a b : Nat) : Nat := wrap n (val n a * val n b)
def neg (n a : Nat) : Nat := wrap n (-(val n a))
def inc (n a : Nat) : Nat := wrap n (val n a + 1)
def dec (n a : Nat) : Nat := wrap n (val n a - 1)
/-- truncation toward zero -/
def div (n a b : Nat) : Nat := wrap n (Int.tdiv (val n a) (val n b))
def rem (n a b : Nat) : Nat := wrap n (Int.tmod (val n a) (val n b))
/-- bitwise operators act on the two's-complement patterns -/
def band (n a b : Nat) : Nat := (a &&& b) % 2 ^ n
def bor (n a b : Nat) : Nat := (a ||| b) % 2 ^ n
def bxor (n a b : Nat) : Nat := (a ^^^ b) % 2 ^ n
def bnot (n a : Nat) : Nat := wrap n (-(val n a) - 1)

/-- `a << k` for k ≥ 0 is `a·2^k`, `a >> k` is `⌊a / 2^k⌋` (arithmetic shift); a negative count shifts the other way -/
def shlZ (a : Int) (k : Int) : Int :=
  if k ≥ 0 then a * (2 ^ k.toNat : Nat) else a / ((2 ^ (-k).toNat : Nat) : Int)
def shl (n a : Nat) (k : Int) : Nat := wrap n (shlZ (val n a) k)
def shr (n a : Nat) (k : Int) : Nat := wrap n (shlZ (val n a) (-k))

/-- == != < <= > >= as a 6-bit mask -/
def cmpMask (n a b : Nat) : Nat :=
  let x := val n a
  let y := val n b
  (if x = y then 1 else 0) + (if x ≠ y then 2 else 0) + (if x < y then 4 else 0) + (if x ≤ y then 8 else 0)
    + (if x > y then 16 else 0) + (if x ≥ y then 32 else 0)

/-- size conversion n → m: the value is preserved whenever it fits (always when widening) -/
def resizeOk (n m a r : Nat) : Bool :=
  r < 2 ^ m && (!(fits m (val n a)) || r == wrap m (val n a))

/-- from a native signed / unsigned 64-bit integer -/
def fromIntOk (n : Nat) (v : Int) (r : Nat) : Bool :=
  r < 2 ^ n && (!(fits n v) || r == wrap n v)

/-- to `long long` (64-bit pattern `r`) / `unsigned long long` -/
def toI64Ok (n a r : Nat) : Bool := r < 2 ^ 64 && (!(fits 64 (val n a)) || r == wrap 64 (val n a))
def toU64Ok (n a r : Nat) : Bool :=
  r < 2 ^ 64 && (!(0 ≤ val n a && val n a < (2 ^ 64 : Nat)) || (r : Int) == val n a)

end UVerif.IntegerSpec
