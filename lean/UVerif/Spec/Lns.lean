/-
  UVerif.Spec.Lns — what property C09 says about lns<nbits,rbits>, written from the property text and the
  number system's definition, not from the C++.

  Encoding: bit nbits-1 is the sign s, the low nbits-1 bits are a two's-complement fixed-point exponent E with
  rbits fraction bits; value = (-1)^s · 2^(E / 2^rbits).  The exponent pattern 10…0 is special:
  0.10…0 is zero, 1.10…0 is NaN.

  mul / div: exact integer exponent sum / difference, sign product; Saturating clamps to maxpos and flushes to
  zero when out of range, Wrapping reduces modulo the exponent width.  This part of the spec is pure `Int`.

  add / sub: the result must be one of the (at most two) lns values that bracket the exact REAL sum
  S = ±2^(Ea/N) ± 2^(Eb/N), N = 2^rbits (the value itself when S is representable; maxpos when |S| ≥ maxpos;
  zero or ±minpos when 0 < |S| < minpos).  S is irrational in general.  With Ea ≥ Eb, d = Ea - Eb:
      log2 |S| · N = Ea + N·log2(1 ± 2^(-d/N)),
  and the bracket is decided by `floor (N·log2 (1 ± 2^(-d/N)))`, which is computed here with certified interval
  arithmetic on P-bit fixed-point naturals (square roots of two by integer Newton steps that are CHECKED by squaring,
  products and squarings rounded outward).  The only cases in which the real sum is exactly an lns value are
  d = 0 (add: E = Ea + N; sub: zero) and d = N (sub: E = Eb) — 1, u, …, u^(N-1) with u = 2^(1/N) are linearly
  independent over Q — and these are decided symbolically, so the interval evaluation is only asked about
  irrational targets; it answers `none` (reported, never silently accepted) if its two bounds disagree.
  Soundness of this evaluation (floorLog, pow2Frac, pow2Neg, magOf) is PROVED in
  UVerifProofs/Lemmas/Lns{Log,Exp,Mag}Sound.lean (theorem C09_addsub_spec_sound).
-/
import UVerif.Basic

namespace UVerif.Lns

/-- decoded lns encoding -/
inductive Val where
  | zero
  | nan
  | num (neg : Bool) (E : Int)
deriving Repr, DecidableEq

def specialPat (n : Nat) : Nat := 2 ^ (n - 2)

def decode (n b : Nat) : Val :=
  let b := b % 2 ^ n
  let s := b.testBit (n - 1)
  let ef := b % 2 ^ (n - 1)
  if ef = specialPat n then (if s then .nan else .zero)
  else .num s (toSigned (n - 1) ef)

/-- largest exponent (maxpos) and smallest representable exponent (minpos) in units of 2^-rbits -/
def maxE (n : Nat) : Int := (2 ^ (n - 2) : Nat) - 1
def minE (n : Nat) : Int := -((2 ^ (n - 2) : Nat) : Int) + 1

def encodeNum (n : Nat) (neg : Bool) (E : Int) : Nat :=
  (if neg then 2 ^ (n - 1) else 0) + ofSigned (n - 1) E

def zeroEnc (n : Nat) : Nat := specialPat n
def nanEnc (n : Nat) : Nat := 2 ^ (n - 1) + specialPat n

/-- value as a real is (-1)^neg · 2^(E/2^r); for r = 0 (or E a multiple of 2^r) it is rational: -/
def valRat? (r : Nat) : Val → Option Rat
  | .zero => some 0
  | .nan => none
  | .num neg E => if E % (2 ^ r : Nat) = 0 then
      let v := pow2 (E / (2 ^ r : Nat)); some (if neg then -v else v) else none

/-! ### order (for the comparison operators) -/

/-- spec order on decoded values: NaN unordered, zero = 0, otherwise sign and exponent -/
def lnsRealLt (a b : Val) : Bool :=
  match a, b with
  | .nan, _ => false
  | _, .nan => false
  | .zero, .zero => false
  | .zero, .num sb _ => !sb
  | .num sa _, .zero => sa
  | .num sa ea, .num sb eb =>
    if sa != sb then sa else if sa then ea > eb else ea < eb

def lnsRealEq (a b : Val) : Bool :=
  match a, b with
  | .nan, _ => false
  | _, .nan => false
  | x, y => x == y

def lnsCmpSpec (a b : Val) : Nat :=
  let nan := a == .nan || b == .nan
  let e := lnsRealEq a b
  let l := lnsRealLt a b
  let g := lnsRealLt b a
  (if e then 1 else 0) + (if !e then 2 else 0) + (if l then 4 else 0)
   + (if !nan && (l || e) then 8 else 0) + (if g then 16 else 0) + (if !nan && (g || e) then 32 else 0)

/-! ### mul / div -/

inductive Beh where
  | saturating
  | wrapping
deriving Repr, DecidableEq

/-- Saturating clamp of an exact exponent: maxpos above the range, zero below it. -/
def satResult (n : Nat) (neg : Bool) (S : Int) : Val :=
  if S ≥ maxE n then .num neg (maxE n)
  else if S < minE n then .zero
  else .num neg S

/-- what the property demands of `a * b` / `a / b` in Saturating behaviour (`none`: nothing is demanded, x/0). -/
def mulDivSat (n : Nat) (isDiv : Bool) (a b : Val) : Option Val :=
  match a, b with
  | .nan, _ => some .nan
  | _, .nan => some .nan
  | _, .zero => if isDiv then none else some .zero
  | .zero, _ => some .zero
  | .num sa ea, .num sb eb => some (satResult n (sa != sb) (if isDiv then ea - eb else ea + eb))

/-- Wrapping: the property speaks about the encoding's fields — exponent field = exact sum / difference reduced
    modulo 2^(nbits-1), sign bit = product of signs.  (The reduced exponent may be the special pattern.) -/
def wrapFields (n : Nat) (isDiv : Bool) (sa : Bool) (ea : Int) (sb : Bool) (eb : Int) : Bool × Nat :=
  (sa != sb, ofSigned (n - 1) (if isDiv then ea - eb else ea + eb))

def mulDivWrapOk (n : Nat) (isDiv : Bool) (a b : Val) (r : Nat) : Bool :=
  match a, b with
  | .nan, _ => decode n r == .nan
  | _, .nan => decode n r == .nan
  | _, .zero => if isDiv then true else decode n r == .zero
  | .zero, _ => decode n r == .zero
  | .num sa ea, .num sb eb =>
    let (s, ef) := wrapFields n isDiv sa ea sb eb
    r < 2 ^ n && r.testBit (n - 1) == s && r % 2 ^ (n - 1) == ef

/-! ### certified interval evaluation of floor (N · log2 (1 ± 2^(-d/N))) -/

/-- working precision (fraction bits of the fixed-point naturals) -/
def P : Nat := 192

/-- integer Newton iteration for ⌊√v⌋ (result is checked by the caller, not trusted). -/
def isqrtAux (v : Nat) : Nat → Nat → Nat
  | 0, x => x
  | fuel + 1, x =>
    let y := (x + v / x) / 2
    if y ≥ x then x else isqrtAux v fuel y

def isqrt (v : Nat) : Nat :=
  if v < 2 then v else isqrtAux v (Nat.log2 v + 8) (2 ^ (Nat.log2 v / 2 + 1))

/-- an interval [lo, hi] of P-bit fixed-point numbers: lo/2^P ≤ x ≤ hi/2^P -/
structure Ival where
  lo : Nat
  hi : Nat
deriving Repr

/-- enclosure of √x for x ∈ iv (scaled): checked bounds lo'² ≤ lo·2^P and hi'² ≥ hi·2^P; `none` if a check fails. -/
def Ival.sqrt (iv : Ival) : Option Ival :=
  let a := iv.lo * 2 ^ P
  let b := iv.hi * 2 ^ P
  let l := isqrt a
  let h := isqrt b + 1
  if l * l ≤ a ∧ b ≤ h * h then some ⟨l, h⟩ else none

def Ival.mul (x y : Ival) : Ival := ⟨(x.lo * y.lo) >>> P, ((x.hi * y.hi) >>> P) + 1⟩

def one : Nat := 2 ^ P

/-- successive square roots with a given (checked) square-root function: cur ↦ √cur ↦ √√cur ↦ … (k times) -/
def rootsOfTwoWith (sq : Ival → Option Ival) : Nat → Ival → List Ival → Option (List Ival)
  | 0, _, acc => some acc.reverse
  | k + 1, cur, acc =>
    match sq cur with
    | none => none
    | some s => rootsOfTwoWith sq k s (s :: acc)

/-- enclosures of 2^(1/2), 2^(1/4), …, 2^(1/2^r) (index 0 ↦ 2^(1/2)). -/
def rootsOfTwo : Nat → Ival → List Ival → Option (List Ival) := rootsOfTwoWith Ival.sqrt

/-- the root lists for rbits = 0 … 40, built once (a closed constant of the compiled driver). -/
def rootsTable : Array (Option (List Ival)) :=
  (Array.range 41).map (fun r => rootsOfTwo r ⟨2 * one, 2 * one⟩ [])

def rootsFor (r : Nat) : Option (List Ival) :=
  if h : r < rootsTable.size then rootsTable[r] else rootsOfTwo r ⟨2 * one, 2 * one⟩ []

/-- enclosure of 2^(k/2^r) for 0 ≤ k < 2^r as a product of the roots selected by the bits of k. -/
def pow2Frac (r k : Nat) : Option Ival :=
  match rootsFor r with
  | none => none
  | some roots =>
    -- root i (0-based) is 2^(1/2^(i+1)) and corresponds to bit r-1-i of k
    let rec go (i : Nat) (rs : List Ival) (acc : Ival) : Ival :=
      match rs with
      | [] => acc
      | t :: rest => go (i + 1) rest (if k.testBit (r - 1 - i) then acc.mul t else acc)
    some (go 0 roots ⟨one, one⟩)

/-- enclosure of w = 2^(-d/2^r) for d ≥ 0 (a value in (0, 1]). -/
def pow2Neg (r d : Nat) : Option Ival :=
  let N := 2 ^ r
  let q := d / N
  let j := d % N
  if j = 0 then some ⟨one >>> q, if one % 2 ^ q = 0 then one >>> q else (one >>> q) + 1⟩
  else
    match pow2Frac r (N - j) with
    | none => none
    | some t => some ⟨t.lo >>> (q + 1), (t.hi >>> (q + 1)) + 1⟩

/-- normalise v/2^P (v > 0) to mantissa M ∈ [2^P, 2^(P+1)) and exponent e with M·2^e ≤ v (rounding down). -/
def normDown (v : Nat) : Nat × Int :=
  let L := Nat.log2 v
  if L ≥ P then (v >>> (L - P), ((L - P : Nat) : Int)) else (v <<< (P - L), -((P - L : Nat) : Int))

/-- same, rounding up (M may reach 2^(P+1), which `stepUp` tolerates). -/
def normUp (v : Nat) : Nat × Int :=
  let L := Nat.log2 v
  if L ≥ P then
    let s := L - P
    ((v >>> s) + (if v % 2 ^ s = 0 then 0 else 1), (s : Int))
  else (v <<< (P - L), -((P - L : Nat) : Int))

/-- one squaring step of the digit-by-digit binary logarithm, mantissa rounded down. -/
def stepDown (st : Nat × Int) : Nat × Int :=
  let M2 := (st.1 * st.1) >>> P
  if M2 ≥ 2 ^ (P + 1) then (M2 >>> 1, 2 * st.2 + 1) else (M2, 2 * st.2)

/-- the same step with the mantissa rounded up; renormalises while the mantissa is ≥ 2 (at most twice). -/
def stepUp (st : Nat × Int) : Nat × Int :=
  let M2 := ((st.1 * st.1) >>> P) + 1
  let a := 2 * st.2
  if M2 ≥ 2 ^ (P + 1) then
    let M3 := (M2 + 1) >>> 1
    if M3 ≥ 2 ^ (P + 1) then ((M3 + 1) >>> 1, a + 2) else (M3, a + 1)
  else (M2, a)

def iter (f : Nat × Int → Nat × Int) : Nat → Nat × Int → Nat × Int
  | 0, s => s
  | k + 1, s => iter f k (f s)

/-- a lower bound of ⌊2^r · log2 (v/2^P)⌋ that is exact for some v' ≤ v -/
def floorLogDown (r v : Nat) : Int := (iter stepDown r (normDown v)).2
/-- an upper bound of ⌊2^r · log2 (v/2^P)⌋ that is exact for some v' ≥ v -/
def floorLogUp (r v : Nat) : Int := (iter stepUp r (normUp v)).2

/-- ⌊2^r·log2 y⌋ for every y in the interval, if the bounds agree. -/
def floorLog (r : Nat) (iv : Ival) : Option Int :=
  if iv.lo = 0 then none else
  let a := floorLogDown r iv.lo
  let b := floorLogUp r iv.hi
  if a = b then some a else none

/-- what the real sum of two magnitudes 2^(Ea/N) ± 2^(Eb/N) looks like on the lns lattice -/
inductive Mag where
  | zero                                  -- the magnitudes cancel exactly
  | at (F : Int)                          -- exactly the lattice point F
  | between (F : Int)                     -- strictly between lattice points F and F+1
  | undecided
deriving Repr, DecidableEq

/-- magnitude of 2^(Ea/N) + 2^(Eb/N) (`sub = false`) or |2^(Ea/N) - 2^(Eb/N)| (`sub = true`). -/
def magOf (r : Nat) (Ea Eb : Int) (sub : Bool) : Mag :=
  let N : Nat := 2 ^ r
  let hiE := max Ea Eb
  let d := (hiE - min Ea Eb).toNat
  if !sub then
    if d = 0 then .at (hiE + N)
    else match pow2Neg r d with
      | none => .undecided
      | some w =>
        -- 0 < w < 1/(2N)  ⇒  0 < N·log2(1+w) < 2·N·w < 1
        if w.hi * (2 * N) < one then .between hiE else
        match floorLog r ⟨one + w.lo, one + w.hi⟩ with
        | none => .undecided
        | some F => .between (hiE + F)
  else
    if d = 0 then .zero
    else if d = N then .at (hiE - N)
    else match pow2Neg r d with
      | none => .undecided
      | some w =>
        -- 0 < w < 1/(2N)  ⇒  -1 < -2·N·w < N·log2(1-w) < 0
        if w.hi * (2 * N) < one then .between (hiE - 1) else
        if w.hi ≥ one then .undecided else
        match floorLog r ⟨one - w.hi, one - w.lo⟩ with
        | none => .undecided
        | some F => .between (hiE + F)

/-- the exact real result of `a + b` / `a - b` located on the lattice -/
inductive Expect where
  | nan
  | zero
  | num (neg : Bool) (m : Mag)
deriving Repr

def addSubExpect (r : Nat) (isSub : Bool) (a b : Val) : Expect :=
  match a, b with
  | .nan, _ => .nan
  | _, .nan => .nan
  | .zero, .zero => .zero
  | .num sa ea, .zero => .num sa (.at ea)
  | .zero, .num sb eb => .num (sb != isSub) (.at eb)
  | .num sa ea, .num sb0 eb =>
    let sb := sb0 != isSub
    if sa == sb then .num sa (magOf r ea eb false)
    else
      -- opposite signs: the sign of the larger magnitude wins
      let neg := if ea > eb then sa else sb
      match magOf r ea eb true with
      | .zero => .zero
      | m => .num neg m

/-- is the located real result inside [minpos, maxpos] ? -/
def Mag.inRange (n : Nat) : Mag → Bool
  | .zero => true
  | .at F => minE n ≤ F && F ≤ maxE n
  | .between F => minE n ≤ F && F < maxE n
  | .undecided => true

/-- the property's acceptance predicate for add/sub: the result is adjacent to the exact real result. -/
def addSubOk (n : Nat) (e : Expect) (res : Val) : Bool :=
  match e with
  | .nan => res == .nan
  | .zero => res == .zero
  | .num neg m =>
    match m with
    | .zero => res == .zero
    | .undecided => false
    | .at F =>
      if F ≥ maxE n then res == .num neg (maxE n)
      else if F < minE n then res == .zero || res == .num neg (minE n)
      else res == .num neg F
    | .between F =>
      if F ≥ maxE n then res == .num neg (maxE n)
      else if F < minE n then res == .zero || res == .num neg (minE n)
      else res == .num neg F || res == .num neg (F + 1)

end UVerif.Lns
