/-
  UVerif.Spec.Posit — the value set of posit<n,es> and the Posit-Standard rounding rule,
  written from the Standard, not from the C++.
-/
import UVerif.Basic

namespace UVerif.Posit

/-- number of consecutive bits equal to `b` at positions `i-1, i-2, …` of `v` (stops at the first
    differing bit or at position 0). -/
def runLen (v : Nat) (b : Bool) : Nat → Nat
  | 0 => 0
  | i + 1 => if v.testBit i = b then runLen v b i + 1 else 0

/-- fields of a positive posit magnitude `y` (the low n-1 bits, 0 < y < 2^(n-1)):
    regime value k, exponent e (missing low exponent bits read as 0), fraction f on nf bits. -/
structure Fields where
  k  : Int
  e  : Nat
  f  : Nat
  nf : Nat
deriving Repr, DecidableEq

def fields (n es y : Nat) : Fields :=
  let r0 := y.testBit (n - 2)
  let m := runLen y r0 (n - 1)
  let k : Int := if r0 then (m : Int) - 1 else -(m : Int)
  let nrem := (n - 1) - m - 1          -- bits after regime run and its terminator
  let tail := y % 2 ^ nrem
  let ne := min es nrem
  let e := (tail >>> (nrem - ne)) <<< (es - ne)
  let nf := nrem - ne
  { k := k, e := e, f := tail % 2 ^ nf, nf := nf }

def Fields.scale (es : Nat) (x : Fields) : Int := x.k * (2 ^ es : Nat) + x.e

/-- value of a positive magnitude encoding. -/
def posVal (n es y : Nat) : Rat :=
  let x := fields n es y
  (1 + (x.f : Rat) / ((2 ^ x.nf : Nat) : Rat)) * pow2 (x.scale es)

/-- value of an n-bit posit encoding (`none` = NaR). -/
def positVal (n es b : Nat) : Option Rat :=
  let b := b % 2 ^ n
  if b = 0 then some 0
  else if b = 2 ^ (n - 1) then none
  else if b < 2 ^ (n - 1) then some (posVal n es b)
  else some (-(posVal n es (2 ^ n - b)))

def isNaR (n b : Nat) : Bool := b % 2 ^ n == 2 ^ (n - 1)

def maxposEnc (n : Nat) : Nat := 2 ^ (n - 1) - 1

/-- `NearestMag n es X R`: the magnitude encoding `R` (1 ≤ R ≤ maxpos) is the one the Posit Standard
    selects for the positive real `X`: clamp outside [minpos, maxpos]; otherwise, with U < X < W the
    adjacent posits and v the (n+1)-bit posit `2U+1`, U iff X < v or (X = v and U even). -/
def nearestMagB (n es : Nat) (X : Rat) (R : Nat) : Bool :=
  let maxE := maxposEnc n
  if R = 0 ∨ R > maxE then false
  else if X ≥ posVal n es maxE then R == maxE
  else if X ≤ posVal n es 1 then R == 1
  else
    let vR := posVal n es R
    if vR = X then true
    else if vR < X then
      -- candidate lower neighbour U = R : must NOT be the right choice being lower… i.e. R chosen as u
      R < maxE && X < posVal n es (R + 1) &&
        (let v := posVal (n + 1) es (2 * R + 1)
         X < v || (X == v && R % 2 == 0))
    else
      -- R is the upper neighbour W; U = R-1
      R > 1 && posVal n es (R - 1) < X &&
        (let U := R - 1
         let v := posVal (n + 1) es (2 * U + 1)
         !(X < v || (X == v && U % 2 == 0)))

/-- the rounding relation on full encodings: `r` is the correct n-bit posit for the exact real `x`. -/
def nearestB (n es : Nat) (x : Rat) (r : Nat) : Bool :=
  let r := r % 2 ^ n
  if x = 0 then r == 0
  else if x > 0 then r < 2 ^ (n - 1) && nearestMagB n es x r
  else r > 2 ^ (n - 1) && nearestMagB n es (-x) (2 ^ n - r)

def PositNearest (n es : Nat) (x : Rat) (r : Nat) : Prop := nearestB n es x r = true

instance (n es : Nat) (x : Rat) (r : Nat) : Decidable (PositNearest n es x r) := by
  unfold PositNearest; infer_instance

/-- executable rounding function (binary search over magnitudes); used to print the expected value. -/
def roundMag (n es : Nat) (X : Rat) : Nat :=
  let maxE := maxposEnc n
  if X ≥ posVal n es maxE then maxE
  else if X ≤ posVal n es 1 then 1
  else
    -- largest U with posVal U ≤ X, by bisection on [1, maxE]
    let rec go (fuel lo hi : Nat) : Nat :=
      match fuel with
      | 0 => lo
      | fuel + 1 =>
        if hi ≤ lo + 1 then lo
        else
          let mid := (lo + hi) / 2
          if posVal n es mid ≤ X then go fuel mid hi else go fuel lo mid
    let U := go (n + 1) 1 maxE
    if posVal n es U = X then U
    else
      let v := posVal (n + 1) es (2 * U + 1)
      if X < v || (X == v && U % 2 == 0) then U else U + 1

def positRound (n es : Nat) (x : Rat) : Nat :=
  if x = 0 then 0
  else if x > 0 then roundMag n es x
  else 2 ^ n - roundMag n es (-x)

end UVerif.Posit
