/-
  UVerif.Spec.Sqrt — what property C17 demands of sqrt, stated on exact rationals / integers and decided by squaring.
  Independent of every model.
-/
import UVerif.Basic
import UVerif.Spec.Posit

namespace UVerif.Sqrt
open UVerif UVerif.Posit

/-- faithful on a lattice given by a strictly increasing map `val` on the index range [lo, hi]:
    index `R` is acceptable for √x (x > 0) iff val R = √x, or val R and a direct neighbour bracket √x strictly.
    Everything is decided on squares (all values are ≥ 0). -/
def faithfulIdx (val : Nat → Rat) (lo hi : Nat) (x : Rat) (R : Nat) : Bool :=
  if R < lo ∨ R > hi then false
  else
    let v := val R
    if v * v = x then true
    else if v * v < x then
      -- R below the root: the next lattice point must be strictly above it (beyond `hi` the root would have left the lattice)
      if R = hi then true else (let w := val (R + 1); x < w * w)
    else
      if R = lo then true else (let u := val (R - 1); u * u < x)

/-- correctly rounded with the midpoint function `mid U` (the real that separates U from U+1) and tie → even index -/
def nearestIdx (val : Nat → Rat) (mid : Nat → Rat) (lo hi : Nat) (x : Rat) (R : Nat) : Bool :=
  if R < lo ∨ R > hi then false
  else
    let v := val R
    if v * v = x then true
    else if v * v < x then
      if R = hi then true
      else
        let w := val (R + 1)
        let m := mid R
        x < w * w && (x < m * m || (x == m * m && R % 2 == 0))
    else
      if R = lo then true
      else
        let U := R - 1
        let u := val U
        let m := mid U
        u * u < x && !(x < m * m || (x == m * m && U % 2 == 0))

/-- C17 for posit<n,es>: `a` argument encoding, `r` result encoding. Returns (ok, reason). -/
def positSqrtOk (n es a r : Nat) : Bool × String :=
  let a := a % 2 ^ n
  if r ≥ 2 ^ n then (false, "result has bits above nbits") else
  match positVal n es a with
  | none => (isNaR n r, "sqrt(NaR) must be NaR")
  | some x =>
    if x < 0 then (isNaR n r, "sqrt of a negative value must be NaR")
    else if x = 0 then (r == 0, "sqrt(0) must be 0")
    else
      let maxE := maxposEnc n
      if n ≤ 16 then
        (nearestIdx (posVal n es) (fun U => posVal (n + 1) es (2 * U + 1)) 1 maxE x r,
         "not the correctly rounded root (midpoint test by squaring)")
      else
        (faithfulIdx (posVal n es) 1 maxE x r, "not one of the two posits bracketing the root")

/-- monotonicity on a pair a ≤ b of non-negative arguments: results ordered the same way (encodings of non-negative posits
    are ordered like their values) -/
def positMonoOk (n es a b ra rb : Nat) : Bool :=
  match positVal n es a, positVal n es b, positVal n es ra, positVal n es rb with
  | some x, some y, some u, some v => if x ≥ 0 ∧ x ≤ y then u ≤ v else true
  | _, _, _, _ => true

/-- value of a fixpnt<nbits,rbits> encoding -/
def fixVal (n rb a : Nat) : Rat := dyadic (toSigned n a) (-(rb : Int))

/-- C17 for fixpnt<nbits,rbits> (non-negative argument): lattice index = raw two's complement integer ≥ 0 -/
def fixSqrtOk (n rb a r : Nat) : Bool × String :=
  if r ≥ 2 ^ n then (false, "result has bits above nbits") else
  let x := fixVal n rb a
  if x < 0 then (true, "negative argument: no NaN in fixpnt, only totality is demanded")
  else if x = 0 then (r == 0, "sqrt(0) must be 0")
  else
    let hi := 2 ^ (n - 1) - 1
    let val := fun (i : Nat) => dyadic i (-(rb : Int))
    if n ≤ 16 then
      (nearestIdx val (fun U => dyadic (2 * U + 1) (-(rb : Int) - 1)) 0 hi x r, "not the correctly rounded root (round-half-even)")
    else (faithfulIdx val 0 hi x r, "not one of the two fixed-point values bracketing the root")

/-- C17 for integer<nbits>: floor of the root -/
def intSqrtOk (a r : Nat) : Bool := r * r ≤ a && a < (r + 1) * (r + 1)

end UVerif.Sqrt
