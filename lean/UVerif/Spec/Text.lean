/-
  UVerif.Spec.Text — what property C16 says, as executable predicates that judge the IMPLEMENTATION's output.
  Deliberately independent of the models: decimal expansions come from Lean's own `Nat.repr`, values of
  encodings from the definitions below (two's complement integer, raw/2^rbits, sign|exponent|fraction fields).
-/
import UVerif.Basic

namespace UVerif.TextSpec

/-! ### values -/

/-- value of an `integer<nbits>` encoding. -/
def integerVal (nbits enc : Nat) : Int := toSigned nbits enc

/-- value of a `fixpnt<nbits,rbits>` encoding: `raw / 2^rbits`. -/
def fixpntVal (nbits rbits enc : Nat) : Rat := (toSigned nbits enc : Rat) / ((2 ^ rbits : Nat) : Rat)

/-- field layout of a `cfloat<nbits,es>` encoding: sign | es exponent bits | nbits-1-es fraction bits. -/
structure CfFields where
  sign : Bool
  exponent : Nat
  fraction : Nat
deriving BEq, Repr

def cfloatFields (nbits es enc : Nat) : CfFields :=
  let fbits := nbits - 1 - es
  { sign := enc.testBit (nbits - 1), exponent := (enc >>> fbits) % 2 ^ es, fraction := enc % 2 ^ fbits }

/-- value of an `einteger` state: sign and little-endian limbs of `w` bits. -/
def limbsVal (w : Nat) : List Nat → Nat
  | [] => 0
  | l :: ls => l + 2 ^ w * limbsVal w ls

def eintVal (w : Nat) (neg : Bool) (limbs : List Nat) : Int :=
  if neg then -(limbsVal w limbs : Int) else (limbsVal w limbs : Int)

/-! ### reading strings -/

def isDigitC (c : Char) : Bool := '0' ≤ c && c ≤ '9'
def isBinC (c : Char) : Bool := c == '0' || c == '1'

def digitsVal (base : Nat) (s : List Char) : Option Nat :=
  if s.isEmpty then none else
  s.foldl (fun acc c => match acc, hexDigitVal c with
    | some a, some d => if d < base then some (a * base + d) else none
    | _, _ => none) (some 0)

/-- the exact decimal expansion of an integer: `-` for negatives, no leading zeros, `0` for zero. -/
def decimalOfInt (x : Int) : String := toString x

/-- `[+-]?[0-9]+` → the integer it denotes. -/
def readSignedDecimal (s : List Char) : Option Int :=
  match s with
  | '-' :: r => (digitsVal 10 r).map (fun n => -(n : Int))
  | '+' :: r => (digitsVal 10 r).map (fun n => (n : Int))
  | r => (digitsVal 10 r).map (fun n => (n : Int))

/-- `[+-]?0[xX][0-9a-fA-F]+` → the integer it denotes. -/
def readSignedHex (s : List Char) : Option Int :=
  let body (r : List Char) : Option Nat := match r with
    | '0' :: x :: h => if x == 'x' || x == 'X' then digitsVal 16 h else none
    | _ => none
  match s with
  | '-' :: r => (body r).map (fun n => -(n : Int))
  | '+' :: r => (body r).map (fun n => (n : Int))
  | r => (body r).map (fun n => (n : Int))

def splitOnChar (c : Char) : List Char → List (List Char)
  | [] => [[]]
  | ch :: rest =>
    match splitOnChar c rest with
    | [] => [[]]
    | cur :: acc => if ch == c then [] :: cur :: acc else (ch :: cur) :: acc

/-! ### posit -/

/-- `nbits.esxHEXp` (the hex field may carry a `0x` prefix): denotes encoding `enc` of `posit<nbits,es>`? -/
def positHexDenotes (nbits es enc : Nat) (s : List Char) : Bool :=
  let pre := (toString nbits ++ "." ++ toString es ++ "x").toList
  if s.take pre.length != pre then false else
  let r := s.drop pre.length
  match r.reverse with
  | 'p' :: hr =>
    let h := hr.reverse
    let h := match h with
      | '0' :: 'x' :: t => t
      | _ => h
    digitsVal 16 h == some enc
  | _ => false

/-- if `s` is a posit text of exactly this configuration denoting an in-range pattern: that pattern. -/
def positCanonicalText (nbits es : Nat) (s : List Char) : Option Nat :=
  let pre := (toString nbits ++ "." ++ toString es ++ "x").toList
  if s.take pre.length != pre then none else
  let r := s.drop pre.length
  match r.reverse with
  | 'p' :: hr =>
    let h := hr.reverse
    let h := match h with
      | '0' :: 'x' :: t => t
      | _ => h
    if h.all (fun c => c != 'p' && c != 'P') then
      match digitsVal 16 h with
      | some v => if v < 2 ^ nbits then some v else none
      | none => none
    else none
  | _ => none

/-! ### cfloat / fixpnt binary forms -/

/-- `0b<s>.<e…>.<f…>` with exactly `es` exponent and `nbits-1-es` fraction characters: the encoding denoted. -/
def cfloatBinaryText (nbits es : Nat) (s : List Char) (allowTicks : Bool) : Option Nat :=
  match s with
  | '0' :: 'b' :: r =>
    let r := if allowTicks then r.filter (· != '\'') else r
    match splitOnChar '.' r with
    | [sg, e, f] =>
      if sg.length == 1 && e.length == es && f.length == nbits - 1 - es && (sg ++ e ++ f).all isBinC then
        digitsVal 2 (sg ++ e ++ f)
      else none
    | _ => none
  | _ => none

/-- `0b<int bits>.<fraction bits>` (`0b0.<…>` when `nbits = rbits`): the encoding denoted. -/
def fixpntBinaryText (nbits rbits : Nat) (s : List Char) (allowTicks : Bool) : Option Nat :=
  match s with
  | '0' :: 'b' :: r =>
    let r := if allowTicks then r.filter (· != '\'') else r
    match splitOnChar '.' r with
    | [i, f] =>
      if f.length == rbits && (i ++ f).all isBinC then
        if nbits > rbits then
          if i.length == nbits - rbits then digitsVal 2 (i ++ f) else none
        else if i == ['0'] then (if f.isEmpty then some 0 else digitsVal 2 f) else none
      else none
    | _ => none
  | _ => none

/-! ### fixpnt decimal output -/

/-- does `s` read as the exact, finite decimal expansion of `raw / 2^rbits`?  sign only when negative, integer
    part without leading zeros, then (optionally, when there is a fraction) `.` and fraction digits. -/
def fixpntDecimalOk (nbits rbits enc : Nat) (s : List Char) : Bool :=
  let x : Int := toSigned nbits enc
  let neg := x < 0
  let mag := x.natAbs
  let ip := mag / 2 ^ rbits
  let fp := mag % 2 ^ rbits
  let body := if neg then s.drop 1 else s
  if neg && s.head? != some '-' then false else
  match splitOnChar '.' body with
  | [i] => String.ofList i == toString ip && fp == 0
  | [i, f] =>
    String.ofList i == toString ip && f.all isDigitC &&
      (match digitsVal 10 f with
       | some fv => fv * 2 ^ rbits == fp * 10 ^ f.length
       | none => f.isEmpty && fp == 0)
  | _ => false

end UVerif.TextSpec
