import UVerifProofs.Lemmas.Quire
import UVerifProofs.Props.C01
import UVerifProofs.Props.C05
import UVerifProofs.Props.C03
import UVerifProofs.Props.C04
import UVerifProofs.Props.C06
import UVerifProofs.Props.C15
