import UVerifProofs.Lemmas.Quire
import UVerifProofs.Props.C01
import UVerifProofs.Props.C05
