import UVerifProofs.Props.C01
