/-
  UVerifProofs.Lemmas.ArealAssign — areal::operator=(float/double): the common body `assignCore` encloses its source
  (normal-target and subnormal-target branches, saturation, flush), the special patterns, and the reduction of
  `assignF32` / `assignF64` to the common body.
-/
import UVerif.Spec.Areal
import UVerif.Model.Areal
import UVerifProofs.Lemmas.ArealVal
import UVerifProofs.Lemmas.ArealBits

set_option linter.unusedSimpArgs false
set_option linter.unusedVariables false
set_option linter.unnecessarySeqFocus false

namespace UVerif.ArealLemmas
open UVerif UVerif.Areal

/-- the spec-side configuration of a model configuration -/
def specCfg (c : Model.Cfg) : Cfg := ⟨c.nbits, c.es⟩

theorem specCfg_fbits (c : Model.Cfg) : (specCfg c).fbits = c.fbits := rfl

theorem specCfg_bias (c : Model.Cfg) : (specCfg c).bias = c.EXP_BIAS := rfl

theorem specCfg_nbits (c : Model.Cfg) : (specCfg c).nbits = c.nbits := rfl

/-- a normalised source (raw0 + 2^srcF)·2^(exponent - srcF) on the target's scale: with u = fbits - srcF, d = srcF - fbits
    (one of them is 0), ft = raw0·2^u / 2^d the fraction field and lo = raw0·2^u mod 2^d what is dropped,
    the value is (ft + 2^fbits)·2^(exponent - fbits) + lo·2^(exponent - srcF - u). -/
theorem src_decomp (srcF F raw0 : Nat) (exponent : Int) (hraw : raw0 < 2 ^ srcF) :
    raw0 * 2 ^ (F - srcF) / 2 ^ (srcF - F) < 2 ^ F ∧
    raw0 * 2 ^ (F - srcF) % 2 ^ (srcF - F) < 2 ^ (srcF - F) ∧
    pow2 (exponent - (F : Int)) = pow2 (exponent - (srcF : Int) - ((F - srcF : Nat) : Int)) * ((2 ^ (srcF - F) : Nat) : Rat) ∧
    dyadic ((raw0 + 2 ^ srcF : Nat) : Int) (exponent - (srcF : Int)) =
      ((raw0 * 2 ^ (F - srcF) / 2 ^ (srcF - F) + 2 ^ F : Nat) : Rat) * pow2 (exponent - (F : Int)) +
        ((raw0 * 2 ^ (F - srcF) % 2 ^ (srcF - F) : Nat) : Rat) * pow2 (exponent - (srcF : Int) - ((F - srcF : Nat) : Int)) := by
  generalize hu : F - srcF = u
  generalize hd : srcF - F = d
  have hud : srcF + u = d + F := by omega
  set ft := raw0 * 2 ^ u / 2 ^ d with hft
  set lo := raw0 * 2 ^ u % 2 ^ d with hlo
  have hsplit : raw0 * 2 ^ u = 2 ^ d * ft + lo := (Nat.div_add_mod (raw0 * 2 ^ u) (2 ^ d)).symm
  have hlolt : lo < 2 ^ d := Nat.mod_lt _ (Nat.two_pow_pos _)
  have hftlt : ft < 2 ^ F := by
    apply Nat.div_lt_of_lt_mul
    rw [← Nat.pow_add, ← hud, Nat.pow_add]
    exact Nat.mul_lt_mul_of_pos_right hraw (Nat.two_pow_pos _)
  have hP : pow2 (exponent - (F : Int)) = pow2 (exponent - (srcF : Int) - (u : Int)) * ((2 ^ d : Nat) : Rat) := by
    rw [← pow2_add_nat]; congr 1; omega
  have hQ : pow2 (exponent - (srcF : Int)) = pow2 (exponent - (srcF : Int) - (u : Int)) * ((2 ^ u : Nat) : Rat) := by
    rw [← pow2_add_nat]; congr 1; omega
  refine ⟨hftlt, hlolt, hP, ?_⟩
  have hN : (raw0 + 2 ^ srcF) * 2 ^ u = (ft + 2 ^ F) * 2 ^ d + lo := by
    rw [Nat.add_mul, hsplit, ← Nat.pow_add, hud, Nat.pow_add]; ring
  have hNq : (((raw0 + 2 ^ srcF : Nat) : Int) : Rat) * ((2 ^ u : Nat) : Rat) = (((ft + 2 ^ F) * 2 ^ d + lo : Nat) : Rat) := by
    rw [← hN]; push_cast; ring
  rw [dyadic_def, hP, hQ]
  calc (((raw0 + 2 ^ srcF : Nat) : Int) : Rat) * (pow2 (exponent - (srcF : Int) - (u : Int)) * ((2 ^ u : Nat) : Rat))
      = ((((raw0 + 2 ^ srcF : Nat) : Int) : Rat) * ((2 ^ u : Nat) : Rat)) * pow2 (exponent - (srcF : Int) - (u : Int)) := by ring
    _ = _ := by rw [hNq]; push_cast; ring

/-- core of C18: a finite source (normalised: hidden bit explicit) whose exponent lies in [MIN_EXP_SUBNORMAL, MAX_EXP-1] and
    which is not in the all-ones top corner is enclosed by the encoding `operator=` produces — for every relation between
    the source's and the target's fraction width (right shift with sticky mask, or left shift). -/
theorem assignCore_encloses (c : Model.Cfg) (srcF W : Nat) (s : Bool) (exponent : Int) (raw0 : Nat)
    (hes : 1 ≤ c.es) (hn : c.es + 3 ≤ c.nbits) (hw : 1 ≤ c.w) (hW : c.nbits ≤ W) (hW64 : W ≤ 64)
    (hst : c.nrBlocks = 1 ∨ c.nrBlocks ≤ (W + 1) / c.w)
    (hraw : raw0 < 2 ^ srcF)
    (hlo : c.MIN_EXP_SUBNORMAL ≤ exponent) (hhi : exponent < c.MAX_EXP)
    (htop : ¬ (exponent = c.MAX_EXP - 1 ∧ raw0 * 2 ^ (c.fbits - srcF) / 2 ^ (srcF - c.fbits) = 2 ^ c.fbits - 1)) :
    encloses (specCfg c)
      (.fin s (dyadic ((raw0 + 2 ^ srcF : Nat) : Int) (exponent - (srcF : Int))))
      (Model.assignCore c srcF W s exponent raw0) = true := by
  obtain ⟨k1, k2, k3⟩ := model_consts c hes
  have hesS : 1 ≤ (specCfg c).es := hes
  have hnS : (specCfg c).es + 3 ≤ (specCfg c).nbits := hn
  by_cases hnorm : c.MIN_EXP_NORMAL ≤ exponent
  · -- normal target
    rw [assignCore_normal c srcF W s exponent raw0 hes hn hw hW hst hraw hnorm hhi htop]
    obtain ⟨hftlt, hlolt, hP, hx⟩ := src_decomp srcF c.fbits raw0 exponent hraw
    obtain ⟨be, hbe⟩ : ∃ be : Nat, exponent + c.EXP_BIAS = (be : Int) := ⟨(exponent + c.EXP_BIAS).toNat, by omega⟩
    rw [hbe, Int.toNat_natCast]
    have hbe1 : 1 ≤ be := by omega
    have hbe2 : be < 2 ^ c.es := by omega
    generalize hftd : raw0 * 2 ^ (c.fbits - srcF) / 2 ^ (srcF - c.fbits) = ft at *
    generalize hlod : raw0 * 2 ^ (c.fbits - srcF) % 2 ^ (srcF - c.fbits) = lo at *
    generalize hdd : srcF - c.fbits = d at *
    generalize hPd : pow2 (exponent - (srcF : Int) - ((c.fbits - srcF : Nat) : Int)) = P at *
    have hlast : ¬ (be = 2 ^ (specCfg c).es - 1 ∧ ft = 2 ^ (specCfg c).fbits - 1) := by
      rintro ⟨h1, h2⟩
      apply htop
      refine ⟨?_, h2⟩
      have : ((2 ^ c.es - 1 : Nat) : Int) = ((2 ^ c.es : Nat) : Int) - 1 := by
        have := Nat.two_pow_pos c.es; omega
      have h1' : (be : Int) = ((2 ^ c.es : Nat) : Int) - 1 := by rw [← this]; exact_mod_cast h1
      omega
    have hmv := magVal_fields (specCfg c) (e := be) (f := ft) hbe2 hftlt
    rw [specCfg_fbits] at hmv
    have hT : latT (specCfg c) be ft = ft + 2 ^ c.fbits := by unfold latT; rw [if_neg (by omega)]; rfl
    have hE : latE (specCfg c) be = exponent - (c.fbits : Int) := by
      unfold latE; rw [specCfg_bias, specCfg_fbits, show max be 1 = be by omega]; omega
    rw [hT, hE] at hmv
    have hPpos : 0 < P := by rw [← hPd]; exact pow2_pos _
    have := encloses_lattice (specCfg c) hesS hnS s (decide (lo ≠ 0)) hbe2
      (by rw [specCfg_fbits]; exact hftlt) hlast
      (dyadic ((raw0 + 2 ^ srcF : Nat) : Int) (exponent - (srcF : Int)))
      (by
        intro hu
        have hl0 : lo = 0 := by simpa using hu
        rw [specCfg_fbits, hmv, hx, hl0]; simp)
      (by
        intro hu
        have hl0 : lo ≠ 0 := by simpa using hu
        have hl1 : (1 : Rat) ≤ (lo : Rat) := by exact_mod_cast Nat.one_le_iff_ne_zero.mpr hl0
        have hl2 : (lo : Rat) < ((2 ^ d : Nat) : Rat) := by exact_mod_cast hlolt
        rw [specCfg_fbits, hmv, hx, hE, hP]
        constructor
        · nlinarith
        · intro _; nlinarith)
    rw [specCfg_fbits, specCfg_nbits] at this
    simpa using this
  · -- subnormal target
    have hsub : exponent < c.MIN_EXP_NORMAL := by omega
    rw [assignCore_subnormal c srcF W s exponent raw0 hes hn hw hW hW64 hst hraw hlo hsub]
    obtain ⟨k, hk⟩ : ∃ k : Nat, c.MIN_EXP_NORMAL - exponent = (k : Int) := ⟨(c.MIN_EXP_NORMAL - exponent).toNat, by omega⟩
    rw [hk, Int.toNat_natCast]
    have hk1 : 1 ≤ k := by omega
    have hkF : k ≤ c.fbits := by omega
    generalize hUd : c.fbits - (srcF + k) = U
    generalize hDd : srcF + k - c.fbits = D
    have hUD : srcF + k + U = D + c.fbits := by omega
    set R := raw0 + 2 ^ srcF with hR
    set t := R * 2 ^ U / 2 ^ D with ht
    set lo := R * 2 ^ U % 2 ^ D with hlo'
    have hRlt : R < 2 ^ (srcF + 1) := by rw [hR, Nat.pow_succ]; omega
    have htlt : t < 2 ^ c.fbits := by
      apply Nat.div_lt_of_lt_mul
      calc R * 2 ^ U < 2 ^ (srcF + 1) * 2 ^ U := Nat.mul_lt_mul_of_pos_right hRlt (Nat.two_pow_pos _)
        _ = 2 ^ (srcF + 1 + U) := by rw [← Nat.pow_add]
        _ ≤ 2 ^ (D + c.fbits) := Nat.pow_le_pow_right (by omega) (by omega)
        _ = 2 ^ D * 2 ^ c.fbits := Nat.pow_add ..
    have hsplit : R * 2 ^ U = 2 ^ D * t + lo := (Nat.div_add_mod (R * 2 ^ U) (2 ^ D)).symm
    have hlolt : lo < 2 ^ D := Nat.mod_lt _ (Nat.two_pow_pos _)
    have hE2 : 2 ≤ 2 ^ c.es := by
      calc 2 = 2 ^ 1 := rfl
        _ ≤ 2 ^ c.es := Nat.pow_le_pow_right (by omega) hes
    have hlast : ¬ (0 = 2 ^ (specCfg c).es - 1 ∧ t = 2 ^ (specCfg c).fbits - 1) := by
      rintro ⟨h1, _⟩
      have : 2 ^ (specCfg c).es = 2 ^ c.es := rfl
      omega
    have hmv := magVal_fields (specCfg c) (e := 0) (f := t) (Nat.two_pow_pos _) htlt
    rw [specCfg_fbits] at hmv
    have hT : latT (specCfg c) 0 t = t := by unfold latT; simp
    have hE : latE (specCfg c) 0 = c.MIN_EXP_NORMAL - (c.fbits : Int) := by
      unfold latE; rw [specCfg_bias, specCfg_fbits]; simp; omega
    rw [hT, hE] at hmv
    generalize hPd : pow2 (exponent - (srcF : Int) - (U : Int)) = P
    have hPpos : 0 < P := by rw [← hPd]; exact pow2_pos _
    have hP : pow2 (c.MIN_EXP_NORMAL - (c.fbits : Int)) = P * ((2 ^ D : Nat) : Rat) := by
      rw [← hPd, ← pow2_add_nat]; congr 1; omega
    have hQ : pow2 (exponent - (srcF : Int)) = P * ((2 ^ U : Nat) : Rat) := by
      rw [← hPd, ← pow2_add_nat]; congr 1; omega
    have hx : dyadic ((R : Nat) : Int) (exponent - (srcF : Int)) =
        (t : Rat) * pow2 (c.MIN_EXP_NORMAL - (c.fbits : Int)) + (lo : Rat) * P := by
      rw [dyadic_def, hP, hQ]
      have hNq : (((R : Nat) : Int) : Rat) * ((2 ^ U : Nat) : Rat) = ((2 ^ D * t + lo : Nat) : Rat) := by
        rw [← hsplit]; push_cast; ring
      calc (((R : Nat) : Int) : Rat) * (P * ((2 ^ U : Nat) : Rat))
          = ((((R : Nat) : Int) : Rat) * ((2 ^ U : Nat) : Rat)) * P := by ring
        _ = _ := by rw [hNq]; push_cast; ring
    have := encloses_lattice (specCfg c) hesS hnS s (decide (lo ≠ 0)) (e := 0) (f := t) (Nat.two_pow_pos _)
      (by rw [specCfg_fbits]; exact htlt) hlast
      (dyadic ((R : Nat) : Int) (exponent - (srcF : Int)))
      (by
        intro hu
        have hl0 : lo = 0 := by simpa using hu
        rw [specCfg_fbits, hmv, hx, hl0]; simp)
      (by
        intro hu
        have hl0 : lo ≠ 0 := by simpa using hu
        have hl1 : (1 : Rat) ≤ (lo : Rat) := by exact_mod_cast Nat.one_le_iff_ne_zero.mpr hl0
        have hl2 : (lo : Rat) < ((2 ^ D : Nat) : Rat) := by exact_mod_cast hlolt
        rw [specCfg_fbits, hmv, hx, hE, hP]
        constructor
        · nlinarith
        · intro _; nlinarith)
    rw [specCfg_fbits, specCfg_nbits] at this
    simpa using this

/-- `operator=(float)` on a finite normal float reduces to the common body -/
theorem assignF32_normal (c : Model.Cfg) (bc : Nat) (h1 : 1 ≤ (bc >>> 23) % 256) (h2 : (bc >>> 23) % 256 ≤ 254) :
    Model.assignF32 c bc =
      Model.assignCore c 23 32 (bc.testBit 31) ((((bc >>> 23) % 256 : Nat) : Int) - 127) (bc % 2 ^ 23) := by
  unfold Model.assignF32 Model.normalizeSrc
  have a1 : ((bc >>> 23) % 256 == 0xFF) = false := by simp; omega
  have a2 : ((bc >>> 23) % 256 == 0) = false := by simp; omega
  simp [a1, a2]

theorem assignF64_normal (c : Model.Cfg) (bc : Nat) (h1 : 1 ≤ (bc >>> 52) % 2048) (h2 : (bc >>> 52) % 2048 ≤ 2046) :
    Model.assignF64 c bc =
      Model.assignCore c 52 64 (bc.testBit 63) ((((bc >>> 52) % 2048 : Nat) : Int) - 1023) (bc % 2 ^ 52) := by
  unfold Model.assignF64 Model.normalizeSrc
  have a1 : ((bc >>> 52) % 2048 == 0x7FF) = false := by simp; omega
  have a2 : ((bc >>> 52) % 2048 == 0) = false := by simp; omega
  simp [a1, a2]

theorem pow2_mono {a b : Int} (h : a ≤ b) : pow2 a ≤ pow2 b := by
  obtain ⟨k, hk⟩ : ∃ k : Nat, b = a + k := ⟨(b - a).toNat, by omega⟩
  rw [hk, pow2_add_nat]
  have h1 : (1 : Rat) ≤ ((2 ^ k : Nat) : Rat) := by exact_mod_cast Nat.one_le_two_pow
  have := pow2_pos a
  nlinarith

/-- any x above the value of maxpos is enclosed by (maxpos, ∞) -/
theorem encloses_above_gt (c : Cfg) (hes : 1 ≤ c.es) (hn : c.es + 3 ≤ c.nbits) (neg : Bool) (x : Rat)
    (hx : ((2 ^ c.fbits - 2 + 2 ^ c.fbits : Nat) : Rat) *
        pow2 (((2 ^ c.es : Nat) : Int) - c.bias - 1 - (c.fbits : Int)) < x) :
    encloses c (.fin neg x) ((if neg then 2 ^ (c.nbits - 1) else 0) + maxposMag c + 1) = true := by
  obtain ⟨hF1, hN1, hN, hM, hNN⟩ := size_facts c hes hn
  have hE2 : 2 ≤ 2 ^ c.es := by
    calc 2 = 2 ^ 1 := rfl
      _ ≤ 2 ^ c.es := Nat.pow_le_pow_right (by omega) hes
  have hQ2 : 2 ≤ 2 ^ c.fbits := by
    calc 2 = 2 ^ 1 := rfl
      _ ≤ 2 ^ c.fbits := Nat.pow_le_pow_right (by omega) hF1
  have he : 2 ^ c.es - 1 < 2 ^ c.es := by omega
  have hf : 2 ^ c.fbits - 2 < 2 ^ c.fbits := by omega
  have hlast : ¬ (2 ^ c.es - 1 = 2 ^ c.es - 1 ∧ 2 ^ c.fbits - 2 = 2 ^ c.fbits - 1) := by omega
  have hmax : (2 ^ c.es - 1) * 2 ^ (c.fbits + 1) + 2 * (2 ^ c.fbits - 2) = maxposMag c := by
    exact ((mag_bounds c hes hn he hf hlast).2.1).mpr ⟨rfl, rfl⟩
  have hmv := magVal_fields c he hf
  have hT : latT c (2 ^ c.es - 1) (2 ^ c.fbits - 2) = 2 ^ c.fbits - 2 + 2 ^ c.fbits := by
    unfold latT; rw [if_neg (by omega)]
  have hE : latE c (2 ^ c.es - 1) = ((2 ^ c.es : Nat) : Int) - c.bias - 1 - (c.fbits : Int) := by
    unfold latE; rw [show max (2 ^ c.es - 1) 1 = 2 ^ c.es - 1 by omega]; omega
  have key : magVal c ((2 ^ c.es - 1) * 2 ^ (c.fbits + 1) + 2 * (2 ^ c.fbits - 2)) < x := by
    rw [hmv, hT, hE]; exact hx
  have := encloses_lattice c hes hn neg true he hf hlast x (by intro h; cases h)
    (by intro _; exact ⟨key, fun h => absurd ⟨rfl, rfl⟩ h⟩)
  rw [hmax] at this
  simpa using this

/-- any x at or above 2^MAX_EXP is enclosed by (maxpos, ∞) -/
theorem encloses_above (c : Cfg) (hes : 1 ≤ c.es) (hn : c.es + 3 ≤ c.nbits) (neg : Bool) (x : Rat)
    (hx : pow2 (((2 ^ c.es : Nat) : Int) - c.bias) ≤ x) :
    encloses c (.fin neg x) ((if neg then 2 ^ (c.nbits - 1) else 0) + maxposMag c + 1) = true := by
  apply encloses_above_gt c hes hn
  have hP : pow2 (((2 ^ c.es : Nat) : Int) - c.bias) =
      pow2 (((2 ^ c.es : Nat) : Int) - c.bias - 1 - (c.fbits : Int)) * ((2 ^ (c.fbits + 1) : Nat) : Rat) := by
    rw [← pow2_add_nat]; congr 1; push_cast; ring
  have hpos := pow2_pos (((2 ^ c.es : Nat) : Int) - c.bias - 1 - (c.fbits : Int))
  have hQ2 : 1 ≤ 2 ^ c.fbits := Nat.one_le_two_pow
  have hc : ((2 ^ c.fbits - 2 + 2 ^ c.fbits : Nat) : Rat) < ((2 ^ (c.fbits + 1) : Nat) : Rat) := by
    exact_mod_cast (show 2 ^ c.fbits - 2 + 2 ^ c.fbits < 2 ^ (c.fbits + 1) by rw [Nat.pow_succ]; omega)
  rw [hP] at hx
  nlinarith

/-- any positive x below the smallest subnormal is enclosed by (0, minpos) -/
theorem encloses_below (c : Cfg) (hes : 1 ≤ c.es) (hn : c.es + 3 ≤ c.nbits) (neg : Bool) (x : Rat)
    (hx0 : 0 < x) (hx : x < pow2 (1 - c.bias - (c.fbits : Int))) :
    encloses c (.fin neg x) ((if neg then 2 ^ (c.nbits - 1) else 0) + 1) = true := by
  obtain ⟨hF1, hN1, hN, hM, hNN⟩ := size_facts c hes hn
  have hE2 : 2 ≤ 2 ^ c.es := by
    calc 2 = 2 ^ 1 := rfl
      _ ≤ 2 ^ c.es := Nat.pow_le_pow_right (by omega) hes
  have hlast : ¬ (0 = 2 ^ c.es - 1 ∧ 0 = 2 ^ c.fbits - 1) := by omega
  have hmv := magVal_fields c (e := 0) (f := 0) (Nat.two_pow_pos _) (Nat.two_pow_pos _)
  have hT : latT c 0 0 = 0 := by unfold latT; simp
  have hE : latE c 0 = 1 - c.bias - (c.fbits : Int) := by unfold latE; simp
  have := encloses_lattice c hes hn neg true (e := 0) (f := 0) (Nat.two_pow_pos _) (Nat.two_pow_pos _) hlast x
    (by intro h; cases h)
    (by
      intro _
      rw [hmv, hT, hE]
      constructor
      · simpa using hx0
      · intro _; simpa using hx)
  simpa using this

/-- a signed zero is enclosed by its own encoding -/
theorem encloses_zero (c : Cfg) (hes : 1 ≤ c.es) (hn : c.es + 3 ≤ c.nbits) (neg : Bool) :
    encloses c (.fin neg 0) (if neg then 2 ^ (c.nbits - 1) else 0) = true := by
  have hE2 : 2 ≤ 2 ^ c.es := by
    calc 2 = 2 ^ 1 := rfl
      _ ≤ 2 ^ c.es := Nat.pow_le_pow_right (by omega) hes
  have hlast : ¬ (0 = 2 ^ c.es - 1 ∧ 0 = 2 ^ c.fbits - 1) := by omega
  have hmv := magVal_fields c (e := 0) (f := 0) (Nat.two_pow_pos _) (Nat.two_pow_pos _)
  have hT : latT c 0 0 = 0 := by unfold latT; simp
  have := encloses_lattice c hes hn neg false (e := 0) (f := 0) (Nat.two_pow_pos _) (Nat.two_pow_pos _) hlast 0
    (by intro _; rw [hmv, hT]; simp)
    (by intro h; cases h)
  simpa using this

/-- the saturated encodings as the spec writes them -/
theorem sat_enc (c : Model.Cfg) (hn : c.es + 3 ≤ c.nbits) (s : Bool) :
    (if s then Model.maxneg c else Model.maxpos c) ||| 1 =
      (if s then 2 ^ ((specCfg c).nbits - 1) else 0) + maxposMag (specCfg c) + 1 := by
  have hN : 2 ^ c.nbits = 2 * 2 ^ (c.nbits - 1) := by
    rw [show c.nbits = (c.nbits - 1) + 1 by omega, Nat.pow_succ]; simp; ring
  unfold Model.maxneg Model.maxpos maxposMag
  rw [specCfg_nbits]
  obtain ⟨q, hq, hq1⟩ : ∃ q, 2 ^ (c.nbits - 1) = 4 * q ∧ 1 ≤ q :=
    ⟨2 ^ (c.nbits - 3), by rw [show c.nbits - 1 = (c.nbits - 3) + 2 by omega, Nat.pow_add]; ring,
      Nat.two_pow_pos _⟩
  rw [hN, hq]
  have h := even_or_bit (x := if s then 2 * (4 * q) - 4 else 4 * q - 4)
    (by cases s <;> simp <;> omega) true
  simp only [if_true] at h
  rw [h]; cases s <;> simp <;> omega

/-- saturation branch: sources with unbiased exponent at or above MAX_EXP map to (maxpos, ∞) / (−∞, maxneg) -/
theorem assignCore_above (c : Model.Cfg) (srcF W : Nat) (s : Bool) (exponent : Int) (raw0 : Nat)
    (hes : 1 ≤ c.es) (hn : c.es + 3 ≤ c.nbits)
    (hhi : c.MAX_EXP ≤ exponent) :
    encloses (specCfg c)
      (.fin s (dyadic ((raw0 + 2 ^ srcF : Nat) : Int) (exponent - (srcF : Int))))
      (Model.assignCore c srcF W s exponent raw0) = true := by
  unfold Model.assignCore
  simp only [ge_iff_le, hhi, if_true]
  rw [sat_enc c hn s]
  apply encloses_above (specCfg c) hes hn
  rw [specCfg_bias, dyadic_def]
  have hM : (specCfg c).es = c.es := rfl
  rw [hM]
  have h1 : ((2 ^ c.es : Nat) : Int) - c.EXP_BIAS = c.MAX_EXP := rfl
  rw [h1]
  have h2 : pow2 c.MAX_EXP ≤ pow2 exponent := pow2_mono (by omega)
  have h3 : pow2 exponent = pow2 (exponent - (srcF : Int)) * ((2 ^ srcF : Nat) : Rat) := by
    rw [← pow2_add_nat]; congr 1; omega
  have hpos := pow2_pos (exponent - (srcF : Int))
  have h5 : ((2 ^ srcF : Nat) : Rat) ≤ (((raw0 + 2 ^ srcF : Nat) : Int) : Rat) := by
    have : 2 ^ srcF ≤ raw0 + 2 ^ srcF := by omega
    exact_mod_cast this
  rw [h3] at h2
  nlinarith

/-- the all-ones corner of the top binade (exponent MAX_EXP-1, every fraction-field bit set): the value is at least the
    would-be value of the inf pattern, hence beyond maxpos, and the repaired code saturates: (maxpos, ∞) / (−∞, maxneg) -/
theorem assignCore_top_encloses (c : Model.Cfg) (srcF W : Nat) (s : Bool) (exponent : Int) (raw0 : Nat)
    (hes : 1 ≤ c.es) (hn : c.es + 3 ≤ c.nbits) (hW : c.nbits ≤ W) (hraw : raw0 < 2 ^ srcF)
    (he : exponent = c.MAX_EXP - 1)
    (hf : raw0 * 2 ^ (c.fbits - srcF) / 2 ^ (srcF - c.fbits) = 2 ^ c.fbits - 1) :
    encloses (specCfg c)
      (.fin s (dyadic ((raw0 + 2 ^ srcF : Nat) : Int) (exponent - (srcF : Int))))
      (Model.assignCore c srcF W s exponent raw0) = true := by
  have hFW : c.fbits + 1 ≤ W := by unfold Model.Cfg.fbits; omega
  rw [assignCore_top c srcF W s exponent raw0 hes hraw hFW he hf, sat_enc c hn s]
  obtain ⟨hftlt, hlolt, hP, hx⟩ := src_decomp srcF c.fbits raw0 exponent hraw
  apply encloses_above_gt (specCfg c) hes hn
  rw [hx, hf, specCfg_bias, specCfg_fbits]
  have hM : (specCfg c).es = c.es := rfl
  rw [hM]
  have h1 : ((2 ^ c.es : Nat) : Int) - c.EXP_BIAS - 1 - (c.fbits : Int) = exponent - (c.fbits : Int) := by
    rw [he]; unfold Model.Cfg.MAX_EXP; ring
  rw [h1]
  have hpos := pow2_pos (exponent - (c.fbits : Int))
  have hpos2 := pow2_pos (exponent - (srcF : Int) - ((c.fbits - srcF : Nat) : Int))
  have hQ1 : 1 ≤ 2 ^ c.fbits := Nat.one_le_two_pow
  have hc : ((2 ^ c.fbits - 2 + 2 ^ c.fbits : Nat) : Rat) < ((2 ^ c.fbits - 1 + 2 ^ c.fbits : Nat) : Rat) := by
    have hF1 : 1 ≤ c.fbits := by unfold Model.Cfg.fbits; omega
    have : 2 ^ 1 ≤ 2 ^ c.fbits := Nat.pow_le_pow_right (by omega) hF1
    exact_mod_cast (show 2 ^ c.fbits - 2 + 2 ^ c.fbits < 2 ^ c.fbits - 1 + 2 ^ c.fbits by omega)
  have hl0 : (0 : Rat) ≤ ((raw0 * 2 ^ (c.fbits - srcF) % 2 ^ (srcF - c.fbits) : Nat) : Rat) := by positivity
  nlinarith

/-- flush branch: sources with unbiased exponent below MIN_EXP_SUBNORMAL map to (0, minpos) / (−minpos, −0) -/
theorem assignCore_below (c : Model.Cfg) (srcF W : Nat) (s : Bool) (exponent : Int) (raw0 : Nat)
    (hes : 1 ≤ c.es) (hn : c.es + 3 ≤ c.nbits) (hraw : raw0 < 2 ^ srcF)
    (hlo : exponent < c.MIN_EXP_SUBNORMAL) :
    encloses (specCfg c)
      (.fin s (dyadic ((raw0 + 2 ^ srcF : Nat) : Int) (exponent - (srcF : Int))))
      (Model.assignCore c srcF W s exponent raw0) = true := by
  obtain ⟨k1, k2, k3⟩ := model_consts c hes
  have hes2 : ((2 ^ c.es : Nat) : Int) ≥ 2 := by
    have : 2 ^ 1 ≤ 2 ^ c.es := Nat.pow_le_pow_right (by omega) hes
    omega
  have hmax : ¬ exponent ≥ c.MAX_EXP := by omega
  unfold Model.assignCore
  simp only [hmax, if_false, hlo, if_true]
  have henc : (if s then Model.signBit c else 0) ||| 1 = (if s then 2 ^ ((specCfg c).nbits - 1) else 0) + 1 := by
    unfold Model.signBit
    rw [specCfg_nbits]
    have hev : (if s then 2 ^ (c.nbits - 1) else 0) % 2 = 0 := by
      cases s
      · simp
      · simp only [if_true]
        rw [show c.nbits - 1 = (c.nbits - 2) + 1 by omega, Nat.pow_succ]; omega
    have h := even_or_bit hev true
    simpa using h
  rw [henc]
  have hpos := pow2_pos (exponent - (srcF : Int))
  apply encloses_below (specCfg c) hes hn
  · rw [dyadic_def]
    have : (0 : Rat) < (((raw0 + 2 ^ srcF : Nat) : Int) : Rat) := by
      have : 0 < raw0 + 2 ^ srcF := by have := Nat.two_pow_pos srcF; omega
      exact_mod_cast this
    positivity
  · rw [specCfg_bias, specCfg_fbits, dyadic_def]
    have h1 : 1 - c.EXP_BIAS - (c.fbits : Int) = c.MIN_EXP_SUBNORMAL := rfl
    rw [h1]
    have h2 : pow2 (exponent + 1) ≤ pow2 c.MIN_EXP_SUBNORMAL := pow2_mono (by omega)
    have h3 : pow2 (exponent + 1) = pow2 (exponent - (srcF : Int)) * ((2 ^ (srcF + 1) : Nat) : Rat) := by
      rw [← pow2_add_nat]; congr 1; push_cast; ring
    have h5 : (((raw0 + 2 ^ srcF : Nat) : Int) : Rat) < ((2 ^ (srcF + 1) : Nat) : Rat) := by
      have : raw0 + 2 ^ srcF < 2 ^ (srcF + 1) := by rw [Nat.pow_succ]; omega
      exact_mod_cast this
    rw [h3] at h2
    nlinarith

/-- EVERY normalised finite source is enclosed by what the common body produces -/
theorem assignCore_encloses_all (c : Model.Cfg) (srcF W : Nat) (s : Bool) (exponent : Int) (raw0 : Nat)
    (hes : 1 ≤ c.es) (hn : c.es + 3 ≤ c.nbits) (hw : 1 ≤ c.w) (hW : c.nbits ≤ W) (hW64 : W ≤ 64)
    (hst : c.nrBlocks = 1 ∨ c.nrBlocks ≤ (W + 1) / c.w) (hraw : raw0 < 2 ^ srcF) :
    encloses (specCfg c)
      (.fin s (dyadic ((raw0 + 2 ^ srcF : Nat) : Int) (exponent - (srcF : Int))))
      (Model.assignCore c srcF W s exponent raw0) = true := by
  by_cases habove : c.MAX_EXP ≤ exponent
  · exact assignCore_above c srcF W s exponent raw0 hes hn habove
  by_cases hbelow : exponent < c.MIN_EXP_SUBNORMAL
  · exact assignCore_below c srcF W s exponent raw0 hes hn hraw hbelow
  by_cases htop : exponent = c.MAX_EXP - 1 ∧ raw0 * 2 ^ (c.fbits - srcF) / 2 ^ (srcF - c.fbits) = 2 ^ c.fbits - 1
  · exact assignCore_top_encloses c srcF W s exponent raw0 hes hn hW hraw htop.1 htop.2
  · exact assignCore_encloses c srcF W s exponent raw0 hes hn hw hW hW64 hst hraw (by omega) (by omega) htop

/-- normalisation of a subnormal source (exponent field 0, fraction raw ≠ 0): the result is a fraction below 2^srcF and
    the normalised pair denotes the same value raw·2^(1 - srcBias - srcF) -/
theorem normalizeSrc_subnormal (srcF srcBias raw : Nat) (hraw : raw < 2 ^ srcF) (h0 : 0 < raw) :
    (Model.normalizeSrc srcF srcBias 0 raw).2 < 2 ^ srcF ∧
    dyadic ((raw : Nat) : Int) (1 - (srcBias : Int) - (srcF : Int)) =
      dyadic (((Model.normalizeSrc srcF srcBias 0 raw).2 + 2 ^ srcF : Nat) : Int)
        ((Model.normalizeSrc srcF srcBias 0 raw).1 - (srcF : Int)) := by
  unfold Model.normalizeSrc
  simp only [beq_self_eq_true, if_true]
  have hne : raw ≠ 0 := by omega
  have hm1 : 2 ^ raw.log2 ≤ raw := Nat.log2_self_le hne
  have hm2 : raw < 2 ^ (raw.log2 + 1) := Nat.lt_log2_self
  have hm3 : raw.log2 < srcF := (Nat.log2_lt hne).mpr hraw
  generalize raw.log2 = m at *
  have hsh : srcF + 1 - (m + 1) = srcF - m := by omega
  rw [hsh, Nat.shiftLeft_eq]
  have hlo : 2 ^ srcF ≤ raw * 2 ^ (srcF - m) := by
    calc 2 ^ srcF = 2 ^ m * 2 ^ (srcF - m) := by rw [← Nat.pow_add]; congr 1; omega
      _ ≤ raw * 2 ^ (srcF - m) := Nat.mul_le_mul_right _ hm1
  have hhi : raw * 2 ^ (srcF - m) < 2 ^ srcF + 2 ^ srcF := by
    calc raw * 2 ^ (srcF - m) < 2 ^ (m + 1) * 2 ^ (srcF - m) := Nat.mul_lt_mul_of_pos_right hm2 (Nat.two_pow_pos _)
      _ = 2 ^ (srcF + 1) := by rw [← Nat.pow_add]; congr 1; omega
      _ = 2 ^ srcF + 2 ^ srcF := by rw [Nat.pow_succ]; omega
  have hmod : raw * 2 ^ (srcF - m) % 2 ^ srcF = raw * 2 ^ (srcF - m) - 2 ^ srcF := by
    rw [Nat.mod_eq_sub_mod hlo, Nat.mod_eq_of_lt (by omega)]
  rw [hmod]
  refine ⟨by omega, ?_⟩
  rw [show raw * 2 ^ (srcF - m) - 2 ^ srcF + 2 ^ srcF = raw * 2 ^ (srcF - m) by omega, dyadic_def, dyadic_def]
  have hP : pow2 (1 - (srcBias : Int) - (srcF : Int)) =
      pow2 (1 - (srcBias : Int) - ((srcF - m : Nat) : Int) - (srcF : Int)) * ((2 ^ (srcF - m) : Nat) : Rat) := by
    rw [← pow2_add_nat]; congr 1; omega
  rw [hP]; push_cast; ring

theorem testBit_top_areal {x k : Nat} (h : x < 2 ^ (k + 1)) : x.testBit k = decide (2 ^ k ≤ x) := by
  by_cases hx : 2 ^ k ≤ x
  · obtain ⟨y, rfl⟩ : ∃ y, x = 2 ^ k + y := ⟨x - 2 ^ k, by omega⟩
    have hy : y < 2 ^ k := by rw [Nat.pow_succ] at h; omega
    rw [Nat.testBit_two_pow_add_eq, Nat.testBit_lt_two_pow hy]; simp [hx]
  · have : x < 2 ^ k := by omega
    rw [Nat.testBit_lt_two_pow this]; simp [hx]

/-- the inf and NaN patterns written by `setinf` / `setnan` are what the spec calls ±inf / NaN -/
theorem encloses_inf_nan (c : Model.Cfg) (hn : 4 ≤ c.nbits) (s : Bool) :
    encloses (specCfg c) (.inf s) (Model.setinf c s) = true ∧
    encloses (specCfg c) .nan (Model.setnanSignalling c) = true ∧
    encloses (specCfg c) .nan (Model.setnanQuiet c) = true := by
  have hN : 2 ^ c.nbits = 2 * 2 ^ (c.nbits - 1) := by
    rw [show c.nbits = (c.nbits - 1) + 1 by omega, Nat.pow_succ]; simp; ring
  have h4 : 4 ≤ 2 ^ (c.nbits - 1) := by
    calc 4 = 2 ^ 2 := rfl
      _ ≤ 2 ^ (c.nbits - 1) := Nat.pow_le_pow_right (by omega) (by omega)
  have hmod : ∀ y, y < 2 ^ (c.nbits - 1) → (2 ^ (c.nbits - 1) + y) % 2 ^ (c.nbits - 1) = y := by
    intro y hy; rw [Nat.add_mod_left]; exact Nat.mod_eq_of_lt hy
  have htb : ∀ b, b < 2 ^ c.nbits → b.testBit (c.nbits - 1) = decide (2 ^ (c.nbits - 1) ≤ b) := by
    intro b hb; exact testBit_top_areal (by rwa [show c.nbits - 1 + 1 = c.nbits by omega])
  unfold encloses isInf isNaN magOf signOf infMag nanMag Model.setinf Model.setnanSignalling Model.setnanQuiet
  simp only [specCfg_nbits]
  refine ⟨?_, ?_, ?_⟩
  · cases s
    · have hb : 2 ^ (c.nbits - 1) - 2 < 2 ^ c.nbits := by omega
      simp only [Bool.false_eq_true, if_false, hb, decide_true, Bool.true_and, htb _ hb,
        Nat.mod_eq_of_lt (show 2 ^ (c.nbits - 1) - 2 < 2 ^ (c.nbits - 1) by omega)]
      simp
    · have hb : 2 ^ c.nbits - 2 < 2 ^ c.nbits := by omega
      have : 2 ^ c.nbits - 2 = 2 ^ (c.nbits - 1) + (2 ^ (c.nbits - 1) - 2) := by omega
      simp only [if_true, hb, decide_true, Bool.true_and, htb _ hb]
      rw [this, hmod _ (by omega)]
      simp
  · have hb : 2 ^ c.nbits - 1 < 2 ^ c.nbits := by omega
    have : 2 ^ c.nbits - 1 = 2 ^ (c.nbits - 1) + (2 ^ (c.nbits - 1) - 1) := by omega
    simp only [hb, decide_true, Bool.true_and]
    rw [this, hmod _ (by omega)]
    simp
  · have hb : 2 ^ (c.nbits - 1) - 1 < 2 ^ c.nbits := by omega
    simp only [hb, decide_true, Bool.true_and, Nat.mod_eq_of_lt (show 2 ^ (c.nbits - 1) - 1 < 2 ^ (c.nbits - 1) by omega)]
    simp


end UVerif.ArealLemmas
