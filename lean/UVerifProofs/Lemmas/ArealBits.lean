/-
  UVerifProofs.Lemmas.ArealBits — the bit assembly of areal::operator=(float/double): the uint32/uint64 construction
  `s << es | biasedExponent << (nbits-1-es) | raw, & ~1, | ubit`, the sticky masks, the limb store, for the normal-target and
  the subnormal-target (normal source) branches.  Result: the encoding written as sign·2^(nbits-1) + e·2^(fbits+1) + 2f + u.
-/
import UVerif.Spec.Areal
import UVerif.Model.Areal
import Mathlib.Tactic.Ring
import Mathlib.Tactic.SplitIfs

set_option linter.unusedSimpArgs false
set_option linter.unusedVariables false

namespace UVerif.ArealLemmas
open UVerif UVerif.Areal

theorem even_or_bit {x : Nat} (hx : x % 2 = 0) (u : Bool) :
    x ||| (if u then 1 else 0) = x + (if u then 1 else 0) := by
  cases u
  · simp
  · have h := Nat.two_pow_add_eq_or_of_lt (i := 1) (b := 1) (by norm_num) (x / 2)
    have hx2 : 2 ^ 1 * (x / 2) = x := by omega
    rw [hx2] at h
    simpa using h.symm

/-- the construction `bits = s; bits <<= es; bits |= be; bits <<= nbits-1-es; bits |= raw; bits &= ~1; bits |= ubit`
    on a W-bit unsigned, when everything fits -/
theorem assemble {W es F n : Nat} (s ubit : Bool) (be rawS : Nat) (hn : n = es + F + 2) (hW : n ≤ W)
    (hbe : be < 2 ^ es) (hraw : rawS < 2 ^ (F + 1)) :
    (let bits := if s then 1 else 0
     let bits := (bits <<< es) % 2 ^ W
     let bits := bits ||| (be % 2 ^ W)
     let bits := (bits <<< (n - 1 - es)) % 2 ^ W
     let bits := bits ||| rawS
     let bits := bits - bits % 2
     bits ||| (if ubit then 1 else 0)) =
    (if s then 2 ^ (n - 1) else 0) + (be * 2 ^ (F + 1) + 2 * (rawS / 2)) + (if ubit then 1 else 0) := by
  dsimp only
  have hesW : 2 ^ es < 2 ^ W := Nat.pow_lt_pow_right (by omega) (by omega)
  have hb0 : (if s then 1 else 0 : Nat) ≤ 1 := by cases s <;> simp
  generalize hb0d : (if s then 1 else 0 : Nat) = b0 at *
  have e1 : (b0 <<< es) % 2 ^ W = b0 * 2 ^ es := by
    rw [Nat.shiftLeft_eq]; apply Nat.mod_eq_of_lt
    calc b0 * 2 ^ es ≤ 1 * 2 ^ es := Nat.mul_le_mul_right _ hb0
      _ < 2 ^ W := by simpa using hesW
  have e2 : (b0 * 2 ^ es) ||| (be % 2 ^ W) = b0 * 2 ^ es + be := by
    rw [Nat.mod_eq_of_lt (by omega), ← Nat.shiftLeft_eq, ← Nat.shiftLeft_add_eq_or_of_lt hbe]
  have hsh : n - 1 - es = F + 1 := by omega
  have hb2 : b0 * 2 ^ es + be < 2 ^ (es + 1) := by
    rw [Nat.pow_succ]
    have : b0 * 2 ^ es ≤ 1 * 2 ^ es := Nat.mul_le_mul_right _ hb0
    omega
  have e3 : ((b0 * 2 ^ es + be) <<< (n - 1 - es)) % 2 ^ W = (b0 * 2 ^ es + be) * 2 ^ (F + 1) := by
    rw [hsh, Nat.shiftLeft_eq]; apply Nat.mod_eq_of_lt
    calc (b0 * 2 ^ es + be) * 2 ^ (F + 1) < 2 ^ (es + 1) * 2 ^ (F + 1) :=
          Nat.mul_lt_mul_of_pos_right hb2 (Nat.two_pow_pos _)
      _ = 2 ^ n := by rw [← Nat.pow_add]; congr 1; omega
      _ ≤ 2 ^ W := Nat.pow_le_pow_right (by omega) hW
  have e4 : ((b0 * 2 ^ es + be) * 2 ^ (F + 1)) ||| rawS = (b0 * 2 ^ es + be) * 2 ^ (F + 1) + rawS := by
    rw [← Nat.shiftLeft_eq, ← Nat.shiftLeft_add_eq_or_of_lt hraw]
  rw [e1, e2, e3, e4]
  have hM : 2 ^ (F + 1) = 2 * 2 ^ F := by rw [Nat.pow_succ]; ring
  have hev : ((b0 * 2 ^ es + be) * 2 ^ (F + 1)) % 2 = 0 := by
    rw [hM, ← Nat.mul_assoc, Nat.mul_comm _ 2, Nat.mul_assoc]; exact Nat.mul_mod_right _ _
  have e5 : ((b0 * 2 ^ es + be) * 2 ^ (F + 1) + rawS) - ((b0 * 2 ^ es + be) * 2 ^ (F + 1) + rawS) % 2 =
      (b0 * 2 ^ es + be) * 2 ^ (F + 1) + 2 * (rawS / 2) := by
    generalize (b0 * 2 ^ es + be) * 2 ^ (F + 1) = X at *
    omega
  rw [e5]
  have hev2 : ((b0 * 2 ^ es + be) * 2 ^ (F + 1) + 2 * (rawS / 2)) % 2 = 0 := by
    generalize (b0 * 2 ^ es + be) * 2 ^ (F + 1) = X at *
    omega
  rw [even_or_bit hev2]
  have : b0 * 2 ^ es * 2 ^ (F + 1) = (if s then 2 ^ (n - 1) else 0) := by
    rw [Nat.mul_assoc, ← Nat.pow_add, show es + (F + 1) = n - 1 by omega, ← hb0d]
    cases s <;> simp
  rw [Nat.add_mul, this]
  ring

theorem store_id (c : Model.Cfg) (W bits : Nat) (hw : 1 ≤ c.w) (hb : bits < 2 ^ c.nbits) (hn : 1 ≤ c.nbits)
    (hst : c.nrBlocks = 1 ∨ c.nrBlocks ≤ (W + 1) / c.w) : Model.store c W bits = bits := by
  unfold Model.store
  have hcov : c.nbits ≤ c.nrBlocks * c.w := by
    unfold Model.Cfg.nrBlocks
    have := Nat.lt_mul_div_succ (c.nbits - 1) (show 0 < c.w by omega)
    rw [Nat.mul_comm, Nat.add_comm]; omega
  by_cases h1 : c.nrBlocks = 1
  · rw [if_pos h1]
    rw [h1] at hcov
    exact Nat.mod_eq_of_lt (Nat.lt_of_lt_of_le hb (Nat.pow_le_pow_right (by omega) (by omega)))
  · rw [if_neg h1]
    have h2 : c.nrBlocks ≤ (W + 1) / c.w := by rcases hst with h | h; exact absurd h h1; exact h
    simp only [Nat.min_eq_right h2]
    exact Nat.mod_eq_of_lt (Nat.lt_of_lt_of_le hb (Nat.pow_le_pow_right (by omega) hcov))

theorem mask_shr {a b : Nat} (h : b ≤ a) : (2 ^ a - 1) >>> b = 2 ^ (a - b) - 1 := by
  rw [Nat.shiftRight_eq_div_pow]
  obtain ⟨k, rfl⟩ : ∃ k, a = b + k := ⟨a - b, by omega⟩
  rw [Nat.add_sub_cancel_left, Nat.pow_add]
  have hb : 0 < 2 ^ b := Nat.two_pow_pos _
  have hk : 0 < 2 ^ k := Nat.two_pow_pos _
  have : 2 ^ b * 2 ^ k - 1 = 2 ^ b * (2 ^ k - 1) + (2 ^ b - 1) := by
    have : 2 ^ b * 2 ^ k = 2 ^ b * (2 ^ k - 1) + 2 ^ b := by
      rw [← Nat.mul_succ]; congr 1; omega
    omega
  rw [this, Nat.mul_add_div hb, Nat.div_eq_of_lt (by omega)]; simp

theorem enc_lt {es F n : Nat} (hn : n = es + F + 2) (s u : Bool) {be ft : Nat} (hbe : be < 2 ^ es) (hft : ft < 2 ^ F) :
    (if s then 2 ^ (n - 1) else 0) + (be * 2 ^ (F + 1) + 2 * ft) + (if u then 1 else 0) < 2 ^ n := by
  have hM : 2 ^ (F + 1) = 2 * 2 ^ F := by rw [Nat.pow_succ]; ring
  have hN1 : 2 ^ (n - 1) = 2 ^ es * 2 ^ (F + 1) := by rw [← Nat.pow_add]; congr 1; omega
  have hN : 2 ^ n = 2 * 2 ^ (n - 1) := by
    rw [show n = (n - 1) + 1 by omega, Nat.pow_succ]; simp; ring
  have hmul : (be + 1) * 2 ^ (F + 1) ≤ 2 ^ es * 2 ^ (F + 1) := Nat.mul_le_mul_right _ (by omega)
  rw [Nat.add_mul] at hmul
  have hu : (if u then 1 else 0 : Nat) ≤ 1 := by split <;> omega
  have hs : (if s then 2 ^ (n - 1) else 0 : Nat) ≤ 2 ^ (n - 1) := by split <;> omega
  rw [hN]
  rw [hN1] at hs ⊢
  generalize be * 2 ^ (F + 1) = X at *
  generalize (if s then 2 ^ es * 2 ^ (F + 1) else 0 : Nat) = S at *
  generalize (if u then 1 else 0 : Nat) = U at *
  omega

/-- constants of the model in terms of the bias -/
theorem model_consts (c : Model.Cfg) (hes : 1 ≤ c.es) :
    c.MAX_EXP + c.EXP_BIAS = ((2 ^ c.es : Nat) : Int) ∧ c.MIN_EXP_NORMAL + c.EXP_BIAS = 1 ∧
    c.MIN_EXP_SUBNORMAL = c.MIN_EXP_NORMAL - (c.fbits : Int) := by
  unfold Model.Cfg.MAX_EXP Model.Cfg.MIN_EXP_NORMAL Model.Cfg.MIN_EXP_SUBNORMAL
  refine ⟨by omega, by omega, by omega⟩

/-- normal-target branch of `operator=(float/double)`: the assembled encoding -/
theorem assignCore_normal (c : Model.Cfg) (srcF srcBias W : Nat) (sub : Bool) (s : Bool) (raw_exp raw0 : Nat)
    (hes : 1 ≤ c.es) (hn : c.es + 3 ≤ c.nbits) (hw : 1 ≤ c.w) (hW : c.nbits ≤ W)
    (hst : c.nrBlocks = 1 ∨ c.nrBlocks ≤ (W + 1) / c.w)
    (hsr : c.fbits + 1 < srcF) (hraw : raw0 < 2 ^ srcF)
    (hlo : c.MIN_EXP_NORMAL ≤ (raw_exp : Int) - (srcBias : Int))
    (hhi : (raw_exp : Int) - (srcBias : Int) < c.MAX_EXP) :
    Model.assignCore c srcF srcBias W sub s raw_exp raw0 =
      (if s then 2 ^ (c.nbits - 1) else 0) +
      ((((raw_exp : Int) - (srcBias : Int) + c.EXP_BIAS).toNat) * 2 ^ (c.fbits + 1) + 2 * (raw0 / 2 ^ (srcF - c.fbits))) +
      (if raw0 % 2 ^ (srcF - c.fbits) ≠ 0 then 1 else 0) := by
  obtain ⟨k1, k2, k3⟩ := model_consts c hes
  have hF : c.fbits = c.nbits - 2 - c.es := rfl
  unfold Model.assignCore
  generalize hexp : (raw_exp : Int) - (srcBias : Int) = exponent at *
  have c1 : ¬ exponent > c.MAX_EXP := by omega
  have c2 : ¬ exponent < c.MIN_EXP_SUBNORMAL := by omega
  have c3 : (decide (exponent ≥ c.MIN_EXP_SUBNORMAL) && decide (exponent < c.MIN_EXP_NORMAL)) = false := by
    simp; omega
  have c4 : ((srcF : Int) - (c.fbits : Int) - 1 > 0) := by omega
  simp only [c1, c2, if_false, c3, Bool.false_eq_true, c4, if_true]
  -- the pieces
  have hbe1 : 1 ≤ exponent + c.EXP_BIAS := by omega
  have hbe2 : exponent + c.EXP_BIAS < ((2 ^ c.es : Nat) : Int) := by omega
  have hbe : (exponent + c.EXP_BIAS).toNat < 2 ^ c.es := by omega
  have hsh : ((srcF : Int) - (c.fbits : Int) - 1).toNat = srcF - c.fbits - 1 := by omega
  have hmask : Model.shr (2 ^ srcF - 1) c.fbits &&& raw0 = raw0 % 2 ^ (srcF - c.fbits) := by
    unfold Model.shr
    rw [mask_shr (by omega), Nat.and_comm, Nat.and_two_pow_sub_one_eq_mod]
  have hrawS : Model.shr raw0 (srcF - c.fbits - 1) < 2 ^ (c.fbits + 1) := by
    unfold Model.shr
    rw [Nat.shiftRight_eq_div_pow]
    apply Nat.div_lt_of_lt_mul
    rw [← Nat.pow_add, show srcF - c.fbits - 1 + (c.fbits + 1) = srcF by omega]; exact hraw
  have hhalf : Model.shr raw0 (srcF - c.fbits - 1) / 2 = raw0 / 2 ^ (srcF - c.fbits) := by
    unfold Model.shr
    rw [Nat.shiftRight_eq_div_pow, Nat.div_div_eq_div_mul, ← Nat.pow_succ,
      show (srcF - c.fbits - 1).succ = srcF - c.fbits by omega]
  rw [hsh, hmask]
  have hasm := assemble (W := W) (es := c.es) (F := c.fbits) (n := c.nbits) s
    (raw0 % 2 ^ (srcF - c.fbits) != 0) (exponent + c.EXP_BIAS).toNat (Model.shr raw0 (srcF - c.fbits - 1))
    (by omega) hW hbe hrawS
  dsimp only at hasm ⊢
  rw [hasm, hhalf]
  have hlt : (if s then 2 ^ (c.nbits - 1) else 0) +
      ((exponent + c.EXP_BIAS).toNat * 2 ^ (c.fbits + 1) + 2 * (raw0 / 2 ^ (srcF - c.fbits))) +
      (if (raw0 % 2 ^ (srcF - c.fbits) != 0) = true then 1 else 0) < 2 ^ c.nbits := by
    have hft : raw0 / 2 ^ (srcF - c.fbits) < 2 ^ c.fbits := by
      apply Nat.div_lt_of_lt_mul
      rw [← Nat.pow_add, show srcF - c.fbits + c.fbits = srcF by omega]; exact hraw
    exact enc_lt (by omega) s _ hbe hft
  rw [store_id c W _ hw hlt (by omega) hst]
  simp

theorem srs_eq (c : Model.Cfg) (hes : 1 ≤ c.es) : Model.subnormalReciprocalShift c.es = -c.MIN_EXP_NORMAL := by
  unfold Model.Cfg.MIN_EXP_NORMAL Model.Cfg.EXP_BIAS
  obtain ⟨k, hk⟩ : ∃ k, c.es = k + 1 := ⟨c.es - 1, by omega⟩
  rw [hk]
  cases k with
  | zero => simp [Model.subnormalReciprocalShift]
  | succ k => simp [Model.subnormalReciprocalShift]; omega

/-- subnormal-target branch (normal source) of `operator=(float/double)`: the assembled encoding -/
theorem assignCore_subnormal (c : Model.Cfg) (srcF srcBias W : Nat) (sub : Bool) (s : Bool) (raw_exp raw0 : Nat)
    (hes : 1 ≤ c.es) (hn : c.es + 3 ≤ c.nbits) (hw : 1 ≤ c.w) (hW : c.nbits ≤ W) (hW64 : W ≤ 64)
    (hst : c.nrBlocks = 1 ∨ c.nrBlocks ≤ (W + 1) / c.w)
    (hsr : c.fbits + 1 < srcF) (hraw : raw0 < 2 ^ srcF)
    (hsrc : -(srcBias : Int) < (raw_exp : Int) - (srcBias : Int))
    (hlo : c.MIN_EXP_SUBNORMAL ≤ (raw_exp : Int) - (srcBias : Int))
    (hhi : (raw_exp : Int) - (srcBias : Int) < c.MIN_EXP_NORMAL) :
    Model.assignCore c srcF srcBias W sub s raw_exp raw0 =
      (if s then 2 ^ (c.nbits - 1) else 0) +
      (0 * 2 ^ (c.fbits + 1) + 2 * ((raw0 + 2 ^ srcF) /
          2 ^ (srcF - c.fbits + (c.MIN_EXP_NORMAL - ((raw_exp : Int) - (srcBias : Int))).toNat))) +
      (if (raw0 + 2 ^ srcF) %
          2 ^ (srcF - c.fbits + (c.MIN_EXP_NORMAL - ((raw_exp : Int) - (srcBias : Int))).toNat) ≠ 0 then 1 else 0) := by
  obtain ⟨k1, k2, k3⟩ := model_consts c hes
  have hsrs := srs_eq c hes
  unfold Model.assignCore
  generalize hexp : (raw_exp : Int) - (srcBias : Int) = exponent at *
  have hes2 : ((2 ^ c.es : Nat) : Int) ≥ 2 := by
    have : 2 ^ 1 ≤ 2 ^ c.es := Nat.pow_le_pow_right (by omega) hes
    omega
  have c1 : ¬ exponent > c.MAX_EXP := by omega
  have c2 : ¬ exponent < c.MIN_EXP_SUBNORMAL := by omega
  have c3 : (decide (exponent ≥ c.MIN_EXP_SUBNORMAL) && decide (exponent < c.MIN_EXP_NORMAL)) = true := by
    simp; omega
  have c4 : ((srcF : Int) - (c.fbits : Int) - 1 > 0) := by omega
  have c5 : exponent > -(srcBias : Int) := hsrc
  simp only [c1, c2, if_false, c3, if_true, c4, c5]
  obtain ⟨k, hk⟩ : ∃ k : Nat, c.MIN_EXP_NORMAL - exponent = (k : Int) := ⟨(c.MIN_EXP_NORMAL - exponent).toNat, by omega⟩
  have hk1 : 1 ≤ k := by omega
  have hkF : k ≤ c.fbits := by omega
  rw [hk, Int.toNat_natCast]
  have hraw' : raw0 ||| 2 ^ srcF = raw0 + 2 ^ srcF := by
    have := Nat.two_pow_add_eq_or_of_lt hraw 1
    rw [Nat.mul_one] at this
    rw [Nat.or_comm, ← this, Nat.add_comm]
  have hms : Model.maskShift c exponent = c.fbits + 1 - k := by
    unfold Model.maskShift
    rw [hsrs]
    have : (c.fbits : Int) + exponent + -c.MIN_EXP_NORMAL + 1 = ((c.fbits + 1 - k : Nat) : Int) := by omega
    rw [this]
    have hlt : ((c.fbits + 1 - k : Nat) : Int) < ((2 ^ 32 : Nat) : Int) := by
      have : c.fbits < 64 := by unfold Model.Cfg.fbits; omega
      omega
    rw [Int.emod_eq_of_lt (by omega) hlt, Int.toNat_natCast]
  have hadj : ((srcF : Int) - (c.fbits : Int) - 1 + -(exponent + Model.subnormalReciprocalShift c.es)).toNat
      = srcF - c.fbits - 1 + k := by
    rw [hsrs]; omega
  have hmask : Model.shr (2 ^ (srcF + 1) - 1) (c.fbits + 1 - k) &&& (raw0 + 2 ^ srcF) =
      (raw0 + 2 ^ srcF) % 2 ^ (srcF - c.fbits + k) := by
    unfold Model.shr
    rw [mask_shr (by omega), Nat.and_comm, Nat.and_two_pow_sub_one_eq_mod,
      show srcF + 1 - (c.fbits + 1 - k) = srcF - c.fbits + k by omega]
  have hR : raw0 + 2 ^ srcF < 2 ^ (srcF + 1) := by rw [Nat.pow_succ]; omega
  have hrawS : Model.shr (raw0 + 2 ^ srcF) (srcF - c.fbits - 1 + k) < 2 ^ (c.fbits + 1) := by
    unfold Model.shr
    rw [Nat.shiftRight_eq_div_pow]
    apply Nat.div_lt_of_lt_mul
    rw [← Nat.pow_add]
    exact Nat.lt_of_lt_of_le hR (Nat.pow_le_pow_right (by omega) (by omega))
  have hhalf : Model.shr (raw0 + 2 ^ srcF) (srcF - c.fbits - 1 + k) / 2 = (raw0 + 2 ^ srcF) / 2 ^ (srcF - c.fbits + k) := by
    unfold Model.shr
    rw [Nat.shiftRight_eq_div_pow, Nat.div_div_eq_div_mul, ← Nat.pow_succ,
      show (srcF - c.fbits - 1 + k).succ = srcF - c.fbits + k by omega]
  rw [hraw', hms, hadj, hmask]
  have hasm := assemble (W := W) (es := c.es) (F := c.fbits) (n := c.nbits) s
    ((raw0 + 2 ^ srcF) % 2 ^ (srcF - c.fbits + k) != 0) 0 (Model.shr (raw0 + 2 ^ srcF) (srcF - c.fbits - 1 + k))
    (by unfold Model.Cfg.fbits; omega) hW (Nat.two_pow_pos _) hrawS
  dsimp only at hasm ⊢
  rw [hasm, hhalf]
  have hlt : (if s then 2 ^ (c.nbits - 1) else 0) +
      (0 * 2 ^ (c.fbits + 1) + 2 * ((raw0 + 2 ^ srcF) / 2 ^ (srcF - c.fbits + k))) +
      (if ((raw0 + 2 ^ srcF) % 2 ^ (srcF - c.fbits + k) != 0) = true then 1 else 0) < 2 ^ c.nbits := by
    have hft : (raw0 + 2 ^ srcF) / 2 ^ (srcF - c.fbits + k) < 2 ^ c.fbits := by
      apply Nat.div_lt_of_lt_mul
      rw [← Nat.pow_add]
      exact Nat.lt_of_lt_of_le hR (Nat.pow_le_pow_right (by omega) (by omega))
    exact enc_lt (es := c.es) (F := c.fbits) (by unfold Model.Cfg.fbits; omega) s _ (Nat.two_pow_pos _) hft
  rw [store_id c W _ hw hlt (by omega) hst]
  simp

end UVerif.ArealLemmas
