/-
  UVerifProofs.Lemmas.ArealBits — the bit assembly of areal::operator=(float/double): the uint32/uint64 construction
  `s << es | biasedExponent << (nbits-1-es) | raw, & ~1, | ubit`, the sticky masks, the limb store, for the normal-target and
  the subnormal-target (normal source) branches.  Result: the encoding written as sign·2^(nbits-1) + e·2^(fbits+1) + 2f + u.
-/
import UVerif.Spec.Areal
import UVerif.Model.Areal
import Mathlib.Tactic.Ring
import Mathlib.Tactic.SplitIfs

set_option linter.unusedSimpArgs false
set_option linter.unusedVariables false

namespace UVerif.ArealLemmas
open UVerif UVerif.Areal

theorem even_or_bit {x : Nat} (hx : x % 2 = 0) (u : Bool) :
    x ||| (if u then 1 else 0) = x + (if u then 1 else 0) := by
  cases u
  · simp
  · have h := Nat.two_pow_add_eq_or_of_lt (i := 1) (b := 1) (by norm_num) (x / 2)
    have hx2 : 2 ^ 1 * (x / 2) = x := by omega
    rw [hx2] at h
    simpa using h.symm

/-- the construction `bits = s; bits <<= es; bits |= be; bits <<= nbits-1-es; bits |= raw; bits &= ~1; bits |= ubit`
    on a W-bit unsigned, when everything fits -/
theorem assemble {W es F n : Nat} (s ubit : Bool) (be rawS : Nat) (hn : n = es + F + 2) (hW : n ≤ W)
    (hbe : be < 2 ^ es) (hraw : rawS < 2 ^ (F + 1)) :
    (let bits := if s then 1 else 0
     let bits := (bits <<< es) % 2 ^ W
     let bits := bits ||| (be % 2 ^ W)
     let bits := (bits <<< (n - 1 - es)) % 2 ^ W
     let bits := bits ||| rawS
     let bits := bits - bits % 2
     bits ||| (if ubit then 1 else 0)) =
    (if s then 2 ^ (n - 1) else 0) + (be * 2 ^ (F + 1) + 2 * (rawS / 2)) + (if ubit then 1 else 0) := by
  dsimp only
  have hesW : 2 ^ es < 2 ^ W := Nat.pow_lt_pow_right (by omega) (by omega)
  have hb0 : (if s then 1 else 0 : Nat) ≤ 1 := by cases s <;> simp
  generalize hb0d : (if s then 1 else 0 : Nat) = b0 at *
  have e1 : (b0 <<< es) % 2 ^ W = b0 * 2 ^ es := by
    rw [Nat.shiftLeft_eq]; apply Nat.mod_eq_of_lt
    calc b0 * 2 ^ es ≤ 1 * 2 ^ es := Nat.mul_le_mul_right _ hb0
      _ < 2 ^ W := by simpa using hesW
  have e2 : (b0 * 2 ^ es) ||| (be % 2 ^ W) = b0 * 2 ^ es + be := by
    rw [Nat.mod_eq_of_lt (by omega), ← Nat.shiftLeft_eq, ← Nat.shiftLeft_add_eq_or_of_lt hbe]
  have hsh : n - 1 - es = F + 1 := by omega
  have hb2 : b0 * 2 ^ es + be < 2 ^ (es + 1) := by
    rw [Nat.pow_succ]
    have : b0 * 2 ^ es ≤ 1 * 2 ^ es := Nat.mul_le_mul_right _ hb0
    omega
  have e3 : ((b0 * 2 ^ es + be) <<< (n - 1 - es)) % 2 ^ W = (b0 * 2 ^ es + be) * 2 ^ (F + 1) := by
    rw [hsh, Nat.shiftLeft_eq]; apply Nat.mod_eq_of_lt
    calc (b0 * 2 ^ es + be) * 2 ^ (F + 1) < 2 ^ (es + 1) * 2 ^ (F + 1) :=
          Nat.mul_lt_mul_of_pos_right hb2 (Nat.two_pow_pos _)
      _ = 2 ^ n := by rw [← Nat.pow_add]; congr 1; omega
      _ ≤ 2 ^ W := Nat.pow_le_pow_right (by omega) hW
  have e4 : ((b0 * 2 ^ es + be) * 2 ^ (F + 1)) ||| rawS = (b0 * 2 ^ es + be) * 2 ^ (F + 1) + rawS := by
    rw [← Nat.shiftLeft_eq, ← Nat.shiftLeft_add_eq_or_of_lt hraw]
  rw [e1, e2, e3, e4]
  have hM : 2 ^ (F + 1) = 2 * 2 ^ F := by rw [Nat.pow_succ]; ring
  have hev : ((b0 * 2 ^ es + be) * 2 ^ (F + 1)) % 2 = 0 := by
    rw [hM, ← Nat.mul_assoc, Nat.mul_comm _ 2, Nat.mul_assoc]; exact Nat.mul_mod_right _ _
  have e5 : ((b0 * 2 ^ es + be) * 2 ^ (F + 1) + rawS) - ((b0 * 2 ^ es + be) * 2 ^ (F + 1) + rawS) % 2 =
      (b0 * 2 ^ es + be) * 2 ^ (F + 1) + 2 * (rawS / 2) := by
    generalize (b0 * 2 ^ es + be) * 2 ^ (F + 1) = X at *
    omega
  rw [e5]
  have hev2 : ((b0 * 2 ^ es + be) * 2 ^ (F + 1) + 2 * (rawS / 2)) % 2 = 0 := by
    generalize (b0 * 2 ^ es + be) * 2 ^ (F + 1) = X at *
    omega
  rw [even_or_bit hev2]
  have : b0 * 2 ^ es * 2 ^ (F + 1) = (if s then 2 ^ (n - 1) else 0) := by
    rw [Nat.mul_assoc, ← Nat.pow_add, show es + (F + 1) = n - 1 by omega, ← hb0d]
    cases s <;> simp
  rw [Nat.add_mul, this]
  ring

theorem store_id (c : Model.Cfg) (W bits : Nat) (hw : 1 ≤ c.w) (hb : bits < 2 ^ c.nbits) (hn : 1 ≤ c.nbits)
    (hst : c.nrBlocks = 1 ∨ c.nrBlocks ≤ (W + 1) / c.w) : Model.store c W bits = bits := by
  unfold Model.store
  have hcov : c.nbits ≤ c.nrBlocks * c.w := by
    unfold Model.Cfg.nrBlocks
    have := Nat.lt_mul_div_succ (c.nbits - 1) (show 0 < c.w by omega)
    rw [Nat.mul_comm, Nat.add_comm]; omega
  by_cases h1 : c.nrBlocks = 1
  · rw [if_pos h1]
    rw [h1] at hcov
    exact Nat.mod_eq_of_lt (Nat.lt_of_lt_of_le hb (Nat.pow_le_pow_right (by omega) (by omega)))
  · rw [if_neg h1]
    have h2 : c.nrBlocks ≤ (W + 1) / c.w := by rcases hst with h | h; exact absurd h h1; exact h
    simp only [Nat.min_eq_right h2]
    exact Nat.mod_eq_of_lt (Nat.lt_of_lt_of_le hb (Nat.pow_le_pow_right (by omega) hcov))

theorem mask_shr {a b : Nat} (h : b ≤ a) : (2 ^ a - 1) >>> b = 2 ^ (a - b) - 1 := by
  rw [Nat.shiftRight_eq_div_pow]
  obtain ⟨k, rfl⟩ : ∃ k, a = b + k := ⟨a - b, by omega⟩
  rw [Nat.add_sub_cancel_left, Nat.pow_add]
  have hb : 0 < 2 ^ b := Nat.two_pow_pos _
  have hk : 0 < 2 ^ k := Nat.two_pow_pos _
  have : 2 ^ b * 2 ^ k - 1 = 2 ^ b * (2 ^ k - 1) + (2 ^ b - 1) := by
    have : 2 ^ b * 2 ^ k = 2 ^ b * (2 ^ k - 1) + 2 ^ b := by
      rw [← Nat.mul_succ]; congr 1; omega
    omega
  rw [this, Nat.mul_add_div hb, Nat.div_eq_of_lt (by omega)]; simp

theorem enc_lt {es F n : Nat} (hn : n = es + F + 2) (s u : Bool) {be ft : Nat} (hbe : be < 2 ^ es) (hft : ft < 2 ^ F) :
    (if s then 2 ^ (n - 1) else 0) + (be * 2 ^ (F + 1) + 2 * ft) + (if u then 1 else 0) < 2 ^ n := by
  have hM : 2 ^ (F + 1) = 2 * 2 ^ F := by rw [Nat.pow_succ]; ring
  have hN1 : 2 ^ (n - 1) = 2 ^ es * 2 ^ (F + 1) := by rw [← Nat.pow_add]; congr 1; omega
  have hN : 2 ^ n = 2 * 2 ^ (n - 1) := by
    rw [show n = (n - 1) + 1 by omega, Nat.pow_succ]; simp; ring
  have hmul : (be + 1) * 2 ^ (F + 1) ≤ 2 ^ es * 2 ^ (F + 1) := Nat.mul_le_mul_right _ (by omega)
  rw [Nat.add_mul] at hmul
  have hu : (if u then 1 else 0 : Nat) ≤ 1 := by split <;> omega
  have hs : (if s then 2 ^ (n - 1) else 0 : Nat) ≤ 2 ^ (n - 1) := by split <;> omega
  rw [hN]
  rw [hN1] at hs ⊢
  generalize be * 2 ^ (F + 1) = X at *
  generalize (if s then 2 ^ es * 2 ^ (F + 1) else 0 : Nat) = S at *
  generalize (if u then 1 else 0 : Nat) = U at *
  omega

/-- constants of the model in terms of the bias -/
theorem model_consts (c : Model.Cfg) (hes : 1 ≤ c.es) :
    c.MAX_EXP + c.EXP_BIAS = ((2 ^ c.es : Nat) : Int) ∧ c.MIN_EXP_NORMAL + c.EXP_BIAS = 1 ∧
    c.MIN_EXP_SUBNORMAL = c.MIN_EXP_NORMAL - (c.fbits : Int) := by
  unfold Model.Cfg.MAX_EXP Model.Cfg.MIN_EXP_NORMAL Model.Cfg.MIN_EXP_SUBNORMAL
  refine ⟨by omega, by omega, by omega⟩

theorem srs_eq (c : Model.Cfg) (hes : 1 ≤ c.es) : Model.subnormalReciprocalShift c.es = -c.MIN_EXP_NORMAL := by
  unfold Model.Cfg.MIN_EXP_NORMAL Model.Cfg.EXP_BIAS
  obtain ⟨k, hk⟩ : ∃ k, c.es = k + 1 := ⟨c.es - 1, by omega⟩
  rw [hk]
  cases k with
  | zero => simp [Model.subnormalReciprocalShift]
  | succ k => simp [Model.subnormalReciprocalShift]; omega

/-- `Model.assemble`: the W-bit construction followed by the limb store, when everything fits -/
theorem assemble_eq (c : Model.Cfg) (W : Nat) (s ubit : Bool) (be rawS : Nat)
    (hes : 1 ≤ c.es) (hn : c.es + 3 ≤ c.nbits) (hw : 1 ≤ c.w) (hW : c.nbits ≤ W)
    (hst : c.nrBlocks = 1 ∨ c.nrBlocks ≤ (W + 1) / c.w)
    (hbe : be < 2 ^ c.es) (hraw : rawS < 2 ^ (c.fbits + 1)) :
    Model.assemble c W s be rawS ubit =
      (if s then 2 ^ (c.nbits - 1) else 0) + (be * 2 ^ (c.fbits + 1) + 2 * (rawS / 2)) + (if ubit then 1 else 0) := by
  unfold Model.assemble
  have hasm := assemble (W := W) (es := c.es) (F := c.fbits) (n := c.nbits) s ubit be rawS
    (by unfold Model.Cfg.fbits; omega) hW hbe hraw
  dsimp only at hasm ⊢
  rw [hasm]
  have hft : rawS / 2 < 2 ^ c.fbits := by rw [Nat.pow_succ] at hraw; omega
  exact store_id c W _ hw (enc_lt (by unfold Model.Cfg.fbits; omega) s ubit hbe hft) (by omega) hst

theorem shl_eq {W x k n : Nat} (h : x * 2 ^ k < 2 ^ n) (hn : n ≤ W) : Model.shl W x k = x * 2 ^ k := by
  unfold Model.shl
  rw [Nat.shiftLeft_eq]
  exact Nat.mod_eq_of_lt (Nat.lt_of_lt_of_le h (Nat.pow_le_pow_right (by omega) hn))

/-- fraction processing of the normal-target branch (right shift when the target is narrower than the source, left
    shift when it is wider): the field that is stored, and the uncertainty bit. With u = fbits - srcF, d = srcF - fbits
    (one of them is 0): raw/2 = raw0·2^u / 2^d, ubit = (raw0·2^u mod 2^d ≠ 0). -/
theorem normalPair_spec (c : Model.Cfg) (srcF W raw0 : Nat) (hraw : raw0 < 2 ^ srcF) (hFW : c.fbits + 1 ≤ W) :
    (Model.normalPair c srcF W raw0).1 < 2 ^ (c.fbits + 1) ∧
    (Model.normalPair c srcF W raw0).1 / 2 = raw0 * 2 ^ (c.fbits - srcF) / 2 ^ (srcF - c.fbits) ∧
    (Model.normalPair c srcF W raw0).2 = ((raw0 * 2 ^ (c.fbits - srcF)) % 2 ^ (srcF - c.fbits) != 0) := by
  unfold Model.normalPair
  by_cases hA : c.fbits + 1 ≤ srcF
  · have c4 : ((srcF : Int) - (c.fbits : Int) - 1 ≥ 0) := by omega
    have hu : c.fbits - srcF = 0 := by omega
    have hsh : ((srcF : Int) - (c.fbits : Int) - 1).toNat = srcF - c.fbits - 1 := by omega
    simp only [c4, if_true, hu, Nat.pow_zero, Nat.mul_one, hsh]
    refine ⟨?_, ?_, ?_⟩
    · unfold Model.shr
      rw [Nat.shiftRight_eq_div_pow]
      apply Nat.div_lt_of_lt_mul
      rw [← Nat.pow_add, show srcF - c.fbits - 1 + (c.fbits + 1) = srcF by omega]; exact hraw
    · unfold Model.shr
      rw [Nat.shiftRight_eq_div_pow, Nat.div_div_eq_div_mul, ← Nat.pow_succ,
        show (srcF - c.fbits - 1).succ = srcF - c.fbits by omega]
    · have hmask : Model.shr (2 ^ srcF - 1) c.fbits &&& raw0 = raw0 % 2 ^ (srcF - c.fbits) := by
        unfold Model.shr
        rw [mask_shr (by omega), Nat.and_comm, Nat.and_two_pow_sub_one_eq_mod]
      rw [hmask]
  · have c4 : ¬ ((srcF : Int) - (c.fbits : Int) - 1 ≥ 0) := by omega
    have hd : srcF - c.fbits = 0 := by omega
    have hsh : (-((srcF : Int) - (c.fbits : Int) - 1)).toNat = c.fbits + 1 - srcF := by omega
    simp only [c4, if_false, hd, Nat.pow_zero, Nat.mod_one, Nat.div_one, hsh]
    have hlt : raw0 * 2 ^ (c.fbits + 1 - srcF) < 2 ^ (c.fbits + 1) := by
      calc raw0 * 2 ^ (c.fbits + 1 - srcF) < 2 ^ srcF * 2 ^ (c.fbits + 1 - srcF) :=
            Nat.mul_lt_mul_of_pos_right hraw (Nat.two_pow_pos _)
        _ = 2 ^ (c.fbits + 1) := by rw [← Nat.pow_add]; congr 1; omega
    rw [shl_eq hlt hFW]
    refine ⟨hlt, ?_, by simp⟩
    rw [show c.fbits + 1 - srcF = (c.fbits - srcF) + 1 by omega, Nat.pow_succ, ← Nat.mul_assoc,
      Nat.mul_div_cancel _ (by norm_num)]

/-- the all-ones corner of the top binade saturates -/
theorem assignCore_top (c : Model.Cfg) (srcF W : Nat) (s : Bool) (exponent : Int) (raw0 : Nat)
    (hes : 1 ≤ c.es) (hraw : raw0 < 2 ^ srcF) (hFW : c.fbits + 1 ≤ W)
    (he : exponent = c.MAX_EXP - 1)
    (hf : raw0 * 2 ^ (c.fbits - srcF) / 2 ^ (srcF - c.fbits) = 2 ^ c.fbits - 1) :
    Model.assignCore c srcF W s exponent raw0 = (if s then Model.maxneg c else Model.maxpos c) ||| 1 := by
  obtain ⟨k1, k2, k3⟩ := model_consts c hes
  obtain ⟨p1, p2, p3⟩ := normalPair_spec c srcF W raw0 hraw hFW
  have hes2 : ((2 ^ c.es : Nat) : Int) ≥ 2 := by
    have : 2 ^ 1 ≤ 2 ^ c.es := Nat.pow_le_pow_right (by omega) hes
    omega
  unfold Model.assignCore
  have c1 : ¬ exponent ≥ c.MAX_EXP := by omega
  have c2 : ¬ exponent < c.MIN_EXP_SUBNORMAL := by omega
  have c3 : (decide (exponent ≥ c.MIN_EXP_SUBNORMAL) && decide (exponent < c.MIN_EXP_NORMAL)) = false := by
    simp; omega
  have c5 : (exponent == c.MAX_EXP - 1 && (Model.normalPair c srcF W raw0).1 >>> 1 == 2 ^ c.fbits - 1) = true := by
    rw [Nat.shiftRight_eq_div_pow, Nat.pow_one, p2, hf, he]; simp
  simp only [c1, c2, if_false, c3, Bool.false_eq_true, c5, if_true]

/-- normal-target branch of `operator=(float/double)` outside the all-ones corner: the assembled encoding -/
theorem assignCore_normal (c : Model.Cfg) (srcF W : Nat) (s : Bool) (exponent : Int) (raw0 : Nat)
    (hes : 1 ≤ c.es) (hn : c.es + 3 ≤ c.nbits) (hw : 1 ≤ c.w) (hW : c.nbits ≤ W)
    (hst : c.nrBlocks = 1 ∨ c.nrBlocks ≤ (W + 1) / c.w)
    (hraw : raw0 < 2 ^ srcF)
    (hlo : c.MIN_EXP_NORMAL ≤ exponent) (hhi : exponent < c.MAX_EXP)
    (htop : ¬ (exponent = c.MAX_EXP - 1 ∧ raw0 * 2 ^ (c.fbits - srcF) / 2 ^ (srcF - c.fbits) = 2 ^ c.fbits - 1)) :
    Model.assignCore c srcF W s exponent raw0 =
      (if s then 2 ^ (c.nbits - 1) else 0) +
      (((exponent + c.EXP_BIAS).toNat) * 2 ^ (c.fbits + 1) +
        2 * (raw0 * 2 ^ (c.fbits - srcF) / 2 ^ (srcF - c.fbits))) +
      (if (raw0 * 2 ^ (c.fbits - srcF)) % 2 ^ (srcF - c.fbits) ≠ 0 then 1 else 0) := by
  obtain ⟨k1, k2, k3⟩ := model_consts c hes
  have hFW : c.fbits + 1 ≤ W := by unfold Model.Cfg.fbits; omega
  obtain ⟨p1, p2, p3⟩ := normalPair_spec c srcF W raw0 hraw hFW
  unfold Model.assignCore
  have c1 : ¬ exponent ≥ c.MAX_EXP := by omega
  have c2 : ¬ exponent < c.MIN_EXP_SUBNORMAL := by omega
  have c3 : (decide (exponent ≥ c.MIN_EXP_SUBNORMAL) && decide (exponent < c.MIN_EXP_NORMAL)) = false := by
    simp; omega
  have c5 : (exponent == c.MAX_EXP - 1 && (Model.normalPair c srcF W raw0).1 >>> 1 == 2 ^ c.fbits - 1) = false := by
    rw [Nat.shiftRight_eq_div_pow, Nat.pow_one, p2]
    by_cases h1 : exponent = c.MAX_EXP - 1
    · have h2 : ¬ (raw0 * 2 ^ (c.fbits - srcF) / 2 ^ (srcF - c.fbits) = 2 ^ c.fbits - 1) := fun h => htop ⟨h1, h⟩
      simp [h1, h2]
    · simp [h1]
  simp only [c1, c2, if_false, c3, Bool.false_eq_true, c5]
  have hbe : (exponent + c.EXP_BIAS).toNat < 2 ^ c.es := by omega
  rw [assemble_eq c W s _ _ _ hes hn hw hW hst hbe p1, p2, p3]
  simp

/-- fraction processing of the subnormal-target branch: with k = MIN_EXP_NORMAL - exponent (1 ≤ k ≤ fbits),
    R = raw0 + 2^srcF, U = fbits - (srcF + k), D = srcF + k - fbits (one of them is 0):
    raw/2 = R·2^U / 2^D, ubit = (R·2^U mod 2^D ≠ 0). -/
theorem subPair_spec (c : Model.Cfg) (srcF W : Nat) (exponent : Int) (raw0 : Nat)
    (hes : 1 ≤ c.es) (hraw : raw0 < 2 ^ srcF) (hFW : c.fbits + 1 ≤ W) (hW64 : W ≤ 64)
    (hlo : c.MIN_EXP_SUBNORMAL ≤ exponent) (hhi : exponent < c.MIN_EXP_NORMAL) :
    (Model.subPair c srcF W exponent raw0).1 < 2 ^ (c.fbits + 1) ∧
    (Model.subPair c srcF W exponent raw0).1 / 2 =
      (raw0 + 2 ^ srcF) * 2 ^ (c.fbits - (srcF + (c.MIN_EXP_NORMAL - exponent).toNat)) /
        2 ^ (srcF + (c.MIN_EXP_NORMAL - exponent).toNat - c.fbits) ∧
    (Model.subPair c srcF W exponent raw0).2 =
      (((raw0 + 2 ^ srcF) * 2 ^ (c.fbits - (srcF + (c.MIN_EXP_NORMAL - exponent).toNat))) %
        2 ^ (srcF + (c.MIN_EXP_NORMAL - exponent).toNat - c.fbits) != 0) := by
  obtain ⟨k1, k2, k3⟩ := model_consts c hes
  have hsrs := srs_eq c hes
  unfold Model.subPair
  obtain ⟨k, hk⟩ : ∃ k : Nat, c.MIN_EXP_NORMAL - exponent = (k : Int) := ⟨(c.MIN_EXP_NORMAL - exponent).toNat, by omega⟩
  have hk1 : 1 ≤ k := by omega
  have hkF : k ≤ c.fbits := by omega
  rw [hk, Int.toNat_natCast]
  have hraw' : raw0 ||| 2 ^ srcF = raw0 + 2 ^ srcF := by
    have := Nat.two_pow_add_eq_or_of_lt hraw 1
    rw [Nat.mul_one] at this
    rw [Nat.or_comm, ← this, Nat.add_comm]
  have hms : Model.maskShift c exponent = c.fbits + 1 - k := by
    unfold Model.maskShift
    rw [hsrs]
    have : (c.fbits : Int) + exponent + -c.MIN_EXP_NORMAL + 1 = ((c.fbits + 1 - k : Nat) : Int) := by omega
    rw [this]
    have hlt : ((c.fbits + 1 - k : Nat) : Int) < ((2 ^ 32 : Nat) : Int) := by
      have : c.fbits < 64 := by omega
      omega
    rw [Int.emod_eq_of_lt (by omega) hlt, Int.toNat_natCast]
  have hR : raw0 + 2 ^ srcF < 2 ^ (srcF + 1) := by rw [Nat.pow_succ]; omega
  rw [hraw', hms, hsrs]
  by_cases hA : c.fbits + 1 ≤ srcF + k
  · have c4 : ((srcF : Int) - (c.fbits : Int) - 1 + -(exponent + -c.MIN_EXP_NORMAL) ≥ 0) := by omega
    have hu : c.fbits - (srcF + k) = 0 := by omega
    have hsh : ((srcF : Int) - (c.fbits : Int) - 1 + -(exponent + -c.MIN_EXP_NORMAL)).toNat = srcF + k - c.fbits - 1 := by omega
    simp only [c4, if_true, hu, Nat.pow_zero, Nat.mul_one, hsh]
    refine ⟨?_, ?_, ?_⟩
    · unfold Model.shr
      rw [Nat.shiftRight_eq_div_pow]
      apply Nat.div_lt_of_lt_mul
      rw [← Nat.pow_add]
      exact Nat.lt_of_lt_of_le hR (Nat.pow_le_pow_right (by omega) (by omega))
    · unfold Model.shr
      rw [Nat.shiftRight_eq_div_pow, Nat.div_div_eq_div_mul, ← Nat.pow_succ,
        show (srcF + k - c.fbits - 1).succ = srcF + k - c.fbits by omega]
    · have hmask : Model.shr (2 ^ (srcF + 1) - 1) (c.fbits + 1 - k) &&& (raw0 + 2 ^ srcF) =
          (raw0 + 2 ^ srcF) % 2 ^ (srcF + k - c.fbits) := by
        unfold Model.shr
        rw [mask_shr (by omega), Nat.and_comm, Nat.and_two_pow_sub_one_eq_mod,
          show srcF + 1 - (c.fbits + 1 - k) = srcF + k - c.fbits by omega]
      rw [hmask]
  · have c4 : ¬ ((srcF : Int) - (c.fbits : Int) - 1 + -(exponent + -c.MIN_EXP_NORMAL) ≥ 0) := by omega
    have hd : srcF + k - c.fbits = 0 := by omega
    have hsh : (-((srcF : Int) - (c.fbits : Int) - 1 + -(exponent + -c.MIN_EXP_NORMAL))).toNat = c.fbits + 1 - (srcF + k) := by omega
    simp only [c4, if_false, hd, Nat.pow_zero, Nat.mod_one, Nat.div_one, hsh]
    have hlt : (raw0 + 2 ^ srcF) * 2 ^ (c.fbits + 1 - (srcF + k)) < 2 ^ (c.fbits + 1) := by
      calc (raw0 + 2 ^ srcF) * 2 ^ (c.fbits + 1 - (srcF + k)) < 2 ^ (srcF + 1) * 2 ^ (c.fbits + 1 - (srcF + k)) :=
            Nat.mul_lt_mul_of_pos_right hR (Nat.two_pow_pos _)
        _ = 2 ^ (srcF + 1 + (c.fbits + 1 - (srcF + k))) := by rw [← Nat.pow_add]
        _ ≤ 2 ^ (c.fbits + 1) := Nat.pow_le_pow_right (by omega) (by omega)
    rw [shl_eq hlt hFW]
    refine ⟨hlt, ?_, by simp⟩
    rw [show c.fbits + 1 - (srcF + k) = (c.fbits - (srcF + k)) + 1 by omega, Nat.pow_succ, ← Nat.mul_assoc,
      Nat.mul_div_cancel _ (by norm_num)]

/-- subnormal-target branch of `operator=(float/double)`: the assembled encoding -/
theorem assignCore_subnormal (c : Model.Cfg) (srcF W : Nat) (s : Bool) (exponent : Int) (raw0 : Nat)
    (hes : 1 ≤ c.es) (hn : c.es + 3 ≤ c.nbits) (hw : 1 ≤ c.w) (hW : c.nbits ≤ W) (hW64 : W ≤ 64)
    (hst : c.nrBlocks = 1 ∨ c.nrBlocks ≤ (W + 1) / c.w)
    (hraw : raw0 < 2 ^ srcF)
    (hlo : c.MIN_EXP_SUBNORMAL ≤ exponent) (hhi : exponent < c.MIN_EXP_NORMAL) :
    Model.assignCore c srcF W s exponent raw0 =
      (if s then 2 ^ (c.nbits - 1) else 0) +
      (0 * 2 ^ (c.fbits + 1) + 2 * ((raw0 + 2 ^ srcF) * 2 ^ (c.fbits - (srcF + (c.MIN_EXP_NORMAL - exponent).toNat)) /
          2 ^ (srcF + (c.MIN_EXP_NORMAL - exponent).toNat - c.fbits))) +
      (if ((raw0 + 2 ^ srcF) * 2 ^ (c.fbits - (srcF + (c.MIN_EXP_NORMAL - exponent).toNat))) %
          2 ^ (srcF + (c.MIN_EXP_NORMAL - exponent).toNat - c.fbits) ≠ 0 then 1 else 0) := by
  obtain ⟨k1, k2, k3⟩ := model_consts c hes
  have hFW : c.fbits + 1 ≤ W := by unfold Model.Cfg.fbits; omega
  obtain ⟨p1, p2, p3⟩ := subPair_spec c srcF W exponent raw0 hes hraw hFW hW64 hlo hhi
  have hes2 : ((2 ^ c.es : Nat) : Int) ≥ 2 := by
    have : 2 ^ 1 ≤ 2 ^ c.es := Nat.pow_le_pow_right (by omega) hes
    omega
  unfold Model.assignCore
  have c1 : ¬ exponent ≥ c.MAX_EXP := by omega
  have c2 : ¬ exponent < c.MIN_EXP_SUBNORMAL := by omega
  have c3 : (decide (exponent ≥ c.MIN_EXP_SUBNORMAL) && decide (exponent < c.MIN_EXP_NORMAL)) = true := by
    simp; omega
  simp only [c1, c2, if_false, c3, if_true]
  rw [assemble_eq c W s _ _ _ hes hn hw hW hst (Nat.two_pow_pos _) p1, p2, p3]
  simp

end UVerif.ArealLemmas
