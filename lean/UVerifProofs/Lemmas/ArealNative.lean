/-
  UVerifProofs.Lemmas.ArealNative — areal::to_native: decomposition of an encoding into its fields, and exactness of the
  finite case (`toNative_finite`): under `NativeFits` every native addition / multiplication of the routine is exact, so the
  result is (lattice index)·2^(ulp exponent) with the sign of the encoding.
-/
import UVerif.Spec.Areal
import UVerif.Model.Areal
import UVerifProofs.Lemmas.ArealVal
import UVerifProofs.Lemmas.ArealBits
import UVerifProofs.Lemmas.IeeeExact
import Mathlib.Tactic.Linarith
import Mathlib.Tactic.Positivity

set_option linter.unusedSimpArgs false
set_option linter.unusedVariables false
set_option linter.unnecessarySeqFocus false

namespace UVerif.ArealLemmas
open UVerif UVerif.Areal UVerif.IeeeLemmas
open UVerif.IeeeBits (Fmt)

/-- every nbits-bit pattern is `sign·2^(nbits-1) + e·2^(fbits+1) + 2f + u` with the fields `decode` reads -/
theorem enc_decompose (c : Cfg) (hes : 1 ≤ c.es) (hn : c.es + 3 ≤ c.nbits) (b : Nat) (hb : b < 2 ^ c.nbits) :
    expOf c b < 2 ^ c.es ∧ fracOf c b < 2 ^ c.fbits ∧
    b = (if b.testBit (c.nbits - 1) then 2 ^ (c.nbits - 1) else 0) +
        (expOf c b * 2 ^ (c.fbits + 1) + 2 * fracOf c b) + (if b.testBit 0 then 1 else 0) := by
  obtain ⟨hF1, hN1, hN, hM, hNN⟩ := size_facts c hes hn
  have he : expOf c b < 2 ^ c.es := Nat.mod_lt _ (Nat.two_pow_pos _)
  have hf : fracOf c b < 2 ^ c.fbits := Nat.mod_lt _ (Nat.two_pow_pos _)
  refine ⟨he, hf, ?_⟩
  unfold expOf fracOf at *
  have hs : b.testBit (c.nbits - 1) = decide (2 ^ (c.nbits - 1) ≤ b) := by
    have hb' : b < 2 ^ (c.nbits - 1 + 1) := by rwa [show c.nbits - 1 + 1 = c.nbits by omega]
    by_cases hx : 2 ^ (c.nbits - 1) ≤ b
    · obtain ⟨y, hy⟩ : ∃ y, b = 2 ^ (c.nbits - 1) + y := ⟨b - 2 ^ (c.nbits - 1), by omega⟩
      have hy' : y < 2 ^ (c.nbits - 1) := by omega
      rw [hy, Nat.testBit_two_pow_add_eq, Nat.testBit_lt_two_pow hy']; simp
    · have : b < 2 ^ (c.nbits - 1) := by omega
      rw [Nat.testBit_lt_two_pow this]; simp [hx]
  have h0 : b.testBit 0 = decide (b % 2 = 1) := Nat.testBit_zero _
  rw [hs, h0]
  rw [Nat.shiftRight_eq_div_pow, Nat.shiftRight_eq_div_pow, Nat.pow_one, Nat.add_comm 1 c.fbits]
  -- b = q·2^(F+1) + r,  q = b / 2^(F+1) < 2·2^es
  have hq := Nat.div_add_mod b (2 ^ (c.fbits + 1))
  have hr : b % 2 ^ (c.fbits + 1) < 2 ^ (c.fbits + 1) := Nat.mod_lt _ (Nat.two_pow_pos _)
  have hqlt : b / 2 ^ (c.fbits + 1) < 2 * 2 ^ c.es := by
    apply Nat.div_lt_of_lt_mul
    rw [hNN, hN] at hb
    calc b < 2 * (2 ^ c.es * 2 ^ (c.fbits + 1)) := hb
      _ = 2 ^ (c.fbits + 1) * (2 * 2 ^ c.es) := by ring
  -- the fraction: (b / 2) % 2^F = (r / 2)
  have hfrac : b / 2 % 2 ^ c.fbits = b % 2 ^ (c.fbits + 1) / 2 := by
    rw [hM, Nat.mod_mul_right_div_self]
  rw [hfrac]
  have hqm : b / 2 ^ (c.fbits + 1) % 2 ^ c.es =
      if 2 ^ c.es ≤ b / 2 ^ (c.fbits + 1) then b / 2 ^ (c.fbits + 1) - 2 ^ c.es else b / 2 ^ (c.fbits + 1) := by
    split
    · rw [Nat.mod_eq_sub_mod (by omega)]; exact Nat.mod_eq_of_lt (by omega)
    · exact Nat.mod_eq_of_lt (by omega)
  rw [hqm]
  have hsign : 2 ^ (c.nbits - 1) ≤ b ↔ 2 ^ c.es ≤ b / 2 ^ (c.fbits + 1) := by
    rw [hN, Nat.le_div_iff_mul_le (Nat.two_pow_pos _)]
  have hbm : b % 2 = b % 2 ^ (c.fbits + 1) % 2 := by
    rw [hM, Nat.mod_mul_right_mod]
  rw [hN]
  generalize b / 2 ^ (c.fbits + 1) = q at *
  generalize b % 2 ^ (c.fbits + 1) = r at *
  generalize 2 ^ (c.fbits + 1) = T at *
  generalize 2 ^ c.es = E at *
  by_cases hsq : E ≤ q
  · have : E * T ≤ b := by
      calc E * T ≤ q * T := Nat.mul_le_mul_right _ hsq
        _ ≤ b := by rw [← hq, Nat.mul_comm]; omega
    have hqe : (q - E) * T + E * T = q * T := by rw [← Nat.add_mul]; congr 1; omega
    simp only [hsq, if_true, this, decide_true]
    rcases Nat.mod_two_eq_zero_or_one r with h | h <;> simp [hbm, h] <;> rw [Nat.mul_comm T q] at hq <;> omega
  · have : ¬ E * T ≤ b := by
      intro h
      have : E * T ≤ q * T + r := by rw [Nat.mul_comm q T]; omega
      have hlt : q + 1 ≤ E := by omega
      have : (q + 1) * T ≤ E * T := Nat.mul_le_mul_right _ hlt
      rw [Nat.add_mul] at this; omega
    simp only [hsq, if_false, this, decide_false, Bool.false_eq_true]
    rcases Nat.mod_two_eq_zero_or_one r with h | h <;> simp [hbm, h] <;> rw [Nat.mul_comm T q] at hq <;> omega

/-- side conditions under which every intermediate of `to_native` is representable in the native format -/
structure NativeFits (c : Model.Cfg) (f : Fmt) : Prop where
  ebits : 1 ≤ f.ebits
  frac : c.fbits ≤ f.fbits
  bias : (f.fbits : Int) ≤ (f.bias : Int)
  small : eMin f ≤ -(c.fbits : Int) - 1
  low : eMin f ≤ 1 - c.EXP_BIAS - (c.fbits : Int)
  lowk : eMin f ≤ 1 - c.EXP_BIAS
  high : c.MAX_EXP + (f.fbits : Int) ≤ (f.bias : Int)

/-- the finite, non-zero-pattern case of `to_native`: value and sign -/
theorem toNative_finite (c : Model.Cfg) (f : Fmt) (hfit : NativeFits c f) (hes : 1 ≤ c.es) (hn : c.es + 3 ≤ c.nbits)
    (b : Nat) (hb : b < 2 ^ c.nbits)
    (h0 : b % 2 ^ (c.nbits - 1) ≠ 0) (h1 : b % 2 ^ (c.nbits - 1) ≠ 2 ^ (c.nbits - 1) - 1)
    (h2 : b % 2 ^ (c.nbits - 1) ≠ 2 ^ (c.nbits - 1) - 2) :
    let sc : Cfg := ⟨c.nbits, c.es⟩
    let d := Model.toNative c f b
    IeeeBits.isFinite f d = true ∧ IeeeBits.signOf f d = b.testBit (c.nbits - 1) ∧
    (IeeeBits.mant f d : Rat) * pow2 (IeeeBits.ulpExp f d) = (latT sc (expOf sc b) (fracOf sc b) : Rat) * pow2 (latE sc (expOf sc b)) := by
  intro sc d
  have hf := hfit.ebits
  obtain ⟨he, hfr, hdec⟩ := enc_decompose sc hes hn b hb
  have hFF : sc.fbits = c.fbits := rfl
  have hbias : sc.bias = c.EXP_BIAS := rfl
  rw [hFF] at hfr
  -- the fraction loop
  obtain ⟨z1, z2, z3⟩ := zero_pattern f hf
  obtain ⟨q1, q2, q3⟩ := pow2Bits_val f hf (-1) (by have := hfit.small; omega) (by have := hfit.bias; omega)
  have hloop := fracLoop_val f hf b c.fbits hfit.frac hfit.small hfit.bias c.fbits 0 0 (Model.pow2Bits f (-1)) 0
    (by omega) z1 z2 q1 q2 (by simp) (by rw [z3]; simp) (by rw [q3]; simp)
  simp only [Nat.zero_mul, Nat.zero_add] at hloop
  obtain ⟨l1, l2, l3⟩ := hloop
  have hfracdef : (b >>> 1) % 2 ^ c.fbits = fracOf sc b := rfl
  rw [hfracdef] at l3
  have hexpdef : (b >>> (1 + c.fbits)) % 2 ^ c.es = expOf sc b := rfl
  -- unfold the model
  have hd : d = (let fr := Model.fracLoop f b c.fbits 0 (Model.pow2Bits f (-1))
      let e := expOf sc b
      let v := if e == 0 then Model.fmul f (Model.pow2Bits f (2 - ((2 ^ (c.es - 1) : Nat) : Int))) fr
        else Model.fmul f (Model.pow2Bits f ((e : Int) + 1 - ((2 ^ (c.es - 1) : Nat) : Int))) (IeeeBits.add f (Model.oneBits f) fr)
      if b.testBit (c.nbits - 1) then IeeeBits.negate f v else v) := by
    show Model.toNative c f b = _
    unfold Model.toNative
    simp only [beq_iff_eq, h0, h1, h2, if_false, hexpdef]
  rw [hd]
  generalize hfrd : Model.fracLoop f b c.fbits 0 (Model.pow2Bits f (-1)) = fr at *
  generalize hed : expOf sc b = e at *
  generalize hfd : fracOf sc b = fq at *
  dsimp only
  have hEB : ((2 ^ (c.es - 1) : Nat) : Int) = c.EXP_BIAS + 1 := by
    unfold Model.Cfg.EXP_BIAS; omega
  have hMAX : c.MAX_EXP = ((2 ^ c.es : Nat) : Int) - c.EXP_BIAS := rfl
  -- value and sign of v, then the sign
  have key : ∃ v, (if e == 0 then Model.fmul f (Model.pow2Bits f (2 - ((2 ^ (c.es - 1) : Nat) : Int))) fr
        else Model.fmul f (Model.pow2Bits f ((e : Int) + 1 - ((2 ^ (c.es - 1) : Nat) : Int))) (IeeeBits.add f (Model.oneBits f) fr)) = v ∧
      IeeeBits.isFinite f v = true ∧ IeeeBits.signOf f v = false ∧
      IeeeBits.toRat f v = (latT sc e fq : Rat) * pow2 (latE sc e) := by
    by_cases he0 : e = 0
    · subst he0
      simp only [beq_self_eq_true, if_true]
      refine ⟨_, rfl, ?_⟩
      have hk : (2 : Int) - ((2 ^ (c.es - 1) : Nat) : Int) = 1 - c.EXP_BIAS := by omega
      rw [hk]
      obtain ⟨p1, p2, p3⟩ := pow2Bits_val f hf (1 - c.EXP_BIAS) hfit.lowk
        (by have := hfit.high; have : (0:Int) ≤ ((2 ^ c.es : Nat) : Int) := by positivity
            have h3 := hfit.bias; omega)
      have hrep : IeeeBits.toRat f (Model.pow2Bits f (1 - c.EXP_BIAS)) * IeeeBits.toRat f fr ≠ 0 →
          Repr f |IeeeBits.toRat f (Model.pow2Bits f (1 - c.EXP_BIAS)) * IeeeBits.toRat f fr| := by
        intro _
        rw [p3, l3]
        have : pow2 (1 - c.EXP_BIAS) * ((fq : Rat) * pow2 (-(c.fbits : Int))) =
            (fq : Rat) * pow2 (1 - c.EXP_BIAS - (c.fbits : Int)) := by
          rw [show (1 - c.EXP_BIAS - (c.fbits : Int)) = (1 - c.EXP_BIAS) + -(c.fbits : Int) by ring, pow2_add]; ring
        rw [this, abs_of_nonneg (mul_nonneg (Nat.cast_nonneg _) (le_of_lt (pow2_pos _)))]
        apply repr_of_small
        · exact Nat.lt_of_lt_of_le hfr (Nat.pow_le_pow_right (by omega) (by have := hfit.frac; omega))
        · exact hfit.low
        · have := hfit.high; have h3 := hfit.bias
          have : (0:Int) ≤ ((2 ^ c.es : Nat) : Int) := by positivity
          omega
      obtain ⟨m1, m2, m3⟩ := fmul_exact f hf _ _ hrep
      refine ⟨m1, by rw [m3, p2, l2]; rfl, ?_⟩
      rw [m2, p3, l3]
      unfold latT latE
      simp only [if_true, Nat.zero_max, hbias, hFF]
      rw [show ((1 : Nat) : Int) - c.EXP_BIAS - (c.fbits : Int) = (1 - c.EXP_BIAS) + -(c.fbits : Int) by push_cast; ring,
        pow2_add]
      ring
    · have hbe : (e == 0) = false := by simpa using he0
      simp only [hbe, Bool.false_eq_true, if_false]
      refine ⟨_, rfl, ?_⟩
      have hk : (e : Int) + 1 - ((2 ^ (c.es - 1) : Nat) : Int) = (e : Int) - c.EXP_BIAS := by omega
      rw [hk]
      have he1 : 1 ≤ e := Nat.one_le_iff_ne_zero.mpr he0
      have heI : (e : Int) < ((2 ^ c.es : Nat) : Int) := by exact_mod_cast he
      obtain ⟨p1, p2, p3⟩ := pow2Bits_val f hf ((e : Int) - c.EXP_BIAS)
        (by have := hfit.lowk; omega) (by have := hfit.high; have h3 := hfit.bias; omega)
      -- 1 + fraction
      obtain ⟨o1, o2, o3⟩ := pow2Bits_val f hf 0 (by have := hfit.small; omega) (by have := hfit.bias; omega)
      have hone : Model.oneBits f = Model.pow2Bits f 0 := rfl
      have hsumval : IeeeBits.toRat f (Model.oneBits f) + IeeeBits.toRat f fr =
          ((2 ^ c.fbits + fq : Nat) : Rat) * pow2 (-(c.fbits : Int)) := by
        rw [hone, o3, l3]
        have h1 : pow2 0 = 1 := by rw [pow2_eq_zpow]; simp
        have h2 : ((2 ^ c.fbits : Nat) : Rat) * pow2 (-(c.fbits : Int)) = 1 := by
          rw [← pow2_natCast, ← pow2_add]; simp [h1]
        rw [h1]; push_cast; push_cast at h2; linarith
      have hrepA : IeeeBits.toRat f (Model.oneBits f) + IeeeBits.toRat f fr ≠ 0 → Repr f |IeeeBits.toRat f (Model.oneBits f) + IeeeBits.toRat f fr| := by
        intro _
        rw [hsumval, abs_of_nonneg (mul_nonneg (Nat.cast_nonneg _) (le_of_lt (pow2_pos _)))]
        apply repr_of_small
        · have : 2 ^ c.fbits + fq < 2 ^ (c.fbits + 1) := by rw [Nat.pow_succ]; omega
          exact Nat.lt_of_lt_of_le this (Nat.pow_le_pow_right (by omega) (by have := hfit.frac; omega))
        · have := hfit.small; omega
        · have := hfit.bias; omega
      rw [hone] at hrepA hsumval
      obtain ⟨a1, a2⟩ := add_exact f hf _ _ o1 l1 hrepA
      have a3 := add_sign_nonneg f hf _ _ o1 l1 o2 l2 hrepA
      have hprodval : IeeeBits.toRat f (Model.pow2Bits f ((e : Int) - c.EXP_BIAS)) *
          IeeeBits.toRat f (IeeeBits.add f (Model.pow2Bits f 0) fr) =
          ((2 ^ c.fbits + fq : Nat) : Rat) * pow2 ((e : Int) - c.EXP_BIAS - (c.fbits : Int)) := by
        rw [p3, a2, hsumval,
          show ((e : Int) - c.EXP_BIAS - (c.fbits : Int)) = ((e : Int) - c.EXP_BIAS) + -(c.fbits : Int) by ring, pow2_add]
        ring
      have hrepM : IeeeBits.toRat f (Model.pow2Bits f ((e : Int) - c.EXP_BIAS)) * IeeeBits.toRat f (IeeeBits.add f (Model.pow2Bits f 0) fr) ≠ 0 →
          Repr f |IeeeBits.toRat f (Model.pow2Bits f ((e : Int) - c.EXP_BIAS)) * IeeeBits.toRat f (IeeeBits.add f (Model.pow2Bits f 0) fr)| := by
        intro _
        rw [hprodval, abs_of_nonneg (mul_nonneg (Nat.cast_nonneg _) (le_of_lt (pow2_pos _)))]
        apply repr_of_small
        · have : 2 ^ c.fbits + fq < 2 ^ (c.fbits + 1) := by rw [Nat.pow_succ]; omega
          exact Nat.lt_of_lt_of_le this (Nat.pow_le_pow_right (by omega) (by have := hfit.frac; omega))
        · have := hfit.low; omega
        · have := hfit.high; omega
      obtain ⟨m1, m2, m3⟩ := fmul_exact f hf _ _ hrepM
      rw [hone]
      refine ⟨m1, by rw [m3, p2, a3]; rfl, ?_⟩
      rw [m2, hprodval]
      unfold latT latE
      simp only [he0, if_false, hbias, hFF, show max e 1 = e by omega]
      push_cast; ring
  obtain ⟨v, hv, v1, v2, v3⟩ := key
  rw [hv]
  have hvmag : (IeeeBits.mant f v : Rat) * pow2 (IeeeBits.ulpExp f v) = (latT sc e fq : Rat) * pow2 (latE sc e) := by
    rw [← v3, toRat_def, v2]; simp
  cases hs : b.testBit (c.nbits - 1)
  · simp only [Bool.false_eq_true, if_false]
    exact ⟨v1, v2, hvmag⟩
  · simp only [if_true]
    obtain ⟨n1, n2, n3, n4⟩ := negate_val f v v1
    refine ⟨n1, by rw [n2, v2]; rfl, ?_⟩
    rw [n3, n4, hvmag]

theorem nativeFits_of_small_es (c : Model.Cfg) (f : Fmt) (hes : 1 ≤ c.es) (hes7 : c.es ≤ 7)
    (hf : 1 ≤ f.ebits) (hF : c.fbits ≤ f.fbits) (hb : (f.fbits : Int) ≤ (f.bias : Int))
    (h1 : IeeeLemmas.eMin f ≤ -(c.fbits : Int) - 64) (h2 : 65 + (f.fbits : Int) ≤ (f.bias : Int)) : NativeFits c f := by
  have hp : 2 ^ (c.es - 1) ≤ 64 := by
    calc 2 ^ (c.es - 1) ≤ 2 ^ 6 := Nat.pow_le_pow_right (by omega) (by omega)
      _ = 64 := by norm_num
  have hp1 : 1 ≤ 2 ^ (c.es - 1) := Nat.two_pow_pos _
  have h2e : 2 ^ c.es = 2 * 2 ^ (c.es - 1) := by
    rw [show c.es = (c.es - 1) + 1 by omega, Nat.pow_succ]; simp; ring
  have hB : c.EXP_BIAS = ((2 ^ (c.es - 1) : Nat) : Int) - 1 := rfl
  have hMx : c.MAX_EXP = ((2 ^ c.es : Nat) : Int) - c.EXP_BIAS := rfl
  rw [h2e] at hMx
  generalize 2 ^ (c.es - 1) = P at *
  refine ⟨hf, hF, hb, by omega, by omega, by omega, ?_⟩
  rw [hMx, hB]; push_cast; omega


end UVerif.ArealLemmas
