/-
  UVerifProofs.Lemmas.ArealOrder — exact areal encodings are strictly ordered like their values (`magVal_strictMono`),
  and the encoding that encloses a finite value is unique (`encloses_unique`).
-/
import UVerif.Spec.Areal
import UVerifProofs.Lemmas.ArealVal
import UVerifProofs.Lemmas.ArealNative

set_option linter.unusedSimpArgs false
set_option linter.unusedVariables false
set_option linter.unnecessarySeqFocus false

namespace UVerif.ArealLemmas
open UVerif UVerif.Areal

/-- `magVal_next` for an arbitrary even magnitude below the inf pattern -/
theorem magVal_step (c : Cfg) (hes : 1 ≤ c.es) (hn : c.es + 3 ≤ c.nbits) (L : Nat) (hev : L % 2 = 0)
    (hL : L + 2 ≤ infMag c) : magVal c L < magVal c (L + 2) := by
  obtain ⟨hF1, hN1, hN, hM, hNN⟩ := size_facts c hes hn
  unfold infMag at hL
  have h4 : 4 ≤ 2 ^ (c.nbits - 1) := (mag_bounds c hes hn (e := 0) (f := 0) (Nat.two_pow_pos _) (Nat.two_pow_pos _)
    (by have : 2 ≤ 2 ^ c.es := by
          calc 2 = 2 ^ 1 := rfl
            _ ≤ 2 ^ c.es := Nat.pow_le_pow_right (by omega) hes
        omega)).2.2
  have hLlt : L < 2 ^ c.nbits := by omega
  obtain ⟨he, hf, hdec⟩ := enc_decompose c hes hn L hLlt
  have hs : L.testBit (c.nbits - 1) = false := Nat.testBit_lt_two_pow (by omega)
  have hu : L.testBit 0 = false := by rw [Nat.testBit_zero]; simp [hev]
  rw [hs, hu] at hdec
  simp only [Bool.false_eq_true, if_false, Nat.zero_add, Nat.add_zero] at hdec
  have hlast : ¬ (expOf c L = 2 ^ c.es - 1 ∧ fracOf c L = 2 ^ c.fbits - 1) := by
    rintro ⟨h1, h2⟩
    have hE1 : 1 ≤ 2 ^ c.es := Nat.two_pow_pos _
    have hQ1 : 1 ≤ 2 ^ c.fbits := Nat.two_pow_pos _
    have hk : (2 ^ c.es - 1) * (2 * 2 ^ c.fbits) + 2 * 2 ^ c.fbits = 2 ^ c.es * (2 * 2 ^ c.fbits) := by
      have : 2 ^ c.es = (2 ^ c.es - 1) + 1 := by omega
      nth_rewrite 2 [this]; ring
    rw [h1, h2, hM] at hdec
    rw [hN, hM] at hL
    generalize (2 ^ c.es - 1) * (2 * 2 ^ c.fbits) = X at *
    generalize 2 ^ c.es * (2 * 2 ^ c.fbits) = Y at *
    omega
  have := magVal_next c hes he hf hlast
  rw [← hdec] at this
  rw [this]
  have := pow2_pos (latE c (expOf c L))
  linarith

/-- exact encodings are strictly ordered like their values -/
theorem magVal_strictMono (c : Cfg) (hes : 1 ≤ c.es) (hn : c.es + 3 ≤ c.nbits) (L : Nat) (hev : L % 2 = 0) :
    ∀ k : Nat, 1 ≤ k → L + 2 * k ≤ infMag c → magVal c L < magVal c (L + 2 * k) := by
  intro k
  induction k with
  | zero => intro h; omega
  | succ k ih =>
    intro _ hk
    rcases Nat.eq_zero_or_pos k with h0 | hpos
    · subst h0; simpa using magVal_step c hes hn L hev (by simpa using hk)
    · have h1 := ih hpos (by omega)
      have h2 := magVal_step c hes hn (L + 2 * k) (by omega) (by omega)
      have : L + 2 * (k + 1) = L + 2 * k + 2 := by ring
      rw [this]; linarith

theorem magVal_lt_of_lt (c : Cfg) (hes : 1 ≤ c.es) (hn : c.es + 3 ≤ c.nbits) {L1 L2 : Nat}
    (h1 : L1 % 2 = 0) (h2 : L2 % 2 = 0) (hlt : L1 < L2) (hmax : L2 ≤ infMag c) : magVal c L1 < magVal c L2 := by
  obtain ⟨k, hk⟩ : ∃ k, L2 = L1 + 2 * k := ⟨(L2 - L1) / 2, by omega⟩
  rw [hk]
  exact magVal_strictMono c hes hn L1 h1 k (by omega) (by omega)

/-- the pieces of `encloses` for a finite source, unpacked -/
theorem encloses_fin_iff (c : Cfg) (neg : Bool) (x : Rat) (b : Nat) :
    encloses c (.fin neg x) b = true ↔
      b < 2 ^ c.nbits ∧ signOf c b = neg ∧ (magOf c b - magOf c b % 2) ≤ maxposMag c ∧
      (if ubitOf (magOf c b) then
          magVal c (magOf c b - magOf c b % 2) < x ∧
            ((magOf c b - magOf c b % 2) = maxposMag c ∨ x < magVal c (magOf c b - magOf c b % 2 + 2))
        else magVal c (magOf c b - magOf c b % 2) = x) := by
  unfold encloses
  simp only [Bool.and_eq_true, decide_eq_true_eq, beq_iff_eq]
  constructor
  · rintro ⟨h1, h2, h3, h4⟩
    refine ⟨h1, h2, h3, ?_⟩
    split at h4
    · rename_i hu
      have : ubitOf (magOf c b) = false := by simpa using hu
      simp only [this, Bool.false_eq_true, if_false]
      simpa using h4
    · rename_i hu
      have : ubitOf (magOf c b) = true := by simpa using hu
      simp only [this, if_true]
      simpa using h4
  · rintro ⟨h1, h2, h3, h4⟩
    refine ⟨h1, h2, h3, ?_⟩
    split at h4
    · rename_i hu
      simp only [hu, Bool.not_true, Bool.false_eq_true, if_false]
      simpa using h4
    · rename_i hu
      have : ubitOf (magOf c b) = false := by simpa using hu
      simp only [this, Bool.not_false, if_true]
      simpa using h4

/-- a pattern is determined by its sign, its ubit and its magnitude with the ubit cleared -/
theorem enc_of_parts (c : Cfg) (hn : 1 ≤ c.nbits) {b1 b2 : Nat} (h1 : b1 < 2 ^ c.nbits) (h2 : b2 < 2 ^ c.nbits)
    (hs : signOf c b1 = signOf c b2) (hu : ubitOf (magOf c b1) = ubitOf (magOf c b2))
    (hL : magOf c b1 - magOf c b1 % 2 = magOf c b2 - magOf c b2 % 2) : b1 = b2 := by
  unfold signOf at hs
  unfold ubitOf at hu
  unfold magOf at *
  have hN : 2 ^ c.nbits = 2 * 2 ^ (c.nbits - 1) := by
    rw [show c.nbits = (c.nbits - 1) + 1 by omega, Nat.pow_succ]; simp; ring
  have t1 : b1.testBit (c.nbits - 1) = decide (2 ^ (c.nbits - 1) ≤ b1) := by
    by_cases hx : 2 ^ (c.nbits - 1) ≤ b1
    · obtain ⟨y, hy⟩ : ∃ y, b1 = 2 ^ (c.nbits - 1) + y := ⟨b1 - 2 ^ (c.nbits - 1), by omega⟩
      rw [hy, Nat.testBit_two_pow_add_eq, Nat.testBit_lt_two_pow (by omega)]; simp
    · rw [Nat.testBit_lt_two_pow (by omega)]; simp [hx]
  have t2 : b2.testBit (c.nbits - 1) = decide (2 ^ (c.nbits - 1) ≤ b2) := by
    by_cases hx : 2 ^ (c.nbits - 1) ≤ b2
    · obtain ⟨y, hy⟩ : ∃ y, b2 = 2 ^ (c.nbits - 1) + y := ⟨b2 - 2 ^ (c.nbits - 1), by omega⟩
      rw [hy, Nat.testBit_two_pow_add_eq, Nat.testBit_lt_two_pow (by omega)]; simp
    · rw [Nat.testBit_lt_two_pow (by omega)]; simp [hx]
  rw [t1, t2] at hs
  have m1 : b1 % 2 ^ (c.nbits - 1) = if b1 < 2 ^ (c.nbits - 1) then b1 else b1 - 2 ^ (c.nbits - 1) := by
    split
    · exact Nat.mod_eq_of_lt ‹_›
    · rw [Nat.mod_eq_sub_mod (by omega)]; exact Nat.mod_eq_of_lt (by omega)
  have m2 : b2 % 2 ^ (c.nbits - 1) = if b2 < 2 ^ (c.nbits - 1) then b2 else b2 - 2 ^ (c.nbits - 1) := by
    split
    · exact Nat.mod_eq_of_lt ‹_›
    · rw [Nat.mod_eq_sub_mod (by omega)]; exact Nat.mod_eq_of_lt (by omega)
  rw [Nat.testBit_zero, Nat.testBit_zero] at hu
  rw [m1, m2] at hu hL
  have hs' : (2 ^ (c.nbits - 1) ≤ b1) ↔ (2 ^ (c.nbits - 1) ≤ b2) := by
    constructor <;> intro h <;> simpa [h] using hs
  have hu' : ((if b1 < 2 ^ (c.nbits - 1) then b1 else b1 - 2 ^ (c.nbits - 1)) % 2 = 1) ↔
      ((if b2 < 2 ^ (c.nbits - 1) then b2 else b2 - 2 ^ (c.nbits - 1)) % 2 = 1) := by
    constructor <;> intro h <;> simpa [h] using hu
  split_ifs at hL hu' <;> omega

/-- the enclosing encoding of a finite value is unique -/
theorem encloses_unique (c : Cfg) (hes : 1 ≤ c.es) (hn : c.es + 3 ≤ c.nbits) (neg : Bool) (x : Rat) (b1 b2 : Nat)
    (h1 : encloses c (.fin neg x) b1 = true) (h2 : encloses c (.fin neg x) b2 = true) : b1 = b2 := by
  rw [encloses_fin_iff] at h1 h2
  obtain ⟨a1, a2, a3, a4⟩ := h1
  obtain ⟨c1, c2, c3, c4⟩ := h2
  have hmi : maxposMag c + 2 = infMag c := by
    unfold maxposMag infMag
    have := (mag_bounds c hes hn (e := 0) (f := 0) (Nat.two_pow_pos _) (Nat.two_pow_pos _)
      (by have : 2 ≤ 2 ^ c.es := by
            calc 2 = 2 ^ 1 := rfl
              _ ≤ 2 ^ c.es := Nat.pow_le_pow_right (by omega) hes
          omega)).2.2
    omega
  generalize hL1 : magOf c b1 - magOf c b1 % 2 = L1 at *
  generalize hL2 : magOf c b2 - magOf c b2 % 2 = L2 at *
  have e1 : L1 % 2 = 0 := by rw [← hL1]; omega
  have e2 : L2 % 2 = 0 := by rw [← hL2]; omega
  have mono := fun (A B : Nat) (ha : A % 2 = 0) (hb : B % 2 = 0) (hlt : A < B) (hB : B ≤ infMag c) =>
    magVal_lt_of_lt c hes hn ha hb hlt hB
  -- the lattice point and the ubit coincide
  have key : L1 = L2 ∧ ubitOf (magOf c b1) = ubitOf (magOf c b2) := by
    cases hu1 : ubitOf (magOf c b1) <;> cases hu2 : ubitOf (magOf c b2) <;>
      simp only [hu1, hu2, Bool.false_eq_true, if_false, if_true] at a4 c4
    · refine ⟨?_, rfl⟩
      rcases Nat.lt_trichotomy L1 L2 with h | h | h
      · have := mono L1 L2 e1 e2 h (by omega); linarith
      · exact h
      · have := mono L2 L1 e2 e1 h (by omega); linarith
    · exfalso
      -- value(L2) < x = value(L1)  ⇒ L2 < L1 ⇒ value(L2+2) ≤ value(L1) = x, but x < value(L2+2)
      obtain ⟨d1, d2⟩ := c4
      have hlt : L2 < L1 := by
        by_contra hc
        rcases Nat.lt_or_ge L1 L2 with h | h
        · have := mono L1 L2 e1 e2 h (by omega); linarith
        · have : L1 = L2 := by omega
          rw [this] at a4; linarith
      rcases d2 with d2 | d2
      · omega
      · rcases Nat.lt_or_ge (L2 + 2) L1 with h | h
        · have := mono (L2 + 2) L1 (by omega) e1 h (by omega); linarith
        · have : L2 + 2 = L1 := by omega
          rw [this] at d2; linarith
    · exfalso
      obtain ⟨d1, d2⟩ := a4
      have hlt : L1 < L2 := by
        by_contra hc
        rcases Nat.lt_or_ge L2 L1 with h | h
        · have := mono L2 L1 e2 e1 h (by omega); linarith
        · have : L1 = L2 := by omega
          rw [this] at d1; linarith
      rcases d2 with d2 | d2
      · omega
      · rcases Nat.lt_or_ge (L1 + 2) L2 with h | h
        · have := mono (L1 + 2) L2 (by omega) e2 h (by omega); linarith
        · have : L1 + 2 = L2 := by omega
          rw [this] at d2; linarith
    · refine ⟨?_, rfl⟩
      obtain ⟨d1, d2⟩ := a4
      obtain ⟨f1, f2⟩ := c4
      rcases Nat.lt_trichotomy L1 L2 with h | h | h
      · exfalso
        rcases d2 with d2 | d2
        · omega
        · rcases Nat.lt_or_ge (L1 + 2) L2 with h' | h'
          · have := mono (L1 + 2) L2 (by omega) e2 h' (by omega); linarith
          · have : L1 + 2 = L2 := by omega
            rw [this] at d2; linarith
      · exact h
      · exfalso
        rcases f2 with f2 | f2
        · omega
        · rcases Nat.lt_or_ge (L2 + 2) L1 with h' | h'
          · have := mono (L2 + 2) L1 (by omega) e1 h' (by omega); linarith
          · have : L2 + 2 = L1 := by omega
            rw [this] at f2; linarith
  obtain ⟨k1, k2⟩ := key
  exact enc_of_parts c (by omega) a1 c1 (by rw [a2, c2]) k2 (by rw [hL1, hL2, k1])


end UVerif.ArealLemmas
