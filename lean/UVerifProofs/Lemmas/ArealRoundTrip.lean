/-
  UVerifProofs.Lemmas.ArealRoundTrip — ingredients of the areal round trip `areal(to_native(b)) = b with the ubit cleared`:
  binade uniqueness for powers of two, and `region_false_of_value`: a finite double whose value is a lattice value of an
  areal<nbits,es> (es ≤ 7) lies outside the D13 region of `operator=(double)`.
-/
import UVerifProofs.Props.C18
import UVerifProofs.Lemmas.ArealNative
import UVerifProofs.Lemmas.ArealOrder

set_option linter.unusedSimpArgs false
set_option linter.unusedVariables false
set_option linter.unnecessarySeqFocus false

namespace UVerif.ArealLemmas
open UVerif UVerif.Areal UVerif.IeeeLemmas
open UVerif.IeeeBits (Fmt f64 f32)

theorem pow2_lt_of_lt {a b : Int} (h : a < b) : pow2 a < pow2 b := by
  obtain ⟨k, hk⟩ : ∃ k : Nat, b = a + 1 + k := ⟨(b - a - 1).toNat, by omega⟩
  have h1 : pow2 (a + 1) ≤ pow2 b := pow2_mono (by omega)
  have h2 := pow2_succ a
  have := pow2_pos a
  linarith

/-- if 2^a ≤ V < 2^b then a < b -/
theorem exp_lt_of_bounds {a b : Int} {V : Rat} (h1 : pow2 a ≤ V) (h2 : V < pow2 b) : a < b := by
  by_contra h
  have := pow2_mono (show b ≤ a by omega)
  linarith

/-- binade uniqueness -/
theorem binade_unique {a b : Int} {V : Rat} (h1 : pow2 a ≤ V) (h2 : V < pow2 (a + 1)) (h3 : pow2 b ≤ V)
    (h4 : V < pow2 (b + 1)) : a = b := by
  have := exp_lt_of_bounds h1 h4
  have := exp_lt_of_bounds h3 h2
  omega

theorem pow2_shift (a : Int) (k : Nat) (b : Int) (h : b = a + k) : pow2 b = pow2 a * ((2 ^ k : Nat) : Rat) := by
  subst h; exact pow2_add_nat a k

theorem f64_fields (d : Nat) :
    (d >>> 52) % 2048 = IeeeBits.expOf f64 d ∧ d % 2 ^ 52 = IeeeBits.fracOf f64 d ∧ d.testBit 63 = IeeeBits.signOf f64 d :=
  ⟨rfl, rfl, rfl⟩

/-- a finite double whose value is a (non-last) lattice value of areal<nbits,es> with es ≤ 7 is outside the D13 region -/
theorem region_false_of_value (c : Model.Cfg) (d e f : Nat) (hes : 1 ≤ c.es) (hes7 : c.es ≤ 7) (hn : c.es + 3 ≤ c.nbits)
    (hF : c.fbits + 1 < 52) (he : e < 2 ^ c.es) (hf : f < 2 ^ c.fbits)
    (hlast : ¬ (e = 2 ^ c.es - 1 ∧ f = 2 ^ c.fbits - 1))
    (hfin : IeeeBits.isFinite f64 d = true)
    (hval : (IeeeBits.mant f64 d : Rat) * pow2 (IeeeBits.ulpExp f64 d) =
      (latT (specCfg c) e f : Rat) * pow2 (latE (specCfg c) e)) :
    d13RegionF64 c d = false := by
  obtain ⟨g1, g2, g3⟩ := f64_fields d
  have hre : IeeeBits.expOf f64 d < 2047 := by
    unfold IeeeBits.isFinite at hfin
    have h1 : IeeeBits.expOf f64 d < 2 ^ 11 := Nat.mod_lt _ (by norm_num)
    have h2 : IeeeBits.expOf f64 d ≠ 2047 := by
      have : (f64.eAll : Nat) = 2047 := by decide
      rw [← this]; simpa using hfin
    omega
  have hfr : IeeeBits.fracOf f64 d < 2 ^ 52 := Nat.mod_lt _ (Nat.two_pow_pos _)
  -- configuration bounds
  obtain ⟨P, hP⟩ : ∃ P, 2 ^ (c.es - 1) = P := ⟨_, rfl⟩
  have hp : P ≤ 64 := by
    rw [← hP]
    calc 2 ^ (c.es - 1) ≤ 2 ^ 6 := Nat.pow_le_pow_right (by omega) (by omega)
      _ = 64 := by norm_num
  have hp1 : 1 ≤ P := by rw [← hP]; exact Nat.two_pow_pos _
  have h2e : 2 ^ c.es = 2 * P := by
    rw [← hP, show c.es = (c.es - 1) + 1 by omega, Nat.pow_succ]; simp; ring
  have hB : c.EXP_BIAS = (P : Int) - 1 := by unfold Model.Cfg.EXP_BIAS; rw [hP]
  have hMx : c.MAX_EXP = 2 * (P : Int) - c.EXP_BIAS := by
    unfold Model.Cfg.MAX_EXP; rw [h2e]; push_cast; ring
  have hFF : (specCfg c).fbits = c.fbits := rfl
  have hbias : (specCfg c).bias = c.EXP_BIAS := rfl
  have hMXb : 2 ≤ c.MAX_EXP ∧ c.MAX_EXP ≤ 65 := by rw [hMx, hB]; omega
  have hcf : (c.fbits : Int) ≤ 50 := by omega
  unfold d13RegionF64
  simp only [g1, g2]
  generalize hred : IeeeBits.expOf f64 d = re at *
  generalize hfrd : IeeeBits.fracOf f64 d = fr at *
  have hmant : IeeeBits.mant f64 d = if re = 0 then fr else fr + 2 ^ 52 := by
    unfold IeeeBits.mant; rw [hred, hfrd]; rfl
  have hulp : IeeeBits.ulpExp f64 d = ((Nat.max re 1 : Nat) : Int) - 1075 := by
    unfold IeeeBits.ulpExp; rw [hred]
    have hb : (f64.bias : Int) = 1023 := by decide
    have hf' : (f64.fbits : Int) = 52 := by decide
    rw [hb, hf']; ring
  rw [hmant, hulp] at hval
  by_cases hT : latT (specCfg c) e f = 0
  · -- the value is zero: d is a zero pattern
    rw [hT] at hval
    simp only [Nat.cast_zero, zero_mul] at hval
    have hm0 : (if re = 0 then fr else fr + 2 ^ 52) = 0 := by
      have hpp := pow2_pos (((Nat.max re 1 : Nat) : Int) - 1075)
      rcases mul_eq_zero.mp hval with h | h
      · exact_mod_cast h
      · linarith
    have hre0 : re = 0 := by
      by_contra h; rw [if_neg h] at hm0; have := Nat.two_pow_pos 52; omega
    rw [if_pos hre0] at hm0
    subst hre0; subst hm0
    simp
    obtain ⟨m1, m2⟩ := hMXb
    constructor
    · omega
    · intro h; omega
  · have hT1 : 1 ≤ latT (specCfg c) e f := Nat.one_le_iff_ne_zero.mpr hT
    have hTR : (1 : Rat) ≤ (latT (specCfg c) e f : Rat) := by exact_mod_cast hT1
    have hEpos := pow2_pos (latE (specCfg c) e)
    -- (a) d is a normal double
    have hElo : (-1022 : Int) ≤ latE (specCfg c) e := by
      unfold latE; rw [hbias, hFF, hB]
      have : (1 : Int) ≤ ((Nat.max e 1 : Nat) : Int) := by
        have : 1 ≤ Nat.max e 1 := Nat.le_max_right _ _
        exact_mod_cast this
      omega
    have hre1 : 1 ≤ re := by
      by_contra h
      have hre0 : re = 0 := by omega
      rw [if_pos hre0, hre0] at hval
      have hmax : ((Nat.max 0 1 : Nat) : Int) - 1075 = -1074 := by decide
      rw [hmax] at hval
      have h1 : (fr : Rat) < ((2 ^ 52 : Nat) : Rat) := by exact_mod_cast hfr
      have h2 : pow2 (-1022) = pow2 (-1074) * ((2 ^ 52 : Nat) : Rat) := by
        exact pow2_shift (-1074) 52 (-1022) (by norm_num)
      have h3 : pow2 (-1022) ≤ pow2 (latE (specCfg c) e) := pow2_mono hElo
      have hpp := pow2_pos (-1074)
      nlinarith
    have hmax : ((Nat.max re 1 : Nat) : Int) = (re : Int) := by
      have : Nat.max re 1 = re := Nat.max_eq_left hre1
      rw [this]
    rw [if_neg (by omega), hmax] at hval
    -- (b) the binade of d
    have hm1 : ((2 ^ 52 : Nat) : Rat) ≤ ((fr + 2 ^ 52 : Nat) : Rat) := Nat.cast_le.mpr (Nat.le_add_left _ _)
    have hm2 : ((fr + 2 ^ 52 : Nat) : Rat) < ((2 ^ 53 : Nat) : Rat) := by
      apply Nat.cast_lt.mpr
      have : 2 ^ 53 = 2 ^ 52 + 2 ^ 52 := by rw [show 53 = 52 + 1 by rfl, Nat.pow_succ]; ring
      rw [this]; exact Nat.add_lt_add_right hfr _
    have hpd := pow2_pos ((re : Int) - 1075)
    have hb1 : pow2 ((re : Int) - 1023) = pow2 ((re : Int) - 1075) * ((2 ^ 52 : Nat) : Rat) := by
      exact pow2_shift ((re : Int) - 1075) 52 _ (by omega)
    have hb2 : pow2 ((re : Int) - 1023 + 1) = pow2 ((re : Int) - 1075) * ((2 ^ 53 : Nat) : Rat) := by
      exact pow2_shift ((re : Int) - 1075) 53 _ (by omega)
    have hV1 : pow2 ((re : Int) - 1023) ≤ ((fr + 2 ^ 52 : Nat) : Rat) * pow2 ((re : Int) - 1075) := by
      rw [hb1]; nlinarith
    have hV2 : ((fr + 2 ^ 52 : Nat) : Rat) * pow2 ((re : Int) - 1075) < pow2 ((re : Int) - 1023 + 1) := by
      rw [hb2]; nlinarith
    -- the two facts that make every disjunct of the region false
    have facts : (re : Int) - 1023 ≠ c.MAX_EXP ∧
        ¬ ((re : Int) - 1023 = c.MAX_EXP - 1 ∧ fr / 2 ^ (52 - c.fbits) = 2 ^ c.fbits - 1) := by
      have hEI : (e : Int) < 2 * (P : Int) := by
        have : e < 2 * P := by rw [← h2e]; exact he
        exact_mod_cast this
      by_cases he0 : e = 0
      · -- subnormal lattice value: V < 2^MIN_EXP_NORMAL
        have hT' : latT (specCfg c) e f = f := by unfold latT; rw [if_pos he0]
        have hE' : latE (specCfg c) e = 1 - c.EXP_BIAS - (c.fbits : Int) := by
          unfold latE; rw [he0, hbias, hFF]; simp
        rw [hT', hE'] at hval
        have hfR : (f : Rat) < ((2 ^ c.fbits : Nat) : Rat) := Nat.cast_lt.mpr hf
        have hb3 : pow2 (1 - c.EXP_BIAS) = pow2 (1 - c.EXP_BIAS - (c.fbits : Int)) * ((2 ^ c.fbits : Nat) : Rat) :=
          pow2_shift _ c.fbits _ (by omega)
        have hpe := pow2_pos (1 - c.EXP_BIAS - (c.fbits : Int))
        have hV3 : ((fr + 2 ^ 52 : Nat) : Rat) * pow2 ((re : Int) - 1075) < pow2 (1 - c.EXP_BIAS) := by
          rw [hval, hb3]; nlinarith
        have hlt := exp_lt_of_bounds hV1 hV3
        constructor
        · omega
        · rintro ⟨h1, _⟩; omega
      · -- normal lattice value: same binade, fraction = f · 2^(52-F)
        have he1 : 1 ≤ e := Nat.one_le_iff_ne_zero.mpr he0
        have hT' : latT (specCfg c) e f = f + 2 ^ c.fbits := by unfold latT; rw [if_neg he0, hFF]
        have hE' : latE (specCfg c) e = (e : Int) - c.EXP_BIAS - (c.fbits : Int) := by
          unfold latE; rw [hbias, hFF, show max e 1 = e from Nat.max_eq_left he1]
        rw [hT', hE'] at hval
        have hpe := pow2_pos ((e : Int) - c.EXP_BIAS - (c.fbits : Int))
        have hT1' : ((2 ^ c.fbits : Nat) : Rat) ≤ ((f + 2 ^ c.fbits : Nat) : Rat) := Nat.cast_le.mpr (Nat.le_add_left _ _)
        have hT2' : ((f + 2 ^ c.fbits : Nat) : Rat) < ((2 ^ (c.fbits + 1) : Nat) : Rat) := by
          apply Nat.cast_lt.mpr; rw [Nat.pow_succ]; omega
        have hb3 : pow2 ((e : Int) - c.EXP_BIAS) = pow2 ((e : Int) - c.EXP_BIAS - (c.fbits : Int)) * ((2 ^ c.fbits : Nat) : Rat) :=
          pow2_shift _ c.fbits _ (by omega)
        have hb4 : pow2 ((e : Int) - c.EXP_BIAS + 1) =
            pow2 ((e : Int) - c.EXP_BIAS - (c.fbits : Int)) * ((2 ^ (c.fbits + 1) : Nat) : Rat) :=
          pow2_shift _ (c.fbits + 1) _ (by push_cast; omega)
        have hW1 : pow2 ((e : Int) - c.EXP_BIAS) ≤ ((fr + 2 ^ 52 : Nat) : Rat) * pow2 ((re : Int) - 1075) := by
          rw [hval, hb3]; nlinarith
        have hW2 : ((fr + 2 ^ 52 : Nat) : Rat) * pow2 ((re : Int) - 1075) < pow2 ((e : Int) - c.EXP_BIAS + 1) := by
          rw [hval, hb4]; nlinarith
        have hbin : (re : Int) - 1023 = (e : Int) - c.EXP_BIAS := binade_unique hV1 hV2 hW1 hW2
        constructor
        · omega
        · rintro ⟨h1, h2⟩
          apply hlast
          have hee : e = 2 ^ c.es - 1 := by
            have : (e : Int) = 2 * (P : Int) - 1 := by omega
            have : e = 2 * P - 1 := by omega
            rw [h2e]; exact this
          refine ⟨hee, ?_⟩
          -- fraction: fr + 2^52 = (f + 2^F) · 2^(52-F)
          have hb5 : pow2 ((e : Int) - c.EXP_BIAS - (c.fbits : Int)) =
              pow2 ((re : Int) - 1075) * ((2 ^ (52 - c.fbits) : Nat) : Rat) :=
            pow2_shift _ (52 - c.fbits) _ (by omega)
          rw [hb5] at hval
          have hcancel : ((fr + 2 ^ 52 : Nat) : Rat) = ((f + 2 ^ c.fbits : Nat) : Rat) * ((2 ^ (52 - c.fbits) : Nat) : Rat) := by
            have : ((fr + 2 ^ 52 : Nat) : Rat) * pow2 ((re : Int) - 1075) =
                (((f + 2 ^ c.fbits : Nat) : Rat) * ((2 ^ (52 - c.fbits) : Nat) : Rat)) * pow2 ((re : Int) - 1075) := by
              rw [hval]; ring
            exact mul_right_cancel₀ (ne_of_gt hpd) this
          have hnat : fr + 2 ^ 52 = (f + 2 ^ c.fbits) * 2 ^ (52 - c.fbits) := by
            have : ((fr + 2 ^ 52 : Nat) : Rat) = (((f + 2 ^ c.fbits) * 2 ^ (52 - c.fbits) : Nat) : Rat) := by
              rw [hcancel, Nat.cast_mul]
            exact Nat.cast_injective this
          have h52 : 2 ^ 52 = 2 ^ c.fbits * 2 ^ (52 - c.fbits) := by
            have hk : c.fbits + (52 - c.fbits) = 52 := by omega
            have := Nat.pow_add 2 c.fbits (52 - c.fbits)
            rw [hk] at this; exact this
          have hfrq : fr = f * 2 ^ (52 - c.fbits) := by
            rw [Nat.add_mul, ← h52] at hnat; omega
          rw [hfrq, Nat.mul_div_cancel _ (Nat.two_pow_pos _)] at h2
          exact h2
    obtain ⟨fa1, fa2⟩ := facts
    have hn2047 : (re == 2047) = false := by simp; omega
    have hn0 : (re == 0) = false := by simp; omega
    have hd2 : (((re : Int) - 1023) == c.MAX_EXP) = false := by simpa using fa1
    simp only [hn2047, hn0, Bool.false_and, Bool.false_or, hd2, Bool.and_false, Bool.or_false]
    by_cases h3 : (re : Int) - 1023 = c.MAX_EXP - 1
    · have : ¬ fr / 2 ^ (52 - c.fbits) = 2 ^ c.fbits - 1 := fun h => fa2 ⟨h3, h⟩
      simp [this]
    · simp [h3]

end UVerif.ArealLemmas
