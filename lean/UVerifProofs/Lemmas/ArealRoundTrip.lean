/-
  UVerifProofs.Lemmas.ArealRoundTrip — ingredients of the areal round trip `areal(to_native(b)) = b with the ubit cleared`:
  binade uniqueness for powers of two.  (`region_false_of_value` — "a lattice value lies outside the D13 region of
  operator=(double)" — was removed together with the D13 region: the conversion is repaired and C18_encloses_every_f64 holds
  for every double.)
-/
import UVerifProofs.Props.C18
import UVerifProofs.Lemmas.ArealNative
import UVerifProofs.Lemmas.ArealOrder

set_option linter.unusedSimpArgs false
set_option linter.unusedVariables false
set_option linter.unnecessarySeqFocus false

namespace UVerif.ArealLemmas
open UVerif UVerif.Areal UVerif.IeeeLemmas
open UVerif.IeeeBits (Fmt f64 f32)

theorem pow2_lt_of_lt {a b : Int} (h : a < b) : pow2 a < pow2 b := by
  obtain ⟨k, hk⟩ : ∃ k : Nat, b = a + 1 + k := ⟨(b - a - 1).toNat, by omega⟩
  have h1 : pow2 (a + 1) ≤ pow2 b := pow2_mono (by omega)
  have h2 := pow2_succ a
  have := pow2_pos a
  linarith

/-- if 2^a ≤ V < 2^b then a < b -/
theorem exp_lt_of_bounds {a b : Int} {V : Rat} (h1 : pow2 a ≤ V) (h2 : V < pow2 b) : a < b := by
  by_contra h
  have := pow2_mono (show b ≤ a by omega)
  linarith

/-- binade uniqueness -/
theorem binade_unique {a b : Int} {V : Rat} (h1 : pow2 a ≤ V) (h2 : V < pow2 (a + 1)) (h3 : pow2 b ≤ V)
    (h4 : V < pow2 (b + 1)) : a = b := by
  have := exp_lt_of_bounds h1 h4
  have := exp_lt_of_bounds h3 h2
  omega

theorem pow2_shift (a : Int) (k : Nat) (b : Int) (h : b = a + k) : pow2 b = pow2 a * ((2 ^ k : Nat) : Rat) := by
  subst h; exact pow2_add_nat a k

theorem f64_fields (d : Nat) :
    (d >>> 52) % 2048 = IeeeBits.expOf f64 d ∧ d % 2 ^ 52 = IeeeBits.fracOf f64 d ∧ d.testBit 63 = IeeeBits.signOf f64 d :=
  ⟨rfl, rfl, rfl⟩

end UVerif.ArealLemmas
