/-
  UVerifProofs.Lemmas.ArealVal — the value lattice of areal<nbits,es>: fields of an assembled encoding, value of an exact
  encoding as (lattice index) · 2^(ulp exponent), "the next exact encoding is one ulp further from zero", and the
  enclosure criterion `encloses_lattice` that property C18 is proved through.
-/
import UVerif.Spec.Areal
import UVerif.Model.Areal
import Mathlib.Tactic.Linarith
import Mathlib.Tactic.Ring
import Mathlib.Tactic.Positivity
import Mathlib.Tactic.FieldSimp
import Mathlib.Tactic.SplitIfs
import Mathlib.Tactic.NormNum
import Mathlib.Algebra.Order.Field.Rat
import Mathlib.Algebra.Order.Field.Power

set_option linter.unusedSimpArgs false
set_option linter.unusedVariables false

namespace UVerif.ArealLemmas
open UVerif UVerif.Areal

/-! ### powers of two as rationals -/

theorem pow2_eq_zpow (e : Int) : pow2 e = (2 : Rat) ^ e := by
  unfold pow2
  split
  · rename_i h
    obtain ⟨k, rfl⟩ := Int.eq_ofNat_of_zero_le h
    simp
  · rename_i h
    have h' : e < 0 := by omega
    obtain ⟨k, hk⟩ := Int.eq_negSucc_of_lt_zero h'
    subst hk
    simp [zpow_negSucc]

theorem pow2_pos (e : Int) : 0 < pow2 e := by rw [pow2_eq_zpow]; positivity

theorem pow2_add (a b : Int) : pow2 (a + b) = pow2 a * pow2 b := by
  rw [pow2_eq_zpow, pow2_eq_zpow, pow2_eq_zpow, zpow_add₀ (by norm_num)]

theorem pow2_natCast (k : Nat) : pow2 (k : Int) = ((2 ^ k : Nat) : Rat) := by
  rw [pow2_eq_zpow]; simp

theorem pow2_add_nat (a : Int) (k : Nat) : pow2 (a + k) = pow2 a * ((2 ^ k : Nat) : Rat) := by
  rw [pow2_add, pow2_natCast]

theorem pow2_succ (a : Int) : pow2 (a + 1) = 2 * pow2 a := by
  have := pow2_add_nat a 1
  simp at this; rw [this]; ring

theorem dyadic_def (m : Int) (e : Int) : dyadic m e = (m : Rat) * pow2 e := rfl

/-! ### fields of an assembled encoding -/

/-- fields of `e·2^(F+1) + 2f + u` -/
theorem fields_of (c : Cfg) {e f u : Nat} (he : e < 2 ^ c.es) (hf : f < 2 ^ c.fbits) (hu : u < 2) :
    expOf c (e * 2 ^ (c.fbits + 1) + 2 * f + u) = e ∧ fracOf c (e * 2 ^ (c.fbits + 1) + 2 * f + u) = f := by
  unfold expOf fracOf
  have hF : 2 ^ (c.fbits + 1) = 2 * 2 ^ c.fbits := by rw [Nat.pow_succ]; ring
  constructor
  · rw [Nat.shiftRight_eq_div_pow, Nat.add_comm 1 c.fbits]
    have : (e * 2 ^ (c.fbits + 1) + 2 * f + u) / 2 ^ (c.fbits + 1) = e := by
      rw [Nat.add_assoc, Nat.add_comm, Nat.add_mul_div_right _ _ (Nat.two_pow_pos _),
        Nat.div_eq_of_lt (by omega), Nat.zero_add]
    rw [this, Nat.mod_eq_of_lt he]
  · rw [Nat.shiftRight_eq_div_pow, Nat.pow_one]
    have : (e * 2 ^ (c.fbits + 1) + 2 * f + u) / 2 = e * 2 ^ c.fbits + f := by
      have h1 : e * 2 ^ (c.fbits + 1) = 2 * (e * 2 ^ c.fbits) := by rw [hF]; ring
      rw [h1]; generalize e * 2 ^ c.fbits = m; omega
    rw [this, Nat.add_comm, Nat.add_mul_mod_self_right, Nat.mod_eq_of_lt hf]

/-- lattice index and ulp exponent of the binade of an exact encoding with fields (e, f) -/
def latT (c : Cfg) (e f : Nat) : Nat := if e = 0 then f else f + 2 ^ c.fbits
def latE (c : Cfg) (e : Nat) : Int := ((max e 1 : Nat) : Int) - c.bias - (c.fbits : Int)

/-- value of the exact encoding with fields (e, f): lattice index times the ulp of its binade -/
theorem magVal_fields (c : Cfg) {e f : Nat} (he : e < 2 ^ c.es) (hf : f < 2 ^ c.fbits) :
    magVal c (e * 2 ^ (c.fbits + 1) + 2 * f) = (latT c e f : Rat) * pow2 (latE c e) := by
  obtain ⟨h1, h2⟩ := fields_of c he hf (show 0 < 2 by omega)
  simp only [Nat.add_zero] at h1 h2
  unfold magVal latT latE
  simp only [h1, h2]
  by_cases h0 : e = 0
  · subst h0; simp [dyadic_def]
  · have : max e 1 = e := by omega
    simp [h0, this, dyadic_def]

/-- the next exact encoding (L + 2) is one ulp of L's binade further from zero -/
theorem magVal_next (c : Cfg) (hes : 1 ≤ c.es) {e f : Nat} (he : e < 2 ^ c.es) (hf : f < 2 ^ c.fbits)
    (hlast : ¬ (e = 2 ^ c.es - 1 ∧ f = 2 ^ c.fbits - 1)) :
    magVal c (e * 2 ^ (c.fbits + 1) + 2 * f + 2) =
      magVal c (e * 2 ^ (c.fbits + 1) + 2 * f) + pow2 (latE c e) := by
  rw [magVal_fields c he hf]
  have hFp : 0 < 2 ^ c.fbits := Nat.two_pow_pos _
  by_cases hc : f + 1 < 2 ^ c.fbits
  · -- no carry
    have : e * 2 ^ (c.fbits + 1) + 2 * f + 2 = e * 2 ^ (c.fbits + 1) + 2 * (f + 1) := by ring
    rw [this, magVal_fields c he hc]
    unfold latT
    split_ifs <;> push_cast <;> ring
  · -- carry into the exponent field
    have hf1 : f + 1 = 2 ^ c.fbits := by omega
    have he1 : e + 1 < 2 ^ c.es := by
      by_contra h
      exact hlast ⟨by omega, by omega⟩
    have : e * 2 ^ (c.fbits + 1) + 2 * f + 2 = (e + 1) * 2 ^ (c.fbits + 1) + 2 * 0 := by
      have : 2 ^ (c.fbits + 1) = 2 * 2 ^ c.fbits := by rw [Nat.pow_succ]; ring
      rw [this, ← hf1]; ring
    rw [this, magVal_fields c he1 hFp]
    unfold latT latE
    have hf' : (f : Rat) = (2 : Rat) ^ c.fbits - 1 := by
      have : ((f + 1 : Nat) : Rat) = ((2 ^ c.fbits : Nat) : Rat) := by rw [hf1]
      push_cast at this; linarith
    by_cases h0 : e = 0
    · subst h0
      simp only [if_true, Nat.zero_add, show ¬ (1 = 0) by omega, if_false, Nat.max_self, Nat.zero_max]
      push_cast; rw [hf']; ring
    · have m1 : max e 1 = e := by omega
      have m2 : max (e + 1) 1 = e + 1 := by omega
      simp only [h0, if_false, show ¬ (e + 1 = 0) by omega, m1, m2]
      have : ((e + 1 : Nat) : Int) - c.bias - (c.fbits : Int) = ((e : Int) - c.bias - (c.fbits : Int)) + 1 := by
        push_cast; ring
      rw [this, pow2_succ]; push_cast; rw [hf']; ring

/-- size facts: nbits-1 = es + fbits + 1 -/
theorem size_facts (c : Cfg) (hes : 1 ≤ c.es) (hn : c.es + 3 ≤ c.nbits) :
    1 ≤ c.fbits ∧ c.nbits - 1 = c.es + (c.fbits + 1) ∧ 2 ^ (c.nbits - 1) = 2 ^ c.es * 2 ^ (c.fbits + 1) ∧
    2 ^ (c.fbits + 1) = 2 * 2 ^ c.fbits ∧ 2 ^ c.nbits = 2 * 2 ^ (c.nbits - 1) := by
  have h1 : c.fbits = c.nbits - 2 - c.es := rfl
  have h2 : c.nbits - 1 = c.es + (c.fbits + 1) := by omega
  refine ⟨by omega, h2, by rw [h2, Nat.pow_add], by rw [Nat.pow_succ]; ring, ?_⟩
  rw [show c.nbits = (c.nbits - 1) + 1 by omega, Nat.pow_succ]; simp; ring

/-- magnitude `e·2^(F+1) + 2f` fits below the inf pattern; it is maxpos exactly for (2^es-1, 2^F-2) -/
theorem mag_bounds (c : Cfg) (hes : 1 ≤ c.es) (hn : c.es + 3 ≤ c.nbits) {e f : Nat} (he : e < 2 ^ c.es)
    (hf : f < 2 ^ c.fbits) (hlast : ¬ (e = 2 ^ c.es - 1 ∧ f = 2 ^ c.fbits - 1)) :
    e * 2 ^ (c.fbits + 1) + 2 * f ≤ maxposMag c ∧
    (e * 2 ^ (c.fbits + 1) + 2 * f = maxposMag c ↔ (e = 2 ^ c.es - 1 ∧ f = 2 ^ c.fbits - 2)) ∧
    4 ≤ 2 ^ (c.nbits - 1) := by
  obtain ⟨hF1, _, hN, hM, _⟩ := size_facts c hes hn
  unfold maxposMag
  have hQ : 2 ≤ 2 ^ c.fbits := by
    calc 2 = 2 ^ 1 := rfl
      _ ≤ 2 ^ c.fbits := Nat.pow_le_pow_right (by omega) hF1
  have hE : 2 ≤ 2 ^ c.es := by
    calc 2 = 2 ^ 1 := rfl
      _ ≤ 2 ^ c.es := Nat.pow_le_pow_right (by omega) hes
  rw [hN, hM]
  generalize 2 ^ c.fbits = Q at *
  generalize 2 ^ c.es = E at *
  -- e ≤ E - 1, products with 2Q
  have h1 : e * (2 * Q) + (E - 1 - e) * (2 * Q) = (E - 1) * (2 * Q) := by
    rw [← Nat.add_mul]; congr 1; omega
  have h2 : (E - 1) * (2 * Q) + 2 * Q = E * (2 * Q) := by
    have : E = (E - 1) + 1 := by omega
    nth_rewrite 2 [this]; ring
  have h3 : 4 ≤ E * (2 * Q) := by
    calc 4 = 2 * (2 * 1) := rfl
      _ ≤ E * (2 * Q) := Nat.mul_le_mul hE (Nat.mul_le_mul_left 2 (by omega))
  by_cases hee : e = E - 1
  · subst hee
    have hf2 : f ≤ Q - 2 := by
      by_contra h; exact hlast ⟨rfl, by omega⟩
    refine ⟨by omega, ?_, h3⟩
    constructor
    · intro h; exact ⟨rfl, by omega⟩
    · rintro ⟨_, h⟩; omega
  · have : 1 ≤ E - 1 - e := by omega
    have h4 : 2 * Q ≤ (E - 1 - e) * (2 * Q) := Nat.le_mul_of_pos_left _ (by omega)
    refine ⟨by omega, ?_, h3⟩
    constructor
    · intro h; omega
    · rintro ⟨h, _⟩; omega

/-- Enclosure from lattice data: an encoding `sign | e | f | u` encloses x when x = value (u clear) or x lies
    strictly between the value and the next lattice point (u set; above maxpos there is no upper bound). -/
theorem encloses_lattice (c : Cfg) (hes : 1 ≤ c.es) (hn : c.es + 3 ≤ c.nbits) (neg u : Bool) {e f : Nat}
    (he : e < 2 ^ c.es) (hf : f < 2 ^ c.fbits) (hlast : ¬ (e = 2 ^ c.es - 1 ∧ f = 2 ^ c.fbits - 1)) (x : Rat)
    (h0 : u = false → x = magVal c (e * 2 ^ (c.fbits + 1) + 2 * f))
    (h1 : u = true → magVal c (e * 2 ^ (c.fbits + 1) + 2 * f) < x ∧
      (¬ (e = 2 ^ c.es - 1 ∧ f = 2 ^ c.fbits - 2) → x < magVal c (e * 2 ^ (c.fbits + 1) + 2 * f) + pow2 (latE c e))) :
    encloses c (.fin neg x)
      ((if neg then 2 ^ (c.nbits - 1) else 0) + (e * 2 ^ (c.fbits + 1) + 2 * f) + (if u then 1 else 0)) = true := by
  obtain ⟨hF1, hN1, hN, hM, hNN⟩ := size_facts c hes hn
  obtain ⟨hL, hLmax, h4⟩ := mag_bounds c hes hn he hf hlast
  generalize hLd : e * 2 ^ (c.fbits + 1) + 2 * f = L at *
  have hLeven : L % 2 = 0 := by
    rw [← hLd, hM]
    have : e * (2 * 2 ^ c.fbits) = 2 * (e * 2 ^ c.fbits) := by ring
    rw [this]; omega
  unfold maxposMag at hL
  set b := (if neg then 2 ^ (c.nbits - 1) else 0) + L + (if u then 1 else 0) with hb
  have hu2 : (if u then 1 else 0 : Nat) < 2 := by cases u <;> simp
  have hblt : b < 2 ^ c.nbits := by rw [hb, hNN]; cases neg <;> simp <;> omega
  have hmag : magOf c b = L + (if u then 1 else 0) := by
    unfold magOf; rw [hb]
    cases neg
    · simp only [Bool.false_eq_true, if_false, Nat.zero_add]; exact Nat.mod_eq_of_lt (by omega)
    · simp only [if_true]
      rw [Nat.add_assoc, Nat.add_mod_left]; exact Nat.mod_eq_of_lt (by omega)
  have hsign : signOf c b = neg := by
    unfold signOf
    have hb' : b < 2 ^ (c.nbits - 1 + 1) := by rwa [show c.nbits - 1 + 1 = c.nbits by omega]
    have : b.testBit (c.nbits - 1) = decide (2 ^ (c.nbits - 1) ≤ b) := by
      by_cases hx : 2 ^ (c.nbits - 1) ≤ b
      · obtain ⟨y, hy⟩ : ∃ y, b = 2 ^ (c.nbits - 1) + y := ⟨b - 2 ^ (c.nbits - 1), by omega⟩
        have hy' : y < 2 ^ (c.nbits - 1) := by omega
        rw [hy, Nat.testBit_two_pow_add_eq, Nat.testBit_lt_two_pow hy']; simp
      · have : b < 2 ^ (c.nbits - 1) := by omega
        rw [Nat.testBit_lt_two_pow this]; simp [hx]
    rw [this, hb]; cases neg <;> simp <;> omega
  have hLL : (L + (if u then 1 else 0)) - (L + (if u then 1 else 0)) % 2 = L := by
    cases u <;> simp <;> omega
  have hub : ubitOf (L + (if u then 1 else 0)) = u := by
    unfold ubitOf
    rw [Nat.testBit_zero]
    cases u <;> simp <;> omega
  unfold encloses
  simp only [hblt, decide_true, Bool.true_and, hmag, hsign, beq_self_eq_true, hLL, hub]
  have hmp : (L ≤ maxposMag c) := by unfold maxposMag; exact hL
  simp only [hmp, decide_true, Bool.true_and]
  cases u
  · simp only [Bool.not_false, if_true]
    rw [h0 rfl]; simp
  · obtain ⟨g1, g2⟩ := h1 rfl
    simp only [Bool.not_true, Bool.false_eq_true, if_false, Bool.and_eq_true, decide_eq_true_eq, Bool.or_eq_true,
      beq_iff_eq]
    refine ⟨g1, ?_⟩
    by_cases hm : L = maxposMag c
    · exact Or.inl hm
    · right
      have hnm : ¬ (e = 2 ^ c.es - 1 ∧ f = 2 ^ c.fbits - 2) := fun h => hm (hLmax.mpr h)
      have := magVal_next c hes he hf hlast
      rw [hLd] at this
      rw [this]; exact g2 hnm

end UVerif.ArealLemmas
