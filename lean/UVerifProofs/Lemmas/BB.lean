/-
  Lemmas about the blockbinary<nbits,bt> limb model (UVerif.Model.Limbs, namespace BB): value and canonical form of the
  operators fixpnt is built on, for every limb width `w` and size `n`.
-/
import UVerifProofs.Lemmas.Integer
import UVerif.Model.Fixpnt
import UVerif.Spec.Fixpnt
import Mathlib.Algebra.Order.Ring.Abs
import UVerifProofs.Lemmas.Rne

namespace UVerif.Limbs.BB
open UVerif UVerif.Limbs

variable {w n : Nat}

/-- blockbinary's `+=` is integer's `+=` outside integer's `uint64_t` multi-block branch (which blockbinary's static_assert
    `bitsInBlock < 64 || uniblock64` excludes: that is what the hypothesis `w ≠ 64 ∨ nrBlocks w n = 1` of this file stands for) -/
theorem add_eq_integer (h64 : w ≠ 64 ∨ nrBlocks w n = 1) (a b : List Nat) : BB.add w n a b = Integer.add w n a b := by
  unfold BB.add Integer.add
  by_cases hk : nrBlocks w n = 1
  · rw [if_pos hk, if_pos hk]
  · rw [if_neg hk, if_neg hk]
    have : (w == 64) = false := by
      rcases h64 with h | h
      · simpa using h
      · exact absurd h hk
    rw [this]

theorem add_spec (hw : 0 < w) (hn : 0 < n) (h64 : w ≠ 64 ∨ nrBlocks w n = 1) {a b : List Nat}
    (ha : Shape w n a) (hb : Shape w n b) :
    Canon w n (BB.add w n a b) ∧ toNat w (BB.add w n a b) = (toNat w a + toNat w b) % 2 ^ n := by
  rw [add_eq_integer h64]; exact Integer.add_spec hw hn ha hb

theorem flip_spec (hw : 0 < w) (hn : 0 < n) {a : List Nat} (ha : Shape w n a) :
    Canon w n (BB.flip w n a) ∧ toNat w (BB.flip w n a) = 2 ^ n - 1 - toNat w a % 2 ^ n :=
  Integer.flip_spec hw hn ha

theorem ofSigned_mod {n m : Nat} (h : n ≤ m) (x : Int) : ofSigned m x % 2 ^ n = ofSigned n x := by
  apply eq_ofSigned_of_modEq (Nat.mod_lt _ (Nat.two_pow_pos n))
  exact (modEq_natMod _ _).trans (modEq_of_le h (modEq_ofSigned m x))

/-- `operator=(long long)` / `blockbinary(long long)` -/
theorem ofInt64_spec (hw : 0 < w) (hn : 0 < n) (v : Int) :
    Canon w n (ofInt64 w n v) ∧ toNat w (ofInt64 w n v) = ofSigned n v := by
  have hsh := shape_ofNat w n (ofSigned (nrBlocks w n * w) v)
  refine ⟨canon_of_mask hw hn hsh, ?_⟩
  unfold ofInt64
  have hle : n ≤ nrBlocks w n * w := by rw [Nat.mul_comm]; exact nrBlocks_hi hw hn
  rw [toNat_maskMSU hw hn hsh.2 hsh.1, toNat_ofNat, Nat.mul_comm w, Nat.mod_eq_of_lt (ofSigned_lt _ _), ofSigned_mod hle]

theorem setbits_one_spec (hw : 0 < w) (hn : 0 < n) :
    Canon w n (setbits w n 1) ∧ toNat w (setbits w n 1) = 1 := by
  have hsh := shape_ofNat w n (1 % 2 ^ 64)
  refine ⟨canon_of_mask hw hn hsh, ?_⟩
  unfold setbits
  have h1 : (1 : Nat) % 2 ^ 64 = 1 := by decide
  have hlt : 1 < 2 ^ (w * nrBlocks w n) := Nat.one_lt_two_pow (by have := nrBlocks_hi hw hn; omega)
  rw [toNat_maskMSU hw hn hsh.2 hsh.1, toNat_ofNat, h1, Nat.mod_eq_of_lt hlt, Nat.mod_eq_of_lt (Nat.one_lt_two_pow (by omega))]

theorem twosC_spec (hw : 0 < w) (hn : 0 < n) (h64 : w ≠ 64 ∨ nrBlocks w n = 1) {a : List Nat} (ha : Shape w n a) :
    Canon w n (twosC w n a) ∧ toNat w (twosC w n a) = (2 ^ n - toNat w a % 2 ^ n) % 2 ^ n := by
  obtain ⟨hf, hfv⟩ := flip_spec hw hn ha
  obtain ⟨h1, h1v⟩ := ofInt64_spec (w := w) hw hn 1
  obtain ⟨hc, hv⟩ := add_spec hw hn h64 hf.shape h1.shape
  refine ⟨hc, ?_⟩
  unfold twosC
  rw [hv, hfv, h1v, Integer.ofSigned_one hn]
  have := Nat.mod_lt (toNat w a) (Nat.two_pow_pos n)
  congr 1; omega

theorem sub_spec (hw : 0 < w) (hn : 0 < n) (h64 : w ≠ 64 ∨ nrBlocks w n = 1) {a b : List Nat}
    (ha : Shape w n a) (hb : Shape w n b) :
    Canon w n (sub w n a b) ∧ toNat w (sub w n a b) = (toNat w a + (2 ^ n - toNat w b % 2 ^ n)) % 2 ^ n := by
  obtain ⟨ht, htv⟩ := twosC_spec hw hn h64 hb
  obtain ⟨hc, hv⟩ := add_spec hw hn h64 ha ht.shape
  refine ⟨hc, ?_⟩
  unfold sub
  rw [hv, htv, Nat.add_mod_mod]

theorem inc_spec (hw : 0 < w) (hn : 0 < n) (h64 : w ≠ 64 ∨ nrBlocks w n = 1) {a : List Nat} (ha : Shape w n a) :
    Canon w n (inc w n a) ∧ toNat w (inc w n a) = (toNat w a + 1) % 2 ^ n := by
  obtain ⟨h1, h1v⟩ := setbits_one_spec (w := w) hw hn
  obtain ⟨hc, hv⟩ := add_spec hw hn h64 ha h1.shape
  exact ⟨hc, by unfold inc; rw [hv, h1v]⟩

theorem dec_spec (hw : 0 < w) (hn : 0 < n) (h64 : w ≠ 64 ∨ nrBlocks w n = 1) {a : List Nat} (ha : Shape w n a) :
    Canon w n (dec w n a) ∧ toNat w (dec w n a) = (toNat w a + (2 ^ n - 1)) % 2 ^ n := by
  obtain ⟨h1, h1v⟩ := setbits_one_spec (w := w) hw hn
  obtain ⟨hc, hv⟩ := sub_spec hw hn h64 ha h1.shape
  exact ⟨hc, by unfold dec; rw [hv, h1v, Nat.mod_eq_of_lt (Nat.one_lt_two_pow (by omega))]⟩

theorem sign_eq (hw : 0 < w) (hn : 0 < n) {a : List Nat} (ha : Wf w a) : sign w n a = (toNat w a).testBit (n - 1) := by
  unfold sign
  rw [testBit_toNat hw ha]
  have : nrBlocks w n - 1 = (n - 1) / w := by unfold nrBlocks; exact Nat.add_sub_cancel_left 1 _
  rw [this]

theorem sign_eq_integer (hw : 0 < w) (hn : 0 < n) {a : List Nat} (ha : Wf w a) : sign w n a = Integer.sign w n a := by
  rw [sign_eq hw hn ha, Integer.sign_eq hw hn ha]

theorem sign_canon (hw : 0 < w) (hn : 0 < n) {a : List Nat} (ha : Canon w n a) : sign w n a = decide (2 ^ (n - 1) ≤ toNat w a) := by
  rw [sign_eq hw hn ha.2.1, testBit_top hn ha.2.2]

theorem sign_neg (hw : 0 < w) (hn : 0 < n) {a : List Nat} (ha : Canon w n a) : sign w n a = decide (toSigned n (toNat w a) < 0) := by
  rw [sign_canon hw hn ha, toSigned_of_lt hn ha.2.2]
  have hA := ha.2.2
  have hp : 2 ^ n = 2 ^ (n - 1) * 2 := by rw [← Nat.pow_succ]; congr 1; omega
  by_cases h : toNat w a < 2 ^ (n - 1)
  · rw [if_pos h]
    have h2 : ¬ 2 ^ (n - 1) ≤ toNat w a := by omega
    have h3 : ¬ ((toNat w a : Nat) : Int) < 0 := by omega
    rw [decide_eq_false h2, decide_eq_false h3]
  · rw [if_neg h]
    have h1 : ((toNat w a : Nat) : Int) < ((2 ^ n : Nat) : Int) := by exact_mod_cast hA
    have h2 : 2 ^ (n - 1) ≤ toNat w a := by omega
    have h3 : ((toNat w a : Nat) : Int) - ((2 ^ n : Nat) : Int) < 0 := by omega
    rw [decide_eq_true h2, decide_eq_true h3]

/-- `blockbinary<n>(const blockbinary<src>&)`: sign extension when widening, truncation when narrowing -/
theorem assign_spec {src : Nat} (hw : 0 < w) (hn : 0 < n) (hs : 0 < src) {a : List Nat} (ha : Canon w src a) :
    Canon w n (assign w n src a) ∧ toNat w (assign w n src a) = ofSigned n (toSigned src (toNat w a)) := by
  unfold assign
  simp only
  set k := nrBlocks w n with hk
  set m := min k (nrBlocks w src) with hm
  have hl0 : (a.take m ++ zeros (k - m)).length = k := by
    rw [List.length_append, List.length_take, zeros_length, ha.1]
    have : m ≤ nrBlocks w src := Nat.min_le_right _ _
    have : m ≤ k := Nat.min_le_left _ _
    omega
  have hw0 : Wf w (a.take m ++ zeros (k - m)) := Wf.append (Wf.take (w := w) ha.2.1 m) (zeros_wf w _)
  have hv0 : toNat w (a.take m ++ zeros (k - m)) = toNat w a % 2 ^ (w * m) := by
    rw [toNat_append_zeros, toNat_take ha.2.1]
  have hsh0 : Shape w n (a.take m ++ zeros (k - m)) := ⟨hl0, hw0⟩
  by_cases hlt : src < n
  · have hkm : m = nrBlocks w src := by
      rw [hm]; exact Nat.min_eq_right (nrBlocks_mono (le_of_lt hlt))
    have hA : toNat w a < 2 ^ n := Nat.lt_of_lt_of_le ha.2.2 (Nat.pow_le_pow_right (by omega) (le_of_lt hlt))
    have hAm : toNat w a < 2 ^ (w * m) := by
      rw [hkm]; exact Nat.lt_of_lt_of_le ha.2.2 (Nat.pow_le_pow_right (by omega) (nrBlocks_hi hw hs))
    rw [Nat.mod_eq_of_lt hAm] at hv0
    have key : ∀ (l : List Nat), Shape w n l →
        (∀ j, (toNat w l).testBit j = if j < src then (toNat w a).testBit j else (decide (j < n) && (toNat w a).testBit (src - 1))) →
        Canon w n (maskMSU w n l) ∧ toNat w (maskMSU w n l) = ofSigned n (toSigned src (toNat w a)) := by
      intro l hl hb
      have : toNat w (maskMSU w n l) = ofSigned n (toSigned src (toNat w a)) := by
        apply Nat.eq_of_testBit_eq
        intro j
        rw [testBit_maskMSU hw hn hl, hb j, testBit_signext hs (le_of_lt hlt) ha.2.2]
        by_cases hj : j < src
        · simp [hj]; omega
        · simp [hj]
      exact ⟨canon_of_mask hw hn hl, this⟩
    have hAhi : ∀ j, src ≤ j → (toNat w a).testBit j = false := fun j hj =>
      Nat.testBit_lt_two_pow (Nat.lt_of_lt_of_le ha.2.2 (Nat.pow_le_pow_right (by omega) hj))
    by_cases hsg : sign w src a = true
    · have hcond : (decide (n > src) && sign w src a) = true := by simp [hlt, hsg]
      rw [if_pos hcond]
      obtain ⟨p1, p2, p3⟩ := setRange_props hw hw0 src n true (le_of_lt hlt) (by rw [hl0]; exact nrBlocks_hi hw hn)
      apply key _ ⟨by rw [p1, hl0], p2⟩
      intro j
      rw [p3 j, hv0]
      rw [sign_eq hw hs ha.2.1] at hsg
      by_cases hj : j < src
      · rw [if_neg (by omega), if_pos hj]
      · by_cases hj2 : j < n
        · rw [if_pos (by omega), if_neg hj, hsg]; simp [hj2]
        · rw [if_neg (by omega), if_neg hj, hAhi j (by omega)]; simp [hj2]
    · have hcond : ¬ ((decide (n > src) && sign w src a) = true) := by simp [hsg]
      rw [if_neg hcond]
      apply key _ hsh0
      intro j
      rw [hv0]
      rw [sign_eq hw hs ha.2.1] at hsg
      by_cases hj : j < src
      · rw [if_pos hj]
      · rw [if_neg hj, hAhi j (by omega)]
        have : (toNat w a).testBit (src - 1) = false := by simpa using hsg
        rw [this, Bool.and_false]
  · have hcond : ¬ ((decide (n > src) && sign w src a) = true) := by simp [hlt]
    rw [if_neg hcond]
    refine ⟨canon_of_mask hw hn hsh0, ?_⟩
    have hkm : m = k := by
      rw [hm]; exact Nat.min_eq_left (nrBlocks_mono (by omega))
    rw [toNat_maskMSU hw hn hw0 hl0, hv0, hkm, Nat.mod_mod_of_dvd _ (pow_dvd_storage hw hn), ofSigned_toSigned_narrow (by omega)]

theorem zeros_shape : Shape w n (zeros (nrBlocks w n)) := ⟨zeros_length _, zeros_wf w _⟩

/-- `maxneg`: only the sign bit -/
theorem maxneg_spec (hw : 0 < w) (hn : 0 < n) : Canon w n (maxneg w n) ∧ toNat w (maxneg w n) = 2 ^ (n - 1) := by
  have hz := zeros_shape (w := w) (n := n)
  have hi : (n - 1) / w < (zeros (nrBlocks w n)).length := by
    rw [hz.1]; unfold nrBlocks; exact Nat.lt_add_of_pos_left Nat.one_pos
  have hv : toNat w (maxneg w n) = 2 ^ (n - 1) := by
    apply Nat.eq_of_testBit_eq
    intro j
    unfold maxneg
    rw [testBit_setbit hw hz.2 _ _ hi, toNat_zeros, Nat.testBit_two_pow]
    by_cases h : j = n - 1
    · simp [h]
    · have : ¬ n - 1 = j := fun e => h e.symm
      simp [h, this]
  refine ⟨⟨?_, ?_, ?_⟩, hv⟩
  · unfold maxneg; rw [setbit_length, hz.1]
  · unfold maxneg; exact setbit_wf hw hz.2 _ _
  · rw [hv]; exact Nat.pow_lt_pow_right (by omega) (by omega)

/-- `maxpos`: all ones below the sign bit -/
theorem maxpos_spec (hw : 0 < w) (hn : 0 < n) : Canon w n (maxpos w n) ∧ toNat w (maxpos w n) = 2 ^ (n - 1) - 1 := by
  have hz := zeros_shape (w := w) (n := n)
  obtain ⟨hf, hfv⟩ := flip_spec hw hn hz
  rw [toNat_zeros, Nat.zero_mod, Nat.sub_zero] at hfv
  have hi : (n - 1) / w < (flip w n (zeros (nrBlocks w n))).length := by
    have := hf.1
    rw [this]; unfold nrBlocks; exact Nat.lt_add_of_pos_left Nat.one_pos
  have hv : toNat w (maxpos w n) = 2 ^ (n - 1) - 1 := by
    apply Nat.eq_of_testBit_eq
    intro j
    unfold maxpos
    rw [testBit_setbit hw hf.2.1 _ _ hi, hfv, Nat.testBit_two_pow_sub_one, Nat.testBit_two_pow_sub_one]
    by_cases h : j = n - 1
    · simp [h]
    · simp [h]; omega
  have hlt : 2 ^ (n - 1) < 2 ^ n := Nat.pow_lt_pow_right (by omega) (by omega)
  refine ⟨⟨?_, ?_, ?_⟩, hv⟩
  · unfold maxpos; rw [setbit_length, hf.1]
  · unfold maxpos; exact setbit_wf hw hf.2.1 _ _
  · rw [hv]; have := Nat.two_pow_pos (n - 1); omega

/-- `operator<` of blockbinary is the order of the signed values -/
theorem lt_spec (hw : 0 < w) (hn : 0 < n) (h64 : w ≠ 64 ∨ nrBlocks w n = 1) {a b : List Nat}
    (ha : Canon w n a) (hb : Canon w n b) :
    lt w n a b = decide (toSigned n (toNat w a) < toSigned n (toNat w b)) := by
  obtain ⟨hd, hdv⟩ := sub_spec hw hn h64 ha.shape hb.shape
  obtain ⟨hmn, hmnv⟩ := maxneg_spec (w := w) hw hn
  have hsa := sign_canon hw hn ha
  have hsb := sign_canon hw hn hb
  have hsd := sign_canon hw hn hd
  rw [hdv, Nat.mod_eq_of_lt hb.2.2] at hsd
  have heq : (a == b) = decide (toNat w a = toNat w b) := by
    by_cases h : a = b
    · simp [h]
    · have : toNat w a ≠ toNat w b := fun e => h (toNat_inj ha.2.1 hb.2.1 (by rw [ha.1, hb.1]) e)
      simp [h, this]
  have hmx : (b == maxneg w n) = decide (toNat w b = 2 ^ (n - 1)) := by
    by_cases h : b = maxneg w n
    · simp [h, hmnv]
    · have : toNat w b ≠ 2 ^ (n - 1) := fun e => h (toNat_inj hb.2.1 hmn.2.1 (by rw [hb.1, hmn.1]) (by rw [e, hmnv]))
      simp [h, this]
  unfold lt
  rw [hsa, hsb, hsd, heq, hmx, toSigned_of_lt hn ha.2.2, toSigned_of_lt hn hb.2.2]
  have hA := ha.2.2
  have hB := hb.2.2
  have hp : 2 ^ n = 2 ^ (n - 1) * 2 := by rw [← Nat.pow_succ]; congr 1; omega
  have hpos := Nat.two_pow_pos (n - 1)
  generalize toNat w a = A at *
  generalize toNat w b = B at *
  have hcast : ((2 ^ n : Nat) : Int) = 2 * ((2 ^ (n - 1) : Nat) : Int) := by rw [hp]; push_cast; ring
  rw [hcast]
  rw [hp] at hA hB ⊢
  generalize 2 ^ (n - 1) = P at *
  have hmod : (A + (P * 2 - B)) % (P * 2) = if B ≤ A then A - B else A + (P * 2 - B) := by
    split
    · rename_i h
      rw [show A + (P * 2 - B) = (A - B) + P * 2 by omega, Nat.add_mod_right, Nat.mod_eq_of_lt (by omega)]
    · rw [Nat.mod_eq_of_lt (by omega)]
  rw [hmod]
  by_cases h1 : P ≤ A <;> by_cases h2 : P ≤ B <;> by_cases h3 : B ≤ A <;> by_cases h4 : A = B <;> by_cases h5 : B = P <;>
    simp only [h1, h2, h3, h4, h5, decide_true, decide_false, Bool.not_true, Bool.not_false, Bool.and_true, Bool.and_false,
      Bool.true_and, Bool.false_and, if_true, if_false, Bool.false_eq_true] <;>
    (first | omega | (split <;> (simp only [decide_eq_true_eq, decide_eq_decide, decide_eq_false_iff_not] <;> omega)) | (simp only [decide_eq_true_eq, decide_eq_decide, decide_eq_false_iff_not] <;> omega) | (simp <;> omega))

theorem le_spec (hw : 0 < w) (hn : 0 < n) (h64 : w ≠ 64 ∨ nrBlocks w n = 1) {a b : List Nat}
    (ha : Canon w n a) (hb : Canon w n b) : le w n a b = decide (toInt w n a ≤ toInt w n b) := by
  unfold le toInt
  rw [lt_spec hw hn h64 ha hb]
  have heq : (a == b) = decide (toSigned n (toNat w a) = toSigned n (toNat w b)) := Integer.eq_spec ha hb
  rw [heq]
  generalize toSigned n (toNat w a) = x
  generalize toSigned n (toNat w b) = y
  by_cases h1 : x < y <;> by_cases h2 : x = y <;> simp [h1, h2] <;> omega

theorem ge_spec (hw : 0 < w) (hn : 0 < n) (h64 : w ≠ 64 ∨ nrBlocks w n = 1) {a b : List Nat}
    (ha : Canon w n a) (hb : Canon w n b) : ge w n a b = decide (toInt w n b ≤ toInt w n a) := by
  unfold ge toInt
  rw [lt_spec hw hn h64 ha hb]
  generalize toSigned n (toNat w a) = x
  generalize toSigned n (toNat w b) = y
  by_cases h1 : x < y <;> simp [h1] <;> omega

theorem lt_spec' (hw : 0 < w) (hn : 0 < n) (h64 : w ≠ 64 ∨ nrBlocks w n = 1) {a b : List Nat}
    (ha : Canon w n a) (hb : Canon w n b) : lt w n a b = decide (toInt w n a < toInt w n b) := lt_spec hw hn h64 ha hb

/-- the signed value survives `assign` whenever it fits the target (always when widening) -/
theorem assign_toInt {src : Nat} (hw : 0 < w) (hn : 0 < n) (hs : 0 < src) {a : List Nat} (ha : Canon w src a)
    (hfit : -(M2 (n - 1)) ≤ toInt w src a ∧ toInt w src a < M2 (n - 1)) :
    Canon w n (assign w n src a) ∧ toInt w n (assign w n src a) = toInt w src a := by
  obtain ⟨hc, hv⟩ := assign_spec (n := n) hw hn hs ha
  refine ⟨hc, ?_⟩
  unfold toInt at *
  rw [hv]
  exact toSigned_ofSigned_fits hn hfit.1 hfit.2

theorem toInt_range (hn : 0 < n) (a : List Nat) : -(M2 (n - 1)) ≤ toInt w n a ∧ toInt w n a < M2 (n - 1) :=
  toSigned_range hn _

theorem M2_mono {i j : Nat} (h : i ≤ j) : M2 i ≤ M2 j := by
  unfold M2; exact_mod_cast Nat.pow_le_pow_right (by omega) h

theorem assign_widen {src : Nat} (hw : 0 < w) (hs : 0 < src) (hle : src ≤ n) {a : List Nat} (ha : Canon w src a) :
    Canon w n (assign w n src a) ∧ toInt w n (assign w n src a) = toInt w src a := by
  have hn : 0 < n := by omega
  obtain ⟨r1, r2⟩ := toInt_range (w := w) hs a
  have := M2_mono (show src - 1 ≤ n - 1 by omega)
  exact assign_toInt hw hn hs ha ⟨by omega, by omega⟩

/-- `uradd`: the exact sum in n+1 bits -/
theorem uradd_spec (hw : 0 < w) (hn : 0 < n) (h64 : w ≠ 64 ∨ nrBlocks w (n + 1) = 1) {a b : List Nat}
    (ha : Canon w n a) (hb : Canon w n b) :
    Canon w (n + 1) (uradd w n a b) ∧ toInt w (n + 1) (uradd w n a b) = toInt w n a + toInt w n b := by
  obtain ⟨ca, va⟩ := assign_widen (n := n + 1) hw hn (by omega) ha
  obtain ⟨cb, vb⟩ := assign_widen (n := n + 1) hw hn (by omega) hb
  obtain ⟨hc, hv⟩ := add_spec hw (by omega : 0 < n + 1) h64 ca.shape cb.shape
  refine ⟨hc, ?_⟩
  unfold uradd
  obtain ⟨r1, r2⟩ := toInt_range (w := w) hn a
  obtain ⟨s1, s2⟩ := toInt_range (w := w) hn b
  have hM : M2 n = 2 * M2 (n - 1) := by
    have := M2_succ (n - 1); rwa [Nat.sub_add_cancel hn] at this
  unfold toInt at *
  have : toNat w (add w (n + 1) (assign w (n + 1) n a) (assign w (n + 1) n b))
      = ofSigned (n + 1) (toSigned n (toNat w a) + toSigned n (toNat w b)) := by
    apply eq_ofSigned_of_modEq hc.2.2
    rw [hv]
    refine (modEq_natMod _ _).trans ?_
    push_cast
    rw [← va, ← vb]
    exact (modEq_toSigned _ _).symm.add (modEq_toSigned _ _).symm
  rw [this]
  apply toSigned_ofSigned_fits (by omega)
  · rw [Nat.add_sub_cancel]; omega
  · rw [Nat.add_sub_cancel]; omega

/-- `ursub`: the exact difference in n+1 bits -/
theorem ursub_spec (hw : 0 < w) (hn : 0 < n) (h64 : w ≠ 64 ∨ nrBlocks w (n + 1) = 1) {a b : List Nat}
    (ha : Canon w n a) (hb : Canon w n b) :
    Canon w (n + 1) (ursub w n a b) ∧ toInt w (n + 1) (ursub w n a b) = toInt w n a - toInt w n b := by
  obtain ⟨ca, va⟩ := assign_widen (n := n + 1) hw hn (by omega) ha
  obtain ⟨cb, vb⟩ := assign_widen (n := n + 1) hw hn (by omega) hb
  obtain ⟨hc, hv⟩ := sub_spec hw (by omega : 0 < n + 1) h64 ca.shape cb.shape
  refine ⟨hc, ?_⟩
  unfold ursub
  obtain ⟨r1, r2⟩ := toInt_range (w := w) hn a
  obtain ⟨s1, s2⟩ := toInt_range (w := w) hn b
  have hM : M2 n = 2 * M2 (n - 1) := by
    have := M2_succ (n - 1); rwa [Nat.sub_add_cancel hn] at this
  unfold toInt at *
  have : toNat w (sub w (n + 1) (assign w (n + 1) n a) (assign w (n + 1) n b))
      = ofSigned (n + 1) (toSigned n (toNat w a) - toSigned n (toNat w b)) := by
    rw [hv, ← va, ← vb, ofSigned_sub]
  rw [this]
  apply toSigned_ofSigned_fits (by omega)
  · rw [Nat.add_sub_cancel]; omega
  · rw [Nat.add_sub_cancel]; omega

theorem maxpos_toInt (hw : 0 < w) (hn : 0 < n) : Canon w n (maxpos w n) ∧ toInt w n (maxpos w n) = FixpntSpec.maxposZ n := by
  obtain ⟨hc, hv⟩ := maxpos_spec (w := w) hw hn
  refine ⟨hc, ?_⟩
  unfold toInt FixpntSpec.maxposZ
  rw [toSigned_of_lt hn hc.2.2, hv]
  have hp := Nat.two_pow_pos (n - 1)
  rw [if_pos (by omega), Nat.cast_sub hp]; simp

theorem maxneg_toInt (hw : 0 < w) (hn : 0 < n) : Canon w n (maxneg w n) ∧ toInt w n (maxneg w n) = FixpntSpec.maxnegZ n := by
  obtain ⟨hc, hv⟩ := maxneg_spec (w := w) hw hn
  refine ⟨hc, ?_⟩
  unfold toInt FixpntSpec.maxnegZ
  rw [toSigned_of_lt hn hc.2.2, hv]
  have hp : 2 ^ n = 2 ^ (n - 1) * 2 := by rw [← Nat.pow_succ]; congr 1; omega
  rw [if_neg (by omega), hp]; push_cast; ring

theorem bitAt_eq (hw : 0 < w) {a : List Nat} (ha : Wf w a) (i : Nat) : bitAt w n a i = (decide (i < n) && (toNat w a).testBit i) := by
  unfold bitAt; rw [testBit_toNat hw ha]

/-- `roundingMode(t)` is the round-half-even decision for discarding the low `t` bits -/
theorem roundingMode_spec (hw : 0 < w) {a : List Nat} (ha : Wf w a) {t : Nat} (ht : t < n) :
    roundingMode w n a t =
      (decide (2 * (toNat w a % 2 ^ t) > 2 ^ t) || (decide (2 * (toNat w a % 2 ^ t) = 2 ^ t) && (toNat w a).testBit t)) := by
  unfold roundingMode
  simp only
  rw [bitAt_eq hw ha, decide_eq_true ht, Bool.true_and]
  generalize hA : toNat w a = A
  rcases Nat.lt_or_ge t 1 with h0 | h1
  · -- t = 0
    have : t = 0 := by omega
    subst this
    simp [Nat.mod_one]
  · rcases Nat.lt_or_ge t 2 with h1' | h2
    · -- t = 1
      have : t = 1 := by omega
      subst this
      rw [bitAt_eq hw ha, hA]
      simp only [Nat.sub_self, show ¬ (1 = 0) by omega, if_false, show ¬ (1 > 1) by omega, show (1 < 3) by omega, if_true,
        Bool.not_false, Bool.and_true]
      have hm := mod_two_pow_succ' A 0
      simp only [Nat.zero_add, Nat.pow_zero, Nat.mod_one, Nat.one_mul, Nat.pow_one] at hm
      have hlt : 0 < n := by omega
      rw [decide_eq_true hlt, Bool.true_and, Nat.pow_one, hm]
      cases hb : A.testBit 0 <;> simp
    · -- t ≥ 2
      have hg := mod_two_pow_succ' A (t - 1)
      have hr := mod_two_pow_succ' A (t - 2)
      rw [show t - 1 + 1 = t by omega] at hg
      rw [show t - 2 + 1 = t - 1 by omega] at hr
      have hpt : 2 ^ t = 2 ^ (t - 1) * 2 := by rw [← Nat.pow_succ]; congr 1; omega
      have hpt1 : 2 ^ (t - 1) = 2 ^ (t - 2) * 2 := by rw [← Nat.pow_succ]; congr 1; omega
      have hs := Nat.mod_lt A (Nat.two_pow_pos (t - 2))
      rw [if_neg (by omega), if_pos (by omega), bitAt_eq hw ha, bitAt_eq hw ha, hA,
        decide_eq_true (by omega : t - 1 < n), decide_eq_true (by omega : t - 2 < n), Bool.true_and, Bool.true_and]
      have hst : (if t < 3 then false else anyUpTo w n a (t - 3)) = decide (A % 2 ^ (t - 2) ≠ 0) := by
        by_cases h3 : t < 3
        · have : t = 2 := by omega
          subst this
          simp [Nat.mod_one]
        · rw [if_neg h3, anyUpTo_spec hw ha, hA, if_neg (by omega), show t - 3 + 1 = t - 2 by omega]
      rw [hst]
      rw [hr] at hg
      rw [hg]
      clear hg hr hst
      generalize A % 2 ^ (t - 2) = s at *
      rw [hpt, hpt1]
      generalize 2 ^ (t - 2) = P at *
      have hP : 0 < P := by omega
      cases hb1 : A.testBit (t - 1) <;> cases hb2 : A.testBit (t - 2) <;> by_cases hs0 : s = 0 <;>
        simp only [hs0, if_true, if_false, Bool.false_eq_true, Nat.mul_zero, Nat.mul_one, Nat.add_zero, Nat.zero_add, ne_eq,
          not_true_eq_false, not_false_eq_true, decide_true, decide_false, Bool.not_true, Bool.not_false, Bool.and_true, Bool.and_false,
          Bool.true_and, Bool.false_and, Bool.or_false, Bool.false_or, Bool.or_true, Bool.true_or] <;>
        (rw [Bool.eq_iff_iff]; simp only [Bool.false_eq_true, false_iff, true_iff, Bool.or_eq_true, Bool.and_eq_true, decide_eq_true_eq]) <;>
        first
        | omega
        | exact Or.inl (by omega)
        | (constructor
           · intro h; exact Or.inr ⟨by omega, h⟩
           · rintro (h | ⟨_, h⟩)
             · exfalso; omega
             · exact h)

/-- after the repair fd17b6d blockbinary's `<<=` is integer's `<<=` (both exits mask the MSU) -/
theorem shlPos_eq_integer (a : List Nat) (s : Nat) : shlPos w n a s = Integer.shlPos w n a s := rfl

/-- `operator<<=` of blockbinary with a positive count: canonical result, times 2^s modulo 2^n -/
theorem shlPos_spec (hw : 0 < w) (hn : 0 < n) {a : List Nat} (ha : Canon w n a) {s : Nat} (hs : 0 < s) :
    Canon w n (shlPos w n a s) ∧ toNat w (shlPos w n a s) = (toNat w a * 2 ^ s) % 2 ^ n := by
  rw [shlPos_eq_integer]; exact Integer.shlPos_spec hw hn ha hs

theorem shl_one_spec (hw : 0 < w) (hn : 0 < n) {a : List Nat} (ha : Canon w n a) :
    Canon w n (shl w n a 1) ∧ toNat w (shl w n a 1) % 2 ^ n = (toNat w a % 2 ^ n * 2) % 2 ^ n := by
  have e : shl w n a 1 = shlPos w n a 1 := by
    unfold shl; simp
  obtain ⟨hs, hv⟩ := shlPos_spec hw hn ha (by omega : 0 < 1)
  rw [e]
  refine ⟨hs, ?_⟩
  rw [hv, Nat.mod_mod, Nat.pow_one, Nat.mod_mul_mod]

/-- invariant of the shift-and-add loop of `urmul2` after the bits below `i` of X have been consumed -/
theorem urmul2_loop (hw : 0 < w) (hn : 0 < n) (h64 : w ≠ 64 ∨ nrBlocks w (2 * n) = 1) {an : List Nat} (han : Wf w an)
    {X Y : Nat} (hX : toNat w an = X) (hXY : X * Y < 2 ^ (2 * n)) :
    ∀ (m i : Nat) (res mm : List Nat), i + m ≤ n + 1 → Canon w (2 * n) res → Canon w (2 * n) mm →
      toNat w res = (X % 2 ^ i) * Y → toNat w mm % 2 ^ (2 * n) = (Y * 2 ^ i) % 2 ^ (2 * n) →
      let fin := (List.range' i m).foldl (urmul2Step w n an) (res, mm)
      Canon w (2 * n) fin.1 ∧ toNat w fin.1 = (X % 2 ^ (i + m)) * Y := by
  intro m
  induction m with
  | zero =>
    intro i res mm _ hres _ hv _
    simp only [List.range', List.foldl_nil, Nat.add_zero]
    exact ⟨hres, hv⟩
  | succ m ih =>
    intro i res mm hi hres hmm hv hmv
    simp only [List.range', List.foldl_cons]
    have hM : 0 < 2 * n := by omega
    obtain ⟨hs, hsv⟩ := shl_one_spec hw hM hmm
    have hbit : bitAt w (n + 1) an i = (toNat w an).testBit i := by
      rw [bitAt_eq hw han]; simp; omega
    rw [hX] at hbit
    have hstep : Canon w (2 * n) (urmul2Step w n an (res, mm) i).1 ∧ toNat w (urmul2Step w n an (res, mm) i).1 = (X % 2 ^ (i + 1)) * Y := by
      unfold urmul2Step
      simp only
      rw [hbit, mod_two_pow_succ' X i]
      by_cases hb : X.testBit i = true
      · rw [if_pos hb, if_pos hb]
        obtain ⟨hc, hcv⟩ := add_spec hw hM h64 hres.shape hmm.shape
        refine ⟨hc, ?_⟩
        rw [hcv, Nat.add_mod, hmv, ← Nat.add_mod, hv]
        have hle : (X % 2 ^ i + 2 ^ i * 1) * Y ≤ X * Y := by
          apply Nat.mul_le_mul_right
          have := mod_two_pow_succ' X i
          rw [if_pos hb] at this
          rw [← this]; exact Nat.mod_le _ _
        have e : X % 2 ^ i * Y + Y * 2 ^ i = (X % 2 ^ i + 2 ^ i * 1) * Y := by ring
        rw [e, Nat.mod_eq_of_lt (by omega)]
      · rw [if_neg hb, if_neg hb]
        refine ⟨hres, ?_⟩
        rw [hv]; simp
    have hsm : toNat w (urmul2Step w n an (res, mm) i).2 % 2 ^ (2 * n) = (Y * 2 ^ (i + 1)) % 2 ^ (2 * n) := by
      unfold urmul2Step
      simp only
      rw [hsv, hmv, Nat.mod_mul_mod, Nat.pow_succ, Nat.mul_assoc]
    have hsh : Canon w (2 * n) (urmul2Step w n an (res, mm) i).2 := by
      unfold urmul2Step; simp only; exact hs
    have := ih (i + 1) (urmul2Step w n an (res, mm) i).1 (urmul2Step w n an (res, mm) i).2 (by omega) hstep.1 hsh hstep.2 hsm
    simp only at this
    rw [show i + 1 + m = i + (m + 1) by omega] at this
    exact this

theorem toNat_eq_zero_of_iszero : ∀ {l : List Nat}, iszero l = true → toNat w l = 0
  | [], _ => rfl
  | x :: xs, h => by
    simp only [iszero, List.all_cons, Bool.and_eq_true, beq_iff_eq] at h
    have := toNat_eq_zero_of_iszero (l := xs) (by simpa [iszero] using h.2)
    rw [toNat, h.1, this]; simp

theorem h64_mono {m m' : Nat} (h : w ≠ 64 ∨ nrBlocks w m = 1) (hle : m' ≤ m) : w ≠ 64 ∨ nrBlocks w m' = 1 := by
  rcases h with h | h
  · exact Or.inl h
  · right
    have h1 := nrBlocks_mono (w := w) hle
    have h2 := nrBlocks_pos w m'
    omega

/-- a pattern congruent to a small integer: its magnitude through two's complement -/
theorem pattern_abs {N P : Nat} {x : Int} (hP : P < 2 ^ N) (hm : (P : Int) ≡ x [ZMOD M2 N])
    (h1 : -(M2 N) < x) (h2 : x < M2 N) :
    (x < 0 → (((2 ^ N - P) % 2 ^ N : Nat) : Int) = -x) ∧ (0 ≤ x → (P : Int) = x) := by
  have hPi : ((P : Nat) : Int) < M2 N := by unfold M2; exact_mod_cast hP
  have hP0 : (0 : Int) ≤ (P : Int) := by omega
  rw [Int.modEq_iff_dvd] at hm
  obtain ⟨c, hc⟩ := hm
  have hMp := M2_pos N
  constructor
  · intro hx
    have hcv : c = -1 := by
      by_contra hne
      rcases lt_or_gt_of_ne hne with hlt | hgt
      · have : c ≤ -2 := by omega
        nlinarith
      · have : c ≥ 0 := by omega
        nlinarith
    rw [hcv] at hc
    have hPv : (P : Int) = x + M2 N := by linarith
    have hPpos : 0 < P := by
      have : (0 : Int) < (P : Int) := by rw [hPv]; omega
      exact_mod_cast this
    rw [Nat.mod_eq_of_lt (by omega), Nat.cast_sub (le_of_lt hP), hPv]
    show M2 N - (x + M2 N) = -x
    ring
  · intro hx
    have hcv : c = 0 := by
      by_contra hne
      rcases lt_or_gt_of_ne hne with hlt | hgt
      · have : c ≤ -1 := by omega
        nlinarith
      · have : c ≥ 1 := by omega
        nlinarith
    rw [hcv] at hc
    linarith

/-- widen by one bit and negate when negative: the magnitude, as used by `urmul2` and `longdivision` -/
theorem absval_spec (hw : 0 < w) (hn : 0 < n) (h64 : w ≠ 64 ∨ nrBlocks w (n + 1) = 1) {a : List Nat} (ha : Canon w n a) :
    Canon w (n + 1) (if sign w n a then twosC w (n + 1) (assign w (n + 1) n a) else assign w (n + 1) n a) ∧
    ((toNat w (if sign w n a then twosC w (n + 1) (assign w (n + 1) n a) else assign w (n + 1) n a) : Nat) : Int)
      = |toInt w n a| := by
  obtain ⟨hb, hbv⟩ := assign_spec (n := n + 1) hw (by omega) hn ha
  obtain ⟨r1, r2⟩ := toSigned_range hn (toNat w a)
  have hM : M2 n = 2 * M2 (n - 1) := by
    have := M2_succ (n - 1); rwa [Nat.sub_add_cancel hn] at this
  have hM1 := M2_succ n
  have hp := M2_pos (n - 1)
  have hP : ((toNat w (assign w (n + 1) n a) : Nat) : Int) ≡ toSigned n (toNat w a) [ZMOD M2 (n + 1)] := by
    rw [hbv]; exact modEq_ofSigned _ _
  obtain ⟨pn, pp⟩ := pattern_abs hb.2.2 hP (by omega) (by omega)
  rw [sign_neg hw hn ha]
  unfold toInt
  by_cases hx : toSigned n (toNat w a) < 0
  · rw [decide_eq_true hx, if_pos rfl]
    obtain ⟨ht, htv⟩ := twosC_spec hw (by omega : 0 < n + 1) h64 hb.shape
    refine ⟨ht, ?_⟩
    rw [htv, Nat.mod_eq_of_lt hb.2.2, pn hx, abs_of_neg hx]
  · rw [decide_eq_false hx, if_neg (by simp)]
    refine ⟨hb, ?_⟩
    rw [pp (by omega), abs_of_nonneg (by omega)]

theorem toInt_zero_of_toNat_zero {a : List Nat} (h : toNat w a = 0) : toInt w n a = 0 := by
  unfold toInt toSigned; rw [h]; simp

theorem abs_le_half (hn : 0 < n) (a : List Nat) : |toInt w n a| ≤ M2 (n - 1) := by
  obtain ⟨r1, r2⟩ := toInt_range (w := w) hn a
  rw [abs_le]; constructor <;> omega

/-- `urmul2`: the exact product of the signed values in 2n bits -/
theorem urmul2_spec (hw : 0 < w) (hn : 0 < n) (h64 : w ≠ 64 ∨ nrBlocks w (2 * n) = 1) {a b : List Nat}
    (ha : Canon w n a) (hb : Canon w n b) :
    Canon w (2 * n) (urmul2 w n a b) ∧ toInt w (2 * n) (urmul2 w n a b) = toInt w n a * toInt w n b := by
  have hM : 0 < 2 * n := by omega
  have h64N : w ≠ 64 ∨ nrBlocks w (n + 1) = 1 := h64_mono h64 (by omega)
  obtain ⟨hz, hzv⟩ := ofInt64_spec (w := w) (n := 2 * n) hw hM 0
  have hzv0 : toNat w (ofInt64 w (2 * n) 0) = 0 := by rw [hzv]; simp [ofSigned]
  unfold urmul2
  simp only
  by_cases hzero : (iszero a || iszero b) = true
  · rw [if_pos hzero]
    refine ⟨hz, ?_⟩
    rw [toInt_zero_of_toNat_zero hzv0]
    rcases Bool.or_eq_true _ _ ▸ hzero with h | h
    · rw [toInt_zero_of_toNat_zero (toNat_eq_zero_of_iszero h)]; simp
    · rw [toInt_zero_of_toNat_zero (toNat_eq_zero_of_iszero h)]; simp
  · rw [if_neg hzero]
    obtain ⟨cA, vA⟩ := absval_spec hw hn h64N ha
    obtain ⟨cB, vB⟩ := absval_spec hw hn h64N hb
    generalize hA' : (if sign w n a then twosC w (n + 1) (assign w (n + 1) n a) else assign w (n + 1) n a) = A' at *
    generalize hB' : (if sign w n b then twosC w (n + 1) (assign w (n + 1) n b) else assign w (n + 1) n b) = B' at *
    generalize hx : toInt w n a = x at *
    generalize hy : toInt w n b = y at *
    generalize hX : toNat w A' = X at *
    generalize hY : toNat w B' = Y at *
    -- magnitudes are at most 2^(n-1)
    have hXle : X ≤ 2 ^ (n - 1) := by
      have := abs_le_half (w := w) hn a
      rw [hx, ← vA] at this
      unfold M2 at this; exact_mod_cast this
    have hYle : Y ≤ 2 ^ (n - 1) := by
      have := abs_le_half (w := w) hn b
      rw [hy, ← vB] at this
      unfold M2 at this; exact_mod_cast this
    have hpp : 2 ^ (n - 1) * 2 ^ (n - 1) = 2 ^ (2 * n - 2) := by rw [← Nat.pow_add]; congr 1; omega
    have hXY : X * Y ≤ 2 ^ (2 * n - 2) := by rw [← hpp]; exact Nat.mul_le_mul hXle hYle
    have hXYlt : X * Y < 2 ^ (2 * n) := Nat.lt_of_le_of_lt hXY (Nat.pow_lt_pow_right (by omega) (by omega))
    -- the multiplicand in 2n bits
    obtain ⟨cm, vm⟩ := assign_spec (n := 2 * n) hw hM (by omega : 0 < n + 1) cB
    have hYsmall : Y < 2 ^ (n + 1 - 1) := by
      rw [Nat.add_sub_cancel]
      exact Nat.lt_of_le_of_lt hYle (Nat.pow_lt_pow_right (by omega) (by omega))
    have vm' : toNat w (assign w (2 * n) (n + 1) B') = Y := by
      rw [vm, hY, Integer.toSigned_small (by omega) hYsmall, ofSigned_natCast, Nat.mod_eq_of_lt]
      exact Nat.lt_of_le_of_lt hYle (Nat.pow_lt_pow_right (by omega) (by omega))
    -- the loop
    have hloop := urmul2_loop hw hn h64 cA.2.1 hX hXYlt (n + 1) 0 (ofInt64 w (2 * n) 0) (assign w (2 * n) (n + 1) B')
      (by omega) hz cm (by rw [hzv0]; simp [Nat.mod_one]) (by rw [vm']; simp)
    simp only at hloop
    rw [← List.range_eq_range'] at hloop
    obtain ⟨cr, vr⟩ := hloop
    rw [Nat.zero_add, Nat.mod_eq_of_lt (Nat.lt_of_le_of_lt hXle (Nat.pow_lt_pow_right (by omega) (by omega)))] at vr
    generalize hres : (List.foldl (urmul2Step w n A') (ofInt64 w (2 * n) 0, assign w (2 * n) (n + 1) B') (List.range (n + 1))).1 = res at *
    -- sign fix-up and the signed value
    have hfit1 : -(M2 (2 * n - 1)) ≤ x * y := by
      have h1 : |x * y| ≤ M2 (2 * n - 2) := by
        rw [abs_mul, ← vA, ← vB]; unfold M2; exact_mod_cast hXY
      have h2 : M2 (2 * n - 2) ≤ M2 (2 * n - 1) := M2_mono (by omega)
      have := neg_abs_le (x * y)
      omega
    have hfit2 : x * y < M2 (2 * n - 1) := by
      have h1 : |x * y| ≤ M2 (2 * n - 2) := by
        rw [abs_mul, ← vA, ← vB]; unfold M2; exact_mod_cast hXY
      have h2 : M2 (2 * n - 2) < M2 (2 * n - 1) := by
        unfold M2; exact_mod_cast Nat.pow_lt_pow_right (by omega) (by omega)
      have := le_abs_self (x * y)
      omega
    have hfinal : ∀ (r' : List Nat), Canon w (2 * n) r' → ((toNat w r' : Nat) : Int) ≡ x * y [ZMOD M2 (2 * n)] →
        Canon w (2 * n) r' ∧ toInt w (2 * n) r' = x * y := by
      intro r' hc hm
      refine ⟨hc, ?_⟩
      unfold toInt
      rw [eq_ofSigned_of_modEq hc.2.2 hm]
      exact toSigned_ofSigned_fits hM hfit1 hfit2
    have hprod : ((X * Y : Nat) : Int) = if sign w n a != sign w n b then -(x * y) else x * y := by
      push_cast
      rw [vA, vB, Integer.abs_mul_sign, sign_neg hw hn ha, sign_neg hw hn hb]
      unfold toInt at hx hy
      rw [hx, hy]
    by_cases hsg : (sign w n a != sign w n b) = true
    · rw [if_pos hsg] at hprod ⊢
      obtain ⟨ht, htv⟩ := twosC_spec hw hM h64 cr.shape
      apply hfinal _ ht
      rw [htv]
      refine (modEq_neg_nat _ _).trans ?_
      rw [vr, hprod]; simp
    · rw [if_neg hsg] at hprod ⊢
      apply hfinal _ cr
      rw [vr, hprod]

/-- below nbits blockbinary's `>>=` is integer's `>>=` (from nbits on both return 0 for every value: `setzero()`) -/
theorem shrPos_eq_integer (hw : 0 < w) (hn : 0 < n) {a : List Nat} (ha : Wf w a) {s : Nat} (hs : s < n) :
    shrPos w n a s = Integer.shrPos w n a s := by
  unfold shrPos Integer.shrPos
  have h : ¬ s ≥ n := by omega
  rw [if_neg h, if_neg h, sign_eq_integer hw hn ha]

/-- arithmetic right shift of blockbinary by `0 ≤ s < n`: floor division of the signed value -/
theorem shr_spec (hw : 0 < w) (hn : 0 < n) {a : List Nat} (ha : Canon w n a) {s : Nat} (hs : s < n) :
    Canon w n (shr w n a (s : Int)) ∧ toInt w n (shr w n a (s : Int)) = toInt w n a / ((2 ^ s : Nat) : Int) := by
  obtain ⟨r1, r2⟩ := toInt_range (w := w) hn a
  have hpos : (0 : Int) < ((2 ^ s : Nat) : Int) := by exact_mod_cast Nat.two_pow_pos s
  have hfit : -(M2 (n - 1)) ≤ toInt w n a / ((2 ^ s : Nat) : Int) ∧ toInt w n a / ((2 ^ s : Nat) : Int) < M2 (n - 1) := by
    have hp := M2_pos (n - 1)
    constructor
    · have : -(M2 (n - 1)) * ((2 ^ s : Nat) : Int) ≤ toInt w n a := by nlinarith
      exact (Int.le_ediv_iff_mul_le hpos).mpr this
    · apply Int.ediv_lt_of_lt_mul hpos
      nlinarith
  unfold shr
  by_cases h0 : s = 0
  · subst h0
    have e : (if ((0 : Nat) : Int) = 0 then a else if ((0 : Nat) : Int) < 0 then shlPos w n a (-((0 : Nat) : Int)).toNat else shrPos w n a ((0 : Nat) : Int).toNat) = a := by
      simp
    rw [e]
    refine ⟨ha, ?_⟩
    simp
  · rw [if_neg (by omega), if_neg (by omega), Int.toNat_natCast, shrPos_eq_integer hw hn ha.2.1 hs]
    obtain ⟨hc, hv⟩ := Integer.shrPos_spec hw hn ha (by omega : 0 < s) hs
    refine ⟨hc, ?_⟩
    unfold toInt at *
    rw [hv]
    exact toSigned_ofSigned_fits hn hfit.1 hfit.2

/-- pattern vs. signed value: low bits and the parity of the shifted value agree -/
theorem round_bridge {M C r : Nat} {p : Int} (hC : (C : Int) ≡ p [ZMOD M2 M]) (hr : r < M) :
    ((C % 2 ^ r : Nat) : Int) = p % ((2 ^ r : Nat) : Int) ∧
    (C.testBit r = true ↔ (p / ((2 ^ r : Nat) : Int)) % 2 ≠ 0) := by
  rw [Int.modEq_iff_dvd] at hC
  obtain ⟨c, hc⟩ := hC
  have hpM : 2 ^ M = 2 ^ r * 2 ^ (M - r) := by rw [← Nat.pow_add]; congr 1; omega
  have hpM' : M2 M = ((2 ^ r : Nat) : Int) * ((2 ^ (M - r) : Nat) : Int) := by unfold M2; rw [hpM]; push_cast; ring
  have hpos : (0 : Int) < ((2 ^ r : Nat) : Int) := by exact_mod_cast Nat.two_pow_pos r
  have hev : ((2 ^ (M - r) : Nat) : Int) = 2 * ((2 ^ (M - r - 1) : Nat) : Int) := by
    have : 2 ^ (M - r) = 2 * 2 ^ (M - r - 1) := by rw [← Nat.pow_succ']; congr 1; omega
    rw [this]; push_cast; ring
  have hp : p = (C : Int) + (c * ((2 ^ (M - r) : Nat) : Int)) * ((2 ^ r : Nat) : Int) := by
    rw [hpM'] at hc; linarith
  constructor
  · rw [hp, Int.add_mul_emod_self_right, Int.natCast_mod]
  · rw [Nat.testBit_eq_decide_div_mod_eq]
    have hdiv : p / ((2 ^ r : Nat) : Int) = ((C / 2 ^ r : Nat) : Int) + (c * ((2 ^ (M - r) : Nat) : Int)) := by
      rw [hp, Int.add_mul_ediv_right _ _ (ne_of_gt hpos), Int.natCast_ediv]
    rw [hdiv, hev]
    have : (((C / 2 ^ r : Nat) : Int) + c * (2 * ((2 ^ (M - r - 1) : Nat) : Int))) % 2 = ((C / 2 ^ r : Nat) : Int) % 2 := by
      have e : c * (2 * ((2 ^ (M - r - 1) : Nat) : Int)) = (c * ((2 ^ (M - r - 1) : Nat) : Int)) * 2 := by ring
      rw [e, Int.add_mul_emod_self_right]
    rw [this]
    have h2 := Nat.mod_lt (C / 2 ^ r) (by omega : 0 < 2)
    constructor
    · intro h
      have h' : C / 2 ^ r % 2 = 1 := by simpa using h
      have : ((C / 2 ^ r : Nat) : Int) % 2 = 1 := by
        have : (((C / 2 ^ r) % 2 : Nat) : Int) = 1 := by rw [h']; rfl
        rwa [Int.natCast_mod] at this
      omega
    · intro h
      have : C / 2 ^ r % 2 ≠ 0 := by
        intro e
        apply h
        have : (((C / 2 ^ r) % 2 : Nat) : Int) = 0 := by rw [e]; rfl
        rwa [Int.natCast_mod] at this
      have h' : C / 2 ^ r % 2 = 1 := by omega
      simpa using h'

theorem sub_eq_integer (hw : 0 < w) (hn : 0 < n) (h64 : w ≠ 64 ∨ nrBlocks w n = 1) {a b : List Nat}
    (ha : Shape w n a) (hb : Shape w n b) : BB.sub w n a b = Integer.sub w n a b := by
  obtain ⟨c1, v1⟩ := BB.sub_spec hw hn h64 ha hb
  obtain ⟨c2, v2⟩ := Integer.sub_spec hw hn ha hb
  exact toNat_inj c1.2.1 c2.2.1 (by rw [c1.1, c2.1]) (by rw [v1, v2])

theorem shr_one_eq_integer (hw : 0 < w) (hn : 1 < n) {a : List Nat} (ha : Wf w a) :
    BB.shr w n a 1 = Integer.shr w n a 1 := by
  unfold BB.shr Integer.shr
  simp only [show ¬ ((1 : Int) = 0) by omega, show ¬ ((1 : Int) < 0) by omega, if_false]
  exact shrPos_eq_integer hw (by omega) ha (by simpa using hn)

/-- on canonical states the loop body of `longdivision` is the loop body of integer's `idiv` -/
theorem ldStep_eq (hw : 0 < w) (hn : 0 < n) (h64N : w ≠ 64 ∨ nrBlocks w (n + 1) = 1) {acc sb : List Nat} (q : List Nat) (i : Nat)
    (hacc : Canon w (n + 1) acc) (hsb : Canon w (n + 1) sb) :
    ldStep w n (acc, sb, q) i = Integer.idivStep w n (acc, sb, q) i := by
  have hN : 0 < n + 1 := by omega
  unfold ldStep Integer.idivStep
  simp only
  have hle : BB.le w (n + 1) sb acc = !(Integer.lt w (n + 1) acc sb) := by
    rw [BB.le_spec hw hN h64N hsb hacc, Integer.lt_spec hw hN hacc hsb]
    unfold toInt
    generalize toSigned (n + 1) (toNat w sb) = s
    generalize toSigned (n + 1) (toNat w acc) = a
    by_cases h : a < s
    · have : ¬ s ≤ a := by omega
      simp [h, this]
    · have : s ≤ a := by omega
      simp [h, this]
  rw [hle, sub_eq_integer hw hN h64N hacc.shape hsb.shape, shr_one_eq_integer hw (by omega) hsb.2.1]

theorem ld_loop (hw : 0 < w) (hn : 0 < n) (h64N : w ≠ 64 ∨ nrBlocks w (n + 1) = 1) {A B : Nat} (hB : 0 < B) (hA : A < 2 ^ n) :
    ∀ (i : Nat) (acc sb q : List Nat), Canon w (n + 1) acc → Canon w (n + 1) sb → Canon w n q → i < n →
      toNat w sb = B * 2 ^ i → toNat w acc < B * 2 ^ (i + 1) → B * 2 ^ i < 2 ^ n →
      A = toNat w q * B + toNat w acc → toNat w q % 2 ^ (i + 1) = 0 →
      ∃ acc' sb' q', ((List.range (i + 1)).reverse).foldl (ldStep w n) (acc, sb, q) = (acc', sb', q') ∧
        Canon w (n + 1) acc' ∧ Canon w n q' ∧ toNat w acc' < B ∧ A = toNat w q' * B + toNat w acc' := by
  intro i
  induction i with
  | zero =>
    intro acc sb q hacc hsb hq hi hsbv haccv hsbl hdec hqz
    obtain ⟨acc', sb', q', e, c1, _, c3, _, c5, c6, _⟩ := Integer.idivStep_spec hw hn hB hA 0 acc sb q hacc hsb hq hi hsbv haccv hsbl hdec hqz
    refine ⟨acc', sb', q', ?_, c1, c3, by simpa using c5, c6⟩
    simp only [List.range_succ, List.range_zero, List.nil_append, List.reverse_cons, List.reverse_nil, List.foldl_cons, List.foldl_nil]
    rw [ldStep_eq hw hn h64N q 0 hacc hsb]
    exact e
  | succ i ih =>
    intro acc sb q hacc hsb hq hi hsbv haccv hsbl hdec hqz
    obtain ⟨acc', sb', q', e, c1, c2, c3, c4, c5, c6, c7⟩ := Integer.idivStep_spec hw hn hB hA (i + 1) acc sb q hacc hsb hq hi hsbv haccv hsbl hdec hqz
    have hhalf : B * 2 ^ (i + 1) / 2 = B * 2 ^ i := by
      rw [Nat.pow_succ, ← Nat.mul_assoc, Nat.mul_div_cancel _ (by omega : 0 < 2)]
    rw [hhalf] at c4
    have hsbl' : B * 2 ^ i < 2 ^ n := by
      have : B * 2 ^ i ≤ B * 2 ^ (i + 1) := Nat.mul_le_mul_left _ (Nat.pow_le_pow_right (by omega) (by omega))
      omega
    obtain ⟨a2, s2, q2, e2, r⟩ := ih acc' sb' q' c1 c2 c3 (by omega) c4 c5 hsbl' c6 c7
    refine ⟨a2, s2, q2, ?_, r⟩
    rw [List.range_succ, List.reverse_append]
    simp only [List.reverse_cons, List.reverse_nil, List.nil_append, List.cons_append, List.foldl_cons]
    rw [ldStep_eq hw hn h64N q (i + 1) hacc hsb, e]
    exact e2

theorem shl_nonneg_spec (hw : 0 < w) (hn : 0 < n) {a : List Nat} (ha : Canon w n a) {d : Nat} (hd : d ≤ n)
    (hfit : toNat w a * 2 ^ d < 2 ^ n) :
    Canon w n (shl w n a (d : Int)) ∧ toNat w (shl w n a (d : Int)) = toNat w a * 2 ^ d := by
  unfold shl
  by_cases h0 : d = 0
  · subst h0
    simp only [Nat.cast_zero, if_true, Nat.pow_zero, Nat.mul_one]
    exact ⟨ha, trivial⟩
  · rw [if_neg (by omega), if_neg (by omega), Int.toNat_natCast]
    obtain ⟨hs, hv⟩ := shlPos_spec hw hn ha (by omega : 0 < d)
    rw [Nat.mod_eq_of_lt hfit] at hv
    exact ⟨hs, hv⟩

/-- `<<=` of blockbinary / fixpnt with a signed count, every count: canonical result and a value that does not mention
    the block width (left: ·2^k mod 2^n; right: floor division below nbits, 0 from nbits on — `>>=` is unrepaired) -/
theorem shl_int_spec (hw : 0 < w) (hn : 0 < n) {a : List Nat} (ha : Canon w n a) (k : Int) :
    Canon w n (shl w n a k) ∧
    toNat w (shl w n a k) =
      (if k = 0 then toNat w a
       else if k < 0 then
         (if (-k).toNat < n then ofSigned n (toSigned n (toNat w a) / ((2 ^ (-k).toNat : Nat) : Int)) else 0)
       else (toNat w a * 2 ^ k.toNat) % 2 ^ n) := by
  unfold shl
  by_cases h0 : k = 0
  · rw [if_pos h0, if_pos h0]; exact ⟨ha, rfl⟩
  · rw [if_neg h0, if_neg h0]
    by_cases hneg : k < 0
    · rw [if_pos hneg, if_pos hneg]
      by_cases hlt : (-k).toNat < n
      · rw [if_pos hlt, shrPos_eq_integer hw hn ha.2.1 hlt]
        exact Integer.shrPos_spec hw hn ha (by omega) hlt
      · rw [if_neg hlt]
        unfold shrPos
        rw [if_pos (by omega), ha.1]
        exact Integer.zeros_canon hn
    · rw [if_neg hneg, if_neg hneg]
      exact shlPos_spec hw hn ha (by omega)

/-- `longdivision`: quotient and remainder of the truncating division of the signed values, wrapped into n bits -/
theorem longdivision_spec (hw : 0 < w) (hn : 0 < n) (h64 : w ≠ 64 ∨ nrBlocks w n = 1) (h64N : w ≠ 64 ∨ nrBlocks w (n + 1) = 1)
    {a b : List Nat} (ha : Canon w n a) (hb : Canon w n b) (hb0 : toNat w b ≠ 0) :
    Canon w n (longdivision w n a b).1 ∧ Canon w n (longdivision w n a b).2 ∧
    toNat w (longdivision w n a b).1 = ofSigned n (Int.tdiv (toInt w n a) (toInt w n b)) ∧
    toNat w (longdivision w n a b).2 = ofSigned n (Int.tmod (toInt w n a) (toInt w n b)) := by
  have hN : 0 < n + 1 := by omega
  have hz : iszero b = false := by
    by_contra h
    exact hb0 (toNat_eq_zero_of_iszero (by simpa using h))
  obtain ⟨cA, vA⟩ := absval_spec hw hn h64N ha
  obtain ⟨cB, vB⟩ := absval_spec hw hn h64N hb
  have hsa := sign_neg hw hn ha
  have hsb := sign_neg hw hn hb
  unfold longdivision
  simp only
  rw [hz, if_neg (by simp)]
  have ex : toSigned n (toNat w a) = toInt w n a := rfl
  have ey : toSigned n (toNat w b) = toInt w n b := rfl
  rw [ex] at hsa
  rw [ey] at hsb
  generalize hx : toInt w n a = x at *
  generalize hy : toInt w n b = y at *
  generalize hA' : (if sign w n a then twosC w (n + 1) (assign w (n + 1) n a) else assign w (n + 1) n a) = A' at *
  generalize hB' : (if sign w n b then twosC w (n + 1) (assign w (n + 1) n b) else assign w (n + 1) n b) = B' at *
  generalize hX : toNat w A' = X at *
  generalize hY : toNat w B' = Y at *
  have lA : X < 2 ^ n := by
    have := abs_le_half (w := w) hn a
    rw [hx, ← vA] at this
    have h2 : X ≤ 2 ^ (n - 1) := by unfold M2 at this; exact_mod_cast this
    exact Nat.lt_of_le_of_lt h2 (Nat.pow_lt_pow_right (by omega) (by omega))
  have lB : Y < 2 ^ n := by
    have := abs_le_half (w := w) hn b
    rw [hy, ← vB] at this
    have h2 : Y ≤ 2 ^ (n - 1) := by unfold M2 at this; exact_mod_cast this
    exact Nat.lt_of_le_of_lt h2 (Nat.pow_lt_pow_right (by omega) (by omega))
  have hy0 : y ≠ 0 := by
    intro e
    have := ofSigned_toSigned_of_lt hb.2.2
    rw [ey, e] at this
    exact hb0 (by rw [← this]; simp [ofSigned])
  have hYpos : 0 < Y := by
    have : (0 : Int) < (Y : Int) := by rw [vB]; exact abs_pos.mpr hy0
    exact_mod_cast this
  have hxs := Integer.signed_of_abs vA
  have hys := Integer.signed_of_abs vB
  rw [← hsa] at hxs
  rw [← hsb] at hys
  have hlt : lt w (n + 1) A' B' = decide (X < Y) := by
    rw [lt_spec hw hN h64N cA cB, hX, hY, Integer.toSigned_small hN (by rw [Nat.add_sub_cancel]; exact lA),
      Integer.toSigned_small hN (by rw [Nat.add_sub_cancel]; exact lB)]
    simp
  have hdivv : Int.tdiv x y = if sign w n a != sign w n b then -((X / Y : Nat) : Int) else ((X / Y : Nat) : Int) := by
    conv_lhs => rw [hxs, hys]
    exact Integer.tdiv_signs X Y _ _
  have hmodv : Int.tmod x y = if sign w n a then -((X % Y : Nat) : Int) else ((X % Y : Nat) : Int) := by
    conv_lhs => rw [hxs, hys]
    exact Integer.tmod_signs X Y _ _
  obtain ⟨hz0, hz0v⟩ := Integer.zeros_canon (w := w) hn
  by_cases hXY : X < Y
  · rw [hlt, decide_eq_true hXY, if_pos rfl]
    refine ⟨hz0, ha, ?_, ?_⟩
    · show toNat w (zeros (nrBlocks w n)) = _
      rw [hz0v, hdivv, Nat.div_eq_of_lt hXY]; simp [ofSigned]
    · show toNat w a = _
      rw [hmodv, Nat.mod_eq_of_lt hXY, ← hxs, ← ex]
      exact (ofSigned_toSigned_of_lt ha.2.2).symm
  · rw [hlt, decide_eq_false hXY, if_neg (by simp)]
    have hXge : Y ≤ X := Nat.le_of_not_lt hXY
    have hX0 : X ≠ 0 := by omega
    have hY0 : Y ≠ 0 := by omega
    have hmA : msbPos w A' = ((Nat.log2 X : Nat) : Int) := by rw [← hX]; exact Integer.msbPos_eq (by rw [hX]; exact hX0)
    have hmB : msbPos w B' = ((Nat.log2 Y : Nat) : Int) := by rw [← hY]; exact Integer.msbPos_eq (by rw [hY]; exact hY0)
    have hlog : Nat.log2 Y ≤ Nat.log2 X := (Nat.le_log2 hX0).mpr (Nat.le_trans (Nat.log2_self_le hY0) hXge)
    set dn := Nat.log2 X - Nat.log2 Y with hdn
    have hd : msbPos w A' - msbPos w B' = ((dn : Nat) : Int) := by rw [hmA, hmB, hdn]; omega
    have hlogX : Nat.log2 X < n := (Nat.log2_lt hX0).mpr lA
    have hX1 : X < 2 ^ (Nat.log2 X + 1) := Nat.lt_log2_self
    have hY1 : 2 ^ Nat.log2 Y ≤ Y := Nat.log2_self_le hY0
    have hY2 : Y < 2 ^ (Nat.log2 Y + 1) := Nat.lt_log2_self
    have hsbl : Y * 2 ^ dn < 2 ^ n := by
      have : Y * 2 ^ dn < 2 ^ (Nat.log2 Y + 1) * 2 ^ dn := Nat.mul_lt_mul_of_pos_right hY2 (Nat.two_pow_pos dn)
      rw [← Nat.pow_add, show Nat.log2 Y + 1 + dn = Nat.log2 X + 1 by omega] at this
      exact Nat.lt_of_lt_of_le this (Nat.pow_le_pow_right (by omega) (by omega))
    have hXlt : X < Y * 2 ^ (dn + 1) := by
      have : 2 ^ Nat.log2 Y * 2 ^ (dn + 1) ≤ Y * 2 ^ (dn + 1) := Nat.mul_le_mul_right _ hY1
      rw [← Nat.pow_add, show Nat.log2 Y + (dn + 1) = Nat.log2 X + 1 by omega] at this
      omega
    rw [hd]
    obtain ⟨cS, vS⟩ := shl_nonneg_spec hw hN cB (d := dn) (by omega)
      (by rw [hY]; exact Nat.lt_of_lt_of_le hsbl (Nat.pow_le_pow_right (by omega) (by omega)))
    rw [hY] at vS
    rw [Int.toNat_natCast]
    obtain ⟨acc', sb', q', efold, c1, c3, c4, c5⟩ := ld_loop hw hn h64N hYpos lA dn A' (shl w (n + 1) B' ((dn : Nat) : Int))
      (zeros (nrBlocks w n)) cA cS hz0 (by omega) vS (by rw [hX]; exact hXlt) hsbl (by rw [hz0v, hX]; simp) (by rw [hz0v]; simp)
    rw [efold]
    simp only
    have hQ : toNat w q' = X / Y ∧ toNat w acc' = X % Y := by
      have h1 : toNat w q' * Y + toNat w acc' = X := c5.symm
      have hqeq : toNat w q' = X / Y := by
        have : X / Y = toNat w q' := by
          rw [← h1, Nat.mul_comm, Nat.mul_add_div hYpos, Nat.div_eq_of_lt c4, Nat.add_zero]
        exact this.symm
      refine ⟨hqeq, ?_⟩
      rw [hqeq] at h1
      have hdm := Nat.div_add_mod X Y
      have : Y * (X / Y) = X / Y * Y := Nat.mul_comm _ _
      omega
    obtain ⟨hQv, hRv⟩ := hQ
    have hRlt : toNat w acc' < 2 ^ n := by omega
    have hqfin : Canon w n (if sign w n a != sign w n b then add w n (flip w n q') (ofInt64 w n 1) else q') ∧
        toNat w (if sign w n a != sign w n b then add w n (flip w n q') (ofInt64 w n 1) else q') = ofSigned n (Int.tdiv x y) := by
      rw [hdivv]
      by_cases hs : (sign w n a != sign w n b) = true
      · rw [if_pos hs, if_pos hs]
        obtain ⟨hc, hv⟩ := twosC_spec hw hn h64 c3.shape
        refine ⟨hc, ?_⟩
        show toNat w (twosC w n q') = _
        apply eq_ofSigned_of_modEq hc.2.2
        rw [hv, hQv]
        exact modEq_neg_nat _ _
      · rw [if_neg hs, if_neg hs]
        refine ⟨c3, ?_⟩
        rw [ofSigned_natCast, ← hQv, Nat.mod_eq_of_lt c3.2.2]
    have hrfin : Canon w n (if sign w n a then assign w n (n + 1) (twosC w (n + 1) acc') else assign w n (n + 1) acc') ∧
        toNat w (if sign w n a then assign w n (n + 1) (twosC w (n + 1) acc') else assign w n (n + 1) acc') = ofSigned n (Int.tmod x y) := by
      rw [hmodv]
      by_cases hs : sign w n a = true
      · rw [if_pos hs, if_pos hs]
        obtain ⟨hc, hv⟩ := twosC_spec hw hN h64N c1.shape
        obtain ⟨hr, hrv⟩ := assign_spec (n := n) hw hn hN hc
        refine ⟨hr, ?_⟩
        rw [hrv]
        apply ofSigned_congr
        rw [← Int.modEq_iff_dvd]
        have h1 : toSigned (n + 1) (toNat w (twosC w (n + 1) acc')) ≡ -((X % Y : Nat) : Int) [ZMOD M2 (n + 1)] := by
          refine (modEq_toSigned _ _).trans ?_
          rw [hv, hRv]
          exact modEq_neg_nat _ _
        exact (modEq_of_le (by omega) h1).symm
      · rw [if_neg hs, if_neg hs]
        obtain ⟨hr, hrv⟩ := assign_spec (n := n) hw hn hN c1
        refine ⟨hr, ?_⟩
        rw [hrv, Integer.toSigned_small hN (by rw [Nat.add_sub_cancel]; exact hRlt), hRv]
    exact ⟨hqfin.1, hrfin.1, hqfin.2, hrfin.2⟩

/-- `operator/=` / `operator%=` of blockbinary: native division of the exact-fit single block (divisor −1 negated in the block
    type, so most negative / −1 wraps: `Integer.nativeDiv_spec`) or `longdivision` -/
theorem divrem_spec (hw : 0 < w) (hn : 0 < n) (h64 : w ≠ 64 ∨ nrBlocks w n = 1) (h64N : n ≠ w → (w ≠ 64 ∨ nrBlocks w (n + 1) = 1))
    {a b : List Nat} (ha : Canon w n a) (hb : Canon w n b) (hb0 : toNat w b ≠ 0) :
    Canon w n (divrem w n a b false) ∧ Canon w n (divrem w n a b true) ∧
      toNat w (divrem w n a b false) = ofSigned n (Int.tdiv (toInt w n a) (toInt w n b)) ∧
      toNat w (divrem w n a b true) = ofSigned n (Int.tmod (toInt w n a) (toInt w n b)) := by
  have hz : iszero b = false := by
    by_contra h
    exact hb0 (toNat_eq_zero_of_iszero (by simpa using h))
  unfold divrem
  by_cases hnw : n = w
  · subst hnw
    rw [if_pos rfl, if_pos rfl, hz]
    simp only [Bool.false_eq_true, if_false]
    obtain ⟨ea, va⟩ := Integer.single_of_eq ha hw
    obtain ⟨eb, vb⟩ := Integer.single_of_eq hb hw
    have hk : nrBlocks n n = 1 := by unfold nrBlocks; rw [Nat.div_eq_of_lt (by omega)]
    have hmask : msuMask n n = 2 ^ n - 1 := by unfold msuMask surplus; rw [hk]; simp
    have hxlt : blk a 0 < 2 ^ n := by rw [← va]; exact ha.2.2
    have hylt : blk b 0 < 2 ^ n := by rw [← vb]; exact hb.2.2
    have hnone : ∀ rem, nativeDiv n (blk a 0) (blk b 0) rem
        = ofSigned n (if rem then Int.tmod (toInt n n a) (toInt n n b) else Int.tdiv (toInt n n a) (toInt n n b)) := by
      intro rem
      unfold toInt
      rw [Integer.nativeDiv_spec hw hxlt hylt rem, va, vb]
    have hfin : ∀ z : Int, Canon n n [ofSigned n z &&& msuMask n n] ∧ toNat n [ofSigned n z &&& msuMask n n] = ofSigned n z := by
      intro z
      have hlt := ofSigned_lt n z
      have e : ofSigned n z &&& msuMask n n = ofSigned n z := by
        rw [hmask, Nat.and_two_pow_sub_one_eq_mod, Nat.mod_eq_of_lt hlt]
      rw [e]
      refine ⟨⟨by simp [hk], Wf.cons hlt (Wf.nil n), by simp [toNat]; exact hlt⟩, by simp [toNat]⟩
    rw [hnone false, hnone true]
    refine ⟨(hfin _).1, (hfin _).1, ?_, ?_⟩
    · rw [(hfin _).2]; rfl
    · rw [(hfin _).2]; rfl
  · rw [if_neg hnw, if_neg hnw]
    obtain ⟨c1, c2, v1, v2⟩ := longdivision_spec hw hn h64 (h64N hnw) ha hb hb0
    exact ⟨c1, c2, v1, v2⟩

/-- `if (x.isneg()) x.twosComplement()`: the magnitude, when it is representable -/
theorem abs_in_place (hw : 0 < w) (hn : 0 < n) (h64 : w ≠ 64 ∨ nrBlocks w n = 1) {c : List Nat} (hc : Canon w n c)
    (hmin : -(M2 (n - 1)) < toInt w n c) :
    Canon w n (if sign w n c then twosC w n c else c) ∧
    ((toNat w (if sign w n c then twosC w n c else c) : Nat) : Int) = |toInt w n c| ∧
    toInt w n (if sign w n c then twosC w n c else c) = |toInt w n c| := by
  obtain ⟨r1, r2⟩ := toInt_range (w := w) hn c
  have hM : M2 n = 2 * M2 (n - 1) := by
    have := M2_succ (n - 1); rwa [Nat.sub_add_cancel hn] at this
  have hp := M2_pos (n - 1)
  have hP : ((toNat w c : Nat) : Int) ≡ toInt w n c [ZMOD M2 n] := (modEq_toSigned n _).symm
  obtain ⟨pn, pp⟩ := pattern_abs hc.2.2 hP (by omega) (by omega)
  have habs1 : |toInt w n c| < M2 (n - 1) := by rw [abs_lt]; constructor <;> omega
  have habs0 : 0 ≤ |toInt w n c| := abs_nonneg _
  have key : ∀ d : List Nat, Canon w n d → ((toNat w d : Nat) : Int) = |toInt w n c| →
      Canon w n d ∧ ((toNat w d : Nat) : Int) = |toInt w n c| ∧ toInt w n d = |toInt w n c| := by
    intro d hd hv
    refine ⟨hd, hv, ?_⟩
    unfold toInt at *
    have hsm : toNat w d < 2 ^ (n - 1) := by
      have : ((toNat w d : Nat) : Int) < ((2 ^ (n - 1) : Nat) : Int) := by rw [hv]; exact habs1
      exact_mod_cast this
    rw [Integer.toSigned_small hn hsm, hv]
  rw [sign_neg hw hn hc]
  by_cases hx : toInt w n c < 0
  · have hx' : toSigned n (toNat w c) < 0 := hx
    rw [decide_eq_true hx', if_pos rfl]
    obtain ⟨ht, htv⟩ := twosC_spec hw hn h64 hc.shape
    apply key _ ht
    rw [htv, Nat.mod_eq_of_lt hc.2.2, pn hx, abs_of_neg hx]
  · have hx' : ¬ toSigned n (toNat w c) < 0 := hx
    rw [decide_eq_false hx', if_neg (by simp)]
    apply key _ hc
    rw [pp (by omega), abs_of_nonneg (by omega)]

/-- `blockbinary::operator*=` (BLOCKBINARY_FAST_MUL, Signed): the product modulo 2^n -/
theorem mul_spec (hw : 0 < w) (hn : 0 < n) (h64 : w ≠ 64 ∨ nrBlocks w n = 1) {a b : List Nat}
    (ha : Canon w n a) (hb : Canon w n b) :
    Canon w n (mul w n a b) ∧ toNat w (mul w n a b) = (toNat w a * toNat w b) % 2 ^ n := by
  unfold mul
  simp only
  by_cases hk : nrBlocks w n = 1
  · rw [if_pos hk]
    have hsh : Shape w n [(blk a 0 * blk b 0) % 2 ^ w] := ⟨by simp [hk], Wf.cons (Nat.mod_lt _ (Nat.two_pow_pos w)) (Wf.nil w)⟩
    refine ⟨canon_of_mask hw hn hsh, ?_⟩
    rw [toNat_maskMSU hw hn hsh.2 hsh.1]
    conv_rhs => rw [Integer.single_eq ha.1 hk, Integer.single_eq hb.1 hk]
    simp only [toNat, Nat.mul_zero, Nat.add_zero]
    have hd : 2 ^ n ∣ 2 ^ w := by have := pow_dvd_storage hw hn; rwa [hk, Nat.mul_one] at this
    exact Nat.mod_mod_of_dvd _ hd
  · rw [if_neg hk]
    have hw64 : w ≠ 64 := by rcases h64 with h | h; exact h; exact absurd h hk
    have h64N : w ≠ 64 ∨ nrBlocks w (n + 1) = 1 := Or.inl hw64
    have hN : 0 < n + 1 := by omega
    obtain ⟨ca0, va0⟩ := assign_widen (n := n + 1) hw hn (by omega) ha
    obtain ⟨cb0, vb0⟩ := assign_widen (n := n + 1) hw hn (by omega) hb
    obtain ⟨r1, r2⟩ := toInt_range (w := w) hn a
    obtain ⟨s1, s2⟩ := toInt_range (w := w) hn b
    have hM : M2 n = 2 * M2 (n - 1) := by
      have := M2_succ (n - 1); rwa [Nat.sub_add_cancel hn] at this
    have hp := M2_pos (n - 1)
    obtain ⟨cA, vA, _⟩ := abs_in_place hw hN h64N ca0 (by rw [va0, Nat.add_sub_cancel]; omega)
    obtain ⟨cB, vB, _⟩ := abs_in_place hw hN h64N cb0 (by rw [vb0, Nat.add_sub_cancel]; omega)
    rw [va0] at vA
    rw [vb0] at vB
    have hsa : sign w (n + 1) (assign w (n + 1) n a) = decide (toInt w n a < 0) := by
      rw [sign_neg hw hN ca0]
      have : toSigned (n + 1) (toNat w (assign w (n + 1) n a)) = toInt w n a := va0
      rw [this]
    have hsb : sign w (n + 1) (assign w (n + 1) n b) = decide (toInt w n b < 0) := by
      rw [sign_neg hw hN cb0]
      have : toSigned (n + 1) (toNat w (assign w (n + 1) n b)) = toInt w n b := vb0
      rw [this]
    rw [hsa] at cA vA
    rw [hsb] at cB vB
    rw [hsa, hsb]
    generalize hx : toInt w n a = x at *
    generalize hy : toInt w n b = y at *
    generalize hA' : (if decide (x < 0) = true then twosC w (n + 1) (assign w (n + 1) n a) else assign w (n + 1) n a) = A' at *
    generalize hB' : (if decide (y < 0) = true then twosC w (n + 1) (assign w (n + 1) n b) else assign w (n + 1) n b) = B' at *
    have hasl : (A'.take (nrBlocks w n)).length = nrBlocks w n := by
      rw [List.length_take, cA.1]; exact Nat.min_eq_left (nrBlocks_mono (by omega))
    have hasv : toNat w (A'.take (nrBlocks w n)) = toNat w A' % 2 ^ (w * nrBlocks w n) := toNat_take cA.2.1 _
    set r := mulLoop w (A'.take (nrBlocks w n)) B' (zeros (nrBlocks w n)) with hr
    have hzl := zeros_length (nrBlocks w n)
    have hrl : r.length = nrBlocks w n := by rw [hr, mulLoop_length _ _ _ _ (by rw [hasl, hzl]), hzl]
    have hrw : Wf w r := mulLoop_wf _ _ (zeros_wf w _)
    have hrv : toNat w r = (toNat w (A'.take (nrBlocks w n)) * toNat w B' + 0) % 2 ^ (w * nrBlocks w n) := by
      rw [hr, toNat_mulLoop w _ B' _ (by rw [hasl, hzl]) (by rw [hzl, cB.1]; exact nrBlocks_mono (by omega)) (zeros_wf w _),
        toNat_zeros, hzl]
    have hshr : Shape w n r := ⟨hrl, hrw⟩
    have hle := nrBlocks_hi hw hn
    have hRmod : ((toNat w r : Nat) : Int) ≡ |x| * |y| [ZMOD M2 n] := by
      rw [hrv, Nat.add_zero]
      refine (modEq_of_le hle (modEq_natMod _ _)).trans ?_
      push_cast
      rw [hasv]
      refine Int.ModEq.mul ?_ (by rw [vB])
      rw [← vA]
      exact modEq_of_le hle (modEq_natMod _ _)
    have hfinal : ∀ (r' : List Nat), Shape w n r' → ((toNat w r' : Nat) : Int) ≡ x * y [ZMOD M2 n] →
        Canon w n (maskMSU w n r') ∧ toNat w (maskMSU w n r') = (toNat w a * toNat w b) % 2 ^ n := by
      intro r' hs hm
      have hc := canon_of_mask hw hn hs
      refine ⟨hc, ?_⟩
      have h1 : ((toNat w (maskMSU w n r') : Nat) : Int) ≡ x * y [ZMOD M2 n] := by
        rw [toNat_maskMSU hw hn hs.2 hs.1]
        exact (modEq_natMod _ _).trans hm
      rw [eq_ofSigned_of_modEq hc.2.2 h1, ← hx, ← hy]
      unfold toInt
      rw [ofSigned_mul]
    rw [Integer.abs_mul_sign] at hRmod
    by_cases hsg : (decide (x < 0) != decide (y < 0)) = true
    · rw [if_pos hsg] at hRmod ⊢
      obtain ⟨ht, htv⟩ := twosC_spec hw hn h64 hshr
      apply hfinal _ ht.shape
      rw [htv]
      refine (modEq_neg_nat _ _).trans ?_
      have := hRmod.neg
      simpa using this
    · rw [if_neg hsg] at hRmod ⊢
      exact hfinal _ hshr hRmod

end UVerif.Limbs.BB
