/-
  Bit-level lemmas about limb lists: bit i of the value = bit (i % w) of limb (i / w); setbit / setRange.
-/
import UVerifProofs.Lemmas.Limbs
import UVerifProofs.Lemmas.Signed

namespace UVerif.Limbs

/-! ### bits of a limb list -/

theorem blk_nil (i : Nat) : blk [] i = 0 := by simp [blk]
theorem blk_cons_zero (x : Nat) (xs : List Nat) : blk (x :: xs) 0 = x := by simp [blk]
theorem blk_cons_succ (x : Nat) (xs : List Nat) (i : Nat) : blk (x :: xs) (i + 1) = blk xs i := by simp [blk]

/-- bit `i` of the value is bit `i % w` of limb `i / w` -/
theorem testBit_toNat {w : Nat} (hw : 0 < w) : ∀ {l : List Nat}, Wf w l → ∀ i,
    (toNat w l).testBit i = (blk l (i / w)).testBit (i % w)
  | [], _, i => by simp [toNat, blk_nil]
  | x :: xs, h, i => by
    have ih := testBit_toNat hw h.tail
    rw [toNat, Nat.add_comm, Nat.testBit_two_pow_mul_add _ h.head]
    by_cases hi : i < w
    · rw [if_pos hi, Nat.div_eq_of_lt hi, Nat.mod_eq_of_lt hi, blk_cons_zero]
    · rw [if_neg hi, ih (i - w)]
      have hge : w ≤ i := Nat.le_of_not_lt hi
      have h1 : i / w = (i - w) / w + 1 := by
        conv_lhs => rw [show i = (i - w) + w by omega]
        rw [Nat.add_div_right _ hw]
      have h2 : i % w = (i - w) % w := by
        conv_lhs => rw [show i = (i - w) + w by omega]
        rw [Nat.add_mod_right]
      rw [h1, h2, blk_cons_succ]

theorem blk_lt {w : Nat} {l : List Nat} (h : Wf w l) (i : Nat) : blk l i < 2 ^ w := by
  unfold blk
  rw [List.getD_eq_getElem?_getD]
  cases hq : l[i]? with
  | none => simp [Nat.two_pow_pos]
  | some x => simp; exact h x (List.mem_of_getElem? hq)

theorem blk_of_ge {l : List Nat} {i : Nat} (h : l.length ≤ i) : blk l i = 0 := by
  unfold blk; rw [List.getD_eq_getElem?_getD, List.getElem?_eq_none h]; rfl

/-- two well-formed lists of the same length with the same limbs are equal -/
theorem ext_blk : ∀ {a b : List Nat}, a.length = b.length → (∀ i, blk a i = blk b i) → a = b
  | [], [], _, _ => rfl
  | x :: xs, y :: ys, hl, h => by
    have h0 := h 0
    rw [blk_cons_zero, blk_cons_zero] at h0
    have : xs = ys := ext_blk (by simpa using hl) (fun i => by have := h (i + 1); rwa [blk_cons_succ, blk_cons_succ] at this)
    rw [h0, this]
  | [], _ :: _, hl, _ => by simp at hl
  | _ :: _, [], hl, _ => by simp at hl

/-- the value determines the list (given shape) -/
theorem toNat_inj {w : Nat} : ∀ {a b : List Nat}, Wf w a → Wf w b → a.length = b.length → toNat w a = toNat w b → a = b
  | [], [], _, _, _, _ => rfl
  | x :: xs, y :: ys, ha, hb, hl, h => by
    simp only [toNat] at h
    have hx := ha.head
    have hy := hb.head
    have h1 : x = y := by
      have := congrArg (· % 2 ^ w) h
      simp only [Nat.add_mul_mod_self_left, Nat.mod_eq_of_lt hx, Nat.mod_eq_of_lt hy] at this
      exact this
    subst h1
    have h2 : toNat w xs = toNat w ys := by
      have := Nat.add_left_cancel h
      exact Nat.eq_of_mul_eq_mul_left (Nat.two_pow_pos w) this
    rw [toNat_inj ha.tail hb.tail (by simpa using hl) h2]
  | [], _ :: _, _, _, hl, _ => by simp at hl
  | _ :: _, [], _, _, hl, _ => by simp at hl

/-! ### setbit -/

theorem setbit_length (w : Nat) (l : List Nat) (i : Nat) (v : Bool) : (setbit w l i v).length = l.length := by
  unfold setbit
  simp only
  split <;> simp

theorem blk_set (l : List Nat) (i j x : Nat) (hi : i < l.length) : blk (l.set i x) j = if j = i then x else blk l j := by
  unfold blk
  rw [List.getD_eq_getElem?_getD, List.getD_eq_getElem?_getD, List.getElem?_set]
  by_cases h : i = j
  · subst h; simp [hi]
  · rw [if_neg h, if_neg (Ne.symm h)]

theorem limb_setbit_testBit (x m : Nat) (v : Bool) (j : Nat) :
    ((x ^^^ (x &&& 2 ^ m)) ||| (if v then 2 ^ m else 0)).testBit j = if j = m then v else x.testBit j := by
  rw [Nat.testBit_or, Nat.testBit_xor, Nat.testBit_and, Nat.testBit_two_pow]
  by_cases h : j = m
  · subst h
    cases v <;> simp [Nat.testBit_two_pow]
  · have h' : ¬ m = j := fun e => h e.symm
    cases v <;> simp [h, h', Nat.testBit_two_pow]

theorem limb_setbit_lt {w x m : Nat} (hx : x < 2 ^ w) (hm : m < w) (v : Bool) :
    ((x ^^^ (x &&& 2 ^ m)) ||| (if v then 2 ^ m else 0)) < 2 ^ w := by
  apply Nat.lt_pow_two_of_testBit
  intro j hj
  rw [limb_setbit_testBit]
  have : j ≠ m := by omega
  rw [if_neg this]
  exact Nat.testBit_lt_two_pow (Nat.lt_of_lt_of_le hx (Nat.pow_le_pow_right (by omega) hj))

theorem setbit_wf {w : Nat} (hw : 0 < w) {l : List Nat} (h : Wf w l) (i : Nat) (v : Bool) : Wf w (setbit w l i v) := by
  unfold setbit
  simp only
  split
  · intro y hy
    rcases List.mem_or_eq_of_mem_set hy with hy | rfl
    · exact h y hy
    · exact limb_setbit_lt (blk_lt h _) (Nat.mod_lt _ hw) v
  · exact h

/-- `setbit(i, v)` writes bit `i` and nothing else (when the block exists) -/
theorem testBit_setbit {w : Nat} (hw : 0 < w) {l : List Nat} (h : Wf w l) (i : Nat) (v : Bool) (hi : i / w < l.length) (j : Nat) :
    (toNat w (setbit w l i v)).testBit j = if j = i then v else (toNat w l).testBit j := by
  rw [testBit_toNat hw (setbit_wf hw h i v), testBit_toNat hw h]
  unfold setbit
  simp only
  rw [if_pos hi, blk_set _ _ _ _ hi]
  by_cases hq : j / w = i / w
  · rw [if_pos hq, limb_setbit_testBit, hq]
    by_cases hr : j % w = i % w
    · have : j = i := by
        have h1 := Nat.div_add_mod j w
        have h2 := Nat.div_add_mod i w
        rw [hq, hr] at h1; omega
      rw [if_pos hr, if_pos this]
    · have : j ≠ i := fun e => hr (by rw [e])
      rw [if_neg hr, if_neg this]
  · have : j ≠ i := fun e => hq (by rw [e])
    rw [if_neg hq, if_neg this]

theorem setbit_of_ge {w : Nat} {l : List Nat} {i : Nat} (v : Bool) (hi : l.length ≤ i / w) : setbit w l i v = l := by
  unfold setbit; simp only; rw [if_neg (by omega)]

/-! ### setRange -/

theorem setRange_eq_foldl (w : Nat) (l : List Nat) (lo hi : Nat) (v : Bool) :
    setRange w l lo hi v = (List.range' lo (hi - lo)).foldl (fun l i => setbit w l i v) l := rfl

theorem foldl_setbit_props {w : Nat} (hw : 0 < w) (v : Bool) : ∀ (m lo : Nat) {l : List Nat}, Wf w l → lo + m ≤ w * l.length →
    let r := (List.range' lo m).foldl (fun l i => setbit w l i v) l
    r.length = l.length ∧ Wf w r ∧ ∀ j, (toNat w r).testBit j = if lo ≤ j ∧ j < lo + m then v else (toNat w l).testBit j
  | 0, lo, l, h, _ => by
    refine ⟨rfl, h, fun j => ?_⟩
    have : ¬ (lo ≤ j ∧ j < lo + 0) := by omega
    simp [List.range', this]
  | m + 1, lo, l, h, hb => by
    have hlo : lo / w < l.length := by
      apply Nat.div_lt_of_lt_mul; omega
    have hl' := setbit_length w l lo v
    have hw' := setbit_wf hw h lo v
    have ih := foldl_setbit_props hw v m (lo + 1) (l := setbit w l lo v) hw' (by rw [hl']; omega)
    simp only [List.range', List.foldl_cons] at ih ⊢
    obtain ⟨i1, i2, i3⟩ := ih
    refine ⟨by rw [i1, hl'], i2, fun j => ?_⟩
    rw [i3 j, testBit_setbit hw h lo v hlo]
    by_cases hj : j = lo
    · subst hj
      have h1 : ¬ (j + 1 ≤ j ∧ j < j + 1 + m) := by omega
      have h2 : j ≤ j ∧ j < j + (m + 1) := by omega
      rw [if_neg h1, if_pos rfl, if_pos h2]
    · rw [if_neg hj]
      by_cases hr : lo + 1 ≤ j ∧ j < lo + 1 + m
      · rw [if_pos hr, if_pos (by omega)]
      · rw [if_neg hr, if_neg (by omega)]

theorem setRange_props {w : Nat} (hw : 0 < w) {l : List Nat} (h : Wf w l) (lo hi : Nat) (v : Bool) (hlo : lo ≤ hi) (hhi : hi ≤ w * l.length) :
    (setRange w l lo hi v).length = l.length ∧ Wf w (setRange w l lo hi v) ∧
    ∀ j, (toNat w (setRange w l lo hi v)).testBit j = if lo ≤ j ∧ j < hi then v else (toNat w l).testBit j := by
  have := foldl_setbit_props hw v (hi - lo) lo h (by omega)
  simp only at this
  rw [show lo + (hi - lo) = hi by omega] at this
  exact this

/-! ### sign bit and sign extension -/

/-- for a value below 2^n, bit n-1 says whether it is in the upper half -/
theorem testBit_top {n A : Nat} (hn : 0 < n) (hA : A < 2 ^ n) : A.testBit (n - 1) = decide (2 ^ (n - 1) ≤ A) := by
  have hp : 2 ^ n = 2 ^ (n - 1) * 2 := by rw [← Nat.pow_succ]; congr 1; omega
  rw [Nat.testBit_eq_decide_div_mod_eq]
  have hq : A / 2 ^ (n - 1) < 2 := Nat.div_lt_of_lt_mul (by rw [hp] at hA; exact hA)
  by_cases h : 2 ^ (n - 1) ≤ A
  · have : 1 ≤ A / 2 ^ (n - 1) := (Nat.le_div_iff_mul_le (Nat.two_pow_pos _)).mpr (by omega)
    have e : A / 2 ^ (n - 1) = 1 := by omega
    simp [h, e]
  · have e : A / 2 ^ (n - 1) = 0 := Nat.div_eq_of_lt (by omega)
    simp [h, e]

theorem toSigned_of_lt {n A : Nat} (hn : 0 < n) (hA : A < 2 ^ n) :
    toSigned n A = if A < 2 ^ (n - 1) then (A : Int) else (A : Int) - ((2 ^ n : Nat) : Int) := by
  unfold toSigned
  rw [if_neg (by omega), Nat.mod_eq_of_lt hA]

/-- bits of the sign-extended pattern: `ofSigned m (toSigned n A)` for m ≥ n -/
theorem testBit_signext {n m A : Nat} (hn : 0 < n) (hm : n ≤ m) (hA : A < 2 ^ n) (j : Nat) :
    (ofSigned m (toSigned n A)).testBit j = if j < n then A.testBit j else (decide (j < m) && A.testBit (n - 1)) := by
  rw [toSigned_of_lt hn hA, testBit_top hn hA]
  have hle : 2 ^ n ≤ 2 ^ m := Nat.pow_le_pow_right (by omega) hm
  by_cases hs : A < 2 ^ (n - 1)
  · rw [if_pos hs, ofSigned_natCast, Nat.mod_eq_of_lt (by omega)]
    have : decide (2 ^ (n - 1) ≤ A) = false := by simp; omega
    rw [this, Bool.and_false]
    by_cases hj : j < n
    · rw [if_pos hj]
    · rw [if_neg hj]
      exact Nat.testBit_lt_two_pow (Nat.lt_of_lt_of_le hA (Nat.pow_le_pow_right (by omega) (by omega)))
  · rw [if_neg hs]
    have e : ofSigned m ((A : Int) - ((2 ^ n : Nat) : Int)) = 2 ^ n * (2 ^ (m - n) - 1) + A := by
      have hpm : 2 ^ m = 2 ^ n * 2 ^ (m - n) := by rw [← Nat.pow_add]; congr 1; omega
      have h1 := Nat.two_pow_pos (m - n)
      have hval : 2 ^ n * (2 ^ (m - n) - 1) + A < 2 ^ m := by
        rw [hpm, Nat.mul_sub, Nat.mul_one]
        have : 2 ^ n ≤ 2 ^ n * 2 ^ (m - n) := Nat.le_mul_of_pos_right _ h1
        omega
      rw [← Nat.mod_eq_of_lt hval, ← ofSigned_natCast]
      apply ofSigned_congr
      refine ⟨-1, ?_⟩
      rw [hpm]
      push_cast [Nat.cast_sub h1]
      ring
    rw [e, Nat.testBit_two_pow_mul_add _ hA, Nat.testBit_two_pow_sub_one]
    have : decide (2 ^ (n - 1) ≤ A) = true := by simp; omega
    rw [this, Bool.and_true]
    by_cases hj : j < n
    · rw [if_pos hj, if_pos hj]
    · rw [if_neg hj, if_neg hj]
      congr 1
      simp only [eq_iff_iff]; omega

theorem blk_map_range (f : Nat → Nat) (k q : Nat) : blk ((List.range k).map f) q = if q < k then f q else 0 := by
  unfold blk
  rw [List.getD_eq_getElem?_getD]
  by_cases h : q < k
  · rw [if_pos h, List.getElem?_map, List.getElem?_range h]; rfl
  · rw [if_neg h, List.getElem?_eq_none (by simp; omega)]; rfl

theorem mapRange_wf {w : Nat} {a : List Nat} (ha : Wf w a) (k : Nat) : Wf w ((List.range k).map (fun i => blk a i)) := by
  intro x hx
  simp only [List.mem_map] at hx
  obtain ⟨i, _, rfl⟩ := hx
  exact blk_lt ha i

/-- copying the first `k` blocks (zero beyond the source) keeps the value modulo 2^(w·k) -/
theorem toNat_mapRange {w : Nat} (hw : 0 < w) {a : List Nat} (ha : Wf w a) (k : Nat) :
    toNat w ((List.range k).map (fun i => blk a i)) = toNat w a % 2 ^ (w * k) := by
  apply Nat.eq_of_testBit_eq
  intro j
  rw [testBit_toNat hw (mapRange_wf ha k), Nat.testBit_mod_two_pow, testBit_toNat hw ha, blk_map_range]
  have : j / w < k ↔ j < w * k := by rw [Nat.div_lt_iff_lt_mul hw, Nat.mul_comm]
  by_cases h : j / w < k
  · rw [if_pos h]; simp [this.mp h]
  · have hn' : ¬ j < w * k := fun h' => h (this.mpr h')
    rw [if_neg h]; simp [hn']

theorem ofSigned_toSigned_narrow {n m : Nat} (h : n ≤ m) (A : Nat) : ofSigned n (toSigned m A) = A % 2 ^ n := by
  rw [← ofSigned_natCast]
  apply ofSigned_congr
  obtain ⟨k, hk⟩ := toSigned_decomp m A
  obtain ⟨q, hq⟩ := natCast_mod_decomp A (2 ^ m)
  obtain ⟨d, hd⟩ := Nat.pow_dvd_pow 2 h
  refine ⟨(k - q) * d, ?_⟩
  rw [hk, hq, hd]; push_cast; ring

theorem canon_of_eq_ofSigned {w n : Nat} {l : List Nat} {x : Int} (hl : l.length = nrBlocks w n) (hwf : Wf w l)
    (h : toNat w l = ofSigned n x) : Canon w n l := ⟨hl, hwf, by rw [h]; exact ofSigned_lt n x⟩

/-! ### schoolbook product -/

theorem mulRow_length (w ai : Nat) : ∀ (seg : Nat) (bs rs : List Nat), (mulRow w ai seg bs rs).length = rs.length
  | _, [], rs => by cases rs <;> simp [mulRow]
  | _, _ :: _, [] => by simp [mulRow]
  | seg, b :: bs, r :: rs => by simp [mulRow, mulRow_length w ai _ bs rs]

theorem mulRow_wf {w : Nat} (ai : Nat) : ∀ (seg : Nat) (bs : List Nat) {rs : List Nat}, Wf w rs → Wf w (mulRow w ai seg bs rs)
  | _, [], rs, h => by cases rs <;> simpa [mulRow] using h
  | _, _ :: _, [], _ => by simp [mulRow]; exact Wf.nil w
  | seg, b :: bs, r :: rs, h => by
    simp only [mulRow]
    exact Wf.cons (Nat.mod_lt _ (Nat.two_pow_pos w)) (mulRow_wf ai _ bs h.tail)

/-- one row: `seg + a_i · B + R` modulo the width of the accumulator part -/
theorem toNat_mulRow (w ai : Nat) : ∀ (seg : Nat) (bs rs : List Nat), rs.length ≤ bs.length →
    toNat w (mulRow w ai seg bs rs) = (seg + ai * toNat w bs + toNat w rs) % 2 ^ (w * rs.length)
  | seg, [], [], _ => by simp [mulRow, toNat, Nat.mod_one]
  | seg, _ :: _, [], _ => by simp [mulRow, toNat, Nat.mod_one]
  | seg, [], _ :: _, h => by simp at h
  | seg, b :: bs, r :: rs, h => by
    have hl : rs.length ≤ bs.length := by simpa using h
    have ih := toNat_mulRow w ai ((seg + ai * b + r) / 2 ^ w) bs rs hl
    show (seg + ai * b + r) % 2 ^ w + 2 ^ w * toNat w (mulRow w ai ((seg + ai * b + r) / 2 ^ w) bs rs)
      = (seg + ai * (b + 2 ^ w * toNat w bs) + (r + 2 ^ w * toNat w rs)) % 2 ^ (w * (rs.length + 1))
    have : seg + ai * (b + 2 ^ w * toNat w bs) + (r + 2 ^ w * toNat w rs)
        = (seg + ai * b + r) + 2 ^ w * (ai * toNat w bs + toNat w rs) := by ring
    rw [ih, Nat.mul_succ, Nat.add_comm (w * rs.length) w, Nat.pow_add, this, mod_split _ _ _ _ (Nat.two_pow_pos w)]
    congr 2
    ring_nf

theorem mulLoop_length (w : Nat) : ∀ (as bs acc : List Nat), as.length = acc.length → (mulLoop w as bs acc).length = acc.length
  | [], _, acc, _ => by simp [mulLoop]
  | _ :: _, _, [], _ => by simp [mulLoop]
  | a :: as, bs, r :: rs, h => by
    have hl : as.length = rs.length := by simpa using h
    have hr := mulRow_length w a 0 bs (r :: rs)
    simp only [mulLoop]
    match hm : mulRow w a 0 bs (r :: rs) with
    | [] => rw [hm] at hr; simp at hr
    | r0 :: rt =>
      rw [hm] at hr
      have : rt.length = rs.length := by simpa using hr
      simp [mulLoop_length w as bs rt (by omega), this]

theorem mulLoop_wf {w : Nat} : ∀ (as bs : List Nat) {acc : List Nat}, Wf w acc → Wf w (mulLoop w as bs acc)
  | [], _, acc, h => by simpa [mulLoop] using h
  | _ :: _, _, [], _ => by simp [mulLoop]; exact Wf.nil w
  | a :: as, bs, r :: rs, h => by
    have hr := mulRow_wf (w := w) a 0 bs h
    simp only [mulLoop]
    match hm : mulRow w a 0 bs (r :: rs) with
    | [] => exact Wf.nil w
    | r0 :: rt =>
      rw [hm] at hr
      exact Wf.cons hr.head (mulLoop_wf as bs hr.tail)

/-- the double loop: `A · B + ACC` modulo the width of the accumulator -/
theorem toNat_mulLoop (w : Nat) : ∀ (as bs acc : List Nat), as.length = acc.length → acc.length ≤ bs.length → Wf w acc →
    toNat w (mulLoop w as bs acc) = (toNat w as * toNat w bs + toNat w acc) % 2 ^ (w * acc.length)
  | [], _, [], _, _, _ => by simp [mulLoop, toNat, Nat.mod_one]
  | [], _, _ :: _, h, _, _ => by simp at h
  | _ :: _, _, [], h, _, _ => by simp at h
  | a :: as, bs, r :: rs, h, hb, hwf => by
    have hl : as.length = rs.length := by simpa using h
    have hrl := mulRow_length w a 0 bs (r :: rs)
    have hrv := toNat_mulRow w a 0 bs (r :: rs) hb
    have hrw := mulRow_wf (w := w) a 0 bs hwf
    simp only [mulLoop]
    match hm : mulRow w a 0 bs (r :: rs) with
    | [] => rw [hm] at hrl; simp at hrl
    | r0 :: rt =>
      rw [hm] at hrl hrv hrw
      have hrt : rt.length = rs.length := by simpa using hrl
      have ih := toNat_mulLoop w as bs rt (by omega) (by rw [hrt]; simp at hb; omega) hrw.tail
      simp only [toNat, ih, hrt, List.length_cons, Nat.mul_add, Nat.mul_one] at hrv ⊢
      rw [Nat.add_comm (w * rs.length) w, Nat.pow_add] at hrv ⊢
      -- r0 + W·RT = (a·B + R) mod (W·M);  goal: r0 + W·((AS·B + RT) mod M) = ((a + W·AS)·B + R) mod (W·M)
      have hr0 := hrw.head
      have e1 : (a + 2 ^ w * toNat w as) * toNat w bs + (r + 2 ^ w * toNat w rs)
          = (0 + a * toNat w bs + (r + 2 ^ w * toNat w rs)) + 2 ^ w * (2 ^ (w * rs.length) * 0 + toNat w as * toNat w bs) := by ring
      have hM := Nat.two_pow_pos (w * rs.length)
      have hW := Nat.two_pow_pos w
      generalize 0 + a * toNat w bs + (r + 2 ^ w * toNat w rs) = X at hrv e1
      rw [e1]
      -- X mod (W M) = r0 + W RT, so X = r0 + W RT + W M q
      have hX := Nat.div_add_mod X (2 ^ w * 2 ^ (w * rs.length))
      rw [← hrv] at hX
      generalize X / (2 ^ w * 2 ^ (w * rs.length)) = q at hX
      rw [← hX]
      have e2 : 2 ^ w * 2 ^ (w * rs.length) * q + (r0 + 2 ^ w * toNat w rt) + 2 ^ w * (2 ^ (w * rs.length) * 0 + toNat w as * toNat w bs)
          = r0 + 2 ^ w * ((toNat w as * toNat w bs + toNat w rt) + 2 ^ (w * rs.length) * q) := by ring
      rw [e2, mod_split _ _ _ _ hW, Nat.mod_eq_of_lt hr0, Nat.div_eq_of_lt hr0, Nat.zero_add, Nat.add_mul_mod_self_left]

theorem nrBlocks_mono {w : Nat} {n m : Nat} (h : n ≤ m) : nrBlocks w n ≤ nrBlocks w m := by
  unfold nrBlocks
  have : (n - 1) / w ≤ (m - 1) / w := Nat.div_le_div_right (by omega)
  omega

theorem toNat_zeros (w k : Nat) : toNat w (zeros k) = 0 := by
  induction k with
  | zero => rfl
  | succ k ih => simp only [zeros, List.replicate_succ, toNat] at ih ⊢; rw [ih]; simp

theorem zeros_wf (w k : Nat) : Wf w (zeros k) := by
  intro x hx
  simp only [zeros, List.mem_replicate] at hx
  rw [hx.2]; exact Nat.two_pow_pos w

theorem zeros_length (k : Nat) : (zeros k).length = k := by simp [zeros]

theorem modEq_neg_nat (R n : Nat) : (((2 ^ n - R % 2 ^ n) % 2 ^ n : Nat) : Int) ≡ -(R : Int) [ZMOD M2 n] := by
  have hle : R % 2 ^ n ≤ 2 ^ n := le_of_lt (Nat.mod_lt _ (Nat.two_pow_pos n))
  refine (modEq_natMod _ n).trans ?_
  rw [Nat.cast_sub hle]
  have h1 := modEq_natMod R n
  have h2 : (((2 ^ n : Nat) : Int)) ≡ 0 [ZMOD M2 n] := by
    rw [Int.modEq_iff_dvd]; exact ⟨-1, by unfold M2; ring⟩
  have := h2.sub h1
  simpa using this

/-! ### limb-wise bit operators -/

theorem blk_zipWith (f : Nat → Nat → Nat) (hf0 : f 0 0 = 0) : ∀ (a b : List Nat), a.length = b.length → ∀ q,
    blk (List.zipWith f a b) q = f (blk a q) (blk b q)
  | [], [], _, q => by simp [blk_nil, hf0]
  | x :: xs, y :: ys, h, 0 => by simp [blk_cons_zero]
  | x :: xs, y :: ys, h, q + 1 => by
    simp only [List.zipWith_cons_cons, blk_cons_succ]
    exact blk_zipWith f hf0 xs ys (by simpa using h) q
  | [], _ :: _, h, _ => by simp at h
  | _ :: _, [], h, _ => by simp at h

theorem bitop_zero {f : Nat → Nat → Nat} {g : Bool → Bool → Bool}
    (hf : ∀ x y i, (f x y).testBit i = g (x.testBit i) (y.testBit i)) (hg : g false false = false) : f 0 0 = 0 := by
  apply Nat.eq_of_testBit_eq
  intro i
  rw [hf]; simp [hg]

theorem bitop_lt {w : Nat} {f : Nat → Nat → Nat} {g : Bool → Bool → Bool}
    (hf : ∀ x y i, (f x y).testBit i = g (x.testBit i) (y.testBit i)) (hg : g false false = false)
    {x y : Nat} (hx : x < 2 ^ w) (hy : y < 2 ^ w) : f x y < 2 ^ w := by
  apply Nat.lt_pow_two_of_testBit
  intro i hi
  have hp : 2 ^ w ≤ 2 ^ i := Nat.pow_le_pow_right (by omega) hi
  rw [hf, Nat.testBit_lt_two_pow (Nat.lt_of_lt_of_le hx hp), Nat.testBit_lt_two_pow (Nat.lt_of_lt_of_le hy hp), hg]

theorem zipWith_wf {w : Nat} {f : Nat → Nat → Nat} {g : Bool → Bool → Bool}
    (hf : ∀ x y i, (f x y).testBit i = g (x.testBit i) (y.testBit i)) (hg : g false false = false) :
    ∀ {a b : List Nat}, Wf w a → Wf w b → Wf w (List.zipWith f a b)
  | [], _, _, _ => by simp; exact Wf.nil w
  | _ :: _, [], _, _ => by simp; exact Wf.nil w
  | x :: xs, y :: ys, ha, hb => by
    simp only [List.zipWith_cons_cons]
    exact Wf.cons (bitop_lt hf hg ha.head hb.head) (zipWith_wf hf hg ha.tail hb.tail)

/-- a limb-wise bit operator is the bit operator on the values -/
theorem toNat_zipWith {w : Nat} (hw : 0 < w) {f : Nat → Nat → Nat} {g : Bool → Bool → Bool}
    (hf : ∀ x y i, (f x y).testBit i = g (x.testBit i) (y.testBit i)) (hg : g false false = false)
    {a b : List Nat} (ha : Wf w a) (hb : Wf w b) (hl : a.length = b.length) :
    toNat w (List.zipWith f a b) = f (toNat w a) (toNat w b) := by
  apply Nat.eq_of_testBit_eq
  intro i
  rw [testBit_toNat hw (zipWith_wf hf hg ha hb), blk_zipWith f (bitop_zero hf hg) a b hl, hf, hf,
    testBit_toNat hw ha, testBit_toNat hw hb]

/-! ### take / drop / block shifts -/

theorem Wf.take {w : Nat} {l : List Nat} (h : Wf w l) (m : Nat) : Wf w (l.take m) :=
  fun x hx => h x (List.mem_of_mem_take hx)
theorem Wf.drop {w : Nat} {l : List Nat} (h : Wf w l) (m : Nat) : Wf w (l.drop m) :=
  fun x hx => h x (List.mem_of_mem_drop hx)
theorem Wf.append {w : Nat} {a b : List Nat} (ha : Wf w a) (hb : Wf w b) : Wf w (a ++ b) := by
  intro x hx
  rcases List.mem_append.mp hx with h | h
  · exact ha x h
  · exact hb x h

theorem toNat_take {w : Nat} : ∀ {l : List Nat}, Wf w l → ∀ m, toNat w (l.take m) = toNat w l % 2 ^ (w * m)
  | [], _, m => by simp [toNat]
  | x :: xs, h, 0 => by simp [toNat, Nat.mod_one]
  | x :: xs, h, m + 1 => by
    have ih := toNat_take h.tail m
    have hx := h.head
    show x + 2 ^ w * toNat w (xs.take m) = (x + 2 ^ w * toNat w xs) % 2 ^ (w * (m + 1))
    rw [ih, Nat.mul_succ, Nat.add_comm (w * m) w, Nat.pow_add, mod_split _ _ _ _ (Nat.two_pow_pos w),
      Nat.mod_eq_of_lt hx, Nat.div_eq_of_lt hx, Nat.zero_add]

theorem toNat_drop {w : Nat} : ∀ {l : List Nat}, Wf w l → ∀ m, toNat w (l.drop m) = toNat w l / 2 ^ (w * m)
  | [], _, m => by simp [toNat]
  | x :: xs, h, 0 => by simp
  | x :: xs, h, m + 1 => by
    have ih := toNat_drop h.tail m
    have hx := h.head
    show toNat w (xs.drop m) = (x + 2 ^ w * toNat w xs) / 2 ^ (w * (m + 1))
    rw [ih, Nat.mul_succ, Nat.add_comm (w * m) w, Nat.pow_add, ← Nat.div_div_eq_div_mul,
      Nat.add_mul_div_left _ _ (Nat.two_pow_pos w), Nat.div_eq_of_lt hx, Nat.zero_add]

theorem toNat_zeros_append (w m : Nat) (l : List Nat) : toNat w (zeros m ++ l) = 2 ^ (w * m) * toNat w l := by
  rw [toNat_append, toNat_zeros, zeros_length, Nat.zero_add]

theorem shlBlocks_length (l : List Nat) (bs : Nat) : (shlBlocks l bs).length = l.length := by
  unfold shlBlocks; simp [zeros]

theorem shlBlocks_wf {w : Nat} {l : List Nat} (h : Wf w l) (bs : Nat) : Wf w (shlBlocks l bs) :=
  ((zeros_wf w bs).append h).take _

/-- shifting left by whole blocks multiplies by 2^(w·bs), modulo the storage -/
theorem toNat_shlBlocks {w : Nat} {l : List Nat} (h : Wf w l) (bs : Nat) :
    toNat w (shlBlocks l bs) = (toNat w l * 2 ^ (w * bs)) % 2 ^ (w * l.length) := by
  unfold shlBlocks
  rw [toNat_take ((zeros_wf w bs).append h), toNat_zeros_append, Nat.mul_comm]

/-! ### bit shifts inside the limbs -/

theorem shlBits_length (w s : Nat) : ∀ (prev : Nat) (l : List Nat), (shlBits w s prev l).length = l.length
  | _, [] => rfl
  | prev, x :: xs => by simp [shlBits, shlBits_length w s x xs]

theorem limb_shl_eq {w s x c : Nat} (hs : s ≤ w) (hc : c < 2 ^ s) :
    ((x * 2 ^ s) % 2 ^ w ||| c) = 2 ^ s * (x % 2 ^ (w - s)) + c := by
  have hp : 2 ^ w = 2 ^ s * 2 ^ (w - s) := by rw [← Nat.pow_add]; congr 1; omega
  rw [hp, Nat.mul_comm x, Nat.mul_mod_mul_left, Nat.two_pow_add_eq_or_of_lt hc]

theorem shlBits_wf {w s : Nat} (hs0 : 0 < s) (hs : s < w) : ∀ (prev : Nat) (l : List Nat), prev < 2 ^ w → Wf w l → Wf w (shlBits w s prev l)
  | _, [], _, _ => Wf.nil w
  | prev, x :: xs, hp, h => by
    have hx := h.head
    have hc : prev / 2 ^ (w - s) < 2 ^ s := by
      apply Nat.div_lt_of_lt_mul
      rw [← Nat.pow_add]; rwa [show w - s + s = w by omega]
    simp only [shlBits]
    refine Wf.cons ?_ (shlBits_wf hs0 hs x xs hx h.tail)
    rw [limb_shl_eq (le_of_lt hs) hc]
    have hpw : 2 ^ w = 2 ^ s * 2 ^ (w - s) := by rw [← Nat.pow_add]; congr 1; omega
    have := Nat.mod_lt x (Nat.two_pow_pos (w - s))
    rw [hpw]
    have : 2 ^ s * (x % 2 ^ (w - s) + 1) ≤ 2 ^ s * 2 ^ (w - s) := Nat.mul_le_mul_left _ this
    rw [Nat.mul_succ] at this
    omega

/-- shifting left by `0 < s < w` bits with the bits of `prev` coming in from the right -/
theorem toNat_shlBits {w s : Nat} (hs0 : 0 < s) (hs : s < w) : ∀ (prev : Nat) (l : List Nat), prev < 2 ^ w → Wf w l →
    toNat w (shlBits w s prev l) = (toNat w l * 2 ^ s + prev / 2 ^ (w - s)) % 2 ^ (w * l.length)
  | prev, [], _, _ => by simp [shlBits, toNat, Nat.mod_one]
  | prev, x :: xs, hp, h => by
    have hx := h.head
    have ih := toNat_shlBits hs0 hs x xs hx h.tail
    have hc : prev / 2 ^ (w - s) < 2 ^ s := by
      apply Nat.div_lt_of_lt_mul
      rw [← Nat.pow_add]; rwa [show w - s + s = w by omega]
    have hpw : 2 ^ w = 2 ^ s * 2 ^ (w - s) := by rw [← Nat.pow_add]; congr 1; omega
    show ((x * 2 ^ s) % 2 ^ w ||| prev / 2 ^ (w - s)) + 2 ^ w * toNat w (shlBits w s x xs)
      = ((x + 2 ^ w * toNat w xs) * 2 ^ s + prev / 2 ^ (w - s)) % 2 ^ (w * (xs.length + 1))
    rw [ih, limb_shl_eq (le_of_lt hs) hc, Nat.mul_succ, Nat.add_comm (w * xs.length) w, Nat.pow_add]
    -- x·2^s = 2^s·(x mod T) + 2^w·(x / T)
    have hxs : x * 2 ^ s = 2 ^ s * (x % 2 ^ (w - s)) + 2 ^ w * (x / 2 ^ (w - s)) := by
      have := Nat.div_add_mod x (2 ^ (w - s))
      rw [hpw]
      calc x * 2 ^ s = (2 ^ (w - s) * (x / 2 ^ (w - s)) + x % 2 ^ (w - s)) * 2 ^ s := by rw [this]
        _ = _ := by ring
    have e : (x + 2 ^ w * toNat w xs) * 2 ^ s + prev / 2 ^ (w - s)
        = (2 ^ s * (x % 2 ^ (w - s)) + prev / 2 ^ (w - s)) + 2 ^ w * (toNat w xs * 2 ^ s + x / 2 ^ (w - s)) := by
      rw [Nat.add_mul, hxs]; ring
    have hlow : 2 ^ s * (x % 2 ^ (w - s)) + prev / 2 ^ (w - s) < 2 ^ w := by
      have := Nat.mod_lt x (Nat.two_pow_pos (w - s))
      have : 2 ^ s * (x % 2 ^ (w - s) + 1) ≤ 2 ^ s * 2 ^ (w - s) := Nat.mul_le_mul_left _ this
      rw [Nat.mul_succ] at this
      rw [hpw]; omega
    rw [e, mod_split _ _ _ _ (Nat.two_pow_pos w), Nat.mod_eq_of_lt hlow, Nat.div_eq_of_lt hlow, Nat.zero_add]

theorem shrBits_length (w s : Nat) : ∀ (l : List Nat), (shrBits w s l).length = l.length
  | [] => rfl
  | [_] => rfl
  | x :: y :: rest => by simp [shrBits, shrBits_length w s (y :: rest)]

theorem limb_shr_eq {w s x y : Nat} (hs : s ≤ w) (hx : x < 2 ^ w) :
    (x / 2 ^ s ||| (y % 2 ^ s) * 2 ^ (w - s)) = x / 2 ^ s + 2 ^ (w - s) * (y % 2 ^ s) := by
  have hq : x / 2 ^ s < 2 ^ (w - s) := by
    apply Nat.div_lt_of_lt_mul
    rw [← Nat.pow_add]; rwa [show s + (w - s) = w by omega]
  rw [Nat.or_comm, Nat.mul_comm, ← Nat.two_pow_add_eq_or_of_lt hq, Nat.add_comm]

theorem shrBits_wf {w s : Nat} (hs : s ≤ w) : ∀ {l : List Nat}, Wf w l → Wf w (shrBits w s l)
  | [], _ => Wf.nil w
  | [x], h => Wf.cons (Nat.lt_of_le_of_lt (Nat.div_le_self _ _) h.head) (Wf.nil w)
  | x :: y :: rest, h => by
    simp only [shrBits]
    refine Wf.cons ?_ (shrBits_wf hs h.tail)
    rw [limb_shr_eq hs h.head]
    have hq : x / 2 ^ s < 2 ^ (w - s) := by
      apply Nat.div_lt_of_lt_mul
      rw [← Nat.pow_add]; rw [show s + (w - s) = w by omega]; exact h.head
    have hpw : 2 ^ w = 2 ^ (w - s) * 2 ^ s := by rw [← Nat.pow_add]; congr 1; omega
    have := Nat.mod_lt y (Nat.two_pow_pos s)
    have : 2 ^ (w - s) * (y % 2 ^ s + 1) ≤ 2 ^ (w - s) * 2 ^ s := Nat.mul_le_mul_left _ this
    rw [Nat.mul_succ] at this
    rw [hpw]; omega

/-- shifting right by `s ≤ w` bits inside the limbs divides the value by 2^s -/
theorem toNat_shrBits {w s : Nat} (hs : s ≤ w) : ∀ {l : List Nat}, Wf w l → toNat w (shrBits w s l) = toNat w l / 2 ^ s
  | [], _ => by simp [shrBits, toNat]
  | [x], _ => by simp [shrBits, toNat]
  | x :: y :: rest, h => by
    have ih := toNat_shrBits hs h.tail
    have hx := h.head
    have hpw : 2 ^ w = 2 ^ s * 2 ^ (w - s) := by rw [← Nat.pow_add]; congr 1; omega
    show (x / 2 ^ s ||| (y % 2 ^ s) * 2 ^ (w - s)) + 2 ^ w * toNat w (shrBits w s (y :: rest))
      = (x + 2 ^ w * toNat w (y :: rest)) / 2 ^ s
    rw [ih, limb_shr_eq hs hx]
    generalize hY : toNat w (y :: rest) = Y
    have hym : y % 2 ^ s = Y % 2 ^ s := by
      rw [← hY]
      show y % 2 ^ s = (y + 2 ^ w * toNat w rest) % 2 ^ s
      rw [hpw, Nat.mul_assoc, Nat.add_mul_mod_self_left]
    rw [hym]
    -- (x + 2^w·Y) / 2^s = x / 2^s + 2^(w-s)·Y
    have e1 : (x + 2 ^ w * Y) / 2 ^ s = x / 2 ^ s + 2 ^ (w - s) * Y := by
      rw [hpw, Nat.mul_assoc, Nat.add_mul_div_left _ _ (Nat.two_pow_pos s)]
    rw [e1]
    have e2 := Nat.div_add_mod Y (2 ^ s)
    calc x / 2 ^ s + 2 ^ (w - s) * (Y % 2 ^ s) + 2 ^ w * (Y / 2 ^ s)
        = x / 2 ^ s + 2 ^ (w - s) * (2 ^ s * (Y / 2 ^ s) + Y % 2 ^ s) := by rw [hpw]; ring
      _ = _ := by rw [e2]

/-- bits of the arithmetic right shift of an n-bit pattern (floor division of the signed value) -/
theorem testBit_asr {n A s : Nat} (hn : 0 < n) (hA : A < 2 ^ n) (hs : s < n) (j : Nat) :
    (ofSigned n (toSigned n A / ((2 ^ s : Nat) : Int))).testBit j
      = if j + s < n then A.testBit (j + s) else (decide (j < n) && A.testBit (n - 1)) := by
  rw [toSigned_of_lt hn hA, testBit_top hn hA]
  have hpn : 2 ^ n = 2 ^ (n - s) * 2 ^ s := by rw [← Nat.pow_add]; congr 1; omega
  have hq : A / 2 ^ s < 2 ^ (n - s) := Nat.div_lt_of_lt_mul (by rw [Nat.mul_comm, ← hpn]; exact hA)
  by_cases hlt : A < 2 ^ (n - 1)
  · rw [if_pos hlt, ← Int.natCast_ediv, ofSigned_natCast]
    have hq' : A / 2 ^ s < 2 ^ n := Nat.lt_of_le_of_lt (Nat.div_le_self _ _) hA
    rw [Nat.mod_eq_of_lt hq', Nat.testBit_div_two_pow]
    have : decide (2 ^ (n - 1) ≤ A) = false := by simp; omega
    rw [this, Bool.and_false]
    by_cases hj : j + s < n
    · rw [if_pos hj]
    · rw [if_neg hj]
      exact Nat.testBit_lt_two_pow (Nat.lt_of_lt_of_le hA (Nat.pow_le_pow_right (by omega) (by omega)))
  · rw [if_neg hlt]
    have hs0 := Nat.two_pow_pos s
    have e : ofSigned n (((A : Int) - ((2 ^ n : Nat) : Int)) / ((2 ^ s : Nat) : Int)) = 2 ^ (n - s) * (2 ^ s - 1) + A / 2 ^ s := by
      have hdiv : ((A : Int) - ((2 ^ n : Nat) : Int)) / ((2 ^ s : Nat) : Int) = ((A / 2 ^ s : Nat) : Int) - ((2 ^ (n - s) : Nat) : Int) := by
        rw [hpn, Int.natCast_ediv]
        push_cast
        have : ((A : Int) - (2 : Int) ^ (n - s) * (2 : Int) ^ s) = (A : Int) + (-(2 : Int) ^ (n - s)) * (2 : Int) ^ s := by ring
        rw [this, Int.add_mul_ediv_right _ _ (by positivity)]
        ring
      rw [hdiv]
      have hval : 2 ^ (n - s) * (2 ^ s - 1) + A / 2 ^ s < 2 ^ n := by
        rw [hpn, Nat.mul_sub, Nat.mul_one]
        have : 2 ^ (n - s) ≤ 2 ^ (n - s) * 2 ^ s := Nat.le_mul_of_pos_right _ hs0
        omega
      rw [← Nat.mod_eq_of_lt hval, ← ofSigned_natCast]
      apply ofSigned_congr
      refine ⟨-1, ?_⟩
      rw [hpn]
      push_cast [Nat.cast_sub hs0]
      ring
    rw [e, Nat.testBit_two_pow_mul_add _ hq, Nat.testBit_two_pow_sub_one, Nat.testBit_div_two_pow]
    have : decide (2 ^ (n - 1) ≤ A) = true := by simp; omega
    rw [this, Bool.and_true]
    by_cases hj : j + s < n
    · rw [if_pos hj, if_pos (by omega)]
    · rw [if_neg hj, if_neg (by omega)]
      congr 1
      simp only [eq_iff_iff]; omega

theorem shrBlocks_zero (l : List Nat) : shrBlocks l 0 = l := by simp [shrBlocks]

theorem shrBlocks_length {l : List Nat} {bs : Nat} (h : bs ≤ l.length) : (shrBlocks l bs).length = l.length := by
  unfold shrBlocks; simp only [List.length_append, List.length_drop]; omega

theorem shrBlocks_wf {w : Nat} {l : List Nat} (h : Wf w l) (bs : Nat) : Wf w (shrBlocks l bs) :=
  (h.drop _).append (h.drop _)

theorem blk_append_left {a b : List Nat} {q : Nat} (h : q < a.length) : blk (a ++ b) q = blk a q := by
  unfold blk; rw [List.getD_eq_getElem?_getD, List.getD_eq_getElem?_getD, List.getElem?_append_left h]
theorem blk_append_right {a b : List Nat} {q : Nat} (h : a.length ≤ q) : blk (a ++ b) q = blk b (q - a.length) := by
  unfold blk; rw [List.getD_eq_getElem?_getD, List.getD_eq_getElem?_getD, List.getElem?_append_right h]
theorem blk_drop (l : List Nat) (m q : Nat) : blk (l.drop m) q = blk l (m + q) := by
  unfold blk; rw [List.getD_eq_getElem?_getD, List.getD_eq_getElem?_getD, List.getElem?_drop]

/-- block `q` after the block shift: moved down by `bs` below `len − bs`, untouched above -/
theorem blk_shrBlocks {l : List Nat} {bs : Nat} (h : bs ≤ l.length) (q : Nat) :
    blk (shrBlocks l bs) q = if q < l.length - bs then blk l (q + bs) else blk l q := by
  unfold shrBlocks
  by_cases hq : q < l.length - bs
  · rw [if_pos hq, blk_append_left (by simp; omega), blk_drop, Nat.add_comm]
  · rw [if_neg hq, blk_append_right (by simp; omega), blk_drop]
    congr 1; simp; omega

theorem testBit_shrBlocks {w : Nat} (hw : 0 < w) {l : List Nat} (hl : Wf w l) {bs : Nat} (h : bs ≤ l.length) (j : Nat) :
    (toNat w (shrBlocks l bs)).testBit j
      = if j / w < l.length - bs then (toNat w l).testBit (j + w * bs) else (toNat w l).testBit j := by
  rw [testBit_toNat hw (shrBlocks_wf hl bs), blk_shrBlocks h, testBit_toNat hw hl, testBit_toNat hw hl]
  have h1 : (j + w * bs) / w = j / w + bs := by rw [Nat.add_mul_div_left _ _ hw]
  have h2 : (j + w * bs) % w = j % w := by rw [Nat.add_mul_mod_self_left]
  rw [h1, h2]
  split <;> rfl

theorem testBit_maskMSU {w n : Nat} (hw : 0 < w) (hn : 0 < n) {l : List Nat} (h : Shape w n l) (j : Nat) :
    (toNat w (maskMSU w n l)).testBit j = (decide (j < n) && (toNat w l).testBit j) := by
  rw [toNat_maskMSU hw hn h.2 h.1, Nat.testBit_mod_two_pow]

theorem toNat_append_zeros (w : Nat) (l : List Nat) (m : Nat) : toNat w (l ++ zeros m) = toNat w l := by
  rw [toNat_append, toNat_zeros]; simp

/-- setting bit `i` of a value whose low `i+1` bits are clear adds 2^i -/
theorem toNat_setbit_true {w : Nat} (hw : 0 < w) {l : List Nat} (h : Wf w l) {i : Nat} (hi : i / w < l.length)
    (hz : toNat w l % 2 ^ (i + 1) = 0) : toNat w (setbit w l i true) = toNat w l + 2 ^ i := by
  apply Nat.eq_of_testBit_eq
  intro j
  rw [testBit_setbit hw h i true hi]
  obtain ⟨m, hm⟩ : ∃ m, toNat w l = 2 ^ (i + 1) * m := ⟨toNat w l / 2 ^ (i + 1), by
    have := Nat.div_add_mod (toNat w l) (2 ^ (i + 1)); omega⟩
  rw [hm, Nat.testBit_two_pow_mul_add m (Nat.pow_lt_pow_right (by omega) (Nat.lt_succ_self i)), Nat.testBit_two_pow]
  by_cases hj : j = i
  · subst hj; simp
  · rw [if_neg hj]
    by_cases hlt : j < i + 1
    · have : ¬ i = j := fun e => hj e.symm
      rw [if_pos hlt, Nat.testBit_two_pow_mul]
      simp [this]; omega
    · rw [if_neg hlt, Nat.testBit_two_pow_mul]
      simp; omega

/-- clearing a bit that is already clear changes nothing -/
theorem toNat_setbit_false {w : Nat} (hw : 0 < w) {l : List Nat} (h : Wf w l) {i : Nat}
    (hz : (toNat w l).testBit i = false) : toNat w (setbit w l i false) = toNat w l := by
  by_cases hi : i / w < l.length
  · apply Nat.eq_of_testBit_eq
    intro j
    rw [testBit_setbit hw h i false hi]
    by_cases hj : j = i
    · rw [if_pos hj, hj, hz]
    · rw [if_neg hj]
  · rw [setbit_of_ge false (by omega)]

theorem testBit_of_mod_zero {x i : Nat} (h : x % 2 ^ (i + 1) = 0) : x.testBit i = false := by
  have := Nat.testBit_mod_two_pow x (i + 1) i
  rw [h] at this
  simpa using this.symm

theorem mod_two_pow_succ' (A i : Nat) : A % 2 ^ (i + 1) = A % 2 ^ i + 2 ^ i * (if A.testBit i then 1 else 0) := by
  rw [Nat.pow_succ, Nat.mod_mul, Nat.testBit_eq_decide_div_mod_eq]
  have := Nat.mod_lt (A / 2 ^ i) (by omega : 0 < 2)
  by_cases h : A / 2 ^ i % 2 = 1
  · simp [h]
  · have : A / 2 ^ i % 2 = 0 := by omega
    simp [this]

theorem any_pos_eq {w : Nat} : ∀ (l : List Nat), (l.any (fun x => decide (x > 0))) = decide (toNat w l ≠ 0)
  | [] => by simp [toNat]
  | x :: xs => by
    rw [List.any_cons, any_pos_eq (w := w) xs, toNat]
    have hp := Nat.two_pow_pos w
    by_cases hx : x > 0
    · have h2 : x + 2 ^ w * toNat w xs ≠ 0 := by omega
      rw [decide_eq_true hx, decide_eq_true h2, Bool.true_or]
    · have hx0 : x = 0 := by omega
      rw [decide_eq_false hx, Bool.false_or, hx0, Nat.zero_add]
      by_cases ht : toNat w xs = 0
      · have h2 : ¬ (2 ^ w * toNat w xs ≠ 0) := by rw [ht]; simp
        have h3 : ¬ (toNat w xs ≠ 0) := by simp [ht]
        rw [decide_eq_false h2, decide_eq_false h3]
      · have h2 : 2 ^ w * toNat w xs ≠ 0 := Nat.mul_ne_zero (by omega) ht
        rw [decide_eq_true h2, decide_eq_true ht]

theorem blk_eq_head_drop (l : List Nat) (i : Nat) : blk l i = blk (l.drop i) 0 := by
  rw [blk_drop]; simp

theorem toNat_mod_low {w j : Nat} (hj : j ≤ w) : ∀ (l : List Nat), toNat w l % 2 ^ j = blk l 0 % 2 ^ j
  | [] => by simp [toNat, blk_nil]
  | x :: xs => by
    rw [toNat, blk_cons_zero]
    have : 2 ^ w = 2 ^ j * 2 ^ (w - j) := by rw [← Nat.pow_add]; congr 1; omega
    rw [this, Nat.mul_assoc, Nat.add_mul_mod_self_left]

/-- `any(msb)`: some bit at a position ≤ min(msb, n−1) is set -/
theorem anyUpTo_spec {w n : Nat} (hw : 0 < w) {l : List Nat} (hl : Wf w l) (msb : Nat) :
    anyUpTo w n l msb = decide (toNat w l % 2 ^ ((if msb > n - 1 then n - 1 else msb) + 1) ≠ 0) := by
  unfold anyUpTo
  simp only
  generalize (if msb > n - 1 then n - 1 else msb) = m
  have hj : m % w + 1 ≤ w := Nat.mod_lt m hw
  have hmask : (2 ^ w - 1) / 2 ^ (w - 1 - m % w) = 2 ^ (m % w + 1) - 1 := by
    rw [allones_shr _ _ (by omega)]; congr 2; omega
  rw [hmask, Nat.and_two_pow_sub_one_eq_mod, any_pos_eq (w := w), toNat_take hl]
  have hm : m + 1 = w * (m / w) + (m % w + 1) := by have := Nat.div_add_mod m w; omega
  have hrhs : toNat w l % 2 ^ (m + 1) = toNat w l % 2 ^ (w * (m / w)) + 2 ^ (w * (m / w)) * (blk l (m / w) % 2 ^ (m % w + 1)) := by
    rw [hm, Nat.pow_add 2 (w * (m / w)) (m % w + 1), Nat.mod_mul, ← toNat_drop hl, toNat_mod_low hj, ← blk_eq_head_drop]
  rw [hrhs]
  have hp := Nat.two_pow_pos (w * (m / w))
  generalize toNat w l % 2 ^ (w * (m / w)) = u
  generalize blk l (m / w) % 2 ^ (m % w + 1) = v
  by_cases hu : u = 0 <;> by_cases hv : v = 0
  · simp [hu, hv]
  · have : 2 ^ (w * (m / w)) * v ≠ 0 := Nat.mul_ne_zero (by omega) hv
    simp [hu, hv, this]
  · simp [hu, hv]
  · have : u + 2 ^ (w * (m / w)) * v ≠ 0 := by omega
    simp [hu, hv, this]

end UVerif.Limbs
