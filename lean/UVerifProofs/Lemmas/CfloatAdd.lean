import Mathlib.Tactic.Ring
import Mathlib.Tactic.Linarith
import Mathlib.Tactic.FieldSimp
import Mathlib.Algebra.Order.Field.Power
import Mathlib.Data.Rat.Floor
import UVerifProofs.Lemmas.CfloatSticky
import UVerifProofs.Lemmas.CfloatMul
open UVerif UVerif.Cfloat

namespace UVerif.Cfloat

theorem top_two_bits (p k : Nat) (h1 : 2 ^ k ≤ p) (h2 : p < 2 ^ (k + 2)) :
    (!p.testBit (k + 1) && !p.testBit k) = false := by
  have hq1 : 1 ≤ p / 2 ^ k := (Nat.one_le_div_iff (two_pow_pos _)).mpr h1
  have hq2 : p / 2 ^ k < 4 := by
    rw [Nat.div_lt_iff_lt_mul (two_pow_pos _)]
    rw [show 2 ^ (k + 2) = 4 * 2 ^ k by rw [Nat.pow_add]; ring] at h2; exact h2
  have hd : p / 2 ^ (k + 1) = p / 2 ^ k / 2 := by rw [Nat.pow_succ, Nat.div_div_eq_div_mul]
  rw [Nat.testBit_eq_decide_div_mod_eq, Nat.testBit_eq_decide_div_mod_eq, hd]
  have : p / 2 ^ k / 2 % 2 = 1 ∨ p / 2 ^ k % 2 = 1 := by omega
  rcases this with h | h <;> simp [h]

theorem stickyShr_pos (x d : Nat) (hx : 0 < x) : 0 < stickyShr x d :=
  (sticky_side x d 0 (by simp)).2.mpr (by simpa using hx)

theorem twosComp_of_lt (w x : Nat) (h0 : 0 < x) (h1 : x < 2 ^ w) : twosComp w x = 2 ^ w - x := by
  unfold twosComp
  rw [Nat.mod_eq_of_lt h1, Nat.mod_eq_of_lt (by omega)]

/-- `blocktriple::add` on two normalised significants of the SAME sign, left operand with the larger (or equal)
    scale: the sum of the left significant and the sticky-shifted right one, no renormalisation, sign kept -/
theorem tripleAdd_same_sign_ge (fb : Nat) (s : Bool) (sc1 sc2 : Int) (A B : Nat)
    (hA1 : 2 ^ fb ≤ A) (hA2 : A < 2 ^ (fb + 1)) (hB1 : 2 ^ fb ≤ B) (hB2 : B < 2 ^ (fb + 1)) (hd : sc2 ≤ sc1) :
    tripleAdd fb { zero := false, sign := s, scale := sc1, sig := A <<< 3 } { zero := false, sign := s, scale := sc2, sig := B <<< 3 }
      = { zero := false, sign := s, scale := sc1, sig := A * 8 + stickyShr (B * 8) (sc1 - sc2).toNat } ∧
    2 ^ (fb + 3) ≤ A * 8 + stickyShr (B * 8) (sc1 - sc2).toNat ∧
    A * 8 + stickyShr (B * 8) (sc1 - sc2).toNat < 2 ^ (fb + 5) := by
  have hF := two_pow_pos fb
  have e3 : ∀ x : Nat, x <<< 3 = x * 8 := by intro x; rw [Nat.shiftLeft_eq]
  have p3 : 2 ^ (fb + 3) = 2 ^ fb * 8 := by rw [Nat.pow_add]
  have p4 : 2 ^ (fb + 4) = 2 ^ fb * 16 := by rw [Nat.pow_add]
  have p5 : 2 ^ (fb + 5) = 2 ^ fb * 32 := by rw [Nat.pow_add]
  have p6 : 2 ^ (fb + 6) = 2 ^ fb * 64 := by rw [Nat.pow_add]
  have p1 : 2 ^ (fb + 1) = 2 ^ fb * 2 := by rw [Nat.pow_add]
  set d := (sc1 - sc2).toNat with hdd
  have hrs_lt : stickyShr (B * 8) d < 2 ^ (fb + 4) := by
    have he : 2 ^ (fb + 4) % 2 = 0 := by rw [p4]; omega
    rw [(sticky_side (B * 8) d (2 ^ (fb + 4)) he).1]
    have : 2 ^ (fb + 4) * 1 ≤ 2 ^ (fb + 4) * 2 ^ d := Nat.mul_le_mul_left _ (two_pow_pos d)
    omega
  have hrs_pos : 0 < stickyShr (B * 8) d := stickyShr_pos _ _ (by omega)
  generalize hrs : stickyShr (B * 8) d = rs at *
  have lo : 2 ^ (fb + 3) ≤ A * 8 + rs := by omega
  have hi : A * 8 + rs < 2 ^ (fb + 5) := by omega
  refine ⟨?_, lo, hi⟩
  unfold tripleAdd Op.bfbits
  simp only [e3]
  have hdn : ¬ (sc1 - sc2 < 0) := by omega
  simp only [hdn, if_false, ← hdd, hrs]
  have hw : A * 8 + rs < 2 ^ (fb + 6) := by omega
  have hmax : max sc1 sc2 = sc1 := max_eq_left hd
  have w1 : fb + 6 - 1 = fb + 5 := by omega
  have w2 : fb + 6 - 2 = fb + 4 := by omega
  have w3 : fb + 6 - 3 = fb + 3 := by omega
  have htop := top_two_bits (A * 8 + rs) (fb + 3) lo (by rw [show fb + 3 + 2 = fb + 5 by omega]; exact hi)
  rw [show fb + 3 + 1 = fb + 4 by omega] at htop
  cases s
  · -- both positive
    simp only [Bool.false_eq_true, if_false]
    rw [Nat.mod_eq_of_lt hw]
    have hne : A * 8 + rs ≠ 0 := by omega
    simp only [hne, if_false, w1, w2, w3, hmax]
    have hneg : (A * 8 + rs).testBit (fb + 5) = false := Nat.testBit_lt_two_pow hi
    simp only [hneg, Bool.false_eq_true, if_false, htop]
  · -- both negative
    simp only [if_true]
    have hA8 : A * 8 < 2 ^ (fb + 6) := by omega
    rw [twosComp_of_lt _ _ (by omega) hA8, twosComp_of_lt _ _ hrs_pos (by omega)]
    have hsum : (2 ^ (fb + 6) - A * 8 + (2 ^ (fb + 6) - rs)) % 2 ^ (fb + 6) = 2 ^ (fb + 6) - (A * 8 + rs) := by
      have : 2 ^ (fb + 6) - A * 8 + (2 ^ (fb + 6) - rs) = (2 ^ (fb + 6) - (A * 8 + rs)) + 2 ^ (fb + 6) := by omega
      rw [this, Nat.add_mod_right, Nat.mod_eq_of_lt (by omega)]
    rw [hsum]
    have hne : 2 ^ (fb + 6) - (A * 8 + rs) ≠ 0 := by omega
    simp only [hne, if_false, w1, w2, w3, hmax]
    have hneg : (2 ^ (fb + 6) - (A * 8 + rs)).testBit (fb + 5) = true := by
      rw [Nat.testBit_eq_decide_div_mod_eq]
      have h1 : 2 ^ (fb + 5) ≤ 2 ^ (fb + 6) - (A * 8 + rs) := by omega
      have h2 : 2 ^ (fb + 6) - (A * 8 + rs) < 2 * 2 ^ (fb + 5) := by omega
      have : (2 ^ (fb + 6) - (A * 8 + rs)) / 2 ^ (fb + 5) = 1 := by
        apply Nat.div_eq_of_lt_le <;> omega
      simp [this]
    simp only [hneg, if_true]
    rw [twosComp_of_lt _ _ (by omega) (by omega)]
    have : 2 ^ (fb + 6) - (2 ^ (fb + 6) - (A * 8 + rs)) = A * 8 + rs := by omega
    rw [this]
    simp only [htop, Bool.false_eq_true, if_false]

/-- `blocktriple::add` on two normalised significants of the SAME sign, left operand with the SMALLER scale:
    the sum of the sticky-shifted left significant and the right one, no renormalisation, sign kept -/
theorem tripleAdd_same_sign_lt (fb : Nat) (s : Bool) (sc1 sc2 : Int) (A B : Nat)
    (hA1 : 2 ^ fb ≤ A) (hA2 : A < 2 ^ (fb + 1)) (hB1 : 2 ^ fb ≤ B) (hB2 : B < 2 ^ (fb + 1)) (hd : sc1 < sc2) :
    tripleAdd fb { zero := false, sign := s, scale := sc1, sig := A <<< 3 } { zero := false, sign := s, scale := sc2, sig := B <<< 3 }
      = { zero := false, sign := s, scale := sc2, sig := stickyShr (A * 8) (sc2 - sc1).toNat + B * 8 } ∧
    2 ^ (fb + 3) ≤ stickyShr (A * 8) (sc2 - sc1).toNat + B * 8 ∧
    stickyShr (A * 8) (sc2 - sc1).toNat + B * 8 < 2 ^ (fb + 5) := by
  have hF := two_pow_pos fb
  have e3 : ∀ x : Nat, x <<< 3 = x * 8 := by intro x; rw [Nat.shiftLeft_eq]
  have p3 : 2 ^ (fb + 3) = 2 ^ fb * 8 := by rw [Nat.pow_add]
  have p4 : 2 ^ (fb + 4) = 2 ^ fb * 16 := by rw [Nat.pow_add]
  have p5 : 2 ^ (fb + 5) = 2 ^ fb * 32 := by rw [Nat.pow_add]
  have p6 : 2 ^ (fb + 6) = 2 ^ fb * 64 := by rw [Nat.pow_add]
  have p1 : 2 ^ (fb + 1) = 2 ^ fb * 2 := by rw [Nat.pow_add]
  set d := (sc2 - sc1).toNat with hdd
  have hrs_lt : stickyShr (A * 8) d < 2 ^ (fb + 4) := by
    have he : 2 ^ (fb + 4) % 2 = 0 := by rw [p4]; omega
    rw [(sticky_side (A * 8) d (2 ^ (fb + 4)) he).1]
    have : 2 ^ (fb + 4) * 1 ≤ 2 ^ (fb + 4) * 2 ^ d := Nat.mul_le_mul_left _ (two_pow_pos d)
    omega
  have hrs_pos : 0 < stickyShr (A * 8) d := stickyShr_pos _ _ (by omega)
  generalize hrs : stickyShr (A * 8) d = rs at *
  have lo : 2 ^ (fb + 3) ≤ rs + B * 8 := by omega
  have hi : rs + B * 8 < 2 ^ (fb + 5) := by omega
  refine ⟨?_, lo, hi⟩
  unfold tripleAdd Op.bfbits
  simp only [e3]
  have hdn : sc1 - sc2 < 0 := by omega
  have hdneg : (-(sc1 - sc2)).toNat = d := by rw [hdd]; congr 1; omega
  simp only [hdn, if_true, hdneg, hrs]
  have hw : rs + B * 8 < 2 ^ (fb + 6) := by omega
  have hmax : max sc1 sc2 = sc2 := max_eq_right (le_of_lt hd)
  have w1 : fb + 6 - 1 = fb + 5 := by omega
  have w2 : fb + 6 - 2 = fb + 4 := by omega
  have w3 : fb + 6 - 3 = fb + 3 := by omega
  have htop := top_two_bits (rs + B * 8) (fb + 3) lo (by rw [show fb + 3 + 2 = fb + 5 by omega]; exact hi)
  rw [show fb + 3 + 1 = fb + 4 by omega] at htop
  cases s
  · -- both positive
    simp only [Bool.false_eq_true, if_false]
    rw [Nat.mod_eq_of_lt hw]
    have hne : rs + B * 8 ≠ 0 := by omega
    simp only [hne, if_false, w1, w2, w3, hmax]
    have hneg : (rs + B * 8).testBit (fb + 5) = false := Nat.testBit_lt_two_pow hi
    simp only [hneg, Bool.false_eq_true, if_false, htop]
  · -- both negative
    simp only [if_true]
    have hB8 : B * 8 < 2 ^ (fb + 6) := by omega
    rw [twosComp_of_lt _ _ hrs_pos (by omega), twosComp_of_lt _ _ (by omega) hB8]
    have hsum : (2 ^ (fb + 6) - rs + (2 ^ (fb + 6) - B * 8)) % 2 ^ (fb + 6) = 2 ^ (fb + 6) - (rs + B * 8) := by
      have : 2 ^ (fb + 6) - rs + (2 ^ (fb + 6) - B * 8) = (2 ^ (fb + 6) - (rs + B * 8)) + 2 ^ (fb + 6) := by omega
      rw [this, Nat.add_mod_right, Nat.mod_eq_of_lt (by omega)]
    rw [hsum]
    have hne : 2 ^ (fb + 6) - (rs + B * 8) ≠ 0 := by omega
    simp only [hne, if_false, w1, w2, w3, hmax]
    have hneg : (2 ^ (fb + 6) - (rs + B * 8)).testBit (fb + 5) = true := by
      rw [Nat.testBit_eq_decide_div_mod_eq]
      have h1 : 2 ^ (fb + 5) ≤ 2 ^ (fb + 6) - (rs + B * 8) := by omega
      have h2 : 2 ^ (fb + 6) - (rs + B * 8) < 2 * 2 ^ (fb + 5) := by omega
      have : (2 ^ (fb + 6) - (rs + B * 8)) / 2 ^ (fb + 5) = 1 := by
        apply Nat.div_eq_of_lt_le <;> omega
      simp [this]
    simp only [hneg, if_true]
    rw [twosComp_of_lt _ _ (by omega) (by omega)]
    have : 2 ^ (fb + 6) - (2 ^ (fb + 6) - (rs + B * 8)) = rs + B * 8 := by omega
    rw [this]
    simp only [htop, Bool.false_eq_true, if_false]

end UVerif.Cfloat

namespace UVerif.Cfloat

theorem stickyShr_add_mul (a b d : Nat) (ha : a % 2 = 0) : stickyShr (a * 2 ^ d + b) d = a + stickyShr b d := by
  have hH := two_pow_pos d
  unfold stickyShr
  have h1 : (a * 2 ^ d + b) >>> d = a + b >>> d := by
    rw [Nat.shiftRight_eq_div_pow, Nat.shiftRight_eq_div_pow, Nat.add_comm, Nat.add_mul_div_right _ _ hH, Nat.add_comm]
  have h2 : (a * 2 ^ d + b) % 2 ^ d = b % 2 ^ d := by
    rw [Nat.add_comm, Nat.add_mul_mod_self_right]
  rw [h1, h2]
  by_cases hb : b % 2 ^ d = 0
  · simp [hb]
  · simp only [ne_eq, hb, not_false_eq_true, if_true]
    rw [or_one_eq, or_one_eq]
    have : (a + b >>> d) % 2 = (b >>> d) % 2 := by omega
    rw [this]; split_ifs <;> omega

theorem normalizeOp_add_normal (c : Cfg) (a : Nat) (he : c.expOf a ≠ 0) :
    normalizeOp c .add a = { zero := false, sign := c.signOf a, scale := (c.expOf a : Int) - c.bias, sig := (2 ^ c.fbits + c.fracOf a) <<< 3 } := by
  unfold normalizeOp sigBits scaleOf
  simp only [he, if_false]
  rw [or_pow_eq_add _ _ (fracOf_lt c a)]

/-- path of `convertFinite` in the normal range below the top binades (the dispatch part of `convert_round_normal`) -/
theorem convertFinite_eq_assemble (c : Cfg) (hv : c.valid = true) (o : Op) (sign : Bool) (scale : Int) (sig : Nat)
    (hnarrow : o.bfbits c.fbits < 65)
    (hlo : c.minExpNormal ≤ scale + sigScale (o.radix c.fbits) sig)
    (hhi : scale + sigScale (o.radix c.fbits) sig + c.bias + 1 < c.emax) :
    convertFinite c o sign scale sig =
      assemble c sign (scale + sigScale (o.radix c.fbits) sig + c.bias).toNat sig (sigScale (o.radix c.fbits) sig + o.radix c.fbits - c.fbits) := by
  have hb0 := bias_nonneg c
  generalize hss : sigScale (o.radix c.fbits) sig = ss at *
  have hmn : c.minExpNormal = 1 - c.bias := rfl
  have hms : c.minExpSubnormal = 1 - c.bias - (c.fbits : Int) := rfl
  have hmax : scale + (ss : Int) ≤ c.maxExp := by
    unfold Cfg.maxExp
    have hem : (c.emax : Int) = ((2 ^ c.es : Nat) : Int) - 1 := by
      unfold Cfg.emax; have := two_pow_pos c.es; omega
    by_cases h1 : c.es = 1
    · rw [if_pos h1]; rw [hem, h1] at hhi; norm_num at hhi; omega
    · rw [if_neg h1]; omega
  have e1 : ¬ (c.sub = true ∧ scale + (ss : Int) < c.minExpSubnormal) := by
    intro hc; have := hc.2; omega
  have e2 : ¬ (¬ c.sub = true ∧ scale + (ss : Int) + c.bias ≤ 0) := by
    intro hc; have := hc.2; omega
  have e3 : ¬ (scale + (ss : Int) > c.maxExp) := by omega
  have e4 : ¬ (scale + (ss : Int) < c.minExpNormal) := by omega
  unfold convertFinite
  simp only [hss, e1, e2, e3, e4, and_false, if_false, hnarrow, if_true, Nat.add_zero]

/-- core of same-sign addition: the sum significant S = A·8 + sticky(B·8 >> (eA − eB)) of two normalised operands
    (A = 2^fb + fA at exponent field eA ≥ eB, B = 2^fb + fB), converted with scale eA − bias, is the IEEE rounding of
    the exact sum of the two magnitudes -/
theorem same_sign_sum_round (c : Cfg) (hv : c.valid = true) (s : Bool) (eA fA eB fB : Nat)
    (hnarrow : c.fbits + 6 < 65)
    (hfa : fA < 2 ^ c.fbits) (hfb : fB < 2 ^ c.fbits) (hge : eB ≤ eA)
    (lo : 2 ^ (c.fbits + 3) ≤ (2 ^ c.fbits + fA) * 8 + stickyShr ((2 ^ c.fbits + fB) * 8) (eA - eB))
    (hi : (2 ^ c.fbits + fA) * 8 + stickyShr ((2 ^ c.fbits + fB) * 8) (eA - eB) < 2 ^ (c.fbits + 5))
    (hlo : c.minExpNormal ≤ ((eA : Int) - c.bias) + sigScale (c.fbits + 3)
        ((2 ^ c.fbits + fA) * 8 + stickyShr ((2 ^ c.fbits + fB) * 8) (eA - eB)))
    (hhi : ((eA : Int) - c.bias) + sigScale (c.fbits + 3)
        ((2 ^ c.fbits + fA) * 8 + stickyShr ((2 ^ c.fbits + fB) * 8) (eA - eB)) + c.bias + 1 < c.emax) :
    convertFinite c .add s ((eA : Int) - c.bias) ((2 ^ c.fbits + fA) * 8 + stickyShr ((2 ^ c.fbits + fB) * 8) (eA - eB)) < 2 ^ c.nbits ∧
    nearestNZ c ((if s then -1 else 1) *
        ((1 + (fA : ℚ) / ((2 ^ c.fbits : Nat) : ℚ)) * pow2 ((eA : Int) - c.bias)
          + (1 + (fB : ℚ) / ((2 ^ c.fbits : Nat) : ℚ)) * pow2 ((eB : Int) - c.bias)))
      (convertFinite c .add s ((eA : Int) - c.bias) ((2 ^ c.fbits + fA) * 8 + stickyShr ((2 ^ c.fbits + fB) * 8) (eA - eB))) = true := by
  obtain ⟨_, hfb1, _, _⟩ := valid_facts c hv
  have hF := two_pow_pos c.fbits
  have hb0 := bias_nonneg c
  have p1 : 2 ^ (c.fbits + 1) = 2 ^ c.fbits * 2 := by rw [Nat.pow_add]
  set A := 2 ^ c.fbits + fA with hA
  set B := 2 ^ c.fbits + fB with hB
  set d := eA - eB with hd
  set S := A * 8 + stickyShr (B * 8) d with hS
  have hrdx : Op.radix .add c.fbits = c.fbits + 3 := rfl
  have hbf : Op.bfbits .add c.fbits = c.fbits + 6 := rfl
  rw [convertFinite_eq_assemble c hv .add _ _ S (by rw [hbf]; exact hnarrow) (by rw [hrdx]; exact hlo) (by rw [hrdx]; exact hhi)]
  rw [hrdx]
  obtain ⟨m1, m2⟩ := sigScale_spec (c.fbits + 3) S lo
  generalize hss : sigScale (c.fbits + 3) S = ss at *
  have hss1 : ss ≤ 1 := by
    by_contra hc
    have : 2 ^ (c.fbits + 5) ≤ 2 ^ (ss + (c.fbits + 3)) := Nat.pow_le_pow_right (by omega) (by omega)
    omega
  set t := ss + (c.fbits + 3) - c.fbits with ht
  have ht3 : t = ss + 3 := by omega
  obtain ⟨r1, r2⟩ := shifted_range c.fbits (c.fbits + 3) S ss (by omega) m1 m2
  set biased := ((eA : Int) - c.bias + (ss : Int) + c.bias).toNat with hbiased
  have hbi : (biased : Int) - c.bias = (eA : Int) - c.bias + (ss : Int) := by
    have hmn : c.minExpNormal = 1 - c.bias := rfl
    omega
  have hb1 : 1 ≤ biased := by
    have hmn : c.minExpNormal = 1 - c.bias := rfl
    omega
  have hb2 : biased + 1 < c.emax := by omega
  -- the exact sum
  set N := A * 8 * 2 ^ d + B * 8 with hN
  have hSN : S = stickyShr N d := by
    rw [hS, hN, stickyShr_add_mul _ _ _ (by omega)]
  have hD : (0 : ℚ) < ((2 ^ d : Nat) : ℚ) := by exact_mod_cast two_pow_pos d
  set X : ℚ := (N : ℚ) / ((2 ^ d : Nat) : ℚ) * pow2 ((eA : Int) - c.bias - ((c.fbits + 3 : Nat) : Int)) with hX
  have hpr := pow2_pos ((eA : Int) - c.bias - ((c.fbits + 3 : Nat) : Int))
  -- binade of X
  have he1 : 2 ^ (ss + (c.fbits + 3)) % 2 = 0 := by
    rw [show ss + (c.fbits + 3) = (ss + c.fbits + 2) + 1 by omega, Nat.pow_succ]; omega
  have he2 : 2 ^ (ss + (c.fbits + 3) + 1) % 2 = 0 := by rw [Nat.pow_succ]; omega
  have hNlo : 2 ^ (ss + (c.fbits + 3)) * 2 ^ d ≤ N := by
    by_contra hc
    have := (sticky_side N d _ he1).1.mpr (by omega)
    rw [← hSN] at this; omega
  have hNhi : N < 2 ^ (ss + (c.fbits + 3) + 1) * 2 ^ d := by
    have := (sticky_side N d _ he2).1.mp (by rw [← hSN]; exact m2)
    exact this
  have hXlo : pow2 ((biased : Int) - c.bias) ≤ X := by
    rw [hbi]
    have : pow2 ((eA : Int) - c.bias + (ss : Int)) =
        ((2 ^ (ss + (c.fbits + 3)) : Nat) : ℚ) * pow2 ((eA : Int) - c.bias - ((c.fbits + 3 : Nat) : Int)) := by
      rw [← pow2_natCast, ← pow2_add]; congr 1; push_cast; omega
    rw [this, hX]
    apply mul_le_mul_of_nonneg_right _ (le_of_lt hpr)
    rw [le_div_iff₀ hD]; exact_mod_cast hNlo
  have hXhi : X < pow2 ((biased : Int) - c.bias + 1) := by
    rw [hbi]
    have : pow2 ((eA : Int) - c.bias + (ss : Int) + 1) =
        ((2 ^ (ss + (c.fbits + 3) + 1) : Nat) : ℚ) * pow2 ((eA : Int) - c.bias - ((c.fbits + 3 : Nat) : Int)) := by
      rw [← pow2_natCast, ← pow2_add]; congr 1; push_cast; omega
    rw [this, hX]
    apply mul_lt_mul_of_pos_right _ hpr
    rw [div_lt_iff₀ hD]; exact_mod_cast hNhi
  -- nearest-even transfers from the sticky sum to the exact sum
  have hRge : 1 ≤ rneShr S t := by
    have hle := (rneShr_le S t).1
    exact le_trans (le_trans hF r1) hle
  have hk0 := rneShr_nearest S t
  simp only [] at hk0
  rw [hSN] at hk0
  have hk1 := sticky_nearest_transfer N d t (rneShr (stickyShr N d) t) (by omega) (by rw [← hSN]; exact hRge) hk0
  rw [← hSN] at hk1
  have hquot : X / pow2 ((biased : Int) - c.bias - (c.fbits : Int)) = (N : ℚ) / ((2 ^ d : Nat) : ℚ) / ((2 ^ t : Nat) : ℚ) := by
    have h1 : pow2 ((eA : Int) - c.bias - ((c.fbits + 3 : Nat) : Int))
        = pow2 ((biased : Int) - c.bias - (c.fbits : Int)) / ((2 ^ t : Nat) : ℚ) := by
      rw [← pow2_natCast, ← pow2_sub]; congr 1; rw [hbi]; push_cast; omega
    have hu := pow2_pos ((biased : Int) - c.bias - (c.fbits : Int))
    have ht2 : (0 : ℚ) < ((2 ^ t : Nat) : ℚ) := by exact_mod_cast two_pow_pos t
    rw [hX, h1]; field_simp
  rw [← hquot] at hk1
  obtain ⟨hr1, hr2⟩ := assemble_round_core c hv (s) biased S t r1 r2 hb1 hb2 X hXlo hXhi hk1
  have hFq : (0 : ℚ) < ((2 ^ c.fbits : Nat) : ℚ) := by exact_mod_cast hF
  have hXval : X = (1 + (fA : ℚ) / ((2 ^ c.fbits : Nat) : ℚ)) * pow2 ((eA : Int) - c.bias)
      + (1 + (fB : ℚ) / ((2 ^ c.fbits : Nat) : ℚ)) * pow2 ((eB : Int) - c.bias) := by
    have hpb : pow2 ((eB : Int) - c.bias) = pow2 ((eA : Int) - c.bias) / ((2 ^ d : Nat) : ℚ) := by
      rw [← pow2_natCast, ← pow2_sub]; congr 1; omega
    have hpr3 : pow2 ((eA : Int) - c.bias - ((c.fbits + 3 : Nat) : Int))
        = pow2 ((eA : Int) - c.bias) / (((2 ^ c.fbits : Nat) : ℚ) * 8) := by
      rw [pow2_sub, pow2_natCast]; push_cast; rw [pow_add]; norm_num
    have hpa := pow2_pos ((eA : Int) - c.bias)
    rw [hX, hN, hpb, hpr3, hA, hB]
    push_cast
    field_simp
  rw [← hXval]
  exact ⟨hr1, hr2⟩

/-- **addition of two finite operands of the same sign** (non-zero exponent fields, left operand with the larger or
    equal exponent), result in the normal range below the top binades, ≤ 64-bit path: the model's sum is the IEEE
    rounding of the exact sum. The alignment shift may discard any number of bits: the sticky bit makes the aligned
    operand a round-to-odd image, and the rounding position is ≥ 3 bits above it (`sticky_nearest_transfer`). -/
theorem add_same_sign_ge (c : Cfg) (hv : c.valid = true) (a b : Nat)
    (hnarrow : c.fbits + 6 < 65)
    (hna : normalOperand c a = true) (hnb : normalOperand c b = true)
    (hsign : c.signOf a = c.signOf b) (hge : c.expOf b ≤ c.expOf a)
    (hlo : c.minExpNormal ≤ ((c.expOf a : Int) - c.bias) + sigScale (c.fbits + 3)
        ((2 ^ c.fbits + c.fracOf a) * 8 + stickyShr ((2 ^ c.fbits + c.fracOf b) * 8) (c.expOf a - c.expOf b)))
    (hhi : ((c.expOf a : Int) - c.bias) + sigScale (c.fbits + 3)
        ((2 ^ c.fbits + c.fracOf a) * 8 + stickyShr ((2 ^ c.fbits + c.fracOf b) * 8) (c.expOf a - c.expOf b)) + c.bias + 1 < c.emax) :
    satisfies c (expectOp "add" (cfVal c a) (cfVal c b)) (add c a b) = true := by
  obtain ⟨na, ia, za, ea, va⟩ := normalOperand_facts c hv a hna
  obtain ⟨nb, ib, zb, eb, vb⟩ := normalOperand_facts c hv b hnb
  have hF := two_pow_pos c.fbits
  have hfa := fracOf_lt c a
  have hfb := fracOf_lt c b
  have p1 : 2 ^ (c.fbits + 1) = 2 ^ c.fbits * 2 := by rw [Nat.pow_add]
  have hdI : ((c.expOf a : Int) - c.bias - ((c.expOf b : Int) - c.bias)).toNat = c.expOf a - c.expOf b := by omega
  obtain ⟨ta, lo, hi⟩ := tripleAdd_same_sign_ge c.fbits (c.signOf a) ((c.expOf a : Int) - c.bias) ((c.expOf b : Int) - c.bias)
    (2 ^ c.fbits + c.fracOf a) (2 ^ c.fbits + c.fracOf b) (by omega) (by omega) (by omega) (by omega) (by omega)
  rw [hdI] at ta lo hi
  have hadd : add c a b = convertFinite c .add (c.signOf a) ((c.expOf a : Int) - c.bias)
      ((2 ^ c.fbits + c.fracOf a) * 8 + stickyShr ((2 ^ c.fbits + c.fracOf b) * 8) (c.expOf a - c.expOf b)) := by
    unfold add
    rw [prologue_skip c a b _ na nb]
    simp only [ia, ib, za, zb, Bool.false_eq_true, if_false]
    rw [normalizeOp_add_normal c a ea, normalizeOp_add_normal c b eb, ← hsign, ta]
    unfold convertTriple
    simp
  obtain ⟨hr1, hr2⟩ := same_sign_sum_round c hv (c.signOf a) (c.expOf a) (c.fracOf a) (c.expOf b) (c.fracOf b)
    hnarrow hfa hfb hge lo hi hlo hhi
  have hxa := normal_mag_pos (c.fracOf a) (2 ^ c.fbits) hF ((c.expOf a : Int) - c.bias)
  have hxb := normal_mag_pos (c.fracOf b) (2 ^ c.fbits) hF ((c.expOf b : Int) - c.bias)
  rw [va, vb, ← hsign, hadd]
  have hexp : expectOp "add"
      (Val.fin (c.signOf a) ((1 + (c.fracOf a : ℚ) / ((2 ^ c.fbits : Nat) : ℚ)) * pow2 ((c.expOf a : Int) - c.bias)))
      (Val.fin (c.signOf a) ((1 + (c.fracOf b : ℚ) / ((2 ^ c.fbits : Nat) : ℚ)) * pow2 ((c.expOf b : Int) - c.bias)))
      = .real ((if c.signOf a = true then -1 else 1) *
          ((1 + (c.fracOf a : ℚ) / ((2 ^ c.fbits : Nat) : ℚ)) * pow2 ((c.expOf a : Int) - c.bias)
            + (1 + (c.fracOf b : ℚ) / ((2 ^ c.fbits : Nat) : ℚ)) * pow2 ((c.expOf b : Int) - c.bias))) := by
    simp only [expectOp]
    cases hsa : c.signOf a
    · simp only [Bool.false_eq_true, if_false]
      rw [if_neg (by linarith)]; simp
    · simp only [if_true]
      rw [if_neg (by linarith)]; congr 1; ring
  rw [hexp]
  unfold satisfies
  simp only [Bool.and_eq_true, decide_eq_true_eq]
  exact ⟨hr1, hr2⟩

/-- the mirrored case: the RIGHT operand has the larger exponent (the left one is aligned and receives the sticky bit) -/
theorem add_same_sign_lt (c : Cfg) (hv : c.valid = true) (a b : Nat)
    (hnarrow : c.fbits + 6 < 65)
    (hna : normalOperand c a = true) (hnb : normalOperand c b = true)
    (hsign : c.signOf a = c.signOf b) (hlt : c.expOf a < c.expOf b)
    (hlo : c.minExpNormal ≤ ((c.expOf b : Int) - c.bias) + sigScale (c.fbits + 3)
        ((2 ^ c.fbits + c.fracOf b) * 8 + stickyShr ((2 ^ c.fbits + c.fracOf a) * 8) (c.expOf b - c.expOf a)))
    (hhi : ((c.expOf b : Int) - c.bias) + sigScale (c.fbits + 3)
        ((2 ^ c.fbits + c.fracOf b) * 8 + stickyShr ((2 ^ c.fbits + c.fracOf a) * 8) (c.expOf b - c.expOf a)) + c.bias + 1 < c.emax) :
    satisfies c (expectOp "add" (cfVal c a) (cfVal c b)) (add c a b) = true := by
  obtain ⟨na, ia, za, ea, va⟩ := normalOperand_facts c hv a hna
  obtain ⟨nb, ib, zb, eb, vb⟩ := normalOperand_facts c hv b hnb
  have hF := two_pow_pos c.fbits
  have hfa := fracOf_lt c a
  have hfb := fracOf_lt c b
  have p1 : 2 ^ (c.fbits + 1) = 2 ^ c.fbits * 2 := by rw [Nat.pow_add]
  have hdI : ((c.expOf b : Int) - c.bias - ((c.expOf a : Int) - c.bias)).toNat = c.expOf b - c.expOf a := by omega
  obtain ⟨ta, lo, hi⟩ := tripleAdd_same_sign_lt c.fbits (c.signOf a) ((c.expOf a : Int) - c.bias) ((c.expOf b : Int) - c.bias)
    (2 ^ c.fbits + c.fracOf a) (2 ^ c.fbits + c.fracOf b) (by omega) (by omega) (by omega) (by omega) (by omega)
  rw [hdI] at ta lo hi
  have hcomm : stickyShr ((2 ^ c.fbits + c.fracOf a) * 8) (c.expOf b - c.expOf a) + (2 ^ c.fbits + c.fracOf b) * 8
      = (2 ^ c.fbits + c.fracOf b) * 8 + stickyShr ((2 ^ c.fbits + c.fracOf a) * 8) (c.expOf b - c.expOf a) := Nat.add_comm _ _
  rw [hcomm] at ta lo hi
  have hadd : add c a b = convertFinite c .add (c.signOf a) ((c.expOf b : Int) - c.bias)
      ((2 ^ c.fbits + c.fracOf b) * 8 + stickyShr ((2 ^ c.fbits + c.fracOf a) * 8) (c.expOf b - c.expOf a)) := by
    unfold add
    rw [prologue_skip c a b _ na nb]
    simp only [ia, ib, za, zb, Bool.false_eq_true, if_false]
    rw [normalizeOp_add_normal c a ea, normalizeOp_add_normal c b eb, ← hsign, ta]
    unfold convertTriple
    simp
  obtain ⟨hr1, hr2⟩ := same_sign_sum_round c hv (c.signOf a) (c.expOf b) (c.fracOf b) (c.expOf a) (c.fracOf a)
    hnarrow hfb hfa (le_of_lt hlt) lo hi hlo hhi
  have hxa := normal_mag_pos (c.fracOf a) (2 ^ c.fbits) hF ((c.expOf a : Int) - c.bias)
  have hxb := normal_mag_pos (c.fracOf b) (2 ^ c.fbits) hF ((c.expOf b : Int) - c.bias)
  rw [va, vb, ← hsign, hadd]
  have hexp : expectOp "add"
      (Val.fin (c.signOf a) ((1 + (c.fracOf a : ℚ) / ((2 ^ c.fbits : Nat) : ℚ)) * pow2 ((c.expOf a : Int) - c.bias)))
      (Val.fin (c.signOf a) ((1 + (c.fracOf b : ℚ) / ((2 ^ c.fbits : Nat) : ℚ)) * pow2 ((c.expOf b : Int) - c.bias)))
      = .real ((if c.signOf a = true then -1 else 1) *
          ((1 + (c.fracOf b : ℚ) / ((2 ^ c.fbits : Nat) : ℚ)) * pow2 ((c.expOf b : Int) - c.bias)
            + (1 + (c.fracOf a : ℚ) / ((2 ^ c.fbits : Nat) : ℚ)) * pow2 ((c.expOf a : Int) - c.bias))) := by
    simp only [expectOp]
    cases hsa : c.signOf a
    · simp only [Bool.false_eq_true, if_false]
      rw [if_neg (by linarith)]; congr 1; ring
    · simp only [if_true]
      rw [if_neg (by linarith)]; congr 1; ring
  rw [hexp]
  unfold satisfies
  simp only [Bool.and_eq_true, decide_eq_true_eq]
  exact ⟨hr1, hr2⟩

end UVerif.Cfloat
