import Mathlib.Tactic.Ring
import Mathlib.Tactic.Linarith
import Mathlib.Tactic.FieldSimp
import Mathlib.Tactic.ByContra
import Mathlib.Algebra.Order.Field.Power
import Mathlib.Data.Rat.Floor
import UVerifProofs.Lemmas.CfloatOps
import UVerifProofs.Lemmas.CfloatSelf
import UVerifProofs.Lemmas.CfloatWide
import UVerifProofs.Lemmas.CfloatArith
open UVerif UVerif.Cfloat

/-!
  The four operators on ALL operand pairs (normals, supernormals, subnormals; every result range), es ≤ 20, every configuration but es = 1 with one fraction bit,
  outside the recorded input classes.
-/
namespace UVerif.Cfloat

theorem absR_signed (v : ℚ) : (if decide (v < 0) = true then (-1 : ℚ) else 1) * absR v = v := by
  unfold absR
  by_cases h : v < 0
  · simp [h]
  · simp [h]

/-- from the blocktriple stage to the encoding: `convert` of a triple that rounds like v satisfies the expectation -/
theorem finish_triple (c : Cfg) (hv : c.valid = true) (hg : Gen c) (hes20 : c.es ≤ 20) (hbt : 0 < c.bt)
    (o : Op) (T : Triple) (v : ℚ) (hrad : c.fbits ≤ o.radix c.fbits)
    (hT : TripleFor c.fbits o T v)
    (hw : v ≠ 0 → o.bfbits c.fbits ≥ 65 → exactlyRepresentable c (absR v) = true)
    (hss : v ≠ 0 → c.sat = true → c.sup = true → overflows c (absR v) = false)
    (hsn : v ≠ 0 → c.sat = true → c.sup = false → roundsToInfPattern c (absR v) = false) :
    satisfies c (if v = 0 then .zero none else .real v) (convertTriple c o T) = true := by
  rcases hT with ⟨h0, hT⟩ | ⟨hne, tn, ti, tz, tsg, tsig, tRL⟩
  · rw [if_pos h0, hT]
    have : convertTriple c o ({} : Triple) = 0 := by unfold convertTriple signBit; simp
    rw [this]
    obtain ⟨z1, z2⟩ := isZero_zero c hv
    exact sat_zero_any c hv 0 z2 z1
  · rw [if_neg hne]
    have hconv : convertTriple c o T = convertFinite c o T.sign T.scale T.sig := by
      unfold convertTriple; simp [tn, ti, tz]
    rw [hconv]
    obtain ⟨r1, r2⟩ := convert_master_all c hv hg hes20 hbt o T.sign T.scale T.sig (absR v) tsig hrad tRL (fun h => hw hne (by omega)) (hss hne) (hsn hne)
    rw [tsg] at r1 r2 ⊢
    rw [absR_signed] at r2
    unfold satisfies
    simp only [Bool.and_eq_true, decide_eq_true_eq]
    exact ⟨r1, r2⟩

end UVerif.Cfloat

namespace UVerif.Cfloat

/-- operator* on finite non-zero operands: exact product, delivered to `convert` as a triple that rounds like it -/
theorem mul_stage (c : Cfg) (hv : c.valid = true) (a b : Nat) (ha : finiteNZ c a = true) (hb : finiteNZ c b = true) :
    ∃ (T : Triple) (v : ℚ), v ≠ 0 ∧ expectOp "mul" (cfVal c a) (cfVal c b) = .real v ∧
      mul c a b = convertTriple c .mul T ∧ TripleFor c.fbits .mul T v := by
  obtain ⟨_, hfb, _, _⟩ := valid_facts c hv
  obtain ⟨na, ia, za, a1, a2, va, ma, _, _⟩ := operand_facts c hv a ha
  obtain ⟨nb, ib, zb, b1, b2, vb, mb, _, _⟩ := operand_facts c hv b hb
  have hT := tripleMul_for c.fbits hfb (c.signOf a) (c.signOf b) (scaleOf c a) (scaleOf c b) (sigBits c a) (sigBits c b) a1 a2 b1 b2
  have hxa : 0 < (sigBits c a : ℚ) * pow2 (scaleOf c a - (c.fbits : Int)) := by
    have : (0 : ℚ) < (sigBits c a : ℚ) := by exact_mod_cast (show 0 < sigBits c a by have := two_pow_pos c.fbits; omega)
    have := pow2_pos (scaleOf c a - (c.fbits : Int)); positivity
  have hxb : 0 < (sigBits c b : ℚ) * pow2 (scaleOf c b - (c.fbits : Int)) := by
    have : (0 : ℚ) < (sigBits c b : ℚ) := by exact_mod_cast (show 0 < sigBits c b by have := two_pow_pos c.fbits; omega)
    have := pow2_pos (scaleOf c b - (c.fbits : Int)); positivity
  refine ⟨_, _, ?_, ?_, ?_, hT⟩
  · have : 0 < (sigBits c a : ℚ) * pow2 (scaleOf c a - (c.fbits : Int)) * ((sigBits c b : ℚ) * pow2 (scaleOf c b - (c.fbits : Int))) := by positivity
    exact (absR_pos_mul _ _ this).2.2
  · rw [va, vb]
    simp only [expectOp]
    rw [if_neg (by intro hc; rcases hc with hc | hc <;> linarith)]
  · unfold mul
    rw [prologue_skip c a b _ na nb]
    simp only [ia, ib, za, zb, Bool.or_self, Bool.false_eq_true, if_false]
    rw [ma, mb]; rfl

/-- operator/ on finite non-zero operands -/
theorem div_stage (c : Cfg) (hv : c.valid = true) (a b : Nat) (ha : finiteNZ c a = true) (hb : finiteNZ c b = true) :
    ∃ (T : Triple) (v : ℚ), v ≠ 0 ∧ expectOp "div" (cfVal c a) (cfVal c b) = .real v ∧
      div c a b = convertTriple c .div T ∧ TripleFor c.fbits .div T v := by
  obtain ⟨_, hfb, _, _⟩ := valid_facts c hv
  obtain ⟨na, ia, za, a1, a2, va, _, _, da⟩ := operand_facts c hv a ha
  obtain ⟨nb, ib, zb, b1, b2, vb, _, _, db⟩ := operand_facts c hv b hb
  have hT := tripleDiv_for c.fbits hfb (c.signOf a) (c.signOf b) (scaleOf c a) (scaleOf c b) (sigBits c a) (sigBits c b) a1 a2 b1 b2
  have hxa : 0 < (sigBits c a : ℚ) * pow2 (scaleOf c a - (c.fbits : Int)) := by
    have : (0 : ℚ) < (sigBits c a : ℚ) := by exact_mod_cast (show 0 < sigBits c a by have := two_pow_pos c.fbits; omega)
    have := pow2_pos (scaleOf c a - (c.fbits : Int)); positivity
  have hxb : 0 < (sigBits c b : ℚ) * pow2 (scaleOf c b - (c.fbits : Int)) := by
    have : (0 : ℚ) < (sigBits c b : ℚ) := by exact_mod_cast (show 0 < sigBits c b by have := two_pow_pos c.fbits; omega)
    have := pow2_pos (scaleOf c b - (c.fbits : Int)); positivity
  refine ⟨_, _, ?_, ?_, ?_, hT⟩
  · have : 0 < (sigBits c a : ℚ) * pow2 (scaleOf c a - (c.fbits : Int)) / ((sigBits c b : ℚ) * pow2 (scaleOf c b - (c.fbits : Int))) := by positivity
    exact (absR_pos_mul _ _ this).2.2
  · rw [va, vb]
    simp only [expectOp]
    rw [if_neg (ne_of_gt hxb), if_neg (ne_of_gt hxa)]
  · unfold div
    rw [prologue_skip c a b _ na nb]
    simp only [ia, ib, za, zb, Bool.false_eq_true, if_false]
    rw [da, db]; rfl

/-- operator+ on finite non-zero operands -/
theorem add_stage (c : Cfg) (hv : c.valid = true) (a b : Nat) (ha : finiteNZ c a = true) (hb : finiteNZ c b = true) :
    ∃ (T : Triple) (v : ℚ), expectOp "add" (cfVal c a) (cfVal c b) = (if v = 0 then .zero none else .real v) ∧
      add c a b = convertTriple c .add T ∧ TripleFor c.fbits .add T v := by
  obtain ⟨na, ia, za, a1, a2, va, _, aa, _⟩ := operand_facts c hv a ha
  obtain ⟨nb, ib, zb, b1, b2, vb, _, ab, _⟩ := operand_facts c hv b hb
  have hT := tripleAdd_for c.fbits (c.signOf a) (c.signOf b) (scaleOf c a) (scaleOf c b) (sigBits c a) (sigBits c b) a1 a2 b1 b2
  refine ⟨_, _, ?_, ?_, hT⟩
  · rw [va, vb]
    simp only [expectOp]
    have e1 : (if c.signOf a = true then -((sigBits c a : ℚ) * pow2 (scaleOf c a - (c.fbits : Int))) else (sigBits c a : ℚ) * pow2 (scaleOf c a - (c.fbits : Int)))
        = (if c.signOf a = true then (-1 : ℚ) else 1) * ((sigBits c a : ℚ) * pow2 (scaleOf c a - (c.fbits : Int))) := by
      cases c.signOf a <;> simp
    have e2 : (if c.signOf b = true then -((sigBits c b : ℚ) * pow2 (scaleOf c b - (c.fbits : Int))) else (sigBits c b : ℚ) * pow2 (scaleOf c b - (c.fbits : Int)))
        = (if c.signOf b = true then (-1 : ℚ) else 1) * ((sigBits c b : ℚ) * pow2 (scaleOf c b - (c.fbits : Int))) := by
      cases c.signOf b <;> simp
    rw [e1, e2]
  · unfold add
    rw [prologue_skip c a b _ na nb]
    simp only [ia, ib, za, zb, Bool.false_eq_true, if_false]
    rw [aa, ab]; rfl

end UVerif.Cfloat

namespace UVerif.Cfloat

/-- what the class hypothesis gives for a real expectation of two finite non-zero operands -/
theorem arithClass_real (c : Cfg) (op : String) (a b : Nat) (v : ℚ)
    (ha : finiteNZ c a = true) (hb : finiteNZ c b = true) (h : arithClass c op a b (.real v) = "") :
    ((opOf op).bfbits c.fbits ≥ 65 → exactlyRepresentable c (absR v) = true) ∧
    (c.sat = true → c.sup = true → overflows c (absR v) = false) ∧
    (c.sat = true → c.sup = false → roundsToInfPattern c (absR v) = false) := by
  unfold arithClass at h
  simp only [ha, hb, Bool.and_self, Bool.not_true, Bool.false_eq_true, if_false] at h
  refine ⟨?_, ?_, ?_⟩
  · intro hw
    by_contra hne
    have : exactlyRepresentable c (absR v) = false := by simpa using hne
    rw [if_pos (by simp [hw, this])] at h
    exact absurd h (by decide)
  · intro hsat hsup
    by_contra hne
    have hov : overflows c (absR v) = true := by simpa using hne
    split_ifs at h <;> simp_all
  · intro hsat hsup
    by_contra hne
    have hp : roundsToInfPattern c (absR v) = true := by simpa using hne
    split_ifs at h <;> simp_all

theorem finiteNZ_of_fin (c : Cfg) (hv : c.valid = true) (a : Nat) (s : Bool) (m : ℚ) (hm : m ≠ 0)
    (h : cfVal c a = .fin s m) : finiteNZ c a = true := by
  unfold finiteNZ
  rcases cfVal_view c hv a with ⟨e, _⟩ | ⟨e, _⟩ | ⟨m', e, hn, hi, hz⟩
  · rw [e] at h; cases h
  · rw [e] at h; cases h
  · rw [e] at h
    simp only [Val.fin.injEq] at h
    rw [hn, hi, hz, h.2]; simp [hm]

theorem special_of_not_finiteNZ (c : Cfg) (hv : c.valid = true) (a : Nat) (h : ¬ finiteNZ c a = true) :
    (∃ s, cfVal c a = .nan s) ∨ (∃ s, cfVal c a = .inf s) ∨ cfVal c a = .fin (c.signOf a) 0 := by
  rcases cfVal_view c hv a with ⟨e, _⟩ | ⟨e, _⟩ | ⟨m, e, _, _, _⟩
  · exact Or.inl ⟨_, e⟩
  · exact Or.inr (Or.inl ⟨_, e⟩)
  · right; right
    by_cases hm : m = 0
    · rw [e, hm]
    · exact absurd (finiteNZ_of_fin c hv a _ m hm e) h

/-- 0 + y returns y unchanged, which is a rounding of itself -/
theorem add_zero_left (c : Cfg) (hv : c.valid = true) (hg : Gen c) (a b : Nat) (hb : b < 2 ^ c.nbits)
    (hza : cfVal c a = .fin (c.signOf a) 0) (hfb : finiteNZ c b = true) :
    satisfies c (expectOp "add" (cfVal c a) (cfVal c b)) (add c a b) = true := by
  obtain ⟨m, hmpos, hvb, hnz⟩ := nearestNZ_self c hv hg b hfb
  obtain ⟨nb, ib, zb, _⟩ := operand_facts c hv b hfb
  have hna : isNan c a = false := by rw [← cfVal_isNan c hv, hza]; rfl
  have hia : isInf c a = false := by
    rw [Bool.eq_false_iff]; intro hc
    rw [(cfVal_isInf c hv a).mp hc] at hza; cases hza
  have hzz : isZero c a = true := by rw [← cfVal_isZero c hv, hza]; simp [Val.isZero]
  have hadd : add c a b = b := by
    unfold add
    rw [prologue_skip c a b _ hna nb]
    simp [hia, ib, hzz]
  rw [hadd, hza, hvb]
  simp only [expectOp]
  have hne : ¬ ((if c.signOf a = true then -(0 : ℚ) else 0) + (if c.signOf b = true then -m else m) = 0) := by
    cases c.signOf a <;> cases c.signOf b <;> simp <;> linarith
  rw [if_neg hne]
  have e0 : (if c.signOf a = true then -(0 : ℚ) else 0) + (if c.signOf b = true then -m else m) = (if c.signOf b = true then -m else m) := by
    cases c.signOf a <;> simp
  rw [e0]
  unfold satisfies
  simp only [Bool.and_eq_true, decide_eq_true_eq]
  exact ⟨hb, hnz⟩

/-- x + 0 returns x unchanged -/
theorem add_zero_right (c : Cfg) (hv : c.valid = true) (hg : Gen c) (a b : Nat) (ha : a < 2 ^ c.nbits)
    (hfa : finiteNZ c a = true) (hzb : cfVal c b = .fin (c.signOf b) 0) :
    satisfies c (expectOp "add" (cfVal c a) (cfVal c b)) (add c a b) = true := by
  obtain ⟨m, hmpos, hva, hnz⟩ := nearestNZ_self c hv hg a hfa
  obtain ⟨na, ia, za, _⟩ := operand_facts c hv a hfa
  have hnb : isNan c b = false := by rw [← cfVal_isNan c hv, hzb]; rfl
  have hib : isInf c b = false := by
    rw [Bool.eq_false_iff]; intro hc
    rw [(cfVal_isInf c hv b).mp hc] at hzb; cases hzb
  have hzz : isZero c b = true := by rw [← cfVal_isZero c hv, hzb]; simp [Val.isZero]
  have hadd : add c a b = a := by
    unfold add
    rw [prologue_skip c a b _ na hnb]
    simp [ia, hib, za, hzz]
  rw [hadd, hzb, hva]
  simp only [expectOp]
  have hne : ¬ ((if c.signOf a = true then -m else m) + (if c.signOf b = true then -(0 : ℚ) else 0) = 0) := by
    cases c.signOf a <;> cases c.signOf b <;> simp <;> linarith
  rw [if_neg hne]
  have e0 : (if c.signOf a = true then -m else m) + (if c.signOf b = true then -(0 : ℚ) else 0) = (if c.signOf a = true then -m else m) := by
    cases c.signOf b <;> simp
  rw [e0]
  unfold satisfies
  simp only [Bool.and_eq_true, decide_eq_true_eq]
  exact ⟨ha, hnz⟩

end UVerif.Cfloat

namespace UVerif.Cfloat

theorem finiteNZ_negate (c : Cfg) (hv : c.valid = true) (b : Nat) : finiteNZ c (negate c b) = finiteNZ c b := by
  have nf := negate_facts c hv b
  have h1 : isInf c (negate c b) = isInf c b := by unfold isInf; rw [nf.2.1]
  have h2 : isZero c (negate c b) = isZero c b := by
    rw [← cfVal_isZero c hv, ← cfVal_isZero c hv, cfVal_negate c hv]
    cases cfVal c b <;> rfl
  unfold finiteNZ
  rw [isNan_negate c hv, h1, h2]

theorem arithClass_sub (c : Cfg) (hv : c.valid = true) (a b : Nat) (e : Expect) :
    arithClass c "sub" a b e = arithClass c "add" a (negate c b) e := by
  unfold arithClass
  rw [finiteNZ_negate c hv]
  rfl

end UVerif.Cfloat
