import Mathlib.Tactic.Ring
import Mathlib.Tactic.Linarith
import Mathlib.Tactic.FieldSimp
import Mathlib.Algebra.Order.Field.Power
import Mathlib.Data.Rat.Floor
import UVerifProofs.Lemmas.CfloatSubCore
open UVerif UVerif.Cfloat

namespace UVerif.Cfloat

/-- subtraction is addition of the negated operand, also in the special-value table -/
theorem expect_sub_eq_add_neg (va vb : Val) : expectOp "sub" va vb = expectOp "add" va (negVal vb) := by
  cases va with
  | nan s => cases vb <;> simp [expectOp, negVal]
  | inf s =>
    cases vb with
    | nan t => simp [expectOp, negVal]
    | inf t => cases s <;> cases t <;> simp [expectOp, negVal]
    | fin t y => simp [expectOp, negVal]
  | fin s x =>
    cases vb with
    | nan t => simp [expectOp, negVal]
    | inf t => simp [expectOp, negVal]
    | fin t y =>
      cases s <;> cases t <;> simp only [expectOp, negVal, Bool.not_true, Bool.not_false, if_true, if_false, Bool.false_eq_true] <;>
        simp only [sub_eq_add_neg, neg_neg]

/-- side condition of `add_same_sign_partial`: the sum's exponent lies in the normal range, at least two below
    the all-ones exponent (the sum significant is formed with the operand of the larger exponent unshifted, as
    blocktriple::add does) -/
def addInRange (c : Cfg) (a b : Nat) : Bool :=
  let (hiOp, loOp) := if c.expOf b ≤ c.expOf a then (a, b) else (b, a)
  let S := (2 ^ c.fbits + c.fracOf hiOp) * 8 + stickyShr ((2 ^ c.fbits + c.fracOf loOp) * 8) (c.expOf hiOp - c.expOf loOp)
  let E : Int := ((c.expOf hiOp : Int) - c.bias) + sigScale (c.fbits + 3) S
  decide (c.minExpNormal ≤ E) && decide (E + c.bias + 1 < c.emax)

/-- **C02 for addition, operands of the same sign** (partial): every configuration with fbits ≤ 58 (the sum triple
    fits 64 bits), all finite operands with non-zero exponent field and equal signs, in EITHER order and with ANY
    exponent difference (the alignment shift may discard arbitrarily many bits into the sticky bit), result in the
    normal range below the top binades: operator+ returns the IEEE rounding of the exact sum.
    (Operands of opposite signs — cancellation — are open, see `C02_add_full`.) -/
theorem add_same_sign_partial (c : Cfg) (hv : c.valid = true) (a b : Nat)
    (hnarrow : c.fbits + 6 < 65)
    (hna : normalOperand c a = true) (hnb : normalOperand c b = true)
    (hsign : c.signOf a = c.signOf b)
    (hr : addInRange c a b = true) :
    satisfies c (expectOp "add" (cfVal c a) (cfVal c b)) (add c a b) = true := by
  unfold addInRange at hr
  by_cases hge : c.expOf b ≤ c.expOf a
  · simp only [hge, if_true, Bool.and_eq_true, decide_eq_true_eq] at hr
    exact add_same_sign_ge c hv a b hnarrow hna hnb hsign hge hr.1 hr.2
  · simp only [hge, if_false, Bool.and_eq_true, decide_eq_true_eq] at hr
    exact add_same_sign_lt c hv a b hnarrow hna hnb hsign (by omega) hr.1 hr.2

/-- side condition for operands of opposite sign: either the aligned significants cancel exactly, or the exponent of
    the renormalised difference lies in the normal range, at least two below the all-ones exponent -/
def addOppInRange (c : Cfg) (a b : Nat) : Bool :=
  let (hiOp, loOp) := if c.expOf b ≤ c.expOf a then (a, b) else (b, a)
  let U := (2 ^ c.fbits + c.fracOf hiOp) * 8
  let V := stickyShr ((2 ^ c.fbits + c.fracOf loOp) * 8) (c.expOf hiOp - c.expOf loOp)
  let m := if V < U then U - V else V - U
  let E : Int := ((c.expOf hiOp : Int) - c.bias) - ((c.fbits + 3 - Nat.log2 m : Nat) : Int)
  U == V || (decide (c.minExpNormal ≤ E) && decide (E + c.bias + 1 < c.emax))

/-- **C02 for addition, operands of opposite sign** (cancellation): fbits ≤ 58, finite operands with non-zero
    exponent field, either order, any exponent difference, any amount of cancellation (the renormalising left
    shift), result zero or in the normal range below the top binades: exact cancellation gives a zero, otherwise the
    result is the IEEE rounding of the exact difference and carries the sign of the larger operand. -/
theorem add_opp_sign_partial (c : Cfg) (hv : c.valid = true) (a b : Nat)
    (hnarrow : c.fbits + 6 < 65)
    (hna : normalOperand c a = true) (hnb : normalOperand c b = true)
    (hsign : c.signOf b = !c.signOf a)
    (hr : addOppInRange c a b = true) :
    satisfies c (expectOp "add" (cfVal c a) (cfVal c b)) (add c a b) = true := by
  unfold addOppInRange at hr
  by_cases hge : c.expOf b ≤ c.expOf a
  · simp only [hge, if_true, Bool.or_eq_true, beq_iff_eq, Bool.and_eq_true, decide_eq_true_eq] at hr
    refine add_opp_sign_ge c hv a b hnarrow hna hnb hsign hge ?_ ?_
    · intro hne; rcases hr with h | h
      · exact absurd h hne
      · exact h.1
    · intro hne; rcases hr with h | h
      · exact absurd h hne
      · exact h.2
  · simp only [hge, if_false, Bool.or_eq_true, beq_iff_eq, Bool.and_eq_true, decide_eq_true_eq] at hr
    refine add_opp_sign_lt c hv a b hnarrow hna hnb hsign (by omega) ?_ ?_
    · intro hne; rcases hr with h | h
      · exact absurd h hne
      · exact h.1
    · intro hne; rcases hr with h | h
      · exact absurd h hne
      · exact h.2

/-- side condition of `add_partial` for any combination of signs -/
def addInRangeAll (c : Cfg) (a b : Nat) : Bool :=
  if c.signOf a == c.signOf b then addInRange c a b else addOppInRange c a b

/-- **C02 for addition** (partial, all sign combinations): every configuration with fbits ≤ 58 (≤ 64-bit path), all
    finite operands with non-zero exponent fields (normals, supernormals), result zero (exact cancellation) or in
    the normal range at least two below the all-ones exponent: operator+ satisfies the property's expectation.
    Open: subnormal operands / results, the two top binades (overflow cusp), the > 64-bit path (false there, D5). -/
theorem add_partial (c : Cfg) (hv : c.valid = true) (a b : Nat)
    (hnarrow : c.fbits + 6 < 65)
    (hna : normalOperand c a = true) (hnb : normalOperand c b = true)
    (hr : addInRangeAll c a b = true) :
    satisfies c (expectOp "add" (cfVal c a) (cfVal c b)) (add c a b) = true := by
  unfold addInRangeAll at hr
  by_cases hs : c.signOf a = c.signOf b
  · simp only [hs, beq_self_eq_true, if_true] at hr
    exact add_same_sign_partial c hv a b hnarrow hna hnb hs hr
  · have hne : (c.signOf a == c.signOf b) = false := by simpa using hs
    rw [hne] at hr
    simp only [Bool.false_eq_true, if_false] at hr
    have hsb : c.signOf b = !c.signOf a := by
      cases h1 : c.signOf a <;> cases h2 : c.signOf b <;> simp_all
    exact add_opp_sign_partial c hv a b hnarrow hna hnb hsb hr

theorem normalOperand_negate (c : Cfg) (hv : c.valid = true) (b : Nat) :
    normalOperand c (negate c b) = normalOperand c b := by
  have nf := negate_facts c hv b
  unfold normalOperand
  rw [isNan_negate c hv, expOf_abs c hv (negate c b), expOf_abs c hv b, nf.2.1]
  congr 2
  unfold isInf; rw [nf.2.1]

/-- **C02 for subtraction** (partial): a − b is a + (−b) in the code and in the property's table
    (`expect_sub_eq_add_neg`), so the addition theorem carries over with the side condition evaluated on the
    negated subtrahend. -/
theorem sub_partial (c : Cfg) (hv : c.valid = true) (a b : Nat)
    (hnarrow : c.fbits + 6 < 65)
    (hna : normalOperand c a = true) (hnb : normalOperand c b = true)
    (hr : addInRangeAll c a (negate c b) = true) :
    satisfies c (expectOp "sub" (cfVal c a) (cfVal c b)) (sub c a b) = true := by
  have hnb' : normalOperand c (negate c b) = true := by rw [normalOperand_negate c hv]; exact hnb
  have hn : isNan c b = false := (normalOperand_facts c hv b hnb).1
  unfold sub
  rw [if_neg (by simp [hn]), expect_sub_eq_add_neg, ← cfVal_negate c hv]
  exact add_partial c hv a (negate c b) hnarrow hna hnb' hr

end UVerif.Cfloat
