import Mathlib.Tactic.Ring
import Mathlib.Tactic.ByContra
import UVerifProofs.Lemmas.CfloatBits
import UVerifProofs.Lemmas.CfloatRound
open UVerif UVerif.Cfloat

namespace UVerif.Cfloat

theorem shl_or_eq_add (a b i : Nat) (h : b < 2 ^ i) : (a <<< i) ||| b = a * 2 ^ i + b := by
  rw [← Nat.shiftLeft_add_eq_or_of_lt h, Nat.shiftLeft_eq]

/-- an encoding whose exponent field is below all-ones is never a NaN encoding of the model -/
theorem isNan_false_of_exp_lt (c : Cfg) (h : c.valid = true) (x : Nat) (he : c.expOf x < c.emax) : isNan c x = false := by
  unfold isNan
  have h1 : isNanEnc c x = false := by
    rw [Bool.eq_false_iff]; intro hc
    have := ((isNanEnc_iff c h x).mp hc).1; omega
  have h2 : isSuper c x = false := by
    unfold isSuper; rw [Bool.eq_false_iff]; intro hc
    have : c.expOf x = c.emax := by simpa using hc
    omega
  cases c.sup <;> simp [h1, h2]

/-- the shift/or assembly `((sign << es | be) << fbits | fr) mod 2^nbits` is the arithmetic composition of the
    fields, and with an exponent field below all-ones it is neither a NaN nor an infinity encoding -/
theorem raw_compose (c : Cfg) (hv : c.valid = true) (sign : Bool) (be fr : Nat) (hbe : be < c.emax) (hfr : fr < 2 ^ c.fbits) :
    ((((if sign = true then 1 else 0) <<< c.es) ||| be) <<< c.fbits ||| fr) % 2 ^ c.nbits = fr + 2 ^ c.fbits * be + signBit c sign ∧
    isNan c (fr + 2 ^ c.fbits * be + signBit c sign) = false ∧ isInf c (fr + 2 ^ c.fbits * be + signBit c sign) = false := by
  obtain ⟨_, _, h3, h4⟩ := valid_facts c hv
  have hemax : c.emax < 2 ^ c.es := by unfold Cfg.emax; have := two_pow_pos c.es; omega
  have hbe2 : be < 2 ^ c.es := by omega
  have fc := fields_of_compose c hv sign be fr hbe2 hfr
  have e1 : ((((if sign = true then 1 else 0) <<< c.es) ||| be) <<< c.fbits ||| fr) = fr + 2 ^ c.fbits * be + signBit c sign := by
    rw [shl_or_eq_add _ _ _ hbe2, shl_or_eq_add _ _ _ hfr]
    unfold signBit
    rw [h4, Nat.pow_add]
    cases sign <;> simp <;> ring
  rw [e1, Nat.mod_eq_of_lt fc.1]
  refine ⟨rfl, isNan_false_of_exp_lt c hv _ (by rw [fc.2.2.1]; exact hbe), ?_⟩
  rw [Bool.eq_false_iff]; intro hc
  have := ((isInf_iff c hv _).mp hc).1
  rw [fc.2.2.1] at this; omega

/-- the rounding tail of `convert` on the ≤ 64-bit path, normal result below the all-ones exponent:
    the assembled encoding has fraction `rneShr sig t − 2^fbits` and exponent `biased`, or (carry) fraction 0 and
    exponent `biased + 1`. -/
theorem assemble_normal (c : Cfg) (hv : c.valid = true) (sign : Bool) (biased sig t : Nat)
    (hlo : 2 ^ c.fbits ≤ sig >>> t) (hhi : sig >>> t < 2 ^ (c.fbits + 1))
    (hbe : (if rneShr sig t = 2 ^ (c.fbits + 1) then biased + 1 else biased) < c.emax) :
    assemble c sign biased sig t =
      (if rneShr sig t = 2 ^ (c.fbits + 1) then 0 else rneShr sig t - 2 ^ c.fbits)
        + 2 ^ c.fbits * (if rneShr sig t = 2 ^ (c.fbits + 1) then biased + 1 else biased)
        + signBit c sign := by
  obtain ⟨_, _, h3, h4⟩ := valid_facts c hv
  have hR := shift_round_eq_rneShr sig t
  have hF := two_pow_pos c.fbits
  have hF2 : 2 ^ (c.fbits + 1) = 2 * 2 ^ c.fbits := by rw [Nat.pow_succ]; omega
  have hfr0 : (sig >>> t) % 2 ^ c.fbits = sig >>> t - 2 ^ c.fbits := by
    rw [Nat.mod_eq_sub_mod hlo, Nat.mod_eq_of_lt (by omega)]
  have hemax : c.emax < 2 ^ c.es := by unfold Cfg.emax; have := two_pow_pos c.es; omega
  unfold assemble
  simp only []
  rw [hfr0]
  -- the pair (be, fr)
  have key : ∀ (be fr : Nat), be < c.emax → fr < 2 ^ c.fbits →
      (let raw := ((((if sign = true then 1 else 0) <<< c.es) ||| be) <<< c.fbits ||| fr) % 2 ^ c.nbits
       if isNan c raw = true then (if c.sat = true then (if sign = true then maxnegEnc c else maxposEnc c) else setInf c sign) else raw)
        = fr + 2 ^ c.fbits * be + signBit c sign := by
    intro be fr hbe' hfr
    have hbe2 : be < 2 ^ c.es := by omega
    have fc := fields_of_compose c hv sign be fr hbe2 hfr
    have e1 : ((((if sign = true then 1 else 0) <<< c.es) ||| be) <<< c.fbits ||| fr) = fr + 2 ^ c.fbits * be + signBit c sign := by
      rw [shl_or_eq_add _ _ _ hbe2, shl_or_eq_add _ _ _ hfr]
      unfold signBit
      rw [h4, Nat.pow_add]
      cases sign <;> simp <;> ring
    simp only []
    rw [e1, Nat.mod_eq_of_lt fc.1]
    have hn : isNan c (fr + 2 ^ c.fbits * be + signBit c sign) = false :=
      isNan_false_of_exp_lt c hv _ (by rw [fc.2.2.1]; exact hbe')
    rw [hn]; simp
  by_cases hc : rneShr sig t = 2 ^ (c.fbits + 1)
  · rw [if_pos hc] at hbe
    simp only [hc, if_true]
    have hru : roundingDirection sig t = true := by
      by_contra hne
      have : roundingDirection sig t = false := by simpa using hne
      rw [this] at hR; simp at hR; omega
    have e2 : (sig >>> t - 2 ^ c.fbits + 1) = 2 ^ c.fbits := by
      rw [hru] at hR; simp at hR; omega
    simp only [hru, if_true, e2]
    have hne : ¬ biased = c.emax := by omega
    simp only [hne, if_false]
    have := key (biased + 1) 0 hbe hF
    simpa using this
  · rw [if_neg hc] at hbe
    simp only [hc, if_false]
    have hfr1 : (if roundingDirection sig t = true then sig >>> t - 2 ^ c.fbits + 1 else sig >>> t - 2 ^ c.fbits) = rneShr sig t - 2 ^ c.fbits := by
      cases hrd : roundingDirection sig t <;> rw [hrd] at hR <;> simp at hR ⊢ <;> omega
    have hlt : rneShr sig t - 2 ^ c.fbits < 2 ^ c.fbits := by
      have : rneShr sig t ≤ 2 ^ (c.fbits + 1) := by
        cases hrd : roundingDirection sig t <;> rw [hrd] at hR <;> simp at hR <;> omega
      omega
    rw [hfr1]
    have hne : ¬ (rneShr sig t - 2 ^ c.fbits = 2 ^ c.fbits) := by omega
    simp only [hne, if_false]
    exact key biased _ hbe hlt

/-- the rounding tail of `convert` for a subnormal result (biased exponent 0, the hidden bit shifted below the
    fraction field): fraction `rneShr sig t`, or — when rounding reaches 2^fbits — the smallest normal -/
theorem assemble_subnormal (c : Cfg) (hv : c.valid = true) (sign : Bool) (sig t : Nat)
    (hhi : sig >>> t < 2 ^ c.fbits) (hem : 1 < c.emax) :
    assemble c sign 0 sig t =
      (if rneShr sig t = 2 ^ c.fbits then 0 else rneShr sig t)
        + 2 ^ c.fbits * (if rneShr sig t = 2 ^ c.fbits then 1 else 0)
        + signBit c sign := by
  obtain ⟨_, _, h3, h4⟩ := valid_facts c hv
  have hR := shift_round_eq_rneShr sig t
  have hF := two_pow_pos c.fbits
  have hfr0 : (sig >>> t) % 2 ^ c.fbits = sig >>> t := Nat.mod_eq_of_lt hhi
  have hemax : c.emax < 2 ^ c.es := by unfold Cfg.emax; have := two_pow_pos c.es; omega
  unfold assemble
  simp only []
  rw [hfr0]
  have key : ∀ (be fr : Nat), be < c.emax → fr < 2 ^ c.fbits →
      (let raw := ((((if sign = true then 1 else 0) <<< c.es) ||| be) <<< c.fbits ||| fr) % 2 ^ c.nbits
       if isNan c raw = true then (if c.sat = true then (if sign = true then maxnegEnc c else maxposEnc c) else setInf c sign) else raw)
        = fr + 2 ^ c.fbits * be + signBit c sign := by
    intro be fr hbe' hfr
    have hbe2 : be < 2 ^ c.es := by omega
    have fc := fields_of_compose c hv sign be fr hbe2 hfr
    have e1 : ((((if sign = true then 1 else 0) <<< c.es) ||| be) <<< c.fbits ||| fr) = fr + 2 ^ c.fbits * be + signBit c sign := by
      rw [shl_or_eq_add _ _ _ hbe2, shl_or_eq_add _ _ _ hfr]
      unfold signBit
      rw [h4, Nat.pow_add]
      cases sign <;> simp <;> ring
    simp only []
    rw [e1, Nat.mod_eq_of_lt fc.1]
    have hn : isNan c (fr + 2 ^ c.fbits * be + signBit c sign) = false :=
      isNan_false_of_exp_lt c hv _ (by rw [fc.2.2.1]; exact hbe')
    rw [hn]; simp
  have hfr1 : (if roundingDirection sig t = true then sig >>> t + 1 else sig >>> t) = rneShr sig t := by
    cases hrd : roundingDirection sig t <;> rw [hrd] at hR <;> simp at hR ⊢ <;> omega
  rw [hfr1]
  have hle : rneShr sig t ≤ 2 ^ c.fbits := by
    cases hrd : roundingDirection sig t <;> rw [hrd] at hR <;> simp at hR <;> omega
  by_cases hc : rneShr sig t = 2 ^ c.fbits
  · have h0 : ¬ (0 = c.emax) := by omega
    simp only [hc, if_true, h0, if_false]
    have := key 1 0 hem hF
    simpa using this
  · simp only [hc, if_false]
    have := key 0 (rneShr sig t) (by omega) (by omega)
    simpa using this

end UVerif.Cfloat
