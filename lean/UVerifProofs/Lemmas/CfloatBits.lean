import UVerif.Model.Cfloat
open UVerif UVerif.Cfloat

namespace UVerif.Cfloat

/-- what `Cfg.valid` gives: es ≥ 1 and at least one fraction bit, nbits = 1 + es + fbits -/
theorem valid_facts (c : Cfg) (h : c.valid = true) :
    1 ≤ c.es ∧ 1 ≤ c.fbits ∧ c.nbits = 1 + c.es + c.fbits ∧ c.nbits - 1 = c.es + c.fbits := by
  unfold Cfg.valid at h
  unfold Cfg.fbits
  simp only [Bool.and_eq_true, decide_eq_true_eq] at h
  omega

theorem two_pow_pos (n : Nat) : 0 < 2 ^ n := Nat.pos_of_ne_zero (by simp)

/-- the low nbits-1 bits split into exponent field and fraction field -/
theorem absBits_split (c : Cfg) (h : c.valid = true) (b : Nat) :
    absBits c b = c.fracOf b + 2 ^ c.fbits * c.expOf b := by
  obtain ⟨_, _, _, h4⟩ := valid_facts c h
  unfold absBits Cfg.fracOf Cfg.expOf
  rw [h4, Nat.shiftRight_eq_div_pow, Nat.add_comm c.es, Nat.pow_add, Nat.mod_mul]

theorem fracOf_lt (c : Cfg) (b : Nat) : c.fracOf b < 2 ^ c.fbits := Nat.mod_lt _ (two_pow_pos _)
theorem expOf_lt (c : Cfg) (b : Nat) : c.expOf b < 2 ^ c.es := Nat.mod_lt _ (two_pow_pos _)

theorem isNanEnc_iff (c : Cfg) (h : c.valid = true) (b : Nat) :
    isNanEnc c b = true ↔ c.expOf b = c.emax ∧ c.fracOf b = 2 ^ c.fbits - 1 := by
  obtain ⟨_, _, _, h4⟩ := valid_facts c h
  unfold isNanEnc
  rw [absBits_split c h, h4, Nat.add_comm c.es, Nat.pow_add]
  have hf := fracOf_lt c b
  have he := expOf_lt c b
  unfold Cfg.emax
  generalize c.fracOf b = f at *
  generalize c.expOf b = e at *
  have hF := two_pow_pos c.fbits
  have hE := two_pow_pos c.es
  generalize 2 ^ c.fbits = F at *
  generalize 2 ^ c.es = E at *
  simp only [beq_iff_eq]
  constructor
  · intro hh
    have h1 : F * e ≤ F * (E - 1) := Nat.mul_le_mul_left F (by omega)
    have h2 : F * (E - 1) + F = F * E := by
      rw [← Nat.mul_succ]; congr 1; omega
    by_cases he' : e = E - 1
    · subst he'; omega
    · have : e + 1 ≤ E - 1 := by omega
      have h3 : F * (e + 1) ≤ F * (E - 1) := Nat.mul_le_mul_left F this
      rw [Nat.mul_succ] at h3
      omega
  · rintro ⟨rfl, rfl⟩
    have h2 : F * (E - 1) + F = F * E := by
      rw [← Nat.mul_succ]; congr 1; omega
    omega

theorem isInf_iff (c : Cfg) (h : c.valid = true) (b : Nat) :
    isInf c b = true ↔ c.expOf b = c.emax ∧ c.fracOf b = 2 ^ c.fbits - 2 := by
  obtain ⟨_, hfb, _, h4⟩ := valid_facts c h
  unfold isInf
  rw [absBits_split c h, h4, Nat.add_comm c.es, Nat.pow_add]
  have hf := fracOf_lt c b
  have he := expOf_lt c b
  unfold Cfg.emax
  generalize c.fracOf b = f at *
  generalize c.expOf b = e at *
  have hF : 2 ≤ 2 ^ c.fbits := by
    calc 2 = 2 ^ 1 := rfl
      _ ≤ 2 ^ c.fbits := Nat.pow_le_pow_right (by omega) hfb
  have hE := two_pow_pos c.es
  generalize 2 ^ c.fbits = F at *
  generalize 2 ^ c.es = E at *
  simp only [beq_iff_eq]
  constructor
  · intro hh
    have h1 : F * e ≤ F * (E - 1) := Nat.mul_le_mul_left F (by omega)
    have h2 : F * (E - 1) + F = F * E := by
      rw [← Nat.mul_succ]; congr 1; omega
    by_cases he' : e = E - 1
    · subst he'; omega
    · have : e + 1 ≤ E - 1 := by omega
      have h3 : F * (e + 1) ≤ F * (E - 1) := Nat.mul_le_mul_left F this
      rw [Nat.mul_succ] at h3
      omega
  · rintro ⟨rfl, rfl⟩
    have h2 : F * (E - 1) + F = F * E := by
      rw [← Nat.mul_succ]; congr 1; omega
    omega

theorem isZeroEnc_iff (c : Cfg) (h : c.valid = true) (b : Nat) :
    isZeroEnc c b = true ↔ c.expOf b = 0 ∧ c.fracOf b = 0 := by
  unfold isZeroEnc
  rw [absBits_split c h]
  have hF := two_pow_pos c.fbits
  simp only [beq_iff_eq]
  constructor
  · intro hh
    have h1 : c.fracOf b = 0 := by omega
    have h2 : 2 ^ c.fbits * c.expOf b = 0 := by omega
    rcases Nat.mul_eq_zero.mp h2 with h3 | h3
    · omega
    · exact ⟨h3, h1⟩
  · rintro ⟨h1, h2⟩
    rw [h1, h2]; simp

/-! ### encodings produced by the operator prologues -/

theorem nbits_pos (c : Cfg) (h : c.valid = true) : c.nbits = (c.nbits - 1) + 1 := by
  obtain ⟨_, _, h3, _⟩ := valid_facts c h; omega

theorem pow_nbits (c : Cfg) (h : c.valid = true) : 2 ^ c.nbits = 2 * 2 ^ (c.nbits - 1) := by
  calc 2 ^ c.nbits = 2 ^ ((c.nbits - 1) + 1) := by rw [← nbits_pos c h]
    _ = 2 * 2 ^ (c.nbits - 1) := by rw [Nat.pow_succ]; omega

/-- an encoding written as magnitude part + sign bit -/
theorem compose_facts (c : Cfg) (h : c.valid = true) (r : Nat) (s : Bool) (hr : r < 2 ^ (c.nbits - 1)) :
    r + signBit c s < 2 ^ c.nbits ∧ absBits c (r + signBit c s) = r ∧ c.signOf (r + signBit c s) = s := by
  have hp := pow_nbits c h
  have hP := two_pow_pos (c.nbits - 1)
  unfold signBit absBits Cfg.signOf
  rw [Nat.testBit_eq_decide_div_mod_eq]
  cases s
  · simp only [Bool.false_eq_true, if_false, Nat.add_zero]
    refine ⟨by omega, Nat.mod_eq_of_lt hr, ?_⟩
    rw [Nat.div_eq_of_lt hr]; simp
  · simp only [if_true]
    refine ⟨by omega, ?_, ?_⟩
    · rw [Nat.add_mod_right]; exact Nat.mod_eq_of_lt hr
    · rw [Nat.add_div_right _ hP, Nat.div_eq_of_lt hr]; simp

theorem qnan_facts (c : Cfg) (h : c.valid = true) :
    qnan c < 2 ^ c.nbits ∧ isNanEnc c (qnan c) = true ∧ c.signOf (qnan c) = false := by
  have hP := two_pow_pos (c.nbits - 1)
  have := compose_facts c h (2 ^ (c.nbits - 1) - 1) false (by omega)
  have e : 2 ^ (c.nbits - 1) - 1 + signBit c false = qnan c := by unfold signBit qnan; simp
  rw [e] at this
  refine ⟨this.1, ?_, this.2.2⟩
  unfold isNanEnc; rw [this.2.1]; simp

theorem snan_facts (c : Cfg) (h : c.valid = true) :
    snan c < 2 ^ c.nbits ∧ isNanEnc c (snan c) = true ∧ c.signOf (snan c) = true := by
  have hP := two_pow_pos (c.nbits - 1)
  have hp := pow_nbits c h
  have := compose_facts c h (2 ^ (c.nbits - 1) - 1) true (by omega)
  have e : 2 ^ (c.nbits - 1) - 1 + signBit c true = snan c := by unfold signBit snan; simp; omega
  rw [e] at this
  refine ⟨this.1, ?_, this.2.2⟩
  unfold isNanEnc; rw [this.2.1]; simp

theorem setInf_facts (c : Cfg) (h : c.valid = true) (s : Bool) :
    setInf c s < 2 ^ c.nbits ∧ isInf c (setInf c s) = true ∧ c.signOf (setInf c s) = s := by
  have hP := two_pow_pos (c.nbits - 1)
  have := compose_facts c h (2 ^ (c.nbits - 1) - 2) s (by omega)
  have e : 2 ^ (c.nbits - 1) - 2 + signBit c s = setInf c s := by unfold setInf; omega
  rw [e] at this
  refine ⟨this.1, ?_, this.2.2⟩
  unfold isInf; rw [this.2.1]; simp

theorem signBit_facts (c : Cfg) (h : c.valid = true) (s : Bool) :
    signBit c s < 2 ^ c.nbits ∧ isZeroEnc c (signBit c s) = true ∧ c.signOf (signBit c s) = s := by
  have hP := two_pow_pos (c.nbits - 1)
  have := compose_facts c h 0 s hP
  rw [Nat.zero_add] at this
  refine ⟨this.1, ?_, this.2.2⟩
  unfold isZeroEnc; rw [this.2.1]; simp

theorem setSign_facts (c : Cfg) (h : c.valid = true) (a : Nat) (s : Bool) :
    setSign c a s < 2 ^ c.nbits ∧ absBits c (setSign c a s) = absBits c a ∧ c.signOf (setSign c a s) = s := by
  unfold setSign
  exact compose_facts c h (absBits c a) s (Nat.mod_lt _ (two_pow_pos _))

theorem isNan_of_isNanEnc (c : Cfg) (h : c.valid = true) (b : Nat) (hb : isNanEnc c b = true) : isNan c b = true := by
  have hn := (isNanEnc_iff c h b).mp hb
  have hF : 2 ≤ 2 ^ c.fbits := by
    obtain ⟨_, hfb, _, _⟩ := valid_facts c h
    calc 2 = 2 ^ 1 := rfl
      _ ≤ 2 ^ c.fbits := Nat.pow_le_pow_right (by omega) hfb
  unfold isNan
  cases c.sup
  · simp only [Bool.false_eq_true, if_false, Bool.and_eq_true, Bool.not_eq_true']
    refine ⟨by unfold isSuper; simp [hn.1], ?_⟩
    rw [Bool.eq_false_iff]; intro hc
    have := ((isInf_iff c h b).mp hc).2
    omega
  · simp [hb]

/-- exponent and fraction fields are functions of the low nbits-1 bits -/
theorem fracOf_abs (c : Cfg) (h : c.valid = true) (b : Nat) : c.fracOf b = absBits c b % 2 ^ c.fbits := by
  obtain ⟨_, _, _, h4⟩ := valid_facts c h
  unfold Cfg.fracOf absBits
  rw [h4, Nat.add_comm c.es, Nat.pow_add, Nat.mod_mul_right_mod]

theorem expOf_abs (c : Cfg) (h : c.valid = true) (b : Nat) : c.expOf b = absBits c b / 2 ^ c.fbits := by
  obtain ⟨_, _, _, h4⟩ := valid_facts c h
  unfold Cfg.expOf absBits
  rw [h4, Nat.add_comm c.es, Nat.pow_add, Nat.shiftRight_eq_div_pow, Nat.mod_mul_right_div_self]

theorem negate_facts (c : Cfg) (h : c.valid = true) (b : Nat) :
    negate c b < 2 ^ c.nbits ∧ absBits c (negate c b) = absBits c b ∧ c.signOf (negate c b) = !c.signOf b := by
  unfold negate; exact setSign_facts c h b _

/-- encode/decode at the field level: sign | e | f assembled arithmetically reads back as (s, e, f) -/
theorem fields_of_compose (c : Cfg) (h : c.valid = true) (s : Bool) (e f : Nat) (he : e < 2 ^ c.es) (hf : f < 2 ^ c.fbits) :
    f + 2 ^ c.fbits * e + signBit c s < 2 ^ c.nbits ∧
    c.signOf (f + 2 ^ c.fbits * e + signBit c s) = s ∧
    c.expOf (f + 2 ^ c.fbits * e + signBit c s) = e ∧
    c.fracOf (f + 2 ^ c.fbits * e + signBit c s) = f := by
  obtain ⟨_, _, _, h4⟩ := valid_facts c h
  have hF := two_pow_pos c.fbits
  have hr : f + 2 ^ c.fbits * e < 2 ^ (c.nbits - 1) := by
    rw [h4, Nat.add_comm c.es, Nat.pow_add]
    have : 2 ^ c.fbits * (e + 1) ≤ 2 ^ c.fbits * 2 ^ c.es := Nat.mul_le_mul_left _ he
    rw [Nat.mul_succ] at this
    omega
  have cf := compose_facts c h (f + 2 ^ c.fbits * e) s hr
  refine ⟨cf.1, cf.2.2, ?_, ?_⟩
  · rw [expOf_abs c h, cf.2.1, Nat.add_comm f, Nat.mul_add_div hF, Nat.div_eq_of_lt hf, Nat.add_zero]
  · rw [fracOf_abs c h, cf.2.1, Nat.add_mul_mod_self_left, Nat.mod_eq_of_lt hf]

end UVerif.Cfloat
