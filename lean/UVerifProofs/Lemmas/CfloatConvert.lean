import Mathlib.Tactic.Ring
import Mathlib.Tactic.Linarith
import Mathlib.Tactic.FieldSimp
import Mathlib.Algebra.Order.Field.Power
import Mathlib.Data.Rat.Floor
import UVerifProofs.Lemmas.CfloatNearest
open UVerif UVerif.Cfloat

namespace UVerif.Cfloat

/-- `significantscale()`: position of the leading bit relative to the radix point -/
theorem sigScale_spec (radix sig : Nat) (h : 2 ^ radix ≤ sig) :
    2 ^ (sigScale radix sig + radix) ≤ sig ∧ sig < 2 ^ (sigScale radix sig + radix + 1) := by
  have hR := two_pow_pos radix
  have hhi : 1 ≤ sig >>> radix := by
    rw [Nat.shiftRight_eq_div_pow]; exact (Nat.one_le_div_iff hR).mpr h
  have hne : sig >>> radix ≠ 0 := by omega
  unfold sigScale
  simp only [hne, if_false]
  have h1 : 2 ^ Nat.log2 (sig >>> radix) ≤ sig >>> radix := Nat.log2_self_le hne
  have h2 : sig >>> radix < 2 ^ (Nat.log2 (sig >>> radix) + 1) := Nat.lt_log2_self
  generalize Nat.log2 (sig >>> radix) = l at *
  rw [Nat.shiftRight_eq_div_pow] at h1 h2
  constructor
  · rw [Nat.pow_add]
    calc 2 ^ l * 2 ^ radix ≤ (sig / 2 ^ radix) * 2 ^ radix := Nat.mul_le_mul_right _ h1
      _ ≤ sig := Nat.div_mul_le_self sig (2 ^ radix)
  · rw [Nat.div_lt_iff_lt_mul hR] at h2
    rw [show l + radix + 1 = (l + 1) + radix by omega, Nat.pow_add]; exact h2

/-- shifting the normalised significant by t = ss + radix − fbits leaves fbits + 1 bits -/
theorem shifted_range (fb radix sig ss : Nat) (hfr : fb ≤ ss + radix)
    (h1 : 2 ^ (ss + radix) ≤ sig) (h2 : sig < 2 ^ (ss + radix + 1)) :
    2 ^ fb ≤ sig >>> (ss + radix - fb) ∧ sig >>> (ss + radix - fb) < 2 ^ (fb + 1) := by
  have hT := two_pow_pos (ss + radix - fb)
  rw [Nat.shiftRight_eq_div_pow]
  have e1 : 2 ^ (ss + radix) = 2 ^ fb * 2 ^ (ss + radix - fb) := by rw [← Nat.pow_add]; congr 1; omega
  have e2 : 2 ^ (ss + radix + 1) = 2 ^ (fb + 1) * 2 ^ (ss + radix - fb) := by rw [← Nat.pow_add]; congr 1; omega
  constructor
  · rw [Nat.le_div_iff_mul_le hT, ← e1]; exact h1
  · rw [Nat.div_lt_iff_lt_mul hT, ← e2]; exact h2

theorem maxFinite_ge (c : Cfg) (h2 : 2 ≤ c.emax) : pow2 ((c.emax : Int) - 1 - c.bias) ≤ maxFinite c := by
  have hone : (0 : ℚ) < ((2 ^ c.fbits : Nat) : ℚ) := by exact_mod_cast two_pow_pos c.fbits
  unfold maxFinite
  simp only []
  split_ifs with h1
  · have hp := pow2_pos ((c.emax : Int) - c.bias)
    have hle : pow2 ((c.emax : Int) - 1 - c.bias) ≤ pow2 ((c.emax : Int) - c.bias) := pow2_le_pow2.mpr (by omega)
    have hfr : (0 : ℚ) ≤ ((2 ^ c.fbits - 3 : Nat) : ℚ) / ((2 ^ c.fbits : Nat) : ℚ) := by positivity
    nlinarith
  · have hp := pow2_pos ((c.emax : Int) - 1 - c.bias)
    have hfr : (0 : ℚ) ≤ ((2 ^ c.fbits - 1 : Nat) : ℚ) / ((2 ^ c.fbits : Nat) : ℚ) := by positivity
    nlinarith

theorem overflows_false_of_lt (c : Cfg) (X : ℚ) (h : X < maxFinite c) (hM : 0 < maxFinite c) : overflows c X = false := by
  unfold overflows
  simp only []
  have hu : 0 < ulpAt c (maxFinite c) := by unfold ulpAt; exact pow2_pos _
  have h1 : ¬ (X > maxFinite c + ulpAt c (maxFinite c) / 2) := by
    have : (0 : ℚ) < ulpAt c (maxFinite c) / 2 := by positivity
    linarith
  have h2 : ¬ (X = maxFinite c + ulpAt c (maxFinite c) / 2) := by
    have : (0 : ℚ) < ulpAt c (maxFinite c) / 2 := by positivity
    linarith
  simp [h1, h2]

theorem bias_nonneg (c : Cfg) : 0 ≤ c.bias := by
  unfold Cfg.bias
  have := two_pow_pos (c.es - 1)
  omega

theorem rneShr_le (sig t : Nat) : sig >>> t ≤ rneShr sig t ∧ rneShr sig t ≤ sig >>> t + 1 := by
  have := shift_round_eq_rneShr sig t
  cases h : roundingDirection sig t <;> rw [h] at this <;> simp at this <;> omega

/-- **rounding correctness of `convert` (blocktriple → cfloat), ≤ 64-bit path, normal range**: for every
    configuration, operator, sign, scale and normalised significant (leading bit at or above the radix point) whose
    exponent lies in the normal range and at least two below the all-ones exponent, the encoding produced by
    `convertFinite` satisfies the IEEE rounding relation for the exact value ± sig · 2^(scale − radix). -/
theorem convert_round_normal (c : Cfg) (hv : c.valid = true) (o : Op) (sign : Bool) (scale : Int) (sig : Nat)
    (hnarrow : o.bfbits c.fbits < 65)
    (hsig : 2 ^ (o.radix c.fbits) ≤ sig)
    (hrad : c.fbits ≤ o.radix c.fbits)
    (hlo : c.minExpNormal ≤ scale + sigScale (o.radix c.fbits) sig)
    (hhi : scale + sigScale (o.radix c.fbits) sig + c.bias + 1 < c.emax) :
    convertFinite c o sign scale sig < 2 ^ c.nbits ∧
    nearestNZ c ((if sign then -1 else 1) * ((sig : ℚ) * pow2 (scale - (o.radix c.fbits : Int))))
      (convertFinite c o sign scale sig) = true := by
  obtain ⟨hes, hfb, _, _⟩ := valid_facts c hv
  have hb0 := bias_nonneg c
  obtain ⟨m1, m2⟩ := sigScale_spec (o.radix c.fbits) sig hsig
  generalize hss : sigScale (o.radix c.fbits) sig = ss at *
  generalize hradix : o.radix c.fbits = radix at *
  obtain ⟨r1, r2⟩ := shifted_range c.fbits radix sig ss (by omega) m1 m2
  have hmn : c.minExpNormal = 1 - c.bias := rfl
  have hms : c.minExpSubnormal = 1 - c.bias - (c.fbits : Int) := rfl
  have hmax : scale + (ss : Int) ≤ c.maxExp := by
    unfold Cfg.maxExp
    have hem : (c.emax : Int) = ((2 ^ c.es : Nat) : Int) - 1 := by
      unfold Cfg.emax; have := two_pow_pos c.es; omega
    by_cases h1 : c.es = 1
    · rw [if_pos h1]; rw [hem, h1] at hhi; norm_num at hhi; omega
    · rw [if_neg h1]; omega
  -- the path through convertFinite
  have e1 : ¬ (c.sub = true ∧ scale + (ss : Int) < c.minExpSubnormal) := by
    intro hc; have := hc.2; omega
  have e2 : ¬ (¬ c.sub = true ∧ scale + (ss : Int) + c.bias ≤ 0) := by
    intro hc; have := hc.2; omega
  have e3 : ¬ (scale + (ss : Int) > c.maxExp) := by omega
  have e4 : ¬ (scale + (ss : Int) < c.minExpNormal) := by omega
  have hconv : convertFinite c o sign scale sig
      = assemble c sign (scale + (ss : Int) + c.bias).toNat sig (ss + radix - c.fbits) := by
    unfold convertFinite
    simp only [hss, hradix, e1, e2, e3, e4, and_false, if_false, hnarrow, if_true, Nat.add_zero]
  set biased := (scale + (ss : Int) + c.bias).toNat with hbiased
  have hbpos : 1 ≤ biased := by omega
  have hbi : (biased : Int) = scale + (ss : Int) + c.bias := by omega
  set t := ss + radix - c.fbits with ht
  have hR := rneShr_le sig t
  have hbe : (if rneShr sig t = 2 ^ (c.fbits + 1) then biased + 1 else biased) < c.emax := by
    split_ifs <;> omega
  rw [hconv, assemble_normal c hv sign biased sig t r1 r2 hbe]
  have hrange : (if rneShr sig t = 2 ^ (c.fbits + 1) then 0 else rneShr sig t - 2 ^ c.fbits)
        + 2 ^ c.fbits * (if rneShr sig t = 2 ^ (c.fbits + 1) then biased + 1 else biased) + signBit c sign < 2 ^ c.nbits := by
    have hel := emax_lt c
    have h2f : 2 ^ (c.fbits + 1) = 2 * 2 ^ c.fbits := by rw [Nat.pow_succ]; omega
    refine (fields_of_compose c hv sign _ _ (by split_ifs <;> omega) ?_).1
    split_ifs
    · exact two_pow_pos _
    · omega
  refine ⟨hrange, ?_⟩
  -- the value of the result
  have hF : (0 : ℚ) < ((2 ^ c.fbits : Nat) : ℚ) := by exact_mod_cast two_pow_pos c.fbits
  have hFne : ((2 ^ c.fbits : Nat) : ℚ) ≠ 0 := ne_of_gt hF
  set E : Int := scale + (ss : Int) with hE
  have hpE : pow2 E = ((2 ^ c.fbits : Nat) : ℚ) * pow2 (E - (c.fbits : Int)) := by
    rw [pow2_sub, pow2_natCast]; field_simp
  have hval : ∃ m : ℚ, cfVal c ((if rneShr sig t = 2 ^ (c.fbits + 1) then 0 else rneShr sig t - 2 ^ c.fbits)
        + 2 ^ c.fbits * (if rneShr sig t = 2 ^ (c.fbits + 1) then biased + 1 else biased) + signBit c sign) = .fin sign m ∧
      m = (rneShr sig t : ℚ) * pow2 (E - (c.fbits : Int)) := by
    by_cases hc : rneShr sig t = 2 ^ (c.fbits + 1)
    · simp only [hc, if_true]
      refine ⟨_, cfVal_compose_normal c hv sign (biased + 1) 0 (by omega) (by omega) (two_pow_pos _), ?_⟩
      have : ((biased + 1 : Nat) : Int) - c.bias = E + 1 := by push_cast; omega
      rw [this, pow2_succ, hpE]
      push_cast
      rw [pow_succ]; ring
    · simp only [hc, if_false]
      have hlt : rneShr sig t - 2 ^ c.fbits < 2 ^ c.fbits := by
        have : 2 ^ (c.fbits + 1) = 2 * 2 ^ c.fbits := by rw [Nat.pow_succ]; omega
        omega
      refine ⟨_, cfVal_compose_normal c hv sign biased _ hbpos (by omega) hlt, ?_⟩
      have : (biased : Int) - c.bias = E := by omega
      rw [this, hpE]
      have hsub : ((rneShr sig t - 2 ^ c.fbits : Nat) : ℚ) = (rneShr sig t : ℚ) - ((2 ^ c.fbits : Nat) : ℚ) := by
        rw [Nat.cast_sub (by omega)]
      rw [hsub]; field_simp; ring
  obtain ⟨m, hvm, hm⟩ := hval
  -- the exact value
  set X : ℚ := (sig : ℚ) * pow2 (scale - (radix : Int)) with hX
  have hpr := pow2_pos (scale - (radix : Int))
  have hXlo : pow2 E ≤ X := by
    have : pow2 E = ((2 ^ (ss + radix) : Nat) : ℚ) * pow2 (scale - (radix : Int)) := by
      rw [← pow2_natCast, ← pow2_add]; congr 1; push_cast; omega
    rw [this, hX]
    apply mul_le_mul_of_nonneg_right _ (le_of_lt hpr)
    exact_mod_cast m1
  have hXhi : X < pow2 (E + 1) := by
    have : pow2 (E + 1) = ((2 ^ (ss + radix + 1) : Nat) : ℚ) * pow2 (scale - (radix : Int)) := by
      rw [← pow2_natCast, ← pow2_add]; congr 1; push_cast; omega
    rw [this, hX]
    apply mul_lt_mul_of_pos_right _ hpr
    exact_mod_cast m2
  have hquot : X / pow2 (E - (c.fbits : Int)) = (sig : ℚ) / ((2 ^ t : Nat) : ℚ) := by
    have h1 : pow2 (scale - (radix : Int)) = pow2 (E - (c.fbits : Int)) / ((2 ^ t : Nat) : ℚ) := by
      rw [← pow2_natCast, ← pow2_sub]; congr 1; omega
    have hu := pow2_pos (E - (c.fbits : Int))
    have ht2 : (0 : ℚ) < ((2 ^ t : Nat) : ℚ) := by exact_mod_cast two_pow_pos t
    rw [hX, h1]; field_simp
  have hk := rneShr_nearest sig t
  simp only [] at hk
  rw [← hquot] at hk
  -- no overflow
  have hem2 : 2 ≤ c.emax := by omega
  have hMge := maxFinite_ge c hem2
  have htop : pow2 (E + 1) ≤ pow2 ((c.emax : Int) - 1 - c.bias) := pow2_le_pow2.mpr (by omega)
  have hMpos : 0 < maxFinite c := lt_of_lt_of_le (pow2_pos _) hMge
  have hno : overflows c X = false :=
    overflows_false_of_lt c X (lt_of_lt_of_le hXhi (le_trans htop hMge)) hMpos
  have hmle : m ≤ maxFinite c := by
    have hRle : (rneShr sig t : ℚ) ≤ ((2 ^ (c.fbits + 1) : Nat) : ℚ) := by exact_mod_cast (show rneShr sig t ≤ 2 ^ (c.fbits + 1) by omega)
    have : m ≤ pow2 (E + 1) := by
      rw [hm, pow2_succ, hpE]
      have hu := pow2_pos (E - (c.fbits : Int))
      have : ((2 ^ (c.fbits + 1) : Nat) : ℚ) = 2 * ((2 ^ c.fbits : Nat) : ℚ) := by push_cast; rw [pow_succ]; ring
      rw [this] at hRle
      nlinarith
    exact le_trans this (le_trans htop hMge)
  refine nearestNZ_intro c _ _ sign X m E (rneShr sig t) ?_ hvm hXlo hXhi (by omega) hm hk hno hmle
  cases sign <;> simp

/-- core of the rounding argument with the exact value X decoupled from the significant: if X lies in the binade
    of the result and `rneShr sig t` is a nearest-even integer to X / ulp, the assembled encoding is the IEEE rounding
    of ± X. (For add/sub the significant carries a sticky bit, so X ≠ sig · 2^…, but the nearest-even property of
    the sticky representation transfers to the exact sum.) -/
theorem assemble_round_core (c : Cfg) (hv : c.valid = true) (sign : Bool) (biased sig t : Nat)
    (r1 : 2 ^ c.fbits ≤ sig >>> t) (r2 : sig >>> t < 2 ^ (c.fbits + 1))
    (hb1 : 1 ≤ biased) (hb2 : biased + 1 < c.emax) (X : ℚ)
    (hXlo : pow2 ((biased : Int) - c.bias) ≤ X) (hXhi : X < pow2 ((biased : Int) - c.bias + 1))
    (hk : (-(1:ℚ)/2 < X / pow2 ((biased : Int) - c.bias - (c.fbits : Int)) - (rneShr sig t : ℚ) ∧
            X / pow2 ((biased : Int) - c.bias - (c.fbits : Int)) - (rneShr sig t : ℚ) < 1/2) ∨
          ((X / pow2 ((biased : Int) - c.bias - (c.fbits : Int)) - (rneShr sig t : ℚ) = 1/2 ∨
            X / pow2 ((biased : Int) - c.bias - (c.fbits : Int)) - (rneShr sig t : ℚ) = -(1:ℚ)/2) ∧ rneShr sig t % 2 = 0)) :
    assemble c sign biased sig t < 2 ^ c.nbits ∧
    nearestNZ c ((if sign then -1 else 1) * X) (assemble c sign biased sig t) = true := by
  obtain ⟨hes, hfb, _, _⟩ := valid_facts c hv
  have hb0 := bias_nonneg c
  have hR := rneShr_le sig t
  have hbe : (if rneShr sig t = 2 ^ (c.fbits + 1) then biased + 1 else biased) < c.emax := by
    split_ifs <;> omega
  rw [assemble_normal c hv sign biased sig t r1 r2 hbe]
  have hrange : (if rneShr sig t = 2 ^ (c.fbits + 1) then 0 else rneShr sig t - 2 ^ c.fbits)
        + 2 ^ c.fbits * (if rneShr sig t = 2 ^ (c.fbits + 1) then biased + 1 else biased) + signBit c sign < 2 ^ c.nbits := by
    have hel := emax_lt c
    have h2f : 2 ^ (c.fbits + 1) = 2 * 2 ^ c.fbits := by rw [Nat.pow_succ]; omega
    refine (fields_of_compose c hv sign _ _ (by split_ifs <;> omega) ?_).1
    split_ifs
    · exact two_pow_pos _
    · omega
  refine ⟨hrange, ?_⟩
  have hF : (0 : ℚ) < ((2 ^ c.fbits : Nat) : ℚ) := by exact_mod_cast two_pow_pos c.fbits
  obtain ⟨E, hE⟩ : ∃ E : Int, E = (biased : Int) - c.bias := ⟨_, rfl⟩
  rw [← hE] at hXlo hXhi hk
  have hpE : pow2 E = ((2 ^ c.fbits : Nat) : ℚ) * pow2 (E - (c.fbits : Int)) := by
    rw [pow2_sub E, pow2_natCast]; field_simp
  have hval : ∃ m : ℚ, cfVal c ((if rneShr sig t = 2 ^ (c.fbits + 1) then 0 else rneShr sig t - 2 ^ c.fbits)
        + 2 ^ c.fbits * (if rneShr sig t = 2 ^ (c.fbits + 1) then biased + 1 else biased) + signBit c sign) = .fin sign m ∧
      m = (rneShr sig t : ℚ) * pow2 (E - (c.fbits : Int)) := by
    by_cases hc : rneShr sig t = 2 ^ (c.fbits + 1)
    · simp only [hc, if_true]
      refine ⟨_, cfVal_compose_normal c hv sign (biased + 1) 0 (by omega) (by omega) (two_pow_pos _), ?_⟩
      have : ((biased + 1 : Nat) : Int) - c.bias = E + 1 := by push_cast; omega
      rw [this, pow2_succ, hpE]
      push_cast
      rw [pow_succ]; ring
    · simp only [hc, if_false]
      have hlt : rneShr sig t - 2 ^ c.fbits < 2 ^ c.fbits := by
        have : 2 ^ (c.fbits + 1) = 2 * 2 ^ c.fbits := by rw [Nat.pow_succ]; omega
        omega
      refine ⟨_, cfVal_compose_normal c hv sign biased _ hb1 (by omega) hlt, ?_⟩
      rw [← hE, hpE]
      have hsub : ((rneShr sig t - 2 ^ c.fbits : Nat) : ℚ) = (rneShr sig t : ℚ) - ((2 ^ c.fbits : Nat) : ℚ) := by
        rw [Nat.cast_sub (by omega)]
      rw [hsub]; field_simp; ring
  obtain ⟨m, hvm, hm⟩ := hval
  have hem2 : 2 ≤ c.emax := by omega
  have hMge := maxFinite_ge c hem2
  have htop : pow2 (E + 1) ≤ pow2 ((c.emax : Int) - 1 - c.bias) := pow2_le_pow2.mpr (by omega)
  have hMpos : 0 < maxFinite c := lt_of_lt_of_le (pow2_pos _) hMge
  have hno : overflows c X = false :=
    overflows_false_of_lt c X (lt_of_lt_of_le hXhi (le_trans htop hMge)) hMpos
  have hmle : m ≤ maxFinite c := by
    have hRle : (rneShr sig t : ℚ) ≤ ((2 ^ (c.fbits + 1) : Nat) : ℚ) := by exact_mod_cast (show rneShr sig t ≤ 2 ^ (c.fbits + 1) by omega)
    have : m ≤ pow2 (E + 1) := by
      rw [hm, pow2_succ, hpE]
      have hu := pow2_pos (E - (c.fbits : Int))
      have : ((2 ^ (c.fbits + 1) : Nat) : ℚ) = 2 * ((2 ^ c.fbits : Nat) : ℚ) := by push_cast; rw [pow_succ]; ring
      rw [this] at hRle
      nlinarith
    exact le_trans this (le_trans htop hMge)
  refine nearestNZ_intro c _ _ sign X m E (rneShr sig t) ?_ hvm hXlo hXhi (by omega) hm hk hno hmle
  cases sign <;> simp

/-- the rounding tail `assemble` on its own (used by convert and by the native-float conversion): for a normalised
    significant (fbits+1 bits left after the shift) and a biased exponent in [1, emax−2], the assembled encoding is in
    range and is the IEEE rounding of ± sig · 2^(biased − bias − fbits − t). -/
theorem assemble_round_normal (c : Cfg) (hv : c.valid = true) (sign : Bool) (biased sig t : Nat)
    (r1 : 2 ^ c.fbits ≤ sig >>> t) (r2 : sig >>> t < 2 ^ (c.fbits + 1))
    (hb1 : 1 ≤ biased) (hb2 : biased + 1 < c.emax) :
    assemble c sign biased sig t < 2 ^ c.nbits ∧
    nearestNZ c ((if sign then -1 else 1) * ((sig : ℚ) * pow2 ((biased : Int) - c.bias - (c.fbits : Int) - (t : Int))))
      (assemble c sign biased sig t) = true := by
  obtain ⟨hes, hfb, _, _⟩ := valid_facts c hv
  have hb0 := bias_nonneg c
  have hR := rneShr_le sig t
  have hbe : (if rneShr sig t = 2 ^ (c.fbits + 1) then biased + 1 else biased) < c.emax := by
    split_ifs <;> omega
  rw [assemble_normal c hv sign biased sig t r1 r2 hbe]
  have hrange : (if rneShr sig t = 2 ^ (c.fbits + 1) then 0 else rneShr sig t - 2 ^ c.fbits)
        + 2 ^ c.fbits * (if rneShr sig t = 2 ^ (c.fbits + 1) then biased + 1 else biased) + signBit c sign < 2 ^ c.nbits := by
    have hel := emax_lt c
    have h2f : 2 ^ (c.fbits + 1) = 2 * 2 ^ c.fbits := by rw [Nat.pow_succ]; omega
    refine (fields_of_compose c hv sign _ _ (by split_ifs <;> omega) ?_).1
    split_ifs
    · exact two_pow_pos _
    · omega
  refine ⟨hrange, ?_⟩
  have hF : (0 : ℚ) < ((2 ^ c.fbits : Nat) : ℚ) := by exact_mod_cast two_pow_pos c.fbits
  obtain ⟨E, hE⟩ : ∃ E : Int, E = (biased : Int) - c.bias := ⟨_, rfl⟩
  rw [← hE]
  have hpE : pow2 E = ((2 ^ c.fbits : Nat) : ℚ) * pow2 (E - (c.fbits : Int)) := by
    rw [pow2_sub E, pow2_natCast]; field_simp
  have hval : ∃ m : ℚ, cfVal c ((if rneShr sig t = 2 ^ (c.fbits + 1) then 0 else rneShr sig t - 2 ^ c.fbits)
        + 2 ^ c.fbits * (if rneShr sig t = 2 ^ (c.fbits + 1) then biased + 1 else biased) + signBit c sign) = .fin sign m ∧
      m = (rneShr sig t : ℚ) * pow2 (E - (c.fbits : Int)) := by
    by_cases hc : rneShr sig t = 2 ^ (c.fbits + 1)
    · simp only [hc, if_true]
      refine ⟨_, cfVal_compose_normal c hv sign (biased + 1) 0 (by omega) (by omega) (two_pow_pos _), ?_⟩
      have : ((biased + 1 : Nat) : Int) - c.bias = E + 1 := by push_cast; omega
      rw [this, pow2_succ, hpE]
      push_cast
      rw [pow_succ]; ring
    · simp only [hc, if_false]
      have hlt : rneShr sig t - 2 ^ c.fbits < 2 ^ c.fbits := by
        have : 2 ^ (c.fbits + 1) = 2 * 2 ^ c.fbits := by rw [Nat.pow_succ]; omega
        omega
      refine ⟨_, cfVal_compose_normal c hv sign biased _ hb1 (by omega) hlt, ?_⟩
      rw [← hE, hpE]
      have hsub : ((rneShr sig t - 2 ^ c.fbits : Nat) : ℚ) = (rneShr sig t : ℚ) - ((2 ^ c.fbits : Nat) : ℚ) := by
        rw [Nat.cast_sub (by omega)]
      rw [hsub]; field_simp; ring
  obtain ⟨m, hvm, hm⟩ := hval
  -- bounds of sig from the shifted range
  have hT := two_pow_pos t
  have hs1 : 2 ^ c.fbits * 2 ^ t ≤ sig := by
    rw [Nat.shiftRight_eq_div_pow] at r1; exact (Nat.le_div_iff_mul_le hT).mp r1
  have hs2 : sig < 2 ^ (c.fbits + 1) * 2 ^ t := by
    rw [Nat.shiftRight_eq_div_pow] at r2; exact (Nat.div_lt_iff_lt_mul hT).mp r2
  set X : ℚ := (sig : ℚ) * pow2 (E - (c.fbits : Int) - (t : Int)) with hX
  have hpr := pow2_pos (E - (c.fbits : Int) - (t : Int))
  have hXlo : pow2 E ≤ X := by
    have : pow2 E = ((2 ^ c.fbits * 2 ^ t : Nat) : ℚ) * pow2 (E - (c.fbits : Int) - (t : Int)) := by
      rw [← Nat.pow_add, ← pow2_natCast, ← pow2_add]; congr 1; push_cast; omega
    rw [this, hX]
    apply mul_le_mul_of_nonneg_right _ (le_of_lt hpr)
    exact_mod_cast hs1
  have hXhi : X < pow2 (E + 1) := by
    have : pow2 (E + 1) = ((2 ^ (c.fbits + 1) * 2 ^ t : Nat) : ℚ) * pow2 (E - (c.fbits : Int) - (t : Int)) := by
      rw [← Nat.pow_add, ← pow2_natCast, ← pow2_add]; congr 1; push_cast; omega
    rw [this, hX]
    apply mul_lt_mul_of_pos_right _ hpr
    exact_mod_cast hs2
  have hquot : X / pow2 (E - (c.fbits : Int)) = (sig : ℚ) / ((2 ^ t : Nat) : ℚ) := by
    have h1 : pow2 (E - (c.fbits : Int) - (t : Int)) = pow2 (E - (c.fbits : Int)) / ((2 ^ t : Nat) : ℚ) := by
      rw [← pow2_natCast, ← pow2_sub]
    have hu := pow2_pos (E - (c.fbits : Int))
    have ht2 : (0 : ℚ) < ((2 ^ t : Nat) : ℚ) := by exact_mod_cast hT
    rw [hX, h1]; field_simp
  have hk := rneShr_nearest sig t
  simp only [] at hk
  rw [← hquot] at hk
  have hem2 : 2 ≤ c.emax := by omega
  have hMge := maxFinite_ge c hem2
  have htop : pow2 (E + 1) ≤ pow2 ((c.emax : Int) - 1 - c.bias) := pow2_le_pow2.mpr (by omega)
  have hMpos : 0 < maxFinite c := lt_of_lt_of_le (pow2_pos _) hMge
  have hno : overflows c X = false :=
    overflows_false_of_lt c X (lt_of_lt_of_le hXhi (le_trans htop hMge)) hMpos
  have hmle : m ≤ maxFinite c := by
    have hRle : (rneShr sig t : ℚ) ≤ ((2 ^ (c.fbits + 1) : Nat) : ℚ) := by exact_mod_cast (show rneShr sig t ≤ 2 ^ (c.fbits + 1) by omega)
    have : m ≤ pow2 (E + 1) := by
      rw [hm, pow2_succ, hpE]
      have hu := pow2_pos (E - (c.fbits : Int))
      have : ((2 ^ (c.fbits + 1) : Nat) : ℚ) = 2 * ((2 ^ c.fbits : Nat) : ℚ) := by push_cast; rw [pow_succ]; ring
      rw [this] at hRle
      nlinarith
    exact le_trans this (le_trans htop hMge)
  refine nearestNZ_intro c _ _ sign X m E (rneShr sig t) ?_ hvm hXlo hXhi (by omega) hm hk hno hmle
  cases sign <;> simp

/-- `subnormal_reciprocal_shift[es]` (regenerated from native/subnormal.hpp) is 2^(es-1) − 2 for es = 1 … 20 -/
theorem tables_reciprocal_shift :
    ∀ es : Fin 21, 1 ≤ es.val → UVerif.Generated.subnormalReciprocalShift.getD es.val 0 = ((2 ^ (es.val - 1) : Nat) : Int) - 2 := by
  decide

theorem srs_eq (c : Cfg) (h1 : 1 ≤ c.es) (h2 : c.es ≤ 20) : c.srs = - c.minExpNormal := by
  have := tables_reciprocal_shift ⟨c.es, by omega⟩ h1
  unfold Cfg.srs Cfg.minExpNormal Cfg.bias
  simp only at this
  rw [this]; omega

/-- **rounding correctness of `convert`, subnormal results** (configurations with subnormals, 2 ≤ es ≤ 20, ≤ 64-bit
    path): when the exponent of the exact value lies in [MIN_EXP_SUBNORMAL, MIN_EXP_NORMAL) the result is the
    subnormal (or smallest normal) nearest to ± sig · 2^(scale − radix), ties to even. -/
theorem convert_round_subnormal (c : Cfg) (hv : c.valid = true) (hsub : c.sub = true) (hes2 : 2 ≤ c.es) (hes20 : c.es ≤ 20)
    (o : Op) (sign : Bool) (scale : Int) (sig : Nat)
    (hnarrow : o.bfbits c.fbits < 65)
    (hsig : 2 ^ (o.radix c.fbits) ≤ sig)
    (hrad : c.fbits ≤ o.radix c.fbits)
    (hlo : c.minExpSubnormal ≤ scale + sigScale (o.radix c.fbits) sig)
    (hhi : scale + sigScale (o.radix c.fbits) sig < c.minExpNormal) :
    convertFinite c o sign scale sig < 2 ^ c.nbits ∧
    nearestNZ c ((if sign then -1 else 1) * ((sig : ℚ) * pow2 (scale - (o.radix c.fbits : Int))))
      (convertFinite c o sign scale sig) = true := by
  obtain ⟨hes, hfb, _, _⟩ := valid_facts c hv
  have hb0 := bias_nonneg c
  obtain ⟨m1, m2⟩ := sigScale_spec (o.radix c.fbits) sig hsig
  generalize hss : sigScale (o.radix c.fbits) sig = ss at *
  generalize hradix : o.radix c.fbits = radix at *
  have hmn : c.minExpNormal = 1 - c.bias := rfl
  have hms : c.minExpSubnormal = 1 - c.bias - (c.fbits : Int) := rfl
  have hsrs := srs_eq c (by omega) hes20
  have hE4 : 4 ≤ 2 ^ c.es := by
    calc 4 = 2 ^ 2 := rfl
      _ ≤ 2 ^ c.es := Nat.pow_le_pow_right (by omega) hes2
  have hem : (c.emax : Int) = ((2 ^ c.es : Nat) : Int) - 1 := by
    unfold Cfg.emax; omega
  have hem1 : 1 < c.emax := by unfold Cfg.emax; omega
  have hmaxE : scale + (ss : Int) ≤ c.maxExp := by
    unfold Cfg.maxExp
    rw [if_neg (by omega)]
    have : (4 : Int) ≤ ((2 ^ c.es : Nat) : Int) := by exact_mod_cast hE4
    omega
  have e1 : ¬ (c.sub = true ∧ scale + (ss : Int) < c.minExpSubnormal) := by
    intro hc; have := hc.2; omega
  have e2 : ¬ (¬ c.sub = true ∧ scale + (ss : Int) + c.bias ≤ 0) := by
    intro hc; exact hc.1 hsub
  have e3 : ¬ (scale + (ss : Int) > c.maxExp) := by omega
  have e4 : (c.sub = true ∧ scale + (ss : Int) < c.minExpNormal) := ⟨hsub, hhi⟩
  set adj : Nat := (-(scale + (ss : Int) + c.srs)).toNat with hadj
  have hadjv : (adj : Int) = 1 - c.bias - (scale + (ss : Int)) := by
    rw [hadj, hsrs, hmn]; omega
  have hadj1 : 1 ≤ adj := by omega
  have hconv : convertFinite c o sign scale sig = assemble c sign 0 sig (ss + radix - c.fbits + adj) := by
    have e1' : ¬ (scale + (ss : Int) < c.minExpSubnormal) := by omega
    unfold convertFinite
    simp only [hss, hradix, hsub, e1', e3, hhi, true_and, not_true_eq_false, false_and, and_self, if_false, if_true, hnarrow]
    rw [hadj]
  set t := ss + radix - c.fbits + adj with ht
  have htI : (t : Int) = (ss : Int) + (radix : Int) - (c.fbits : Int) + (1 - c.bias - (scale + (ss : Int))) := by
    rw [ht]; push_cast; rw [Nat.cast_sub (by omega)]; push_cast; omega
  have hsh : sig >>> t < 2 ^ c.fbits := by
    rw [Nat.shiftRight_eq_div_pow, Nat.div_lt_iff_lt_mul (two_pow_pos _)]
    have : 2 ^ (ss + radix + 1) ≤ 2 ^ c.fbits * 2 ^ t := by
      rw [← Nat.pow_add]; exact Nat.pow_le_pow_right (by omega) (by omega)
    omega
  have hR := rneShr_le sig t
  rw [hconv, assemble_subnormal c hv sign sig t hsh hem1]
  have hFn := two_pow_pos c.fbits
  have hrange : (if rneShr sig t = 2 ^ c.fbits then 0 else rneShr sig t)
        + 2 ^ c.fbits * (if rneShr sig t = 2 ^ c.fbits then 1 else 0) + signBit c sign < 2 ^ c.nbits := by
    have hel := emax_lt c
    refine (fields_of_compose c hv sign _ _ (by split_ifs <;> omega) ?_).1
    split_ifs <;> omega
  refine ⟨hrange, ?_⟩
  have hF : (0 : ℚ) < ((2 ^ c.fbits : Nat) : ℚ) := by exact_mod_cast hFn
  set U : ℚ := pow2 (1 - c.bias - (c.fbits : Int)) with hU
  have hUpos : 0 < U := pow2_pos _
  have hminN : pow2 (1 - c.bias) = ((2 ^ c.fbits : Nat) : ℚ) * U := by
    rw [hU, pow2_sub (1 - c.bias), pow2_natCast]; field_simp
  have hval : ∃ m : ℚ, cfVal c ((if rneShr sig t = 2 ^ c.fbits then 0 else rneShr sig t)
        + 2 ^ c.fbits * (if rneShr sig t = 2 ^ c.fbits then 1 else 0) + signBit c sign) = .fin sign m ∧
      m = (rneShr sig t : ℚ) * U := by
    by_cases hc : rneShr sig t = 2 ^ c.fbits
    · simp only [hc, if_true]
      refine ⟨_, cfVal_compose_normal c hv sign 1 0 (le_refl 1) hem1 hFn, ?_⟩
      have : ((1 : Nat) : Int) - c.bias = 1 - c.bias := by norm_num
      rw [this, hminN]; push_cast; ring
    · simp only [hc, if_false]
      exact ⟨_, cfVal_compose_subnormal c hv hsub sign _ (by omega), rfl⟩
  obtain ⟨m, hvm, hm⟩ := hval
  set E : Int := scale + (ss : Int) with hE
  set X : ℚ := (sig : ℚ) * pow2 (scale - (radix : Int)) with hX
  have hpr := pow2_pos (scale - (radix : Int))
  have hXlo : pow2 E ≤ X := by
    have : pow2 E = ((2 ^ (ss + radix) : Nat) : ℚ) * pow2 (scale - (radix : Int)) := by
      rw [← pow2_natCast, ← pow2_add]; congr 1; push_cast; omega
    rw [this, hX]
    apply mul_le_mul_of_nonneg_right _ (le_of_lt hpr)
    exact_mod_cast m1
  have hXhi : X < pow2 (E + 1) := by
    have : pow2 (E + 1) = ((2 ^ (ss + radix + 1) : Nat) : ℚ) * pow2 (scale - (radix : Int)) := by
      rw [← pow2_natCast, ← pow2_add]; congr 1; push_cast; omega
    rw [this, hX]
    apply mul_lt_mul_of_pos_right _ hpr
    exact_mod_cast m2
  have hXpos : 0 < X := lt_of_lt_of_le (pow2_pos E) hXlo
  have hfl : floorLog2 X = E := floorLog2_eq X E hXlo hXhi
  have hu : ulpAt c X = U := by
    unfold ulpAt; simp only [hfl]
    rw [if_pos (by omega)]
  have hquot : X / U = (sig : ℚ) / ((2 ^ t : Nat) : ℚ) := by
    have h1 : pow2 (scale - (radix : Int)) = U / ((2 ^ t : Nat) : ℚ) := by
      rw [hU, ← pow2_natCast, ← pow2_sub]; congr 1; omega
    have ht2 : (0 : ℚ) < ((2 ^ t : Nat) : ℚ) := by exact_mod_cast two_pow_pos t
    rw [hX, h1]; field_simp
  have hk := rneShr_nearest sig t
  simp only [] at hk
  rw [← hquot] at hk
  have hem2 : 2 ≤ c.emax := by omega
  have hMge := maxFinite_ge c hem2
  have hminle : pow2 (1 - c.bias) ≤ maxFinite c :=
    le_trans (pow2_le_pow2.mpr (by omega)) hMge
  have htop : pow2 (E + 1) ≤ pow2 (1 - c.bias) := pow2_le_pow2.mpr (by omega)
  have hMpos : 0 < maxFinite c := lt_of_lt_of_le (pow2_pos _) hMge
  have hno : overflows c X = false :=
    overflows_false_of_lt c X (lt_of_lt_of_le hXhi (le_trans htop hminle)) hMpos
  have hmle : m ≤ maxFinite c := by
    have hRle : (rneShr sig t : ℚ) ≤ ((2 ^ c.fbits : Nat) : ℚ) := by exact_mod_cast (show rneShr sig t ≤ 2 ^ c.fbits by omega)
    have : m ≤ pow2 (1 - c.bias) := by
      rw [hm, hminN]; exact mul_le_mul_of_nonneg_right hRle (le_of_lt hUpos)
    exact le_trans this hminle
  refine nearestNZ_intro_ulp c _ _ sign X m U (rneShr sig t) ?_ hXpos hvm hu hUpos ?_ hm hk hno hmle
  · cases sign <;> simp
  · rw [hsub]; rfl

end UVerif.Cfloat
