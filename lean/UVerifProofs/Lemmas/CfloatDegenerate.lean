import UVerif.Model.Cfloat
open UVerif UVerif.Cfloat

/-!
  cfloat<3,1,bt,sub,sup,sat> — es = 1 with a single fraction bit — is the one configuration shape outside `Gen`.
  Its blocktriples are far below 64 bits, so the block type is never read: every function of the statement is,
  by unfolding, the same for every `bt`.
-/
namespace UVerif.Cfloat

theorem deg_cfVal_bt (bt : Nat) (sub sup sat : Bool) (a : Nat) :
    cfVal ⟨3, 1, bt, sub, sup, sat⟩ a = cfVal ⟨3, 1, 8, sub, sup, sat⟩ a := rfl

theorem deg_arithOp_bt (bt : Nat) (sub sup sat : Bool) (op : String) (a b : Nat) :
    arithOp op ⟨3, 1, bt, sub, sup, sat⟩ a b = arithOp op ⟨3, 1, 8, sub, sup, sat⟩ a b := by
  unfold arithOp; split <;> rfl

theorem deg_arithClass_bt (bt : Nat) (sub sup sat : Bool) (op : String) (a b : Nat) (e : Expect) :
    arithClass ⟨3, 1, bt, sub, sup, sat⟩ op a b e = arithClass ⟨3, 1, 8, sub, sup, sat⟩ op a b e := rfl

theorem deg_satisfies_bt (bt : Nat) (sub sup sat : Bool) (e : Expect) (r : Nat) :
    satisfies ⟨3, 1, bt, sub, sup, sat⟩ e r = satisfies ⟨3, 1, 8, sub, sup, sat⟩ e r := rfl

end UVerif.Cfloat
