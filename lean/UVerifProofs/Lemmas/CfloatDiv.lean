import Mathlib.Tactic.Ring
import Mathlib.Tactic.Linarith
import Mathlib.Tactic.FieldSimp
import Mathlib.Algebra.Order.Field.Power
import Mathlib.Data.Rat.Floor
import UVerifProofs.Lemmas.CfloatSubCore
open UVerif UVerif.Cfloat

namespace UVerif.Cfloat

theorem or_pow_of_low_zero (a k : Nat) (h : a % 2 ^ (k + 1) = 0) : a ||| 2 ^ k = a + 2 ^ k := by
  have hdm := Nat.div_add_mod a (2 ^ (k + 1))
  rw [h, Nat.add_zero] at hdm
  have hk : 2 ^ k < 2 ^ (k + 1) := Nat.pow_lt_pow_right (by omega) (by omega)
  have := shl_or_eq_add (a / 2 ^ (k + 1)) (2 ^ k) (k + 1) hk
  rw [Nat.shiftLeft_eq, Nat.mul_comm] at this
  rw [hdm] at this
  exact this

theorem low_zero_weaken (q r : Nat) (h : q % 2 ^ (r + 1) = 0) : q % 2 ^ r = 0 := by
  have h1 : 2 ^ (r + 1) ∣ q := Nat.dvd_of_mod_eq_zero h
  have h2 : 2 ^ r ∣ 2 ^ (r + 1) := Nat.pow_dvd_pow 2 (by omega)
  exact Nat.mod_eq_zero_of_dvd (Nat.dvd_trans h2 h1)

theorem divLoop_succ (radix n i base dv q : Nat) :
    divLoop radix (n + 1) i base dv q =
      if dv ≤ base then divLoop radix n (i + 1) (base - dv) (dv >>> 1) (q ||| 2 ^ (radix - i))
      else divLoop radix n (i + 1) base (dv >>> 1) q := by
  rfl

theorem half_pow (Bv K : Nat) (hK : 1 ≤ K) : (Bv * 2 ^ K) >>> 1 = Bv * 2 ^ (K - 1) := by
  rw [Nat.shiftRight_eq_div_pow, show K = (K - 1) + 1 by omega, Nat.pow_succ, ← Nat.mul_assoc]
  simp

/-- restoring long division with an exactly halving divider: n1 steps starting at step index i, divider Bv·2^K
    (n1 ≤ K+1), dividend base < 2·Bv·2^K. The n1 quotient bits are ⌊base / (Bv·2^(K+1−n1))⌋, the remainder is
    base mod (Bv·2^(K+1−n1)); the remaining n2 steps continue from there. -/
theorem divLoop_exact (radix Bv : Nat) (hBv : 0 < Bv) :
    ∀ (n1 K i base q n2 : Nat), n1 ≤ K + 1 → base < 2 * (Bv * 2 ^ K) → i + n1 ≤ radix + 1 → q % 2 ^ (radix + 1 - i) = 0 →
      divLoop radix (n1 + n2) i base (Bv * 2 ^ K) q =
        divLoop radix n2 (i + n1) (base % (Bv * 2 ^ (K + 1 - n1))) ((Bv * 2 ^ K) >>> n1)
          (q + (base / (Bv * 2 ^ (K + 1 - n1))) * 2 ^ (radix + 1 - i - n1)) := by
  intro n1
  induction n1 with
  | zero =>
    intro K i base q n2 _ hb _ _
    have hlt : base < Bv * 2 ^ (K + 1 - 0) := by
      rw [show K + 1 - 0 = K + 1 by omega, Nat.pow_succ, ← Nat.mul_assoc]; omega
    simp only [Nat.zero_add, Nat.add_zero, Nat.shiftRight_zero]
    rw [Nat.mod_eq_of_lt hlt, Nat.div_eq_of_lt hlt]; simp
  | succ n ih =>
    intro K i base q n2 hK hb hi hq
    have hdvpos : 0 < Bv * 2 ^ K := Nat.mul_pos hBv (two_pow_pos K)
    have hri : radix + 1 - i = (radix - i) + 1 := by omega
    have hqlow : q % 2 ^ (radix - i) = 0 := low_zero_weaken q (radix - i) (by rw [← hri]; exact hq)
    rw [show n + 1 + n2 = (n + n2) + 1 by omega, divLoop_succ]
    rcases Nat.eq_zero_or_pos n with hn0 | hnp
    · -- a single exact step
      subst hn0
      have hKsub : K + 1 - (0 + 1) = K := by omega
      simp only [Nat.zero_add, hKsub]
      rw [show radix + 1 - i - 1 = radix - i by omega]
      by_cases hle : Bv * 2 ^ K ≤ base
      · rw [if_pos hle, or_pow_of_low_zero q (radix - i) (by rw [← hri]; exact hq)]
        have hdiv : base / (Bv * 2 ^ K) = 1 := by
          apply Nat.div_eq_of_lt_le <;> omega
        have hmod : base % (Bv * 2 ^ K) = base - Bv * 2 ^ K := by
          rw [Nat.mod_eq_sub_mod hle, Nat.mod_eq_of_lt (by omega)]
        rw [hdiv, hmod, Nat.one_mul]
      · rw [if_neg hle]
        have hlt : base < Bv * 2 ^ K := by omega
        rw [Nat.div_eq_of_lt hlt, Nat.mod_eq_of_lt hlt, Nat.zero_mul]; rfl
    · have hK1 : 1 ≤ K := by omega
      have hsh := half_pow Bv K hK1
      have h2 : 2 * (Bv * 2 ^ (K - 1)) = Bv * 2 ^ K := by
        rw [show Bv * 2 ^ K = Bv * 2 ^ ((K - 1) + 1) by congr 2; omega, Nat.pow_succ]; ring
      have hKK : K - 1 + 1 - n = K + 1 - (n + 1) := by omega
      have hshift : (Bv * 2 ^ (K - 1)) >>> n = (Bv * 2 ^ K) >>> (n + 1) := by
        rw [← hsh, ← Nat.shiftRight_add, Nat.add_comm]
      have hidx : i + 1 + n = i + (n + 1) := by omega
      have he1 : radix + 1 - (i + 1) - n = radix + 1 - i - (n + 1) := by omega
      -- the final divisor Dn and the current divider Dn * 2^n
      obtain ⟨Dn, hDn⟩ : ∃ Dn, Dn = Bv * 2 ^ (K + 1 - (n + 1)) := ⟨_, rfl⟩
      have hDnpos : 0 < Dn := by rw [hDn]; exact Nat.mul_pos hBv (two_pow_pos _)
      have hdv : Bv * 2 ^ K = Dn * 2 ^ n := by
        rw [hDn, Nat.mul_assoc, ← Nat.pow_add]; congr 2; omega
      rw [hsh]
      by_cases hle : Bv * 2 ^ K ≤ base
      · rw [if_pos hle, or_pow_of_low_zero q (radix - i) (by rw [← hri]; exact hq)]
        have hb' : base - Bv * 2 ^ K < 2 * (Bv * 2 ^ (K - 1)) := by omega
        have hq' : (q + 2 ^ (radix - i)) % 2 ^ (radix + 1 - (i + 1)) = 0 := by
          rw [show radix + 1 - (i + 1) = radix - i by omega, Nat.add_mod, hqlow]; simp
        rw [ih (K - 1) (i + 1) (base - Bv * 2 ^ K) (q + 2 ^ (radix - i)) n2 (by omega) hb' (by omega) hq']
        rw [hKK, hshift, hidx, he1, ← hDn]
        have hsplit : base = (base - Bv * 2 ^ K) + Dn * 2 ^ n := by omega
        have hdivs : base / Dn = (base - Bv * 2 ^ K) / Dn + 2 ^ n := by
          have := Nat.add_mul_div_left (base - Bv * 2 ^ K) (2 ^ n) hDnpos
          rw [← hsplit] at this; exact this
        have hmods : base % Dn = (base - Bv * 2 ^ K) % Dn := by
          have := Nat.add_mul_mod_self_left (base - Bv * 2 ^ K) Dn (2 ^ n)
          rw [← hsplit] at this; exact this
        rw [hdivs, hmods]
        congr 1
        have he2 : 2 ^ (radix - i) = 2 ^ n * 2 ^ (radix + 1 - i - (n + 1)) := by
          rw [← Nat.pow_add]; congr 1; omega
        rw [he2]; ring
      · rw [if_neg hle]
        have hb' : base < 2 * (Bv * 2 ^ (K - 1)) := by omega
        have hq' : q % 2 ^ (radix + 1 - (i + 1)) = 0 := by
          rw [show radix + 1 - (i + 1) = radix - i by omega]; exact hqlow
        rw [ih (K - 1) (i + 1) base q n2 (by omega) hb' (by omega) hq']
        rw [hKK, hshift, hidx, he1]

end UVerif.Cfloat

namespace UVerif.Cfloat

/-- the remaining steps of the loop (truncated dividers) only add bits below position radix+1−i -/
theorem divLoop_tail (radix : Nat) :
    ∀ (n i base dv q : Nat), i + n ≤ radix + 1 → q % 2 ^ (radix + 1 - i) = 0 →
      q ≤ divLoop radix n i base dv q ∧ divLoop radix n i base dv q < q + 2 ^ (radix + 1 - i) := by
  intro n
  induction n with
  | zero =>
    intro i base dv q _ _
    have := two_pow_pos (radix + 1 - i)
    unfold divLoop; omega
  | succ n ih =>
    intro i base dv q hi hq
    have hri : radix + 1 - i = (radix - i) + 1 := by omega
    have hqlow : q % 2 ^ (radix - i) = 0 := low_zero_weaken q (radix - i) (by rw [← hri]; exact hq)
    have hsub : radix + 1 - (i + 1) = radix - i := by omega
    have hp : 2 ^ (radix + 1 - i) = 2 ^ (radix - i) + 2 ^ (radix - i) := by rw [hri, Nat.pow_succ]; omega
    rw [divLoop_succ]
    by_cases hle : dv ≤ base
    · rw [if_pos hle, or_pow_of_low_zero q (radix - i) (by rw [← hri]; exact hq)]
      have hq' : (q + 2 ^ (radix - i)) % 2 ^ (radix + 1 - (i + 1)) = 0 := by
        rw [hsub, Nat.add_mod, hqlow]; simp
      obtain ⟨h1, h2⟩ := ih (i + 1) (base - dv) (dv >>> 1) (q + 2 ^ (radix - i)) (by omega) hq'
      rw [hsub] at h2
      omega
    · rw [if_neg hle]
      obtain ⟨h1, h2⟩ := ih (i + 1) base (dv >>> 1) q (by omega) (by rw [hsub]; exact hqlow)
      rw [hsub] at h2
      omega

/-- with a zero remainder and positive dividers no further bit is set -/
theorem divLoop_zero (radix : Nat) :
    ∀ (n i dv q : Nat), (∀ k, k < n → 0 < dv >>> k) → divLoop radix n i 0 dv q = q := by
  intro n
  induction n with
  | zero => intro i dv q _; rfl
  | succ n ih =>
    intro i dv q hpos
    rw [divLoop_succ]
    have h0 : 0 < dv := by simpa using hpos 0 (by omega)
    rw [if_neg (by omega)]
    apply ih
    intro k hk
    have := hpos (k + 1) (by omega)
    rw [← Nat.shiftRight_add, Nat.add_comm]; exact this

end UVerif.Cfloat

namespace UVerif.Cfloat

/-- the quotient significant computed by `blocksignificant::div` for two normalised operands A, B (fb+1 bits each,
    both shifted by divshift = 2fb+4): its upper part is ⌊A·2^(2fb+4)/B⌋·2^fb exactly; the low fb bits (computed with
    truncated dividers) are arbitrary, but zero when the division is exact -/
theorem divq_spec (fb A B : Nat) (hfb : 1 ≤ fb) (hA1 : 2 ^ fb ≤ A) (hA2 : A < 2 ^ (fb + 1)) (hB1 : 2 ^ fb ≤ B) (hB2 : B < 2 ^ (fb + 1)) :
    (A * 2 ^ (2 * fb + 4) / B) * 2 ^ fb ≤ divLoop (3 * fb + 4) (2 * ((3 * fb + 4) / 2) + 1) 0 (A * 2 ^ (2 * fb + 4)) (B * 2 ^ (2 * fb + 4)) 0 ∧
    divLoop (3 * fb + 4) (2 * ((3 * fb + 4) / 2) + 1) 0 (A * 2 ^ (2 * fb + 4)) (B * 2 ^ (2 * fb + 4)) 0
      < (A * 2 ^ (2 * fb + 4) / B) * 2 ^ fb + 2 ^ fb ∧
    ((A * 2 ^ (2 * fb + 4)) % B = 0 →
      divLoop (3 * fb + 4) (2 * ((3 * fb + 4) / 2) + 1) 0 (A * 2 ^ (2 * fb + 4)) (B * 2 ^ (2 * fb + 4)) 0
        = (A * 2 ^ (2 * fb + 4) / B) * 2 ^ fb) := by
  have hF := two_pow_pos fb
  have p1 : 2 ^ (fb + 1) = 2 * 2 ^ fb := by rw [Nat.pow_succ]; omega
  have hBpos : 0 < B := by omega
  obtain ⟨n2, hn2, hn2le⟩ : ∃ n2, 2 * ((3 * fb + 4) / 2) + 1 = (2 * fb + 5) + n2 ∧ n2 ≤ fb := ⟨2 * ((3 * fb + 4) / 2) + 1 - (2 * fb + 5), by omega, by omega⟩
  have hbase : A * 2 ^ (2 * fb + 4) < 2 * (B * 2 ^ (2 * fb + 4)) := by
    have : A < 2 * B := by omega
    have := Nat.mul_lt_mul_of_pos_right this (two_pow_pos (2 * fb + 4))
    rw [Nat.mul_assoc] at this; exact this
  have hex := divLoop_exact (3 * fb + 4) B hBpos (2 * fb + 5) (2 * fb + 4) 0 (A * 2 ^ (2 * fb + 4)) 0 n2 (by omega) hbase (by omega) (by simp)
  have hK0 : 2 * fb + 4 + 1 - (2 * fb + 5) = 0 := by omega
  have hpw : 3 * fb + 4 + 1 - 0 - (2 * fb + 5) = fb := by omega
  rw [hK0, Nat.pow_zero, Nat.mul_one, hpw, Nat.zero_add, Nat.zero_add] at hex
  rw [hn2, hex]
  set q1 := A * 2 ^ (2 * fb + 4) / B * 2 ^ fb with hq1
  have hq1z : q1 % 2 ^ (3 * fb + 4 + 1 - (2 * fb + 5)) = 0 := by
    rw [show 3 * fb + 4 + 1 - (2 * fb + 5) = fb by omega, hq1]; exact Nat.mul_mod_left _ _
  obtain ⟨t1, t2⟩ := divLoop_tail (3 * fb + 4) n2 (2 * fb + 5) (A * 2 ^ (2 * fb + 4) % B) ((B * 2 ^ (2 * fb + 4)) >>> (2 * fb + 5)) q1 (by omega) hq1z
  rw [show 3 * fb + 4 + 1 - (2 * fb + 5) = fb by omega] at t2
  refine ⟨t1, t2, ?_⟩
  intro hrem
  rw [hrem]
  apply divLoop_zero
  intro k hk
  rw [← Nat.shiftRight_add, Nat.shiftRight_eq_div_pow]
  have : 2 ^ (2 * fb + 5 + k) ≤ 2 ^ (2 * fb + 4) * 2 ^ fb := by
    rw [← Nat.pow_add]; exact Nat.pow_le_pow_right (by omega) (by omega)
  apply Nat.div_pos _ (two_pow_pos _)
  calc 2 ^ (2 * fb + 5 + k) ≤ 2 ^ (2 * fb + 4) * 2 ^ fb := this
    _ = 2 ^ fb * 2 ^ (2 * fb + 4) := Nat.mul_comm _ _
    _ ≤ B * 2 ^ (2 * fb + 4) := Nat.mul_le_mul_right _ hB1

end UVerif.Cfloat

namespace UVerif.Cfloat

/-- **no tie without equality**: the computed quotient q and the exact quotient W/B (W = A·2^(3fb+4)) lie on the same
    side of every multiple E of 2^(2fb+2) — in particular of every rounding boundary (midpoints and lattice points at
    a rounding position ≥ 2fb+3) — and hit such a multiple only together. The key fact: if ⌊A·2^(2fb+4)/B⌋·2^fb is a
    multiple of 2^(2fb+2) then the remainder is a multiple of 2^(fb+2) below B < 2^(fb+1), hence zero. -/
theorem div_side (fb A B q e : Nat) (hB1 : 2 ^ fb ≤ B) (hB2 : B < 2 ^ (fb + 1))
    (h1 : (A * 2 ^ (2 * fb + 4) / B) * 2 ^ fb ≤ q) (h2 : q < (A * 2 ^ (2 * fb + 4) / B) * 2 ^ fb + 2 ^ fb)
    (h3 : (A * 2 ^ (2 * fb + 4)) % B = 0 → q = (A * 2 ^ (2 * fb + 4) / B) * 2 ^ fb) :
    (q < e * 2 ^ (2 * fb + 2) ↔ A * 2 ^ (3 * fb + 4) < e * 2 ^ (2 * fb + 2) * B) ∧
    (e * 2 ^ (2 * fb + 2) < q ↔ e * 2 ^ (2 * fb + 2) * B < A * 2 ^ (3 * fb + 4)) := by
  have hF := two_pow_pos fb
  have hBpos : 0 < B := by omega
  have p1 : 2 ^ (fb + 1) = 2 * 2 ^ fb := by rw [Nat.pow_succ]; omega
  have hdm := Nat.div_add_mod (A * 2 ^ (2 * fb + 4)) B
  have hrem := Nat.mod_lt (A * 2 ^ (2 * fb + 4)) hBpos
  generalize hQi : A * 2 ^ (2 * fb + 4) / B = Qi at *
  generalize hr : A * 2 ^ (2 * fb + 4) % B = rem at *
  -- W = (B * Qi + rem) * 2^fb
  have hW : A * 2 ^ (3 * fb + 4) = (B * Qi + rem) * 2 ^ fb := by
    rw [hdm, Nat.mul_assoc, ← Nat.pow_add]; congr 2; omega
  -- E = e' * 2^fb with e' = e * 2^(fb+2)
  have hE : e * 2 ^ (2 * fb + 2) = (e * 2 ^ (fb + 2)) * 2 ^ fb := by
    rw [Nat.mul_assoc, ← Nat.pow_add]; congr 2; omega
  rw [hW, hE]
  generalize he' : e * 2 ^ (fb + 2) = e' at *
  have hmul : ∀ a b : Nat, a + 1 ≤ b → a * 2 ^ fb + 2 ^ fb ≤ b * 2 ^ fb := by
    intro a b hab
    have := Nat.mul_le_mul_right (2 ^ fb) hab
    rw [Nat.succ_mul] at this; exact this
  rcases Nat.lt_trichotomy e' Qi with hlt | heq | hgt
  · -- E is below the interval
    have hq1 := hmul e' Qi hlt
    have hB' : e' * 2 ^ fb * B + 2 ^ fb * B ≤ Qi * 2 ^ fb * B := by
      have := Nat.mul_le_mul_right B hq1
      rw [Nat.add_mul] at this; exact this
    have hWge : Qi * 2 ^ fb * B ≤ (B * Qi + rem) * 2 ^ fb := by
      have : Qi * 2 ^ fb * B = (B * Qi) * 2 ^ fb := by ring
      rw [this]; exact Nat.mul_le_mul_right _ (by omega)
    have hpos : 0 < 2 ^ fb * B := Nat.mul_pos hF hBpos
    constructor
    · constructor
      · intro h; omega
      · intro h; omega
    · constructor
      · intro _; omega
      · intro _; omega
  · -- E is the lower end: then the division is exact
    subst heq
    have hrem0 : rem = 0 := by
      have h22 : 2 ^ (2 * fb + 4) = 2 ^ (fb + 2) * 2 ^ (fb + 2) := by rw [← Nat.pow_add]; congr 1; omega
      have hmulrem : rem = 2 ^ (fb + 2) * (A * 2 ^ (fb + 2)) - 2 ^ (fb + 2) * (B * e) := by
        have hdm' : B * (e * 2 ^ (fb + 2)) + rem = A * 2 ^ (2 * fb + 4) := by rw [he']; exact hdm
        have g1 : A * 2 ^ (2 * fb + 4) = 2 ^ (fb + 2) * (A * 2 ^ (fb + 2)) := by rw [h22]; ring
        have g2 : B * (e * 2 ^ (fb + 2)) = 2 ^ (fb + 2) * (B * e) := by ring
        omega
      rw [← Nat.mul_sub] at hmulrem
      rcases Nat.eq_zero_or_pos (A * 2 ^ (fb + 2) - B * e) with hz | hp
      · rw [hz] at hmulrem; simpa using hmulrem
      · exfalso
        have : 2 ^ (fb + 2) * 1 ≤ 2 ^ (fb + 2) * (A * 2 ^ (fb + 2) - B * e) := Nat.mul_le_mul_left _ hp
        have p2 : 2 ^ (fb + 2) = 4 * 2 ^ fb := by rw [Nat.pow_add]; ring
        omega
    have hq := h3 hrem0
    rw [hrem0, hq]
    have : (B * e' + 0) * 2 ^ fb = e' * 2 ^ fb * B := by ring
    rw [this]
    exact ⟨⟨fun h => absurd h (lt_irrefl _), fun h => absurd h (lt_irrefl _)⟩, ⟨fun h => absurd h (lt_irrefl _), fun h => absurd h (lt_irrefl _)⟩⟩
  · -- E is above the interval
    have hq1 := hmul Qi e' hgt
    have hWlt : (B * Qi + rem) * 2 ^ fb < e' * 2 ^ fb * B := by
      have h1' : (B * Qi + rem) * 2 ^ fb < (B * Qi + B) * 2 ^ fb := Nat.mul_lt_mul_of_pos_right (by omega) hF
      have h2' : (B * Qi + B) * 2 ^ fb = (Qi * 2 ^ fb + 2 ^ fb) * B := by ring
      have h3' : (Qi * 2 ^ fb + 2 ^ fb) * B ≤ e' * 2 ^ fb * B := Nat.mul_le_mul_right B hq1
      omega
    constructor
    · constructor
      · intro _; exact hWlt
      · intro _; omega
    · constructor
      · intro h; omega
      · intro h; omega

end UVerif.Cfloat

namespace UVerif.Cfloat

/-- generic transfer of the nearest-even property: if an integer S and a rational y lie on the same side of every
    multiple of 2^(t−1), then an integer R that is nearest-even for S / 2^t is nearest-even for y / 2^t -/
theorem nearest_transfer_side (S t R : Nat) (y : ℚ) (ht : 1 ≤ t) (hR1 : 1 ≤ R)
    (hside : ∀ k : Nat, (S < k * 2 ^ (t - 1) ↔ y < ((k * 2 ^ (t - 1) : Nat) : ℚ)) ∧ (k * 2 ^ (t - 1) < S ↔ ((k * 2 ^ (t - 1) : Nat) : ℚ) < y))
    (h : (-(1:ℚ)/2 < (S : ℚ) / ((2 ^ t : Nat) : ℚ) - (R : ℚ) ∧ (S : ℚ) / ((2 ^ t : Nat) : ℚ) - (R : ℚ) < 1/2) ∨
         (((S : ℚ) / ((2 ^ t : Nat) : ℚ) - (R : ℚ) = 1/2 ∨ (S : ℚ) / ((2 ^ t : Nat) : ℚ) - (R : ℚ) = -(1:ℚ)/2) ∧ R % 2 = 0)) :
    (-(1:ℚ)/2 < y / ((2 ^ t : Nat) : ℚ) - (R : ℚ) ∧ y / ((2 ^ t : Nat) : ℚ) - (R : ℚ) < 1/2) ∨
    ((y / ((2 ^ t : Nat) : ℚ) - (R : ℚ) = 1/2 ∨ y / ((2 ^ t : Nat) : ℚ) - (R : ℚ) = -(1:ℚ)/2) ∧ R % 2 = 0) := by
  set P := 2 ^ (t - 1) with hP
  have hPp : 0 < P := two_pow_pos _
  have hT : 2 ^ t = 2 * P := by rw [hP, ← Nat.pow_succ']; congr 1; omega
  have hTq : ((2 ^ t : Nat) : ℚ) = 2 * (P : ℚ) := by rw [hT]; push_cast; ring
  have hPq : (0 : ℚ) < (P : ℚ) := by exact_mod_cast hPp
  have hE1q : (((2 * R - 1) * P : Nat) : ℚ) = (2 * (R : ℚ) - 1) * (P : ℚ) := by
    push_cast; rw [Nat.cast_sub (by omega)]; push_cast; ring
  have hE2q : (((2 * R + 1) * P : Nat) : ℚ) = (2 * (R : ℚ) + 1) * (P : ℚ) := by push_cast; ring
  have c_lt : ∀ z : ℚ, z / ((2 ^ t : Nat) : ℚ) - (R : ℚ) < 1 / 2 ↔ z < (((2 * R + 1) * P : Nat) : ℚ) := by
    intro z; rw [hTq, hE2q, sub_lt_iff_lt_add, div_lt_iff₀ (by positivity)]
    constructor <;> intro hh <;> nlinarith
  have c_gt : ∀ z : ℚ, -(1:ℚ) / 2 < z / ((2 ^ t : Nat) : ℚ) - (R : ℚ) ↔ (((2 * R - 1) * P : Nat) : ℚ) < z := by
    intro z; rw [hTq, hE1q, lt_sub_iff_add_lt, lt_div_iff₀ (by positivity)]
    constructor <;> intro hh <;> nlinarith
  have c_eq2 : ∀ z : ℚ, z / ((2 ^ t : Nat) : ℚ) - (R : ℚ) = 1 / 2 ↔ z = (((2 * R + 1) * P : Nat) : ℚ) := by
    intro z; rw [hTq, hE2q, sub_eq_iff_eq_add, div_eq_iff (by positivity)]
    constructor <;> intro hh <;> nlinarith
  have c_eq1 : ∀ z : ℚ, z / ((2 ^ t : Nat) : ℚ) - (R : ℚ) = -(1:ℚ) / 2 ↔ z = (((2 * R - 1) * P : Nat) : ℚ) := by
    intro z; rw [hTq, hE1q, sub_eq_iff_eq_add, div_eq_iff (by positivity)]
    constructor <;> intro hh <;> nlinarith
  obtain ⟨s2a, s2b⟩ := hside (2 * R + 1)
  obtain ⟨s1a, s1b⟩ := hside (2 * R - 1)
  rcases h with ⟨h1, h2⟩ | ⟨h3, h4⟩
  · left
    rw [c_gt] at h1 ⊢; rw [c_lt] at h2 ⊢
    have h1' : (2 * R - 1) * P < S := by exact_mod_cast h1
    have h2' : S < (2 * R + 1) * P := by exact_mod_cast h2
    exact ⟨s1b.mp h1', s2a.mp h2'⟩
  · right
    refine ⟨?_, h4⟩
    rcases h3 with h3 | h3
    · left
      rw [c_eq2] at h3 ⊢
      have h3' : S = (2 * R + 1) * P := by exact_mod_cast h3
      have a1 : ¬ (y < (((2 * R + 1) * P : Nat) : ℚ)) := fun hc => by have := s2a.mpr hc; omega
      have a2 : ¬ ((((2 * R + 1) * P : Nat) : ℚ) < y) := fun hc => by have := s2b.mpr hc; omega
      exact le_antisymm (not_lt.mp a2) (not_lt.mp a1)
    · right
      rw [c_eq1] at h3 ⊢
      have h3' : S = (2 * R - 1) * P := by exact_mod_cast h3
      have a1 : ¬ (y < (((2 * R - 1) * P : Nat) : ℚ)) := fun hc => by have := s1a.mpr hc; omega
      have a2 : ¬ ((((2 * R - 1) * P : Nat) : ℚ) < y) := fun hc => by have := s1b.mpr hc; omega
      exact le_antisymm (not_lt.mp a2) (not_lt.mp a1)

end UVerif.Cfloat
