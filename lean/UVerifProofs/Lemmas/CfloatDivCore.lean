import Mathlib.Tactic.Ring
import Mathlib.Tactic.Linarith
import Mathlib.Tactic.FieldSimp
import Mathlib.Algebra.Order.Field.Power
import Mathlib.Data.Rat.Floor
import UVerifProofs.Lemmas.CfloatDiv
open UVerif UVerif.Cfloat

namespace UVerif.Cfloat

theorem normalizeOp_div_normal (c : Cfg) (a : Nat) (he : c.expOf a ≠ 0) :
    normalizeOp c .div a = { zero := false, sign := c.signOf a, scale := (c.expOf a : Int) - c.bias,
                             sig := (2 ^ c.fbits + c.fracOf a) * 2 ^ (2 * c.fbits + 4) } := by
  unfold normalizeOp sigBits scaleOf
  simp only [he, if_false, Nat.or_zero]
  rw [or_pow_eq_add _ _ (fracOf_lt c a), Nat.shiftLeft_eq]

/-- `blocktriple::div` on two normalised significants: the computed quotient q with its leading bit moved to the
    radix position 3fb+4 (at most one position) -/
theorem tripleDiv_normal (fb : Nat) (hfb : 1 ≤ fb) (s1 s2 : Bool) (sc1 sc2 : Int) (A B : Nat)
    (hA1 : 2 ^ fb ≤ A) (hA2 : A < 2 ^ (fb + 1)) (hB1 : 2 ^ fb ≤ B) (hB2 : B < 2 ^ (fb + 1)) :
    ∃ (q sh : Nat), sh ≤ 1 ∧
      tripleDiv fb { zero := false, sign := s1, scale := sc1, sig := A * 2 ^ (2 * fb + 4) }
                   { zero := false, sign := s2, scale := sc2, sig := B * 2 ^ (2 * fb + 4) }
        = { zero := false, sign := s1 != s2, scale := sc1 - sc2 - (sh : Int), sig := q * 2 ^ sh } ∧
      2 ^ (3 * fb + 4) ≤ q * 2 ^ sh ∧ q * 2 ^ sh < 2 ^ (3 * fb + 5) ∧
      (A * 2 ^ (2 * fb + 4) / B) * 2 ^ fb ≤ q ∧ q < (A * 2 ^ (2 * fb + 4) / B) * 2 ^ fb + 2 ^ fb ∧
      ((A * 2 ^ (2 * fb + 4)) % B = 0 → q = (A * 2 ^ (2 * fb + 4) / B) * 2 ^ fb) := by
  obtain ⟨d1, d2, d3⟩ := divq_spec fb A B hfb hA1 hA2 hB1 hB2
  have hF := two_pow_pos fb
  have hBpos : 0 < B := by omega
  have p1 : 2 ^ (fb + 1) = 2 * 2 ^ fb := by rw [Nat.pow_succ]; omega
  -- bounds of the integer quotient
  have hQlo : 2 ^ (2 * fb + 3) ≤ A * 2 ^ (2 * fb + 4) / B := by
    rw [Nat.le_div_iff_mul_le hBpos]
    have h1 : 2 ^ (2 * fb + 3) * B ≤ 2 ^ (2 * fb + 3) * (2 * 2 ^ fb) := Nat.mul_le_mul_left _ (by omega)
    have h2 : 2 ^ (2 * fb + 3) * (2 * 2 ^ fb) = 2 ^ fb * 2 ^ (2 * fb + 4) := by
      rw [show 2 * fb + 4 = (2 * fb + 3) + 1 by omega, Nat.pow_succ]; ring
    have h3 : 2 ^ fb * 2 ^ (2 * fb + 4) ≤ A * 2 ^ (2 * fb + 4) := Nat.mul_le_mul_right _ hA1
    omega
  have hQhi : A * 2 ^ (2 * fb + 4) / B < 2 ^ (2 * fb + 5) := by
    rw [Nat.div_lt_iff_lt_mul hBpos]
    have h1 : A * 2 ^ (2 * fb + 4) < (2 * 2 ^ fb) * 2 ^ (2 * fb + 4) := Nat.mul_lt_mul_of_pos_right (by omega) (two_pow_pos _)
    have h2 : (2 * 2 ^ fb) * 2 ^ (2 * fb + 4) = 2 ^ (2 * fb + 5) * 2 ^ fb := by
      rw [show 2 * fb + 5 = (2 * fb + 4) + 1 by omega, Nat.pow_succ]; ring
    have h3 : 2 ^ (2 * fb + 5) * 2 ^ fb ≤ 2 ^ (2 * fb + 5) * B := Nat.mul_le_mul_left _ hB1
    omega
  generalize hq : divLoop (3 * fb + 4) (2 * ((3 * fb + 4) / 2) + 1) 0 (A * 2 ^ (2 * fb + 4)) (B * 2 ^ (2 * fb + 4)) 0 = q at *
  generalize hQi : A * 2 ^ (2 * fb + 4) / B = Qi at *
  have e33 : 2 ^ (3 * fb + 3) = 2 ^ (2 * fb + 3) * 2 ^ fb := by rw [← Nat.pow_add]; congr 1; omega
  have e35 : 2 ^ (3 * fb + 5) = 2 ^ (2 * fb + 5) * 2 ^ fb := by rw [← Nat.pow_add]; congr 1; omega
  have e34 : 2 ^ (3 * fb + 4) = 2 * 2 ^ (3 * fb + 3) := by rw [← Nat.pow_succ']
  have e35' : 2 ^ (3 * fb + 5) = 2 * 2 ^ (3 * fb + 4) := by rw [← Nat.pow_succ']
  have hqlo : 2 ^ (3 * fb + 3) ≤ q := by
    have : 2 ^ (2 * fb + 3) * 2 ^ fb ≤ Qi * 2 ^ fb := Nat.mul_le_mul_right _ hQlo
    omega
  have hqhi : q < 2 ^ (3 * fb + 5) := by
    have : (Qi + 1) * 2 ^ fb ≤ 2 ^ (2 * fb + 5) * 2 ^ fb := Nat.mul_le_mul_right _ hQhi
    rw [Nat.succ_mul] at this
    omega
  have hq0 : q ≠ 0 := by have := two_pow_pos (3 * fb + 3); omega
  have hb5 : q.testBit (3 * fb + 5) = false := Nat.testBit_lt_two_pow hqhi
  have w1 : 3 * fb + 6 - 1 = 3 * fb + 5 := by omega
  have w2 : 3 * fb + 6 - 2 = 3 * fb + 4 := by omega
  by_cases hbig : 2 ^ (3 * fb + 4) ≤ q
  · -- leading bit at the radix position
    refine ⟨q, 0, by omega, ?_, by simpa using hbig, by simpa using hqhi, d1, d2, d3⟩
    have hb4 : q.testBit (3 * fb + 4) = true := by
      rw [Nat.testBit_eq_decide_div_mod_eq]
      have : q / 2 ^ (3 * fb + 4) = 1 := by
        apply Nat.div_eq_of_lt_le <;> omega
      simp [this]
    unfold tripleDiv Op.bfbits Op.radix
    simp only [hq, hq0, if_false, w1, w2, hb5, hb4]
    simp
  · have hlt : q < 2 ^ (3 * fb + 4) := by omega
    have hb4 : q.testBit (3 * fb + 4) = false := Nat.testBit_lt_two_pow hlt
    have hlog : Nat.log2 q = 3 * fb + 3 := by
      have l1 : 2 ^ Nat.log2 q ≤ q := Nat.log2_self_le hq0
      have l2 : q < 2 ^ (Nat.log2 q + 1) := Nat.lt_log2_self
      by_contra hc
      rcases Nat.lt_or_gt_of_ne hc with h | h
      · have : 2 ^ (Nat.log2 q + 1) ≤ 2 ^ (3 * fb + 3) := Nat.pow_le_pow_right (by omega) (by omega)
        omega
      · have : 2 ^ (3 * fb + 4) ≤ 2 ^ Nat.log2 q := Nat.pow_le_pow_right (by omega) (by omega)
        omega
    refine ⟨q, 1, le_refl 1, ?_, by omega, by omega, d1, d2, d3⟩
    unfold tripleDiv Op.bfbits Op.radix
    simp only [hq, hq0, if_false, w1, w2, hb5, hb4, hlog]
    have hsh : 3 * fb + 4 - (3 * fb + 3) = 1 := by omega
    have hmod : (q <<< 1) % 2 ^ (3 * fb + 6) = q * 2 ^ 1 := by
      rw [Nat.shiftLeft_eq]
      apply Nat.mod_eq_of_lt
      have : 2 ^ (3 * fb + 6) = 2 * 2 ^ (3 * fb + 5) := by rw [← Nat.pow_succ']
      omega
    simp [hsh, hmod]

end UVerif.Cfloat

namespace UVerif.Cfloat

/-- **division of two finite operands with non-zero exponent fields**, result in the normal range below the top
    binades, ≤ 64-bit path (3·fbits + 6 < 65): the quotient computed by the restoring loop — exact in its upper
    2fb+5 bits, arbitrary in the low fb bits — rounds, at a position ≥ 2fb+3, exactly like the exact quotient
    (`div_side`: no tie without equality), so the result is the IEEE rounding of the exact quotient. -/
theorem div_normal_round (c : Cfg) (hv : c.valid = true) (a b : Nat)
    (hnarrow : 3 * c.fbits + 6 < 65)
    (hna : normalOperand c a = true) (hnb : normalOperand c b = true)
    (hlo : ∀ sh : Nat, sh ≤ 1 → c.minExpNormal ≤ ((c.expOf a : Int) - c.bias) - ((c.expOf b : Int) - c.bias) - 1 ∧
            ((c.expOf a : Int) - c.bias) - ((c.expOf b : Int) - c.bias) - (sh : Int) + c.bias + 1 < c.emax) :
    satisfies c (expectOp "div" (cfVal c a) (cfVal c b)) (div c a b) = true := by
  obtain ⟨na, ia, za, ea, va⟩ := normalOperand_facts c hv a hna
  obtain ⟨nb, ib, zb, eb, vb⟩ := normalOperand_facts c hv b hnb
  obtain ⟨_, hfb1, _, _⟩ := valid_facts c hv
  have hF := two_pow_pos c.fbits
  have hb0 := bias_nonneg c
  have hmn : c.minExpNormal = 1 - c.bias := rfl
  have hfa := fracOf_lt c a
  have hfb := fracOf_lt c b
  have p1 : 2 ^ (c.fbits + 1) = 2 * 2 ^ c.fbits := by rw [Nat.pow_succ]; omega
  set A := 2 ^ c.fbits + c.fracOf a with hA
  set B := 2 ^ c.fbits + c.fracOf b with hB
  have hBpos : 0 < B := by omega
  obtain ⟨q, sh, hsh, htd, slo, shi, d1, d2, d3⟩ := tripleDiv_normal c.fbits hfb1 (c.signOf a) (c.signOf b)
    ((c.expOf a : Int) - c.bias) ((c.expOf b : Int) - c.bias) A B (by omega) (by omega) (by omega) (by omega)
  obtain ⟨hlo1, hhi1⟩ := hlo sh hsh
  set sc : Int := ((c.expOf a : Int) - c.bias) - ((c.expOf b : Int) - c.bias) with hsc
  set sig := q * 2 ^ sh with hsig
  -- the model path
  have hdiv : div c a b = convertFinite c .div (c.signOf a != c.signOf b) (sc - (sh : Int)) sig := by
    unfold div
    rw [prologue_skip c a b _ na nb]
    simp only [ia, ib, za, zb, Bool.false_eq_true, if_false]
    rw [normalizeOp_div_normal c a ea, normalizeOp_div_normal c b eb, htd]
    unfold convertTriple
    simp
  have hrdx : Op.radix .div c.fbits = 3 * c.fbits + 4 := rfl
  have hbf : Op.bfbits .div c.fbits = 3 * c.fbits + 6 := rfl
  obtain ⟨m1, m2⟩ := sigScale_spec (3 * c.fbits + 4) sig slo
  have hss : sigScale (3 * c.fbits + 4) sig = 0 := by
    by_contra hc
    have : 2 ^ (3 * c.fbits + 5) ≤ 2 ^ (sigScale (3 * c.fbits + 4) sig + (3 * c.fbits + 4)) := Nat.pow_le_pow_right (by omega) (by omega)
    omega
  rw [hdiv, convertFinite_eq_assemble c hv .div _ (sc - (sh : Int)) sig (by rw [hbf]; exact hnarrow)
    (by rw [hrdx, hss]; simp only [Nat.cast_zero, add_zero]; omega) (by rw [hrdx, hss]; simp only [Nat.cast_zero, add_zero]; omega)]
  rw [hrdx, hss]
  have ht : 0 + (3 * c.fbits + 4) - c.fbits = 2 * c.fbits + 4 := by omega
  rw [ht]
  set t := 2 * c.fbits + 4 with htdef
  have e1 : 2 ^ (3 * c.fbits + 4) = 2 ^ c.fbits * 2 ^ t := by rw [← Nat.pow_add]; congr 1; omega
  have e2 : 2 ^ (3 * c.fbits + 5) = 2 ^ (c.fbits + 1) * 2 ^ t := by rw [← Nat.pow_add]; congr 1; omega
  have hT := two_pow_pos t
  have r1 : 2 ^ c.fbits ≤ sig >>> t := by
    rw [Nat.shiftRight_eq_div_pow, Nat.le_div_iff_mul_le hT, ← e1]; exact slo
  have r2 : sig >>> t < 2 ^ (c.fbits + 1) := by
    rw [Nat.shiftRight_eq_div_pow, Nat.div_lt_iff_lt_mul hT, ← e2]; exact shi
  set biased := (sc - (sh : Int) + ((0 : Nat) : Int) + c.bias).toNat with hbiased
  have hbi : (biased : Int) - c.bias = sc - (sh : Int) := by
    simp only [Nat.cast_zero, add_zero] at hbiased; omega
  have hbb1 : 1 ≤ biased := by simp only [Nat.cast_zero, add_zero] at hbiased; omega
  have hbb2 : biased + 1 < c.emax := by simp only [Nat.cast_zero, add_zero] at hbiased; omega
  -- the exact quotient in units 2^(sc - radix): y = W / B with W = A * 2^(3fb+4)
  set W := A * 2 ^ (3 * c.fbits + 4) with hW
  have hBq : (0 : ℚ) < (B : ℚ) := by exact_mod_cast hBpos
  set y : ℚ := (W : ℚ) / (B : ℚ) with hy
  set X : ℚ := y * pow2 (sc - ((3 * c.fbits + 4 : Nat) : Int)) with hX
  have hpr := pow2_pos (sc - ((3 * c.fbits + 4 : Nat) : Int))
  -- q and y lie on the same side of every multiple of 2^(2fb+2)
  have hside : ∀ e : Nat, (q < e * 2 ^ (2 * c.fbits + 2) ↔ y < ((e * 2 ^ (2 * c.fbits + 2) : Nat) : ℚ)) ∧
      (e * 2 ^ (2 * c.fbits + 2) < q ↔ ((e * 2 ^ (2 * c.fbits + 2) : Nat) : ℚ) < y) := by
    intro e
    obtain ⟨s1, s2⟩ := div_side c.fbits A B q e (by omega) (by omega) d1 d2 d3
    constructor
    · rw [s1, hy, div_lt_iff₀ hBq]; exact_mod_cast Iff.rfl
    · rw [s2, hy, lt_div_iff₀ hBq]; exact_mod_cast Iff.rfl
  -- binade of X
  have hS := two_pow_pos sh
  have hqlo : 2 ^ (3 * c.fbits + 4 - sh) ≤ q := by
    have e : 2 ^ (3 * c.fbits + 4) = 2 ^ (3 * c.fbits + 4 - sh) * 2 ^ sh := by rw [← Nat.pow_add]; congr 1; omega
    rw [e, hsig] at slo
    exact Nat.le_of_mul_le_mul_right slo hS
  have hqhi : q < 2 ^ (3 * c.fbits + 5 - sh) := by
    have e : 2 ^ (3 * c.fbits + 5) = 2 ^ (3 * c.fbits + 5 - sh) * 2 ^ sh := by rw [← Nat.pow_add]; congr 1; omega
    rw [e, hsig] at shi
    exact Nat.lt_of_mul_lt_mul_right shi
  have pw1 : 2 ^ (3 * c.fbits + 4 - sh) = 2 ^ (c.fbits + 2 - sh) * 2 ^ (2 * c.fbits + 2) := by rw [← Nat.pow_add]; congr 1; omega
  have pw2 : 2 ^ (3 * c.fbits + 5 - sh) = 2 ^ (c.fbits + 3 - sh) * 2 ^ (2 * c.fbits + 2) := by rw [← Nat.pow_add]; congr 1; omega
  have hylo : ((2 ^ (3 * c.fbits + 4 - sh) : Nat) : ℚ) ≤ y := by
    by_contra hc
    have := (hside (2 ^ (c.fbits + 2 - sh))).1.mpr (by rw [← pw1]; exact not_le.mp hc)
    rw [← pw1] at this; omega
  have hyhi : y < ((2 ^ (3 * c.fbits + 5 - sh) : Nat) : ℚ) := by
    have := (hside (2 ^ (c.fbits + 3 - sh))).1.mp (by rw [← pw2]; exact hqhi)
    rw [← pw2] at this; exact this
  have hXlo : pow2 ((biased : Int) - c.bias) ≤ X := by
    rw [hbi]
    have : pow2 (sc - (sh : Int)) = ((2 ^ (3 * c.fbits + 4 - sh) : Nat) : ℚ) * pow2 (sc - ((3 * c.fbits + 4 : Nat) : Int)) := by
      rw [← pow2_natCast, ← pow2_add]; congr 1; push_cast; omega
    rw [this, hX]
    exact mul_le_mul_of_nonneg_right hylo (le_of_lt hpr)
  have hXhi : X < pow2 ((biased : Int) - c.bias + 1) := by
    rw [hbi]
    have : pow2 (sc - (sh : Int) + 1) = ((2 ^ (3 * c.fbits + 5 - sh) : Nat) : ℚ) * pow2 (sc - ((3 * c.fbits + 4 : Nat) : Int)) := by
      rw [← pow2_natCast, ← pow2_add]; congr 1; push_cast; omega
    rw [this, hX]
    exact mul_lt_mul_of_pos_right hyhi hpr
  -- nearest-even: sig / 2^t = q / 2^(t - sh), then transfer to y
  have hRge : 1 ≤ rneShr sig t := by
    have hle := (rneShr_le sig t).1
    exact le_trans (le_trans hF r1) hle
  have hk0 := rneShr_nearest sig t
  simp only [] at hk0
  have hq' : (sig : ℚ) / ((2 ^ t : Nat) : ℚ) = (q : ℚ) / ((2 ^ (t - sh) : Nat) : ℚ) := by
    have : (2 ^ t : Nat) = 2 ^ (t - sh) * 2 ^ sh := by rw [← Nat.pow_add]; congr 1; omega
    rw [hsig, this]; push_cast
    have h1 : (0 : ℚ) < (2 : ℚ) ^ sh := by positivity
    have h2 : (0 : ℚ) < (2 : ℚ) ^ (t - sh) := by positivity
    field_simp
  rw [hq'] at hk0
  have hside' : ∀ k : Nat, (q < k * 2 ^ (t - sh - 1) ↔ y < ((k * 2 ^ (t - sh - 1) : Nat) : ℚ)) ∧
      (k * 2 ^ (t - sh - 1) < q ↔ ((k * 2 ^ (t - sh - 1) : Nat) : ℚ) < y) := by
    intro k
    have e : k * 2 ^ (t - sh - 1) = (k * 2 ^ (t - sh - 1 - (2 * c.fbits + 2))) * 2 ^ (2 * c.fbits + 2) := by
      rw [Nat.mul_assoc, ← Nat.pow_add]; congr 2; omega
    rw [e]; exact hside _
  have hk1 := nearest_transfer_side q (t - sh) (rneShr sig t) y (by omega) hRge hside' hk0
  have hquot : X / pow2 ((biased : Int) - c.bias - (c.fbits : Int)) = y / ((2 ^ (t - sh) : Nat) : ℚ) := by
    have h1 : pow2 (sc - ((3 * c.fbits + 4 : Nat) : Int))
        = pow2 ((biased : Int) - c.bias - (c.fbits : Int)) / ((2 ^ (t - sh) : Nat) : ℚ) := by
      rw [← pow2_natCast, ← pow2_sub]; congr 1; rw [hbi]; push_cast; omega
    have hu := pow2_pos ((biased : Int) - c.bias - (c.fbits : Int))
    have ht2 : (0 : ℚ) < ((2 ^ (t - sh) : Nat) : ℚ) := by exact_mod_cast two_pow_pos (t - sh)
    rw [hX, h1]; field_simp
  rw [← hquot] at hk1
  obtain ⟨hr1, hr2⟩ := assemble_round_core c hv (c.signOf a != c.signOf b) biased sig t r1 r2 hbb1 hbb2 X hXlo hXhi hk1
  -- the spec side
  have hxa := normal_mag_pos (c.fracOf a) (2 ^ c.fbits) hF ((c.expOf a : Int) - c.bias)
  have hxb := normal_mag_pos (c.fracOf b) (2 ^ c.fbits) hF ((c.expOf b : Int) - c.bias)
  rw [va, vb]
  have hFq : (0 : ℚ) < ((2 ^ c.fbits : Nat) : ℚ) := by exact_mod_cast hF
  have hXval : X = ((1 + (c.fracOf a : ℚ) / ((2 ^ c.fbits : Nat) : ℚ)) * pow2 ((c.expOf a : Int) - c.bias)) /
      ((1 + (c.fracOf b : ℚ) / ((2 ^ c.fbits : Nat) : ℚ)) * pow2 ((c.expOf b : Int) - c.bias)) := by
    have hpa := pow2_pos ((c.expOf a : Int) - c.bias)
    have hpb := pow2_pos ((c.expOf b : Int) - c.bias)
    have h1 : pow2 (sc - ((3 * c.fbits + 4 : Nat) : Int)) = pow2 ((c.expOf a : Int) - c.bias) / pow2 ((c.expOf b : Int) - c.bias) / ((2 ^ (3 * c.fbits + 4) : Nat) : ℚ) := by
      rw [← pow2_natCast, ← pow2_sub, ← pow2_sub]
    have hBq' : (1 + (c.fracOf b : ℚ) / ((2 ^ c.fbits : Nat) : ℚ)) ≠ 0 := by positivity
    rw [hX, hy, hW, h1, hA, hB]
    push_cast
    have hpw : (0 : ℚ) < (2 : ℚ) ^ (3 * c.fbits + 4) := by positivity
    have hBpos' : (0 : ℚ) < (2 : ℚ) ^ c.fbits + (c.fracOf b : ℚ) := by positivity
    field_simp
  have hexp : expectOp "div"
      (Val.fin (c.signOf a) ((1 + (c.fracOf a : ℚ) / ((2 ^ c.fbits : Nat) : ℚ)) * pow2 ((c.expOf a : Int) - c.bias)))
      (Val.fin (c.signOf b) ((1 + (c.fracOf b : ℚ) / ((2 ^ c.fbits : Nat) : ℚ)) * pow2 ((c.expOf b : Int) - c.bias)))
      = .real ((if (c.signOf a != c.signOf b) = true then -1 else 1) * X) := by
    simp only [expectOp]
    rw [if_neg (ne_of_gt hxb), if_neg (ne_of_gt hxa), hXval]
  rw [hexp]
  unfold satisfies
  simp only [Bool.and_eq_true, decide_eq_true_eq]
  exact ⟨hr1, hr2⟩

end UVerif.Cfloat
