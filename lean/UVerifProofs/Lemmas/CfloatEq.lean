import Mathlib.Tactic.Ring
import Mathlib.Tactic.Linarith
import Mathlib.Tactic.FieldSimp
import Mathlib.Algebra.Order.Field.Power
import Mathlib.Data.Rat.Floor
import UVerifProofs.Lemmas.CfloatLog
open UVerif UVerif.Cfloat

namespace UVerif.Cfloat

/-- a canonical encoding is the arithmetic composition of its three fields -/
theorem enc_decompose (c : Cfg) (hv : c.valid = true) (a : Nat) (ha : a < 2 ^ c.nbits) :
    a = c.fracOf a + 2 ^ c.fbits * c.expOf a + signBit c (c.signOf a) := by
  have hp := pow_nbits c hv
  have hP := two_pow_pos (c.nbits - 1)
  rw [← absBits_split c hv]
  unfold absBits signBit Cfg.signOf
  rw [Nat.testBit_eq_decide_div_mod_eq]
  have hdm := Nat.div_add_mod a (2 ^ (c.nbits - 1))
  have hr := Nat.mod_lt a hP
  generalize a / 2 ^ (c.nbits - 1) = q at *
  generalize a % 2 ^ (c.nbits - 1) = r at *
  generalize 2 ^ (c.nbits - 1) = P at *
  have hq : q < 2 := by
    by_contra hc
    have : P * 2 ≤ P * q := Nat.mul_le_mul_left P (by omega)
    omega
  rcases Nat.lt_or_ge q 1 with h | h
  · have h0 : q = 0 := by omega
    subst h0; simp at hdm ⊢; omega
  · have h1 : q = 1 := by omega
    subst h1; simp at hdm ⊢; omega

theorem enc_eq_of_fields (c : Cfg) (hv : c.valid = true) (a b : Nat) (ha : a < 2 ^ c.nbits) (hb : b < 2 ^ c.nbits)
    (hs : c.signOf a = c.signOf b) (he : c.expOf a = c.expOf b) (hf : c.fracOf a = c.fracOf b) : a = b := by
  rw [enc_decompose c hv a ha, enc_decompose c hv b hb, hs, he, hf]

/-- magnitude denoted by the exponent / fraction fields of a finite encoding -/
def fieldMag (c : Cfg) (e f : Nat) : ℚ :=
  if e = 0 then (if c.sub then (f : ℚ) / ((2 ^ c.fbits : Nat) : ℚ) * pow2 (1 - c.bias) else 0)
  else (1 + (f : ℚ) / ((2 ^ c.fbits : Nat) : ℚ)) * pow2 ((e : Int) - c.bias)

theorem cfVal_fin_fieldMag (c : Cfg) (hv : c.valid = true) (a : Nat) (m : ℚ) (s : Bool) (h : cfVal c a = .fin s m) :
    m = fieldMag c (c.expOf a) (c.fracOf a) := by
  unfold fieldMag
  rcases cfVal_cases c a with ⟨_, _, e⟩ | ⟨_, _, _, e⟩ | ⟨he, _, _, e⟩ | ⟨_, h0, e⟩ | ⟨_, h0, e⟩
  · rw [e] at h; cases h
  · rw [e] at h; cases h
  · cases hs : c.sup
    · rw [hs] at e; rw [e] at h; cases h
    · rw [hs] at e; rw [e] at h
      simp only [if_true] at h
      injection h with _ h2
      have : c.expOf a ≠ 0 := by
        have := emax_pos c hv; omega
      rw [if_neg this, ← h2]
  · rw [if_pos h0]
    rw [e] at h
    cases hs : c.sub <;> rw [hs] at h <;> simp at h <;> simp [h.2]
  · rw [if_neg h0]
    rw [e] at h
    injection h with _ h2
    exact h2.symm

/-- distinct (exponent, fraction) fields denote distinct magnitudes, as soon as one of them is non-zero -/
theorem fieldMag_inj (c : Cfg) (ea fa eb fb : Nat) (hfa : fa < 2 ^ c.fbits) (hfb : fb < 2 ^ c.fbits)
    (h : fieldMag c ea fa = fieldMag c eb fb) (hnz : fieldMag c ea fa ≠ 0) : ea = eb ∧ fa = fb := by
  have hF : (0 : ℚ) < ((2 ^ c.fbits : Nat) : ℚ) := by exact_mod_cast two_pow_pos c.fbits
  have hp1 := pow2_pos (1 - c.bias)
  -- a subnormal magnitude is below every normal magnitude
  have sub_lt_normal : ∀ (f e g : Nat), f < 2 ^ c.fbits → e ≠ 0 →
      (f : ℚ) / ((2 ^ c.fbits : Nat) : ℚ) * pow2 (1 - c.bias) < (1 + (g : ℚ) / ((2 ^ c.fbits : Nat) : ℚ)) * pow2 ((e : Int) - c.bias) := by
    intro f e g hf he
    have h1 : (f : ℚ) / ((2 ^ c.fbits : Nat) : ℚ) < 1 := by rw [div_lt_one hF]; exact_mod_cast hf
    have h2 : (0 : ℚ) ≤ (g : ℚ) / ((2 ^ c.fbits : Nat) : ℚ) := by positivity
    have h3 : pow2 (1 - c.bias) ≤ pow2 ((e : Int) - c.bias) := pow2_le_pow2.mpr (by omega)
    have h4 := pow2_pos ((e : Int) - c.bias)
    nlinarith
  -- normal magnitudes: strict monotonicity in (e, f)
  have normal_inj : ∀ (e1 f1 e2 f2 : Nat), f1 < 2 ^ c.fbits → f2 < 2 ^ c.fbits →
      (1 + (f1 : ℚ) / ((2 ^ c.fbits : Nat) : ℚ)) * pow2 ((e1 : Int) - c.bias) = (1 + (f2 : ℚ) / ((2 ^ c.fbits : Nat) : ℚ)) * pow2 ((e2 : Int) - c.bias) →
      e1 = e2 ∧ f1 = f2 := by
    intro e1 f1 e2 f2 hf1 hf2 heq
    have h1 : (f1 : ℚ) / ((2 ^ c.fbits : Nat) : ℚ) < 1 := by rw [div_lt_one hF]; exact_mod_cast hf1
    have h2 : (f2 : ℚ) / ((2 ^ c.fbits : Nat) : ℚ) < 1 := by rw [div_lt_one hF]; exact_mod_cast hf2
    have g1 : (0 : ℚ) ≤ (f1 : ℚ) / ((2 ^ c.fbits : Nat) : ℚ) := by positivity
    have g2 : (0 : ℚ) ≤ (f2 : ℚ) / ((2 ^ c.fbits : Nat) : ℚ) := by positivity
    have sep : ∀ (x y : ℚ) (u v : Nat), x < 1 → 0 ≤ y → u < v →
        (1 + x) * pow2 ((u : Int) - c.bias) < (1 + y) * pow2 ((v : Int) - c.bias) := by
      intro x y u v hx hy huv
      have hp := pow2_pos ((u : Int) - c.bias)
      have hle : pow2 (((u : Int) - c.bias) + 1) ≤ pow2 ((v : Int) - c.bias) := pow2_le_pow2.mpr (by omega)
      rw [pow2_succ] at hle
      have hq := pow2_pos ((v : Int) - c.bias)
      nlinarith
    rcases Nat.lt_trichotomy e1 e2 with hlt | he | hgt
    · have := sep _ _ e1 e2 h1 g2 hlt; linarith
    · subst he
      refine ⟨rfl, ?_⟩
      have hp := pow2_pos ((e1 : Int) - c.bias)
      have : (f1 : ℚ) / ((2 ^ c.fbits : Nat) : ℚ) = (f2 : ℚ) / ((2 ^ c.fbits : Nat) : ℚ) := by
        have := mul_right_cancel₀ (ne_of_gt hp) heq
        linarith
      rw [div_left_inj' (ne_of_gt hF)] at this
      exact_mod_cast this
    · have := sep _ _ e2 e1 h2 g1 hgt; linarith
  unfold fieldMag at h hnz
  by_cases ha0 : ea = 0
  · by_cases hb0 : eb = 0
    · subst ha0; subst hb0
      refine ⟨rfl, ?_⟩
      cases hs : c.sub
      · rw [hs] at hnz; simp at hnz
      · rw [hs] at h; simp only [if_true] at h
        have := mul_right_cancel₀ (ne_of_gt hp1) h
        rw [div_left_inj' (ne_of_gt hF)] at this
        exact_mod_cast this
    · exfalso
      rw [if_pos ha0] at h hnz; rw [if_neg hb0] at h
      cases hs : c.sub
      · rw [hs] at hnz; simp at hnz
      · rw [hs] at h; simp only [if_true] at h
        have := sub_lt_normal fa eb fb hfa hb0
        linarith
  · by_cases hb0 : eb = 0
    · exfalso
      rw [if_neg ha0] at h; rw [if_pos hb0] at h
      cases hs : c.sub
      · rw [hs] at h; simp only [Bool.false_eq_true, if_false] at h
        have hpa := pow2_pos ((ea : Int) - c.bias)
        have : (0 : ℚ) ≤ (fa : ℚ) / ((2 ^ c.fbits : Nat) : ℚ) := by positivity
        nlinarith
      · rw [hs] at h; simp only [if_true] at h
        have := sub_lt_normal fb ea fa hfb ha0
        linarith
    · rw [if_neg ha0, if_neg hb0] at h
      exact normal_inj ea fa eb fb hfa hfb h

end UVerif.Cfloat
