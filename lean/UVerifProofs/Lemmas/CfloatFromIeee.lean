import Mathlib.Tactic.Ring
import Mathlib.Tactic.Linarith
import Mathlib.Tactic.FieldSimp
import Mathlib.Algebra.Order.Field.Power
import Mathlib.Data.Rat.Floor
import UVerifProofs.Lemmas.CfloatConvert
open UVerif UVerif.Cfloat

namespace UVerif.Cfloat

/-- adding the hidden bit 2^(fb+t) does not change the rounding decision at position t (fb ≥ 1) -/
theorem roundingDirection_add_hidden (x fb t : Nat) (hfb : 1 ≤ fb) :
    roundingDirection (x + 2 ^ fb * 2 ^ t) t = roundingDirection x t := by
  rw [roundingDirection_eq, roundingDirection_eq]
  have hT := two_pow_pos t
  have h1 : (x + 2 ^ fb * 2 ^ t) % 2 ^ t = x % 2 ^ t := Nat.add_mul_mod_self_right _ _ _
  have h2 : (x + 2 ^ fb * 2 ^ t) >>> t = x >>> t + 2 ^ fb := by
    rw [Nat.shiftRight_eq_div_pow, Nat.shiftRight_eq_div_pow, Nat.add_mul_div_right _ _ hT]
  have h3 : (x >>> t + 2 ^ fb) % 2 = (x >>> t) % 2 := by
    have : 2 ^ fb = 2 * 2 ^ (fb - 1) := by
      rw [← Nat.pow_succ']; congr 1; omega
    rw [this]; omega
  rw [h1, h2, h3]

theorem shift_add_hidden (x fb t : Nat) (hx : x < 2 ^ fb * 2 ^ t) :
    ((x + 2 ^ fb * 2 ^ t) >>> t) = 2 ^ fb + x >>> t ∧ x >>> t < 2 ^ fb := by
  have hT := two_pow_pos t
  constructor
  · rw [Nat.shiftRight_eq_div_pow, Nat.shiftRight_eq_div_pow, Nat.add_mul_div_right _ _ hT]; omega
  · rw [Nat.shiftRight_eq_div_pow, Nat.div_lt_iff_lt_mul hT]; exact hx

/-- the lsb/guard/round/sticky increment of convert_ieee754 is `roundingDirection` (t ≥ 1) -/
theorem ieee_increment_eq (frac t fr0 : Nat) (ht : 1 ≤ t) :
    (if frac.testBit (t - 1) = true then
        (if (frac.testBit t && !(decide (t ≥ 2) && frac.testBit (t - 2)) && !(decide (t ≥ 2) && frac % 2 ^ (t - 2) != 0)) = true then fr0 + 1 else fr0)
          + (if ((decide (t ≥ 2) && frac.testBit (t - 2)) || (decide (t ≥ 2) && frac % 2 ^ (t - 2) != 0)) = true then 1 else 0)
      else fr0)
    = fr0 + (if roundingDirection frac t = true then 1 else 0) := by
  unfold roundingDirection
  have hst : (decide (t ≥ 3) && frac % 2 ^ (t - 2) != 0) = (decide (t ≥ 2) && frac % 2 ^ (t - 2) != 0) := by
    by_cases h3 : t ≥ 3
    · have h2 : t ≥ 2 := by omega
      simp [h3, h2]
    · by_cases h2 : t ≥ 2
      · have : t - 2 = 0 := by omega
        simp [h3, this, Nat.mod_one]
      · simp [h3, h2]
  have hg : (decide (t ≥ 1) && frac.testBit (t - 1)) = frac.testBit (t - 1) := by simp [ht]
  simp only [hst, hg]
  generalize frac.testBit (t - 1) = g
  generalize frac.testBit t = l
  generalize (decide (t ≥ 2) && frac.testBit (t - 2)) = r
  generalize (decide (t ≥ 2) && frac % 2 ^ (t - 2) != 0) = s
  cases g <;> cases l <;> cases r <;> cases s <;> simp

/-- postProcess is the identity on encodings that are neither NaN nor infinity -/
theorem postProcess_id (c : Cfg) (b : Nat) (hn : isNan c b = false) (hi : isInf c b = false) : postProcess c b = b := by
  unfold postProcess isNanT
  simp [hn, hi]

/-- convert_ieee754 on a normal source whose exponent is a normal exponent of the target (at least two below the
    all-ones exponent) and whose fraction is wider than the target's: the result is the rounding tail `assemble`
    applied to the source significant 1.f with the shift sfb − fbits. -/
theorem fromIeee_normal_eq_assemble (c : Cfg) (hv : c.valid = true) (seb sfb qm sm bits : Nat)
    (hspec : ieeeSpecial c seb sfb qm sm bits = none)
    (hlay : ¬ (c.nbits = 1 + seb + sfb ∧ c.es = seb))
    (hexp0 : (bits >>> sfb) % 2 ^ seb ≠ 0)
    (hfb : c.fbits < sfb)
    (hlo : c.minExpNormal ≤ (((bits >>> sfb) % 2 ^ seb : Nat) : Int) - (((2 ^ (seb - 1) : Nat) : Int) - 1))
    (hhi : (((bits >>> sfb) % 2 ^ seb : Nat) : Int) - (((2 ^ (seb - 1) : Nat) : Int) - 1) + c.bias + 1 < c.emax) :
    fromIeee c seb sfb qm sm bits =
      assemble c (bits.testBit (seb + sfb))
        ((((bits >>> sfb) % 2 ^ seb : Nat) : Int) - (((2 ^ (seb - 1) : Nat) : Int) - 1) + c.bias).toNat
        (bits % 2 ^ sfb + 2 ^ c.fbits * 2 ^ (sfb - c.fbits)) (sfb - c.fbits) := by
  obtain ⟨hes, hfb1, _, _⟩ := valid_facts c hv
  have hb0 := bias_nonneg c
  have hmn : c.minExpNormal = 1 - c.bias := rfl
  have hms : c.minExpSubnormal = 1 - c.bias - (c.fbits : Int) := rfl
  generalize hre : (bits >>> sfb) % 2 ^ seb = rawExp at *
  generalize hrf : bits % 2 ^ sfb = rawFrac at *
  generalize hsb : (((2 ^ (seb - 1) : Nat) : Int) - 1) = sbias at *
  generalize hsg : bits.testBit (seb + sfb) = s at *
  have hrfl : rawFrac < 2 ^ sfb := by rw [← hrf]; exact Nat.mod_lt _ (two_pow_pos _)
  have hmax : (rawExp : Int) - sbias ≤ c.maxExp := by
    unfold Cfg.maxExp
    have hem : (c.emax : Int) = ((2 ^ c.es : Nat) : Int) - 1 := by
      unfold Cfg.emax; have := two_pow_pos c.es; omega
    by_cases h1 : c.es = 1
    · rw [if_pos h1]; rw [hem, h1] at hhi; norm_num at hhi; omega
    · rw [if_neg h1]; omega
  set t := sfb - c.fbits with ht
  have ht1 : 1 ≤ t := by omega
  have hpow : 2 ^ sfb = 2 ^ c.fbits * 2 ^ t := by rw [← Nat.pow_add]; congr 1; omega
  have hx : rawFrac < 2 ^ c.fbits * 2 ^ t := by rw [← hpow]; exact hrfl
  obtain ⟨sh1, sh2⟩ := shift_add_hidden rawFrac c.fbits t hx
  generalize hy : rawFrac >>> t = y at sh1 sh2
  have h2f : 2 ^ (c.fbits + 1) = 2 ^ c.fbits + 2 ^ c.fbits := by rw [Nat.pow_succ]; omega
  set biased := ((rawExp : Int) - sbias + c.bias).toNat with hbiased
  have hbpos : 1 ≤ biased := by omega
  have hbe2 : biased + 1 < c.emax := by omega
  -- right-hand side in composed form
  have hR := shift_round_eq_rneShr (rawFrac + 2 ^ c.fbits * 2 ^ t) t
  rw [roundingDirection_add_hidden rawFrac c.fbits t hfb1, sh1] at hR
  have hrd01 : (if roundingDirection rawFrac t = true then 1 else 0) ≤ 1 := by split_ifs <;> omega
  have r1 : 2 ^ c.fbits ≤ (rawFrac + 2 ^ c.fbits * 2 ^ t) >>> t := by rw [sh1]; omega
  have r2 : (rawFrac + 2 ^ c.fbits * 2 ^ t) >>> t < 2 ^ (c.fbits + 1) := by
    rw [sh1, h2f]; omega
  have hbe : (if rneShr (rawFrac + 2 ^ c.fbits * 2 ^ t) t = 2 ^ (c.fbits + 1) then biased + 1 else biased) < c.emax := by
    split_ifs <;> omega
  rw [assemble_normal c hv s biased _ t r1 r2 hbe]
  -- left-hand side
  have e0 : ¬ (rawExp = 0 ∧ rawFrac = 0) := fun hc => hexp0 hc.1
  have e1 : ¬ ((rawExp : Int) - sbias > c.maxExp) := by omega
  have e2 : ¬ (c.sub = true ∧ (rawExp : Int) - sbias < c.minExpSubnormal - 1) := by
    intro hc; have := hc.2; omega
  have e3 : ¬ (¬ c.sub = true ∧ (rawExp : Int) - sbias < c.minExpNormal) := by
    intro hc; have := hc.2; omega
  have e4 : ¬ ((rawExp : Int) - sbias < c.minExpNormal) := by omega
  unfold fromIeee
  simp only [hspec, hre, hrf, hsb, hsg, hlay, e0, e1, e2, e3, e4, hfb, hexp0, if_false, if_true, ne_eq, not_false_eq_true,
    Nat.add_zero, decide_false, Bool.false_eq_true, false_and, and_false]
  rw [← ht, ← hbiased]
  rw [ieee_increment_eq rawFrac t (rawFrac >>> t) ht1, hy]
  set fr1 := y + (if roundingDirection rawFrac t = true then 1 else 0) with hfr1
  have hRR : rneShr (rawFrac + 2 ^ c.fbits * 2 ^ t) t = 2 ^ c.fbits + fr1 := by rw [← hR]; omega
  have hfr1le : fr1 ≤ 2 ^ c.fbits := by omega
  by_cases hc : fr1 = 2 ^ c.fbits
  · have hg : rawFrac.testBit (t - 1) = true := by
      by_contra hng
      have hng' : rawFrac.testBit (t - 1) = false := by simpa using hng
      have : roundingDirection rawFrac t = false := by
        unfold roundingDirection; simp [hng']
      rw [this] at hfr1; simp at hfr1; omega
    have hne : ¬ biased = c.emax := by omega
    have hRc : rneShr (rawFrac + 2 ^ c.fbits * 2 ^ t) t = 2 ^ (c.fbits + 1) := by rw [hRR, hc, h2f]
    simp only [hg, hc, and_self, if_true, hne, if_false, hRc]
    obtain ⟨q1, q2, q3⟩ := raw_compose c hv s (biased + 1) 0 hbe2 (two_pow_pos _)
    rw [q1, postProcess_id c _ q2 q3]
  · have hRc : ¬ rneShr (rawFrac + 2 ^ c.fbits * 2 ^ t) t = 2 ^ (c.fbits + 1) := by rw [hRR, h2f]; omega
    have hand : ¬ (rawFrac.testBit (t - 1) = true ∧ fr1 = 2 ^ c.fbits) := fun h => hc h.2
    simp only [hand, if_false, hRc]
    obtain ⟨q1, q2, q3⟩ := raw_compose c hv s biased fr1 (by omega) (by omega)
    rw [q1, postProcess_id c _ q2 q3, hRR]
    rw [Nat.add_sub_cancel_left]

/-- convert_ieee754<long double> (`fromLD`, the x86-64 transcription with its own hidden-bit mask, the guards for a shift
    count of 64 and uint64_t composition) coincides with the generic transcription `fromIeee` at ⟨15, 63⟩ on every normal source
    whose exponent is a normal exponent of a target of at most 64 bits with fewer than 63 fraction bits: none of the
    long-double peculiarities is reached there (they live in the subnormal range and on the block path). -/
theorem fromLD_eq_fromIeee_normal (c : Cfg) (hv : c.valid = true) (qm sm hm bits : Nat)
    (hspec : ieeeSpecial c 15 63 qm sm bits = none)
    (hn64 : c.nbits ≤ 64)
    (hexp0 : (bits >>> 63) % 2 ^ 15 ≠ 0)
    (hfb : c.fbits < 63)
    (hlo : c.minExpNormal ≤ (((bits >>> 63) % 2 ^ 15 : Nat) : Int) - (((2 ^ (15 - 1) : Nat) : Int) - 1))
    (hhi : (((bits >>> 63) % 2 ^ 15 : Nat) : Int) - (((2 ^ (15 - 1) : Nat) : Int) - 1) + c.bias + 1 < c.emax) :
    fromLD c qm sm hm bits = fromIeee c 15 63 qm sm bits := by
  obtain ⟨hes, hfb1, hnb, _⟩ := valid_facts c hv
  have hb0 := bias_nonneg c
  have hmn : c.minExpNormal = 1 - c.bias := rfl
  have hms : c.minExpSubnormal = 1 - c.bias - (c.fbits : Int) := rfl
  have hlay : ¬ (c.nbits = 1 + 15 + 63 ∧ c.es = 15) := by omega
  generalize hre : (bits >>> 63) % 2 ^ 15 = rawExp at *
  generalize hrf : bits % 2 ^ 63 = rawFrac at *
  generalize hsb : (((2 ^ (15 - 1) : Nat) : Int) - 1) = sbias at *
  generalize hsg : bits.testBit (15 + 63) = s at *
  have hmax : (rawExp : Int) - sbias ≤ c.maxExp := by
    unfold Cfg.maxExp
    have hem : (c.emax : Int) = ((2 ^ c.es : Nat) : Int) - 1 := by
      unfold Cfg.emax; have := two_pow_pos c.es; omega
    by_cases h1 : c.es = 1
    · rw [if_pos h1]; rw [hem, h1] at hhi; norm_num at hhi; omega
    · rw [if_neg h1]; omega
  have e0 : ¬ (rawExp = 0 ∧ rawFrac = 0) := fun hc => hexp0 hc.1
  have e1 : ¬ ((rawExp : Int) - sbias > c.maxExp) := by omega
  have e2 : ¬ (c.sub = true ∧ (rawExp : Int) - sbias < c.minExpSubnormal - 1) := by
    intro hc; have := hc.2; omega
  have e3 : ¬ (¬ c.sub = true ∧ (rawExp : Int) - sbias < c.minExpNormal) := by
    intro hc; have := hc.2; omega
  have e4 : ¬ ((rawExp : Int) - sbias < c.minExpNormal) := by omega
  have ht : 63 - c.fbits < 64 := by omega
  unfold fromLD fromIeee
  simp only [hspec, hre, hrf, hsb, hsg, hlay, e1, e2, e4, hfb, hexp0, if_false, if_true, ne_eq, not_false_eq_true,
    Nat.add_zero, false_and, and_false, ht, decide_true, Bool.true_and]
  congr 1
  rw [Nat.or_mod_two_pow, Nat.or_mod_two_pow (a := _ <<< c.fbits), Nat.mod_mod_of_dvd _ (Nat.pow_dvd_pow 2 hn64)]

end UVerif.Cfloat
