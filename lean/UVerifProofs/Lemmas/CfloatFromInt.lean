/-
  convert_signed_integer / convert_unsigned_integer + round<> (Model.Cfloat.fromIntMag, roundInt; no range check — the
  repair of cfloat.from_int.out_of_range was withdrawn) after the repairs
  "round<>() sticky mask must include the bit below the round bit" and "round<>() must clear the fraction when
  rounding carries into the next binade": on in-range integers the routine is the rounding tail `assemble` applied to
  the integer's significant, hence correctly rounded (assemble_round_normal).
-/
import UVerifProofs.Lemmas.CfloatFromIeee
import UVerifProofs.Lemmas.CfloatOverflow
open UVerif UVerif.Cfloat

namespace UVerif.Cfloat

/-- `round<srcbits>`: the lsb/guard/round/sticky decision on the left-aligned fraction is `roundingDirection` at
    t = srcbits − fbits − 1, and a carry out of the fraction clears it and increments the exponent -/
theorem roundInt_eq (c : Cfg) (w raw : Nat) (ex : Int) (hw : c.fbits + 1 < w)
    (hr : raw >>> (w - c.fbits - 1) < 2 ^ c.fbits) :
    roundInt c w raw ex =
      (if raw >>> (w - c.fbits - 1) + (if roundingDirection raw (w - c.fbits - 1) = true then 1 else 0) = 2 ^ c.fbits
          ∧ roundingDirection raw (w - c.fbits - 1) = true
       then (0, ex + 1)
       else (raw >>> (w - c.fbits - 1) + (if roundingDirection raw (w - c.fbits - 1) = true then 1 else 0), ex)) := by
  unfold roundInt roundingDirection
  simp only [hw, if_true]
  have e1 : w - (c.fbits + 1) - 1 + 1 = w - c.fbits - 1 := by omega
  have e2 : w - (c.fbits + 1) - 1 = w - c.fbits - 1 - 1 := by omega
  have e3 : w - (c.fbits + 1) - 1 - 1 = w - c.fbits - 1 - 2 := by omega
  rw [e1, e3, e2]
  have ht1 : w - c.fbits - 1 ≥ 1 := by omega
  generalize w - c.fbits - 1 = t at *
  have hl : (raw >>> t).testBit 0 = raw.testBit t := by rw [Nat.testBit_shiftRight]; simp
  rw [hl]
  have d1 : decide (t ≥ 1) = true := by simpa using ht1
  have d2 : decide (t - 1 ≥ 1) = decide (t ≥ 2) := by
    by_cases h : t ≥ 2 <;> simp [h] <;> omega
  have d3 : decide (t - 1 ≥ 2) = decide (t ≥ 3) := by
    by_cases h : t ≥ 3 <;> simp [h] <;> omega
  simp only [d1, d2, d3, Bool.true_and]
  generalize raw.testBit (t - 1) = g
  generalize raw.testBit t = l
  generalize (decide (t ≥ 2) && raw.testBit (t - 2)) = r
  generalize (decide (t ≥ 3) && raw % 2 ^ (t - 2) != 0) = s
  generalize raw >>> t = r0 at *
  cases g <;> cases l <;> cases r <;> cases s <;> simp
  omega

/-- the 64-bit assembly `bits = ((sign << es | biased) << fbits) | raw; setbits(bits)` of the integer routines equals the
    field composition when the configuration fits 64 bits -/
theorem compose64 (c : Cfg) (hv : c.valid = true) (hn64 : c.nbits ≤ 64) (sign : Bool) (be fr : Nat)
    (hbe : be < c.emax) (hfr : fr < 2 ^ c.fbits) :
    ((((((if sign = true then 1 else 0) <<< c.es) ||| be) % 2 ^ 64) <<< c.fbits) % 2 ^ 64 ||| fr) % 2 ^ c.nbits
      = fr + 2 ^ c.fbits * be + signBit c sign := by
  obtain ⟨_, _, h3, h4⟩ := valid_facts c hv
  have hel := emax_lt c
  have hE := two_pow_pos c.es
  have h1 : ((if sign = true then 1 else 0) <<< c.es ||| be) < 2 ^ (c.es + 1) := by
    apply Nat.or_lt_two_pow
    · rw [Nat.shiftLeft_eq, Nat.pow_succ]; split_ifs <;> omega
    · rw [Nat.pow_succ]; omega
  have h64a : 2 ^ (c.es + 1) ≤ 2 ^ 64 := Nat.pow_le_pow_right (by omega) (by omega)
  have m1 : ((if sign = true then 1 else 0) <<< c.es ||| be) % 2 ^ 64 = ((if sign = true then 1 else 0) <<< c.es ||| be) :=
    Nat.mod_eq_of_lt (lt_of_lt_of_le h1 h64a)
  rw [m1]
  have h2 : ((if sign = true then 1 else 0) <<< c.es ||| be) <<< c.fbits < 2 ^ c.nbits := by
    rw [Nat.shiftLeft_eq, h3, show 1 + c.es + c.fbits = (c.es + 1) + c.fbits by omega, Nat.pow_add]
    exact Nat.mul_lt_mul_of_pos_right h1 (two_pow_pos _)
  have h64b : 2 ^ c.nbits ≤ 2 ^ 64 := Nat.pow_le_pow_right (by omega) hn64
  have m2 : (((if sign = true then 1 else 0) <<< c.es ||| be) <<< c.fbits) % 2 ^ 64 = ((if sign = true then 1 else 0) <<< c.es ||| be) <<< c.fbits :=
    Nat.mod_eq_of_lt (lt_of_lt_of_le h2 h64b)
  rw [m2]
  exact (raw_compose c hv sign be fr hbe hfr).1

theorem fromIntMag_eq_assemble (c : Cfg) (hv : c.valid = true) (w : Nat) (neg : Bool) (mag : Nat)
    (hm0 : mag ≠ 0) (hmw : mag < 2 ^ w) (hw64 : w ≤ 64) (hn64 : c.nbits ≤ 64) (hfw : c.fbits + 1 < w)
    (hlo : 1 ≤ (Nat.log2 mag : Int) + c.bias)
    (hhi : (Nat.log2 mag : Int) + c.bias + 1 < c.emax) :
    fromIntMag c w neg mag =
      assemble c neg ((Nat.log2 mag : Int) + c.bias).toNat
        ((mag - 2 ^ Nat.log2 mag) * 2 ^ (w - Nat.log2 mag - 1) + 2 ^ c.fbits * 2 ^ (w - c.fbits - 1)) (w - c.fbits - 1) := by
  obtain ⟨hes, hfb1, h3, h4⟩ := valid_facts c hv
  have hb0 := bias_nonneg c
  have hl1 := Nat.log2_self_le hm0
  have hl2 := Nat.lt_log2_self (n := mag)
  unfold fromIntMag
  simp only [hm0, if_false]
  generalize Nat.log2 mag = msb at *
  have hmsbw : msb < w := by
    by_contra h
    have : 2 ^ w ≤ 2 ^ msb := Nat.pow_le_pow_right (by omega) (by omega)
    omega
  generalize ht : w - c.fbits - 1 = t
  generalize hk : w - msb - 1 = k
  generalize hx : mag - 2 ^ msb = x
  have hxlt : x < 2 ^ msb := by rw [Nat.pow_succ] at hl2; omega
  have hpw : 2 ^ (w - 1) = 2 ^ msb * 2 ^ k := by rw [← Nat.pow_add]; congr 1; omega
  have hpw2 : 2 ^ (w - 1) = 2 ^ c.fbits * 2 ^ t := by rw [← Nat.pow_add]; congr 1; omega
  have hraw_lt : x * 2 ^ k < 2 ^ (w - 1) := by rw [hpw]; exact Nat.mul_lt_mul_of_pos_right hxlt (two_pow_pos _)
  have h63 : 2 ^ (w - 1) < 2 ^ 64 := Nat.pow_lt_pow_right (by omega) (by omega)
  have hraw : (x <<< k) % 2 ^ 64 = x * 2 ^ k := by rw [Nat.shiftLeft_eq, Nat.mod_eq_of_lt (by omega)]
  obtain ⟨sh1, sh2⟩ := shift_add_hidden (x * 2 ^ k) c.fbits t (by rw [← hpw2]; exact hraw_lt)
  rw [hraw]
  have hrd := roundInt_eq c w (x * 2 ^ k) (msb : Int) hfw (by rw [ht]; exact sh2)
  rw [ht] at hrd
  rw [hrd]
  clear hrd
  have hR := shift_round_eq_rneShr (x * 2 ^ k + 2 ^ c.fbits * 2 ^ t) t
  rw [roundingDirection_add_hidden (x * 2 ^ k) c.fbits t hfb1, sh1] at hR
  have r1 : 2 ^ c.fbits ≤ (x * 2 ^ k + 2 ^ c.fbits * 2 ^ t) >>> t := by rw [sh1]; exact Nat.le_add_right _ _
  have h2f : 2 ^ (c.fbits + 1) = 2 ^ c.fbits + 2 ^ c.fbits := by rw [Nat.pow_succ]; omega
  have r2 : (x * 2 ^ k + 2 ^ c.fbits * 2 ^ t) >>> t < 2 ^ (c.fbits + 1) := by rw [sh1, h2f]; exact Nat.add_lt_add_left sh2 _
  generalize hy : (x * 2 ^ k) >>> t = y at *
  generalize hrdv : roundingDirection (x * 2 ^ k) t = rd at *
  generalize hbi : ((msb : Int) + c.bias).toNat = biased at *
  have hbpos : 1 ≤ biased := by omega
  have hbe2 : biased + 1 < c.emax := by omega
  have hel := emax_lt c
  have hE63 : 2 ^ c.es ≤ 2 ^ 64 := Nat.pow_le_pow_right (by omega) (by omega)
  have hbe : (if rneShr (x * 2 ^ k + 2 ^ c.fbits * 2 ^ t) t = 2 ^ (c.fbits + 1) then biased + 1 else biased) < c.emax := by
    split_ifs <;> omega
  rw [assemble_normal c hv neg biased _ t r1 r2 hbe]
  have hb1 : (((msb : Int) + 1 + c.bias).toNat) = biased + 1 := by omega
  by_cases hc : y + (if rd = true then 1 else 0) = 2 ^ c.fbits
  · have hrdt : rd = true := by
      by_contra hn
      have : rd = false := by simpa using hn
      rw [this] at hc; simp at hc; omega
    subst hrdt
    simp only [if_true] at hc hR
    have hRc : rneShr (x * 2 ^ k + 2 ^ c.fbits * 2 ^ t) t = 2 ^ (c.fbits + 1) := by rw [← hR, h2f]; omega
    simp only [hc, and_self, if_true, hRc, hb1]
    rw [Nat.mod_eq_of_lt (show biased + 1 < 2 ^ 64 by omega)]
    exact compose64 c hv hn64 neg (biased + 1) 0 hbe2 (two_pow_pos _)
  · have hRc : ¬ rneShr (x * 2 ^ k + 2 ^ c.fbits * 2 ^ t) t = 2 ^ (c.fbits + 1) := by rw [← hR, h2f]; omega
    have hand : ¬ (y + (if rd = true then 1 else 0) = 2 ^ c.fbits ∧ rd = true) := fun h => hc h.1
    simp only [hand, if_false, hRc, hbi]
    rw [Nat.mod_eq_of_lt (show biased < 2 ^ 64 by omega)]
    have hfr : y + (if rd = true then 1 else 0) < 2 ^ c.fbits := by
      have : (if rd = true then 1 else 0) ≤ 1 := by split_ifs <;> omega
      omega
    rw [compose64 c hv hn64 neg biased _ (by omega) hfr, ← hR]
    congr 2
    omega

/-- a magnitude of at least 2^(MAX_EXP+1) overflows: ±inf, or ±maxpos in saturating configurations without
    supernormals, satisfies the rounding relation (the tail of `convert_overflow`, for any exact value) -/
theorem overflow_result (c : Cfg) (hv : c.valid = true) (hes2 : 2 ≤ c.es) (hcfg : c.sat = false ∨ c.sup = false)
    (sign : Bool) (X : ℚ) (hXlo : pow2 (c.maxExp + 1) ≤ X) :
    (if c.sat then (if sign then maxnegEnc c else maxposEnc c) else setInf c sign) < 2 ^ c.nbits ∧
    nearestNZ c ((if sign then -1 else 1) * X)
      (if c.sat then (if sign then maxnegEnc c else maxposEnc c) else setInf c sign) = true := by
  have hb0 := bias_nonneg c
  have hme := maxExp_eq c hes2
  have hE := emax_pos c hv
  have hXpos : 0 < X := lt_of_lt_of_le (pow2_pos _) hXlo
  have hov := overflows_of_ge c hv hes2 X hXlo
  have hneg : decide ((if sign = true then (-1 : ℚ) else 1) * X < 0) = sign := by
    cases sign <;> simp [hXpos, le_of_lt hXpos]
  have hX' : (if sign = true then -((if sign = true then (-1 : ℚ) else 1) * X) else (if sign = true then (-1 : ℚ) else 1) * X) = X := by
    cases sign <;> simp
  cases hsat : c.sat
  · simp only [Bool.false_eq_true, if_false]
    have sf := setInf_facts c hv sign
    refine ⟨sf.1, ?_⟩
    have hv' : cfVal c (setInf c sign) = .inf sign := by
      rw [(cfVal_isInf c hv _).mp sf.2.1, sf.2.2]
    unfold nearestNZ
    simp only [hneg, hv', hX', hov, hsat]
    simp
  · have hsup : c.sup = false := by
      rcases hcfg with h | h
      · rw [h] at hsat; cases hsat
      · exact h
    simp only [if_true]
    obtain ⟨hr, hvm⟩ := cfVal_maxpos_nosup c hv hes2 hsup sign
    refine ⟨hr, ?_⟩
    have hminN : ¬ (X < minNormal c) := by
      unfold minNormal
      have : pow2 (1 - c.bias) ≤ pow2 (c.maxExp + 1) := pow2_le_pow2.mpr (by omega)
      exact not_lt.mpr (le_trans this hXlo)
    unfold nearestNZ
    simp only [hneg, hvm, hX', hov, hsat, hminN]
    simp

end UVerif.Cfloat
