import Mathlib.Tactic.Ring
import Mathlib.Tactic.Linarith
import Mathlib.Tactic.FieldSimp
import Mathlib.Tactic.ByContra
import Mathlib.Algebra.Order.Field.Power
import Mathlib.Data.Rat.Floor
import UVerifProofs.Lemmas.CfloatUnderflow
open UVerif UVerif.Cfloat

/-!
  Encoding-level facts shared by all result ranges of `convert`: the general shape of `assemble` (fields written,
  NaN remap), encodings with the all-ones exponent field, the largest finite value and when exactly the spec says
  "overflow"; and the facts that let es = 1 (no normal binade at all: subnormals, then supernormals) be treated
  together with es ≥ 2.
-/
namespace UVerif.Cfloat

/-- fields written by `assemble` for the rounded significant R ∈ [2^fb, 2^(fb+1)] at biased exponent `biased` -/
def asmExp (c : Cfg) (biased R : Nat) : Nat :=
  if R = 2 ^ (c.fbits + 1) then (if biased = c.emax then c.emax else biased + 1) else biased
def asmFrac (c : Cfg) (biased R : Nat) : Nat :=
  if R = 2 ^ (c.fbits + 1) then (if biased = c.emax then 2 ^ c.fbits - 2 else 0) else R - 2 ^ c.fbits
/-- the NaN remap at the end of `convert` -/
def nanRemap (c : Cfg) (sign : Bool) (raw : Nat) : Nat :=
  if isNan c raw = true then (if c.sat = true then (if sign = true then maxnegEnc c else maxposEnc c) else setInf c sign) else raw

/-- the rounding tail of `convert` on the ≤ 64-bit path for every biased exponent up to the all-ones field -/
theorem assemble_general (c : Cfg) (hv : c.valid = true) (sign : Bool) (biased sig t : Nat)
    (hlo : 2 ^ c.fbits ≤ sig >>> t) (hhi : sig >>> t < 2 ^ (c.fbits + 1)) (hb : biased ≤ c.emax) :
    assemble c sign biased sig t =
      nanRemap c sign (asmFrac c biased (rneShr sig t) + 2 ^ c.fbits * asmExp c biased (rneShr sig t) + signBit c sign) := by
  obtain ⟨_, hfb, h3, h4⟩ := valid_facts c hv
  have hR := shift_round_eq_rneShr sig t
  have hF := two_pow_pos c.fbits
  have hF2 : 2 ^ (c.fbits + 1) = 2 * 2 ^ c.fbits := by rw [Nat.pow_succ]; omega
  have hF2' : 2 ≤ 2 ^ c.fbits := two_le_pow_fbits c hv
  have hfr0 : (sig >>> t) % 2 ^ c.fbits = sig >>> t - 2 ^ c.fbits := by
    rw [Nat.mod_eq_sub_mod hlo, Nat.mod_eq_of_lt (by omega)]
  have hemax : c.emax < 2 ^ c.es := emax_lt c
  unfold assemble nanRemap asmFrac asmExp
  simp only []
  rw [hfr0]
  have key : ∀ (be fr : Nat), be ≤ c.emax → fr < 2 ^ c.fbits →
      ((((if sign = true then 1 else 0) <<< c.es) ||| be) <<< c.fbits ||| fr) % 2 ^ c.nbits
        = fr + 2 ^ c.fbits * be + signBit c sign := by
    intro be fr hbe' hfr
    have hbe2 : be < 2 ^ c.es := by omega
    have fc := fields_of_compose c hv sign be fr hbe2 hfr
    have e1 : ((((if sign = true then 1 else 0) <<< c.es) ||| be) <<< c.fbits ||| fr) = fr + 2 ^ c.fbits * be + signBit c sign := by
      rw [shl_or_eq_add _ _ _ hbe2, shl_or_eq_add _ _ _ hfr]
      unfold signBit
      rw [h4, Nat.pow_add]
      cases sign <;> simp <;> ring
    rw [e1, Nat.mod_eq_of_lt fc.1]
  by_cases hc : rneShr sig t = 2 ^ (c.fbits + 1)
  · simp only [hc, if_true]
    have hru : roundingDirection sig t = true := by
      by_contra hne
      have : roundingDirection sig t = false := by simpa using hne
      rw [this] at hR; simp at hR; omega
    have e2 : (sig >>> t - 2 ^ c.fbits + 1) = 2 ^ c.fbits := by
      rw [hru] at hR; simp at hR; omega
    simp only [hru, if_true, e2]
    by_cases hbe : biased = c.emax
    · simp only [hbe, if_true]
      rw [key c.emax (2 ^ c.fbits - 2) (le_refl _) (by omega)]
    · simp only [hbe, if_false]
      rw [key (biased + 1) 0 (by omega) hF]
  · simp only [hc, if_false]
    have hfr1 : (if roundingDirection sig t = true then sig >>> t - 2 ^ c.fbits + 1 else sig >>> t - 2 ^ c.fbits) = rneShr sig t - 2 ^ c.fbits := by
      cases hrd : roundingDirection sig t <;> rw [hrd] at hR <;> simp at hR ⊢ <;> omega
    have hlt : rneShr sig t - 2 ^ c.fbits < 2 ^ c.fbits := by
      have : rneShr sig t ≤ 2 ^ (c.fbits + 1) := by
        cases hrd : roundingDirection sig t <;> rw [hrd] at hR <;> simp at hR <;> omega
      omega
    rw [hfr1]
    have hne : ¬ (rneShr sig t - 2 ^ c.fbits = 2 ^ c.fbits) := by omega
    simp only [hne, if_false]
    rw [key biased _ hb hlt]

/-- NaN classification of an encoding with the all-ones exponent field -/
theorem isNan_compose_emax (c : Cfg) (hv : c.valid = true) (s : Bool) (fr : Nat) (hfr : fr < 2 ^ c.fbits) :
    isNan c (fr + 2 ^ c.fbits * c.emax + signBit c s) =
      (if c.sup then decide (fr = 2 ^ c.fbits - 1) else decide (fr ≠ 2 ^ c.fbits - 2)) := by
  have fc := fields_of_compose c hv s c.emax fr (emax_lt c) hfr
  have hn := isNanEnc_iff c hv (fr + 2 ^ c.fbits * c.emax + signBit c s)
  have hi := isInf_iff c hv (fr + 2 ^ c.fbits * c.emax + signBit c s)
  rw [fc.2.2.1, fc.2.2.2] at hn hi
  have hs : isSuper c (fr + 2 ^ c.fbits * c.emax + signBit c s) = true := by
    unfold isSuper; rw [fc.2.2.1]; simp
  unfold isNan
  rw [hs]
  cases c.sup
  · simp only [Bool.false_eq_true, if_false, Bool.true_and]
    by_cases h : fr = 2 ^ c.fbits - 2
    · have : isInf c (fr + 2 ^ c.fbits * c.emax + signBit c s) = true := hi.mpr ⟨rfl, h⟩
      rw [this]; simp [h]
    · have : isInf c (fr + 2 ^ c.fbits * c.emax + signBit c s) = false := by
        rw [Bool.eq_false_iff]; intro hc; exact h (hi.mp hc).2
      rw [this]; simp [h]
  · simp only [if_true]
    by_cases h : fr = 2 ^ c.fbits - 1
    · rw [hn.mpr ⟨rfl, h⟩]; simp [h]
    · have : isNanEnc c (fr + 2 ^ c.fbits * c.emax + signBit c s) = false := by
        rw [Bool.eq_false_iff]; intro hc; exact h (hn.mp hc).2
      rw [this]; simp [h]

/-- value of a supernormal encoding (all-ones exponent, fraction ≤ 2^fb − 3) -/
theorem cfVal_compose_super (c : Cfg) (hv : c.valid = true) (hsup : c.sup = true) (s : Bool) (f : Nat)
    (hf : f + 3 ≤ 2 ^ c.fbits) :
    cfVal c (f + 2 ^ c.fbits * c.emax + signBit c s) =
      .fin s ((1 + (f : ℚ) / ((2 ^ c.fbits : Nat) : ℚ)) * pow2 ((c.emax : Int) - c.bias)) := by
  have fc := fields_of_compose c hv s c.emax f (emax_lt c) (by omega)
  rcases cfVal_cases c (f + 2 ^ c.fbits * c.emax + signBit c s) with ⟨_, h, _⟩ | ⟨_, _, h, _⟩ | ⟨_, _, _, h⟩ | ⟨h, _, _⟩ | ⟨h, _, _⟩
  · rw [fc.2.2.2] at h; omega
  · rw [fc.2.2.2] at h; omega
  · rw [h, hsup, fc.2.1, fc.2.2.1, fc.2.2.2]; simp
  · rw [fc.2.2.1] at h; omega
  · rw [fc.2.2.1] at h; omega

/-- the inf encoding assembled from its fields -/
theorem cfVal_compose_inf (c : Cfg) (hv : c.valid = true) (s : Bool) :
    2 ^ c.fbits - 2 + 2 ^ c.fbits * c.emax + signBit c s < 2 ^ c.nbits ∧
    cfVal c (2 ^ c.fbits - 2 + 2 ^ c.fbits * c.emax + signBit c s) = .inf s := by
  have hF := two_le_pow_fbits c hv
  have fc := fields_of_compose c hv s c.emax (2 ^ c.fbits - 2) (emax_lt c) (by omega)
  refine ⟨fc.1, ?_⟩
  have hi := (isInf_iff c hv (2 ^ c.fbits - 2 + 2 ^ c.fbits * c.emax + signBit c s)).mpr ⟨fc.2.2.1, fc.2.2.2⟩
  rw [(cfVal_isInf c hv _).mp hi, fc.2.1]

end UVerif.Cfloat

namespace UVerif.Cfloat

/-- when the largest finite value is an odd multiple K of its ulp, "X overflows" is `X ≥ (K + 1/2)·ulp` -/
theorem overflows_odd (c : Cfg) (T : Int) (K : Nat) (X : ℚ)
    (hM : maxFinite c = (K : ℚ) * pow2 (T - (c.fbits : Int)))
    (hK1 : 2 ^ c.fbits ≤ K) (hK2 : K < 2 ^ (c.fbits + 1)) (hodd : K % 2 = 1) (hT : 1 - c.bias ≤ T) :
    overflows c X = decide (((K : ℚ) + 1 / 2) * pow2 (T - (c.fbits : Int)) ≤ X) := by
  have hu := pow2_pos (T - (c.fbits : Int))
  have hpT : pow2 T = ((2 ^ c.fbits : Nat) : ℚ) * pow2 (T - (c.fbits : Int)) := by
    rw [pow2_sub T, pow2_natCast]
    have hF : (0 : ℚ) < ((2 ^ c.fbits : Nat) : ℚ) := by exact_mod_cast two_pow_pos c.fbits
    field_simp
  have hMlo : pow2 T ≤ maxFinite c := by
    rw [hM, hpT]; apply mul_le_mul_of_nonneg_right _ (le_of_lt hu); exact_mod_cast hK1
  have hMhi : maxFinite c < pow2 (T + 1) := by
    rw [hM, pow2_succ, hpT]
    have : (K : ℚ) < 2 * ((2 ^ c.fbits : Nat) : ℚ) := by
      have : K < 2 * 2 ^ c.fbits := by rw [Nat.pow_succ] at hK2; omega
      exact_mod_cast this
    nlinarith
  have hfl : floorLog2 (maxFinite c) = T := floorLog2_eq _ T hMlo hMhi
  have hul : ulpAt c (maxFinite c) = pow2 (T - (c.fbits : Int)) := by
    unfold ulpAt; simp only [hfl]; rw [if_neg (by omega)]
  have hq : maxFinite c / pow2 (T - (c.fbits : Int)) = ((K : Int) : ℚ) := by
    rw [hM]; push_cast; field_simp
  unfold overflows
  simp only [hul, hq]
  have hfloor : (((K : Int) : ℚ)).floor = (K : Int) := Rat.floor_intCast _
  rw [hfloor]
  have hkodd : ((K : Int) % 2 != 0) = true := by
    simp only [bne_iff_ne, ne_eq]; omega
  rw [hkodd, Bool.and_true, hM]
  have e : (K : ℚ) * pow2 (T - (c.fbits : Int)) + pow2 (T - (c.fbits : Int)) / 2
      = ((K : ℚ) + 1 / 2) * pow2 (T - (c.fbits : Int)) := by ring
  rw [e]
  generalize ((K : ℚ) + 1 / 2) * pow2 (T - (c.fbits : Int)) = B
  by_cases h1 : B < X
  · simp [h1, le_of_lt h1]
  · by_cases h2 : X = B
    · subst h2; simp
    · have : ¬ (B ≤ X) := by
        intro hle; exact h2 (le_antisymm (not_lt.mp h1) hle)
      simp [h1, h2, this]

/-- without (usable) supernormals the largest finite value is (2^(fb+1) − 1)·2^(MAX_EXP − 1 − fb) -/
theorem maxFinite_nosup (c : Cfg) (hes2 : 2 ≤ c.es) (h : ¬ (c.sup = true ∧ 2 ^ c.fbits ≥ 3)) :
    maxFinite c = ((2 ^ (c.fbits + 1) - 1 : Nat) : ℚ) * pow2 ((c.emax : Int) - 1 - c.bias - (c.fbits : Int)) := by
  have hF : (0 : ℚ) < ((2 ^ c.fbits : Nat) : ℚ) := by exact_mod_cast two_pow_pos c.fbits
  have hE4 : 4 ≤ 2 ^ c.es := by
    calc 4 = 2 ^ 2 := rfl
      _ ≤ 2 ^ c.es := Nat.pow_le_pow_right (by omega) hes2
  have h2 : c.emax ≥ 2 := by unfold Cfg.emax; omega
  unfold maxFinite
  simp only []
  rw [if_neg h, if_pos h2]
  have h1' : 1 ≤ 2 ^ c.fbits := two_pow_pos _
  rw [pow2_sub ((c.emax : Int) - 1 - c.bias), pow2_natCast]
  have e1 : ((2 ^ c.fbits - 1 : Nat) : ℚ) = ((2 ^ c.fbits : Nat) : ℚ) - 1 := by rw [Nat.cast_sub h1']; norm_num
  have e2 : ((2 ^ (c.fbits + 1) - 1 : Nat) : ℚ) = 2 * ((2 ^ c.fbits : Nat) : ℚ) - 1 := by
    rw [Nat.cast_sub (two_pow_pos _)]; push_cast; rw [pow_succ]; ring
  rw [e1, e2]; field_simp; ring

/-- with supernormals (fbits ≥ 2) the largest finite value is (2^(fb+1) − 3)·2^(MAX_EXP − fb) -/
theorem maxFinite_sup (c : Cfg) (h : c.sup = true ∧ 2 ^ c.fbits ≥ 3) :
    maxFinite c = ((2 ^ (c.fbits + 1) - 3 : Nat) : ℚ) * pow2 ((c.emax : Int) - c.bias - (c.fbits : Int)) := by
  have hF : (0 : ℚ) < ((2 ^ c.fbits : Nat) : ℚ) := by exact_mod_cast two_pow_pos c.fbits
  unfold maxFinite
  simp only []
  rw [if_pos h]
  rw [pow2_sub ((c.emax : Int) - c.bias), pow2_natCast]
  have e1 : ((2 ^ c.fbits - 3 : Nat) : ℚ) = ((2 ^ c.fbits : Nat) : ℚ) - 3 := by rw [Nat.cast_sub h.2]; norm_num
  have e2 : ((2 ^ (c.fbits + 1) - 3 : Nat) : ℚ) = 2 * ((2 ^ c.fbits : Nat) : ℚ) - 3 := by
    have : 3 ≤ 2 ^ (c.fbits + 1) := by rw [Nat.pow_succ]; omega
    rw [Nat.cast_sub this]; push_cast; rw [pow_succ]; ring
  rw [e1, e2]; field_simp; ring

theorem overflows_nosup (c : Cfg) (hv : c.valid = true) (hes2 : 2 ≤ c.es) (h : ¬ (c.sup = true ∧ 2 ^ c.fbits ≥ 3)) (X : ℚ) :
    overflows c X = decide ((((2 ^ (c.fbits + 1) - 1 : Nat) : ℚ) + 1 / 2) * pow2 ((c.emax : Int) - 1 - c.bias - (c.fbits : Int)) ≤ X) := by
  have hF := two_pow_pos c.fbits
  have hF2 : 2 ^ (c.fbits + 1) = 2 * 2 ^ c.fbits := by rw [Nat.pow_succ]; omega
  have hE4 : 4 ≤ 2 ^ c.es := by
    calc 4 = 2 ^ 2 := rfl
      _ ≤ 2 ^ c.es := Nat.pow_le_pow_right (by omega) hes2
  have hem : (c.emax : Int) = ((2 ^ c.es : Nat) : Int) - 1 := by unfold Cfg.emax; omega
  have h4 : (4 : Int) ≤ ((2 ^ c.es : Nat) : Int) := by exact_mod_cast hE4
  exact overflows_odd c ((c.emax : Int) - 1 - c.bias) (2 ^ (c.fbits + 1) - 1) X (maxFinite_nosup c hes2 h)
    (by omega) (by omega) (by omega) (by omega)

theorem overflows_sup (c : Cfg) (hv : c.valid = true) (h : c.sup = true ∧ 2 ^ c.fbits ≥ 3) (X : ℚ) :
    overflows c X = decide ((((2 ^ (c.fbits + 1) - 3 : Nat) : ℚ) + 1 / 2) * pow2 ((c.emax : Int) - c.bias - (c.fbits : Int)) ≤ X) := by
  have hF := two_pow_pos c.fbits
  have hF2 : 2 ^ (c.fbits + 1) = 2 * 2 ^ c.fbits := by rw [Nat.pow_succ]; omega
  have hE := emax_pos c hv
  exact overflows_odd c ((c.emax : Int) - c.bias) (2 ^ (c.fbits + 1) - 3) X (maxFinite_sup c h)
    (by omega) (by omega) (by omega) (by omega)

/-- the relation accepts ±inf for an overflowing X in non-saturating configurations -/
theorem nearestNZ_intro_inf (c : Cfg) (r : Nat) (sign : Bool) (X : ℚ) (hXpos : 0 < X)
    (hv : cfVal c r = .inf sign) (hsat : c.sat = false) (hov : overflows c X = true) :
    nearestNZ c ((if sign then -1 else 1) * X) r = true := by
  have hneg : decide ((if sign = true then (-1 : ℚ) else 1) * X < 0) = sign := by
    cases sign <;> simp [hXpos, le_of_lt hXpos]
  have hX' : (if sign = true then -((if sign = true then (-1 : ℚ) else 1) * X) else (if sign = true then (-1 : ℚ) else 1) * X) = X := by
    cases sign <;> simp
  unfold nearestNZ
  simp only [hneg, hv, hX', hov, hsat]
  simp

/-- the relation accepts ±maxFinite for an overflowing X in saturating configurations -/
theorem nearestNZ_intro_sat (c : Cfg) (r : Nat) (sign : Bool) (X : ℚ) (hXpos : 0 < X)
    (hv : cfVal c r = .fin sign (maxFinite c)) (hsat : c.sat = true) (hov : overflows c X = true)
    (hmin : ¬ (X < minNormal c)) :
    nearestNZ c ((if sign then -1 else 1) * X) r = true := by
  have hneg : decide ((if sign = true then (-1 : ℚ) else 1) * X < 0) = sign := by
    cases sign <;> simp [hXpos, le_of_lt hXpos]
  have hX' : (if sign = true then -((if sign = true then (-1 : ℚ) else 1) * X) else (if sign = true then (-1 : ℚ) else 1) * X) = X := by
    cases sign <;> simp
  unfold nearestNZ
  simp only [hneg, hv, hX', hov, hsat, hmin]
  simp

end UVerif.Cfloat

namespace UVerif.Cfloat

/-- every configuration the class accepts except es = 1 with a single fraction bit (cfloat<3,1,…> has neither a
    normal nor a finite supernormal encoding) -/
def Gen (c : Cfg) : Prop := 2 ≤ c.es ∨ 2 ≤ c.fbits

theorem es1_facts (c : Cfg) (hv : c.valid = true) (h1 : c.es = 1) :
    c.sub = true ∧ c.sup = true ∧ c.bias = 0 ∧ c.emax = 1 := by
  unfold Cfg.valid at hv
  simp only [Bool.and_eq_true, Bool.or_eq_true, decide_eq_true_eq] at hv
  have : c.sub = true ∧ c.sup = true := by
    rcases hv.2 with h | h
    · omega
    · exact h
  refine ⟨this.1, this.2, ?_, ?_⟩
  · unfold Cfg.bias; rw [h1]; simp
  · unfold Cfg.emax; rw [h1]

theorem gen_cases (c : Cfg) (hv : c.valid = true) (hg : Gen c) :
    2 ≤ c.es ∨ (c.es = 1 ∧ c.sub = true ∧ c.sup = true ∧ c.bias = 0 ∧ c.emax = 1 ∧ 4 ≤ 2 ^ c.fbits) := by
  obtain ⟨hes, _, _, _⟩ := valid_facts c hv
  by_cases h2 : 2 ≤ c.es
  · exact Or.inl h2
  · right
    have h1 : c.es = 1 := by omega
    obtain ⟨a, b, d, e⟩ := es1_facts c hv h1
    refine ⟨h1, a, b, d, e, ?_⟩
    have : 2 ≤ c.fbits := by rcases hg with h | h <;> omega
    calc 4 = 2 ^ 2 := rfl
      _ ≤ 2 ^ c.fbits := Nat.pow_le_pow_right (by omega) this

theorem maxExp_eq_gen (c : Cfg) (hv : c.valid = true) : c.maxExp = (c.emax : Int) - c.bias := by
  obtain ⟨hes, _, _, _⟩ := valid_facts c hv
  by_cases h2 : 2 ≤ c.es
  · exact maxExp_eq c h2
  · have h1 : c.es = 1 := by omega
    obtain ⟨_, _, d, e⟩ := es1_facts c hv h1
    unfold Cfg.maxExp; rw [if_pos h1, d, e]; rfl

theorem emax_ge_three (c : Cfg) (hes2 : 2 ≤ c.es) : 3 ≤ c.emax := by
  have hE4 : 4 ≤ 2 ^ c.es := by
    calc 4 = 2 ^ 2 := rfl
      _ ≤ 2 ^ c.es := Nat.pow_le_pow_right (by omega) hes2
  unfold Cfg.emax; omega

/-- the smallest normal magnitude 2^(1 − bias) never exceeds the largest finite value -/
theorem minNormal_le_maxFinite (c : Cfg) (hv : c.valid = true) (hg : Gen c) : pow2 (1 - c.bias) ≤ maxFinite c := by
  rcases gen_cases c hv hg with h2 | ⟨h1, _, hsup, hb, he, hF4⟩
  · have := emax_ge_three c h2
    exact le_trans (pow2_le_pow2.mpr (by omega)) (maxFinite_ge c (by omega))
  · have hsupF : c.sup = true ∧ 2 ^ c.fbits ≥ 3 := ⟨hsup, by omega⟩
    rw [maxFinite_sup c hsupF, he, hb]
    have hF : (0 : ℚ) < ((2 ^ c.fbits : Nat) : ℚ) := by exact_mod_cast two_pow_pos c.fbits
    have e2 : ((2 ^ (c.fbits + 1) - 3 : Nat) : ℚ) = 2 * ((2 ^ c.fbits : Nat) : ℚ) - 3 := by
      have : 3 ≤ 2 ^ (c.fbits + 1) := by rw [Nat.pow_succ]; omega
      rw [Nat.cast_sub this]; push_cast; rw [pow_succ]; ring
    have e3 : pow2 (((1 : Nat) : Int) - 0 - (c.fbits : Int)) = pow2 (1 - 0) / ((2 ^ c.fbits : Nat) : ℚ) := by
      rw [← pow2_natCast, ← pow2_sub]; congr 1
    rw [e2, e3]
    have hF4q : (4 : ℚ) ≤ ((2 ^ c.fbits : Nat) : ℚ) := by exact_mod_cast hF4
    have hp := pow2_pos (1 - 0)
    rw [mul_div_assoc', le_div_iff₀ hF]
    nlinarith

theorem maxFinite_pos (c : Cfg) (hv : c.valid = true) (hg : Gen c) : 0 < maxFinite c :=
  lt_of_lt_of_le (pow2_pos _) (minNormal_le_maxFinite c hv hg)

/-- the encoding with exponent field 1 and fraction 0 — the smallest normal, or with es = 1 the smallest
    supernormal — denotes 2^(1 − bias) -/
theorem cfVal_compose_one (c : Cfg) (hv : c.valid = true) (hg : Gen c) (s : Bool) :
    0 + 2 ^ c.fbits * 1 + signBit c s < 2 ^ c.nbits ∧ isNan c (0 + 2 ^ c.fbits * 1 + signBit c s) = false ∧
    cfVal c (0 + 2 ^ c.fbits * 1 + signBit c s) = .fin s (pow2 (1 - c.bias)) := by
  have hFn := two_pow_pos c.fbits
  rcases gen_cases c hv hg with h2 | ⟨h1, _, hsup, hb, he, hF4⟩
  · have h3 := emax_ge_three c h2
    have fc := fields_of_compose c hv s 1 0 (by have := emax_lt c; omega) hFn
    refine ⟨fc.1, isNan_false_of_exp_lt c hv _ (by rw [fc.2.2.1]; omega), ?_⟩
    rw [cfVal_compose_normal c hv s 1 0 (le_refl 1) (by omega) hFn]
    simp
  · have fc := fields_of_compose c hv s c.emax 0 (emax_lt c) hFn
    rw [← he]
    refine ⟨fc.1, ?_, ?_⟩
    · rw [isNan_compose_emax c hv s 0 hFn, hsup]; simp; omega
    · rw [cfVal_compose_super c hv hsup s 0 (by omega), he]; simp

/-- the rounding tail of `convert` for a subnormal result, every configuration of `Gen`: fraction `rneShr sig t`, or
    — when rounding reaches 2^fbits — exponent field 1 with fraction 0 -/
theorem assemble_subnormal_gen (c : Cfg) (hv : c.valid = true) (hg : Gen c) (sign : Bool) (sig t : Nat)
    (hhi : sig >>> t < 2 ^ c.fbits) :
    assemble c sign 0 sig t =
      (if rneShr sig t = 2 ^ c.fbits then 0 else rneShr sig t)
        + 2 ^ c.fbits * (if rneShr sig t = 2 ^ c.fbits then 1 else 0)
        + signBit c sign := by
  obtain ⟨_, _, h3, h4⟩ := valid_facts c hv
  have hR := shift_round_eq_rneShr sig t
  have hF := two_pow_pos c.fbits
  have hE := emax_pos c hv
  have hfr0 : (sig >>> t) % 2 ^ c.fbits = sig >>> t := Nat.mod_eq_of_lt hhi
  have hemax : c.emax < 2 ^ c.es := emax_lt c
  unfold assemble
  simp only []
  rw [hfr0]
  have key : ∀ (be fr : Nat), be ≤ c.emax → fr < 2 ^ c.fbits →
      ((((if sign = true then 1 else 0) <<< c.es) ||| be) <<< c.fbits ||| fr) % 2 ^ c.nbits
        = fr + 2 ^ c.fbits * be + signBit c sign := by
    intro be fr hbe' hfr
    have hbe2 : be < 2 ^ c.es := by omega
    have fc := fields_of_compose c hv sign be fr hbe2 hfr
    have e1 : ((((if sign = true then 1 else 0) <<< c.es) ||| be) <<< c.fbits ||| fr) = fr + 2 ^ c.fbits * be + signBit c sign := by
      rw [shl_or_eq_add _ _ _ hbe2, shl_or_eq_add _ _ _ hfr]
      unfold signBit
      rw [h4, Nat.pow_add]
      cases sign <;> simp <;> ring
    rw [e1, Nat.mod_eq_of_lt fc.1]
  have hfr1 : (if roundingDirection sig t = true then sig >>> t + 1 else sig >>> t) = rneShr sig t := by
    cases hrd : roundingDirection sig t <;> rw [hrd] at hR <;> simp at hR ⊢ <;> omega
  rw [hfr1]
  have hle : rneShr sig t ≤ 2 ^ c.fbits := by
    cases hrd : roundingDirection sig t <;> rw [hrd] at hR <;> simp at hR <;> omega
  by_cases hc : rneShr sig t = 2 ^ c.fbits
  · have h0 : ¬ (0 = c.emax) := by omega
    simp only [hc, if_true, h0, if_false]
    rw [Nat.zero_add, key 1 0 hE hF, (cfVal_compose_one c hv hg sign).2.1]
    simp
  · simp only [hc, if_false]
    rw [key 0 (rneShr sig t) (by omega) (by omega)]
    have fc := fields_of_compose c hv sign 0 (rneShr sig t) (two_pow_pos _) (by omega)
    rw [isNan_false_of_exp_lt c hv _ (by rw [fc.2.2.1]; omega)]
    simp

end UVerif.Cfloat

namespace UVerif.Cfloat

/-- everything at or above 2^(MAX_EXP+1) overflows -/
theorem overflows_of_ge_gen (c : Cfg) (hv : c.valid = true) (hg : Gen c) (X : ℚ) (hX : pow2 (c.maxExp + 1) ≤ X) :
    overflows c X = true := by
  rcases gen_cases c hv hg with h2 | ⟨h1, _, hsup, hb, he, hF4⟩
  · exact overflows_of_ge c hv h2 X hX
  · have hsupF : c.sup = true ∧ 2 ^ c.fbits ≥ 3 := ⟨hsup, by omega⟩
    rw [overflows_sup c hv hsupF X, decide_eq_true_iff]
    rw [maxExp_eq_gen c hv] at hX
    have hF : (0 : ℚ) < ((2 ^ c.fbits : Nat) : ℚ) := by exact_mod_cast two_pow_pos c.fbits
    have e2 : ((2 ^ (c.fbits + 1) - 3 : Nat) : ℚ) = 2 * ((2 ^ c.fbits : Nat) : ℚ) - 3 := by
      have : 3 ≤ 2 ^ (c.fbits + 1) := by rw [Nat.pow_succ]; omega
      rw [Nat.cast_sub this]; push_cast; rw [pow_succ]; ring
    have e3 : pow2 ((c.emax : Int) - c.bias + 1) = 2 * ((2 ^ c.fbits : Nat) : ℚ) * pow2 ((c.emax : Int) - c.bias - (c.fbits : Int)) := by
      rw [pow2_succ, pow2_sub ((c.emax : Int) - c.bias) (c.fbits), pow2_natCast]; field_simp
    rw [e3] at hX
    rw [e2]
    have hp := pow2_pos ((c.emax : Int) - c.bias - (c.fbits : Int))
    nlinarith

end UVerif.Cfloat
