/-
  UVerifProofs.Lemmas.CfloatIdentity — uniqueness of the rounding relation on representable values:
  a (normal) value of the configuration is its own nearest value, so a conversion that is proved to be the target's
  correct rounding returns exactly the source value whenever that value is a normal value of the target
  (`nearestNZ_of_representable_normal`, `cf2cf_identity_of_representable`, `cf2cf_widen_narrow`).
-/
import Mathlib.Tactic.Ring
import Mathlib.Tactic.Linarith
import Mathlib.Tactic.FieldSimp
import Mathlib.Tactic.Positivity
import Mathlib.Tactic.SplitIfs
import UVerifProofs.Lemmas.CfloatVal
import UVerifProofs.Lemmas.CfloatLog
import UVerifProofs.Lemmas.CfloatNearest
import UVerifProofs.Lemmas.CfloatOverflow
import UVerifProofs.Props.C15ConvCfloat

set_option linter.unusedSimpArgs false
set_option linter.unusedVariables false
set_option linter.unnecessarySeqFocus false

open UVerif UVerif.Cfloat

namespace UVerif.Cfloat

/-- `ulpAt` is a power of two, hence positive -/
theorem ulpAt_pos (c : Cfg) (X : ℚ) : 0 < ulpAt c X := by
  unfold ulpAt; exact pow2_pos _

/-- nothing at or below the largest finite value overflows -/
theorem overflows_false_of_le (c : Cfg) (X : ℚ) (h : X ≤ maxFinite c) : overflows c X = false := by
  have hu := ulpAt_pos c (maxFinite c)
  unfold overflows
  simp only []
  have h1 : ¬ (X > maxFinite c + ulpAt c (maxFinite c) / 2) := by
    intro hc; linarith
  have h2 : ¬ (X = maxFinite c + ulpAt c (maxFinite c) / 2) := by
    intro hc; linarith
  simp [h1, h2]

/-- the facts about a normal value (1 + f/2^fbits)·2^(e-bias), 1 ≤ e < emax, that the rounding relation looks at -/
theorem normal_value_facts (c : Cfg) (hv : c.valid = true) (e f : Nat) (he1 : 1 ≤ e) (he2 : e < c.emax)
    (hf : f < 2 ^ c.fbits) (X : ℚ)
    (hX : X = (1 + (f : ℚ) / ((2 ^ c.fbits : Nat) : ℚ)) * pow2 ((e : Int) - c.bias)) :
    0 < X ∧ ulpAt c X = pow2 ((e : Int) - c.bias - (c.fbits : Int)) ∧
    X / pow2 ((e : Int) - c.bias - (c.fbits : Int)) = ((2 ^ c.fbits + f : Nat) : ℚ) ∧
    ¬ (X < minNormal c) ∧ X ≤ maxFinite c := by
  have hFn : 0 < 2 ^ c.fbits := two_pow_pos _
  have hF : (0 : ℚ) < ((2 ^ c.fbits : Nat) : ℚ) := by exact_mod_cast hFn
  have hp := pow2_pos ((e : Int) - c.bias)
  have hf0 : (0 : ℚ) ≤ (f : ℚ) / ((2 ^ c.fbits : Nat) : ℚ) := by positivity
  have hf1 : (f : ℚ) / ((2 ^ c.fbits : Nat) : ℚ) < 1 := by
    rw [div_lt_one hF]; exact_mod_cast hf
  have hpos : 0 < X := by rw [hX]; positivity
  have hlo : pow2 ((e : Int) - c.bias) ≤ X := by rw [hX]; nlinarith
  have hhi : X < pow2 ((e : Int) - c.bias + 1) := by rw [hX, pow2_succ]; nlinarith
  have hfl : floorLog2 X = (e : Int) - c.bias := floorLog2_eq X _ hlo hhi
  have hu : ulpAt c X = pow2 ((e : Int) - c.bias - (c.fbits : Int)) := by
    unfold ulpAt; simp only [hfl]; rw [if_neg (by omega)]
  have hpu : pow2 ((e : Int) - c.bias - (c.fbits : Int)) = pow2 ((e : Int) - c.bias) / ((2 ^ c.fbits : Nat) : ℚ) := by
    rw [pow2_sub, pow2_natCast]
  have hq : X / pow2 ((e : Int) - c.bias - (c.fbits : Int)) = ((2 ^ c.fbits + f : Nat) : ℚ) := by
    rw [hpu, hX, Nat.cast_add]
    field_simp
  have hmin : ¬ (X < minNormal c) := by
    unfold minNormal
    have : pow2 (1 - c.bias) ≤ pow2 ((e : Int) - c.bias) := pow2_le_pow2.mpr (by omega)
    exact not_lt.mpr (le_trans this hlo)
  refine ⟨hpos, hu, hq, hmin, ?_⟩
  -- X ≤ maxFinite
  unfold maxFinite
  simp only []
  by_cases h1 : c.sup = true ∧ 2 ^ c.fbits ≥ 3
  · rw [if_pos h1]
    have hle : pow2 ((e : Int) - c.bias + 1) ≤ pow2 ((c.emax : Int) - c.bias) := pow2_le_pow2.mpr (by omega)
    have hpm := pow2_pos ((c.emax : Int) - c.bias)
    have h3 : (0 : ℚ) ≤ ((2 ^ c.fbits - 3 : Nat) : ℚ) / ((2 ^ c.fbits : Nat) : ℚ) := by positivity
    nlinarith
  · rw [if_neg h1, if_pos (show c.emax ≥ 2 by omega)]
    have hle : pow2 ((e : Int) - c.bias) ≤ pow2 ((c.emax : Int) - 1 - c.bias) := pow2_le_pow2.mpr (by omega)
    have hff : (f : ℚ) / ((2 ^ c.fbits : Nat) : ℚ) ≤ ((2 ^ c.fbits - 1 : Nat) : ℚ) / ((2 ^ c.fbits : Nat) : ℚ) := by
      apply div_le_div_of_nonneg_right _ (le_of_lt hF)
      exact_mod_cast (show f ≤ 2 ^ c.fbits - 1 by omega)
    rw [hX]
    apply mul_le_mul _ hle (le_of_lt hp)
    · have : (0 : ℚ) ≤ ((2 ^ c.fbits - 1 : Nat) : ℚ) / ((2 ^ c.fbits : Nat) : ℚ) := by positivity
      linarith
    · linarith

/-- an integer that is within 1/2 of 0, or exactly ±1/2 away, is 0 -/
theorem int_near_zero (z : Int)
    (h : (-(1:ℚ)/2 < (z : ℚ) ∧ (z : ℚ) < 1/2) ∨ (((z : ℚ) = 1/2 ∨ (z : ℚ) = -(1:ℚ)/2) ∧ True)) : z = 0 := by
  rcases h with ⟨h1, h2⟩ | ⟨h1 | h1, _⟩
  · have a1 : (-1 : ℚ) < ((2 * z : Int) : ℚ) := by push_cast; linarith
    have a2 : ((2 * z : Int) : ℚ) < 1 := by push_cast; linarith
    have b1 : (-1 : Int) < 2 * z := by exact_mod_cast a1
    have b2 : 2 * z < 1 := by exact_mod_cast a2
    omega
  · exfalso
    have a1 : ((2 * z : Int) : ℚ) = 1 := by push_cast; linarith
    have b1 : 2 * z = 1 := by exact_mod_cast a1
    omega
  · exfalso
    have a1 : ((2 * z : Int) : ℚ) = -1 := by push_cast; linarith
    have b1 : 2 * z = -1 := by exact_mod_cast a1
    omega

/-- **uniqueness**: if x is (exactly) a normal value of the configuration, every encoding that `nearestNZ` accepts
    for x denotes x itself -/
theorem nearestNZ_of_representable_normal (c : Cfg) (hv : c.valid = true) (x : ℚ) (r r0 : Nat) (s : Bool) (X : ℚ)
    (hx : x = if s then -X else X)
    (he1 : 1 ≤ c.expOf r0) (he2 : c.expOf r0 < c.emax)
    (hr0 : cfVal c r0 = .fin s X)
    (hnear : nearestNZ c x r = true) :
    cfVal c r = .fin s X := by
  -- shape of X
  have hfr : c.fracOf r0 < 2 ^ c.fbits := Nat.mod_lt _ (two_pow_pos _)
  have hXeq : X = (1 + (c.fracOf r0 : ℚ) / ((2 ^ c.fbits : Nat) : ℚ)) * pow2 ((c.expOf r0 : Int) - c.bias) := by
    rcases cfVal_cases c r0 with ⟨h, _, _⟩ | ⟨h, _, _, _⟩ | ⟨h, _, _, _⟩ | ⟨_, h, _⟩ | ⟨_, _, h⟩
    · omega
    · omega
    · omega
    · omega
    · rw [h] at hr0; injection hr0 with _ h2; exact h2.symm
  obtain ⟨hXpos, hu, hq, hmin, hmax⟩ := normal_value_facts c hv _ _ he1 he2 hfr X hXeq
  have hno := overflows_false_of_le c X hmax
  have hneg : decide (x < 0) = s := by
    cases s
    · simp only [Bool.false_eq_true, if_false] at hx; rw [hx]; simp [le_of_lt hXpos]
    · simp only [if_true] at hx; rw [hx]; simp [hXpos]
  have hX' : (if s = true then -x else x) = X := by
    cases s
    · simp only [Bool.false_eq_true, if_false] at hx ⊢; exact hx
    · simp only [if_true] at hx ⊢; rw [hx]; ring
  unfold nearestNZ at hnear
  simp only [hneg, hX'] at hnear
  cases hcv : cfVal c r with
  | nan t => rw [hcv] at hnear; simp at hnear
  | inf t => rw [hcv] at hnear; simp [hno] at hnear
  | fin t m =>
    rw [hcv] at hnear
    simp only [hno, hu, hmin, decide_false, Bool.and_false, Bool.false_eq_true, if_false, Bool.and_eq_true,
      Bool.or_eq_true, decide_eq_true_eq, beq_iff_eq] at hnear
    obtain ⟨hts, ⟨hden, _⟩, hd⟩ := hnear
    set u := pow2 ((c.expOf r0 : Int) - c.bias - (c.fbits : Int)) with hudef
    have hupos : 0 < u := pow2_pos _
    have hqn : ((m / u).num : ℚ) = m / u := Rat.coe_int_num_of_den_eq_one hden
    rw [hq] at hd
    have hdz : ((2 ^ c.fbits + c.fracOf r0 : Nat) : ℚ) - m / u =
        ((((2 ^ c.fbits + c.fracOf r0 : Nat) : Int) - (m / u).num : Int) : ℚ) := by
      rw [Int.cast_sub, hqn]; push_cast; ring
    rw [hdz] at hd
    have hz := int_near_zero _ (by
      rcases hd with h | ⟨h, _⟩
      · exact Or.inl h
      · exact Or.inr ⟨h, trivial⟩)
    have hmq : m / u = ((2 ^ c.fbits + c.fracOf r0 : Nat) : ℚ) := by
      rw [← hqn]
      have : (m / u).num = ((2 ^ c.fbits + c.fracOf r0 : Nat) : Int) := by omega
      rw [this]; push_cast; ring
    have hm : m = X := by
      have h1 : m = (m / u) * u := by field_simp
      have h2 : X = (X / u) * u := by field_simp
      rw [h1, h2, hmq, hq]
    rw [hts, hm]

end UVerif.Cfloat

namespace UVerif.Cfloat
open UVerif.Generated

/-- a finite non-zero source value: the reading of the three classification hypotheses of C15 -/
theorem cfVal_fin_nonzero (c : Cfg) (hv : c.valid = true) (a : Nat)
    (hnan : isNan c a = false) (hinf : isInf c a = false) (hz : isZero c a = false) :
    ∃ m, cfVal c a = .fin (c.signOf a) m ∧ m ≠ 0 := by
  rcases cfVal_view c hv a with ⟨_, h⟩ | ⟨_, _, h, _⟩ | ⟨m, e, _, _, h⟩
  · rw [hnan] at h; cases h
  · rw [hinf] at h; cases h
  · refine ⟨m, e, ?_⟩
    rw [hz] at h
    intro hm
    rw [decide_eq_true hm] at h; cases h

/-- the classification of an encoding that denotes a finite non-zero value -/
theorem class_of_fin_nonzero (c : Cfg) (hv : c.valid = true) (b : Nat) (s : Bool) (m : ℚ)
    (hb : cfVal c b = .fin s m) (hm : m ≠ 0) :
    isNan c b = false ∧ isInf c b = false ∧ isZero c b = false := by
  refine ⟨?_, ?_, ?_⟩
  · rw [← cfVal_isNan c hv, hb]; rfl
  · rw [Bool.eq_false_iff]; intro hc
    rw [(cfVal_isInf c hv b).mp hc] at hb; cases hb
  · rw [← cfVal_isZero c hv, hb, isZero_fin]; exact decide_eq_false hm

/-- **identity on representable values**: under the hypotheses of `C15_cfloat_to_cfloat`, if the source value is a
    normal value of the target (witness encoding r0) the converting constructor returns exactly that value -/
theorem cf2cf_identity_of_representable (c1 c2 : Cfg) (hv1 : c1.valid = true) (hv2 : c2.valid = true) (hne : c1 ≠ c2)
    (a : Nat) (hes : c1.es ≤ 11) (hfb1 : c1.fbits ≤ 52)
    (hnan : isNan c1 a = false) (hinf : isInf c1 a = false) (hz : isZero c1 a = false)
    (hhold : ieeeVal 11 52 (ieeeEncode 11 52 (cfVal c1 a)) = cfVal c1 a)
    (hfb : c2.fbits < 52)
    (hexp0 : (ieeeEncode 11 52 (cfVal c1 a) >>> 52) % 2 ^ 11 ≠ 0)
    (hexp1 : (ieeeEncode 11 52 (cfVal c1 a) >>> 52) % 2 ^ 11 ≠ 2047)
    (hlo : c2.minExpNormal ≤ (((ieeeEncode 11 52 (cfVal c1 a) >>> 52) % 2 ^ 11 : Nat) : Int) - 1023)
    (hhi : (((ieeeEncode 11 52 (cfVal c1 a) >>> 52) % 2 ^ 11 : Nat) : Int) - 1023 + c2.bias + 1 < c2.emax)
    (r0 : Nat) (he1 : 1 ≤ c2.expOf r0) (he2 : c2.expOf r0 < c2.emax) (hr0 : cfVal c2 r0 = cfVal c1 a) :
    cfVal c2 (cf2cf c1 c2 a) = cfVal c1 a := by
  have h := C15_cfloat_to_cfloat c1 c2 hv1 hv2 hne a hes hfb1 hnan hinf hz hhold hfb hexp0 hexp1 hlo hhi
  obtain ⟨m, hm, hm0⟩ := cfVal_fin_nonzero c1 hv1 a hnan hinf hz
  rw [hm] at h hr0 ⊢
  unfold C03_cfloat_expect satisfies at h
  simp only [hm0, if_false, Bool.and_eq_true, decide_eq_true_eq] at h
  exact nearestNZ_of_representable_normal c2 hv2 _ _ r0 (c1.signOf a) m rfl he1 he2 hr0 h.2

/-- **widen, then narrow**: converting a normal value of c1 to a configuration c2 that holds it as a normal value, and
    back, returns the original value.  The hypotheses of `C15_cfloat_to_cfloat` for the way back (source c2, encoding
    `cf2cf c1 c2 a`) are stated on `cfVal c1 a`, which is the value of that encoding. -/
theorem cf2cf_widen_narrow (c1 c2 : Cfg) (hv1 : c1.valid = true) (hv2 : c2.valid = true) (hne : c1 ≠ c2)
    (a : Nat) (hes : c1.es ≤ 11) (hfb1 : c1.fbits ≤ 52)
    (hnan : isNan c1 a = false) (hinf : isInf c1 a = false) (hz : isZero c1 a = false)
    (hhold : ieeeVal 11 52 (ieeeEncode 11 52 (cfVal c1 a)) = cfVal c1 a)
    (hfb : c2.fbits < 52)
    (hexp0 : (ieeeEncode 11 52 (cfVal c1 a) >>> 52) % 2 ^ 11 ≠ 0)
    (hexp1 : (ieeeEncode 11 52 (cfVal c1 a) >>> 52) % 2 ^ 11 ≠ 2047)
    (hlo : c2.minExpNormal ≤ (((ieeeEncode 11 52 (cfVal c1 a) >>> 52) % 2 ^ 11 : Nat) : Int) - 1023)
    (hhi : (((ieeeEncode 11 52 (cfVal c1 a) >>> 52) % 2 ^ 11 : Nat) : Int) - 1023 + c2.bias + 1 < c2.emax)
    (r0 : Nat) (he1 : 1 ≤ c2.expOf r0) (he2 : c2.expOf r0 < c2.emax) (hr0 : cfVal c2 r0 = cfVal c1 a)
    -- the way back
    (hes' : c2.es ≤ 11) (hfb' : c1.fbits < 52)
    (hlo' : c1.minExpNormal ≤ (((ieeeEncode 11 52 (cfVal c1 a) >>> 52) % 2 ^ 11 : Nat) : Int) - 1023)
    (hhi' : (((ieeeEncode 11 52 (cfVal c1 a) >>> 52) % 2 ^ 11 : Nat) : Int) - 1023 + c1.bias + 1 < c1.emax)
    (ha1 : 1 ≤ c1.expOf a) (ha2 : c1.expOf a < c1.emax) :
    cfVal c1 (cf2cf c2 c1 (cf2cf c1 c2 a)) = cfVal c1 a := by
  have hmid := cf2cf_identity_of_representable c1 c2 hv1 hv2 hne a hes hfb1 hnan hinf hz hhold hfb hexp0 hexp1 hlo hhi
    r0 he1 he2 hr0
  obtain ⟨m, hm, hm0⟩ := cfVal_fin_nonzero c1 hv1 a hnan hinf hz
  obtain ⟨n1, n2, n3⟩ := class_of_fin_nonzero c2 hv2 (cf2cf c1 c2 a) _ m (hmid.trans hm) hm0
  have hback := cf2cf_identity_of_representable c2 c1 hv2 hv1 (Ne.symm hne) (cf2cf c1 c2 a) hes' (by omega) n1 n2 n3
    (by rw [hmid]; exact hhold) hfb' (by rw [hmid]; exact hexp0) (by rw [hmid]; exact hexp1)
    (by rw [hmid]; exact hlo') (by rw [hmid]; exact hhi') a ha1 ha2 hmid.symm
  rw [hback, hmid]

/-! ### non-vacuity -/

-- cfloat<8,3,sub> 0x35 (= 3.25) into cfloat<16,5,sub>: every hypothesis of `cf2cf_identity_of_representable` holds with
-- the witness r0 = 0x3d40, which is also the result; and back again (the hypotheses of `cf2cf_widen_narrow`)
example : let c1 : Cfg := { nbits := 8, es := 3, bt := 8, sub := true }
    let c2 : Cfg := { nbits := 16, es := 5, bt := 8, sub := true }
    let a := 0x35
    let r0 := 0x3d40
    c1.valid = true ∧ c2.valid = true ∧ c1 ≠ c2 ∧ c1.es ≤ 11 ∧ c1.fbits ≤ 52 ∧
    isNan c1 a = false ∧ isInf c1 a = false ∧ isZero c1 a = false ∧
    ieeeVal 11 52 (ieeeEncode 11 52 (cfVal c1 a)) = cfVal c1 a ∧ c2.fbits < 52 ∧
    (ieeeEncode 11 52 (cfVal c1 a) >>> 52) % 2 ^ 11 ≠ 0 ∧ (ieeeEncode 11 52 (cfVal c1 a) >>> 52) % 2 ^ 11 ≠ 2047 ∧
    c2.minExpNormal ≤ (((ieeeEncode 11 52 (cfVal c1 a) >>> 52) % 2 ^ 11 : Nat) : Int) - 1023 ∧
    (((ieeeEncode 11 52 (cfVal c1 a) >>> 52) % 2 ^ 11 : Nat) : Int) - 1023 + c2.bias + 1 < c2.emax ∧
    1 ≤ c2.expOf r0 ∧ c2.expOf r0 < c2.emax ∧ cfVal c2 r0 = cfVal c1 a ∧
    cf2cf c1 c2 a = r0 ∧
    -- the way back
    c2.es ≤ 11 ∧ c1.fbits < 52 ∧
    c1.minExpNormal ≤ (((ieeeEncode 11 52 (cfVal c1 a) >>> 52) % 2 ^ 11 : Nat) : Int) - 1023 ∧
    (((ieeeEncode 11 52 (cfVal c1 a) >>> 52) % 2 ^ 11 : Nat) : Int) - 1023 + c1.bias + 1 < c1.emax ∧
    1 ≤ c1.expOf a ∧ c1.expOf a < c1.emax ∧
    cf2cf c2 c1 (cf2cf c1 c2 a) = a := by
  decide +kernel

end UVerif.Cfloat
