import Mathlib.Tactic.Ring
import Mathlib.Tactic.Linarith
import Mathlib.Tactic.FieldSimp
import Mathlib.Algebra.Order.Field.Power
import Mathlib.Data.Rat.Floor
import UVerifProofs.Lemmas.CfloatVal
open UVerif UVerif.Cfloat

namespace UVerif.Cfloat

theorem pow2_lt_pow2 {a b : Int} : pow2 a < pow2 b ↔ a < b := by
  rw [pow2_eq_zpow, pow2_eq_zpow]; exact zpow_lt_zpow_iff_right₀ (by norm_num)

theorem pow2_le_pow2 {a b : Int} : pow2 a ≤ pow2 b ↔ a ≤ b := by
  rw [pow2_eq_zpow, pow2_eq_zpow]; exact zpow_le_zpow_iff_right₀ (by norm_num)

theorem pow2_natCast (n : Nat) : pow2 (n : Int) = ((2 ^ n : Nat) : ℚ) := by
  rw [pow2_eq_zpow, zpow_natCast]; push_cast; rfl

theorem pow2_sub (a b : Int) : pow2 (a - b) = pow2 a / pow2 b := by
  rw [pow2_eq_zpow, pow2_eq_zpow, pow2_eq_zpow, zpow_sub₀ (by norm_num)]

theorem pow2_succ (a : Int) : pow2 (a + 1) = 2 * pow2 a := by
  rw [pow2_add]; rw [show pow2 1 = 2 by rw [pow2_eq_zpow]; norm_num]; ring

/-- `floorLog2` brackets its argument: 2^⌊log2 X⌋ ≤ X < 2^(⌊log2 X⌋+1) -/
theorem floorLog2_spec (X : ℚ) (hX : 0 < X) :
    pow2 (floorLog2 X) ≤ X ∧ X < pow2 (floorLog2 X + 1) := by
  have hnum : 0 < X.num := Rat.num_pos.mpr hX
  have hn0 : X.num.toNat ≠ 0 := by omega
  have hd0 : X.den ≠ 0 := X.den_nz
  have hXeq : X = (X.num.toNat : ℚ) / (X.den : ℚ) := by
    have h1 : ((X.num.toNat : Int) : ℚ) = (X.num : ℚ) := by
      rw [Int.toNat_of_nonneg (le_of_lt hnum)]
    have h2 : ((X.num.toNat : ℕ) : ℚ) = ((X.num.toNat : Int) : ℚ) := by push_cast; rfl
    rw [h2, h1]; exact (Rat.num_div_den X).symm
  set n := X.num.toNat with hn
  set d := X.den with hd
  have hnl : 2 ^ Nat.log2 n ≤ n := Nat.log2_self_le hn0
  have hnu : n < 2 ^ (Nat.log2 n + 1) := Nat.lt_log2_self
  have hdl : 2 ^ Nat.log2 d ≤ d := Nat.log2_self_le hd0
  have hdu : d < 2 ^ (Nat.log2 d + 1) := Nat.lt_log2_self
  have hdpos : (0 : ℚ) < (d : ℚ) := by exact_mod_cast Nat.pos_of_ne_zero hd0
  -- X < 2^(ln+1-ld) and 2^(ln-ld-1) < X
  have hup : X < pow2 (((Nat.log2 n : Int) - (Nat.log2 d : Int)) + 1) := by
    rw [show ((Nat.log2 n : Int) - (Nat.log2 d : Int)) + 1 = ((Nat.log2 n + 1 : Nat) : Int) - ((Nat.log2 d : Nat) : Int) by push_cast; ring]
    rw [pow2_sub, pow2_natCast, pow2_natCast, hXeq]
    have h1 : (n : ℚ) < ((2 ^ (Nat.log2 n + 1) : Nat) : ℚ) := by exact_mod_cast hnu
    have h2 : ((2 ^ Nat.log2 d : Nat) : ℚ) ≤ (d : ℚ) := by exact_mod_cast hdl
    have h3 : (0 : ℚ) < ((2 ^ Nat.log2 d : Nat) : ℚ) := by positivity
    rw [div_lt_div_iff₀ hdpos h3]
    calc (n : ℚ) * ((2 ^ Nat.log2 d : Nat) : ℚ) ≤ (n : ℚ) * (d : ℚ) := by
          apply mul_le_mul_of_nonneg_left h2; positivity
      _ < ((2 ^ (Nat.log2 n + 1) : Nat) : ℚ) * (d : ℚ) := by
          apply mul_lt_mul_of_pos_right h1 hdpos
  have hlo : pow2 (((Nat.log2 n : Int) - (Nat.log2 d : Int)) - 1) ≤ X := by
    rw [show ((Nat.log2 n : Int) - (Nat.log2 d : Int)) - 1 = ((Nat.log2 n : Nat) : Int) - ((Nat.log2 d + 1 : Nat) : Int) by push_cast; ring]
    rw [pow2_sub, pow2_natCast, pow2_natCast, hXeq]
    have h1 : ((2 ^ Nat.log2 n : Nat) : ℚ) ≤ (n : ℚ) := by exact_mod_cast hnl
    have h2 : (d : ℚ) ≤ ((2 ^ (Nat.log2 d + 1) : Nat) : ℚ) := by exact_mod_cast le_of_lt hdu
    have h3 : (0 : ℚ) < ((2 ^ (Nat.log2 d + 1) : Nat) : ℚ) := by positivity
    rw [div_le_div_iff₀ h3 hdpos]
    calc ((2 ^ Nat.log2 n : Nat) : ℚ) * (d : ℚ) ≤ (n : ℚ) * (d : ℚ) := by
          apply mul_le_mul_of_nonneg_right h1 (le_of_lt hdpos)
      _ ≤ (n : ℚ) * ((2 ^ (Nat.log2 d + 1) : Nat) : ℚ) := by
          apply mul_le_mul_of_nonneg_left h2; positivity
  unfold floorLog2
  rw [if_neg (not_le.mpr hX)]
  simp only []
  rw [← hn, ← hd]
  by_cases h1 : pow2 ((Nat.log2 n : Int) - (Nat.log2 d : Int)) ≤ X
  · rw [if_pos h1]
    have h2 : ¬ (pow2 ((Nat.log2 n : Int) - (Nat.log2 d : Int) + 1) ≤ X) := not_le.mpr hup
    rw [if_neg h2]
    exact ⟨h1, hup⟩
  · rw [if_neg h1]
    refine ⟨hlo, ?_⟩
    rw [show (Nat.log2 n : Int) - (Nat.log2 d : Int) - 1 + 1 = (Nat.log2 n : Int) - (Nat.log2 d : Int) by ring]
    exact not_le.mp h1

/-- uniqueness: the binade index of X -/
theorem floorLog2_eq (X : ℚ) (E : Int) (h1 : pow2 E ≤ X) (h2 : X < pow2 (E + 1)) : floorLog2 X = E := by
  have hX : 0 < X := lt_of_lt_of_le (pow2_pos E) h1
  obtain ⟨g1, g2⟩ := floorLog2_spec X hX
  have a1 : pow2 E < pow2 (floorLog2 X + 1) := lt_of_le_of_lt h1 g2
  have a2 : pow2 (floorLog2 X) < pow2 (E + 1) := lt_of_le_of_lt g1 h2
  rw [pow2_lt_pow2] at a1 a2
  omega

end UVerif.Cfloat

namespace UVerif.Cfloat

/-- `rneShr sig t` is a nearest integer to sig / 2^t, ties to even -/
theorem rneShr_nearest (sig t : Nat) :
    let d : ℚ := (sig : ℚ) / ((2 ^ t : Nat) : ℚ) - (rneShr sig t : ℚ)
    (-(1:ℚ)/2 < d ∧ d < 1/2) ∨ ((d = 1/2 ∨ d = -(1:ℚ)/2) ∧ rneShr sig t % 2 = 0) := by
  intro d
  have hH : 0 < 2 ^ t := two_pow_pos t
  have hHq : (0 : ℚ) < ((2 ^ t : Nat) : ℚ) := by exact_mod_cast hH
  have hdm := Nat.div_add_mod sig (2 ^ t)
  have hr : sig % 2 ^ t < 2 ^ t := Nat.mod_lt _ hH
  have hq : sig >>> t = sig / 2 ^ t := Nat.shiftRight_eq_div_pow sig t
  have hv : (sig : ℚ) / ((2 ^ t : Nat) : ℚ) = ((sig / 2 ^ t : Nat) : ℚ) + ((sig % 2 ^ t : Nat) : ℚ) / ((2 ^ t : Nat) : ℚ) := by
    have : (sig : ℚ) = ((2 ^ t : Nat) : ℚ) * ((sig / 2 ^ t : Nat) : ℚ) + ((sig % 2 ^ t : Nat) : ℚ) := by
      exact_mod_cast hdm.symm
    rw [this]; field_simp
  have hd : d = ((sig / 2 ^ t : Nat) : ℚ) + ((sig % 2 ^ t : Nat) : ℚ) / ((2 ^ t : Nat) : ℚ) - (rneShr sig t : ℚ) := by
    show (sig : ℚ) / ((2 ^ t : Nat) : ℚ) - (rneShr sig t : ℚ) = _
    rw [hv]
  unfold rneShr at hd ⊢
  simp only [hq] at hd ⊢
  generalize sig / 2 ^ t = q at *
  generalize sig % 2 ^ t = r at *
  generalize 2 ^ t = h at *
  by_cases h1 : 2 * r < h
  · simp only [h1, if_true] at hd ⊢
    left
    have : (2 : ℚ) * (r : ℚ) < (h : ℚ) := by exact_mod_cast h1
    have hr0 : (0 : ℚ) ≤ (r : ℚ) / (h : ℚ) := by positivity
    have hr1 : (r : ℚ) / (h : ℚ) < 1 / 2 := by rw [div_lt_div_iff₀ hHq (by norm_num)]; linarith
    rw [hd]; constructor <;> linarith
  · simp only [h1, if_false] at hd ⊢
    by_cases h2 : 2 * r > h
    · simp only [h2, if_true] at hd ⊢
      left
      have h2' : (h : ℚ) < (2 : ℚ) * (r : ℚ) := by exact_mod_cast h2
      have h3' : (r : ℚ) < (h : ℚ) := by exact_mod_cast hr
      have hr1 : 1 / 2 < (r : ℚ) / (h : ℚ) := by rw [div_lt_div_iff₀ (by norm_num) hHq]; linarith
      have hr2 : (r : ℚ) / (h : ℚ) < 1 := by rw [div_lt_one hHq]; exact h3'
      rw [hd]; push_cast; constructor <;> linarith
    · simp only [h2, if_false] at hd ⊢
      have h3 : 2 * r = h := by omega
      have h3' : (2 : ℚ) * (r : ℚ) = (h : ℚ) := by exact_mod_cast h3
      have hr1 : (r : ℚ) / (h : ℚ) = 1 / 2 := by rw [div_eq_div_iff (ne_of_gt hHq) (by norm_num)]; linarith
      right
      by_cases h4 : q % 2 = 0
      · simp only [h4, if_true] at hd ⊢
        exact ⟨Or.inl (by rw [hd, hr1]; ring), trivial⟩
      · simp only [h4, if_false] at hd ⊢
        refine ⟨Or.inr (by rw [hd, hr1]; push_cast; ring), by omega⟩

end UVerif.Cfloat
