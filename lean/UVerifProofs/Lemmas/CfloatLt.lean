import Mathlib.Tactic.Ring
import Mathlib.Tactic.Linarith
import Mathlib.Tactic.FieldSimp
import Mathlib.Algebra.Order.Field.Power
import Mathlib.Data.Rat.Floor
import UVerifProofs.Lemmas.CfloatUnderflow
import UVerifProofs.Lemmas.CfloatMul
import UVerifProofs.Lemmas.CfloatArith
open UVerif UVerif.Cfloat

namespace UVerif.Cfloat

/-- what the rounding relation says about the denoted value of an accepted encoding (configurations with
    subnormals): it is ±inf or finite with the sign of x, and it is zero only if |x| is at most half a unit -/
theorem nearestNZ_shape (c : Cfg) (hsub : c.sub = true) (hM : 0 < maxFinite c) (x : ℚ) (r : Nat) (h : nearestNZ c x r = true) :
    cfVal c r = .inf (decide (x < 0)) ∨
    ∃ m, cfVal c r = .fin (decide (x < 0)) m ∧
      (m = 0 → (if x < 0 then -x else x) / ulpAt c (if x < 0 then -x else x) ≤ 1 / 2) := by
  unfold nearestNZ at h
  simp only [] at h
  cases hv : cfVal c r with
  | nan s => rw [hv] at h; simp at h
  | inf s =>
    rw [hv] at h
    simp only [Bool.and_eq_true, beq_iff_eq] at h
    left; rw [h.1.1]
  | fin s m =>
    rw [hv] at h
    simp only [hsub, Bool.not_true, Bool.false_and, Bool.false_eq_true, if_false, Bool.and_eq_true, beq_iff_eq] at h
    obtain ⟨hs, hrest⟩ := h
    right
    refine ⟨m, by rw [hs], ?_⟩
    intro hm0
    by_cases hov : overflows c (if decide (x < 0) = true then -x else x) = true
    · rw [if_pos hov] at hrest
      simp only [Bool.and_eq_true, beq_iff_eq] at hrest
      rw [hm0] at hrest; linarith [hrest.2]
    · rw [if_neg hov] at hrest
      simp only [Bool.and_eq_true, Bool.or_eq_true, decide_eq_true_eq, beq_iff_eq, decide_eq_decide] at hrest
      obtain ⟨⟨_, _⟩, hk⟩ := hrest
      rw [hm0] at hk
      simp only [zero_div, sub_zero] at hk
      rcases hk with ⟨_, h2⟩ | ⟨h3 | h3, _⟩
      · linarith
      · rw [h3]
      · rw [h3]; norm_num

/-- anything of at least one smallest-subnormal unit is more than half a unit of its own binade -/
theorem ulp_ratio_ge_one (c : Cfg) (X : ℚ) (hX : pow2 (1 - c.bias - (c.fbits : Int)) ≤ X) : 1 ≤ X / ulpAt c X := by
  have hXpos : 0 < X := lt_of_lt_of_le (pow2_pos _) hX
  obtain ⟨g1, _⟩ := floorLog2_spec X hXpos
  unfold ulpAt
  simp only []
  split_ifs with h
  · rw [le_div_iff₀ (pow2_pos _)]; linarith
  · rw [le_div_iff₀ (pow2_pos _), one_mul]
    have : pow2 (floorLog2 X - (c.fbits : Int)) ≤ pow2 (floorLog2 X) := pow2_le_pow2.mpr (by omega)
    linarith

/-- values of finite operands with non-zero exponent field are integer multiples of the smallest subnormal unit -/
theorem normal_value_multiple (c : Cfg) (e f : Nat) (he : 1 ≤ e) :
    (1 + (f : ℚ) / ((2 ^ c.fbits : Nat) : ℚ)) * pow2 ((e : Int) - c.bias)
      = (((2 ^ c.fbits + f) * 2 ^ (e - 1) : Nat) : ℚ) * pow2 (1 - c.bias - (c.fbits : Int)) := by
  have hF : (0 : ℚ) < ((2 ^ c.fbits : Nat) : ℚ) := by exact_mod_cast two_pow_pos c.fbits
  have h1 : pow2 ((e : Int) - c.bias) = ((2 ^ (e - 1) : Nat) : ℚ) * pow2 (1 - c.bias) := by
    rw [← pow2_natCast, ← pow2_add]; congr 1; push_cast; omega
  have h2 : pow2 (1 - c.bias - (c.fbits : Int)) = pow2 (1 - c.bias) / ((2 ^ c.fbits : Nat) : ℚ) := by
    rw [pow2_sub (1 - c.bias), pow2_natCast]
  rw [h1, h2]; push_cast; field_simp

/-- IEEE order on denoted values (the spec of `<`) -/
def specLt (x y : Val) : Bool :=
  match x, y with
  | .nan _, _ => false
  | _, .nan _ => false
  | .inf s, .inf t => s && !t
  | .inf s, .fin _ _ => s
  | .fin _ _, .inf t => !t
  | .fin s m, .fin t k => decide ((if s then -m else m) < (if t then -k else k))

/-- **the subtraction-based `<` of configurations with subnormals** agrees with the order of the denoted values for
    all finite operands with non-zero exponent fields whose difference is covered by the subtraction theorem
    (zero, or normal range below the top binades): the rounded difference is zero iff the values are equal and
    otherwise carries the sign of the exact difference. -/
theorem lt_sub_normal (c : Cfg) (hv : c.valid = true) (hsub : c.sub = true) (hes2 : 2 ≤ c.es) (a b : Nat)
    (hnarrow : c.fbits + 6 < 65)
    (hna : normalOperand c a = true) (hnb : normalOperand c b = true)
    (hr : addInRangeAll c a (negate c b) = true) :
    lt c a b = specLt (cfVal c a) (cfVal c b) := by
  obtain ⟨na, ia, za, ea, va⟩ := normalOperand_facts c hv a hna
  obtain ⟨nb, ib, zb, eb, vb⟩ := normalOperand_facts c hv b hnb
  have hsat := sub_partial c hv a b hnarrow hna hnb hr
  have hem2 : 2 ≤ c.emax := by
    unfold Cfg.emax
    have : 2 ^ 2 ≤ 2 ^ c.es := Nat.pow_le_pow_right (by omega) hes2
    omega
  have hMpos : 0 < maxFinite c := lt_of_lt_of_le (pow2_pos _) (maxFinite_ge c hem2)
  -- the model
  have hlt : lt c a b = (!isZero c (sub c a b) && c.signOf (sub c a b)) := by
    unfold lt
    simp only [na, nb, ia, hsub, Bool.or_self, Bool.false_eq_true, if_false, Bool.false_and, if_true]
  rw [hlt]
  -- values as multiples of the smallest subnormal unit
  set U : ℚ := pow2 (1 - c.bias - (c.fbits : Int)) with hU
  have hUpos : 0 < U := pow2_pos _
  have hxa := normal_value_multiple c (c.expOf a) (c.fracOf a) (by omega)
  have hxb := normal_value_multiple c (c.expOf b) (c.fracOf b) (by omega)
  rw [va, vb] at hsat ⊢
  rw [hxa, hxb] at hsat ⊢
  set ka : Nat := (2 ^ c.fbits + c.fracOf a) * 2 ^ (c.expOf a - 1) with hka
  set kb : Nat := (2 ^ c.fbits + c.fracOf b) * 2 ^ (c.expOf b - 1) with hkb
  -- signed multiples
  set za' : ℤ := if c.signOf a = true then -(ka : ℤ) else (ka : ℤ) with hza
  set zb' : ℤ := if c.signOf b = true then -(kb : ℤ) else (kb : ℤ) with hzb
  have hva : (if c.signOf a = true then -((ka : ℚ) * U) else (ka : ℚ) * U) = (za' : ℚ) * U := by
    rw [hza]; cases c.signOf a <;> simp
  have hvb : (if c.signOf b = true then -((kb : ℚ) * U) else (kb : ℚ) * U) = (zb' : ℚ) * U := by
    rw [hzb]; cases c.signOf b <;> simp
  have hspec : specLt (Val.fin (c.signOf a) ((ka : ℚ) * U)) (Val.fin (c.signOf b) ((kb : ℚ) * U)) = decide (za' < zb') := by
    unfold specLt
    simp only [hva, hvb]
    congr 1
    rw [eq_iff_iff]
    constructor
    · intro h
      have : (za' : ℚ) < (zb' : ℚ) := lt_of_mul_lt_mul_right h (le_of_lt hUpos)
      exact_mod_cast this
    · intro h
      have : (za' : ℚ) < (zb' : ℚ) := by exact_mod_cast h
      exact mul_lt_mul_of_pos_right this hUpos
  rw [hspec]
  have hexp : expectOp "sub" (Val.fin (c.signOf a) ((ka : ℚ) * U)) (Val.fin (c.signOf b) ((kb : ℚ) * U))
      = (if za' = zb' then .zero none else .real (((za' - zb' : ℤ) : ℚ) * U)) := by
    simp only [expectOp, hva, hvb]
    have : (za' : ℚ) * U - (zb' : ℚ) * U = ((za' - zb' : ℤ) : ℚ) * U := by push_cast; ring
    rw [this]
    by_cases he : za' = zb'
    · simp [he]
    · have hne0 : ((za' - zb' : ℤ) : ℚ) * U ≠ 0 := by
        apply mul_ne_zero _ (ne_of_gt hUpos)
        exact_mod_cast sub_ne_zero.mpr he
      rw [if_neg hne0, if_neg he]
  rw [hexp] at hsat
  by_cases he : za' = zb'
  · -- equal values: the difference is a zero
    rw [if_pos he] at hsat
    unfold satisfies at hsat
    simp only [Bool.and_eq_true, decide_eq_true_eq] at hsat
    have hz : isZero c (sub c a b) = true := by rw [← cfVal_isZero c hv]; exact hsat.2
    simp [hz, he]
  · rw [if_neg he] at hsat
    unfold satisfies at hsat
    simp only [Bool.and_eq_true, decide_eq_true_eq] at hsat
    have hsh := nearestNZ_shape c hsub hMpos _ _ hsat.2
    have hdz : (za' - zb' : ℤ) ≠ 0 := sub_ne_zero.mpr he
    have hneg : decide ((((za' - zb' : ℤ) : ℚ)) * U < 0) = decide (za' < zb') := by
      congr 1
      rw [eq_iff_iff, mul_neg_iff]
      constructor
      · rintro (⟨_, h2⟩ | ⟨h1, _⟩)
        · linarith
        · have : (za' - zb' : ℤ) < 0 := by exact_mod_cast h1
          omega
      · intro h
        right
        refine ⟨?_, hUpos⟩
        have : (za' - zb' : ℤ) < 0 := by omega
        exact_mod_cast this
    rcases hsh with hinf | ⟨m, hm, hm0⟩
    · -- overflow to infinity: not a zero, sign of the difference
      rcases cfVal_view c hv (sub c a b) with ⟨e1, _⟩ | ⟨e1, _, _, z1⟩ | ⟨m', e1, _, _, _⟩
      · rw [e1] at hinf; cases hinf
      · rw [e1] at hinf
        injection hinf with hs
        rw [z1, hs, hneg]; simp
      · rw [e1] at hinf; cases hinf
    · rcases cfVal_view c hv (sub c a b) with ⟨e1, _⟩ | ⟨e1, _, _, _⟩ | ⟨m', e1, _, _, z1⟩
      · rw [e1] at hm; cases hm
      · rw [e1] at hm; cases hm
      · rw [e1] at hm
        injection hm with hs hmm
        have hmne : m' ≠ 0 := by
          intro h0
          have := hm0 (by rw [← hmm]; exact h0)
          -- |difference| is at least one unit
          have habs : U ≤ (if ((za' - zb' : ℤ) : ℚ) * U < 0 then -(((za' - zb' : ℤ) : ℚ) * U) else ((za' - zb' : ℤ) : ℚ) * U) := by
            split_ifs with hlt0
            · have : ((za' - zb' : ℤ) : ℚ) ≤ -1 := by
                have h1 : ((za' - zb' : ℤ) : ℚ) < 0 := by
                  rcases mul_neg_iff.mp hlt0 with ⟨_, h2⟩ | ⟨h1, _⟩
                  · linarith
                  · exact h1
                have : (za' - zb' : ℤ) ≤ -1 := by
                  have : (za' - zb' : ℤ) < 0 := by exact_mod_cast h1
                  omega
                exact_mod_cast this
              nlinarith
            · have hge : 0 ≤ ((za' - zb' : ℤ) : ℚ) * U := not_lt.mp hlt0
              have h1 : (0 : ℚ) ≤ ((za' - zb' : ℤ) : ℚ) := by
                by_contra hc
                have : ((za' - zb' : ℤ) : ℚ) * U < 0 := mul_neg_of_neg_of_pos (not_le.mp hc) hUpos
                linarith
              have : (1 : ℤ) ≤ (za' - zb' : ℤ) := by
                have : (0 : ℤ) ≤ (za' - zb' : ℤ) := by exact_mod_cast h1
                omega
              have : (1 : ℚ) ≤ ((za' - zb' : ℤ) : ℚ) := by exact_mod_cast this
              nlinarith
          have := ulp_ratio_ge_one c _ habs
          linarith
        rw [z1, hs, hneg]
        simp [hmne]

end UVerif.Cfloat
