import Mathlib.Tactic.Ring
import Mathlib.Tactic.Linarith
import Mathlib.Tactic.FieldSimp
import Mathlib.Algebra.Order.Field.Power
import Mathlib.Data.Rat.Floor
import UVerifProofs.Lemmas.CfloatSide
import UVerifProofs.Lemmas.CfloatUnderflow
import UVerifProofs.Lemmas.CfloatGen
open UVerif UVerif.Cfloat

namespace UVerif.Cfloat

/-- R is a nearest integer to z, ties only when R is even -/
def NearEven (z : ℚ) (R : Nat) : Prop :=
  (-(1:ℚ)/2 < z - (R : ℚ) ∧ z - (R : ℚ) < 1/2) ∨ ((z - (R : ℚ) = 1/2 ∨ z - (R : ℚ) = -(1:ℚ)/2) ∧ R % 2 = 0)

/-- the exact positive value X "rounds like" the significant sig of a triple (scale, radix): X lies in the binade
    of the triple, every rounding of sig at or above the target lsb is a rounding of X, and when X is a multiple
    of such an lsb, sig is exactly that multiple (so truncation does no harm either) -/
def RoundsLike (fb radix : Nat) (scale : Int) (sig : Nat) (X : ℚ) : Prop :=
  pow2 (scale + sigScale radix sig) ≤ X ∧ X < pow2 (scale + sigScale radix sig + 1) ∧
  (∀ adj R : Nat, NearEven ((sig : ℚ) / ((2 ^ (sigScale radix sig + radix - fb + adj) : Nat) : ℚ)) R →
    NearEven (X / pow2 (scale + sigScale radix sig - (fb : Int) + (adj : Int))) R) ∧
  (∀ adj k : Nat, X = (k : ℚ) * pow2 (scale + sigScale radix sig - (fb : Int) + (adj : Int)) →
    sig = k * 2 ^ (sigScale radix sig + radix - fb + adj))

/-- a same-side image at granularity g below the target lsb gives `RoundsLike` -/
theorem roundsLike_of_sameSide (fb radix : Nat) (scale : Int) (sig : Nat) (y : ℚ) (g : Nat)
    (hsig : 2 ^ radix ≤ sig) (hss : SameSide sig y g) (hg : g + 1 + fb ≤ radix) :
    RoundsLike fb radix scale sig (y * pow2 (scale - (radix : Int))) := by
  obtain ⟨m1, m2⟩ := sigScale_spec radix sig hsig
  unfold RoundsLike
  generalize sigScale radix sig = ss at *
  have hpr := pow2_pos (scale - (radix : Int))
  obtain ⟨b1, _⟩ := sameSide_bounds sig y g (ss + radix) hss (by omega)
  obtain ⟨_, b2⟩ := sameSide_bounds sig y g (ss + radix + 1) hss (by omega)
  refine ⟨?_, ?_, ?_, ?_⟩
  · have : pow2 (scale + (ss : Int)) = ((2 ^ (ss + radix) : Nat) : ℚ) * pow2 (scale - (radix : Int)) := by
      rw [← pow2_natCast, ← pow2_add]; congr 1; push_cast; omega
    rw [this]; exact mul_le_mul_of_nonneg_right (b1.mp m1) (le_of_lt hpr)
  · have : pow2 (scale + (ss : Int) + 1) = ((2 ^ (ss + radix + 1) : Nat) : ℚ) * pow2 (scale - (radix : Int)) := by
      rw [← pow2_natCast, ← pow2_add]; congr 1; push_cast; omega
    rw [this]; exact mul_lt_mul_of_pos_right (b2.mp m2) hpr
  · intro adj R hn
    have hq : y * pow2 (scale - (radix : Int)) / pow2 (scale + (ss : Int) - (fb : Int) + (adj : Int))
        = y / ((2 ^ (ss + radix - fb + adj) : Nat) : ℚ) := by
      have h1 : pow2 (scale - (radix : Int)) = pow2 (scale + (ss : Int) - (fb : Int) + (adj : Int)) / ((2 ^ (ss + radix - fb + adj) : Nat) : ℚ) := by
        rw [← pow2_natCast, ← pow2_sub]; congr 1; push_cast; rw [Nat.cast_sub (by omega)]; push_cast; ring
      have hu := pow2_pos (scale + (ss : Int) - (fb : Int) + (adj : Int))
      have ht2 : (0 : ℚ) < ((2 ^ (ss + radix - fb + adj) : Nat) : ℚ) := by exact_mod_cast two_pow_pos _
      rw [h1]; field_simp
    unfold NearEven at hn ⊢
    rw [hq]
    exact sameSide_nearest sig y g (ss + radix - fb + adj) R hss (by omega) hn
  · intro adj k hk
    have ht2 : (0 : ℚ) < ((2 ^ (ss + radix - fb + adj) : Nat) : ℚ) := by exact_mod_cast two_pow_pos _
    have hy : y = ((k * 2 ^ (ss + radix - fb + adj) : Nat) : ℚ) := by
      have h1 : pow2 (scale + (ss : Int) - (fb : Int) + (adj : Int))
          = ((2 ^ (ss + radix - fb + adj) : Nat) : ℚ) * pow2 (scale - (radix : Int)) := by
        rw [← pow2_natCast, ← pow2_add]; congr 1; push_cast; rw [Nat.cast_sub (by omega)]; push_cast; ring
      rw [h1, ← mul_assoc] at hk
      have := mul_right_cancel₀ (ne_of_gt hpr) hk
      rw [this]; push_cast; ring
    have e : k * 2 ^ (ss + radix - fb + adj) = (k * 2 ^ (ss + radix - fb + adj - g)) * 2 ^ g := by
      rw [Nat.mul_assoc, ← Nat.pow_add]; congr 2; omega
    obtain ⟨h1, h2⟩ := hss (k * 2 ^ (ss + radix - fb + adj - g))
    rw [← e] at h1 h2
    have n1 : ¬ sig < k * 2 ^ (ss + radix - fb + adj) := by rw [h1, hy]; exact lt_irrefl _
    have n2 : ¬ k * 2 ^ (ss + radix - fb + adj) < sig := by rw [h2, hy]; exact lt_irrefl _
    omega

theorem rneShr_nearEven (sig t : Nat) : NearEven ((sig : ℚ) / ((2 ^ t : Nat) : ℚ)) (rneShr sig t) :=
  rneShr_nearest sig t

theorem signed_eq (sign : Bool) (X : ℚ) : (if sign = true then (-1 : ℚ) else 1) * X = if sign = true then -X else X := by
  cases sign <;> simp

/-- normal range, ≤ 64-bit path -/
theorem master_normal (c : Cfg) (hv : c.valid = true) (o : Op) (sign : Bool) (scale : Int) (sig : Nat) (X : ℚ)
    (hnarrow : o.bfbits c.fbits < 65) (hsig : 2 ^ (o.radix c.fbits) ≤ sig) (hrad : c.fbits ≤ o.radix c.fbits)
    (hRL : RoundsLike c.fbits (o.radix c.fbits) scale sig X)
    (hlo : c.minExpNormal ≤ scale + sigScale (o.radix c.fbits) sig)
    (hhi : scale + sigScale (o.radix c.fbits) sig + c.bias + 1 < c.emax) :
    convertFinite c o sign scale sig < 2 ^ c.nbits ∧
    nearestNZ c ((if sign then -1 else 1) * X) (convertFinite c o sign scale sig) = true := by
  have hb0 := bias_nonneg c
  have hmn : c.minExpNormal = 1 - c.bias := rfl
  rw [convertFinite_eq_assemble c hv o sign scale sig hnarrow hlo hhi]
  obtain ⟨m1, m2⟩ := sigScale_spec (o.radix c.fbits) sig hsig
  unfold RoundsLike at hRL
  obtain ⟨hXlo, hXhi, htr, _⟩ := hRL
  generalize sigScale (o.radix c.fbits) sig = ss at *
  generalize o.radix c.fbits = radix at *
  obtain ⟨r1, r2⟩ := shifted_range c.fbits radix sig ss (by omega) m1 m2
  set biased := (scale + (ss : Int) + c.bias).toNat with hbiased
  have hbi : (biased : Int) - c.bias = scale + (ss : Int) := by omega
  have hk := htr 0 _ (rneShr_nearEven sig (ss + radix - c.fbits + 0))
  simp only [Nat.add_zero, Nat.cast_zero, add_zero] at hk
  refine assemble_round_core c hv sign biased sig (ss + radix - c.fbits) r1 r2 (by omega) (by omega) X
    (by rw [hbi]; exact hXlo) (by rw [hbi]; exact hXhi) ?_
  rw [hbi]; exact hk

end UVerif.Cfloat

namespace UVerif.Cfloat

/-- subnormal results (configurations with subnormals, 2 ≤ es ≤ 20, ≤ 64-bit path) -/
theorem master_subnormal (c : Cfg) (hv : c.valid = true) (hsub : c.sub = true) (hg : Gen c) (hes20 : c.es ≤ 20)
    (o : Op) (sign : Bool) (scale : Int) (sig : Nat) (X : ℚ)
    (hnarrow : o.bfbits c.fbits < 65) (hsig : 2 ^ (o.radix c.fbits) ≤ sig) (hrad : c.fbits ≤ o.radix c.fbits)
    (hRL : RoundsLike c.fbits (o.radix c.fbits) scale sig X)
    (hlo : c.minExpSubnormal ≤ scale + sigScale (o.radix c.fbits) sig)
    (hhi : scale + sigScale (o.radix c.fbits) sig < c.minExpNormal) :
    convertFinite c o sign scale sig < 2 ^ c.nbits ∧
    nearestNZ c ((if sign then -1 else 1) * X) (convertFinite c o sign scale sig) = true := by
  obtain ⟨hes, hfb, _, _⟩ := valid_facts c hv
  have hb0 := bias_nonneg c
  obtain ⟨m1, m2⟩ := sigScale_spec (o.radix c.fbits) sig hsig
  unfold RoundsLike at hRL
  obtain ⟨hXlo, hXhi, htr, _⟩ := hRL
  generalize hss : sigScale (o.radix c.fbits) sig = ss at *
  generalize hradix : o.radix c.fbits = radix at *
  have hmn : c.minExpNormal = 1 - c.bias := rfl
  have hms : c.minExpSubnormal = 1 - c.bias - (c.fbits : Int) := rfl
  have hsrs := srs_eq c (by omega) hes20
  have hE1 := emax_pos c hv
  have hme := maxExp_eq_gen c hv
  have hmaxE : scale + (ss : Int) ≤ c.maxExp := by omega
  have e3 : ¬ (scale + (ss : Int) > c.maxExp) := by omega
  set adj : Nat := (-(scale + (ss : Int) + c.srs)).toNat with hadj
  have hadjv : (adj : Int) = 1 - c.bias - (scale + (ss : Int)) := by rw [hadj, hsrs, hmn]; omega
  have hconv : convertFinite c o sign scale sig = assemble c sign 0 sig (ss + radix - c.fbits + adj) := by
    have e1' : ¬ (scale + (ss : Int) < c.minExpSubnormal) := by omega
    unfold convertFinite
    simp only [hss, hradix, hsub, e1', e3, hhi, true_and, not_true_eq_false, false_and, and_self, if_false, if_true, hnarrow]
    rw [hadj]
  set t := ss + radix - c.fbits + adj with ht
  have hsh : sig >>> t < 2 ^ c.fbits := by
    rw [Nat.shiftRight_eq_div_pow, Nat.div_lt_iff_lt_mul (two_pow_pos _)]
    have : 2 ^ (ss + radix + 1) ≤ 2 ^ c.fbits * 2 ^ t := by
      rw [← Nat.pow_add]; exact Nat.pow_le_pow_right (by omega) (by omega)
    omega
  have hR := rneShr_le sig t
  rw [hconv, assemble_subnormal_gen c hv hg sign sig t hsh]
  have hFn := two_pow_pos c.fbits
  have hrange : (if rneShr sig t = 2 ^ c.fbits then 0 else rneShr sig t)
        + 2 ^ c.fbits * (if rneShr sig t = 2 ^ c.fbits then 1 else 0) + signBit c sign < 2 ^ c.nbits := by
    have hel := emax_lt c
    refine (fields_of_compose c hv sign _ _ (by split_ifs <;> omega) ?_).1
    split_ifs <;> omega
  refine ⟨hrange, ?_⟩
  have hF : (0 : ℚ) < ((2 ^ c.fbits : Nat) : ℚ) := by exact_mod_cast hFn
  set U : ℚ := pow2 (1 - c.bias - (c.fbits : Int)) with hU
  have hUpos : 0 < U := pow2_pos _
  have hminN : pow2 (1 - c.bias) = ((2 ^ c.fbits : Nat) : ℚ) * U := by
    rw [hU, pow2_sub (1 - c.bias), pow2_natCast]; field_simp
  have hval : ∃ m : ℚ, cfVal c ((if rneShr sig t = 2 ^ c.fbits then 0 else rneShr sig t)
        + 2 ^ c.fbits * (if rneShr sig t = 2 ^ c.fbits then 1 else 0) + signBit c sign) = .fin sign m ∧
      m = (rneShr sig t : ℚ) * U := by
    by_cases hc : rneShr sig t = 2 ^ c.fbits
    · simp only [hc, if_true]
      refine ⟨_, (cfVal_compose_one c hv hg sign).2.2, ?_⟩
      rw [hminN]
    · simp only [hc, if_false]
      exact ⟨_, cfVal_compose_subnormal c hv hsub sign _ (by omega), rfl⟩
  obtain ⟨m, hvm, hm⟩ := hval
  have hXpos : 0 < X := lt_of_lt_of_le (pow2_pos _) hXlo
  have hfl : floorLog2 X = scale + (ss : Int) := floorLog2_eq X _ hXlo hXhi
  have hu : ulpAt c X = U := by
    unfold ulpAt; simp only [hfl]; rw [if_pos (by omega)]
  have hk := htr adj _ (rneShr_nearEven sig t)
  have hUeq : pow2 (scale + (ss : Int) - (c.fbits : Int) + (adj : Int)) = U := by rw [hU]; congr 1; omega
  rw [hUeq] at hk
  have hminle : pow2 (1 - c.bias) ≤ maxFinite c := minNormal_le_maxFinite c hv hg
  have htop : pow2 (scale + (ss : Int) + 1) ≤ pow2 (1 - c.bias) := pow2_le_pow2.mpr (by omega)
  have hMpos : 0 < maxFinite c := maxFinite_pos c hv hg
  have hno : overflows c X = false :=
    overflows_false_of_lt c X (lt_of_lt_of_le hXhi (le_trans htop hminle)) hMpos
  have hmle : m ≤ maxFinite c := by
    have hRle : (rneShr sig t : ℚ) ≤ ((2 ^ c.fbits : Nat) : ℚ) := by exact_mod_cast (show rneShr sig t ≤ 2 ^ c.fbits by omega)
    have : m ≤ pow2 (1 - c.bias) := by rw [hm, hminN]; exact mul_le_mul_of_nonneg_right hRle (le_of_lt hUpos)
    exact le_trans this hminle
  rw [signed_eq]
  exact nearestNZ_intro_ulp c _ _ sign X m U (rneShr sig t) rfl hXpos hvm hu hUpos (by rw [hsub]; rfl) hm hk hno hmle

/-- flush to zero without subnormals (both convert paths) -/
theorem master_flush (c : Cfg) (hv : c.valid = true) (hsub : c.sub = false)
    (o : Op) (sign : Bool) (scale : Int) (sig : Nat) (X : ℚ)
    (hRL : RoundsLike c.fbits (o.radix c.fbits) scale sig X)
    (hhi : scale + sigScale (o.radix c.fbits) sig < c.minExpNormal) :
    convertFinite c o sign scale sig < 2 ^ c.nbits ∧
    nearestNZ c ((if sign then -1 else 1) * X) (convertFinite c o sign scale sig) = true := by
  unfold RoundsLike at hRL
  obtain ⟨hXlo, hXhi, _, _⟩ := hRL
  generalize hss : sigScale (o.radix c.fbits) sig = ss at *
  have hmn : c.minExpNormal = 1 - c.bias := rfl
  have hconv : convertFinite c o sign scale sig = signBit c sign := by
    unfold convertFinite
    have e2 : scale + (ss : Int) + c.bias ≤ 0 := by omega
    simp only [hss, hsub, Bool.false_eq_true, false_and, if_false, not_false_eq_true, true_and, e2, if_true]
  obtain ⟨hr, hvz⟩ := cfVal_signed_zero c hv sign
  rw [hconv]
  refine ⟨hr, ?_⟩
  have hXpos : 0 < X := lt_of_lt_of_le (pow2_pos _) hXlo
  have hXn : X < minNormal c := by
    unfold minNormal; exact lt_of_lt_of_le hXhi (pow2_le_pow2.mpr (by omega))
  have hneg : decide ((if sign = true then (-1 : ℚ) else 1) * X < 0) = sign := by
    cases sign <;> simp [hXpos, le_of_lt hXpos]
  have hX' : (if sign = true then -((if sign = true then (-1 : ℚ) else 1) * X) else (if sign = true then (-1 : ℚ) else 1) * X) = X := by
    cases sign <;> simp
  unfold nearestNZ
  simp only [hneg, hvz, hX', hsub, hXn]
  simp

/-- overflow: exponent above MAX_EXP (both convert paths); not for saturating configurations with supernormals -/
theorem master_overflow (c : Cfg) (hv : c.valid = true) (hg : Gen c) (hcfg : c.sat = false ∨ c.sup = false)
    (o : Op) (sign : Bool) (scale : Int) (sig : Nat) (X : ℚ)
    (hRL : RoundsLike c.fbits (o.radix c.fbits) scale sig X)
    (hhi : c.maxExp < scale + sigScale (o.radix c.fbits) sig) :
    convertFinite c o sign scale sig < 2 ^ c.nbits ∧
    nearestNZ c ((if sign then -1 else 1) * X) (convertFinite c o sign scale sig) = true := by
  have hb0 := bias_nonneg c
  have hme := maxExp_eq_gen c hv
  have hE := emax_pos c hv
  unfold RoundsLike at hRL
  obtain ⟨hXlo0, _, _, _⟩ := hRL
  generalize hss : sigScale (o.radix c.fbits) sig = ss at *
  have hmn : c.minExpNormal = 1 - c.bias := rfl
  have hms : c.minExpSubnormal = 1 - c.bias - (c.fbits : Int) := rfl
  have e1 : ¬ (scale + (ss : Int) < c.minExpSubnormal) := by omega
  have e2 : ¬ (scale + (ss : Int) + c.bias ≤ 0) := by omega
  have hconv : convertFinite c o sign scale sig =
      (if c.sat then (if sign then maxnegEnc c else maxposEnc c) else setInf c sign) := by
    unfold convertFinite
    simp only [hss, e1, e2, and_false, if_false, gt_iff_lt, hhi, if_true]
  rw [hconv]
  have hXlo : pow2 (c.maxExp + 1) ≤ X := le_trans (pow2_le_pow2.mpr (by omega)) hXlo0
  have hXpos : 0 < X := lt_of_lt_of_le (pow2_pos _) hXlo
  have hov := overflows_of_ge_gen c hv hg X hXlo
  have hneg : decide ((if sign = true then (-1 : ℚ) else 1) * X < 0) = sign := by
    cases sign <;> simp [hXpos, le_of_lt hXpos]
  have hX' : (if sign = true then -((if sign = true then (-1 : ℚ) else 1) * X) else (if sign = true then (-1 : ℚ) else 1) * X) = X := by
    cases sign <;> simp
  cases hsat : c.sat
  · simp only [Bool.false_eq_true, if_false]
    have sf := setInf_facts c hv sign
    refine ⟨sf.1, ?_⟩
    have hv' : cfVal c (setInf c sign) = .inf sign := by rw [(cfVal_isInf c hv _).mp sf.2.1, sf.2.2]
    unfold nearestNZ
    simp only [hneg, hv', hX', hov, hsat]
    simp
  · have hsup : c.sup = false := by
      rcases hcfg with h | h
      · rw [h] at hsat; cases hsat
      · exact h
    simp only [if_true]
    have hes2 : 2 ≤ c.es := by
      rcases gen_cases c hv hg with h2 | ⟨_, _, hs, _⟩
      · exact h2
      · rw [hsup] at hs; cases hs
    obtain ⟨hr, hvm⟩ := cfVal_maxpos_nosup c hv hes2 hsup sign
    refine ⟨hr, ?_⟩
    have hminN : ¬ (X < minNormal c) := by
      unfold minNormal
      have : pow2 (1 - c.bias) ≤ pow2 (c.maxExp + 1) := pow2_le_pow2.mpr (by omega)
      exact not_lt.mpr (le_trans this hXlo)
    unfold nearestNZ
    simp only [hneg, hvm, hX', hov, hsat, hminN]
    simp

end UVerif.Cfloat

namespace UVerif.Cfloat

/-- below the smallest subnormal (configurations with subnormals; both convert paths) -/
theorem master_underflow (c : Cfg) (hv : c.valid = true) (hsub : c.sub = true) (hg : Gen c) (hes20 : c.es ≤ 20)
    (o : Op) (sign : Bool) (scale : Int) (sig : Nat) (X : ℚ)
    (hsig : 2 ^ (o.radix c.fbits) ≤ sig) (hrad : c.fbits ≤ o.radix c.fbits)
    (hRL : RoundsLike c.fbits (o.radix c.fbits) scale sig X)
    (hhi : scale + sigScale (o.radix c.fbits) sig < c.minExpSubnormal) :
    convertFinite c o sign scale sig < 2 ^ c.nbits ∧
    nearestNZ c ((if sign then -1 else 1) * X) (convertFinite c o sign scale sig) = true := by
  obtain ⟨hes, hfb, _, _⟩ := valid_facts c hv
  have hb0 := bias_nonneg c
  obtain ⟨m1, m2⟩ := sigScale_spec (o.radix c.fbits) sig hsig
  unfold RoundsLike at hRL
  obtain ⟨hXlo, hXhi, htr, _⟩ := hRL
  generalize hss : sigScale (o.radix c.fbits) sig = ss at *
  generalize hradix : o.radix c.fbits = radix at *
  have hmn : c.minExpNormal = 1 - c.bias := rfl
  have hms : c.minExpSubnormal = 1 - c.bias - (c.fbits : Int) := rfl
  have hsrs := srs_eq c (by omega) hes20
  have hFn := two_pow_pos c.fbits
  obtain ⟨E, hE⟩ : ∃ E : Int, E = scale + (ss : Int) := ⟨_, rfl⟩
  rw [← hE] at hhi hXlo hXhi
  have hXpos : 0 < X := lt_of_lt_of_le (pow2_pos E) hXlo
  have hfl : floorLog2 X = E := floorLog2_eq X E hXlo hXhi
  set U : ℚ := pow2 (1 - c.bias - (c.fbits : Int)) with hU
  have hUpos : 0 < U := pow2_pos _
  have hu : ulpAt c X = U := by
    unfold ulpAt; simp only [hfl]; rw [if_pos (by omega)]
  have hflush : (!c.sub && decide (X < minNormal c)) = false := by rw [hsub]; rfl
  have hminle : pow2 (1 - c.bias) ≤ maxFinite c := minNormal_le_maxFinite c hv hg
  have hMpos : 0 < maxFinite c := maxFinite_pos c hv hg
  have hno : overflows c X = false := by
    refine overflows_false_of_lt c X ?_ hMpos
    have h1 : pow2 (E + 1) ≤ pow2 (1 - c.bias) := pow2_le_pow2.mpr (by omega)
    exact lt_of_lt_of_le hXhi (le_trans h1 hminle)
  have hUle : U ≤ maxFinite c := le_trans (pow2_le_pow2.mpr (by omega)) hminle
  rw [signed_eq]
  by_cases hspec : E = c.minExpSubnormal - 1
  · set t := ss + radix - c.fbits + (-(E + c.srs)).toNat with ht
    have htI : (t : Int) = (ss : Int) + (radix : Int) + 1 := by
      rw [ht, hsrs, hmn]; push_cast; rw [Nat.cast_sub (by omega)]; push_cast; omega
    have htN : t = ss + radix + 1 := by omega
    have hconv : convertFinite c o sign scale sig = signBit c sign + (if roundingDirection sig t = true then 1 else 0) := by
      unfold convertFinite
      simp only [hss, hradix, hsub, true_and, ← hE]
      rw [if_pos hhi, if_pos hspec, ← ht]
      split_ifs <;> rfl
    have hsh0 : sig >>> t = 0 := by
      rw [Nat.shiftRight_eq_div_pow, htN]; exact Nat.div_eq_of_lt m2
    have hR := shift_round_eq_rneShr sig t
    rw [hsh0, Nat.zero_add] at hR
    have hteq : ss + radix - c.fbits + (c.fbits + 1) = t := by omega
    have hk0 := htr (c.fbits + 1) _ (rneShr_nearEven sig (ss + radix - c.fbits + (c.fbits + 1)))
    rw [hteq] at hk0
    have hUeq : pow2 (scale + (ss : Int) - (c.fbits : Int) + ((c.fbits + 1 : Nat) : Int)) = U := by
      rw [hU]; congr 1; push_cast; omega
    rw [hUeq, ← hR] at hk0
    have hk : (-(1:ℚ)/2 < X / U - (((if roundingDirection sig t = true then 1 else 0) : Nat) : ℚ) ∧
        X / U - (((if roundingDirection sig t = true then 1 else 0) : Nat) : ℚ) < 1/2) ∨
        ((X / U - (((if roundingDirection sig t = true then 1 else 0) : Nat) : ℚ) = 1/2 ∨
          X / U - (((if roundingDirection sig t = true then 1 else 0) : Nat) : ℚ) = -(1:ℚ)/2) ∧
          (if roundingDirection sig t = true then 1 else 0) % 2 = 0) := hk0
    rw [hconv]
    cases hrd : roundingDirection sig t
    · rw [hrd] at hk
      simp only [Bool.false_eq_true, if_false, Nat.add_zero] at hk ⊢
      obtain ⟨hr, hvz⟩ := cfVal_signed_zero c hv sign
      refine ⟨hr, ?_⟩
      refine nearestNZ_intro_ulp c _ _ sign X 0 U 0 rfl hXpos hvz hu hUpos hflush (by simp) ?_ hno (le_of_lt hMpos)
      simpa using hk
    · rw [hrd] at hk
      simp only [if_true] at hk ⊢
      have h1lt : 1 < 2 ^ c.fbits := by
        calc 1 < 2 ^ 1 := by norm_num
          _ ≤ 2 ^ c.fbits := Nat.pow_le_pow_right (by omega) hfb
      have hv1 := cfVal_compose_subnormal c hv hsub sign 1 h1lt
      have hrange := (fields_of_compose c hv sign 0 1 (two_pow_pos _) h1lt).1
      have e1 : 1 + 2 ^ c.fbits * 0 + signBit c sign = signBit c sign + 1 := by omega
      rw [e1] at hv1 hrange
      refine ⟨hrange, ?_⟩
      refine nearestNZ_intro_ulp c _ _ sign X ((1 : Nat) * U) U 1 rfl hXpos (by simpa using hv1) hu hUpos hflush (by simp) ?_ hno (by simpa using hUle)
      simpa using hk
  · have hconv : convertFinite c o sign scale sig = signBit c sign := by
      unfold convertFinite
      simp only [hss, hradix, hsub, true_and, ← hE]
      rw [if_pos hhi, if_neg hspec]
    obtain ⟨hr, hvz⟩ := cfVal_signed_zero c hv sign
    rw [hconv]
    refine ⟨hr, ?_⟩
    have hhalf : X / U < 1 / 2 := by
      have h1 : pow2 (E + 1) ≤ pow2 (1 - c.bias - (c.fbits : Int) - 1) := pow2_le_pow2.mpr (by omega)
      have h2 : pow2 (1 - c.bias - (c.fbits : Int) - 1) = U / 2 := by
        rw [hU, pow2_sub (1 - c.bias - (c.fbits : Int)) 1]
        rw [show pow2 1 = 2 by rw [pow2_eq_zpow]; norm_num]
      rw [div_lt_iff₀ hUpos]; linarith
    have hnn : (0 : ℚ) ≤ X / U := by positivity
    refine nearestNZ_intro_ulp c _ _ sign X 0 U 0 rfl hXpos hvz hu hUpos hflush (by simp) ?_ hno (le_of_lt hMpos)
    left
    constructor <;> simp <;> linarith

end UVerif.Cfloat
