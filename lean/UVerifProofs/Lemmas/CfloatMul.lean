import Mathlib.Tactic.Ring
import Mathlib.Tactic.Linarith
import Mathlib.Tactic.FieldSimp
import Mathlib.Algebra.Order.Field.Power
import Mathlib.Data.Rat.Floor
import UVerifProofs.Lemmas.CfloatConvert
open UVerif UVerif.Cfloat

namespace UVerif.Cfloat

/-- a finite operand with a non-zero exponent field (normal, or supernormal when the configuration has them) -/
def normalOperand (c : Cfg) (a : Nat) : Bool := !isNan c a && !isInf c a && c.expOf a != 0

theorem normalOperand_facts (c : Cfg) (hv : c.valid = true) (a : Nat) (h : normalOperand c a = true) :
    isNan c a = false ∧ isInf c a = false ∧ isZero c a = false ∧ c.expOf a ≠ 0 ∧
    cfVal c a = .fin (c.signOf a) ((1 + (c.fracOf a : ℚ) / ((2 ^ c.fbits : Nat) : ℚ)) * pow2 ((c.expOf a : Int) - c.bias)) := by
  unfold normalOperand at h
  simp only [Bool.and_eq_true, Bool.not_eq_true', bne_iff_ne, ne_eq] at h
  obtain ⟨⟨hn, hi⟩, he⟩ := h
  have hz : isZero c a = false := by
    unfold isZero
    cases hs : c.sub
    · simp [he]
    · simp only [if_true]
      rw [Bool.eq_false_iff]; intro hc
      exact he ((isZeroEnc_iff c hv a).mp hc).1
  refine ⟨hn, hi, hz, he, ?_⟩
  have hnv := cfVal_isNan c hv a
  rcases cfVal_cases c a with ⟨_, _, e⟩ | ⟨_, _, _, e⟩ | ⟨_, _, _, e⟩ | ⟨_, h0, _⟩ | ⟨_, _, e⟩
  · rw [e, hn] at hnv; cases hnv
  · rw [(cfVal_isInf c hv a).mpr e] at hi; cases hi
  · cases hs : c.sup
    · rw [hs] at e; rw [e, hn] at hnv; cases hnv
    · rw [hs] at e; simpa using e
  · exact absurd h0 he
  · exact e

theorem or_pow_eq_add (f fb : Nat) (hf : f < 2 ^ fb) : f ||| 2 ^ fb = 2 ^ fb + f := by
  rw [Nat.or_comm, ← Nat.one_shiftLeft, shl_or_eq_add 1 f fb hf]; omega

theorem normalizeOp_mul_normal (c : Cfg) (a : Nat) (he : c.expOf a ≠ 0) :
    normalizeOp c .mul a = { zero := false, sign := c.signOf a, scale := (c.expOf a : Int) - c.bias, sig := 2 ^ c.fbits + c.fracOf a } := by
  unfold normalizeOp sigBits scaleOf
  simp only [he, if_false, Nat.or_zero]
  rw [or_pow_eq_add _ _ (fracOf_lt c a)]

/-- `blocktriple::mul` on two normalised significants 1.f × 1.g: the exact product, never renormalised -/
theorem tripleMul_normal (fb : Nat) (s1 s2 : Bool) (sc1 sc2 : Int) (f g : Nat) (hf : f < 2 ^ fb) (hg : g < 2 ^ fb) :
    tripleMul fb { zero := false, sign := s1, scale := sc1, sig := 2 ^ fb + f } { zero := false, sign := s2, scale := sc2, sig := 2 ^ fb + g }
      = { zero := false, sign := s1 != s2, scale := sc1 + sc2, sig := (2 ^ fb + f) * (2 ^ fb + g) } ∧
    2 ^ (2 * fb) ≤ (2 ^ fb + f) * (2 ^ fb + g) ∧ (2 ^ fb + f) * (2 ^ fb + g) < 2 ^ (2 * fb + 2) := by
  have hF := two_pow_pos fb
  have e1 : 2 ^ (2 * fb) = 2 ^ fb * 2 ^ fb := by rw [← Nat.pow_add]; congr 1; omega
  have e2 : 2 ^ (2 * fb + 2) = (2 * 2 ^ fb) * (2 * 2 ^ fb) := by
    rw [Nat.pow_add, e1]; ring
  have lo : 2 ^ (2 * fb) ≤ (2 ^ fb + f) * (2 ^ fb + g) := by
    rw [e1]; exact Nat.mul_le_mul (by omega) (by omega)
  have hi : (2 ^ fb + f) * (2 ^ fb + g) < 2 ^ (2 * fb + 2) := by
    rw [e2]; exact Nat.mul_lt_mul'' (by omega) (by omega)
  refine ⟨?_, lo, hi⟩
  unfold tripleMul Op.bfbits
  simp only []
  rw [Nat.mod_eq_of_lt hi]
  have hne : (2 ^ fb + f) * (2 ^ fb + g) ≠ 0 := by
    have := two_pow_pos (2 * fb); omega
  simp only [hne, if_false]
  -- one of the two leading bits is set
  have w1 : 2 * fb + 2 - 1 = 2 * fb + 1 := by omega
  have w2 : 2 * fb + 2 - 2 = 2 * fb := by omega
  simp only [w1, w2]
  have htop : ((2 ^ fb + f) * (2 ^ fb + g)).testBit (2 * fb + 1) = true ∨ ((2 ^ fb + f) * (2 ^ fb + g)).testBit (2 * fb) = true := by
    generalize (2 ^ fb + f) * (2 ^ fb + g) = p at *
    rw [Nat.testBit_eq_decide_div_mod_eq, Nat.testBit_eq_decide_div_mod_eq]
    simp only [decide_eq_true_eq]
    have hq1 : 1 ≤ p / 2 ^ (2 * fb) := (Nat.one_le_div_iff (two_pow_pos _)).mpr lo
    have hq2 : p / 2 ^ (2 * fb) < 4 := by
      rw [Nat.div_lt_iff_lt_mul (two_pow_pos _)]
      rw [show 2 ^ (2 * fb + 2) = 4 * 2 ^ (2 * fb) by rw [Nat.pow_add]; ring] at hi; exact hi
    have hd : p / 2 ^ (2 * fb + 1) = p / 2 ^ (2 * fb) / 2 := by
      rw [Nat.pow_succ, Nat.div_div_eq_div_mul]
    rw [hd]; omega
  have hcond : (!((2 ^ fb + f) * (2 ^ fb + g)).testBit (2 * fb + 1) && !((2 ^ fb + f) * (2 ^ fb + g)).testBit (2 * fb)) = false := by
    rcases htop with h | h <;> simp [h]
  rw [hcond]
  simp

/-- operator* on two finite operands with non-zero exponent fields: the model reduces to `convertFinite` of the
    exact product triple, and the property's expectation is that exact product as a real number -/
theorem mul_normal_operands (c : Cfg) (hv : c.valid = true) (a b : Nat)
    (hna : normalOperand c a = true) (hnb : normalOperand c b = true) :
    let sg := c.signOf a != c.signOf b
    let sc : Int := ((c.expOf a : Int) - c.bias) + ((c.expOf b : Int) - c.bias)
    let p := (2 ^ c.fbits + c.fracOf a) * (2 ^ c.fbits + c.fracOf b)
    mul c a b = convertFinite c .mul sg sc p ∧
    expectOp "mul" (cfVal c a) (cfVal c b)
      = .real ((if sg = true then -1 else 1) * ((p : ℚ) * pow2 (sc - ((Op.radix .mul c.fbits : Nat) : Int)))) ∧
    2 ^ (Op.radix .mul c.fbits) ≤ p := by
  intro sg sc p
  obtain ⟨na, ia, za, ea, va⟩ := normalOperand_facts c hv a hna
  obtain ⟨nb, ib, zb, eb, vb⟩ := normalOperand_facts c hv b hnb
  have hF := two_pow_pos c.fbits
  obtain ⟨tm, plo, _⟩ := tripleMul_normal c.fbits (c.signOf a) (c.signOf b) ((c.expOf a : Int) - c.bias) ((c.expOf b : Int) - c.bias)
    (c.fracOf a) (c.fracOf b) (fracOf_lt c a) (fracOf_lt c b)
  refine ⟨?_, ?_, by simp only [Op.radix]; exact plo⟩
  · unfold mul
    rw [prologue_skip c a b _ na nb]
    simp only [ia, ib, za, zb, Bool.or_self, Bool.false_eq_true, if_false]
    rw [normalizeOp_mul_normal c a ea, normalizeOp_mul_normal c b eb, tm]
    unfold convertTriple
    simp [sg, sc, p]
  · have hxa := normal_mag_pos (c.fracOf a) (2 ^ c.fbits) hF ((c.expOf a : Int) - c.bias)
    have hxb := normal_mag_pos (c.fracOf b) (2 ^ c.fbits) hF ((c.expOf b : Int) - c.bias)
    rw [va, vb]
    simp only [expectOp]
    rw [if_neg (by intro hc; rcases hc with hc | hc <;> linarith)]
    congr 2
    have hFq : (0 : ℚ) < ((2 ^ c.fbits : Nat) : ℚ) := by exact_mod_cast hF
    have hrdx : ((Op.radix .mul c.fbits : Nat) : Int) = (c.fbits : Int) + (c.fbits : Int) := by
      simp only [Op.radix]; push_cast; ring
    have hsplit : ∀ X Y : Int, pow2 (X + Y - ((c.fbits : Int) + (c.fbits : Int)))
        = pow2 X * pow2 Y / (((2 ^ c.fbits : Nat) : ℚ) * ((2 ^ c.fbits : Nat) : ℚ)) := by
      intro X Y
      rw [pow2_sub, pow2_add, pow2_add, pow2_natCast]
    simp only [sc, p]
    rw [hrdx, hsplit]
    push_cast
    field_simp

end UVerif.Cfloat
