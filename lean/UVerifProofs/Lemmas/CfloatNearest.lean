import Mathlib.Tactic.Ring
import Mathlib.Tactic.Linarith
import Mathlib.Tactic.FieldSimp
import Mathlib.Algebra.Order.Field.Power
import Mathlib.Data.Rat.Floor
import UVerifProofs.Lemmas.CfloatLog
import UVerifProofs.Lemmas.CfloatAssemble
open UVerif UVerif.Cfloat

namespace UVerif.Cfloat

theorem emax_lt (c : Cfg) : c.emax < 2 ^ c.es := by
  unfold Cfg.emax; have := two_pow_pos c.es; omega

/-- decode of a normal encoding assembled from its fields -/
theorem cfVal_compose_normal (c : Cfg) (hv : c.valid = true) (s : Bool) (e f : Nat)
    (he1 : 1 ≤ e) (he2 : e < c.emax) (hf : f < 2 ^ c.fbits) :
    cfVal c (f + 2 ^ c.fbits * e + signBit c s) =
      .fin s ((1 + (f : ℚ) / ((2 ^ c.fbits : Nat) : ℚ)) * pow2 ((e : Int) - c.bias)) := by
  have fc := fields_of_compose c hv s e f (lt_trans he2 (emax_lt c)) hf
  rcases cfVal_cases c (f + 2 ^ c.fbits * e + signBit c s) with ⟨h, _, _⟩ | ⟨h, _, _, _⟩ | ⟨h, _, _, _⟩ | ⟨_, h, _⟩ | ⟨_, _, h⟩
  · rw [fc.2.2.1] at h; omega
  · rw [fc.2.2.1] at h; omega
  · rw [fc.2.2.1] at h; omega
  · rw [fc.2.2.1] at h; omega
  · rw [h, fc.2.1, fc.2.2.1, fc.2.2.2]

/-- the executable rounding relation holds for an encoding r that denotes ±k·2^(E−fbits) when X lies in binade E
    (normal range), k is a nearest integer to X / 2^(E−fbits) with ties to even, and X does not overflow -/
theorem nearestNZ_intro (c : Cfg) (x : ℚ) (r : Nat) (neg : Bool) (X m : ℚ) (E : Int) (k : Nat)
    (hx : x = if neg then -X else X)
    (hv : cfVal c r = .fin neg m)
    (hE1 : pow2 E ≤ X) (hE2 : X < pow2 (E + 1)) (hEn : 1 - c.bias ≤ E)
    (hm : m = (k : ℚ) * pow2 (E - (c.fbits : Int)))
    (hk : (-(1:ℚ)/2 < X / pow2 (E - (c.fbits : Int)) - (k : ℚ) ∧ X / pow2 (E - (c.fbits : Int)) - (k : ℚ) < 1/2) ∨
          ((X / pow2 (E - (c.fbits : Int)) - (k : ℚ) = 1/2 ∨ X / pow2 (E - (c.fbits : Int)) - (k : ℚ) = -(1:ℚ)/2) ∧ k % 2 = 0))
    (hno : overflows c X = false) (hmax : m ≤ maxFinite c) :
    nearestNZ c x r = true := by
  have hXpos : 0 < X := lt_of_lt_of_le (pow2_pos E) hE1
  have hneg : decide (x < 0) = neg := by
    cases neg
    · simp only [Bool.false_eq_true, if_false] at hx; rw [hx]; simp [le_of_lt hXpos]
    · simp only [if_true] at hx; rw [hx]; simp [hXpos]
  have hX' : (if neg = true then -x else x) = X := by
    cases neg
    · simp only [Bool.false_eq_true, if_false] at hx ⊢; exact hx
    · simp only [if_true] at hx ⊢; rw [hx]; ring
  have hfl : floorLog2 X = E := floorLog2_eq X E hE1 hE2
  have hu : ulpAt c X = pow2 (E - (c.fbits : Int)) := by
    unfold ulpAt; simp only [hfl]
    rw [if_neg (by omega)]
  have hmin : ¬ (X < minNormal c) := by
    unfold minNormal
    have : pow2 (1 - c.bias) ≤ pow2 E := pow2_le_pow2.mpr hEn
    exact not_lt.mpr (le_trans this hE1)
  have hupos : 0 < pow2 (E - (c.fbits : Int)) := pow2_pos _
  have hq : m / pow2 (E - (c.fbits : Int)) = (k : ℚ) := by
    rw [hm]; field_simp
  unfold nearestNZ
  simp only [hneg, hv, hX']
  simp only [hno, hu, hq, hmin, decide_false, Bool.and_false, Bool.false_eq_true, if_false, beq_self_eq_true, Bool.true_and]
  have hden : ((k : ℚ).den == 1) = true := by simp
  have hnum : ((k : ℚ).num % 2 == 0) = decide (k % 2 = 0) := by
    simp only [Rat.num_natCast]
    by_cases h : k % 2 = 0
    · simp [h]; omega
    · simp [h]; omega
  rw [hden, hnum]
  simp only [Bool.true_and, Bool.and_eq_true, Bool.or_eq_true, decide_eq_true_eq, beq_iff_eq]
  exact ⟨hmax, hk⟩

/-- decode of a subnormal encoding (exponent field 0) in a configuration with subnormals -/
theorem cfVal_compose_subnormal (c : Cfg) (hv : c.valid = true) (hs : c.sub = true) (s : Bool) (f : Nat) (hf : f < 2 ^ c.fbits) :
    cfVal c (f + 2 ^ c.fbits * 0 + signBit c s) =
      .fin s ((f : ℚ) * pow2 (1 - c.bias - (c.fbits : Int))) := by
  have hE := emax_pos c hv
  have fc := fields_of_compose c hv s 0 f (two_pow_pos _) hf
  have hF : (0 : ℚ) < ((2 ^ c.fbits : Nat) : ℚ) := by exact_mod_cast two_pow_pos c.fbits
  rcases cfVal_cases c (f + 2 ^ c.fbits * 0 + signBit c s) with ⟨h, _, _⟩ | ⟨h, _, _, _⟩ | ⟨h, _, _, _⟩ | ⟨_, _, h⟩ | ⟨_, h, _⟩
  · rw [fc.2.2.1] at h; omega
  · rw [fc.2.2.1] at h; omega
  · rw [fc.2.2.1] at h; omega
  · rw [h, hs, fc.2.1, fc.2.2.2]
    simp only [if_true]
    congr 1
    have : pow2 (1 - c.bias - (c.fbits : Int)) = pow2 (1 - c.bias) / ((2 ^ c.fbits : Nat) : ℚ) := by
      rw [pow2_sub (1 - c.bias), pow2_natCast]
    rw [this]; field_simp
  · rw [fc.2.2.1] at h; exact absurd rfl h

/-- general form of `nearestNZ_intro`: the lattice spacing U = ulpAt cfg X is given, r denotes ± k·U with k a
    nearest integer to X / U (ties to even), X is not flushed and does not overflow -/
theorem nearestNZ_intro_ulp (c : Cfg) (x : ℚ) (r : Nat) (neg : Bool) (X m U : ℚ) (k : Nat)
    (hx : x = if neg then -X else X) (hXpos : 0 < X)
    (hv : cfVal c r = .fin neg m)
    (hu : ulpAt c X = U) (hUpos : 0 < U)
    (hflush : (!c.sub && decide (X < minNormal c)) = false)
    (hm : m = (k : ℚ) * U)
    (hk : (-(1:ℚ)/2 < X / U - (k : ℚ) ∧ X / U - (k : ℚ) < 1/2) ∨
          ((X / U - (k : ℚ) = 1/2 ∨ X / U - (k : ℚ) = -(1:ℚ)/2) ∧ k % 2 = 0))
    (hno : overflows c X = false) (hmax : m ≤ maxFinite c) :
    nearestNZ c x r = true := by
  have hneg : decide (x < 0) = neg := by
    cases neg
    · simp only [Bool.false_eq_true, if_false] at hx; rw [hx]; simp [le_of_lt hXpos]
    · simp only [if_true] at hx; rw [hx]; simp [hXpos]
  have hX' : (if neg = true then -x else x) = X := by
    cases neg
    · simp only [Bool.false_eq_true, if_false] at hx ⊢; exact hx
    · simp only [if_true] at hx ⊢; rw [hx]; ring
  have hq : m / U = (k : ℚ) := by
    rw [hm]; field_simp
  unfold nearestNZ
  simp only [hneg, hv, hX']
  simp only [hno, hu, hq, hflush, Bool.false_eq_true, if_false, beq_self_eq_true, Bool.true_and]
  have hden : ((k : ℚ).den == 1) = true := by simp
  have hnum : ((k : ℚ).num % 2 == 0) = decide (k % 2 = 0) := by
    simp only [Rat.num_natCast]
    by_cases h : k % 2 = 0
    · simp [h]; omega
    · simp [h]; omega
  rw [hden, hnum]
  simp only [Bool.true_and, Bool.and_eq_true, Bool.or_eq_true, decide_eq_true_eq, beq_iff_eq]
  exact ⟨hmax, hk⟩

end UVerif.Cfloat
