import Mathlib.Tactic.Ring
import Mathlib.Tactic.Linarith
import Mathlib.Tactic.FieldSimp
import Mathlib.Tactic.ByContra
import Mathlib.Algebra.Order.Field.Power
import Mathlib.Data.Rat.Floor
import UVerifProofs.Lemmas.CfloatMul
import UVerifProofs.Lemmas.CfloatDivCore
open UVerif UVerif.Cfloat

/-!
  Every finite non-zero operand — normal, supernormal or SUBNORMAL — enters the blocktriple stage as a
  normalised significant M = sigBits ∈ [2^fb, 2^(fb+1)) with scale s = scaleOf, and denotes ± M·2^(s − fb).
  (normalizeAddition / normalizeMultiplication / normalizeDivision shift a subnormal fraction up so that its
  leading bit lands on the hidden-bit position; the `raw |= 1 << fbits` of the subnormal path is then a no-op.)
-/
namespace UVerif.Cfloat

theorem or_pow_self_of_range (M fb : Nat) (h1 : 2 ^ fb ≤ M) (h2 : M < 2 ^ (fb + 1)) : M ||| 2 ^ fb = M := by
  have hlt : M - 2 ^ fb < 2 ^ fb := by rw [Nat.pow_succ] at h2; omega
  have e : M = (M - 2 ^ fb) ||| 2 ^ fb := by rw [or_pow_eq_add _ _ hlt]; omega
  rw [e, Nat.or_assoc, Nat.or_self]

theorem log2_bounds (f : Nat) (hf : 0 < f) : 2 ^ Nat.log2 f ≤ f ∧ f < 2 ^ (Nat.log2 f + 1) :=
  ⟨Nat.log2_self_le (by omega), Nat.lt_log2_self⟩

/-- the triple handed to the blocktriple stage -/
def opTriple (c : Cfg) (a : Nat) (sig : Nat) : Triple :=
  { zero := false, sign := c.signOf a, scale := scaleOf c a, sig := sig }

theorem operand_facts (c : Cfg) (hv : c.valid = true) (a : Nat) (h : finiteNZ c a = true) :
    isNan c a = false ∧ isInf c a = false ∧ isZero c a = false ∧
    2 ^ c.fbits ≤ sigBits c a ∧ sigBits c a < 2 ^ (c.fbits + 1) ∧
    cfVal c a = .fin (c.signOf a) ((sigBits c a : ℚ) * pow2 (scaleOf c a - (c.fbits : Int))) ∧
    normalizeOp c .mul a = opTriple c a (sigBits c a) ∧
    normalizeOp c .add a = opTriple c a (sigBits c a <<< 3) ∧
    normalizeOp c .div a = opTriple c a (sigBits c a * 2 ^ (2 * c.fbits + 4)) := by
  unfold finiteNZ at h
  simp only [Bool.and_eq_true, Bool.not_eq_true'] at h
  obtain ⟨⟨hn, hi⟩, hz⟩ := h
  obtain ⟨_, hfb, _, _⟩ := valid_facts c hv
  have hF := two_pow_pos c.fbits
  have hFF : 2 ^ (c.fbits + 1) = 2 * 2 ^ c.fbits := by rw [Nat.pow_succ]; omega
  have hfl := fracOf_lt c a
  have hFq : (0 : ℚ) < ((2 ^ c.fbits : Nat) : ℚ) := by exact_mod_cast hF
  by_cases he : c.expOf a = 0
  · -- exponent field 0: a subnormal (the configuration has them, the fraction is not zero)
    have hsub : c.sub = true := by
      cases hs : c.sub
      · exfalso; unfold isZero at hz; rw [hs] at hz; simp [he] at hz
      · rfl
    have hf0 : 0 < c.fracOf a := by
      by_contra hc
      have : isZeroEnc c a = true := (isZeroEnc_iff c hv a).mpr ⟨he, by omega⟩
      rw [isZero_of_isZeroEnc c hv a this] at hz; cases hz
    obtain ⟨l1, l2⟩ := log2_bounds (c.fracOf a) hf0
    have hp : Nat.log2 (c.fracOf a) < c.fbits := by
      by_contra hc
      have : 2 ^ c.fbits ≤ 2 ^ Nat.log2 (c.fracOf a) := Nat.pow_le_pow_right (by omega) (by omega)
      omega
    have hpe : (if c.fracOf a ≥ 2 then Nat.log2 (c.fracOf a) else 0) = Nat.log2 (c.fracOf a) := by
      split_ifs with h2
      · rfl
      · have : c.fracOf a = 1 := by omega
        rw [this]; decide
    have hsc : scaleOf c a = 1 - c.bias - (c.fbits : Int) + (Nat.log2 (c.fracOf a) : Int) := by
      unfold scaleOf
      simp only [he, if_true, hpe]
      omega
    have hsh : (c.minExpNormal - scaleOf c a).toNat = c.fbits - Nat.log2 (c.fracOf a) := by
      rw [hsc]; unfold Cfg.minExpNormal; omega
    have hsig : sigBits c a = c.fracOf a * 2 ^ (c.fbits - Nat.log2 (c.fracOf a)) := by
      unfold sigBits
      simp only [he, if_true]
      rw [hsh, Nat.shiftLeft_eq]
    have hpw : 2 ^ c.fbits = 2 ^ Nat.log2 (c.fracOf a) * 2 ^ (c.fbits - Nat.log2 (c.fracOf a)) := by
      rw [← Nat.pow_add]; congr 1; omega
    have hpw1 : 2 ^ (c.fbits + 1) = 2 ^ (Nat.log2 (c.fracOf a) + 1) * 2 ^ (c.fbits - Nat.log2 (c.fracOf a)) := by
      rw [← Nat.pow_add]; congr 1; omega
    have hS := two_pow_pos (c.fbits - Nat.log2 (c.fracOf a))
    have hM1 : 2 ^ c.fbits ≤ sigBits c a := by
      rw [hsig, hpw]; exact Nat.mul_le_mul_right _ l1
    have hM2 : sigBits c a < 2 ^ (c.fbits + 1) := by
      rw [hsig, hpw1]; exact Nat.mul_lt_mul_of_pos_right l2 hS
    refine ⟨hn, hi, hz, hM1, hM2, ?_, ?_, ?_, ?_⟩
    · rcases cfVal_cases c a with ⟨h', _, _⟩ | ⟨h', _, _, _⟩ | ⟨h', _, _, _⟩ | ⟨_, _, e⟩ | ⟨_, h', _⟩
      · have := emax_pos c hv; omega
      · have := emax_pos c hv; omega
      · have := emax_pos c hv; omega
      · rw [e, hsub]
        simp only [if_true]
        congr 1
        rw [hsig, hsc]
        have h1 : pow2 (1 - c.bias - (c.fbits : Int) + (Nat.log2 (c.fracOf a) : Int) - (c.fbits : Int))
            = pow2 (1 - c.bias) / ((2 ^ c.fbits : Nat) : ℚ) / ((2 ^ (c.fbits - Nat.log2 (c.fracOf a)) : Nat) : ℚ) := by
          rw [← pow2_natCast, ← pow2_natCast, ← pow2_sub, ← pow2_sub]; congr 1
          rw [Nat.cast_sub (by omega)]; ring
        rw [h1]; push_cast
        have : (0 : ℚ) < (2 : ℚ) ^ (c.fbits - Nat.log2 (c.fracOf a)) := by positivity
        have : (0 : ℚ) < (2 : ℚ) ^ c.fbits := by positivity
        field_simp
      · exact absurd he h'
    · unfold normalizeOp opTriple
      simp only [he, if_true]
      rw [or_pow_self_of_range _ _ hM1 hM2]
    · unfold normalizeOp opTriple
      simp only []
    · unfold normalizeOp opTriple
      simp only [he, if_true]
      rw [or_pow_self_of_range _ _ hM1 hM2, Nat.shiftLeft_eq]
  · -- non-zero exponent field: hidden bit present
    have hnorm : normalOperand c a = true := by
      unfold normalOperand; simp [hn, hi, he]
    obtain ⟨_, _, _, _, va⟩ := normalOperand_facts c hv a hnorm
    have hsig : sigBits c a = 2 ^ c.fbits + c.fracOf a := by
      unfold sigBits; simp only [he, if_false]; exact or_pow_eq_add _ _ hfl
    have hsc : scaleOf c a = (c.expOf a : Int) - c.bias := by
      unfold scaleOf; simp only [he, if_false]
    refine ⟨hn, hi, hz, by omega, by omega, ?_, ?_, ?_, ?_⟩
    · rw [va, hsig, hsc]
      congr 1
      rw [pow2_sub ((c.expOf a : Int) - c.bias), pow2_natCast]; push_cast; field_simp
    · unfold normalizeOp opTriple
      simp only [he, if_false, Nat.or_zero]
    · unfold normalizeOp opTriple
      simp only []
    · unfold normalizeOp opTriple
      simp only [he, if_false, Nat.or_zero, Nat.shiftLeft_eq]

end UVerif.Cfloat
