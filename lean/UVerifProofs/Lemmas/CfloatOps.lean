import Mathlib.Tactic.Ring
import Mathlib.Tactic.Linarith
import Mathlib.Tactic.FieldSimp
import Mathlib.Tactic.ByContra
import Mathlib.Algebra.Order.Field.Power
import Mathlib.Data.Rat.Floor
import UVerifProofs.Lemmas.CfloatOperand
import UVerifProofs.Lemmas.CfloatSubCore
import UVerifProofs.Lemmas.CfloatMaster
open UVerif UVerif.Cfloat

/-!
  The blocktriple stage of the four operators on normalised significants A, B ∈ [2^fb, 2^(fb+1)) with arbitrary
  integer scales (so: normal, supernormal and subnormal operands alike): the triple it delivers "rounds like" the
  exact result at every position convert can round at.
-/
namespace UVerif.Cfloat

/-- the blocktriple stage delivered the exact result v: the default (zero) triple when v = 0, otherwise the sign of
    v, and a scale and normalised significant that round like |v| at every position ≥ the target lsb -/
def TripleFor (fb : Nat) (o : Op) (t : Triple) (v : ℚ) : Prop :=
  (v = 0 ∧ t = {}) ∨
  (v ≠ 0 ∧ t.nan = false ∧ t.inf = false ∧ t.zero = false ∧ t.sign = decide (v < 0) ∧ 2 ^ (o.radix fb) ≤ t.sig ∧
     RoundsLike fb (o.radix fb) t.scale t.sig (absR v))

theorem absR_pos_mul (s : Bool) (X : ℚ) (hX : 0 < X) :
    absR ((if s = true then (-1 : ℚ) else 1) * X) = X ∧ decide ((if s = true then (-1 : ℚ) else 1) * X < 0) = s ∧
    (if s = true then (-1 : ℚ) else 1) * X ≠ 0 := by
  unfold absR
  cases s
  · simp only [Bool.false_eq_true, if_false, one_mul]
    refine ⟨by rw [if_neg (by linarith)], by simp [le_of_lt hX], ne_of_gt hX⟩
  · simp only [if_true]
    refine ⟨by rw [if_pos (by linarith)]; ring, by simp [hX], by linarith⟩

/-- a renormalised difference: m = stickyShr N d is the sticky image of the exact magnitude N / 2^d; either at most
    one leading bit cancelled or nothing was shifted out -/
theorem diff_tail (fb : Nat) (sg : Bool) (sc : Int) (N d : Nat)
    (hm0 : 0 < stickyShr N d) (hm4 : stickyShr N d < 2 ^ (fb + 4))
    (hex : 2 ^ (fb + 2) ≤ stickyShr N d ∨ N % 2 ^ d = 0) :
    (normAdd fb sg sc (stickyShr N d)).nan = false ∧ (normAdd fb sg sc (stickyShr N d)).inf = false ∧
    (normAdd fb sg sc (stickyShr N d)).zero = false ∧ (normAdd fb sg sc (stickyShr N d)).sign = sg ∧
    2 ^ (fb + 3) ≤ (normAdd fb sg sc (stickyShr N d)).sig ∧
    RoundsLike fb (fb + 3) (normAdd fb sg sc (stickyShr N d)).scale (normAdd fb sg sc (stickyShr N d)).sig
      ((N : ℚ) / ((2 ^ d : Nat) : ℚ) * pow2 (sc - ((fb + 3 : Nat) : Int))) := by
  obtain ⟨hshape, s1, s2, l1, l2, l3⟩ := normAdd_shape fb sg sc (stickyShr N d) hm0 hm4
  rw [hshape]
  simp only []
  refine ⟨trivial, trivial, trivial, trivial, s1, ?_⟩
  generalize hm : stickyShr N d = m at *
  generalize hsh : fb + 3 - Nat.log2 m = sh at *
  have hD : (0 : ℚ) < ((2 ^ d : Nat) : ℚ) := by exact_mod_cast two_pow_pos d
  have hS : (0 : ℚ) < ((2 ^ sh : Nat) : ℚ) := by exact_mod_cast two_pow_pos sh
  -- the exact value in units 2^(sc − sh − radix)
  have hval : (N : ℚ) / ((2 ^ d : Nat) : ℚ) * pow2 (sc - ((fb + 3 : Nat) : Int))
      = ((N : ℚ) / ((2 ^ d : Nat) : ℚ) * ((2 ^ sh : Nat) : ℚ)) * pow2 (sc - (sh : Int) - ((fb + 3 : Nat) : Int)) := by
    have : pow2 (sc - (sh : Int) - ((fb + 3 : Nat) : Int)) = pow2 (sc - ((fb + 3 : Nat) : Int)) / ((2 ^ sh : Nat) : ℚ) := by
      rw [← pow2_natCast, ← pow2_sub]; congr 1; ring
    rw [this]; field_simp
  rw [hval]
  rcases hex with hbig | hexact
  · -- at most one bit cancelled: the sticky image, shifted by ≤ 1
    have hlog : fb + 2 ≤ Nat.log2 m := by
      by_contra hc
      have : 2 ^ (Nat.log2 m + 1) ≤ 2 ^ (fb + 2) := Nat.pow_le_pow_right (by omega) (by omega)
      omega
    have hss := sameSide_shift m ((N : ℚ) / ((2 ^ d : Nat) : ℚ)) 1 sh (by rw [← hm]; exact sameSide_sticky N d)
    exact roundsLike_of_sameSide fb (fb + 3) (sc - (sh : Int)) (m * 2 ^ sh) _ (1 + sh) s1 hss (by omega)
  · -- nothing shifted out: exact
    have hmq : (m : ℚ) = (N : ℚ) / ((2 ^ d : Nat) : ℚ) := by
      rw [← hm, stickyShr_exact N d hexact]
      obtain ⟨k, hk⟩ : 2 ^ d ∣ N := Nat.dvd_of_mod_eq_zero hexact
      rw [hk, Nat.mul_div_cancel_left _ (two_pow_pos d)]
      push_cast
      have : (0 : ℚ) < (2 : ℚ) ^ d := by positivity
      field_simp
    have hy : (N : ℚ) / ((2 ^ d : Nat) : ℚ) * ((2 ^ sh : Nat) : ℚ) = ((m * 2 ^ sh : Nat) : ℚ) := by
      rw [← hmq]; push_cast; ring
    rw [hy]
    exact roundsLike_of_sameSide fb (fb + 3) (sc - (sh : Int)) (m * 2 ^ sh) _ 0 s1 (sameSide_exact _ 0) (by omega)

end UVerif.Cfloat

namespace UVerif.Cfloat

/-- **opposite signs**: H (sign sH, scale sc) stays unshifted, L (sign ¬sH, scale sc − dd) is aligned with a sticky
    bit; exact cancellation gives the zero triple, otherwise the renormalised difference rounds like the exact one -/
theorem opp_tail (fb : Nat) (sH : Bool) (sc : Int) (H L dd : Nat)
    (hH1 : 2 ^ fb ≤ H) (hH2 : H < 2 ^ (fb + 1)) (hL1 : 2 ^ fb ≤ L) (hL2 : L < 2 ^ (fb + 1)) :
    TripleFor fb .add
      (if H * 8 = stickyShr (L * 8) dd then ({} : Triple)
       else normAdd fb (if stickyShr (L * 8) dd < H * 8 then sH else !sH) sc
          (if stickyShr (L * 8) dd < H * 8 then H * 8 - stickyShr (L * 8) dd else stickyShr (L * 8) dd - H * 8))
      ((if sH = true then (-1 : ℚ) else 1) * ((H : ℚ) * pow2 (sc - (fb : Int)) - (L : ℚ) * pow2 (sc - (dd : Int) - (fb : Int)))) := by
  have hF := two_pow_pos fb
  have p1 : 2 ^ (fb + 1) = 2 ^ fb * 2 := by rw [Nat.pow_add]
  have p2 : 2 ^ (fb + 2) = 2 ^ fb * 4 := by rw [Nat.pow_add]
  have p3 : 2 ^ (fb + 3) = 2 ^ fb * 8 := by rw [Nat.pow_add]
  have p4 : 2 ^ (fb + 4) = 2 ^ fb * 16 := by rw [Nat.pow_add]
  obtain ⟨A8, hA8⟩ : ∃ A8, A8 = H * 8 := ⟨_, rfl⟩
  obtain ⟨B8, hB8⟩ : ∃ B8, B8 = L * 8 := ⟨_, rfl⟩
  rw [← hA8, ← hB8]
  have hD := two_pow_pos dd
  have hAe : A8 % 2 = 0 := by omega
  have hrs_lt : stickyShr B8 dd < 2 ^ (fb + 4) := by
    have he : 2 ^ (fb + 4) % 2 = 0 := by rw [p4]; omega
    rw [(sticky_side B8 dd _ he).1]
    have : 2 ^ (fb + 4) * 1 ≤ 2 ^ (fb + 4) * 2 ^ dd := Nat.mul_le_mul_left _ hD
    omega
  have hrs_pos : 0 < stickyShr B8 dd := stickyShr_pos _ _ (by omega)
  obtain ⟨ss1, ss2⟩ := sticky_side B8 dd A8 hAe
  obtain ⟨P, hP⟩ : ∃ P : ℚ, P = pow2 (sc - ((fb + 3 : Nat) : Int)) := ⟨_, rfl⟩
  have hPpos : 0 < P := by rw [hP]; exact pow2_pos _
  have hDq : (0 : ℚ) < ((2 ^ dd : Nat) : ℚ) := by exact_mod_cast hD
  have hvH : (H : ℚ) * pow2 (sc - (fb : Int)) = (A8 : ℚ) * P := by
    have : P = pow2 (sc - (fb : Int)) / 8 := by
      rw [hP]; push_cast
      rw [show sc - ((fb : Int) + 3) = sc - (fb : Int) - ((3 : Nat) : Int) by push_cast; ring, pow2_sub, pow2_natCast]; norm_num
    rw [this, hA8]; push_cast; ring
  have hvL : (L : ℚ) * pow2 (sc - (dd : Int) - (fb : Int)) = (B8 : ℚ) / ((2 ^ dd : Nat) : ℚ) * P := by
    have h1 : pow2 (sc - (dd : Int) - (fb : Int)) = pow2 (sc - (fb : Int)) / ((2 ^ dd : Nat) : ℚ) := by
      rw [← pow2_natCast, ← pow2_sub]; congr 1; ring
    have : P = pow2 (sc - (fb : Int)) / 8 := by
      rw [hP]; push_cast
      rw [show sc - ((fb : Int) + 3) = sc - (fb : Int) - ((3 : Nat) : Int) by push_cast; ring, pow2_sub, pow2_natCast]; norm_num
    rw [this, h1, hB8]; push_cast; field_simp
  rw [hvH, hvL]
  have hexact : dd ≤ 3 → B8 % 2 ^ dd = 0 ∧ (A8 * 2 ^ dd) % 2 ^ dd = 0 := by
    intro hd3
    refine ⟨?_, Nat.mul_mod_left _ _⟩
    have : 2 ^ dd ∣ 8 := by
      have : dd = 0 ∨ dd = 1 ∨ dd = 2 ∨ dd = 3 := by omega
      rcases this with h | h | h | h <;> rw [h] <;> decide
    rw [hB8]
    exact Nat.mod_eq_zero_of_dvd (Dvd.dvd.mul_left this _)
  have hsmall : 2 ≤ dd → stickyShr B8 dd < 2 ^ (fb + 2) := by
    intro hd2
    have he : 2 ^ (fb + 2) % 2 = 0 := by rw [p2]; omega
    rw [(sticky_side B8 dd _ he).1]
    have : 2 ^ 2 ≤ 2 ^ dd := Nat.pow_le_pow_right (by omega) hd2
    have : 2 ^ (fb + 2) * 2 ^ 2 ≤ 2 ^ (fb + 2) * 2 ^ dd := Nat.mul_le_mul_left _ this
    rw [p2] at this ⊢
    omega
  have hradix : Op.radix .add fb = fb + 3 := rfl
  rcases Nat.lt_trichotomy (stickyShr B8 dd) A8 with hlt | heq | hgt
  · -- H is larger
    have hne : A8 ≠ stickyShr B8 dd := by omega
    have hBA : B8 < A8 * 2 ^ dd := ss1.mp hlt
    simp only [hne, if_false, hlt, if_true]
    have hmN : A8 - stickyShr B8 dd = stickyShr (A8 * 2 ^ dd - B8) dd := (stickyShr_sub_mul A8 B8 dd hAe (le_of_lt hBA)).symm
    have hex : 2 ^ (fb + 2) ≤ stickyShr (A8 * 2 ^ dd - B8) dd ∨ (A8 * 2 ^ dd - B8) % 2 ^ dd = 0 := by
      by_cases hd3 : dd ≤ 3
      · right
        obtain ⟨h1, h2⟩ := hexact hd3
        exact (Nat.sub_mod_eq_zero_of_mod_eq (by rw [h1, h2]))
      · left
        rw [← hmN]
        have := hsmall (by omega)
        omega
    rw [hmN]
    obtain ⟨t1, t2, t3, t4, t5, t6⟩ := diff_tail fb sH sc (A8 * 2 ^ dd - B8) dd (by rw [← hmN]; omega) (by rw [← hmN]; omega) hex
    have hval : ((A8 * 2 ^ dd - B8 : Nat) : ℚ) / ((2 ^ dd : Nat) : ℚ) * P = (A8 : ℚ) * P - (B8 : ℚ) / ((2 ^ dd : Nat) : ℚ) * P := by
      rw [Nat.cast_sub (le_of_lt hBA)]; push_cast; field_simp
    have hposd : 0 < (A8 : ℚ) * P - (B8 : ℚ) / ((2 ^ dd : Nat) : ℚ) * P := by
      rw [← hval]
      have : (0 : ℚ) < ((A8 * 2 ^ dd - B8 : Nat) : ℚ) := by exact_mod_cast (show 0 < A8 * 2 ^ dd - B8 by omega)
      positivity
    obtain ⟨a1, a2, a3⟩ := absR_pos_mul sH _ hposd
    right
    refine ⟨a3, t1, t2, t3, by rw [t4, a2], by rw [hradix]; exact t5, ?_⟩
    rw [a1, hradix, ← hval, hP]; exact t6
  · -- exact cancellation
    have hAB : B8 = A8 * 2 ^ dd := by
      have a1 : ¬ B8 < A8 * 2 ^ dd := fun h => by have := ss1.mpr h; omega
      have a2 : ¬ A8 * 2 ^ dd < B8 := fun h => by have := ss2.mpr h; omega
      omega
    rw [if_pos heq.symm]
    left
    refine ⟨?_, rfl⟩
    have hz : (B8 : ℚ) / ((2 ^ dd : Nat) : ℚ) * P = (A8 : ℚ) * P := by
      rw [hAB]; push_cast; field_simp
    rw [hz]; ring
  · -- L is larger (only for shift distances ≤ 1)
    have hne : A8 ≠ stickyShr B8 dd := by omega
    have hnlt : ¬ stickyShr B8 dd < A8 := by omega
    have hAB : A8 * 2 ^ dd < B8 := ss2.mp hgt
    have hd1 : dd ≤ 1 := by
      by_contra hc
      have := hsmall (by omega)
      omega
    simp only [hne, if_false, hnlt]
    have hBsplit : B8 = A8 * 2 ^ dd + (B8 - A8 * 2 ^ dd) := by omega
    have hmN : stickyShr B8 dd - A8 = stickyShr (B8 - A8 * 2 ^ dd) dd := by
      have := stickyShr_add_mul A8 (B8 - A8 * 2 ^ dd) dd hAe
      rw [← hBsplit] at this
      omega
    have hex : 2 ^ (fb + 2) ≤ stickyShr (B8 - A8 * 2 ^ dd) dd ∨ (B8 - A8 * 2 ^ dd) % 2 ^ dd = 0 := by
      right
      obtain ⟨h1, h2⟩ := hexact (by omega)
      exact (Nat.sub_mod_eq_zero_of_mod_eq (by rw [h1, h2]))
    rw [hmN]
    obtain ⟨t1, t2, t3, t4, t5, t6⟩ := diff_tail fb (!sH) sc (B8 - A8 * 2 ^ dd) dd (by rw [← hmN]; omega) (by rw [← hmN]; omega) hex
    have hval : ((B8 - A8 * 2 ^ dd : Nat) : ℚ) / ((2 ^ dd : Nat) : ℚ) * P = (B8 : ℚ) / ((2 ^ dd : Nat) : ℚ) * P - (A8 : ℚ) * P := by
      rw [Nat.cast_sub (le_of_lt hAB)]; push_cast; field_simp
    have hposd : 0 < (B8 : ℚ) / ((2 ^ dd : Nat) : ℚ) * P - (A8 : ℚ) * P := by
      rw [← hval]
      have : (0 : ℚ) < ((B8 - A8 * 2 ^ dd : Nat) : ℚ) := by exact_mod_cast (show 0 < B8 - A8 * 2 ^ dd by omega)
      positivity
    obtain ⟨a1, a2, a3⟩ := absR_pos_mul (!sH) _ hposd
    have hflip : (if sH = true then (-1 : ℚ) else 1) * ((A8 : ℚ) * P - (B8 : ℚ) / ((2 ^ dd : Nat) : ℚ) * P)
        = (if (!sH) = true then (-1 : ℚ) else 1) * ((B8 : ℚ) / ((2 ^ dd : Nat) : ℚ) * P - (A8 : ℚ) * P) := by
      cases sH <;> simp <;> ring
    rw [hflip]
    right
    refine ⟨a3, t1, t2, t3, by rw [t4, a2], by rw [hradix]; exact t5, ?_⟩
    rw [a1, hradix, ← hval, hP]; exact t6

end UVerif.Cfloat

namespace UVerif.Cfloat

/-- **equal signs**: H (scale sc) unshifted, L (scale sc − dd) aligned with a sticky bit: the sum significant rounds
    like the exact sum -/
theorem same_tail (fb : Nat) (s : Bool) (sc : Int) (H L dd sig : Nat)
    (hsig : sig = H * 8 + stickyShr (L * 8) dd) (hlo : 2 ^ (fb + 3) ≤ sig) (hH : 0 < H) :
    TripleFor fb .add { zero := false, sign := s, scale := sc, sig := sig }
      ((if s = true then (-1 : ℚ) else 1) * ((H : ℚ) * pow2 (sc - (fb : Int)) + (L : ℚ) * pow2 (sc - (dd : Int) - (fb : Int)))) := by
  have hD := two_pow_pos dd
  have hDq : (0 : ℚ) < ((2 ^ dd : Nat) : ℚ) := by exact_mod_cast hD
  obtain ⟨P, hP⟩ : ∃ P : ℚ, P = pow2 (sc - ((fb + 3 : Nat) : Int)) := ⟨_, rfl⟩
  have hPpos : 0 < P := by rw [hP]; exact pow2_pos _
  have hP8 : P = pow2 (sc - (fb : Int)) / 8 := by
    rw [hP]; push_cast
    rw [show sc - ((fb : Int) + 3) = sc - (fb : Int) - ((3 : Nat) : Int) by push_cast; ring, pow2_sub, pow2_natCast]; norm_num
  have hvH : (H : ℚ) * pow2 (sc - (fb : Int)) = ((H * 8 : Nat) : ℚ) * P := by
    rw [hP8]; push_cast; ring
  have hvL : (L : ℚ) * pow2 (sc - (dd : Int) - (fb : Int)) = ((L * 8 : Nat) : ℚ) / ((2 ^ dd : Nat) : ℚ) * P := by
    have h1 : pow2 (sc - (dd : Int) - (fb : Int)) = pow2 (sc - (fb : Int)) / ((2 ^ dd : Nat) : ℚ) := by
      rw [← pow2_natCast, ← pow2_sub]; congr 1; ring
    rw [hP8, h1]; push_cast; field_simp
  have hN : stickyShr (H * 8 * 2 ^ dd + L * 8) dd = sig := by
    rw [hsig]; exact stickyShr_add_mul (H * 8) (L * 8) dd (by omega)
  have hval : (H : ℚ) * pow2 (sc - (fb : Int)) + (L : ℚ) * pow2 (sc - (dd : Int) - (fb : Int))
      = ((H * 8 * 2 ^ dd + L * 8 : Nat) : ℚ) / ((2 ^ dd : Nat) : ℚ) * P := by
    rw [hvH, hvL]; push_cast; field_simp
  have hpos : 0 < (H : ℚ) * pow2 (sc - (fb : Int)) + (L : ℚ) * pow2 (sc - (dd : Int) - (fb : Int)) := by
    have h1 : (0 : ℚ) < (H : ℚ) := by exact_mod_cast hH
    have h2 := pow2_pos (sc - (fb : Int))
    have h3 := pow2_pos (sc - (dd : Int) - (fb : Int))
    have h4 : (0 : ℚ) ≤ (L : ℚ) := by positivity
    positivity
  obtain ⟨a1, a2, a3⟩ := absR_pos_mul s _ hpos
  have hradix : Op.radix .add fb = fb + 3 := rfl
  right
  refine ⟨a3, rfl, rfl, rfl, by simp only []; rw [a2], by rw [hradix]; exact hlo, ?_⟩
  rw [a1, hradix, hval, hP]
  simp only []
  have hss : SameSide sig (((H * 8 * 2 ^ dd + L * 8 : Nat) : ℚ) / ((2 ^ dd : Nat) : ℚ)) 1 := by
    rw [← hN]; exact sameSide_sticky _ dd
  exact roundsLike_of_sameSide fb (fb + 3) sc sig _ 1 hlo hss (by omega)

/-- **blocktriple::add** on two normalised significants with arbitrary signs and scales -/
theorem tripleAdd_for (fb : Nat) (sA sB : Bool) (scA scB : Int) (A B : Nat)
    (hA1 : 2 ^ fb ≤ A) (hA2 : A < 2 ^ (fb + 1)) (hB1 : 2 ^ fb ≤ B) (hB2 : B < 2 ^ (fb + 1)) :
    TripleFor fb .add
      (tripleAdd fb { zero := false, sign := sA, scale := scA, sig := A <<< 3 } { zero := false, sign := sB, scale := scB, sig := B <<< 3 })
      ((if sA = true then (-1 : ℚ) else 1) * ((A : ℚ) * pow2 (scA - (fb : Int)))
        + (if sB = true then (-1 : ℚ) else 1) * ((B : ℚ) * pow2 (scB - (fb : Int)))) := by
  have hF := two_pow_pos fb
  have p4 : 2 ^ (fb + 4) = 2 ^ fb * 16 := by rw [Nat.pow_add]
  have p1 : 2 ^ (fb + 1) = 2 ^ fb * 2 := by rw [Nat.pow_add]
  have e3 : ∀ x : Nat, x <<< 3 = x * 8 := by intro x; rw [Nat.shiftLeft_eq]
  have stickyLt : ∀ (M d : Nat), M < 2 ^ (fb + 1) → stickyShr (M * 8) d < 2 ^ (fb + 4) := by
    intro M d hM
    have he : 2 ^ (fb + 4) % 2 = 0 := by rw [p4]; omega
    rw [(sticky_side _ _ _ he).1]
    have : 2 ^ (fb + 4) * 1 ≤ 2 ^ (fb + 4) * 2 ^ d := Nat.mul_le_mul_left _ (two_pow_pos _)
    omega
  by_cases hsame : sA = sB
  · subst hsame
    by_cases hd : scB ≤ scA
    · obtain ⟨ht, lo, _⟩ := tripleAdd_same_sign_ge fb sA scA scB A B hA1 hA2 hB1 hB2 hd
      rw [ht]
      have hsc : scB = scA - ((scA - scB).toNat : Int) := by omega
      have := same_tail fb sA scA A B (scA - scB).toNat _ rfl lo (by omega)
      rw [← hsc] at this
      convert this using 1
      ring
    · have hd' : scA < scB := by omega
      obtain ⟨ht, lo, _⟩ := tripleAdd_same_sign_lt fb sA scA scB A B hA1 hA2 hB1 hB2 hd'
      rw [ht]
      have hsc : scA = scB - ((scB - scA).toNat : Int) := by omega
      have := same_tail fb sA scB B A (scB - scA).toNat _ (Nat.add_comm _ _) lo (by omega)
      rw [← hsc] at this
      convert this using 1
      ring
  · have hsg : sA = !sB := by cases sA <;> cases sB <;> simp_all
    by_cases hd : scB ≤ scA
    · -- left operand unshifted
      obtain ⟨U, hU⟩ : ∃ U, U = A * 8 := ⟨_, rfl⟩
      obtain ⟨V, hV⟩ : ∃ V, V = stickyShr (B * 8) (scA - scB).toNat := ⟨_, rfl⟩
      have hVlt : V < 2 ^ (fb + 4) := by rw [hV]; exact stickyLt B _ hB2
      have hVpos : 0 < V := by rw [hV]; exact stickyShr_pos _ _ (by omega)
      have hdn : ¬ (scA - scB < 0) := by omega
      have hta := tripleAdd_opp fb
        { zero := false, sign := sA, scale := scA, sig := A <<< 3 } { zero := false, sign := sB, scale := scB, sig := B <<< 3 }
        hsg U V (by simp only [hdn, if_false, e3]; exact hU) (by simp only [hdn, if_false, e3]; exact hV)
        (by omega) (by omega) hVpos hVlt
      have hmax : max scA scB = scA := max_eq_left hd
      simp only [hmax] at hta
      have hnorm := opp_norm fb scA U V (!sA)
      have hnorm' : (if (if sA = true then V else U) = (if sA = true then U else V) then ({} : Triple)
           else normAdd fb (decide ((if sA = true then V else U) < (if sA = true then U else V))) scA
                  (if (if sA = true then V else U) < (if sA = true then U else V)
                   then (if sA = true then U else V) - (if sA = true then V else U)
                   else (if sA = true then V else U) - (if sA = true then U else V)))
          = (if U = V then ({} : Triple) else normAdd fb (if V < U then sA else !sA) scA (if V < U then U - V else V - U)) := by
        cases hs : sA <;> simp only [hs, Bool.not_false, Bool.not_true, if_true, if_false, Bool.false_eq_true] at hnorm ⊢ <;> exact hnorm
      rw [hnorm'] at hta
      rw [hta, hU, hV]
      have hsc : scB = scA - ((scA - scB).toNat : Int) := by omega
      have := opp_tail fb sA scA A B (scA - scB).toNat hA1 hA2 hB1 hB2
      rw [← hsc] at this
      convert this using 1
      rw [hsg]; cases sB <;> simp <;> ring
    · -- right operand unshifted
      have hd' : scA < scB := by omega
      obtain ⟨U, hU⟩ : ∃ U, U = B * 8 := ⟨_, rfl⟩
      obtain ⟨V, hV⟩ : ∃ V, V = stickyShr (A * 8) (scB - scA).toNat := ⟨_, rfl⟩
      have hVlt : V < 2 ^ (fb + 4) := by rw [hV]; exact stickyLt A _ hA2
      have hVpos : 0 < V := by rw [hV]; exact stickyShr_pos _ _ (by omega)
      have hdn : scA - scB < 0 := by omega
      have hdI : (-(scA - scB)).toNat = (scB - scA).toNat := by congr 1; ring
      have hta := tripleAdd_opp fb
        { zero := false, sign := sA, scale := scA, sig := A <<< 3 } { zero := false, sign := sB, scale := scB, sig := B <<< 3 }
        hsg V U (by simp only [hdn, if_true, e3, hdI]; exact hV) (by simp only [hdn, if_true, e3]; exact hU)
        hVpos hVlt (by omega) (by omega)
      have hmax : max scA scB = scB := max_eq_right (le_of_lt hd')
      simp only [hmax] at hta
      have hnorm := opp_norm fb scB U V sA
      have hnorm' : (if (if sA = true then U else V) = (if sA = true then V else U) then ({} : Triple)
           else normAdd fb (decide ((if sA = true then U else V) < (if sA = true then V else U))) scB
                  (if (if sA = true then U else V) < (if sA = true then V else U)
                   then (if sA = true then V else U) - (if sA = true then U else V)
                   else (if sA = true then U else V) - (if sA = true then V else U)))
          = (if U = V then ({} : Triple) else normAdd fb (if V < U then sB else !sB) scB (if V < U then U - V else V - U)) := by
        rw [hsg] at hnorm ⊢
        cases hs : sB <;> simp only [hs, Bool.not_false, Bool.not_true, if_true, if_false, Bool.false_eq_true] at hnorm ⊢ <;> exact hnorm
      rw [hnorm'] at hta
      rw [hta, hU, hV]
      have hsc : scA = scB - ((scB - scA).toNat : Int) := by omega
      have := opp_tail fb sB scB B A (scB - scA).toNat hB1 hB2 hA1 hA2
      rw [← hsc] at this
      convert this using 1
      rw [hsg]; cases sB <;> simp <;> ring

end UVerif.Cfloat

namespace UVerif.Cfloat

/-- **blocktriple::mul** on two normalised significants: the exact product -/
theorem tripleMul_for (fb : Nat) (hfb : 1 ≤ fb) (sA sB : Bool) (scA scB : Int) (A B : Nat)
    (hA1 : 2 ^ fb ≤ A) (hA2 : A < 2 ^ (fb + 1)) (hB1 : 2 ^ fb ≤ B) (hB2 : B < 2 ^ (fb + 1)) :
    TripleFor fb .mul
      (tripleMul fb { zero := false, sign := sA, scale := scA, sig := A } { zero := false, sign := sB, scale := scB, sig := B })
      ((if (sA != sB) = true then (-1 : ℚ) else 1) * (((A : ℚ) * pow2 (scA - (fb : Int))) * ((B : ℚ) * pow2 (scB - (fb : Int))))) := by
  have p1 : 2 ^ (fb + 1) = 2 ^ fb * 2 := by rw [Nat.pow_add]
  obtain ⟨tm, plo, _⟩ := tripleMul_normal fb sA sB scA scB (A - 2 ^ fb) (B - 2 ^ fb) (by omega) (by omega)
  have eA : 2 ^ fb + (A - 2 ^ fb) = A := by omega
  have eB : 2 ^ fb + (B - 2 ^ fb) = B := by omega
  rw [eA, eB] at tm plo
  rw [tm]
  have hradix : Op.radix .mul fb = 2 * fb := rfl
  have hApos : (0 : ℚ) < (A : ℚ) := by exact_mod_cast (show 0 < A by have := two_pow_pos fb; omega)
  have hBpos : (0 : ℚ) < (B : ℚ) := by exact_mod_cast (show 0 < B by have := two_pow_pos fb; omega)
  have hpos : 0 < ((A : ℚ) * pow2 (scA - (fb : Int))) * ((B : ℚ) * pow2 (scB - (fb : Int))) := by
    have := pow2_pos (scA - (fb : Int)); have := pow2_pos (scB - (fb : Int)); positivity
  obtain ⟨a1, a2, a3⟩ := absR_pos_mul (sA != sB) _ hpos
  right
  refine ⟨a3, rfl, rfl, rfl, by simp only []; rw [a2], by rw [hradix]; exact plo, ?_⟩
  rw [a1, hradix]
  simp only []
  have hval : ((A : ℚ) * pow2 (scA - (fb : Int))) * ((B : ℚ) * pow2 (scB - (fb : Int)))
      = ((A * B : Nat) : ℚ) * pow2 (scA + scB - ((2 * fb : Nat) : Int)) := by
    have : pow2 (scA + scB - ((2 * fb : Nat) : Int)) = pow2 (scA - (fb : Int)) * pow2 (scB - (fb : Int)) := by
      rw [← pow2_add]; congr 1; push_cast; ring
    rw [this]; push_cast; ring
  rw [hval]
  exact roundsLike_of_sameSide fb (2 * fb) (scA + scB) (A * B) _ 0 plo (sameSide_exact _ 0) (by omega)

/-- **blocktriple::div** on two normalised significants: the restoring quotient, whose low fb bits are computed with
    truncated dividers, rounds like the exact quotient at every position ≥ 2fb + 3 -/
theorem tripleDiv_for (fb : Nat) (hfb : 1 ≤ fb) (sA sB : Bool) (scA scB : Int) (A B : Nat)
    (hA1 : 2 ^ fb ≤ A) (hA2 : A < 2 ^ (fb + 1)) (hB1 : 2 ^ fb ≤ B) (hB2 : B < 2 ^ (fb + 1)) :
    TripleFor fb .div
      (tripleDiv fb { zero := false, sign := sA, scale := scA, sig := A * 2 ^ (2 * fb + 4) }
                    { zero := false, sign := sB, scale := scB, sig := B * 2 ^ (2 * fb + 4) })
      ((if (sA != sB) = true then (-1 : ℚ) else 1) * (((A : ℚ) * pow2 (scA - (fb : Int))) / ((B : ℚ) * pow2 (scB - (fb : Int))))) := by
  obtain ⟨q, sh, hsh, htd, slo, shi, d1, d2, d3⟩ := tripleDiv_normal fb hfb sA sB scA scB A B hA1 hA2 hB1 hB2
  rw [htd]
  have hF := two_pow_pos fb
  have hBpos : 0 < B := by omega
  have hradix : Op.radix .div fb = 3 * fb + 4 := rfl
  have hApos : (0 : ℚ) < (A : ℚ) := by exact_mod_cast (show 0 < A by omega)
  have hBq : (0 : ℚ) < (B : ℚ) := by exact_mod_cast hBpos
  have hpa := pow2_pos (scA - (fb : Int))
  have hpb := pow2_pos (scB - (fb : Int))
  have hpos : 0 < ((A : ℚ) * pow2 (scA - (fb : Int))) / ((B : ℚ) * pow2 (scB - (fb : Int))) := by positivity
  obtain ⟨a1, a2, a3⟩ := absR_pos_mul (sA != sB) _ hpos
  right
  refine ⟨a3, rfl, rfl, rfl, by simp only []; rw [a2], by rw [hradix]; exact slo, ?_⟩
  rw [a1, hradix]
  simp only []
  -- the exact quotient in units 2^(sc − sh − radix)
  obtain ⟨y, hy⟩ : ∃ y : ℚ, y = ((A * 2 ^ (3 * fb + 4) : Nat) : ℚ) / (B : ℚ) := ⟨_, rfl⟩
  have hside : SameSide q y (2 * fb + 2) := by
    intro e
    obtain ⟨s1, s2⟩ := div_side fb A B q e hB1 hB2 d1 d2 d3
    constructor
    · rw [s1, hy, div_lt_iff₀ hBq]; exact_mod_cast Iff.rfl
    · rw [s2, hy, lt_div_iff₀ hBq]; exact_mod_cast Iff.rfl
  have hss := sameSide_shift q y (2 * fb + 2) sh hside
  have hS : (0 : ℚ) < ((2 ^ sh : Nat) : ℚ) := by exact_mod_cast two_pow_pos sh
  have hval : ((A : ℚ) * pow2 (scA - (fb : Int))) / ((B : ℚ) * pow2 (scB - (fb : Int)))
      = (y * ((2 ^ sh : Nat) : ℚ)) * pow2 (scA - scB - (sh : Int) - ((3 * fb + 4 : Nat) : Int)) := by
    have h1 : pow2 (scA - scB - (sh : Int) - ((3 * fb + 4 : Nat) : Int))
        = pow2 (scA - (fb : Int)) / pow2 (scB - (fb : Int)) / ((2 ^ sh : Nat) : ℚ) / ((2 ^ (3 * fb + 4) : Nat) : ℚ) := by
      rw [← pow2_natCast, ← pow2_natCast, ← pow2_sub, ← pow2_sub, ← pow2_sub]; congr 1; ring
    have hpw : (0 : ℚ) < ((2 ^ (3 * fb + 4) : Nat) : ℚ) := by exact_mod_cast two_pow_pos _
    rw [h1, hy]; push_cast
    have : (0 : ℚ) < (2 : ℚ) ^ (3 * fb + 4) := by positivity
    have : (0 : ℚ) < (2 : ℚ) ^ sh := by positivity
    field_simp
  rw [hval]
  exact roundsLike_of_sameSide fb (3 * fb + 4) (scA - scB - (sh : Int)) (q * 2 ^ sh) _ (2 * fb + 2 + sh) slo hss (by omega)

end UVerif.Cfloat
