import Mathlib.Tactic.Ring
import Mathlib.Tactic.Linarith
import Mathlib.Tactic.FieldSimp
import Mathlib.Algebra.Order.Field.Power
import Mathlib.Data.Rat.Floor
import UVerifProofs.Lemmas.CfloatConvert
open UVerif UVerif.Cfloat

namespace UVerif.Cfloat

theorem maxExp_eq (c : Cfg) (hes2 : 2 ≤ c.es) : c.maxExp = (c.emax : Int) - c.bias := by
  unfold Cfg.maxExp Cfg.emax
  rw [if_neg (by omega)]
  have := two_pow_pos c.es
  omega

/-- shape of the largest finite value: (2 − k/2^fbits) · 2^T with k ∈ {1, 3} and T the top finite binade -/
theorem maxFinite_shape (c : Cfg) (hv : c.valid = true) (hes2 : 2 ≤ c.es) :
    ∃ (T : Int) (k : ℚ), maxFinite c = (2 - k / ((2 ^ c.fbits : Nat) : ℚ)) * pow2 T ∧ 1 ≤ k ∧ k ≤ ((2 ^ c.fbits : Nat) : ℚ) ∧
      T ≤ c.maxExp ∧ 1 - c.bias ≤ T := by
  obtain ⟨_, hfb, _, _⟩ := valid_facts c hv
  have hF : (0 : ℚ) < ((2 ^ c.fbits : Nat) : ℚ) := by exact_mod_cast two_pow_pos c.fbits
  have hb0 := bias_nonneg c
  have hE4 : 4 ≤ 2 ^ c.es := by
    calc 4 = 2 ^ 2 := rfl
      _ ≤ 2 ^ c.es := Nat.pow_le_pow_right (by omega) hes2
  have hem : (c.emax : Int) = ((2 ^ c.es : Nat) : Int) - 1 := by unfold Cfg.emax; omega
  have hme := maxExp_eq c hes2
  have h4 : (4 : Int) ≤ ((2 ^ c.es : Nat) : Int) := by exact_mod_cast hE4
  unfold maxFinite
  simp only []
  by_cases h1 : c.sup = true ∧ 2 ^ c.fbits ≥ 3
  · rw [if_pos h1]
    refine ⟨(c.emax : Int) - c.bias, 3, ?_, by norm_num, ?_, by omega, by omega⟩
    · have : ((2 ^ c.fbits - 3 : Nat) : ℚ) = ((2 ^ c.fbits : Nat) : ℚ) - 3 := by
        rw [Nat.cast_sub h1.2]; norm_num
      rw [this]; field_simp; ring
    · exact_mod_cast h1.2
  · rw [if_neg h1]
    have h2 : c.emax ≥ 2 := by unfold Cfg.emax; omega
    rw [if_pos h2]
    refine ⟨(c.emax : Int) - 1 - c.bias, 1, ?_, le_refl 1, ?_, by omega, by omega⟩
    · have h1' : 1 ≤ 2 ^ c.fbits := two_pow_pos _
      have : ((2 ^ c.fbits - 1 : Nat) : ℚ) = ((2 ^ c.fbits : Nat) : ℚ) - 1 := by
        rw [Nat.cast_sub h1']; norm_num
      rw [this]; field_simp; ring
    · exact_mod_cast two_pow_pos c.fbits

/-- everything at or above 2^(MAX_EXP+1) overflows (es ≥ 2) -/
theorem overflows_of_ge (c : Cfg) (hv : c.valid = true) (hes2 : 2 ≤ c.es) (X : ℚ) (hX : pow2 (c.maxExp + 1) ≤ X) :
    overflows c X = true := by
  obtain ⟨T, k, hM, hk1, hk2, hT1, hT2⟩ := maxFinite_shape c hv hes2
  have hF : (0 : ℚ) < ((2 ^ c.fbits : Nat) : ℚ) := by exact_mod_cast two_pow_pos c.fbits
  have hpT := pow2_pos T
  have hkf : k / ((2 ^ c.fbits : Nat) : ℚ) ≤ 1 := by rw [div_le_one hF]; exact hk2
  have hkf0 : 0 < k / ((2 ^ c.fbits : Nat) : ℚ) := by positivity
  have hMlo : pow2 T ≤ maxFinite c := by rw [hM]; nlinarith
  have hMhi : maxFinite c < pow2 (T + 1) := by rw [hM, pow2_succ]; nlinarith
  have hfl : floorLog2 (maxFinite c) = T := floorLog2_eq _ T hMlo hMhi
  have hu : ulpAt c (maxFinite c) = pow2 (T - (c.fbits : Int)) := by
    unfold ulpAt; simp only [hfl]; rw [if_neg (by omega)]
  have hpu : pow2 (T - (c.fbits : Int)) = pow2 T / ((2 ^ c.fbits : Nat) : ℚ) := by rw [pow2_sub, pow2_natCast]
  have hsum : maxFinite c + ulpAt c (maxFinite c) / 2 < pow2 (T + 1) := by
    rw [hu, hpu, hM, pow2_succ]
    have : (2 - k / ((2 ^ c.fbits : Nat) : ℚ)) * pow2 T + pow2 T / ((2 ^ c.fbits : Nat) : ℚ) / 2
        = (2 - (k - 1/2) / ((2 ^ c.fbits : Nat) : ℚ)) * pow2 T := by field_simp; ring
    rw [this]
    have : 0 < (k - 1/2) / ((2 ^ c.fbits : Nat) : ℚ) := by apply div_pos _ hF; linarith
    nlinarith
  have hle : pow2 (T + 1) ≤ pow2 (c.maxExp + 1) := pow2_le_pow2.mpr (by omega)
  unfold overflows
  simp only []
  have : X > maxFinite c + ulpAt c (maxFinite c) / 2 := by linarith
  simp [this]

end UVerif.Cfloat

namespace UVerif.Cfloat

/-- maxpos()/maxneg() without supernormals denote ± the largest finite value (es ≥ 2) -/
theorem cfVal_maxpos_nosup (c : Cfg) (hv : c.valid = true) (hes2 : 2 ≤ c.es) (hsup : c.sup = false) (s : Bool) :
    (if s then maxnegEnc c else maxposEnc c) < 2 ^ c.nbits ∧
    cfVal c (if s then maxnegEnc c else maxposEnc c) = .fin s (maxFinite c) := by
  obtain ⟨_, hfb, h3, h4⟩ := valid_facts c hv
  have hF := two_pow_pos c.fbits
  have hE4 : 4 ≤ 2 ^ c.es := by
    calc 4 = 2 ^ 2 := rfl
      _ ≤ 2 ^ c.es := Nat.pow_le_pow_right (by omega) hes2
  have hem : c.emax = 2 ^ c.es - 1 := rfl
  have hcomp : (if s then maxnegEnc c else maxposEnc c) = (2 ^ c.fbits - 1) + 2 ^ c.fbits * (c.emax - 1) + signBit c s := by
    have hmp : maxposEnc c = (2 ^ c.fbits - 1) + 2 ^ c.fbits * (c.emax - 1) := by
      unfold maxposEnc
      simp only [hsup, Bool.false_eq_true, if_false, ite_self]
      rw [h4, Nat.add_comm c.es, Nat.pow_add, hem]
      have : 2 ^ c.fbits * (2 ^ c.es - 1 - 1) = 2 ^ c.fbits * 2 ^ c.es - 2 * 2 ^ c.fbits := by
        rw [Nat.sub_sub, Nat.mul_sub]; ring_nf
      rw [this]
      have : 2 * 2 ^ c.fbits ≤ 2 ^ c.fbits * 2 ^ c.es := by
        calc 2 * 2 ^ c.fbits ≤ 2 ^ c.es * 2 ^ c.fbits := Nat.mul_le_mul_right _ (by omega)
          _ = 2 ^ c.fbits * 2 ^ c.es := Nat.mul_comm _ _
      omega
    cases s
    · simp only [Bool.false_eq_true, if_false]; rw [hmp]; unfold signBit; simp
    · simp only [if_true]; unfold maxnegEnc Cfg.signMask signBit; rw [hmp]; simp
  rw [hcomp]
  have hlt : 2 ^ c.fbits - 1 < 2 ^ c.fbits := by omega
  have he1 : 1 ≤ c.emax - 1 := by omega
  have he2 : c.emax - 1 < c.emax := by omega
  refine ⟨(fields_of_compose c hv s (c.emax - 1) _ (by omega) hlt).1, ?_⟩
  rw [cfVal_compose_normal c hv s (c.emax - 1) _ he1 he2 hlt]
  congr 1
  unfold maxFinite
  simp only [hsup, Bool.false_eq_true, false_and, if_false]
  have h2 : c.emax ≥ 2 := by omega
  rw [if_pos h2]
  congr 2
  rw [Nat.cast_sub (by omega)]; push_cast; ring

/-- **overflow**: a result whose exponent exceeds MAX_EXP becomes ±infinity in non-saturating configurations and
    ±maxFinite in saturating configurations without supernormals (es ≥ 2; both paths of convert) -/
theorem convert_overflow (c : Cfg) (hv : c.valid = true) (hes2 : 2 ≤ c.es) (hcfg : c.sat = false ∨ c.sup = false)
    (o : Op) (sign : Bool) (scale : Int) (sig : Nat)
    (hsig : 2 ^ (o.radix c.fbits) ≤ sig)
    (hhi : c.maxExp < scale + sigScale (o.radix c.fbits) sig) :
    convertFinite c o sign scale sig < 2 ^ c.nbits ∧
    nearestNZ c ((if sign then -1 else 1) * ((sig : ℚ) * pow2 (scale - (o.radix c.fbits : Int))))
      (convertFinite c o sign scale sig) = true := by
  have hb0 := bias_nonneg c
  have hme := maxExp_eq c hes2
  have hE := emax_pos c hv
  obtain ⟨m1, _⟩ := sigScale_spec (o.radix c.fbits) sig hsig
  generalize hss : sigScale (o.radix c.fbits) sig = ss at *
  generalize hradix : o.radix c.fbits = radix at *
  have hmn : c.minExpNormal = 1 - c.bias := rfl
  have hms : c.minExpSubnormal = 1 - c.bias - (c.fbits : Int) := rfl
  have e1 : ¬ (scale + (ss : Int) < c.minExpSubnormal) := by omega
  have e2 : ¬ (scale + (ss : Int) + c.bias ≤ 0) := by omega
  have hconv : convertFinite c o sign scale sig =
      (if c.sat then (if sign then maxnegEnc c else maxposEnc c) else setInf c sign) := by
    unfold convertFinite
    simp only [hss, hradix, e1, e2, and_false, if_false, gt_iff_lt, hhi, if_true]
  rw [hconv]
  -- the exact value overflows
  set X : ℚ := (sig : ℚ) * pow2 (scale - (radix : Int)) with hX
  have hpr := pow2_pos (scale - (radix : Int))
  have hXlo : pow2 (c.maxExp + 1) ≤ X := by
    have h1 : pow2 (scale + (ss : Int)) = ((2 ^ (ss + radix) : Nat) : ℚ) * pow2 (scale - (radix : Int)) := by
      rw [← pow2_natCast, ← pow2_add]; congr 1; push_cast; omega
    have h2 : pow2 (scale + (ss : Int)) ≤ X := by
      rw [h1, hX]
      apply mul_le_mul_of_nonneg_right _ (le_of_lt hpr)
      exact_mod_cast m1
    exact le_trans (pow2_le_pow2.mpr (by omega)) h2
  have hXpos : 0 < X := lt_of_lt_of_le (pow2_pos _) hXlo
  have hov := overflows_of_ge c hv hes2 X hXlo
  have hneg : decide ((if sign = true then (-1 : ℚ) else 1) * X < 0) = sign := by
    cases sign <;> simp [hXpos, le_of_lt hXpos]
  have hX' : (if sign = true then -((if sign = true then (-1 : ℚ) else 1) * X) else (if sign = true then (-1 : ℚ) else 1) * X) = X := by
    cases sign <;> simp
  cases hsat : c.sat
  · -- non-saturating: ±inf
    simp only [Bool.false_eq_true, if_false]
    have sf := setInf_facts c hv sign
    refine ⟨sf.1, ?_⟩
    have hv' : cfVal c (setInf c sign) = .inf sign := by
      rw [(cfVal_isInf c hv _).mp sf.2.1, sf.2.2]
    unfold nearestNZ
    simp only [hneg, hv', hX', hov, hsat]
    simp
  · -- saturating without supernormals: ±maxFinite
    have hsup : c.sup = false := by
      rcases hcfg with h | h
      · rw [h] at hsat; cases hsat
      · exact h
    simp only [if_true]
    obtain ⟨hr, hvm⟩ := cfVal_maxpos_nosup c hv hes2 hsup sign
    refine ⟨hr, ?_⟩
    have hminN : ¬ (X < minNormal c) := by
      unfold minNormal
      have : pow2 (1 - c.bias) ≤ pow2 (c.maxExp + 1) := pow2_le_pow2.mpr (by omega)
      exact not_lt.mpr (le_trans this hXlo)
    unfold nearestNZ
    simp only [hneg, hvm, hX', hov, hsat, hminN]
    simp

end UVerif.Cfloat
