import UVerif.Model.Cfloat
open UVerif UVerif.Cfloat

namespace UVerif.Cfloat

theorem testBit_as_div (x i : Nat) : x.testBit i = decide (x / 2 ^ i % 2 = 1) := by
  rw [Nat.testBit_eq_decide_div_mod_eq]

/-- guard/round/sticky decision of `blocksignificant::roundingDirection` in arithmetic form:
    with r = sig mod 2^t the discarded part, round up iff r > half, or r = half and the kept part is odd. -/
theorem roundingDirection_eq (sig t : Nat) :
    roundingDirection sig t =
      (decide (2 * (sig % 2 ^ t) > 2 ^ t) || (decide (2 * (sig % 2 ^ t) = 2 ^ t) && decide ((sig >>> t) % 2 = 1))) := by
  unfold roundingDirection
  simp only [testBit_as_div, Nat.shiftRight_eq_div_pow]
  match t with
  | 0 =>
    simp
    omega
  | 1 =>
    have h2 : sig % 2 < 2 := Nat.mod_lt _ (by omega)
    have h3 : sig / 2 ^ (1 - 1) % 2 = sig % 2 := by simp
    simp only [h3]
    rcases Nat.mod_two_eq_zero_or_one sig with h | h <;> rcases Nat.mod_two_eq_zero_or_one (sig / 2 ^ 1) with g | g <;> simp [h, g]
  | k + 2 =>
    have hP : 0 < 2 ^ k := Nat.pos_of_ne_zero (by simp)
    have e2 : 2 ^ (k + 2) = 2 ^ k * 4 := by rw [Nat.pow_add]
    have e1 : 2 ^ (k + 1) = 2 ^ k * 2 := by rw [Nat.pow_add]
    have hs1 : k + 2 - 1 = k + 1 := by omega
    have hs2 : k + 2 - 2 = k := by omega
    simp only [hs1, hs2]
    -- r = sig % 4P, a = r / P, s = r % P
    have ha : sig / 2 ^ k % 4 = sig % 2 ^ (k + 2) / 2 ^ k := by
      rw [e2, Nat.mod_mul_right_div_self]
    have hs : sig % 2 ^ k = sig % 2 ^ (k + 2) % 2 ^ k := by
      rw [e2, Nat.mod_mul_right_mod]
    have hg : sig / 2 ^ (k + 1) % 2 = sig / 2 ^ k % 4 / 2 := by
      rw [e1, ← Nat.div_div_eq_div_mul]; omega
    have hr : sig / 2 ^ k % 2 = sig / 2 ^ k % 4 % 2 := by omega
    have hdm := Nat.div_add_mod (sig % 2 ^ (k + 2)) (2 ^ k)
    have hlt : sig % 2 ^ (k + 2) < 2 ^ k * 4 := by rw [← e2]; exact Nat.mod_lt _ (by rw [e2]; omega)
    have hsl : sig % 2 ^ (k + 2) % 2 ^ k < 2 ^ k := Nat.mod_lt _ hP
    have hk0 : k + 2 ≥ 3 ∨ 2 ^ k = 1 := by
      rcases Nat.eq_zero_or_pos k with rfl | hk
      · right; rfl
      · left; omega
    rw [hg, hr, hs, ha]
    generalize sig % 2 ^ (k + 2) = r at *
    generalize hA : r / 2 ^ k = a at *
    generalize hS : r % 2 ^ k = s at *
    generalize sig / 2 ^ (k + 2) = q at *
    rw [e2]
    generalize 2 ^ k = P at *
    have ha4 : a < 4 := by omega
    have h1 : decide (k + 2 ≥ 1) = true := by simp
    have h2 : decide (k + 2 ≥ 2) = true := by simp
    have h3 : (decide (k + 2 ≥ 3) && s != 0) = decide (s ≠ 0) := by
      rcases hk0 with hk0 | hk0
      · have : decide (k + 2 ≥ 3) = true := by simpa using hk0
        rw [this]; by_cases hz : s = 0 <;> simp [hz]
      · have : s = 0 := by omega
        subst this; simp
    rw [h1, h2, h3]
    have : a = 0 ∨ a = 1 ∨ a = 2 ∨ a = 3 := by omega
    rcases this with rfl | rfl | rfl | rfl <;> rcases Nat.mod_two_eq_zero_or_one q with hq | hq <;>
      by_cases hz : s = 0 <;> simp [hq, hz] <;> omega

/-- shift right by t and add the rounding decision = round-half-even of sig / 2^t (`rneShr` of UVerif.Basic) -/
theorem shift_round_eq_rneShr (sig t : Nat) :
    (sig >>> t) + (if roundingDirection sig t then 1 else 0) = rneShr sig t := by
  rw [roundingDirection_eq]
  unfold rneShr
  simp only []
  have hlt : sig % 2 ^ t < 2 ^ t := Nat.mod_lt _ (Nat.pos_of_ne_zero (by simp))
  generalize sig % 2 ^ t = r at *
  generalize sig >>> t = q at *
  generalize 2 ^ t = h at *
  by_cases h1 : 2 * r < h
  · have : ¬ (2 * r > h) := by omega
    have : ¬ (2 * r = h) := by omega
    simp [*]
  · by_cases h2 : 2 * r > h
    · simp [*]
    · have h3 : 2 * r = h := by omega
      rcases Nat.mod_two_eq_zero_or_one q with hq | hq <;> simp [*]

end UVerif.Cfloat
