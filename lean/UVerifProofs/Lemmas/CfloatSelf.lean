import Mathlib.Tactic.Ring
import Mathlib.Tactic.Linarith
import Mathlib.Tactic.FieldSimp
import Mathlib.Tactic.ByContra
import Mathlib.Algebra.Order.Field.Power
import Mathlib.Data.Rat.Floor
import UVerifProofs.Lemmas.CfloatTop
import UVerifProofs.Lemmas.CfloatOperand
open UVerif UVerif.Cfloat

/-!
  Every finite non-zero encoding is an IEEE rounding of its own value (x + 0, x − 0, 0 + x return an operand
  unchanged).
-/
namespace UVerif.Cfloat

theorem overflows_false_of_le (c : Cfg) (X : ℚ) (h : X ≤ maxFinite c) : overflows c X = false := by
  unfold overflows
  simp only []
  have hu : 0 < ulpAt c (maxFinite c) := by unfold ulpAt; exact pow2_pos _
  have h1 : ¬ (X > maxFinite c + ulpAt c (maxFinite c) / 2) := by
    have : (0 : ℚ) < ulpAt c (maxFinite c) / 2 := by positivity
    linarith
  have h2 : ¬ (X = maxFinite c + ulpAt c (maxFinite c) / 2) := by
    have : (0 : ℚ) < ulpAt c (maxFinite c) / 2 := by positivity
    linarith
  simp [h1, h2]

/-- the value of every finite encoding is at most maxFinite -/
theorem cfVal_le_maxFinite (c : Cfg) (hv : c.valid = true) (hg : Gen c) (b : Nat) (s : Bool) (m : ℚ)
    (hb : cfVal c b = .fin s m) : m ≤ maxFinite c := by
  obtain ⟨_, hfb, _, _⟩ := valid_facts c hv
  have hb0 := bias_nonneg c
  have hFn := two_pow_pos c.fbits
  have hF2n := two_le_pow_fbits c hv
  have hF : (0 : ℚ) < ((2 ^ c.fbits : Nat) : ℚ) := by exact_mod_cast hFn
  have hminle := minNormal_le_maxFinite c hv hg
  have hMpos := maxFinite_pos c hv hg
  have hfl := fracOf_lt c b
  have hflq : (c.fracOf b : ℚ) ≤ ((2 ^ c.fbits : Nat) : ℚ) - 1 := by
    have : c.fracOf b + 1 ≤ 2 ^ c.fbits := by omega
    have : ((c.fracOf b + 1 : Nat) : ℚ) ≤ ((2 ^ c.fbits : Nat) : ℚ) := by exact_mod_cast this
    push_cast at this ⊢; linarith
  have hf0 : (0 : ℚ) ≤ (c.fracOf b : ℚ) := by positivity
  rcases cfVal_cases c b with ⟨_, _, e⟩ | ⟨_, _, _, e⟩ | ⟨he, hf1, hf2, e⟩ | ⟨_, h0, e⟩ | ⟨hne, h0, e⟩
  · rw [e] at hb; cases hb
  · rw [e] at hb; cases hb
  · -- supernormal
    cases hsup : c.sup
    · rw [hsup] at e; rw [e] at hb; cases hb
    · rw [hsup] at e; rw [e] at hb
      simp only [if_true, Val.fin.injEq] at hb
      rw [← hb.2, he]
      have hf3 : c.fracOf b + 3 ≤ 2 ^ c.fbits := by omega
      have hsupF : c.sup = true ∧ 2 ^ c.fbits ≥ 3 := ⟨hsup, by omega⟩
      unfold maxFinite
      simp only []
      rw [if_pos hsupF]
      apply mul_le_mul_of_nonneg_right _ (le_of_lt (pow2_pos _))
      have : ((c.fracOf b : Nat) : ℚ) ≤ ((2 ^ c.fbits - 3 : Nat) : ℚ) := by exact_mod_cast (show c.fracOf b ≤ 2 ^ c.fbits - 3 by omega)
      have h2 := div_le_div_of_nonneg_right this (le_of_lt hF)
      linarith
  · -- exponent field 0
    cases hsub : c.sub
    · rw [hsub] at e; rw [e] at hb
      simp only [Bool.false_eq_true, if_false, Val.fin.injEq] at hb
      rw [← hb.2]; exact le_of_lt hMpos
    · rw [hsub] at e; rw [e] at hb
      simp only [if_true, Val.fin.injEq] at hb
      rw [← hb.2]
      have h1 : (c.fracOf b : ℚ) / ((2 ^ c.fbits : Nat) : ℚ) ≤ 1 := by rw [div_le_one hF]; linarith
      have h3 := pow2_pos (1 - c.bias)
      calc (c.fracOf b : ℚ) / ((2 ^ c.fbits : Nat) : ℚ) * pow2 (1 - c.bias) ≤ 1 * pow2 (1 - c.bias) :=
            mul_le_mul_of_nonneg_right h1 (le_of_lt h3)
        _ = pow2 (1 - c.bias) := one_mul _
        _ ≤ _ := hminle
  · -- normal
    rw [e] at hb
    simp only [Val.fin.injEq] at hb
    rw [← hb.2]
    have hel := expOf_lt c b
    have hes2 : 2 ≤ c.es := by
      rcases gen_cases c hv hg with h2 | ⟨h1, _, _, _, he, _⟩
      · exact h2
      · exfalso; rw [h1] at hel; rw [he] at hne; omega
    have hem3 := emax_ge_three c hes2
    have hele : c.expOf b ≤ c.emax - 1 := by unfold Cfg.emax at hne ⊢; omega
    have h1 : pow2 ((c.expOf b : Int) - c.bias) ≤ pow2 ((c.emax : Int) - 1 - c.bias) := pow2_le_pow2.mpr (by omega)
    have h2 : (1 + (c.fracOf b : ℚ) / ((2 ^ c.fbits : Nat) : ℚ)) ≤ (1 + (((2 ^ c.fbits : Nat) : ℚ) - 1) / ((2 ^ c.fbits : Nat) : ℚ)) := by
      have := div_le_div_of_nonneg_right hflq (le_of_lt hF)
      linarith
    have h3 : (1 + (c.fracOf b : ℚ) / ((2 ^ c.fbits : Nat) : ℚ)) * pow2 ((c.expOf b : Int) - c.bias)
        ≤ (1 + (((2 ^ c.fbits : Nat) : ℚ) - 1) / ((2 ^ c.fbits : Nat) : ℚ)) * pow2 ((c.emax : Int) - 1 - c.bias) := by
      apply mul_le_mul h2 h1 (le_of_lt (pow2_pos _))
      have : (0 : ℚ) ≤ (((2 ^ c.fbits : Nat) : ℚ) - 1) / ((2 ^ c.fbits : Nat) : ℚ) := by
        apply div_nonneg _ (le_of_lt hF)
        have : (1 : ℚ) ≤ ((2 ^ c.fbits : Nat) : ℚ) := by exact_mod_cast hFn
        linarith
      linarith
    refine le_trans h3 ?_
    by_cases hsupF : c.sup = true ∧ 2 ^ c.fbits ≥ 3
    · unfold maxFinite
      simp only []
      rw [if_pos hsupF]
      have hF3 : (3 : ℚ) ≤ ((2 ^ c.fbits : Nat) : ℚ) := by exact_mod_cast hsupF.2
      have e1 : ((2 ^ c.fbits - 3 : Nat) : ℚ) = ((2 ^ c.fbits : Nat) : ℚ) - 3 := by rw [Nat.cast_sub hsupF.2]; norm_num
      have e2 : pow2 ((c.emax : Int) - c.bias) = 2 * pow2 ((c.emax : Int) - 1 - c.bias) := by
        rw [show (c.emax : Int) - c.bias = ((c.emax : Int) - 1 - c.bias) + 1 by ring, pow2_succ]
      rw [e1, e2]
      have hp := pow2_pos ((c.emax : Int) - 1 - c.bias)
      have : (1 + (((2 ^ c.fbits : Nat) : ℚ) - 1) / ((2 ^ c.fbits : Nat) : ℚ)) ≤ (1 + (((2 ^ c.fbits : Nat) : ℚ) - 3) / ((2 ^ c.fbits : Nat) : ℚ)) * 2 := by
        have hx : (((2 ^ c.fbits : Nat) : ℚ) - 1) / ((2 ^ c.fbits : Nat) : ℚ) = 1 - 1 / ((2 ^ c.fbits : Nat) : ℚ) := by field_simp
        have hy : (((2 ^ c.fbits : Nat) : ℚ) - 3) / ((2 ^ c.fbits : Nat) : ℚ) = 1 - 3 * (1 / ((2 ^ c.fbits : Nat) : ℚ)) := by field_simp
        have hz : 1 / ((2 ^ c.fbits : Nat) : ℚ) ≤ 1 / 3 := one_div_le_one_div_of_le (by norm_num) hF3
        rw [hx, hy]; linarith
      calc _ ≤ ((1 + (((2 ^ c.fbits : Nat) : ℚ) - 3) / ((2 ^ c.fbits : Nat) : ℚ)) * 2) * pow2 ((c.emax : Int) - 1 - c.bias) :=
            mul_le_mul_of_nonneg_right this (le_of_lt hp)
        _ = _ := by ring
    · unfold maxFinite
      simp only []
      rw [if_neg hsupF, if_pos (by omega)]
      have e1 : ((2 ^ c.fbits - 1 : Nat) : ℚ) = ((2 ^ c.fbits : Nat) : ℚ) - 1 := by rw [Nat.cast_sub hFn]; norm_num
      rw [e1]

end UVerif.Cfloat

namespace UVerif.Cfloat

/-- a finite non-zero encoding is an IEEE rounding of the value it denotes -/
theorem nearestNZ_self (c : Cfg) (hv : c.valid = true) (hg : Gen c) (b : Nat) (hfin : finiteNZ c b = true) :
    ∃ m : ℚ, 0 < m ∧ cfVal c b = .fin (c.signOf b) m ∧
      nearestNZ c (if c.signOf b = true then -m else m) b = true := by
  obtain ⟨hn, hi, hz, hM1, hM2, hval, _, _, _⟩ := operand_facts c hv b hfin
  have hb0 := bias_nonneg c
  have hFn := two_pow_pos c.fbits
  have hF : (0 : ℚ) < ((2 ^ c.fbits : Nat) : ℚ) := by exact_mod_cast hFn
  obtain ⟨M, hM⟩ : ∃ M, M = sigBits c b := ⟨_, rfl⟩
  obtain ⟨s, hs⟩ : ∃ s, s = scaleOf c b := ⟨_, rfl⟩
  rw [← hM, ← hs] at hval
  rw [← hM] at hM1 hM2
  obtain ⟨u, hu⟩ : ∃ u : ℚ, u = pow2 (s - (c.fbits : Int)) := ⟨_, rfl⟩
  have hupos : 0 < u := by rw [hu]; exact pow2_pos _
  rw [← hu] at hval
  have hMq1 : ((2 ^ c.fbits : Nat) : ℚ) ≤ (M : ℚ) := by exact_mod_cast hM1
  have hMq2 : (M : ℚ) < 2 * ((2 ^ c.fbits : Nat) : ℚ) := by
    have : M < 2 * 2 ^ c.fbits := by rw [Nat.pow_succ] at hM2; omega
    exact_mod_cast this
  have hps : pow2 s = ((2 ^ c.fbits : Nat) : ℚ) * u := by
    rw [hu, pow2_sub s, pow2_natCast]; field_simp
  have hXlo : pow2 s ≤ (M : ℚ) * u := by rw [hps]; exact mul_le_mul_of_nonneg_right hMq1 (le_of_lt hupos)
  have hXhi : (M : ℚ) * u < pow2 (s + 1) := by rw [pow2_succ, hps]; nlinarith
  have hmpos : 0 < (M : ℚ) * u := lt_of_lt_of_le (pow2_pos s) hXlo
  have hmax := cfVal_le_maxFinite c hv hg b _ _ hval
  have hno := overflows_false_of_le c _ hmax
  refine ⟨(M : ℚ) * u, hmpos, hval, ?_⟩
  by_cases he : c.expOf b = 0
  · -- subnormal
    have hsub : c.sub = true := by
      cases hsb : c.sub
      · exfalso; unfold isZero at hz; rw [hsb] at hz; simp [he] at hz
      · rfl
    have hslt : s < 1 - c.bias := by
      rw [hs]; unfold scaleOf; simp only [he, if_true]; omega
    have hfl : floorLog2 ((M : ℚ) * u) = s := floorLog2_eq _ s hXlo hXhi
    have hul : ulpAt c ((M : ℚ) * u) = pow2 (1 - c.bias - (c.fbits : Int)) := by
      unfold ulpAt; simp only [hfl]; rw [if_pos hslt]
    rcases cfVal_cases c b with ⟨h', _, _⟩ | ⟨h', _, _, _⟩ | ⟨h', _, _, _⟩ | ⟨_, _, e⟩ | ⟨_, h', _⟩
    · have := emax_pos c hv; omega
    · have := emax_pos c hv; omega
    · have := emax_pos c hv; omega
    · rw [e, hsub] at hval
      simp only [if_true, Val.fin.injEq, true_and] at hval
      have hmU : (M : ℚ) * u = (c.fracOf b : ℚ) * pow2 (1 - c.bias - (c.fbits : Int)) := by
        rw [← hval, pow2_sub (1 - c.bias), pow2_natCast]; field_simp
      have hUpos := pow2_pos (1 - c.bias - (c.fbits : Int))
      refine nearestNZ_intro_ulp c _ b (c.signOf b) _ _ _ (c.fracOf b) rfl hmpos (by rw [e, hsub]; simp only [if_true]; rw [hval]) hul hUpos
        (by rw [hsub]; rfl) hmU ?_ hno hmax
      left
      rw [hmU]
      have : (c.fracOf b : ℚ) * pow2 (1 - c.bias - (c.fbits : Int)) / pow2 (1 - c.bias - (c.fbits : Int)) = (c.fracOf b : ℚ) := by
        field_simp
      rw [this]; constructor <;> norm_num
    · exact absurd he h'
  · have hsge : 1 - c.bias ≤ s := by
      rw [hs]; unfold scaleOf; simp only [he, if_false]
      have : 1 ≤ c.expOf b := by omega
      omega
    refine nearestNZ_intro c _ b (c.signOf b) _ _ s M rfl (by rw [hval]) hXlo hXhi hsge (by rw [hu]) ?_ hno hmax
    left
    rw [← hu]
    have : (M : ℚ) * u / u = (M : ℚ) := by field_simp
    rw [this]; constructor <;> norm_num

end UVerif.Cfloat
