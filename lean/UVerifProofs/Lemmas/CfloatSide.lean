import Mathlib.Tactic.Ring
import Mathlib.Tactic.Linarith
import Mathlib.Tactic.FieldSimp
import Mathlib.Algebra.Order.Field.Power
import Mathlib.Data.Rat.Floor
import UVerifProofs.Lemmas.CfloatDiv
open UVerif UVerif.Cfloat

namespace UVerif.Cfloat

/-- the integer S (a significant, possibly carrying a sticky bit or truncated low quotient bits) and the exact value y
    lie on the same side of every multiple of 2^g, and meet such a multiple only together. This is all a rounding at
    a position above g needs to know. -/
def SameSide (S : Nat) (y : ℚ) (g : Nat) : Prop :=
  ∀ k : Nat, (S < k * 2 ^ g ↔ y < ((k * 2 ^ g : Nat) : ℚ)) ∧ (k * 2 ^ g < S ↔ ((k * 2 ^ g : Nat) : ℚ) < y)

theorem sameSide_exact (S g : Nat) : SameSide S (S : ℚ) g := by
  intro k; constructor <;> exact_mod_cast Iff.rfl

theorem sameSide_mono (S : Nat) (y : ℚ) (g g' : Nat) (h : SameSide S y g) (hg : g ≤ g') : SameSide S y g' := by
  intro k
  have e : k * 2 ^ g' = (k * 2 ^ (g' - g)) * 2 ^ g := by
    rw [Nat.mul_assoc, ← Nat.pow_add]; congr 2; omega
  rw [e]; exact h _

theorem sameSide_shift (S : Nat) (y : ℚ) (g sh : Nat) (h : SameSide S y g) :
    SameSide (S * 2 ^ sh) (y * ((2 ^ sh : Nat) : ℚ)) (g + sh) := by
  intro k
  have hS := two_pow_pos sh
  have hSq : (0 : ℚ) < ((2 ^ sh : Nat) : ℚ) := by exact_mod_cast hS
  have e : k * 2 ^ (g + sh) = (k * 2 ^ g) * 2 ^ sh := by rw [Nat.pow_add, Nat.mul_assoc]
  obtain ⟨h1, h2⟩ := h k
  rw [e]
  have hSq' : (0 : ℚ) < (2 : ℚ) ^ sh := by positivity
  have mq : ∀ u v : ℚ, u * (2 : ℚ) ^ sh < v * (2 : ℚ) ^ sh ↔ u < v := by
    intro u v
    constructor
    · intro hh; exact lt_of_mul_lt_mul_right hh (le_of_lt hSq')
    · intro hh; exact mul_lt_mul_of_pos_right hh hSq'
  constructor
  · rw [Nat.mul_lt_mul_right hS, h1]; push_cast
    exact (mq _ _).symm
  · rw [Nat.mul_lt_mul_right hS, h2]; push_cast
    exact (mq _ _).symm

theorem sameSide_nonneg (S : Nat) (y : ℚ) (g : Nat) (h : SameSide S y g) : 0 ≤ y := by
  obtain ⟨h1, _⟩ := h 0
  simp only [Nat.zero_mul, Nat.not_lt_zero, Nat.cast_zero, false_iff, not_lt] at h1
  exact h1

/-- binade bounds transfer: powers of two at or above g -/
theorem sameSide_bounds (S : Nat) (y : ℚ) (g j : Nat) (h : SameSide S y g) (hj : g ≤ j) :
    (2 ^ j ≤ S ↔ ((2 ^ j : Nat) : ℚ) ≤ y) ∧ (S < 2 ^ j ↔ y < ((2 ^ j : Nat) : ℚ)) := by
  have e : 2 ^ j = (2 ^ (j - g)) * 2 ^ g := by rw [← Nat.pow_add]; congr 1; omega
  obtain ⟨h1, _⟩ := h (2 ^ (j - g))
  rw [← e] at h1
  constructor
  · rw [← not_lt, ← not_lt, h1]
  · exact h1

/-- the nearest-even property at a position t above g transfers from S to y (also for R = 0) -/
theorem sameSide_nearest (S : Nat) (y : ℚ) (g t R : Nat) (h : SameSide S y g) (ht : g + 1 ≤ t)
    (hn : (-(1:ℚ)/2 < (S : ℚ) / ((2 ^ t : Nat) : ℚ) - (R : ℚ) ∧ (S : ℚ) / ((2 ^ t : Nat) : ℚ) - (R : ℚ) < 1/2) ∨
          (((S : ℚ) / ((2 ^ t : Nat) : ℚ) - (R : ℚ) = 1/2 ∨ (S : ℚ) / ((2 ^ t : Nat) : ℚ) - (R : ℚ) = -(1:ℚ)/2) ∧ R % 2 = 0)) :
    (-(1:ℚ)/2 < y / ((2 ^ t : Nat) : ℚ) - (R : ℚ) ∧ y / ((2 ^ t : Nat) : ℚ) - (R : ℚ) < 1/2) ∨
    ((y / ((2 ^ t : Nat) : ℚ) - (R : ℚ) = 1/2 ∨ y / ((2 ^ t : Nat) : ℚ) - (R : ℚ) = -(1:ℚ)/2) ∧ R % 2 = 0) := by
  have hside := sameSide_mono S y g (t - 1) h (by omega)
  rcases Nat.eq_zero_or_pos R with hR0 | hRp
  · -- R = 0
    subst hR0
    have hy0 := sameSide_nonneg S y g h
    set P := 2 ^ (t - 1) with hP
    have hPp : 0 < P := two_pow_pos _
    have hT : 2 ^ t = 2 * P := by rw [hP, ← Nat.pow_succ']; congr 1; omega
    have hTq : ((2 ^ t : Nat) : ℚ) = 2 * (P : ℚ) := by rw [hT]; push_cast; ring
    have hPq : (0 : ℚ) < (P : ℚ) := by exact_mod_cast hPp
    obtain ⟨s1, s2⟩ := hside 1
    rw [Nat.one_mul, ← hP] at s1 s2
    simp only [Nat.cast_zero, sub_zero] at hn ⊢
    have c_lt : ∀ z : ℚ, z / ((2 ^ t : Nat) : ℚ) < 1 / 2 ↔ z < (P : ℚ) := by
      intro z; rw [hTq, div_lt_iff₀ (by positivity)]; constructor <;> intro hh <;> linarith
    have c_eq : ∀ z : ℚ, z / ((2 ^ t : Nat) : ℚ) = 1 / 2 ↔ z = (P : ℚ) := by
      intro z; rw [hTq, div_eq_iff (by positivity)]; constructor <;> intro hh <;> linarith
    have hyT : (0 : ℚ) ≤ y / ((2 ^ t : Nat) : ℚ) := by rw [hTq]; positivity
    have hST : (0 : ℚ) ≤ (S : ℚ) / ((2 ^ t : Nat) : ℚ) := by rw [hTq]; positivity
    rcases hn with ⟨_, h2⟩ | ⟨h3 | h3, h4⟩
    · left
      refine ⟨by linarith, ?_⟩
      rw [c_lt] at h2 ⊢
      have : S < P := by exact_mod_cast h2
      exact s1.mp this
    · right
      refine ⟨Or.inl ?_, h4⟩
      rw [c_eq] at h3 ⊢
      have h3' : S = P := by exact_mod_cast h3
      have a1 : ¬ (y < (P : ℚ)) := fun hc => by have := s1.mpr hc; omega
      have a2 : ¬ ((P : ℚ) < y) := fun hc => by have := s2.mpr hc; omega
      exact le_antisymm (not_lt.mp a2) (not_lt.mp a1)
    · exfalso; linarith
  · exact nearest_transfer_side S t R y (by omega) hRp hside hn

/-- the sticky right shift is a same-side image of N / 2^d at granularity 2 (even numbers) -/
theorem sameSide_sticky (N d : Nat) : SameSide (stickyShr N d) ((N : ℚ) / ((2 ^ d : Nat) : ℚ)) 1 := by
  intro k
  have hD : (0 : ℚ) < ((2 ^ d : Nat) : ℚ) := by exact_mod_cast two_pow_pos d
  obtain ⟨s1, s2⟩ := sticky_side N d (k * 2 ^ 1) (by omega)
  constructor
  · rw [s1, div_lt_iff₀ hD]; exact_mod_cast Iff.rfl
  · rw [s2, lt_div_iff₀ hD]; exact_mod_cast Iff.rfl

end UVerif.Cfloat
