/-
  Lemmas about operator++ / operator-- of cfloat (Model.Cfloat.incr / decr) after the repairs
  "operator-- on the all-ones encoding must not carry into the bits above nbits",
  "isminnegencoding() must compare every middle block when there are more than four" and
  "operator++ and operator-- must step from every encoding of zero as they do from +0".
-/
import UVerifProofs.Lemmas.CfloatVal
open UVerif UVerif.Cfloat

namespace UVerif.Cfloat

/-- the storage holds the encoding: nbits ≤ nrBlocks · bitsInBlock -/
theorem nbits_le_store (c : Cfg) (hbt : 1 ≤ c.bt) : c.nbits ≤ c.nrBlocks * c.bt := by
  unfold Cfg.nrBlocks
  have h := Nat.div_add_mod (c.nbits - 1) c.bt
  have hm := Nat.mod_lt (c.nbits - 1) (show 0 < c.bt by omega)
  rw [Nat.add_mul, Nat.one_mul, Nat.mul_comm]
  omega

theorem pow_nbits_le_store (c : Cfg) (hbt : 1 ≤ c.bt) : 2 ^ c.nbits ≤ 2 ^ (c.nrBlocks * c.bt) :=
  Nat.pow_le_pow_right (by omega) (nbits_le_store c hbt)

/-- the sign of a canonical encoding is the comparison with 2^(nbits−1) -/
theorem signOf_eq_decide (c : Cfg) (hv : c.valid = true) (a : Nat) (ha : a < 2 ^ c.nbits) :
    c.signOf a = decide (2 ^ (c.nbits - 1) ≤ a) := by
  have hp := pow_nbits c hv
  have hP := two_pow_pos (c.nbits - 1)
  unfold Cfg.signOf
  rw [Nat.testBit_eq_decide_div_mod_eq]
  by_cases h : a < 2 ^ (c.nbits - 1)
  · rw [Nat.div_eq_of_lt h]; simp; omega
  · have : a / 2 ^ (c.nbits - 1) = 1 := Nat.div_eq_of_lt_le (by omega) (by omega)
    rw [this]; simp; omega

theorem stepStart_lt (c : Cfg) (a : Nat) (ha : a < 2 ^ c.nbits) : stepStart c a < 2 ^ c.nbits := by
  unfold stepStart
  split
  · exact two_pow_pos _
  · exact ha

theorem stepStart_cases (c : Cfg) (a : Nat) :
    (isZero c a = true ∧ stepStart c a = 0) ∨ (isZero c a = false ∧ stepStart c a = a) := by
  unfold stepStart
  cases h : isZero c a <;> simp

/-- 2^fbits ≤ 2^(nbits−1)/2 -/
theorem pow_fbits_lt (c : Cfg) (hv : c.valid = true) : 2 * 2 ^ c.fbits ≤ 2 ^ (c.nbits - 1) := by
  obtain ⟨he, _, _, h4⟩ := valid_facts c hv
  rw [h4, Nat.add_comm, Nat.pow_add]
  have : 2 ^ 1 ≤ 2 ^ c.es := Nat.pow_le_pow_right (by omega) he
  have hF := two_pow_pos c.fbits
  nlinarith

theorem setFracOnes_zero (c : Cfg) : setFracOnes c 0 = 2 ^ c.fbits - 1 := by
  unfold setFracOnes; simp

theorem stepStart_zero (c : Cfg) (a : Nat) (h : isZero c (stepStart c a) = true) : stepStart c a = 0 := by
  rcases stepStart_cases c a with ⟨_, h0⟩ | ⟨hz, h0⟩
  · exact h0
  · rw [h0, hz] at h; cases h

/-- `x + store − 1 mod store` is at most x − 1 for x ≥ 1 -/
theorem dec_mod_le (x S : Nat) (hx : 1 ≤ x) (hS : 0 < S) : (x + S - 1) % S ≤ x - 1 := by
  have : x + S - 1 = (x - 1) + S := by omega
  rw [this, Nat.add_mod_right]
  exact Nat.mod_le _ _

/-- **++ never leaves the nbits field** -/
theorem incr_lt (c : Cfg) (hv : c.valid = true) (a : Nat) (ha : a < 2 ^ c.nbits) :
    incr c a < 2 ^ c.nbits := by
  have hp := pow_nbits c hv
  have hP := two_pow_pos (c.nbits - 1)
  have hF := two_pow_pos c.fbits
  have hfl := pow_fbits_lt c hv
  have hS := two_pow_pos (c.nrBlocks * c.bt)
  have hx := stepStart_lt c a ha
  have hzx := stepStart_zero c a
  have hsn := (snan_facts c hv).1
  have hsf := setFracOnes_zero c
  unfold incr
  simp only []
  generalize stepStart c a = x at *
  have hsg := signOf_eq_decide c hv x hx
  -- the value the positive branch increments: x itself, or the all-ones fraction when x is (the canonical) zero
  have hb0 : ∀ cond : Bool, (cond = true → x = 0) → x < 2 ^ (c.nbits - 1) →
      (if cond = true then setFracOnes c x else x) < 2 ^ (c.nbits - 1) := by
    intro cond hc hlt
    cases cond
    · simpa using hlt
    · rw [hc rfl, hsf]; simp; omega
  by_cases hs : 2 ^ (c.nbits - 1) ≤ x
  · -- negative operand: the result is 0 or x − 1
    have hsg' : c.signOf x = true := by rw [hsg]; simpa using hs
    have hd := dec_mod_le x _ (by omega) hS
    simp only [hsg', if_true]
    split_ifs <;> omega
  · have hsg' : c.signOf x = false := by rw [hsg]; simpa using hs
    have hlt : x < 2 ^ (c.nbits - 1) := by omega
    simp only [hsg', Bool.false_eq_true, if_false]
    have h1 := hb0 (!c.sub && x == 0) (by intro h; simp at h; exact h.2) hlt
    have h2 := hb0 (!c.sub && isZero c x) (by intro h; simp at h; exact hzx h.2) hlt
    by_cases hn : c.nrBlocks = 1
    · simp only [hn, if_true]
      generalize (if (!c.sub && x == 0) = true then setFracOnes c x else x) = b0 at *
      split_ifs
      · have : b0 ||| c.signMask < 2 ^ c.nbits :=
          Nat.or_lt_two_pow (by omega) (by unfold Cfg.signMask; omega)
        exact this
      · have := Nat.mod_le (b0 + 1) (2 ^ (1 * c.bt))
        omega
    · simp only [hn, if_false]
      generalize (if (!c.sub && isZero c x) = true then setFracOnes c x else x) = b0 at *
      split_ifs
      · exact hsn
      · have := Nat.mod_le (b0 + 1) (2 ^ (c.nrBlocks * c.bt))
        omega

/-- the blocks below the most significant one hold fewer than nbits bits -/
theorem low_blocks_lt (c : Cfg) (hv : c.valid = true) : (c.nrBlocks - 1) * c.bt < c.nbits := by
  obtain ⟨_, _, h3, _⟩ := valid_facts c hv
  unfold Cfg.nrBlocks
  have := Nat.div_mul_le_self (c.nbits - 1) c.bt
  simp only [Nat.add_sub_cancel_left]
  omega

/-- **-- never leaves the nbits field** (D6 repaired: the most significant block is masked) -/
theorem decr_lt (c : Cfg) (hv : c.valid = true) (a : Nat) (ha : a < 2 ^ c.nbits) :
    decr c a < 2 ^ c.nbits := by
  have hp := pow_nbits c hv
  have hP := two_pow_pos (c.nbits - 1)
  have hN := two_pow_pos c.nbits
  have hF := two_pow_pos c.fbits
  have hfl := pow_fbits_lt c hv
  have hx := stepStart_lt c a ha
  have hsf := setFracOnes_zero c
  have hsm : c.signMask = 2 ^ (c.nbits - 1) := rfl
  unfold decr
  simp only []
  generalize stepStart c a = x at *
  have hsg := signOf_eq_decide c hv x hx
  by_cases hs : 2 ^ (c.nbits - 1) ≤ x
  · have hsg' : c.signOf x = true := by rw [hsg]; simpa using hs
    simp only [hsg', if_true]
    by_cases hn : c.nrBlocks = 1
    · simp only [hn, if_true]
      exact Nat.mod_lt _ hN
    · simp only [hn, if_false]
      have hk := low_blocks_lt c hv
      have hsplit : 2 ^ c.nbits = 2 ^ (c.nbits - (c.nrBlocks - 1) * c.bt) * 2 ^ ((c.nrBlocks - 1) * c.bt) := by
        rw [← Nat.pow_add]; congr 1; omega
      have hL := two_pow_pos ((c.nrBlocks - 1) * c.bt)
      generalize 2 ^ ((c.nrBlocks - 1) * c.bt) = L at *
      generalize 2 ^ (c.nbits - (c.nrBlocks - 1) * c.bt) = K at *
      split_ifs with hc
      · have hdm := Nat.div_add_mod x L
        have hhi : x / L < K := by rw [Nat.div_lt_iff_lt_mul hL, ← hsplit]; exact hx
        have : L * (x / L + 1) ≤ L * K := Nat.mul_le_mul_left _ hhi
        rw [hsplit]; nlinarith
      · rw [hsplit]
        exact Nat.mul_lt_mul_of_pos_right (Nat.mod_lt _ (by
          rcases Nat.eq_zero_or_pos K with h0 | h0
          · rw [h0] at hsplit; omega
          · exact h0)) hL
  · have hsg' : c.signOf x = false := by rw [hsg]; simpa using hs
    have hlt : x < 2 ^ (c.nbits - 1) := by omega
    simp only [hsg', Bool.false_eq_true, if_false]
    by_cases hn : c.nrBlocks = 1
    · simp only [hn, if_true]
      have hb1 : (if (x == 0) = true then (if c.sub = true then c.signMask ||| 1 else ((setFracOnes c x + 1) % 2 ^ (1 * c.bt)) ||| c.signMask)
          else x - 1) < 2 ^ c.nbits := by
        split_ifs with h0 hsub
        · exact Nat.or_lt_two_pow (by rw [hsm]; omega) (by omega)
        · have hx0 : x = 0 := by simpa using h0
          rw [hx0, hsf]
          have hle := Nat.mod_le (2 ^ c.fbits - 1 + 1) (2 ^ (1 * c.bt))
          exact Nat.or_lt_two_pow (by omega) (by rw [hsm]; omega)
        · omega
      generalize (if (x == 0) = true then (if c.sub = true then c.signMask ||| 1 else ((setFracOnes c x + 1) % 2 ^ (1 * c.bt)) ||| c.signMask)
          else x - 1) = b1 at *
      split_ifs <;> omega
    · simp only [hn, if_false]
      split_ifs <;> (try rw [hsm]) <;> omega

theorem signOf_zero (c : Cfg) : c.signOf 0 = false := by unfold Cfg.signOf; simp

theorem isZero_enc_zero (c : Cfg) : isZero c 0 = true := by
  unfold isZero isZeroEnc absBits Cfg.expOf; simp

theorem stepStart_of_zero (c : Cfg) (a : Nat) (hz : isZero c a = true) : stepStart c a = 0 := by
  unfold stepStart; simp [hz]

/-- **++ on any encoding of zero** (+0, −0, and without subnormals every exponent-0 pattern) is minpos -/
theorem incr_of_zero (c : Cfg) (hv : c.valid = true) (hbt : 1 ≤ c.bt) (a : Nat) (hz : isZero c a = true) :
    incr c a = minposEnc c := by
  have hp := pow_nbits c hv
  have hP := two_pow_pos (c.nbits - 1)
  have hF := two_pow_pos c.fbits
  have hfl := pow_fbits_lt c hv
  have hst := pow_nbits_le_store c hbt
  have hsf := setFracOnes_zero c
  have h0 := stepStart_of_zero c a hz
  have hz0 := isZero_enc_zero c
  have hnan : isNanEnc c 0 = false := by
    unfold isNanEnc absBits
    simp only [Nat.zero_mod]
    rw [beq_eq_false_iff_ne]; omega
  unfold incr minposEnc
  simp only []
  rw [h0]
  simp only [signOf_zero, hnan, hz0, hsf, Bool.false_eq_true, if_false, beq_self_eq_true, Bool.and_true]
  cases hsub : c.sub
  · -- no subnormals: the all-ones fraction + 1 = 2^fbits
    have e1 : (2 ^ c.fbits - 1) % 2 ^ (c.nbits - 1) = 2 ^ c.fbits - 1 := Nat.mod_eq_of_lt (by omega)
    have ne : ((2 ^ c.fbits - 1) % 2 ^ (c.nbits - 1) == 2 ^ (c.nbits - 1) - 1) = false := by
      rw [e1, beq_eq_false_iff_ne]; omega
    have e2 : 2 ^ c.fbits - 1 + 1 = 2 ^ c.fbits := by omega
    have e3 : 2 ^ c.fbits % 2 ^ (c.nrBlocks * c.bt) = 2 ^ c.fbits := Nat.mod_eq_of_lt (by omega)
    simp [ne, e2, e3]
  · have e3 : 1 % 2 ^ (c.nrBlocks * c.bt) = 1 := Nat.mod_eq_of_lt (by omega)
    simp [e3]
    intro _ h; omega

/-- or-ing a value below 2^k onto 2^k adds it -/
theorem pow_or_small (k b : Nat) (h : b < 2 ^ k) : 2 ^ k ||| b = 2 ^ k + b := by
  have := Nat.two_pow_add_eq_or_of_lt h 1
  rw [Nat.mul_one] at this
  exact this.symm

/-- **-- on any encoding of zero** (+0, −0, and without subnormals every exponent-0 pattern) is minneg -/
theorem decr_of_zero (c : Cfg) (hv : c.valid = true) (hbt : 1 ≤ c.bt) (a : Nat) (hz : isZero c a = true) :
    decr c a = minnegEnc c := by
  have hp := pow_nbits c hv
  have hP := two_pow_pos (c.nbits - 1)
  have hF := two_pow_pos c.fbits
  have hfl := pow_fbits_lt c hv
  have hst := pow_nbits_le_store c hbt
  have hsf := setFracOnes_zero c
  have h0 := stepStart_of_zero c a hz
  have hsm : c.signMask = 2 ^ (c.nbits - 1) := rfl
  have hze : isZeroEnc c 0 = true := by unfold isZeroEnc absBits; simp
  obtain ⟨he1, _, _, _⟩ := valid_facts c hv
  -- the encoding 1.0…01.0…0 is not a denormal
  have hden : isDenormal c (2 ^ c.fbits + 2 ^ (c.nbits - 1)) = false := by
    have hE : 1 < 2 ^ c.es := by
      calc 1 < 2 ^ 1 := by norm_num
        _ ≤ 2 ^ c.es := Nat.pow_le_pow_right (by omega) he1
    have ff := fields_of_compose c hv true 1 0 hE hF
    have e : 0 + 2 ^ c.fbits * 1 + signBit c true = 2 ^ c.fbits + 2 ^ (c.nbits - 1) := by
      unfold signBit; simp
    rw [e] at ff
    unfold isDenormal
    rw [ff.2.2.1]; simp
  unfold decr minnegEnc minposEnc
  simp only []
  rw [h0]
  simp only [signOf_zero, hze, hsf, Bool.false_eq_true, if_false, if_true, beq_self_eq_true]
  have e2 : 2 ^ c.fbits - 1 + 1 = 2 ^ c.fbits := by omega
  by_cases hn : c.nrBlocks = 1
  · rw [hn] at hst
    have e3 : 2 ^ c.fbits % 2 ^ (1 * c.bt) = 2 ^ c.fbits := Nat.mod_eq_of_lt (by omega)
    have e4 : 2 ^ c.fbits ||| 2 ^ (c.nbits - 1) = 2 ^ c.fbits + 2 ^ (c.nbits - 1) := by
      rw [Nat.or_comm, pow_or_small _ _ (by omega)]; omega
    have e5 : 2 ^ (c.nbits - 1) ||| 1 = 1 + 2 ^ (c.nbits - 1) := by
      rw [pow_or_small _ _ (by omega)]; omega
    have e6 : (2 ^ c.fbits + 2 ^ (c.nbits - 1)) % 2 ^ c.nbits = 2 ^ c.fbits + 2 ^ (c.nbits - 1) :=
      Nat.mod_eq_of_lt (by omega)
    simp only [hn, if_true, hsm, e2, e3, e4, e5]
    cases hsub : c.sub
    · simp [e6, hden]
    · simp
  · simp only [hn, if_false, hsm]
    cases hsub : c.sub <;> simp <;> omega

/-! ### `isminnegencoding()` for more than four blocks is exactly the test for the pattern 1.0…0.0…01 -/

/-- block i (B bits) of a natural -/
def blkOf (B b i : Nat) : Nat := (b >>> (i * B)) % 2 ^ B

theorem blkOf_div (B b i : Nat) : blkOf B (b / 2 ^ B) i = blkOf B b (i + 1) := by
  unfold blkOf
  rw [← Nat.shiftRight_eq_div_pow, ← Nat.shiftRight_add]
  congr 2
  rw [Nat.add_mul, Nat.one_mul, Nat.add_comm]

/-- two naturals below 2^(n·B) with the same n blocks are equal -/
theorem eq_of_blocks (B : Nat) : ∀ (n x y : Nat), x < 2 ^ (n * B) → y < 2 ^ (n * B) →
    (∀ i, i < n → blkOf B x i = blkOf B y i) → x = y := by
  intro n
  induction n with
  | zero => intro x y hx hy _; simp at hx hy; omega
  | succ k ih =>
    intro x y hx hy h
    have hB := two_pow_pos B
    have hpw : 2 ^ ((k + 1) * B) = 2 ^ (k * B) * 2 ^ B := by rw [← Nat.pow_add]; congr 1; rw [Nat.add_mul, Nat.one_mul]
    have h0 := h 0 (by omega)
    unfold blkOf at h0
    simp only [Nat.zero_mul, Nat.shiftRight_zero] at h0
    have hq : x / 2 ^ B = y / 2 ^ B := by
      apply ih
      · rw [Nat.div_lt_iff_lt_mul hB, ← hpw]; exact hx
      · rw [Nat.div_lt_iff_lt_mul hB, ← hpw]; exact hy
      · intro i hi
        rw [blkOf_div, blkOf_div]
        exact h (i + 1) (by omega)
    have hx' := Nat.div_add_mod x (2 ^ B)
    have hy' := Nat.div_add_mod y (2 ^ B)
    rw [hq, h0] at hx'
    omega

/-- the blocks of 2^(L+r) + 1 with L = m·B, m ≥ 1, r < B: block 0 is 1, blocks 1 … m−1 are 0, block m is 2^r -/
theorem blocks_of_minneg (B m r : Nat) (hB : 1 ≤ B) (hm : 1 ≤ m) (hr : r < B) :
    blkOf B (2 ^ (m * B + r) + 1) 0 = 1 ∧
    (∀ i, 1 ≤ i → i < m → blkOf B (2 ^ (m * B + r) + 1) i = 0) ∧
    blkOf B (2 ^ (m * B + r) + 1) m = 2 ^ r := by
  have h1B : 1 < 2 ^ B := by
    calc 1 < 2 ^ 1 := by norm_num
      _ ≤ 2 ^ B := Nat.pow_le_pow_right (by omega) hB
  -- (2^(s+e) + 1) >>> s = 2^e for s ≥ 1
  have shr : ∀ s e, 1 ≤ s → (2 ^ (s + e) + 1) >>> s = 2 ^ e := by
    intro s e hs
    have hS := two_pow_pos s
    have h1S : 1 < 2 ^ s := by
      calc 1 < 2 ^ 1 := by norm_num
        _ ≤ 2 ^ s := Nat.pow_le_pow_right (by omega) hs
    rw [Nat.shiftRight_eq_div_pow, Nat.pow_add, Nat.mul_comm, Nat.add_comm, Nat.add_mul_div_right _ _ hS,
      Nat.div_eq_of_lt h1S, Nat.zero_add]
  refine ⟨?_, ?_, ?_⟩
  · unfold blkOf
    simp only [Nat.zero_mul, Nat.shiftRight_zero]
    have : 2 ^ (m * B + r) = 2 ^ B * 2 ^ ((m - 1) * B + r) := by
      rw [← Nat.pow_add]; congr 1
      have : m * B = B + (m - 1) * B := by
        conv_lhs => rw [show m = 1 + (m - 1) by omega, Nat.add_mul, Nat.one_mul]
      omega
    rw [this, Nat.add_comm, Nat.add_mul_mod_self_left, Nat.mod_eq_of_lt h1B]
  · intro i hi1 him
    unfold blkOf
    have hiB : 1 ≤ i * B := Nat.mul_pos (by omega) (by omega)
    have hle : i * B + B ≤ m * B := by
      have : (i + 1) * B ≤ m * B := Nat.mul_le_mul_right _ (by omega)
      rw [Nat.add_mul, Nat.one_mul] at this; exact this
    have e : m * B + r = i * B + (B + (m * B + r - i * B - B)) := by omega
    rw [e, shr _ _ hiB, Nat.pow_add, Nat.mul_mod_right]
  · unfold blkOf
    have hmB : 1 ≤ m * B := Nat.mul_pos (by omega) (by omega)
    rw [shr _ _ hmB]
    exact Nat.mod_eq_of_lt (Nat.pow_lt_pow_right (by omega) hr)

/-- **`isminnegencoding()` recognises exactly the encoding 1.0…0.0…01**, for every number of blocks (the generic loop
    for more than four blocks inspects every middle block since the repair) -/
theorem isMinNegEnc_eq (c : Cfg) (hv : c.valid = true) (hbt : 1 ≤ c.bt) (b : Nat) (hb : b < 2 ^ c.nbits) :
    isMinNegEnc c b = (b == c.signMask + 1) := by
  unfold isMinNegEnc
  simp only []
  by_cases hn : c.nrBlocks ≤ 4
  · simp [hn]
  · simp only [hn, if_false]
    obtain ⟨_, _, h3, h4⟩ := valid_facts c hv
    have hst := pow_nbits_le_store c hbt
    have hp := pow_nbits c hv
    have hdm := Nat.div_add_mod (c.nbits - 1) c.bt
    have hrl := Nat.mod_lt (c.nbits - 1) (show 0 < c.bt by omega)
    have hnb : c.nrBlocks = 1 + (c.nbits - 1) / c.bt := rfl
    generalize hm : (c.nbits - 1) / c.bt = m at *
    generalize hr : (c.nbits - 1) % c.bt = r at *
    have hm1 : 1 ≤ m := by omega
    have hT : c.signMask + 1 = 2 ^ (m * c.bt + r) + 1 := by
      unfold Cfg.signMask; rw [← hdm, Nat.mul_comm]
    have hP1 : 1 < 2 ^ (c.nbits - 1) := by
      calc 1 < 2 ^ 1 := by norm_num
        _ ≤ 2 ^ (c.nbits - 1) := Nat.pow_le_pow_right (by omega) (by omega)
    have hTlt : c.signMask + 1 < 2 ^ (c.nrBlocks * c.bt) := by
      unfold Cfg.signMask; omega
    obtain ⟨k0, kmid, ktop⟩ := blocks_of_minneg c.bt m r hbt hm1 hrl
    rw [← hT] at k0 kmid ktop
    have e1 : c.nrBlocks - 2 = m - 1 := by omega
    have e2 : c.nrBlocks - 1 = m := by omega
    rw [e1, e2]
    rw [Bool.eq_iff_iff]
    simp only [Bool.and_eq_true, beq_iff_eq, List.all_eq_true, List.mem_range]
    constructor
    · rintro ⟨⟨h0, hmid⟩, htop⟩
      apply eq_of_blocks c.bt c.nrBlocks b (c.signMask + 1) (lt_of_lt_of_le hb hst) hTlt
      intro i hi
      rcases Nat.eq_zero_or_pos i with hi0 | hipos
      · subst hi0
        rw [k0]; unfold blkOf; exact h0
      · by_cases him : i < m
        · rw [kmid i hipos him]
          have := hmid (i - 1) (by omega)
          have e : i - 1 + 1 = i := by omega
          rw [e] at this
          unfold blkOf; exact this
        · have : i = m := by omega
          subst this
          rw [ktop]; unfold blkOf; exact htop
    · intro hbeq
      subst hbeq
      refine ⟨⟨?_, ?_⟩, ?_⟩
      · have := k0; unfold blkOf at this; exact this
      · intro j hj
        have := kmid (j + 1) (by omega) (by omega)
        unfold blkOf at this; exact this
      · have := ktop; unfold blkOf at this; exact this

end UVerif.Cfloat
