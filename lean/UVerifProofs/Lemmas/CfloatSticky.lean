import Mathlib.Tactic.Ring
import Mathlib.Tactic.Linarith
import Mathlib.Tactic.FieldSimp
import Mathlib.Algebra.Order.Field.Power
import Mathlib.Data.Rat.Floor
import UVerifProofs.Lemmas.CfloatConvert
open UVerif UVerif.Cfloat

namespace UVerif.Cfloat

theorem or_one_eq (q : Nat) : q ||| 1 = if q % 2 = 0 then q + 1 else q := by
  have h2 : q = 2 * (q / 2) + q % 2 := (Nat.div_add_mod q 2).symm
  have key : ∀ k : Nat, (k <<< 1) ||| 1 = 2 * k + 1 := by
    intro k
    rw [← Nat.shiftLeft_add_eq_or_of_lt (by norm_num : 1 < 2 ^ 1), Nat.shiftLeft_eq]; omega
  rcases Nat.mod_two_eq_zero_or_one q with h | h
  · rw [if_pos h]
    have : q = (q / 2) <<< 1 := by rw [Nat.shiftLeft_eq]; omega
    rw [this, key]; rw [Nat.shiftLeft_eq]; omega
  · rw [if_neg (by omega)]
    have : q = ((q / 2) <<< 1) ||| 1 := by rw [key]; omega
    conv_lhs => rw [this]
    rw [Nat.or_assoc, Nat.or_self, ← this]

/-- sticky right shift = "round to odd" of N / 2^d: it lies on the same side of every EVEN integer as N / 2^d -/
theorem sticky_side (N d E : Nat) (hE : E % 2 = 0) :
    (stickyShr N d < E ↔ N < E * 2 ^ d) ∧ (E < stickyShr N d ↔ E * 2 ^ d < N) := by
  have hH := two_pow_pos d
  have hdm := Nat.div_add_mod N (2 ^ d)
  have hr := Nat.mod_lt N hH
  unfold stickyShr
  rw [Nat.shiftRight_eq_div_pow]
  generalize N / 2 ^ d = q at *
  generalize N % 2 ^ d = r at *
  generalize 2 ^ d = H at *
  have hmul : ∀ a b : Nat, a + 1 ≤ b → a * H + H ≤ b * H := by
    intro a b hab
    have := Nat.mul_le_mul_right H hab
    rw [Nat.succ_mul] at this; exact this
  have hcm : H * q = q * H := Nat.mul_comm _ _
  by_cases hr0 : r = 0
  · subst hr0
    simp only [ne_eq, not_true_eq_false, if_false, Nat.or_zero]
    constructor
    · constructor
      · intro h; have := hmul q E h; omega
      · intro h
        by_contra hc
        have : E * H ≤ q * H := Nat.mul_le_mul_right H (by omega)
        omega
    · constructor
      · intro h; have := hmul E q h; omega
      · intro h
        by_contra hc
        have : q * H ≤ E * H := Nat.mul_le_mul_right H (by omega)
        omega
  · simp only [ne_eq, hr0, not_false_eq_true, if_true]
    rw [or_one_eq]
    rcases Nat.mod_two_eq_zero_or_one q with hq | hq
    · rw [if_pos hq]
      constructor
      · constructor
        · intro h; have := hmul q E (by omega); omega
        · intro h
          by_contra hc
          have : E * H ≤ q * H := Nat.mul_le_mul_right H (by omega)
          omega
      · constructor
        · intro h
          have : E * H ≤ q * H := Nat.mul_le_mul_right H (by omega)
          omega
        · intro h
          by_contra hc
          have := hmul q E (by omega)
          omega
    · rw [if_neg (by omega)]
      constructor
      · constructor
        · intro h; have := hmul q E (by omega); omega
        · intro h
          by_contra hc
          have : E * H ≤ q * H := Nat.mul_le_mul_right H (by omega)
          omega
      · constructor
        · intro h
          have : E * H ≤ q * H := Nat.mul_le_mul_right H (by omega)
          omega
        · intro h
          by_contra hc
          have := hmul q E (by omega)
          omega

end UVerif.Cfloat

namespace UVerif.Cfloat

/-- the nearest-even property at a rounding position t ≥ 2 above the sticky bit transfers from the sticky
    representation to the exact value N / 2^d (classical guard/round/sticky soundness) -/
theorem sticky_nearest_transfer (N d t R : Nat) (ht : 2 ≤ t) (hR1 : 1 ≤ R)
    (h : (-(1:ℚ)/2 < (stickyShr N d : ℚ) / ((2 ^ t : Nat) : ℚ) - (R : ℚ) ∧ (stickyShr N d : ℚ) / ((2 ^ t : Nat) : ℚ) - (R : ℚ) < 1/2) ∨
         (((stickyShr N d : ℚ) / ((2 ^ t : Nat) : ℚ) - (R : ℚ) = 1/2 ∨ (stickyShr N d : ℚ) / ((2 ^ t : Nat) : ℚ) - (R : ℚ) = -(1:ℚ)/2) ∧ R % 2 = 0)) :
    (-(1:ℚ)/2 < (N : ℚ) / ((2 ^ d : Nat) : ℚ) / ((2 ^ t : Nat) : ℚ) - (R : ℚ) ∧ (N : ℚ) / ((2 ^ d : Nat) : ℚ) / ((2 ^ t : Nat) : ℚ) - (R : ℚ) < 1/2) ∨
    (((N : ℚ) / ((2 ^ d : Nat) : ℚ) / ((2 ^ t : Nat) : ℚ) - (R : ℚ) = 1/2 ∨ (N : ℚ) / ((2 ^ d : Nat) : ℚ) / ((2 ^ t : Nat) : ℚ) - (R : ℚ) = -(1:ℚ)/2) ∧ R % 2 = 0) := by
  -- T = 2P with P = 2^(t-1) even; E1 = (2R-1)P, E2 = (2R+1)P are even integers
  obtain ⟨P, hP⟩ : ∃ P, 2 ^ t = 2 * P ∧ P % 2 = 0 ∧ 0 < P := by
    refine ⟨2 ^ (t - 1), ?_, ?_, two_pow_pos _⟩
    · rw [← Nat.pow_succ']; congr 1; omega
    · have : 2 ^ (t - 1) = 2 * 2 ^ (t - 2) := by rw [← Nat.pow_succ']; congr 1; omega
      omega
  obtain ⟨hT, hPe, hPp⟩ := hP
  set E1 := (2 * R - 1) * P with hE1
  set E2 := (2 * R + 1) * P with hE2
  have hE1e : E1 % 2 = 0 := by rw [hE1, Nat.mul_mod, hPe]; simp
  have hE2e : E2 % 2 = 0 := by rw [hE2, Nat.mul_mod, hPe]; simp
  have hH : (0 : ℚ) < ((2 ^ d : Nat) : ℚ) := by exact_mod_cast two_pow_pos d
  have hTq : ((2 ^ t : Nat) : ℚ) = 2 * (P : ℚ) := by rw [hT]; push_cast; ring
  have hPq : (0 : ℚ) < (P : ℚ) := by exact_mod_cast hPp
  have hE1q : (E1 : ℚ) = (2 * (R : ℚ) - 1) * (P : ℚ) := by
    rw [hE1]; push_cast; rw [Nat.cast_sub (by omega)]; push_cast; ring
  have hE2q : (E2 : ℚ) = (2 * (R : ℚ) + 1) * (P : ℚ) := by rw [hE2]; push_cast; ring
  -- characterisation of the four conditions for an arbitrary z
  have c_lt : ∀ z : ℚ, z / ((2 ^ t : Nat) : ℚ) - (R : ℚ) < 1 / 2 ↔ z < (E2 : ℚ) := by
    intro z; rw [hTq, hE2q, sub_lt_iff_lt_add, div_lt_iff₀ (by positivity)]
    constructor <;> intro hh <;> nlinarith
  have c_gt : ∀ z : ℚ, -(1:ℚ) / 2 < z / ((2 ^ t : Nat) : ℚ) - (R : ℚ) ↔ (E1 : ℚ) < z := by
    intro z; rw [hTq, hE1q, lt_sub_iff_add_lt, lt_div_iff₀ (by positivity)]
    constructor <;> intro hh <;> nlinarith
  have c_eq2 : ∀ z : ℚ, z / ((2 ^ t : Nat) : ℚ) - (R : ℚ) = 1 / 2 ↔ z = (E2 : ℚ) := by
    intro z; rw [hTq, hE2q, sub_eq_iff_eq_add, div_eq_iff (by positivity)]
    constructor <;> intro hh <;> nlinarith
  have c_eq1 : ∀ z : ℚ, z / ((2 ^ t : Nat) : ℚ) - (R : ℚ) = -(1:ℚ) / 2 ↔ z = (E1 : ℚ) := by
    intro z; rw [hTq, hE1q, sub_eq_iff_eq_add, div_eq_iff (by positivity)]
    constructor <;> intro hh <;> nlinarith
  -- transfer through sticky_side
  obtain ⟨s2a, s2b⟩ := sticky_side N d E2 hE2e
  obtain ⟨s1a, s1b⟩ := sticky_side N d E1 hE1e
  have y_lt : ∀ E : Nat, (N : ℚ) / ((2 ^ d : Nat) : ℚ) < (E : ℚ) ↔ N < E * 2 ^ d := by
    intro E; rw [div_lt_iff₀ hH]; exact_mod_cast Iff.rfl
  have y_gt : ∀ E : Nat, (E : ℚ) < (N : ℚ) / ((2 ^ d : Nat) : ℚ) ↔ E * 2 ^ d < N := by
    intro E; rw [lt_div_iff₀ hH]; exact_mod_cast Iff.rfl
  have y_eq : ∀ E : Nat, (N : ℚ) / ((2 ^ d : Nat) : ℚ) = (E : ℚ) ↔ N = E * 2 ^ d := by
    intro E; rw [div_eq_iff (ne_of_gt hH)]; exact_mod_cast Iff.rfl
  rcases h with ⟨h1, h2⟩ | ⟨h3, h4⟩
  · left
    rw [c_gt] at h1 ⊢; rw [c_lt] at h2 ⊢
    have h1' : E1 < stickyShr N d := by exact_mod_cast h1
    have h2' : stickyShr N d < E2 := by exact_mod_cast h2
    exact ⟨(y_gt E1).mpr (s1b.mp h1'), (y_lt E2).mpr (s2a.mp h2')⟩
  · right
    refine ⟨?_, h4⟩
    rcases h3 with h3 | h3
    · left
      rw [c_eq2] at h3 ⊢
      have h3' : stickyShr N d = E2 := by exact_mod_cast h3
      rw [y_eq]
      have a1 : ¬ (N < E2 * 2 ^ d) := fun hc => by have := s2a.mpr hc; omega
      have a2 : ¬ (E2 * 2 ^ d < N) := fun hc => by have := s2b.mpr hc; omega
      omega
    · right
      rw [c_eq1] at h3 ⊢
      have h3' : stickyShr N d = E1 := by exact_mod_cast h3
      rw [y_eq]
      have a1 : ¬ (N < E1 * 2 ^ d) := fun hc => by have := s1a.mpr hc; omega
      have a2 : ¬ (E1 * 2 ^ d < N) := fun hc => by have := s1b.mpr hc; omega
      omega

end UVerif.Cfloat
