import Mathlib.Tactic.Ring
import Mathlib.Tactic.Linarith
import Mathlib.Tactic.FieldSimp
import Mathlib.Algebra.Order.Field.Power
import Mathlib.Data.Rat.Floor
import UVerifProofs.Lemmas.CfloatAdd
open UVerif UVerif.Cfloat

namespace UVerif.Cfloat

/-- renormalisation step at the end of `blocktriple::add` -/
def normAdd (fb : Nat) (sg : Bool) (sc : Int) (m : Nat) : Triple :=
  if !m.testBit (fb + 4) && !m.testBit (fb + 3) then
    { zero := false, sign := sg, scale := sc - ((fb + 3 - Nat.log2 m : Nat) : Int), sig := (m <<< (fb + 3 - Nat.log2 m)) % 2 ^ (fb + 6) }
  else { zero := false, sign := sg, scale := sc, sig := m }

/-- P + (−N) in w-bit two's complement: magnitude |P − N|, negative iff P < N -/
theorem opp_sum (w P N : Nat) (hw : 1 ≤ w) (hP : P < 2 ^ (w - 1)) (hN0 : 0 < N) (hN : N < 2 ^ (w - 1)) :
    (N ≤ P → (P + twosComp w N) % 2 ^ w = P - N ∧ (P - N).testBit (w - 1) = false) ∧
    (P < N → (P + twosComp w N) % 2 ^ w = 2 ^ w - (N - P) ∧ (2 ^ w - (N - P)).testBit (w - 1) = true ∧
              twosComp w (2 ^ w - (N - P)) = N - P ∧ 2 ^ w - (N - P) ≠ 0) := by
  have hp : 2 ^ w = 2 * 2 ^ (w - 1) := by
    rw [← Nat.pow_succ']; congr 1; omega
  have hPp := two_pow_pos (w - 1)
  have htc : twosComp w N = 2 ^ w - N := twosComp_of_lt w N hN0 (by omega)
  constructor
  · intro hle
    have : P + (2 ^ w - N) = (P - N) + 2 ^ w := by omega
    rw [htc, this, Nat.add_mod_right, Nat.mod_eq_of_lt (by omega)]
    exact ⟨rfl, Nat.testBit_lt_two_pow (by omega)⟩
  · intro hlt
    have h1 : P + (2 ^ w - N) = 2 ^ w - (N - P) := by omega
    rw [htc, h1, Nat.mod_eq_of_lt (by omega)]
    refine ⟨rfl, ?_, ?_, by omega⟩
    · rw [Nat.testBit_eq_decide_div_mod_eq]
      have : (2 ^ w - (N - P)) / 2 ^ (w - 1) = 1 := by
        apply Nat.div_eq_of_lt_le <;> omega
      simp [this]
    · rw [twosComp_of_lt w _ (by omega) (by omega)]; omega

/-- the part of `blocktriple::add` after the bfbits-bit sum -/
def addTail (fb : Nat) (sc : Int) (sum : Nat) : Triple :=
  if sum = 0 then {}
  else
    let neg := sum.testBit (fb + 5)
    let m := if neg then twosComp (fb + 6) sum else sum
    if !m.testBit (fb + 4) && !m.testBit (fb + 3) then
      { zero := false, sign := neg, scale := sc - ((fb + 3 - Nat.log2 m : Nat) : Int), sig := (m <<< (fb + 3 - Nat.log2 m)) % 2 ^ (fb + 6) }
    else { zero := false, sign := neg, scale := sc, sig := m }

theorem tripleAdd_eq_addTail (fb : Nat) (l r : Triple) :
    tripleAdd fb l r = addTail fb (max l.scale r.scale)
      (((if l.sign then twosComp (fb + 6) (if l.scale - r.scale < 0 then stickyShr l.sig (-(l.scale - r.scale)).toNat else l.sig)
          else (if l.scale - r.scale < 0 then stickyShr l.sig (-(l.scale - r.scale)).toNat else l.sig))
        + (if r.sign then twosComp (fb + 6) (if l.scale - r.scale < 0 then r.sig else stickyShr r.sig (l.scale - r.scale).toNat)
          else (if l.scale - r.scale < 0 then r.sig else stickyShr r.sig (l.scale - r.scale).toNat))) % 2 ^ (fb + 6)) := by
  unfold tripleAdd addTail Op.bfbits
  have w1 : fb + 6 - 1 = fb + 5 := by omega
  have w2 : fb + 6 - 2 = fb + 4 := by omega
  have w3 : fb + 6 - 3 = fb + 3 := by omega
  simp only [w1, w2, w3]

theorem addTail_opp (fb : Nat) (sc : Int) (P N : Nat) (hP : P < 2 ^ (fb + 4)) (hN0 : 0 < N) (hN : N < 2 ^ (fb + 4)) :
    addTail fb sc ((P + twosComp (fb + 6) N) % 2 ^ (fb + 6)) =
      (if P = N then {} else normAdd fb (decide (P < N)) sc (if P < N then N - P else P - N)) := by
  have p45 : 2 ^ (fb + 5) = 2 * 2 ^ (fb + 4) := by rw [← Nat.pow_succ']
  have w1 : fb + 6 - 1 = fb + 5 := by omega
  obtain ⟨c1, c2⟩ := opp_sum (fb + 6) P N (by omega) (by rw [w1]; omega) hN0 (by rw [w1]; omega)
  rw [w1] at c1 c2
  rcases Nat.lt_trichotomy P N with hlt | heq | hgt
  · obtain ⟨e1, e2, e3, e4⟩ := c2 hlt
    rw [e1, if_neg (by omega), if_pos hlt]
    unfold addTail normAdd
    rw [if_neg e4]
    simp only [e2, if_true, e3, decide_eq_true hlt]
  · subst heq
    obtain ⟨e1, _⟩ := c1 (le_refl _)
    rw [e1]; unfold addTail; simp
  · obtain ⟨e1, e2⟩ := c1 (le_of_lt hgt)
    have hnlt : ¬ P < N := by omega
    rw [e1, if_neg (by omega), if_neg hnlt]
    unfold addTail normAdd
    rw [if_neg (by omega)]
    simp only [e2, Bool.false_eq_true, if_false, decide_eq_false hnlt]

/-- `blocktriple::add` on two non-zero triples of OPPOSITE sign, in terms of the aligned significants ls / rs:
    magnitude |P − N| (P the positive one's aligned significant), sign of the larger, then renormalised -/
theorem tripleAdd_opp (fb : Nat) (l r : Triple) (hsg : l.sign = !r.sign) (ls rs : Nat)
    (hls : ls = if l.scale - r.scale < 0 then stickyShr l.sig (-(l.scale - r.scale)).toNat else l.sig)
    (hrs : rs = if l.scale - r.scale < 0 then r.sig else stickyShr r.sig (l.scale - r.scale).toNat)
    (b1 : 0 < ls) (b2 : ls < 2 ^ (fb + 4)) (b3 : 0 < rs) (b4 : rs < 2 ^ (fb + 4)) :
    tripleAdd fb l r =
      (if (if l.sign then rs else ls) = (if l.sign then ls else rs) then {}
       else normAdd fb (decide ((if l.sign then rs else ls) < (if l.sign then ls else rs))) (max l.scale r.scale)
              (if (if l.sign then rs else ls) < (if l.sign then ls else rs)
               then (if l.sign then ls else rs) - (if l.sign then rs else ls)
               else (if l.sign then rs else ls) - (if l.sign then ls else rs))) := by
  rw [tripleAdd_eq_addTail, ← hls, ← hrs]
  cases hl : l.sign
  · have hr : r.sign = true := by rw [hl] at hsg; cases hrr : r.sign <;> simp_all
    simp only [hr, Bool.false_eq_true, if_false, if_true]
    exact addTail_opp fb _ ls rs b2 b3 b4
  · have hr : r.sign = false := by rw [hl] at hsg; cases hrr : r.sign <;> simp_all
    simp only [hr, Bool.false_eq_true, if_false, if_true]
    rw [Nat.add_comm]
    exact addTail_opp fb _ rs ls b4 b1 b2

end UVerif.Cfloat

namespace UVerif.Cfloat

theorem stickyShr_exact (N d : Nat) (h : N % 2 ^ d = 0) : stickyShr N d = N / 2 ^ d := by
  unfold stickyShr; simp [h, Nat.shiftRight_eq_div_pow]

/-- shape of the renormalised difference: the leading bit is moved to the radix position fb+3 -/
theorem normAdd_shape (fb : Nat) (sg : Bool) (sc : Int) (m : Nat) (hm0 : 0 < m) (hm4 : m < 2 ^ (fb + 4)) :
    normAdd fb sg sc m = { zero := false, sign := sg, scale := sc - ((fb + 3 - Nat.log2 m : Nat) : Int), sig := m * 2 ^ (fb + 3 - Nat.log2 m) } ∧
    2 ^ (fb + 3) ≤ m * 2 ^ (fb + 3 - Nat.log2 m) ∧ m * 2 ^ (fb + 3 - Nat.log2 m) < 2 ^ (fb + 4) ∧
    Nat.log2 m ≤ fb + 3 ∧ 2 ^ Nat.log2 m ≤ m ∧ m < 2 ^ (Nat.log2 m + 1) := by
  have hne : m ≠ 0 := by omega
  have l1 : 2 ^ Nat.log2 m ≤ m := Nat.log2_self_le hne
  have l2 : m < 2 ^ (Nat.log2 m + 1) := Nat.lt_log2_self
  have hl : Nat.log2 m ≤ fb + 3 := by
    by_contra hc
    have : 2 ^ (fb + 4) ≤ 2 ^ Nat.log2 m := Nat.pow_le_pow_right (by omega) (by omega)
    omega
  set sh := fb + 3 - Nat.log2 m with hsh
  have e1 : 2 ^ (fb + 3) = 2 ^ Nat.log2 m * 2 ^ sh := by rw [← Nat.pow_add]; congr 1; omega
  have e2 : 2 ^ (fb + 4) = 2 ^ (Nat.log2 m + 1) * 2 ^ sh := by rw [← Nat.pow_add]; congr 1; omega
  have hS := two_pow_pos sh
  have lo : 2 ^ (fb + 3) ≤ m * 2 ^ sh := by rw [e1]; exact Nat.mul_le_mul_right _ l1
  have hi : m * 2 ^ sh < 2 ^ (fb + 4) := by rw [e2]; exact Nat.mul_lt_mul_of_pos_right l2 hS
  refine ⟨?_, lo, hi, hl, l1, l2⟩
  unfold normAdd
  by_cases h3 : 2 ^ (fb + 3) ≤ m
  · -- bit fb+3 is set: no renormalisation, and sh = 0
    have hlog : Nat.log2 m = fb + 3 := by
      by_contra hc
      have : Nat.log2 m + 1 ≤ fb + 3 := by omega
      have : 2 ^ (Nat.log2 m + 1) ≤ 2 ^ (fb + 3) := Nat.pow_le_pow_right (by omega) this
      omega
    have hsh0 : sh = 0 := by omega
    have hb3 : m.testBit (fb + 3) = true := by
      rw [Nat.testBit_eq_decide_div_mod_eq]
      have : m / 2 ^ (fb + 3) = 1 := by
        apply Nat.div_eq_of_lt_le
        · omega
        · rw [show (1 + 1) * 2 ^ (fb + 3) = 2 ^ (fb + 4) by rw [Nat.pow_succ]; ring]; exact hm4
      simp [this]
    simp [hb3, hsh0]
  · have h3' : m < 2 ^ (fb + 3) := by omega
    have hb3 : m.testBit (fb + 3) = false := Nat.testBit_lt_two_pow h3'
    have hb4 : m.testBit (fb + 4) = false := Nat.testBit_lt_two_pow hm4
    simp only [hb3, hb4, Bool.not_false, Bool.and_self, if_true]
    have h46 : 2 ^ (fb + 4) ≤ 2 ^ (fb + 6) := Nat.pow_le_pow_right (by omega) (by omega)
    rw [Nat.shiftLeft_eq, Nat.mod_eq_of_lt (lt_of_lt_of_le hi h46)]

end UVerif.Cfloat

namespace UVerif.Cfloat

/-- **rounding of a renormalised difference**: N / 2^d is the exact magnitude (in units 2^(sc − radix)) of a sum of
    two operands of opposite sign, m = stickyShr N d its sticky image computed by blocktriple::add. Either at most
    one leading bit cancelled (m ≥ 2^(fb+2): the rounding position stays ≥ 2 bits above the sticky bit) or nothing was
    shifted out (N mod 2^d = 0: the difference is exact, any amount of cancellation). In the normal range below the
    top binades the converted result is the IEEE rounding of ± N / 2^d · 2^(sc − radix). -/
theorem normAdd_round (c : Cfg) (hv : c.valid = true) (sg : Bool) (sc : Int) (N d : Nat)
    (hnarrow : c.fbits + 6 < 65)
    (hm0 : 0 < stickyShr N d) (hm4 : stickyShr N d < 2 ^ (c.fbits + 4))
    (hex : 2 ^ (c.fbits + 2) ≤ stickyShr N d ∨ N % 2 ^ d = 0)
    (hlo : c.minExpNormal ≤ sc - ((c.fbits + 3 - Nat.log2 (stickyShr N d) : Nat) : Int))
    (hhi : sc - ((c.fbits + 3 - Nat.log2 (stickyShr N d) : Nat) : Int) + c.bias + 1 < c.emax) :
    convertTriple c .add (normAdd c.fbits sg sc (stickyShr N d)) < 2 ^ c.nbits ∧
    nearestNZ c ((if sg then -1 else 1) * ((N : ℚ) / ((2 ^ d : Nat) : ℚ) * pow2 (sc - ((c.fbits + 3 : Nat) : Int))))
      (convertTriple c .add (normAdd c.fbits sg sc (stickyShr N d))) = true := by
  obtain ⟨_, hfb1, _, _⟩ := valid_facts c hv
  have hb0 := bias_nonneg c
  have hmn : c.minExpNormal = 1 - c.bias := rfl
  obtain ⟨hshape, lo, hi, hl, l1, l2⟩ := normAdd_shape c.fbits sg sc (stickyShr N d) hm0 hm4
  generalize hm : stickyShr N d = m at *
  generalize hshv : c.fbits + 3 - Nat.log2 m = sh at *
  set sig := m * 2 ^ sh with hsig
  have hrdx : Op.radix .add c.fbits = c.fbits + 3 := rfl
  have hbf : Op.bfbits .add c.fbits = c.fbits + 6 := rfl
  obtain ⟨m1, m2⟩ := sigScale_spec (c.fbits + 3) sig lo
  have hss : sigScale (c.fbits + 3) sig = 0 := by
    by_contra hc
    have : 2 ^ (c.fbits + 4) ≤ 2 ^ (sigScale (c.fbits + 3) sig + (c.fbits + 3)) := Nat.pow_le_pow_right (by omega) (by omega)
    omega
  have hct : convertTriple c .add (normAdd c.fbits sg sc m) = convertFinite c .add sg (sc - (sh : Int)) sig := by
    rw [hshape]; unfold convertTriple; simp
  rw [hct, convertFinite_eq_assemble c hv .add sg (sc - (sh : Int)) sig (by rw [hbf]; exact hnarrow)
    (by rw [hrdx, hss]; simpa using hlo) (by rw [hrdx, hss]; simpa using hhi)]
  rw [hrdx, hss]
  have ht3 : 0 + (c.fbits + 3) - c.fbits = 3 := by omega
  rw [ht3]
  have r1 : 2 ^ c.fbits ≤ sig >>> 3 := by
    rw [Nat.shiftRight_eq_div_pow, Nat.le_div_iff_mul_le (by norm_num)]
    rw [show 2 ^ (c.fbits + 3) = 2 ^ c.fbits * 2 ^ 3 by rw [Nat.pow_add]] at lo; exact lo
  have r2 : sig >>> 3 < 2 ^ (c.fbits + 1) := by
    rw [Nat.shiftRight_eq_div_pow, Nat.div_lt_iff_lt_mul (by norm_num)]
    rw [show 2 ^ (c.fbits + 4) = 2 ^ (c.fbits + 1) * 2 ^ 3 by rw [← Nat.pow_add]] at hi; exact hi
  set biased := (sc - (sh : Int) + ((0 : Nat) : Int) + c.bias).toNat with hbiased
  have hbi : (biased : Int) - c.bias = sc - (sh : Int) := by
    simp only [Nat.cast_zero, add_zero] at hbiased; omega
  have hb1 : 1 ≤ biased := by simp only [Nat.cast_zero, add_zero] at hbiased; omega
  have hb2 : biased + 1 < c.emax := by simp only [Nat.cast_zero, add_zero] at hbiased; omega
  have hD : (0 : ℚ) < ((2 ^ d : Nat) : ℚ) := by exact_mod_cast two_pow_pos d
  set X : ℚ := (N : ℚ) / ((2 ^ d : Nat) : ℚ) * pow2 (sc - ((c.fbits + 3 : Nat) : Int)) with hX
  have hpr := pow2_pos (sc - ((c.fbits + 3 : Nat) : Int))
  rcases hex with hA | hB
  · -- at most one leading bit cancelled: sh ≤ 1
    have hsh1 : sh ≤ 1 := by
      by_contra hc
      have : Nat.log2 m + 1 ≤ c.fbits + 2 := by omega
      have : 2 ^ (Nat.log2 m + 1) ≤ 2 ^ (c.fbits + 2) := Nat.pow_le_pow_right (by omega) this
      omega
    -- bounds of m: 2^(fb+3-sh) ≤ m < 2^(fb+4-sh)
    have hS := two_pow_pos sh
    have hmlo : 2 ^ (c.fbits + 3 - sh) ≤ m := by
      have e : 2 ^ (c.fbits + 3) = 2 ^ (c.fbits + 3 - sh) * 2 ^ sh := by rw [← Nat.pow_add]; congr 1; omega
      rw [e, hsig] at lo
      exact Nat.le_of_mul_le_mul_right lo hS
    have hmhi : m < 2 ^ (c.fbits + 4 - sh) := by
      have e : 2 ^ (c.fbits + 4) = 2 ^ (c.fbits + 4 - sh) * 2 ^ sh := by rw [← Nat.pow_add]; congr 1; omega
      rw [e, hsig] at hi
      exact Nat.lt_of_mul_lt_mul_right hi
    have he1 : 2 ^ (c.fbits + 3 - sh) % 2 = 0 := by
      rw [show c.fbits + 3 - sh = (c.fbits + 2 - sh) + 1 by omega, Nat.pow_succ]; omega
    have he2 : 2 ^ (c.fbits + 4 - sh) % 2 = 0 := by
      rw [show c.fbits + 4 - sh = (c.fbits + 3 - sh) + 1 by omega, Nat.pow_succ]; omega
    have hNlo : 2 ^ (c.fbits + 3 - sh) * 2 ^ d ≤ N := by
      by_contra hc
      have := (sticky_side N d _ he1).1.mpr (by omega)
      rw [hm] at this; omega
    have hNhi : N < 2 ^ (c.fbits + 4 - sh) * 2 ^ d := (sticky_side N d _ he2).1.mp (by rw [hm]; exact hmhi)
    have hXlo : pow2 ((biased : Int) - c.bias) ≤ X := by
      rw [hbi]
      have : pow2 (sc - (sh : Int)) = ((2 ^ (c.fbits + 3 - sh) : Nat) : ℚ) * pow2 (sc - ((c.fbits + 3 : Nat) : Int)) := by
        rw [← pow2_natCast, ← pow2_add]; congr 1; push_cast; omega
      rw [this, hX]
      apply mul_le_mul_of_nonneg_right _ (le_of_lt hpr)
      rw [le_div_iff₀ hD]; exact_mod_cast hNlo
    have hXhi : X < pow2 ((biased : Int) - c.bias + 1) := by
      rw [hbi]
      have : pow2 (sc - (sh : Int) + 1) = ((2 ^ (c.fbits + 4 - sh) : Nat) : ℚ) * pow2 (sc - ((c.fbits + 3 : Nat) : Int)) := by
        rw [← pow2_natCast, ← pow2_add]; congr 1; push_cast; omega
      rw [this, hX]
      apply mul_lt_mul_of_pos_right _ hpr
      rw [div_lt_iff₀ hD]; exact_mod_cast hNhi
    -- nearest-even: from sig/8 to m / 2^(3-sh) to the exact value
    have hRge : 1 ≤ rneShr sig 3 := by
      have hle := (rneShr_le sig 3).1
      exact le_trans (le_trans (two_pow_pos _) r1) hle
    have hk0 := rneShr_nearest sig 3
    simp only [] at hk0
    have hq : (sig : ℚ) / ((2 ^ 3 : Nat) : ℚ) = (m : ℚ) / ((2 ^ (3 - sh) : Nat) : ℚ) := by
      have : (2 ^ 3 : Nat) = 2 ^ (3 - sh) * 2 ^ sh := by rw [← Nat.pow_add]; congr 1; omega
      rw [hsig, this]; push_cast
      have h1 : (0 : ℚ) < (2 : ℚ) ^ sh := by positivity
      have h2 : (0 : ℚ) < (2 : ℚ) ^ (3 - sh) := by positivity
      field_simp
    rw [hq, ← hm] at hk0
    have hk1 := sticky_nearest_transfer N d (3 - sh) (rneShr sig 3) (by omega) hRge hk0
    have hquot : X / pow2 ((biased : Int) - c.bias - (c.fbits : Int)) = (N : ℚ) / ((2 ^ d : Nat) : ℚ) / ((2 ^ (3 - sh) : Nat) : ℚ) := by
      have h1 : pow2 (sc - ((c.fbits + 3 : Nat) : Int))
          = pow2 ((biased : Int) - c.bias - (c.fbits : Int)) / ((2 ^ (3 - sh) : Nat) : ℚ) := by
        rw [← pow2_natCast, ← pow2_sub]; congr 1; rw [hbi]; push_cast; omega
      have hu := pow2_pos ((biased : Int) - c.bias - (c.fbits : Int))
      have ht2 : (0 : ℚ) < ((2 ^ (3 - sh) : Nat) : ℚ) := by exact_mod_cast two_pow_pos (3 - sh)
      rw [hX, h1]; field_simp
    rw [← hquot] at hk1
    exact assemble_round_core c hv sg biased sig 3 r1 r2 hb1 hb2 X hXlo hXhi hk1
  · -- nothing was shifted out: exact difference
    have hmN : m = N / 2 ^ d := by rw [← hm]; exact stickyShr_exact N d hB
    have hNm : N = m * 2 ^ d := by
      have := Nat.div_add_mod N (2 ^ d); rw [hB, Nat.add_zero, ← hmN] at this; rw [← this]; ring
    have hXs : X = (sig : ℚ) * pow2 ((biased : Int) - c.bias - (c.fbits : Int) - ((3 : Nat) : Int)) := by
      have h1 : pow2 ((biased : Int) - c.bias - (c.fbits : Int) - ((3 : Nat) : Int))
          = pow2 (sc - ((c.fbits + 3 : Nat) : Int)) / ((2 ^ sh : Nat) : ℚ) := by
        rw [← pow2_natCast, ← pow2_sub]; congr 1; rw [hbi]; push_cast; omega
      have hS : (0 : ℚ) < ((2 ^ sh : Nat) : ℚ) := by exact_mod_cast two_pow_pos sh
      rw [hX, h1, hNm, hsig]; push_cast; field_simp
    have := assemble_round_normal c hv sg biased sig 3 r1 r2 hb1 hb2
    rw [← hXs] at this
    exact this

end UVerif.Cfloat

namespace UVerif.Cfloat

/-- sticky shift of a difference U·2^d − K with U even: the round-to-odd image of U − K/2^d is U − RO(K/2^d) -/
theorem stickyShr_sub_mul (U K d : Nat) (hU : U % 2 = 0) (hK : K ≤ U * 2 ^ d) :
    stickyShr (U * 2 ^ d - K) d = U - stickyShr K d := by
  have hH := two_pow_pos d
  have hdm := Nat.div_add_mod K (2 ^ d)
  have hr := Nat.mod_lt K hH
  unfold stickyShr
  simp only [Nat.shiftRight_eq_div_pow]
  generalize hq : K / 2 ^ d = q at *
  generalize hrr : K % 2 ^ d = r at *
  generalize 2 ^ d = H at *
  have hcm : H * q = q * H := Nat.mul_comm _ _
  by_cases hr0 : r = 0
  · subst hr0
    have hqU : q ≤ U := by
      by_contra hc
      have : U * H + H ≤ q * H := by
        have := Nat.mul_le_mul_right H (show U + 1 ≤ q by omega)
        rw [Nat.succ_mul] at this; exact this
      omega
    have e1 : U * H - K = (U - q) * H := by rw [Nat.sub_mul]; omega
    rw [e1, Nat.mul_div_cancel _ hH, Nat.mul_mod_left]
    simp
  · have hqU : q + 1 ≤ U := by
      by_contra hc
      have : U * H ≤ q * H := Nat.mul_le_mul_right H (by omega)
      omega
    have hUq : (q + 1) * H ≤ U * H := Nat.mul_le_mul_right H hqU
    rw [Nat.succ_mul] at hUq
    have e1 : U * H - K = (U - q - 1) * H + (H - r) := by
      have : (U - q - 1) * H = U * H - q * H - H := by
        rw [Nat.sub_mul, Nat.sub_mul]; simp
      omega
    have e2 : (U * H - K) / H = U - q - 1 := by
      rw [e1, Nat.add_comm, Nat.add_mul_div_right _ _ hH, Nat.div_eq_of_lt (by omega)]; omega
    have e3 : (U * H - K) % H = H - r := by
      rw [e1, Nat.add_comm, Nat.add_mul_mod_self_right, Nat.mod_eq_of_lt (by omega)]
    rw [e2, e3]
    have hne : H - r ≠ 0 := by omega
    simp only [ne_eq, hne, not_false_eq_true, if_true, hr0]
    rw [or_one_eq, or_one_eq]
    split_ifs <;> omega

end UVerif.Cfloat
