import Mathlib.Tactic.Ring
import Mathlib.Tactic.Linarith
import Mathlib.Tactic.FieldSimp
import Mathlib.Algebra.Order.Field.Power
import Mathlib.Data.Rat.Floor
import UVerifProofs.Lemmas.CfloatSub
open UVerif UVerif.Cfloat

namespace UVerif.Cfloat

theorem convertTriple_default (c : Cfg) : convertTriple c .add ({} : Triple) = 0 := by
  unfold convertTriple signBit; simp

theorem isZero_zero (c : Cfg) (hv : c.valid = true) : isZero c 0 = true ∧ 0 < 2 ^ c.nbits := by
  have s0 := signBit_facts c hv false
  have e0 : signBit c false = 0 := by unfold signBit; simp
  rw [e0] at s0
  exact ⟨isZero_of_isZeroEnc c hv _ s0.2.1, two_pow_pos _⟩

/-- **core of opposite-sign addition**: H (sign sH, fields eH ≥ eL) stays unshifted, L (sign ¬sH) is aligned with a
    sticky bit; the renormalised difference, converted, satisfies the property's expectation for vH + (−vL):
    exact cancellation gives a zero, otherwise the IEEE rounding of the exact difference with the sign of the larger -/
theorem opp_core (c : Cfg) (hv : c.valid = true) (sH : Bool) (eH fH eL fL : Nat)
    (hnarrow : c.fbits + 6 < 65) (hfH : fH < 2 ^ c.fbits) (hfL : fL < 2 ^ c.fbits) (hge : eL ≤ eH)
    (hlo : (2 ^ c.fbits + fH) * 8 ≠ stickyShr ((2 ^ c.fbits + fL) * 8) (eH - eL) →
      c.minExpNormal ≤ ((eH : Int) - c.bias) - ((c.fbits + 3 - Nat.log2
        (if stickyShr ((2 ^ c.fbits + fL) * 8) (eH - eL) < (2 ^ c.fbits + fH) * 8
         then (2 ^ c.fbits + fH) * 8 - stickyShr ((2 ^ c.fbits + fL) * 8) (eH - eL)
         else stickyShr ((2 ^ c.fbits + fL) * 8) (eH - eL) - (2 ^ c.fbits + fH) * 8) : Nat) : Int))
    (hhi : (2 ^ c.fbits + fH) * 8 ≠ stickyShr ((2 ^ c.fbits + fL) * 8) (eH - eL) →
      ((eH : Int) - c.bias) - ((c.fbits + 3 - Nat.log2
        (if stickyShr ((2 ^ c.fbits + fL) * 8) (eH - eL) < (2 ^ c.fbits + fH) * 8
         then (2 ^ c.fbits + fH) * 8 - stickyShr ((2 ^ c.fbits + fL) * 8) (eH - eL)
         else stickyShr ((2 ^ c.fbits + fL) * 8) (eH - eL) - (2 ^ c.fbits + fH) * 8) : Nat) : Int) + c.bias + 1 < c.emax) :
    satisfies c
      (expectOp "add"
        (.fin sH ((1 + (fH : ℚ) / ((2 ^ c.fbits : Nat) : ℚ)) * pow2 ((eH : Int) - c.bias)))
        (.fin (!sH) ((1 + (fL : ℚ) / ((2 ^ c.fbits : Nat) : ℚ)) * pow2 ((eL : Int) - c.bias))))
      (convertTriple c .add
        (if (2 ^ c.fbits + fH) * 8 = stickyShr ((2 ^ c.fbits + fL) * 8) (eH - eL) then ({} : Triple)
         else normAdd c.fbits (if stickyShr ((2 ^ c.fbits + fL) * 8) (eH - eL) < (2 ^ c.fbits + fH) * 8 then sH else !sH)
                ((eH : Int) - c.bias)
                (if stickyShr ((2 ^ c.fbits + fL) * 8) (eH - eL) < (2 ^ c.fbits + fH) * 8
                 then (2 ^ c.fbits + fH) * 8 - stickyShr ((2 ^ c.fbits + fL) * 8) (eH - eL)
                 else stickyShr ((2 ^ c.fbits + fL) * 8) (eH - eL) - (2 ^ c.fbits + fH) * 8))) = true := by
  have hF := two_pow_pos c.fbits
  have p2 : 2 ^ (c.fbits + 2) = 2 ^ c.fbits * 4 := by rw [Nat.pow_add]
  have p3 : 2 ^ (c.fbits + 3) = 2 ^ c.fbits * 8 := by rw [Nat.pow_add]
  have p4 : 2 ^ (c.fbits + 4) = 2 ^ c.fbits * 16 := by rw [Nat.pow_add]
  set A8 := (2 ^ c.fbits + fH) * 8 with hA8
  set B8 := (2 ^ c.fbits + fL) * 8 with hB8
  set d := eH - eL with hd
  have hD := two_pow_pos d
  have hAe : A8 % 2 = 0 := by omega
  -- the aligned operand
  have hrs_lt : stickyShr B8 d < 2 ^ (c.fbits + 4) := by
    have he : 2 ^ (c.fbits + 4) % 2 = 0 := by rw [p4]; omega
    rw [(sticky_side B8 d _ he).1]
    have : 2 ^ (c.fbits + 4) * 1 ≤ 2 ^ (c.fbits + 4) * 2 ^ d := Nat.mul_le_mul_left _ hD
    omega
  have hrs_pos : 0 < stickyShr B8 d := stickyShr_pos _ _ (by omega)
  obtain ⟨ss1, ss2⟩ := sticky_side B8 d A8 hAe
  -- exact values in units P = 2^(eH - bias - fb - 3)
  set P : ℚ := pow2 ((eH : Int) - c.bias - ((c.fbits + 3 : Nat) : Int)) with hP
  have hPpos : 0 < P := pow2_pos _
  have hFq : (0 : ℚ) < ((2 ^ c.fbits : Nat) : ℚ) := by exact_mod_cast hF
  have hDq : (0 : ℚ) < ((2 ^ d : Nat) : ℚ) := by exact_mod_cast hD
  have hvH : (1 + (fH : ℚ) / ((2 ^ c.fbits : Nat) : ℚ)) * pow2 ((eH : Int) - c.bias) = (A8 : ℚ) * P := by
    have : P = pow2 ((eH : Int) - c.bias) / (((2 ^ c.fbits : Nat) : ℚ) * 8) := by
      rw [hP, pow2_sub, pow2_natCast]; push_cast; rw [pow_add]; norm_num
    rw [this, hA8]; push_cast; field_simp
  have hvL : (1 + (fL : ℚ) / ((2 ^ c.fbits : Nat) : ℚ)) * pow2 ((eL : Int) - c.bias) = (B8 : ℚ) / ((2 ^ d : Nat) : ℚ) * P := by
    have h1 : pow2 ((eL : Int) - c.bias) = pow2 ((eH : Int) - c.bias) / ((2 ^ d : Nat) : ℚ) := by
      rw [← pow2_natCast, ← pow2_sub]; congr 1; omega
    have : P = pow2 ((eH : Int) - c.bias) / (((2 ^ c.fbits : Nat) : ℚ) * 8) := by
      rw [hP, pow2_sub, pow2_natCast]; push_cast; rw [pow_add]; norm_num
    rw [this, h1, hB8]; push_cast; field_simp
  rw [hvH, hvL]
  -- small shift distances lose nothing: 2^d divides both terms when d ≤ 3
  have hexact : d ≤ 3 → B8 % 2 ^ d = 0 ∧ (A8 * 2 ^ d) % 2 ^ d = 0 := by
    intro hd3
    refine ⟨?_, Nat.mul_mod_left _ _⟩
    have : 2 ^ d ∣ 8 := by
      have : d = 0 ∨ d = 1 ∨ d = 2 ∨ d = 3 := by omega
      rcases this with h | h | h | h <;> rw [h] <;> decide
    exact Nat.mod_eq_zero_of_dvd (Dvd.dvd.mul_left this _)
  -- large shift distances: the aligned operand is below 2^(fb+2)
  have hsmall : 2 ≤ d → stickyShr B8 d < 2 ^ (c.fbits + 2) := by
    intro hd2
    have he : 2 ^ (c.fbits + 2) % 2 = 0 := by rw [p2]; omega
    rw [(sticky_side B8 d _ he).1]
    have : 2 ^ 2 ≤ 2 ^ d := Nat.pow_le_pow_right (by omega) hd2
    have : 2 ^ (c.fbits + 2) * 2 ^ 2 ≤ 2 ^ (c.fbits + 2) * 2 ^ d := Nat.mul_le_mul_left _ this
    rw [p2] at this ⊢
    omega
  rcases Nat.lt_trichotomy (stickyShr B8 d) A8 with hlt | heq | hgt
  · -- H is larger
    have hne : A8 ≠ stickyShr B8 d := by omega
    have hBA : B8 < A8 * 2 ^ d := ss1.mp hlt
    simp only [hne, if_false, hlt, if_true] at hlo hhi ⊢
    have hmN : A8 - stickyShr B8 d = stickyShr (A8 * 2 ^ d - B8) d := (stickyShr_sub_mul A8 B8 d hAe (le_of_lt hBA)).symm
    have hex : 2 ^ (c.fbits + 2) ≤ stickyShr (A8 * 2 ^ d - B8) d ∨ (A8 * 2 ^ d - B8) % 2 ^ d = 0 := by
      by_cases hd3 : d ≤ 3
      · right
        obtain ⟨h1, h2⟩ := hexact hd3
        exact (Nat.sub_mod_eq_zero_of_mod_eq (by rw [h1, h2]))
      · left
        rw [← hmN]
        have := hsmall (by omega)
        omega
    rw [hmN] at hlo hhi ⊢
    obtain ⟨hr1, hr2⟩ := normAdd_round c hv sH ((eH : Int) - c.bias) (A8 * 2 ^ d - B8) d hnarrow
      (by rw [← hmN]; omega) (by rw [← hmN]; omega) hex (hlo hne) (hhi hne)
    have hval : ((A8 * 2 ^ d - B8 : Nat) : ℚ) / ((2 ^ d : Nat) : ℚ) * P = (A8 : ℚ) * P - (B8 : ℚ) / ((2 ^ d : Nat) : ℚ) * P := by
      rw [Nat.cast_sub (le_of_lt hBA)]; push_cast; field_simp
    have hposd : 0 < (A8 : ℚ) * P - (B8 : ℚ) / ((2 ^ d : Nat) : ℚ) * P := by
      rw [← hval]
      have : (0 : ℚ) < ((A8 * 2 ^ d - B8 : Nat) : ℚ) := by exact_mod_cast (show 0 < A8 * 2 ^ d - B8 by omega)
      positivity
    have hexp : expectOp "add" (Val.fin sH ((A8 : ℚ) * P)) (Val.fin (!sH) ((B8 : ℚ) / ((2 ^ d : Nat) : ℚ) * P))
        = .real ((if sH = true then -1 else 1) * (((A8 * 2 ^ d - B8 : Nat) : ℚ) / ((2 ^ d : Nat) : ℚ) * P)) := by
      rw [hval]
      simp only [expectOp]
      cases sH
      · simp only [Bool.false_eq_true, if_false, Bool.not_false, if_true]
        rw [if_neg (by linarith)]; congr 1; ring
      · simp only [if_true, Bool.not_true, Bool.false_eq_true, if_false]
        rw [if_neg (by linarith)]; congr 1; ring
    rw [hexp]
    unfold satisfies
    simp only [Bool.and_eq_true, decide_eq_true_eq]
    exact ⟨hr1, hr2⟩
  · -- exact cancellation
    have hAB : B8 = A8 * 2 ^ d := by
      have a1 : ¬ B8 < A8 * 2 ^ d := fun h => by have := ss1.mpr h; omega
      have a2 : ¬ A8 * 2 ^ d < B8 := fun h => by have := ss2.mpr h; omega
      omega
    rw [if_pos heq.symm, convertTriple_default]
    have hz : (B8 : ℚ) / ((2 ^ d : Nat) : ℚ) * P = (A8 : ℚ) * P := by
      rw [hAB]; push_cast; field_simp
    have hexp : expectOp "add" (Val.fin sH ((A8 : ℚ) * P)) (Val.fin (!sH) ((B8 : ℚ) / ((2 ^ d : Nat) : ℚ) * P)) = .zero none := by
      rw [hz]
      simp only [expectOp]
      cases sH <;> simp
    rw [hexp]
    obtain ⟨z1, z2⟩ := isZero_zero c hv
    exact sat_zero_any c hv 0 z2 z1
  · -- L is larger (only possible for small shift distances)
    have hne : A8 ≠ stickyShr B8 d := by omega
    have hnlt : ¬ stickyShr B8 d < A8 := by omega
    have hAB : A8 * 2 ^ d < B8 := ss2.mp hgt
    have hd1 : d ≤ 1 := by
      by_contra hc
      have := hsmall (by omega)
      omega
    simp only [hne, if_false, hnlt] at hlo hhi ⊢
    have hBsplit : B8 = A8 * 2 ^ d + (B8 - A8 * 2 ^ d) := by omega
    have hmN : stickyShr B8 d - A8 = stickyShr (B8 - A8 * 2 ^ d) d := by
      have := stickyShr_add_mul A8 (B8 - A8 * 2 ^ d) d hAe
      rw [← hBsplit] at this
      omega
    have hex : 2 ^ (c.fbits + 2) ≤ stickyShr (B8 - A8 * 2 ^ d) d ∨ (B8 - A8 * 2 ^ d) % 2 ^ d = 0 := by
      right
      obtain ⟨h1, h2⟩ := hexact (by omega)
      exact (Nat.sub_mod_eq_zero_of_mod_eq (by rw [h1, h2]))
    rw [hmN] at hlo hhi ⊢
    obtain ⟨hr1, hr2⟩ := normAdd_round c hv (!sH) ((eH : Int) - c.bias) (B8 - A8 * 2 ^ d) d hnarrow
      (by rw [← hmN]; omega) (by rw [← hmN]; omega) hex (hlo hne) (hhi hne)
    have hval : ((B8 - A8 * 2 ^ d : Nat) : ℚ) / ((2 ^ d : Nat) : ℚ) * P = (B8 : ℚ) / ((2 ^ d : Nat) : ℚ) * P - (A8 : ℚ) * P := by
      rw [Nat.cast_sub (le_of_lt hAB)]; push_cast; field_simp
    have hposd : 0 < (B8 : ℚ) / ((2 ^ d : Nat) : ℚ) * P - (A8 : ℚ) * P := by
      rw [← hval]
      have : (0 : ℚ) < ((B8 - A8 * 2 ^ d : Nat) : ℚ) := by exact_mod_cast (show 0 < B8 - A8 * 2 ^ d by omega)
      positivity
    have hexp : expectOp "add" (Val.fin sH ((A8 : ℚ) * P)) (Val.fin (!sH) ((B8 : ℚ) / ((2 ^ d : Nat) : ℚ) * P))
        = .real ((if (!sH) = true then -1 else 1) * (((B8 - A8 * 2 ^ d : Nat) : ℚ) / ((2 ^ d : Nat) : ℚ) * P)) := by
      rw [hval]
      simp only [expectOp]
      cases sH
      · simp only [Bool.false_eq_true, if_false, Bool.not_false, if_true]
        rw [if_neg (by linarith)]; congr 1; ring
      · simp only [if_true, Bool.not_true, Bool.false_eq_true, if_false]
        rw [if_neg (by linarith)]; congr 1; ring
    rw [hexp]
    unfold satisfies
    simp only [Bool.and_eq_true, decide_eq_true_eq]
    exact ⟨hr1, hr2⟩

end UVerif.Cfloat

namespace UVerif.Cfloat

/-- the two-operand form produced by `tripleAdd_opp` (P positive, N negative) in terms of the unshifted (U) and the
    aligned (V) significant; `posU` says whether U belongs to the positive operand -/
theorem opp_norm (fb : Nat) (sc : Int) (U V : Nat) (posU : Bool) :
    (if (if posU then U else V) = (if posU then V else U) then ({} : Triple)
     else normAdd fb (decide ((if posU then U else V) < (if posU then V else U))) sc
            (if (if posU then U else V) < (if posU then V else U)
             then (if posU then V else U) - (if posU then U else V)
             else (if posU then U else V) - (if posU then V else U)))
    = (if U = V then ({} : Triple) else normAdd fb (if V < U then !posU else posU) sc (if V < U then U - V else V - U)) := by
  cases posU
  · simp only [Bool.false_eq_true, if_false, Bool.not_false]
    rcases Nat.lt_trichotomy V U with h | h | h
    · have h1 : ¬ V = U := by omega
      have h2 : ¬ U = V := by omega
      simp [h, h1, h2]
    · subst h; simp
    · have h1 : ¬ V = U := by omega
      have h2 : ¬ U = V := by omega
      have h3 : ¬ V < U := by omega
      simp [h3, h1, h2]
  · simp only [if_true, Bool.not_true]
    rcases Nat.lt_trichotomy V U with h | h | h
    · have h2 : ¬ U = V := by omega
      have h3 : ¬ U < V := by omega
      simp [h, h2, h3]
    · subst h; simp
    · have h2 : ¬ U = V := by omega
      have h3 : ¬ V < U := by omega
      simp [h, h2, h3]

/-- **addition of two finite operands of opposite sign**, left operand with the larger or equal exponent field -/
theorem add_opp_sign_ge (c : Cfg) (hv : c.valid = true) (a b : Nat)
    (hnarrow : c.fbits + 6 < 65)
    (hna : normalOperand c a = true) (hnb : normalOperand c b = true)
    (hsign : c.signOf b = !c.signOf a) (hge : c.expOf b ≤ c.expOf a)
    (hlo : (2 ^ c.fbits + c.fracOf a) * 8 ≠ stickyShr ((2 ^ c.fbits + c.fracOf b) * 8) (c.expOf a - c.expOf b) →
      c.minExpNormal ≤ ((c.expOf a : Int) - c.bias) - ((c.fbits + 3 - Nat.log2
        (if stickyShr ((2 ^ c.fbits + c.fracOf b) * 8) (c.expOf a - c.expOf b) < (2 ^ c.fbits + c.fracOf a) * 8
         then (2 ^ c.fbits + c.fracOf a) * 8 - stickyShr ((2 ^ c.fbits + c.fracOf b) * 8) (c.expOf a - c.expOf b)
         else stickyShr ((2 ^ c.fbits + c.fracOf b) * 8) (c.expOf a - c.expOf b) - (2 ^ c.fbits + c.fracOf a) * 8) : Nat) : Int))
    (hhi : (2 ^ c.fbits + c.fracOf a) * 8 ≠ stickyShr ((2 ^ c.fbits + c.fracOf b) * 8) (c.expOf a - c.expOf b) →
      ((c.expOf a : Int) - c.bias) - ((c.fbits + 3 - Nat.log2
        (if stickyShr ((2 ^ c.fbits + c.fracOf b) * 8) (c.expOf a - c.expOf b) < (2 ^ c.fbits + c.fracOf a) * 8
         then (2 ^ c.fbits + c.fracOf a) * 8 - stickyShr ((2 ^ c.fbits + c.fracOf b) * 8) (c.expOf a - c.expOf b)
         else stickyShr ((2 ^ c.fbits + c.fracOf b) * 8) (c.expOf a - c.expOf b) - (2 ^ c.fbits + c.fracOf a) * 8) : Nat) : Int)
        + c.bias + 1 < c.emax) :
    satisfies c (expectOp "add" (cfVal c a) (cfVal c b)) (add c a b) = true := by
  obtain ⟨na, ia, za, ea, va⟩ := normalOperand_facts c hv a hna
  obtain ⟨nb, ib, zb, eb, vb⟩ := normalOperand_facts c hv b hnb
  have hF := two_pow_pos c.fbits
  have hfa := fracOf_lt c a
  have hfb := fracOf_lt c b
  have p4 : 2 ^ (c.fbits + 4) = 2 ^ c.fbits * 16 := by rw [Nat.pow_add]
  set U := (2 ^ c.fbits + c.fracOf a) * 8 with hU
  set V := stickyShr ((2 ^ c.fbits + c.fracOf b) * 8) (c.expOf a - c.expOf b) with hV
  have hVlt : V < 2 ^ (c.fbits + 4) := by
    have he : 2 ^ (c.fbits + 4) % 2 = 0 := by rw [p4]; omega
    rw [hV, (sticky_side _ _ _ he).1]
    have : 2 ^ (c.fbits + 4) * 1 ≤ 2 ^ (c.fbits + 4) * 2 ^ (c.expOf a - c.expOf b) := Nat.mul_le_mul_left _ (two_pow_pos _)
    omega
  have hVpos : 0 < V := stickyShr_pos _ _ (by omega)
  have hdn : ¬ ((c.expOf a : Int) - c.bias - ((c.expOf b : Int) - c.bias) < 0) := by omega
  have hdI : ((c.expOf a : Int) - c.bias - ((c.expOf b : Int) - c.bias)).toNat = c.expOf a - c.expOf b := by omega
  have e3 : ∀ x : Nat, x <<< 3 = x * 8 := by intro x; rw [Nat.shiftLeft_eq]
  have hta := tripleAdd_opp c.fbits
    { zero := false, sign := c.signOf a, scale := (c.expOf a : Int) - c.bias, sig := (2 ^ c.fbits + c.fracOf a) <<< 3 }
    { zero := false, sign := c.signOf b, scale := (c.expOf b : Int) - c.bias, sig := (2 ^ c.fbits + c.fracOf b) <<< 3 }
    (by simp [hsign]) U V (by simp only [hdn, if_false, e3]; rfl) (by simp only [hdn, if_false, e3, hdI]; rfl)
    (by omega) (by omega) hVpos hVlt
  have hmax : max ((c.expOf a : Int) - c.bias) ((c.expOf b : Int) - c.bias) = (c.expOf a : Int) - c.bias := max_eq_left (by omega)
  simp only [hmax] at hta
  have hnorm : (if (if c.signOf a = true then V else U) = (if c.signOf a = true then U else V) then ({} : Triple)
       else normAdd c.fbits (decide ((if c.signOf a = true then V else U) < (if c.signOf a = true then U else V))) ((c.expOf a : Int) - c.bias)
              (if (if c.signOf a = true then V else U) < (if c.signOf a = true then U else V)
               then (if c.signOf a = true then U else V) - (if c.signOf a = true then V else U)
               else (if c.signOf a = true then V else U) - (if c.signOf a = true then U else V)))
      = (if U = V then ({} : Triple) else normAdd c.fbits (if V < U then c.signOf a else !c.signOf a) ((c.expOf a : Int) - c.bias) (if V < U then U - V else V - U)) := by
    have := opp_norm c.fbits ((c.expOf a : Int) - c.bias) U V (!c.signOf a)
    cases hs : c.signOf a <;> simp only [hs, Bool.not_false, Bool.not_true, if_true, if_false, Bool.false_eq_true] at this ⊢ <;> exact this
  rw [hnorm] at hta
  have hadd : add c a b = convertTriple c .add
      (if U = V then ({} : Triple) else normAdd c.fbits (if V < U then c.signOf a else !c.signOf a) ((c.expOf a : Int) - c.bias) (if V < U then U - V else V - U)) := by
    unfold add
    rw [prologue_skip c a b _ na nb]
    simp only [ia, ib, za, zb, Bool.false_eq_true, if_false]
    rw [normalizeOp_add_normal c a ea, normalizeOp_add_normal c b eb, hta]
  rw [va, vb, hsign, hadd]
  exact opp_core c hv (c.signOf a) (c.expOf a) (c.fracOf a) (c.expOf b) (c.fracOf b) hnarrow hfa hfb hge hlo hhi

end UVerif.Cfloat

namespace UVerif.Cfloat

theorem expect_add_comm_fin (s t : Bool) (x y : ℚ) :
    expectOp "add" (.fin s x) (.fin t y) = expectOp "add" (.fin t y) (.fin s x) := by
  simp only [expectOp]
  rw [add_comm (if s = true then -x else x)]

/-- the mirrored case: the right operand has the larger exponent field -/
theorem add_opp_sign_lt (c : Cfg) (hv : c.valid = true) (a b : Nat)
    (hnarrow : c.fbits + 6 < 65)
    (hna : normalOperand c a = true) (hnb : normalOperand c b = true)
    (hsign : c.signOf b = !c.signOf a) (hlt : c.expOf a < c.expOf b)
    (hlo : (2 ^ c.fbits + c.fracOf b) * 8 ≠ stickyShr ((2 ^ c.fbits + c.fracOf a) * 8) (c.expOf b - c.expOf a) →
      c.minExpNormal ≤ ((c.expOf b : Int) - c.bias) - ((c.fbits + 3 - Nat.log2
        (if stickyShr ((2 ^ c.fbits + c.fracOf a) * 8) (c.expOf b - c.expOf a) < (2 ^ c.fbits + c.fracOf b) * 8
         then (2 ^ c.fbits + c.fracOf b) * 8 - stickyShr ((2 ^ c.fbits + c.fracOf a) * 8) (c.expOf b - c.expOf a)
         else stickyShr ((2 ^ c.fbits + c.fracOf a) * 8) (c.expOf b - c.expOf a) - (2 ^ c.fbits + c.fracOf b) * 8) : Nat) : Int))
    (hhi : (2 ^ c.fbits + c.fracOf b) * 8 ≠ stickyShr ((2 ^ c.fbits + c.fracOf a) * 8) (c.expOf b - c.expOf a) →
      ((c.expOf b : Int) - c.bias) - ((c.fbits + 3 - Nat.log2
        (if stickyShr ((2 ^ c.fbits + c.fracOf a) * 8) (c.expOf b - c.expOf a) < (2 ^ c.fbits + c.fracOf b) * 8
         then (2 ^ c.fbits + c.fracOf b) * 8 - stickyShr ((2 ^ c.fbits + c.fracOf a) * 8) (c.expOf b - c.expOf a)
         else stickyShr ((2 ^ c.fbits + c.fracOf a) * 8) (c.expOf b - c.expOf a) - (2 ^ c.fbits + c.fracOf b) * 8) : Nat) : Int)
        + c.bias + 1 < c.emax) :
    satisfies c (expectOp "add" (cfVal c a) (cfVal c b)) (add c a b) = true := by
  obtain ⟨na, ia, za, ea, va⟩ := normalOperand_facts c hv a hna
  obtain ⟨nb, ib, zb, eb, vb⟩ := normalOperand_facts c hv b hnb
  have hF := two_pow_pos c.fbits
  have hfa := fracOf_lt c a
  have hfb := fracOf_lt c b
  have p4 : 2 ^ (c.fbits + 4) = 2 ^ c.fbits * 16 := by rw [Nat.pow_add]
  set U := (2 ^ c.fbits + c.fracOf b) * 8 with hU
  set V := stickyShr ((2 ^ c.fbits + c.fracOf a) * 8) (c.expOf b - c.expOf a) with hV
  have hVlt : V < 2 ^ (c.fbits + 4) := by
    have he : 2 ^ (c.fbits + 4) % 2 = 0 := by rw [p4]; omega
    rw [hV, (sticky_side _ _ _ he).1]
    have : 2 ^ (c.fbits + 4) * 1 ≤ 2 ^ (c.fbits + 4) * 2 ^ (c.expOf b - c.expOf a) := Nat.mul_le_mul_left _ (two_pow_pos _)
    omega
  have hVpos : 0 < V := stickyShr_pos _ _ (by omega)
  have hdn : ((c.expOf a : Int) - c.bias - ((c.expOf b : Int) - c.bias) < 0) := by omega
  have hdI : (-((c.expOf a : Int) - c.bias - ((c.expOf b : Int) - c.bias))).toNat = c.expOf b - c.expOf a := by omega
  have e3 : ∀ x : Nat, x <<< 3 = x * 8 := by intro x; rw [Nat.shiftLeft_eq]
  have hsa : c.signOf a = !c.signOf b := by rw [hsign]; simp
  have hta := tripleAdd_opp c.fbits
    { zero := false, sign := c.signOf a, scale := (c.expOf a : Int) - c.bias, sig := (2 ^ c.fbits + c.fracOf a) <<< 3 }
    { zero := false, sign := c.signOf b, scale := (c.expOf b : Int) - c.bias, sig := (2 ^ c.fbits + c.fracOf b) <<< 3 }
    (by simp [hsign]) V U (by simp only [hdn, if_true, e3, hdI]; rfl) (by simp only [hdn, if_true, e3]; rfl)
    hVpos hVlt (by omega) (by omega)
  have hmax : max ((c.expOf a : Int) - c.bias) ((c.expOf b : Int) - c.bias) = (c.expOf b : Int) - c.bias := max_eq_right (by omega)
  simp only [hmax] at hta
  have hnorm : (if (if c.signOf a = true then U else V) = (if c.signOf a = true then V else U) then ({} : Triple)
       else normAdd c.fbits (decide ((if c.signOf a = true then U else V) < (if c.signOf a = true then V else U))) ((c.expOf b : Int) - c.bias)
              (if (if c.signOf a = true then U else V) < (if c.signOf a = true then V else U)
               then (if c.signOf a = true then V else U) - (if c.signOf a = true then U else V)
               else (if c.signOf a = true then U else V) - (if c.signOf a = true then V else U)))
      = (if U = V then ({} : Triple) else normAdd c.fbits (if V < U then c.signOf b else !c.signOf b) ((c.expOf b : Int) - c.bias) (if V < U then U - V else V - U)) := by
    have := opp_norm c.fbits ((c.expOf b : Int) - c.bias) U V (c.signOf a)
    rw [hsign]
    cases hs : c.signOf a <;> simp only [hs, Bool.not_false, Bool.not_true, if_true, if_false, Bool.false_eq_true] at this ⊢ <;> exact this
  rw [hnorm] at hta
  have hadd : add c a b = convertTriple c .add
      (if U = V then ({} : Triple) else normAdd c.fbits (if V < U then c.signOf b else !c.signOf b) ((c.expOf b : Int) - c.bias) (if V < U then U - V else V - U)) := by
    unfold add
    rw [prologue_skip c a b _ na nb]
    simp only [ia, ib, za, zb, Bool.false_eq_true, if_false]
    rw [normalizeOp_add_normal c a ea, normalizeOp_add_normal c b eb, hta]
  rw [va, vb, expect_add_comm_fin, hadd]
  have := opp_core c hv (c.signOf b) (c.expOf b) (c.fracOf b) (c.expOf a) (c.fracOf a) hnarrow hfb hfa (le_of_lt hlt) hlo hhi
  rw [← hsa] at this ⊢
  exact this

end UVerif.Cfloat
