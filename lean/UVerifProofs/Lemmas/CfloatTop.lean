import Mathlib.Tactic.Ring
import Mathlib.Tactic.Linarith
import Mathlib.Tactic.FieldSimp
import Mathlib.Tactic.ByContra
import Mathlib.Algebra.Order.Field.Power
import Mathlib.Data.Rat.Floor
import UVerifProofs.Lemmas.CfloatMaster
import UVerifProofs.Lemmas.CfloatOverflow
open UVerif UVerif.Cfloat

/-!
  The two binades next to the inf/NaN encodings (biased exponent emax − 1 and emax) in `convert`: the general
  shape of `assemble`, the value of supernormal encodings, when exactly the spec says "overflow", and the input
  class of the known defect D4.
-/
namespace UVerif.Cfloat

/-- a nearest-even integer is what `rne` computes -/
theorem nearEven_rne (z : ℚ) (R : Nat) (h : NearEven z R) : rne z = (R : Int) := by
  unfold NearEven at h
  have h1 : ((⌊z⌋ : Int) : ℚ) ≤ z := Int.floor_le z
  have h2 : z < ((⌊z⌋ : Int) : ℚ) + 1 := Int.lt_floor_add_one z
  unfold rne
  simp only []
  have hfl : z.floor = ⌊z⌋ := rfl
  rw [hfl]
  generalize ⌊z⌋ = f at *
  split_ifs with c1 c2 c3
  · -- fraction below one half
    have a1 : ((f : Int) : ℚ) - 1 < ((R : Int) : ℚ) := by
      push_cast; rcases h with ⟨_, hb⟩ | ⟨hb | hb, _⟩ <;> linarith
    have a2 : ((R : Int) : ℚ) < ((f : Int) : ℚ) + 1 := by
      push_cast; rcases h with ⟨ha, _⟩ | ⟨hb | hb, _⟩ <;> linarith
    have b1 : f - 1 < (R : Int) := by exact_mod_cast a1
    have b2 : (R : Int) < f + 1 := by exact_mod_cast a2
    omega
  · have a1 : ((f : Int) : ℚ) < ((R : Int) : ℚ) := by
      push_cast; rcases h with ⟨_, hb⟩ | ⟨hb | hb, _⟩ <;> linarith
    have a2 : ((R : Int) : ℚ) < ((f : Int) : ℚ) + 2 := by
      push_cast; rcases h with ⟨ha, _⟩ | ⟨hb | hb, _⟩ <;> linarith
    have b1 : f < (R : Int) := by exact_mod_cast a1
    have b2 : (R : Int) < f + 2 := by exact_mod_cast a2
    omega
  · -- tie, floor even
    have hz : z = (f : ℚ) + 1 / 2 := by linarith
    rcases h with ⟨ha, hb⟩ | ⟨hb, hev⟩
    · exfalso
      have a1 : ((f : Int) : ℚ) - 1 < ((R : Int) : ℚ) := by push_cast; linarith
      have a2 : ((R : Int) : ℚ) < ((f : Int) : ℚ) + 1 := by push_cast; linarith
      have a3 : ((R : Int) : ℚ) ≠ (f : ℚ) := by push_cast; intro hh; rw [hz, hh] at hb; linarith
      have b1 : f - 1 < (R : Int) := by exact_mod_cast a1
      have b2 : (R : Int) < f + 1 := by exact_mod_cast a2
      have b3 : (R : Int) ≠ f := by exact_mod_cast a3
      omega
    · rcases hb with hb | hb
      · have : ((R : Int) : ℚ) = (f : ℚ) := by push_cast; linarith
        exact_mod_cast this.symm
      · exfalso
        have : ((R : Int) : ℚ) = ((f + 1 : Int) : ℚ) := by push_cast; linarith
        have : (R : Int) = f + 1 := by exact_mod_cast this
        omega
  · have hz : z = (f : ℚ) + 1 / 2 := by linarith
    rcases h with ⟨ha, hb⟩ | ⟨hb, hev⟩
    · exfalso
      have a1 : ((f : Int) : ℚ) - 1 < ((R : Int) : ℚ) := by push_cast; linarith
      have a2 : ((R : Int) : ℚ) < ((f : Int) : ℚ) + 1 := by push_cast; linarith
      have a3 : ((R : Int) : ℚ) ≠ (f : ℚ) := by push_cast; intro hh; rw [hz, hh] at hb; linarith
      have b1 : f - 1 < (R : Int) := by exact_mod_cast a1
      have b2 : (R : Int) < f + 1 := by exact_mod_cast a2
      have b3 : (R : Int) ≠ f := by exact_mod_cast a3
      omega
    · rcases hb with hb | hb
      · exfalso
        have : ((R : Int) : ℚ) = (f : ℚ) := by push_cast; linarith
        have : (R : Int) = f := by exact_mod_cast this
        omega
      · have : ((R : Int) : ℚ) = ((f + 1 : Int) : ℚ) := by push_cast; linarith
        exact_mod_cast this.symm

theorem nearEven_lt_of_le_odd (z : ℚ) (R K : Nat) (h : NearEven z R) (hRK : R ≤ K) (hodd : K % 2 = 1) :
    z < (K : ℚ) + 1 / 2 := by
  unfold NearEven at h
  have hRKq : (R : ℚ) ≤ (K : ℚ) := by exact_mod_cast hRK
  rcases h with ⟨_, hb⟩ | ⟨hb, hev⟩
  · linarith
  · have hne : R ≠ K := by intro hh; rw [hh] at hev; omega
    have : R + 1 ≤ K := by omega
    have : (R : ℚ) + 1 ≤ (K : ℚ) := by exact_mod_cast this
    rcases hb with hb | hb <;> linarith

theorem nearEven_ge_of_lt (z : ℚ) (R K : Nat) (h : NearEven z R) (hRK : K + 1 ≤ R) : (K : ℚ) + 1 / 2 ≤ z := by
  unfold NearEven at h
  have hRKq : (K : ℚ) + 1 ≤ (R : ℚ) := by exact_mod_cast hRK
  rcases h with ⟨ha, _⟩ | ⟨hb | hb, _⟩ <;> linarith

end UVerif.Cfloat

namespace UVerif.Cfloat

/-- the input class of D4 holds as soon as the nearest-even image of X is one of the two cusp values -/
theorem pattern_true (c : Cfg) (X : ℚ) (E : Int) (R : Nat)
    (hXlo : pow2 E ≤ X) (hXhi : X < pow2 (E + 1)) (hEn : 1 - c.bias ≤ E) (hEtop : E ≤ (c.emax : Int) - c.bias)
    (hNE : NearEven (X / pow2 (E - (c.fbits : Int))) R)
    (hval : (R : ℚ) * pow2 (E - (c.fbits : Int)) = (2 - 2 / ((2 ^ c.fbits : Nat) : ℚ)) * pow2 ((c.emax : Int) - c.bias) ∨
            (R : ℚ) * pow2 (E - (c.fbits : Int)) = pow2 ((c.emax : Int) - c.bias + 1)) :
    roundsToInfPattern c X = true := by
  have hfl : floorLog2 X = E := floorLog2_eq X E hXlo hXhi
  have hu : ulpAt c X = pow2 (E - (c.fbits : Int)) := by
    unfold ulpAt; simp only [hfl]; rw [if_neg (by omega)]
  have hr := nearEven_rne _ R hNE
  unfold roundsToInfPattern
  simp only [hu, hr, hfl]
  have e : (((R : Int) : ℚ)) = (R : ℚ) := by push_cast; rfl
  rw [e]
  rcases hval with h | h
  · rw [h]; simp [hEtop]
  · rw [h]; simp [hEtop]

/-- **the two top binades** (biased exponent emax − 1 and emax, es ≥ 2): the encoding `assemble` produces for a
    rounded significant R that is a nearest-even image of X / ulp satisfies the rounding relation, provided the
    inputs are outside the two recorded classes: saturating with supernormals and X overflows; saturating
    without supernormals and X rounds onto the inf pattern -/
theorem top_round_core (c : Cfg) (hv : c.valid = true) (hg : Gen c) (sign : Bool) (biased R : Nat) (X : ℚ)
    (hb : biased + 1 = c.emax ∨ biased = c.emax) (hb1 : 1 ≤ biased)
    (hR1 : 2 ^ c.fbits ≤ R) (hR2 : R ≤ 2 ^ (c.fbits + 1))
    (hXlo : pow2 ((biased : Int) - c.bias) ≤ X) (hXhi : X < pow2 ((biased : Int) - c.bias + 1))
    (hk : NearEven (X / pow2 ((biased : Int) - c.bias - (c.fbits : Int))) R)
    (hss : c.sat = true → c.sup = true → overflows c X = false)
    (hsn : c.sat = true → c.sup = false → roundsToInfPattern c X = false) :
    nanRemap c sign (asmFrac c biased R + 2 ^ c.fbits * asmExp c biased R + signBit c sign) < 2 ^ c.nbits ∧
    nearestNZ c ((if sign then -1 else 1) * X)
      (nanRemap c sign (asmFrac c biased R + 2 ^ c.fbits * asmExp c biased R + signBit c sign)) = true := by
  obtain ⟨hes, hfb, _, _⟩ := valid_facts c hv
  have hb0 := bias_nonneg c
  have hFn := two_pow_pos c.fbits
  have hF2n : 2 ≤ 2 ^ c.fbits := two_le_pow_fbits c hv
  have hFF : 2 ^ (c.fbits + 1) = 2 * 2 ^ c.fbits := by rw [Nat.pow_succ]; omega
  have hE1 := emax_pos c hv
  have hes2of : c.sup = false → 2 ≤ c.es := by
    intro hs
    rcases gen_cases c hv hg with h2 | ⟨_, _, hs', _⟩
    · exact h2
    · rw [hs] at hs'; cases hs'
  have hel := emax_lt c
  obtain ⟨E, hE⟩ : ∃ E : Int, E = (biased : Int) - c.bias := ⟨_, rfl⟩
  rw [← hE] at hXlo hXhi hk
  have hXpos : 0 < X := lt_of_lt_of_le (pow2_pos E) hXlo
  have hEn : 1 - c.bias ≤ E := by omega
  have hEtop : E ≤ (c.emax : Int) - c.bias := by omega
  have hminN : ¬ (X < minNormal c) := by
    unfold minNormal
    exact not_lt.mpr (le_trans (pow2_le_pow2.mpr hEn) hXlo)
  obtain ⟨u, hu⟩ : ∃ u : ℚ, u = pow2 (E - (c.fbits : Int)) := ⟨_, rfl⟩
  have hupos : 0 < u := by rw [hu]; exact pow2_pos _
  rw [← hu] at hk
  obtain ⟨F, hFdef⟩ : ∃ F : ℚ, F = ((2 ^ c.fbits : Nat) : ℚ) := ⟨_, rfl⟩
  have hFpos : (0 : ℚ) < F := by rw [hFdef]; exact_mod_cast hFn
  have hF2 : (2 : ℚ) ≤ F := by rw [hFdef]; exact_mod_cast hF2n
  have hpE : pow2 E = F * u := by
    rw [hu, hFdef, pow2_sub E, pow2_natCast]; field_simp
  have hpE1 : pow2 (E + 1) = 2 * F * u := by rw [pow2_succ, hpE]; ring
  obtain ⟨q, hq⟩ : ∃ q : ℚ, q = X / u := ⟨_, rfl⟩
  have hXq : X = q * u := by rw [hq]; field_simp
  have hkX : NearEven (X / u) R := hk
  rw [← hq] at hk
  have hFpow : (2 : ℚ) ^ c.fbits = F := by rw [hFdef]; push_cast; rfl
  have hR1q : F ≤ (R : ℚ) := by rw [hFdef]; exact_mod_cast hR1
  have hR2q : (R : ℚ) ≤ 2 * F := by
    rw [hFdef]; have : R ≤ 2 * 2 ^ c.fbits := by omega
    exact_mod_cast this
  -- casts of the odd bounds
  have hK1 : ((2 ^ (c.fbits + 1) - 1 : Nat) : ℚ) = 2 * F - 1 := by
    rw [Nat.cast_sub (two_pow_pos _), hFdef]; push_cast; rw [pow_succ]; ring
  have hK3 : 3 ≤ 2 ^ c.fbits → ((2 ^ (c.fbits + 1) - 3 : Nat) : ℚ) = 2 * F - 3 := by
    intro h3
    rw [Nat.cast_sub (by omega), hFdef]; push_cast; rw [pow_succ]; ring
  -- the two remap targets
  have infCase : ∀ r : Nat, r < 2 ^ c.nbits → cfVal c r = .inf sign → overflows c X = true →
      (c.sat = true → False) → r < 2 ^ c.nbits ∧ nearestNZ c ((if sign then -1 else 1) * X) r = true := by
    intro r hr hvr hov hns
    refine ⟨hr, nearestNZ_intro_inf c r sign X hXpos hvr ?_ hov⟩
    cases hsat : c.sat
    · rfl
    · exact (hns hsat).elim
  have remapCase : ∀ raw : Nat, isNan c raw = true → overflows c X = true → (c.sat = true → c.sup = true → False) →
      nanRemap c sign raw < 2 ^ c.nbits ∧ nearestNZ c ((if sign then -1 else 1) * X) (nanRemap c sign raw) = true := by
    intro raw hn hov hns
    unfold nanRemap
    rw [if_pos hn]
    cases hsat : c.sat
    · simp only [Bool.false_eq_true, if_false]
      have sf := setInf_facts c hv sign
      have hv' : cfVal c (setInf c sign) = .inf sign := by rw [(cfVal_isInf c hv _).mp sf.2.1, sf.2.2]
      exact ⟨sf.1, nearestNZ_intro_inf c _ sign X hXpos hv' hsat hov⟩
    · simp only [if_true]
      have hsup : c.sup = false := by
        cases hs : c.sup
        · rfl
        · exact (hns hsat hs).elim
      obtain ⟨hr, hvm⟩ := cfVal_maxpos_nosup c hv (hes2of hsup) hsup sign
      exact ⟨hr, nearestNZ_intro_sat c _ sign X hXpos hvm hsat hov hminN⟩
  have keep : ∀ raw : Nat, isNan c raw = false → nanRemap c sign raw = raw := by
    intro raw hn; unfold nanRemap; rw [hn]; simp
  -- the overflow threshold
  by_cases hsupF : c.sup = true ∧ 2 ^ c.fbits ≥ 3
  · -- supernormals with fbits ≥ 2: maxFinite = (2F − 3)·2^(top − fb)
    have hov := overflows_sup c hv hsupF X
    rw [hK3 hsupF.2] at hov
    have hmaxF := maxFinite_sup c hsupF
    rw [hK3 hsupF.2] at hmaxF
    have hF3 : (3 : ℚ) ≤ F := by rw [hFdef]; exact_mod_cast hsupF.2
    rcases hb with hb | hb
    · -- biased = emax − 1: no overflow, every result finite
      have hEe : (c.emax : Int) - c.bias - (c.fbits : Int) = E - (c.fbits : Int) + 1 := by omega
      have hU : pow2 ((c.emax : Int) - c.bias - (c.fbits : Int)) = 2 * u := by rw [hEe, pow2_succ, hu]
      rw [hU] at hov hmaxF
      have hno : overflows c X = false := by
        rw [hov, decide_eq_false_iff_not, not_le, hXq]
        have : q < 2 * F := by
          have := hXhi; rw [hpE1, hXq] at this
          exact lt_of_mul_lt_mul_right this (le_of_lt hupos)
        nlinarith
      by_cases hc : R = 2 ^ (c.fbits + 1)
      · have hfr : asmFrac c biased R = 0 := by unfold asmFrac; rw [if_pos hc, if_neg (by omega)]
        have hex : asmExp c biased R = c.emax := by unfold asmExp; rw [if_pos hc, if_neg (by omega)]; omega
        rw [hfr, hex]
        have hnn : isNan c (0 + 2 ^ c.fbits * c.emax + signBit c sign) = false := by
          rw [isNan_compose_emax c hv sign 0 hFn, hsupF.1]; simp; omega
        rw [keep _ hnn]
        have fc := fields_of_compose c hv sign c.emax 0 hel hFn
        refine ⟨fc.1, ?_⟩
        have hval := cfVal_compose_super c hv hsupF.1 sign 0 (by omega)
        refine nearestNZ_intro c _ _ sign X _ E R (signed_eq sign X) hval hXlo hXhi hEn ?_ (by rw [← hu]; exact hkX) hno ?_
        · have : (c.emax : Int) - c.bias = E + 1 := by omega
          rw [this, hpE1, ← hu, hc]; push_cast; rw [pow_succ, hFpow]; ring
        · have : (c.emax : Int) - c.bias = E + 1 := by omega
          rw [this, hpE1, hmaxF]; push_cast; simp; nlinarith
      · have hfr : asmFrac c biased R = R - 2 ^ c.fbits := by unfold asmFrac; rw [if_neg hc]
        have hex : asmExp c biased R = biased := by unfold asmExp; rw [if_neg hc]
        rw [hfr, hex]
        have hlt : R - 2 ^ c.fbits < 2 ^ c.fbits := by omega
        have fc := fields_of_compose c hv sign biased (R - 2 ^ c.fbits) (by omega) hlt
        have hnn : isNan c (R - 2 ^ c.fbits + 2 ^ c.fbits * biased + signBit c sign) = false :=
          isNan_false_of_exp_lt c hv _ (by rw [fc.2.2.1]; omega)
        rw [keep _ hnn]
        refine ⟨fc.1, ?_⟩
        have hval := cfVal_compose_normal c hv sign biased (R - 2 ^ c.fbits) (by omega) (by omega) hlt
        have hsubq : ((R - 2 ^ c.fbits : Nat) : ℚ) = (R : ℚ) - F := by rw [Nat.cast_sub hR1, hFdef]
        refine nearestNZ_intro c _ _ sign X _ E R (signed_eq sign X) hval hXlo hXhi hEn ?_ (by rw [← hu]; exact hkX) hno ?_
        · rw [← hE, hpE, ← hu, hsubq, ← hFdef]; field_simp; ring
        · rw [← hE, hpE, hsubq, ← hFdef, hmaxF]; field_simp; nlinarith
    · -- biased = emax: finite up to R = 2F − 3, then inf
      have hEe : (c.emax : Int) - c.bias - (c.fbits : Int) = E - (c.fbits : Int) := by omega
      rw [hEe, ← hu] at hov hmaxF
      have hex : asmExp c biased R = c.emax := by unfold asmExp; split_ifs <;> omega
      rw [hex]
      by_cases hfin : R + 3 ≤ 2 ^ (c.fbits + 1)
      · have hc : ¬ R = 2 ^ (c.fbits + 1) := by omega
        have hfr : asmFrac c biased R = R - 2 ^ c.fbits := by unfold asmFrac; rw [if_neg hc]
        rw [hfr]
        have hlt : R - 2 ^ c.fbits + 3 ≤ 2 ^ c.fbits := by omega
        have fc := fields_of_compose c hv sign c.emax (R - 2 ^ c.fbits) hel (by omega)
        have hnn : isNan c (R - 2 ^ c.fbits + 2 ^ c.fbits * c.emax + signBit c sign) = false := by
          rw [isNan_compose_emax c hv sign _ (by omega), hsupF.1]; simp; omega
        rw [keep _ hnn]
        refine ⟨fc.1, ?_⟩
        have hval := cfVal_compose_super c hv hsupF.1 sign (R - 2 ^ c.fbits) hlt
        have hsubq : ((R - 2 ^ c.fbits : Nat) : ℚ) = (R : ℚ) - F := by rw [Nat.cast_sub hR1, hFdef]
        have hRle : (R : ℚ) ≤ 2 * F - 3 := by
          rw [← hK3 hsupF.2]; exact_mod_cast (show R ≤ 2 ^ (c.fbits + 1) - 3 by omega)
        have hno : overflows c X = false := by
          rw [hov, decide_eq_false_iff_not, not_le, hXq]
          have := nearEven_lt_of_le_odd q R (2 ^ (c.fbits + 1) - 3) hk (by omega) (by omega)
          rw [hK3 hsupF.2] at this
          exact mul_lt_mul_of_pos_right this hupos
        have hEb : (c.emax : Int) - c.bias = E := by omega
        refine nearestNZ_intro c _ _ sign X _ E R (signed_eq sign X) hval hXlo hXhi hEn ?_ (by rw [← hu]; exact hkX) hno ?_
        · rw [hEb, hpE, ← hu, hsubq, ← hFdef]; field_simp; ring
        · rw [hEb, hpE, hsubq, ← hFdef, hmaxF]; field_simp; nlinarith
      · -- R ∈ {2F − 2, 2F − 1, 2F}: overflow
        have hovt : overflows c X = true := by
          rw [hov, decide_eq_true_iff, hXq]
          have := nearEven_ge_of_lt q R (2 ^ (c.fbits + 1) - 3) hk (by omega)
          rw [hK3 hsupF.2] at this
          exact mul_le_mul_of_nonneg_right this (le_of_lt hupos)
        have hnosat : c.sat = true → False := by
          intro hs; have := hss hs hsupF.1; rw [hovt] at this; cases this
        by_cases hnanR : R + 1 = 2 ^ (c.fbits + 1)
        · have hc : ¬ R = 2 ^ (c.fbits + 1) := by omega
          have hfr : asmFrac c biased R = 2 ^ c.fbits - 1 := by unfold asmFrac; rw [if_neg hc]; omega
          rw [hfr]
          refine remapCase _ ?_ hovt (fun hs _ => hnosat hs)
          rw [isNan_compose_emax c hv sign _ (by omega), hsupF.1]; simp
        · have hfr : asmFrac c biased R = 2 ^ c.fbits - 2 := by
            unfold asmFrac; split_ifs
            · rfl
            · omega
          rw [hfr]
          have hnn : isNan c (2 ^ c.fbits - 2 + 2 ^ c.fbits * c.emax + signBit c sign) = false := by
            rw [isNan_compose_emax c hv sign _ (by omega), hsupF.1]; simp; omega
          rw [keep _ hnn]
          obtain ⟨hr, hvi⟩ := cfVal_compose_inf c hv sign
          exact infCase _ hr hvi hovt hnosat
  · -- no usable supernormals: maxFinite = (2F − 1)·2^(top − 1 − fb)
    have hes2 : 2 ≤ c.es := by
      rcases gen_cases c hv hg with h2 | ⟨_, _, hs', _, _, hF4⟩
      · exact h2
      · exact absurd ⟨hs', by omega⟩ hsupF
    have hov := overflows_nosup c hv hes2 hsupF X
    rw [hK1] at hov
    have hmaxF := maxFinite_nosup c hes2 hsupF
    rw [hK1] at hmaxF
    rcases hb with hb | hb
    · have hEe : (c.emax : Int) - 1 - c.bias - (c.fbits : Int) = E - (c.fbits : Int) := by omega
      rw [hEe, ← hu] at hov hmaxF
      by_cases hc : R = 2 ^ (c.fbits + 1)
      · -- carry out of the last normal binade
        have hfr : asmFrac c biased R = 0 := by unfold asmFrac; rw [if_pos hc, if_neg (by omega)]
        have hex : asmExp c biased R = c.emax := by unfold asmExp; rw [if_pos hc, if_neg (by omega)]; omega
        rw [hfr, hex]
        have hovt : overflows c X = true := by
          rw [hov, decide_eq_true_iff, hXq]
          have := nearEven_ge_of_lt q R (2 ^ (c.fbits + 1) - 1) hk (by omega)
          rw [hK1] at this
          have h' : 2 * F - 1 + 1 / 2 ≤ q := this
          exact mul_le_mul_of_nonneg_right h' (le_of_lt hupos)
        by_cases hf1 : 2 ^ c.fbits = 2
        · -- fbits = 1: fraction 0 is the inf pattern
          have e0 : (0 : Nat) = 2 ^ c.fbits - 2 := by omega
          rw [e0]
          have hnn : isNan c (2 ^ c.fbits - 2 + 2 ^ c.fbits * c.emax + signBit c sign) = false := by
            rw [isNan_compose_emax c hv sign _ (by omega)]
            cases c.sup <;> simp <;> omega
          rw [keep _ hnn]
          obtain ⟨hr, hvi⟩ := cfVal_compose_inf c hv sign
          refine infCase _ hr hvi hovt ?_
          intro hs
          cases hsup : c.sup
          · have hp : roundsToInfPattern c X = true := by
              refine pattern_true c X E R hXlo hXhi hEn hEtop (by rw [← hu]; exact hkX) (Or.inl ?_)
              have hFq : F = 2 := by rw [hFdef]; exact_mod_cast hf1
              have : (c.emax : Int) - c.bias = E + 1 := by omega
              rw [this, hpE1, ← hu, hc, ← hFdef, hFq]; push_cast; rw [pow_succ, hFpow, hFq]; ring
            rw [hsn hs hsup] at hp; cases hp
          · have := hss hs hsup; rw [hovt] at this; cases this
        · have hnanr : isNan c (0 + 2 ^ c.fbits * c.emax + signBit c sign) = true := by
            rw [isNan_compose_emax c hv sign 0 hFn]
            have hs : c.sup = false := by
              cases hsup : c.sup
              · rfl
              · exfalso; exact hsupF ⟨hsup, by omega⟩
            rw [hs]; simp; omega
          refine remapCase _ hnanr hovt ?_
          intro _ hs; exact hsupF ⟨hs, by omega⟩
      · have hfr : asmFrac c biased R = R - 2 ^ c.fbits := by unfold asmFrac; rw [if_neg hc]
        have hex : asmExp c biased R = biased := by unfold asmExp; rw [if_neg hc]
        rw [hfr, hex]
        have hlt : R - 2 ^ c.fbits < 2 ^ c.fbits := by omega
        have fc := fields_of_compose c hv sign biased (R - 2 ^ c.fbits) (by omega) hlt
        have hnn : isNan c (R - 2 ^ c.fbits + 2 ^ c.fbits * biased + signBit c sign) = false :=
          isNan_false_of_exp_lt c hv _ (by rw [fc.2.2.1]; omega)
        rw [keep _ hnn]
        refine ⟨fc.1, ?_⟩
        have hval := cfVal_compose_normal c hv sign biased (R - 2 ^ c.fbits) (by omega) (by omega) hlt
        have hsubq : ((R - 2 ^ c.fbits : Nat) : ℚ) = (R : ℚ) - F := by rw [Nat.cast_sub hR1, hFdef]
        have hRle : (R : ℚ) ≤ 2 * F - 1 := by
          rw [← hK1]; exact_mod_cast (show R ≤ 2 ^ (c.fbits + 1) - 1 by omega)
        have hno : overflows c X = false := by
          rw [hov, decide_eq_false_iff_not, not_le, hXq]
          have := nearEven_lt_of_le_odd q R (2 ^ (c.fbits + 1) - 1) hk (by omega) (by omega)
          rw [hK1] at this
          exact mul_lt_mul_of_pos_right this hupos
        refine nearestNZ_intro c _ _ sign X _ E R (signed_eq sign X) hval hXlo hXhi hEn ?_ (by rw [← hu]; exact hkX) hno ?_
        · rw [← hE, hpE, ← hu, hsubq, ← hFdef]; field_simp; ring
        · rw [← hE, hpE, hsubq, ← hFdef, hmaxF]; field_simp; nlinarith
    · -- biased = emax without usable supernormals: every X of this binade overflows
      have hEe : (c.emax : Int) - 1 - c.bias - (c.fbits : Int) = E - (c.fbits : Int) - 1 := by omega
      have hU : pow2 ((c.emax : Int) - 1 - c.bias - (c.fbits : Int)) = u / 2 := by
        rw [hEe, hu, pow2_sub (E - (c.fbits : Int)) 1]
        rw [show pow2 1 = 2 by rw [pow2_eq_zpow]; norm_num]
      rw [hU] at hov
      have hovt : overflows c X = true := by
        rw [hov, decide_eq_true_iff]
        rw [hpE] at hXlo
        nlinarith
      have hex : asmExp c biased R = c.emax := by unfold asmExp; split_ifs <;> omega
      rw [hex]
      by_cases hinfR : R + 2 = 2 ^ (c.fbits + 1) ∨ R = 2 ^ (c.fbits + 1)
      · have hfr : asmFrac c biased R = 2 ^ c.fbits - 2 := by
          unfold asmFrac; split_ifs
          · rfl
          · omega
        rw [hfr]
        have hnn : isNan c (2 ^ c.fbits - 2 + 2 ^ c.fbits * c.emax + signBit c sign) = false := by
          rw [isNan_compose_emax c hv sign _ (by omega)]
          cases c.sup <;> simp <;> omega
        rw [keep _ hnn]
        obtain ⟨hr, hvi⟩ := cfVal_compose_inf c hv sign
        refine infCase _ hr hvi hovt ?_
        intro hs
        cases hsup : c.sup
        · have hEb : (c.emax : Int) - c.bias = E := by omega
          have hp : roundsToInfPattern c X = true := by
            refine pattern_true c X E R hXlo hXhi hEn hEtop (by rw [← hu]; exact hkX) ?_
            rw [hEb, hpE, hpE1, ← hu, ← hFdef]
            rcases hinfR with h | h
            · left
              have : (R : ℚ) = 2 * F - 2 := by
                have : R = 2 ^ (c.fbits + 1) - 2 := by omega
                rw [this, Nat.cast_sub (by omega), hFdef]; push_cast; rw [pow_succ]; ring
              rw [this]; field_simp
            · right
              rw [h]; push_cast; rw [pow_succ, hFpow]; ring
          rw [hsn hs hsup] at hp; cases hp
        · have := hss hs hsup; rw [hovt] at this; cases this
      · have hc : ¬ R = 2 ^ (c.fbits + 1) := fun h => hinfR (Or.inr h)
        have hfr : asmFrac c biased R = R - 2 ^ c.fbits := by unfold asmFrac; rw [if_neg hc]
        rw [hfr]
        have hlt : R - 2 ^ c.fbits < 2 ^ c.fbits := by omega
        by_cases hsup : c.sup = true
        · -- supernormals with fbits = 1: R ∈ {2, 3, 4}, only R = 3 is left here: the NaN pattern
          have hf1 : 2 ^ c.fbits = 2 := by
            by_contra hne; exact hsupF ⟨hsup, by omega⟩
          have hnanr : isNan c (R - 2 ^ c.fbits + 2 ^ c.fbits * c.emax + signBit c sign) = true := by
            rw [isNan_compose_emax c hv sign _ hlt, hsup]; simp; omega
          refine remapCase _ hnanr hovt ?_
          intro hs hs'; have := hss hs hs'; rw [hovt] at this; cases this
        · have hsup' : c.sup = false := by simpa using hsup
          have hnanr : isNan c (R - 2 ^ c.fbits + 2 ^ c.fbits * c.emax + signBit c sign) = true := by
            rw [isNan_compose_emax c hv sign _ hlt, hsup']; simp; omega
          refine remapCase _ hnanr hovt ?_
          intro _ hs'; rw [hsup'] at hs'; cases hs'

end UVerif.Cfloat

namespace UVerif.Cfloat

/-- `convertFinite` in the normal range up to MAX_EXP on the ≤ 64-bit path is `assemble` -/
theorem convertFinite_eq_assemble_le (c : Cfg) (o : Op) (sign : Bool) (scale : Int) (sig : Nat)
    (hnarrow : o.bfbits c.fbits < 65)
    (hlo : c.minExpNormal ≤ scale + sigScale (o.radix c.fbits) sig)
    (hhi : scale + sigScale (o.radix c.fbits) sig ≤ c.maxExp) :
    convertFinite c o sign scale sig =
      assemble c sign (scale + sigScale (o.radix c.fbits) sig + c.bias).toNat sig (sigScale (o.radix c.fbits) sig + o.radix c.fbits - c.fbits) := by
  have hb0 := bias_nonneg c
  generalize hss : sigScale (o.radix c.fbits) sig = ss at *
  have hmn : c.minExpNormal = 1 - c.bias := rfl
  have hms : c.minExpSubnormal = 1 - c.bias - (c.fbits : Int) := rfl
  have e1 : ¬ (c.sub = true ∧ scale + (ss : Int) < c.minExpSubnormal) := by
    intro hc; have := hc.2; omega
  have e2 : ¬ (¬ c.sub = true ∧ scale + (ss : Int) + c.bias ≤ 0) := by
    intro hc; have := hc.2; omega
  have e3 : ¬ (scale + (ss : Int) > c.maxExp) := by omega
  have e4 : ¬ (scale + (ss : Int) < c.minExpNormal) := by omega
  unfold convertFinite
  simp only [hss, e1, e2, e3, e4, and_false, if_false, hnarrow, if_true, Nat.add_zero]

/-- **the two binades next to the inf/NaN encodings** (exponent MAX_EXP − 1 and MAX_EXP in the normal/supernormal
    range, ≤ 64-bit path; with es = 1 only MAX_EXP = 1 is not subnormal) -/
theorem master_top (c : Cfg) (hv : c.valid = true) (hg : Gen c)
    (o : Op) (sign : Bool) (scale : Int) (sig : Nat) (X : ℚ)
    (hnarrow : o.bfbits c.fbits < 65) (hsig : 2 ^ (o.radix c.fbits) ≤ sig) (hrad : c.fbits ≤ o.radix c.fbits)
    (hRL : RoundsLike c.fbits (o.radix c.fbits) scale sig X)
    (hn : c.minExpNormal ≤ scale + sigScale (o.radix c.fbits) sig)
    (hlo : c.maxExp - 1 ≤ scale + sigScale (o.radix c.fbits) sig)
    (hhi : scale + sigScale (o.radix c.fbits) sig ≤ c.maxExp)
    (hss : c.sat = true → c.sup = true → overflows c X = false)
    (hsn : c.sat = true → c.sup = false → roundsToInfPattern c X = false) :
    convertFinite c o sign scale sig < 2 ^ c.nbits ∧
    nearestNZ c ((if sign then -1 else 1) * X) (convertFinite c o sign scale sig) = true := by
  have hb0 := bias_nonneg c
  have hmn : c.minExpNormal = 1 - c.bias := rfl
  have hme := maxExp_eq_gen c hv
  have hE1 := emax_pos c hv
  rw [convertFinite_eq_assemble_le c o sign scale sig hnarrow hn hhi]
  obtain ⟨m1, m2⟩ := sigScale_spec (o.radix c.fbits) sig hsig
  unfold RoundsLike at hRL
  obtain ⟨hXlo, hXhi, htr, _⟩ := hRL
  generalize sigScale (o.radix c.fbits) sig = ss at *
  generalize o.radix c.fbits = radix at *
  obtain ⟨r1, r2⟩ := shifted_range c.fbits radix sig ss (by omega) m1 m2
  set biased := (scale + (ss : Int) + c.bias).toNat with hbiased
  have hbi : (biased : Int) - c.bias = scale + (ss : Int) := by omega
  have hk := htr 0 _ (rneShr_nearEven sig (ss + radix - c.fbits + 0))
  simp only [Nat.add_zero, Nat.cast_zero, add_zero] at hk
  have hR := rneShr_le sig (ss + radix - c.fbits)
  rw [assemble_general c hv sign biased sig _ r1 r2 (by omega)]
  refine top_round_core c hv hg sign biased _ X (by omega) (by omega) (by omega) (by omega)
    (by rw [hbi]; exact hXlo) (by rw [hbi]; exact hXhi) (by rw [hbi]; exact hk) hss hsn

end UVerif.Cfloat

namespace UVerif.Cfloat

/-- **convert(blocktriple → cfloat) over the whole exponent range** (es ≤ 20, every configuration except es = 1 with
    one fraction bit, ≤ 64-bit path): for every finite non-zero triple whose significant rounds like the exact
    positive value X, the encoding satisfies the rounding relation for ± X — underflow, flush, subnormal, normal,
    the two top binades and overflow — outside the two recorded input classes of saturating configurations -/
theorem convert_master (c : Cfg) (hv : c.valid = true) (hg : Gen c) (hes20 : c.es ≤ 20)
    (o : Op) (sign : Bool) (scale : Int) (sig : Nat) (X : ℚ)
    (hnarrow : o.bfbits c.fbits < 65) (hsig : 2 ^ (o.radix c.fbits) ≤ sig) (hrad : c.fbits ≤ o.radix c.fbits)
    (hRL : RoundsLike c.fbits (o.radix c.fbits) scale sig X)
    (hss : c.sat = true → c.sup = true → overflows c X = false)
    (hsn : c.sat = true → c.sup = false → roundsToInfPattern c X = false) :
    convertFinite c o sign scale sig < 2 ^ c.nbits ∧
    nearestNZ c ((if sign then -1 else 1) * X) (convertFinite c o sign scale sig) = true := by
  have hb0 := bias_nonneg c
  have hmn : c.minExpNormal = 1 - c.bias := rfl
  have hms : c.minExpSubnormal = 1 - c.bias - (c.fbits : Int) := rfl
  have hme := maxExp_eq_gen c hv
  by_cases h1 : c.maxExp < scale + sigScale (o.radix c.fbits) sig
  · refine master_overflow c hv hg ?_ o sign scale sig X hRL h1
    cases hsat : c.sat
    · left; rfl
    · cases hsup : c.sup
      · right; rfl
      · exfalso
        have hXlo : pow2 (c.maxExp + 1) ≤ X := le_trans (pow2_le_pow2.mpr (by omega)) hRL.1
        have := overflows_of_ge_gen c hv hg X hXlo
        rw [hss hsat hsup] at this; cases this
  · by_cases h3 : c.minExpNormal ≤ scale + sigScale (o.radix c.fbits) sig
    · by_cases h2 : c.maxExp - 1 ≤ scale + sigScale (o.radix c.fbits) sig
      · exact master_top c hv hg o sign scale sig X hnarrow hsig hrad hRL h3 h2 (by omega) hss hsn
      · exact master_normal c hv o sign scale sig X hnarrow hsig hrad hRL h3 (by omega)
    · cases hsub : c.sub
      · exact master_flush c hv hsub o sign scale sig X hRL (by omega)
      · by_cases h4 : c.minExpSubnormal ≤ scale + sigScale (o.radix c.fbits) sig
        · exact master_subnormal c hv hsub hg hes20 o sign scale sig X hnarrow hsig hrad hRL h4 (by omega)
        · exact master_underflow c hv hsub hg hes20 o sign scale sig X hsig hrad hRL (by omega)

end UVerif.Cfloat
