import Mathlib.Tactic.Ring
import Mathlib.Tactic.Linarith
import Mathlib.Tactic.FieldSimp
import Mathlib.Algebra.Order.Field.Power
import Mathlib.Data.Rat.Floor
import UVerifProofs.Lemmas.CfloatOverflow
open UVerif UVerif.Cfloat

namespace UVerif.Cfloat

theorem cfVal_signed_zero (c : Cfg) (hv : c.valid = true) (s : Bool) :
    signBit c s < 2 ^ c.nbits ∧ cfVal c (signBit c s) = .fin s 0 := by
  have sf := signBit_facts c hv s
  refine ⟨sf.1, ?_⟩
  rw [cfVal_of_isZero c hv _ (isZero_of_isZeroEnc c hv _ sf.2.1), sf.2.2]

/-- **flush to zero** (configurations without subnormals): a result whose exponent is below MIN_EXP_NORMAL becomes a
    zero with the sign of the exact result — every width, every operator layout, both convert paths -/
theorem convert_flush (c : Cfg) (hv : c.valid = true) (hsub : c.sub = false)
    (o : Op) (sign : Bool) (scale : Int) (sig : Nat)
    (hsig : 2 ^ (o.radix c.fbits) ≤ sig)
    (hhi : scale + sigScale (o.radix c.fbits) sig < c.minExpNormal) :
    convertFinite c o sign scale sig < 2 ^ c.nbits ∧
    nearestNZ c ((if sign then -1 else 1) * ((sig : ℚ) * pow2 (scale - (o.radix c.fbits : Int))))
      (convertFinite c o sign scale sig) = true := by
  obtain ⟨_, m2⟩ := sigScale_spec (o.radix c.fbits) sig hsig
  generalize hss : sigScale (o.radix c.fbits) sig = ss at *
  generalize hradix : o.radix c.fbits = radix at *
  have hmn : c.minExpNormal = 1 - c.bias := rfl
  have hconv : convertFinite c o sign scale sig = signBit c sign := by
    unfold convertFinite
    have e2 : scale + (ss : Int) + c.bias ≤ 0 := by omega
    simp only [hss, hradix, hsub, Bool.false_eq_true, false_and, if_false, not_false_eq_true, true_and, e2, if_true]
  obtain ⟨hr, hvz⟩ := cfVal_signed_zero c hv sign
  rw [hconv]
  refine ⟨hr, ?_⟩
  set X : ℚ := (sig : ℚ) * pow2 (scale - (radix : Int)) with hX
  have hpr := pow2_pos (scale - (radix : Int))
  have hXpos : 0 < X := by
    have : (0 : ℚ) < (sig : ℚ) := by exact_mod_cast lt_of_lt_of_le (two_pow_pos _) hsig
    positivity
  have hXhi : X < minNormal c := by
    unfold minNormal
    have h1 : pow2 (scale + (ss : Int) + 1) = ((2 ^ (ss + radix + 1) : Nat) : ℚ) * pow2 (scale - (radix : Int)) := by
      rw [← pow2_natCast, ← pow2_add]; congr 1; push_cast; omega
    have h2 : X < pow2 (scale + (ss : Int) + 1) := by
      rw [h1, hX]; apply mul_lt_mul_of_pos_right _ hpr; exact_mod_cast m2
    exact lt_of_lt_of_le h2 (pow2_le_pow2.mpr (by omega))
  have hneg : decide ((if sign = true then (-1 : ℚ) else 1) * X < 0) = sign := by
    cases sign <;> simp [hXpos, le_of_lt hXpos]
  have hX' : (if sign = true then -((if sign = true then (-1 : ℚ) else 1) * X) else (if sign = true then (-1 : ℚ) else 1) * X) = X := by
    cases sign <;> simp
  unfold nearestNZ
  simp only [hneg, hvz, hX', hsub, hXhi]
  simp

/-- **underflow with subnormals** (2 ≤ es ≤ 20): a result whose exponent is below MIN_EXP_SUBNORMAL becomes a signed
    zero, except in the binade just below the smallest subnormal (the "half-minpos special case" of convert), where it
    is rounded to the smallest subnormal when it exceeds half of it — ties (exactly half) go to zero, the even
    neighbour. Every width, every operator layout, both convert paths (the test precedes the split). -/
theorem convert_underflow (c : Cfg) (hv : c.valid = true) (hsub : c.sub = true) (hes2 : 2 ≤ c.es) (hes20 : c.es ≤ 20)
    (o : Op) (sign : Bool) (scale : Int) (sig : Nat)
    (hsig : 2 ^ (o.radix c.fbits) ≤ sig)
    (hrad : c.fbits ≤ o.radix c.fbits)
    (hhi : scale + sigScale (o.radix c.fbits) sig < c.minExpSubnormal) :
    convertFinite c o sign scale sig < 2 ^ c.nbits ∧
    nearestNZ c ((if sign then -1 else 1) * ((sig : ℚ) * pow2 (scale - (o.radix c.fbits : Int))))
      (convertFinite c o sign scale sig) = true := by
  obtain ⟨hes, hfb, _, _⟩ := valid_facts c hv
  have hb0 := bias_nonneg c
  obtain ⟨m1, m2⟩ := sigScale_spec (o.radix c.fbits) sig hsig
  generalize hss : sigScale (o.radix c.fbits) sig = ss at *
  generalize hradix : o.radix c.fbits = radix at *
  have hmn : c.minExpNormal = 1 - c.bias := rfl
  have hms : c.minExpSubnormal = 1 - c.bias - (c.fbits : Int) := rfl
  have hsrs := srs_eq c (by omega) hes20
  have hE4 : 4 ≤ 2 ^ c.es := by
    calc 4 = 2 ^ 2 := rfl
      _ ≤ 2 ^ c.es := Nat.pow_le_pow_right (by omega) hes2
  have hem1 : 1 < c.emax := by unfold Cfg.emax; omega
  have hFn := two_pow_pos c.fbits
  obtain ⟨E, hE⟩ : ∃ E : Int, E = scale + (ss : Int) := ⟨_, rfl⟩
  rw [← hE] at hhi
  set X : ℚ := (sig : ℚ) * pow2 (scale - (radix : Int)) with hX
  have hpr := pow2_pos (scale - (radix : Int))
  have hXlo : pow2 E ≤ X := by
    have : pow2 E = ((2 ^ (ss + radix) : Nat) : ℚ) * pow2 (scale - (radix : Int)) := by
      rw [← pow2_natCast, ← pow2_add]; congr 1; push_cast; omega
    rw [this, hX]
    apply mul_le_mul_of_nonneg_right _ (le_of_lt hpr); exact_mod_cast m1
  have hXhi : X < pow2 (E + 1) := by
    have : pow2 (E + 1) = ((2 ^ (ss + radix + 1) : Nat) : ℚ) * pow2 (scale - (radix : Int)) := by
      rw [← pow2_natCast, ← pow2_add]; congr 1; push_cast; omega
    rw [this, hX]
    apply mul_lt_mul_of_pos_right _ hpr; exact_mod_cast m2
  have hXpos : 0 < X := lt_of_lt_of_le (pow2_pos E) hXlo
  have hfl : floorLog2 X = E := floorLog2_eq X E hXlo hXhi
  set U : ℚ := pow2 (1 - c.bias - (c.fbits : Int)) with hU
  have hUpos : 0 < U := pow2_pos _
  have hu : ulpAt c X = U := by
    unfold ulpAt; simp only [hfl]; rw [if_pos (by omega)]
  have hflush : (!c.sub && decide (X < minNormal c)) = false := by rw [hsub]; rfl
  have hem2 : 2 ≤ c.emax := by omega
  have hMge := maxFinite_ge c hem2
  have hMpos : 0 < maxFinite c := lt_of_lt_of_le (pow2_pos _) hMge
  have hno : overflows c X = false := by
    refine overflows_false_of_lt c X ?_ hMpos
    have h1 : pow2 (E + 1) ≤ pow2 ((c.emax : Int) - 1 - c.bias) := pow2_le_pow2.mpr (by omega)
    exact lt_of_lt_of_le hXhi (le_trans h1 hMge)
  have hUle : U ≤ maxFinite c := le_trans (pow2_le_pow2.mpr (by omega)) hMge
  have hxsign : (if sign = true then (-1 : ℚ) else 1) * X = if sign = true then -X else X := by
    cases sign <;> simp
  by_cases hspec : E = c.minExpSubnormal - 1
  · -- the binade just below the smallest subnormal
    set t := ss + radix - c.fbits + (-(E + c.srs)).toNat with ht
    have htI : (t : Int) = (ss : Int) + (radix : Int) + 1 := by
      rw [ht, hsrs, hmn]; push_cast; rw [Nat.cast_sub (by omega)]; push_cast; omega
    have htN : t = ss + radix + 1 := by omega
    have hconv : convertFinite c o sign scale sig = signBit c sign + (if roundingDirection sig t = true then 1 else 0) := by
      unfold convertFinite
      simp only [hss, hradix, hsub, true_and, ← hE]
      rw [if_pos hhi, if_pos hspec, ← ht]
      split_ifs <;> rfl
    have hsh0 : sig >>> t = 0 := by
      rw [Nat.shiftRight_eq_div_pow, htN]; exact Nat.div_eq_of_lt m2
    have hR := shift_round_eq_rneShr sig t
    rw [hsh0, Nat.zero_add] at hR
    have hk := rneShr_nearest sig t
    simp only [] at hk
    have hquot : X / U = (sig : ℚ) / ((2 ^ t : Nat) : ℚ) := by
      have h1 : pow2 (scale - (radix : Int)) = U / ((2 ^ t : Nat) : ℚ) := by
        rw [hU, ← pow2_natCast, ← pow2_sub]; congr 1; omega
      have ht2 : (0 : ℚ) < ((2 ^ t : Nat) : ℚ) := by exact_mod_cast two_pow_pos t
      rw [hX, h1]; field_simp
    rw [← hquot, ← hR] at hk
    rw [hconv, hxsign]
    cases hrd : roundingDirection sig t
    · rw [hrd] at hk
      simp only [Bool.false_eq_true, if_false, Nat.add_zero] at hk ⊢
      obtain ⟨hr, hvz⟩ := cfVal_signed_zero c hv sign
      refine ⟨hr, ?_⟩
      refine nearestNZ_intro_ulp c _ _ sign X 0 U 0 rfl hXpos hvz hu hUpos hflush (by simp) ?_ hno (le_of_lt hMpos)
      simpa using hk
    · rw [hrd] at hk
      simp only [if_true] at hk ⊢
      have h1lt : 1 < 2 ^ c.fbits := by
        calc 1 < 2 ^ 1 := by norm_num
          _ ≤ 2 ^ c.fbits := Nat.pow_le_pow_right (by omega) hfb
      have hv1 := cfVal_compose_subnormal c hv hsub sign 1 h1lt
      have hrange := (fields_of_compose c hv sign 0 1 (two_pow_pos _) h1lt).1
      have e1 : 1 + 2 ^ c.fbits * 0 + signBit c sign = signBit c sign + 1 := by omega
      rw [e1] at hv1 hrange
      refine ⟨hrange, ?_⟩
      refine nearestNZ_intro_ulp c _ _ sign X ((1 : Nat) * U) U 1 rfl hXpos (by simpa using hv1) hu hUpos hflush (by simp) ?_ hno (by simpa using hUle)
      simpa using hk
  · -- far below: signed zero
    have hconv : convertFinite c o sign scale sig = signBit c sign := by
      unfold convertFinite
      simp only [hss, hradix, hsub, true_and, ← hE]
      rw [if_pos hhi, if_neg hspec]
    obtain ⟨hr, hvz⟩ := cfVal_signed_zero c hv sign
    rw [hconv, hxsign]
    refine ⟨hr, ?_⟩
    have hhalf : X / U < 1 / 2 := by
      have h1 : pow2 (E + 1) ≤ pow2 (1 - c.bias - (c.fbits : Int) - 1) := pow2_le_pow2.mpr (by omega)
      have h2 : pow2 (1 - c.bias - (c.fbits : Int) - 1) = U / 2 := by
        rw [hU, pow2_sub (1 - c.bias - (c.fbits : Int)) 1]
        rw [show pow2 1 = 2 by rw [pow2_eq_zpow]; norm_num]
      rw [div_lt_iff₀ hUpos]; linarith
    have hnn : (0 : ℚ) ≤ X / U := by positivity
    refine nearestNZ_intro_ulp c _ _ sign X 0 U 0 rfl hXpos hvz hu hUpos hflush (by simp) ?_ hno (le_of_lt hMpos)
    left
    constructor <;> simp <;> linarith

end UVerif.Cfloat
