import Mathlib.Tactic.Ring
import Mathlib.Tactic.Linarith
import Mathlib.Tactic.FieldSimp
import Mathlib.Algebra.Order.Field.Power
import Mathlib.Data.Rat.Floor
import UVerifProofs.Lemmas.CfloatBits
open UVerif UVerif.Cfloat

namespace UVerif.Cfloat

/-- `pow2` of UVerif.Basic is the integer power of two -/
theorem pow2_eq_zpow (e : Int) : pow2 e = (2 : ℚ) ^ e := by
  unfold pow2
  split
  · rename_i h
    have : e = (e.toNat : Int) := (Int.toNat_of_nonneg h).symm
    conv_rhs => rw [this]
    rw [zpow_natCast]; push_cast; rfl
  · rename_i h
    have h' : 0 ≤ -e := by omega
    have : e = -((-e).toNat : Int) := by rw [Int.toNat_of_nonneg h']; ring
    conv_rhs => rw [this]
    rw [zpow_neg, zpow_natCast]; push_cast; simp

theorem pow2_pos (e : Int) : 0 < pow2 e := by
  rw [pow2_eq_zpow]; positivity

theorem pow2_add (a b : Int) : pow2 (a + b) = pow2 a * pow2 b := by
  simp only [pow2_eq_zpow]; exact zpow_add₀ (by norm_num) a b

theorem pow2_ne_zero (e : Int) : pow2 e ≠ 0 := ne_of_gt (pow2_pos e)

theorem normal_mag_pos (f F : Nat) (hF : 0 < F) (e : Int) : 0 < (1 + (f : ℚ) / ((F : Nat) : ℚ)) * pow2 e := by
  have h1 : (0 : ℚ) ≤ (f : ℚ) / ((F : Nat) : ℚ) := by positivity
  have h2 := pow2_pos e
  positivity

theorem isSuper_iff (c : Cfg) (b : Nat) : isSuper c b = true ↔ c.expOf b = c.emax := by
  unfold isSuper; simp

/-- the five mutually exclusive shapes of an encoding and the value `cfVal` assigns to each -/
theorem cfVal_cases (c : Cfg) (b : Nat) :
    (c.expOf b = c.emax ∧ c.fracOf b = 2 ^ c.fbits - 1 ∧ cfVal c b = .nan (c.signOf b)) ∨
    (c.expOf b = c.emax ∧ c.fracOf b ≠ 2 ^ c.fbits - 1 ∧ c.fracOf b = 2 ^ c.fbits - 2 ∧ cfVal c b = .inf (c.signOf b)) ∨
    (c.expOf b = c.emax ∧ c.fracOf b ≠ 2 ^ c.fbits - 1 ∧ c.fracOf b ≠ 2 ^ c.fbits - 2 ∧
        cfVal c b = (if c.sup then .fin (c.signOf b) ((1 + (c.fracOf b : ℚ) / ((2 ^ c.fbits : Nat) : ℚ)) * pow2 ((c.expOf b : Int) - c.bias))
                     else .nan (c.signOf b))) ∨
    (c.expOf b ≠ c.emax ∧ c.expOf b = 0 ∧
        cfVal c b = (if c.sub then .fin (c.signOf b) ((c.fracOf b : ℚ) / ((2 ^ c.fbits : Nat) : ℚ) * pow2 (1 - c.bias))
                     else .fin (c.signOf b) 0)) ∨
    (c.expOf b ≠ c.emax ∧ c.expOf b ≠ 0 ∧
        cfVal c b = .fin (c.signOf b) ((1 + (c.fracOf b : ℚ) / ((2 ^ c.fbits : Nat) : ℚ)) * pow2 ((c.expOf b : Int) - c.bias))) := by
  unfold cfVal
  simp only []
  by_cases he : c.expOf b = c.emax
  · by_cases hf1 : c.fracOf b = 2 ^ c.fbits - 1
    · left; exact ⟨he, hf1, by rw [if_pos ⟨he, hf1⟩]⟩
    · by_cases hf2 : c.fracOf b = 2 ^ c.fbits - 2
      · right; left
        refine ⟨he, hf1, hf2, ?_⟩
        rw [if_neg (fun h => hf1 h.2), if_pos ⟨he, hf2⟩]
      · right; right; left
        refine ⟨he, hf1, hf2, ?_⟩
        rw [if_neg (fun h => hf1 h.2), if_neg (fun h => hf2 h.2), if_pos he]
  · by_cases h0 : c.expOf b = 0
    · right; right; right; left
      refine ⟨he, h0, ?_⟩
      rw [if_neg (fun h => he h.1), if_neg (fun h => he h.1), if_neg he, if_pos h0]
    · right; right; right; right
      refine ⟨he, h0, ?_⟩
      rw [if_neg (fun h => he h.1), if_neg (fun h => he h.1), if_neg he, if_neg h0]

theorem two_le_pow_fbits (c : Cfg) (h : c.valid = true) : 2 ≤ 2 ^ c.fbits := by
  obtain ⟨_, hfb, _, _⟩ := valid_facts c h
  calc 2 = 2 ^ 1 := rfl
    _ ≤ 2 ^ c.fbits := Nat.pow_le_pow_right (by omega) hfb

/-- NaN classification of the model = NaN-ness of the denoted value -/
theorem cfVal_isNan (c : Cfg) (h : c.valid = true) (b : Nat) : (cfVal c b).isNan = isNan c b := by
  have hn := isNanEnc_iff c h b
  have hi := isInf_iff c h b
  have hs := isSuper_iff c b
  have hF := two_le_pow_fbits c h
  have bf {x : Bool} {p : Prop} (hx : x = true ↔ p) (np : ¬ p) : x = false := by
    rw [Bool.eq_false_iff]; exact fun hc => np (hx.mp hc)
  unfold isNan
  rcases cfVal_cases c b with ⟨he, hf, hv⟩ | ⟨he, hf1, hf2, hv⟩ | ⟨he, hf1, hf2, hv⟩ | ⟨he, h0, hv⟩ | ⟨he, h0, hv⟩
  · rw [hv, hn.mpr ⟨he, hf⟩, hs.mpr he, bf hi (fun hc => by omega)]
    cases c.sup <;> rfl
  · rw [hv, bf hn (fun hc => hf1 hc.2), hs.mpr he, hi.mpr ⟨he, hf2⟩]
    cases c.sup <;> rfl
  · rw [hv, bf hn (fun hc => hf1 hc.2), hs.mpr he, bf hi (fun hc => hf2 hc.2)]
    cases c.sup <;> rfl
  · rw [hv, bf hn (fun hc => he hc.1), bf hs he]
    cases c.sup <;> cases c.sub <;> rfl
  · rw [hv, bf hn (fun hc => he hc.1), bf hs he]
    cases c.sup <;> rfl

/-- infinity classification of the model = the value is ±inf (with the encoding's sign) -/
theorem cfVal_isInf (c : Cfg) (h : c.valid = true) (b : Nat) :
    isInf c b = true ↔ cfVal c b = .inf (c.signOf b) := by
  have hi := isInf_iff c h b
  have hF := two_le_pow_fbits c h
  rcases cfVal_cases c b with ⟨he, hf, hv⟩ | ⟨he, hf1, hf2, hv⟩ | ⟨he, hf1, hf2, hv⟩ | ⟨he, h0, hv⟩ | ⟨he, h0, hv⟩
  · rw [hv, hi]; constructor
    · intro hc; omega
    · intro hc; cases hc
  · rw [hv, hi]; exact ⟨fun _ => rfl, fun _ => ⟨he, hf2⟩⟩
  · rw [hv, hi]; constructor
    · intro hc; exact absurd hc.2 hf2
    · intro hc; cases hsup : c.sup <;> rw [hsup] at hc <;> cases hc
  · rw [hv, hi]; constructor
    · intro hc; exact absurd hc.1 he
    · intro hc; cases hsub : c.sub <;> rw [hsub] at hc <;> cases hc
  · rw [hv, hi]; constructor
    · intro hc; exact absurd hc.1 he
    · intro hc; cases hc

theorem emax_pos (c : Cfg) (h : c.valid = true) : 1 ≤ c.emax := by
  obtain ⟨hes, _, _, _⟩ := valid_facts c h
  unfold Cfg.emax
  have : 2 ^ 1 ≤ 2 ^ c.es := Nat.pow_le_pow_right (by omega) hes
  omega

theorem isZero_fin (s : Bool) (m : ℚ) : (Val.fin s m).isZero = decide (m = 0) := by
  show (m == 0) = decide (m = 0)
  by_cases h : m = 0
  · subst h; decide
  · rw [decide_eq_false h]; exact beq_false_of_ne h

/-- zero classification of the model = the denoted value is a (signed) zero -/
theorem cfVal_isZero (c : Cfg) (h : c.valid = true) (b : Nat) : (cfVal c b).isZero = isZero c b := by
  have hz := isZeroEnc_iff c h b
  have hF := two_pow_pos c.fbits
  have hE := emax_pos c h
  have bf {x : Bool} {p : Prop} (hx : x = true ↔ p) (np : ¬ p) : x = false := by
    rw [Bool.eq_false_iff]; exact fun hc => np (hx.mp hc)
  have hz0 : c.expOf b ≠ 0 → isZero c b = false := by
    intro hne
    unfold isZero
    cases c.sub
    · simp [hne]
    · simp only [if_true]; exact bf hz (fun hc => hne hc.1)
  rcases cfVal_cases c b with ⟨he, hf, hv⟩ | ⟨he, hf1, hf2, hv⟩ | ⟨he, hf1, hf2, hv⟩ | ⟨he, h0, hv⟩ | ⟨he, h0, hv⟩
  · rw [hv, hz0 (by omega)]; rfl
  · rw [hv, hz0 (by omega)]; rfl
  · rw [hv, hz0 (by omega)]
    cases c.sup
    · rfl
    · simp only [if_true, isZero_fin]
      exact decide_eq_false (ne_of_gt (normal_mag_pos _ _ hF _))
  · rw [hv]
    unfold isZero
    cases c.sub
    · simp [h0, isZero_fin]
    · simp only [if_true, isZero_fin]
      by_cases hf : c.fracOf b = 0
      · rw [hz.mpr ⟨h0, hf⟩, hf]; simp
      · rw [bf hz (fun hc => hf hc.2)]
        apply decide_eq_false
        have h1 : (0 : ℚ) < (c.fracOf b : ℚ) := by exact_mod_cast Nat.pos_of_ne_zero hf
        have h2 : (0 : ℚ) < ((2 ^ c.fbits : Nat) : ℚ) := by exact_mod_cast hF
        have h3 := pow2_pos (1 - c.bias)
        positivity
  · rw [hv, hz0 h0, isZero_fin]
    exact decide_eq_false (ne_of_gt (normal_mag_pos _ _ hF _))

/-- every encoding denotes a NaN, an infinity or a finite value carrying the encoding's sign bit, and the
    model's classification predicates agree with that reading -/
theorem cfVal_view (c : Cfg) (h : c.valid = true) (a : Nat) :
    (cfVal c a = .nan (c.signOf a) ∧ isNan c a = true) ∨
    (cfVal c a = .inf (c.signOf a) ∧ isNan c a = false ∧ isInf c a = true ∧ isZero c a = false) ∨
    (∃ m, cfVal c a = .fin (c.signOf a) m ∧ isNan c a = false ∧ isInf c a = false ∧ isZero c a = decide (m = 0)) := by
  have hn := cfVal_isNan c h a
  have hi := cfVal_isInf c h a
  have hz := cfVal_isZero c h a
  have key : ∀ v, cfVal c a = v → (v = .nan (c.signOf a) ∨ v = .inf (c.signOf a) ∨ ∃ m, v = .fin (c.signOf a) m) := by
    intro v hv
    rcases cfVal_cases c a with ⟨_, _, e⟩ | ⟨_, _, _, e⟩ | ⟨_, _, _, e⟩ | ⟨_, _, e⟩ | ⟨_, _, e⟩
    · left; rw [← hv, e]
    · right; left; rw [← hv, e]
    · cases hs : c.sup <;> rw [hs] at e
      · left; rw [← hv, e]; rfl
      · right; right; exact ⟨_, by rw [← hv, e]; rfl⟩
    · cases hs : c.sub <;> rw [hs] at e
      · right; right; exact ⟨_, by rw [← hv, e]; rfl⟩
      · right; right; exact ⟨_, by rw [← hv, e]; rfl⟩
    · right; right; exact ⟨_, by rw [← hv, e]⟩
  rcases key _ rfl with e | e | ⟨m, e⟩
  · left; refine ⟨e, ?_⟩; rw [← hn, e]; rfl
  · right; left
    refine ⟨e, ?_, hi.mpr e, ?_⟩
    · rw [← hn, e]; rfl
    · rw [← hz, e]; rfl
  · right; right
    refine ⟨m, e, ?_, ?_, ?_⟩
    · rw [← hn, e]; rfl
    · rw [Bool.eq_false_iff]; intro hc; rw [hi.mp hc] at e; cases e
    · rw [← hz, e, isZero_fin]

/-! ### `satisfies` for the results the operator prologues produce -/

theorem sat_nan (c : Cfg) (h : c.valid = true) (r : Nat) (hr : r < 2 ^ c.nbits) (hn : isNan c r = true) :
    satisfies c .nan r = true := by
  unfold satisfies
  simp only [Bool.and_eq_true, decide_eq_true_eq]
  exact ⟨hr, by rw [cfVal_isNan c h, hn]⟩

theorem sat_inf (c : Cfg) (h : c.valid = true) (r : Nat) (s : Bool) (hr : r < 2 ^ c.nbits)
    (hi : isInf c r = true) (hs : c.signOf r = s) : satisfies c (.inf s) r = true := by
  unfold satisfies
  simp only [Bool.and_eq_true, decide_eq_true_eq, beq_iff_eq]
  exact ⟨hr, by rw [(cfVal_isInf c h r).mp hi, hs]⟩

theorem cfVal_of_isZero (c : Cfg) (h : c.valid = true) (r : Nat) (hz : isZero c r = true) :
    cfVal c r = .fin (c.signOf r) 0 := by
  rcases cfVal_view c h r with ⟨_, hn⟩ | ⟨_, _, _, hz'⟩ | ⟨m, e, _, _, hz'⟩
  · exfalso
    have := cfVal_isZero c h r
    rw [hz] at this
    rcases cfVal_cases c r with ⟨_, _, e⟩ | ⟨_, _, _, e⟩ | ⟨_, _, _, e⟩ | ⟨_, _, e⟩ | ⟨_, _, e⟩ <;> simp_all [Val.isZero]
  · rw [hz] at hz'; cases hz'
  · rw [hz] at hz'
    have : m = 0 := of_decide_eq_true hz'.symm
    rw [e, this]

theorem sat_zero (c : Cfg) (h : c.valid = true) (r : Nat) (s : Bool) (hr : r < 2 ^ c.nbits)
    (hz : isZero c r = true) (hs : c.signOf r = s) : satisfies c (.zero (some s)) r = true := by
  unfold satisfies
  simp only [Bool.and_eq_true, decide_eq_true_eq, beq_iff_eq]
  exact ⟨hr, by rw [cfVal_of_isZero c h r hz, hs]⟩

theorem sat_zero_any (c : Cfg) (h : c.valid = true) (r : Nat) (hr : r < 2 ^ c.nbits)
    (hz : isZero c r = true) : satisfies c (.zero none) r = true := by
  unfold satisfies
  simp only [Bool.and_eq_true, decide_eq_true_eq]
  exact ⟨hr, by rw [cfVal_isZero c h, hz]⟩

theorem isZero_of_isZeroEnc (c : Cfg) (h : c.valid = true) (r : Nat) (hz : isZeroEnc c r = true) : isZero c r = true := by
  unfold isZero
  cases c.sub
  · simp [((isZeroEnc_iff c h r).mp hz).1]
  · simpa using hz

theorem isInf_setSign (c : Cfg) (h : c.valid = true) (a : Nat) (s : Bool) (hi : isInf c a = true) :
    isInf c (setSign c a s) = true := by
  unfold isInf at *
  rw [(setSign_facts c h a s).2.1]; exact hi

/-! ### the NaN prologue shared by operator+= *= /= -/

theorem isNanT_of_isNan (c : Cfg) (x : Nat) (hx : isNan c x = true) :
    isNanT c x true = true ∨ isNanT c x false = true := by
  unfold isNanT; rw [hx]; cases c.signOf x <;> simp

theorem isNanT_false (c : Cfg) (x : Nat) (t : Bool) (hx : isNan c x = false) : isNanT c x t = false := by
  unfold isNanT; rw [hx]; rfl

theorem prologue_nan (c : Cfg) (hv : c.valid = true) (x y rest : Nat) (hxy : isNan c x = true ∨ isNan c y = true) :
    satisfies c .nan (if (isNanT c x true || isNanT c y true) = true then snan c
                      else if (isNanT c x false || isNanT c y false) = true then qnan c else rest) = true := by
  have hq := qnan_facts c hv
  have hs := snan_facts c hv
  by_cases h1 : (isNanT c x true || isNanT c y true) = true
  · rw [if_pos h1]; exact sat_nan c hv _ hs.1 (isNan_of_isNanEnc c hv _ hs.2.1)
  · rw [if_neg h1]
    have h2 : (isNanT c x false || isNanT c y false) = true := by
      simp only [Bool.or_eq_true, not_or, Bool.not_eq_true] at h1 ⊢
      rcases hxy with hx | hy
      · rcases isNanT_of_isNan c x hx with h | h
        · rw [h] at h1; exact absurd h1.1 (by simp)
        · left; exact h
      · rcases isNanT_of_isNan c y hy with h | h
        · rw [h] at h1; exact absurd h1.2 (by simp)
        · right; exact h
    rw [if_pos h2]; exact sat_nan c hv _ hq.1 (isNan_of_isNanEnc c hv _ hq.2.1)

theorem prologue_skip (c : Cfg) (x y rest : Nat) (hx : isNan c x = false) (hy : isNan c y = false) :
    (if (isNanT c x true || isNanT c y true) = true then snan c
     else if (isNanT c x false || isNanT c y false) = true then qnan c else rest) = rest := by
  rw [isNanT_false c x true hx, isNanT_false c y true hy, isNanT_false c x false hx, isNanT_false c y false hy]
  simp

/-! ### negation -/

def negVal : Val → Val
  | .nan s => .nan (!s)
  | .inf s => .inf (!s)
  | .fin s m => .fin (!s) m

theorem cfVal_negate (c : Cfg) (h : c.valid = true) (b : Nat) : cfVal c (negate c b) = negVal (cfVal c b) := by
  have nf := negate_facts c h b
  have he : c.expOf (negate c b) = c.expOf b := by rw [expOf_abs c h, expOf_abs c h, nf.2.1]
  have hf : c.fracOf (negate c b) = c.fracOf b := by rw [fracOf_abs c h, fracOf_abs c h, nf.2.1]
  unfold cfVal
  simp only [he, hf, nf.2.2]
  split_ifs <;> rfl

theorem isNan_negate (c : Cfg) (h : c.valid = true) (b : Nat) : isNan c (negate c b) = isNan c b := by
  rw [← cfVal_isNan c h, ← cfVal_isNan c h, cfVal_negate c h]
  cases cfVal c b <;> rfl

end UVerif.Cfloat
