import Mathlib.Tactic.Ring
import Mathlib.Tactic.Linarith
import Mathlib.Tactic.FieldSimp
import Mathlib.Tactic.ByContra
import Mathlib.Algebra.Order.Field.Power
import Mathlib.Data.Rat.Floor
import UVerifProofs.Lemmas.CfloatTop
import UVerifProofs.Lemmas.CfloatSelf
open UVerif UVerif.Cfloat

/-!
  The > 64-bit branch of `convert` (D5) shifts and copies without rounding and without the NaN remap. When the
  exact result is a value of the configuration nothing is lost: the significant is an exact multiple of the target
  lsb (last clause of `RoundsLike`), the copied blocks hold all fraction bits, and `setexponent` writes the field.
-/
namespace UVerif.Cfloat

theorem block_cover (n b : Nat) (hb : 0 < b) : n < (1 + n / b) * b := by
  have := Nat.div_add_mod n b
  have := Nat.mod_lt n hb
  rw [Nat.add_mul, Nat.one_mul, Nat.mul_comm]
  omega

/-- what `exactlyRepresentable` says -/
theorem exactlyRepresentable_facts (c : Cfg) (X : ℚ) (hX : 0 < X) (h : exactlyRepresentable c X = true) :
    (!c.sub && decide (X < minNormal c)) = false ∧ overflows c X = false ∧
    ∃ k : Nat, 1 ≤ k ∧ X = (k : ℚ) * ulpAt c X := by
  unfold exactlyRepresentable roundMag at h
  by_cases h1 : (!c.sub && decide (X < minNormal c)) = true
  · rw [if_pos h1] at h
    simp only [beq_iff_eq] at h
    exact absurd h.symm (ne_of_gt hX)
  · rw [if_neg h1] at h
    by_cases h2 : overflows c X = true
    · rw [if_pos h2] at h; cases h
    · rw [if_neg h2] at h
      simp only [beq_iff_eq] at h
      have hu : 0 < ulpAt c X := by unfold ulpAt; exact pow2_pos _
      refine ⟨by simpa using h1, by simpa using h2, ?_⟩
      generalize rne (X / ulpAt c X) = z at h
      have hz : 0 < z := by
        by_contra hc
        have : (z : ℚ) ≤ 0 := by exact_mod_cast (not_lt.mp hc)
        have : (z : ℚ) * ulpAt c X ≤ 0 := mul_nonpos_of_nonpos_of_nonneg this (le_of_lt hu)
        linarith
      refine ⟨z.toNat, by omega, ?_⟩
      have : ((z.toNat : Nat) : ℚ) = (z : ℚ) := by
        have : ((z.toNat : Nat) : Int) = z := Int.toNat_of_nonneg (le_of_lt hz)
        exact_mod_cast this
      rw [this, h]

end UVerif.Cfloat

namespace UVerif.Cfloat

/-- the copy of the fraction blocks and `setexponent` on an exact significant -/
theorem assembleWide_exact (c : Cfg) (hv : c.valid = true) (hbt : 0 < c.bt) (sign : Bool) (exponent : Int) (k t : Nat)
    (hin : ¬ (exponent < c.minExpSubnormal ∨ exponent > c.maxExp)) (hk : k < 2 ^ (c.fbits + 1)) :
    assembleWide c sign exponent (k * 2 ^ t) t =
      k % 2 ^ c.fbits + 2 ^ c.fbits * (if exponent < c.minExpNormal then 0 else (exponent + c.bias).toNat % 2 ^ c.es)
        + signBit c sign := by
  obtain ⟨_, hfb, h3, _⟩ := valid_facts c hv
  unfold assembleWide
  simp only [hin, if_false]
  have hsh : (k * 2 ^ t) >>> t = k := by
    rw [Nat.shiftRight_eq_div_pow, Nat.mul_div_cancel _ (two_pow_pos t)]
  rw [hsh]
  have hc1 : c.fbits ≤ (1 + (c.fbits - 1) / c.bt) * c.bt := by
    have := block_cover (c.fbits - 1) c.bt hbt; omega
  have hc2 : c.fbits ≤ c.nrBlocks * c.bt := by
    unfold Cfg.nrBlocks
    have := block_cover (c.nbits - 1) c.bt hbt; omega
  have hcb : c.fbits ≤ min ((1 + (c.fbits - 1) / c.bt) * c.bt) (c.nrBlocks * c.bt) := le_min hc1 hc2
  have hdvd : 2 ^ c.fbits ∣ 2 ^ (min ((1 + (c.fbits - 1) / c.bt) * c.bt) (c.nrBlocks * c.bt)) := Nat.pow_dvd_pow 2 hcb
  rw [Nat.mod_mod_of_dvd _ hdvd, Nat.shiftLeft_eq]
  ring

end UVerif.Cfloat

namespace UVerif.Cfloat

/-- **the > 64-bit branch of convert on exactly representable results** (subnormal, normal and supernormal range):
    nothing to round, nothing lost by the block copy -/
theorem master_wide (c : Cfg) (hv : c.valid = true) (hg : Gen c) (hes20 : c.es ≤ 20) (hbt : 0 < c.bt)
    (o : Op) (sign : Bool) (scale : Int) (sig : Nat) (X : ℚ)
    (hwide : ¬ o.bfbits c.fbits < 65) (hsig : 2 ^ (o.radix c.fbits) ≤ sig) (hrad : c.fbits ≤ o.radix c.fbits)
    (hRL : RoundsLike c.fbits (o.radix c.fbits) scale sig X) (hex : exactlyRepresentable c X = true)
    (hhi : scale + sigScale (o.radix c.fbits) sig ≤ c.maxExp)
    (hlo1 : c.sub = true → c.minExpSubnormal ≤ scale + sigScale (o.radix c.fbits) sig)
    (hlo2 : c.sub = false → c.minExpNormal ≤ scale + sigScale (o.radix c.fbits) sig) :
    convertFinite c o sign scale sig < 2 ^ c.nbits ∧
    nearestNZ c ((if sign then -1 else 1) * X) (convertFinite c o sign scale sig) = true := by
  obtain ⟨hes, hfb, _, _⟩ := valid_facts c hv
  have hb0 := bias_nonneg c
  have hme := maxExp_eq_gen c hv
  have hmn : c.minExpNormal = 1 - c.bias := rfl
  have hms : c.minExpSubnormal = 1 - c.bias - (c.fbits : Int) := rfl
  have hFn := two_pow_pos c.fbits
  have hFF : 2 ^ (c.fbits + 1) = 2 * 2 ^ c.fbits := by rw [Nat.pow_succ]; omega
  have hE1 := emax_pos c hv
  have hel := emax_lt c
  unfold RoundsLike at hRL
  obtain ⟨hXlo, hXhi, _, hexact⟩ := hRL
  generalize hss : sigScale (o.radix c.fbits) sig = ss at *
  generalize hradix : o.radix c.fbits = radix at *
  obtain ⟨E, hE⟩ : ∃ E : Int, E = scale + (ss : Int) := ⟨_, rfl⟩
  rw [← hE] at hXlo hXhi hhi hlo1 hlo2
  have hXpos : 0 < X := lt_of_lt_of_le (pow2_pos E) hXlo
  obtain ⟨hfl0, hno, k, hk1, hXk⟩ := exactlyRepresentable_facts c X hXpos hex
  have hfl : floorLog2 X = E := floorLog2_eq X E hXlo hXhi
  obtain ⟨F, hFdef⟩ : ∃ F : ℚ, F = ((2 ^ c.fbits : Nat) : ℚ) := ⟨_, rfl⟩
  have hFpos : (0 : ℚ) < F := by rw [hFdef]; exact_mod_cast hFn
  have e1 : ¬ (c.sub = true ∧ E < c.minExpSubnormal) := by
    intro hc; have := hlo1 hc.1; omega
  have e2 : ¬ (¬ c.sub = true ∧ E + c.bias ≤ 0) := by
    intro hc
    have : c.sub = false := by simpa using hc.1
    have := hlo2 this; omega
  have e3 : ¬ (E > c.maxExp) := by omega
  by_cases hn : c.minExpNormal ≤ E
  · -- normal or supernormal result
    have hul : ulpAt c X = pow2 (E - (c.fbits : Int)) := by
      unfold ulpAt; simp only [hfl]; rw [if_neg (by omega)]
    rw [hul] at hXk
    obtain ⟨u, hu⟩ : ∃ u : ℚ, u = pow2 (E - (c.fbits : Int)) := ⟨_, rfl⟩
    have hupos : 0 < u := by rw [hu]; exact pow2_pos _
    have hsigk : sig = k * 2 ^ (ss + radix - c.fbits + 0) := by
      apply hexact 0 k
      rw [hXk, hE]; congr 2; push_cast; ring
    rw [Nat.add_zero] at hsigk
    have hpE : pow2 E = F * u := by rw [hu, hFdef, pow2_sub E, pow2_natCast]; field_simp
    rw [← hu] at hXk
    have hk1q : F ≤ (k : ℚ) := by
      rw [hpE, hXk] at hXlo; exact le_of_mul_le_mul_right hXlo hupos
    have hk2q : (k : ℚ) < 2 * F := by
      rw [pow2_succ, hpE, hXk] at hXhi
      have : (k : ℚ) * u < (2 * F) * u := by linarith
      exact lt_of_mul_lt_mul_right this (le_of_lt hupos)
    have hkn1 : 2 ^ c.fbits ≤ k := by rw [hFdef] at hk1q; exact_mod_cast hk1q
    have hkn2 : k < 2 * 2 ^ c.fbits := by rw [hFdef] at hk2q; exact_mod_cast hk2q
    have e4 : ¬ (E < c.minExpNormal) := by omega
    have hconv : convertFinite c o sign scale sig = assembleWide c sign E sig (ss + radix - c.fbits) := by
      unfold convertFinite
      simp only [hss, hradix, ← hE, e1, e2, e3, e4, and_false, if_false, hwide, Nat.add_zero]
    rw [hconv, hsigk, assembleWide_exact c hv hbt sign E k _ (by omega) (by omega), if_neg e4]
    obtain ⟨biased, hbiased⟩ : ∃ bi : Nat, bi = (E + c.bias).toNat := ⟨_, rfl⟩
    have hbi : (biased : Int) = E + c.bias := by omega
    have hble : biased ≤ c.emax := by omega
    rw [← hbiased, Nat.mod_eq_of_lt (by omega : biased < 2 ^ c.es)]
    have hkm : k % 2 ^ c.fbits = k - 2 ^ c.fbits := by
      rw [Nat.mod_eq_sub_mod hkn1, Nat.mod_eq_of_lt (by omega)]
    rw [hkm]
    have hlt : k - 2 ^ c.fbits < 2 ^ c.fbits := by omega
    have fc := fields_of_compose c hv sign biased (k - 2 ^ c.fbits) (by omega) hlt
    refine ⟨fc.1, ?_⟩
    have hsubq : ((k - 2 ^ c.fbits : Nat) : ℚ) = (k : ℚ) - F := by rw [Nat.cast_sub hkn1, hFdef]
    have hkq : (-(1:ℚ)/2 < X / pow2 (E - (c.fbits : Int)) - (k : ℚ) ∧ X / pow2 (E - (c.fbits : Int)) - (k : ℚ) < 1/2) ∨
        ((X / pow2 (E - (c.fbits : Int)) - (k : ℚ) = 1/2 ∨ X / pow2 (E - (c.fbits : Int)) - (k : ℚ) = -(1:ℚ)/2) ∧ k % 2 = 0) := by
      left
      rw [← hu, hXk]
      have : (k : ℚ) * u / u = (k : ℚ) := by field_simp
      rw [this]; constructor <;> norm_num
    by_cases hbe : biased < c.emax
    · have hval := cfVal_compose_normal c hv sign biased (k - 2 ^ c.fbits) (by omega) hbe hlt
      have hm : (1 + ((k - 2 ^ c.fbits : Nat) : ℚ) / ((2 ^ c.fbits : Nat) : ℚ)) * pow2 ((biased : Int) - c.bias)
          = (k : ℚ) * pow2 (E - (c.fbits : Int)) := by
        have : (biased : Int) - c.bias = E := by omega
        rw [this, hpE, ← hu, hsubq, ← hFdef]; field_simp; ring
      rw [hm] at hval
      have hmax := cfVal_le_maxFinite c hv hg _ _ _ hval
      exact nearestNZ_intro c _ _ sign X _ E k (signed_eq sign X) hval hXlo hXhi (by omega) rfl hkq hno hmax
    · have hbeq : biased = c.emax := by omega
      have hEb : (c.emax : Int) - c.bias = E := by omega
      by_cases hsupF : c.sup = true ∧ 2 ^ c.fbits ≥ 3
      · have hov := overflows_sup c hv hsupF X
        rw [hno] at hov
        have hlt' : ¬ ((((2 ^ (c.fbits + 1) - 3 : Nat) : ℚ) + 1 / 2) * pow2 ((c.emax : Int) - c.bias - (c.fbits : Int)) ≤ X) := by
          intro hc; rw [decide_eq_true hc] at hov; cases hov
        rw [hEb, ← hu, hXk] at hlt'
        have hklt : (k : ℚ) < ((2 ^ (c.fbits + 1) - 3 : Nat) : ℚ) + 1 / 2 := by
          by_contra hc
          exact hlt' (mul_le_mul_of_nonneg_right (not_lt.mp hc) (le_of_lt hupos))
        have hk3 : k ≤ 2 ^ (c.fbits + 1) - 3 := by
          by_contra hc
          have : 2 ^ (c.fbits + 1) - 3 + 1 ≤ k := by omega
          have : (((2 ^ (c.fbits + 1) - 3 + 1 : Nat)) : ℚ) ≤ (k : ℚ) := by exact_mod_cast this
          push_cast at this; linarith
        rw [hbeq]
        have hval := cfVal_compose_super c hv hsupF.1 sign (k - 2 ^ c.fbits) (by omega)
        have hm : (1 + ((k - 2 ^ c.fbits : Nat) : ℚ) / ((2 ^ c.fbits : Nat) : ℚ)) * pow2 ((c.emax : Int) - c.bias)
            = (k : ℚ) * pow2 (E - (c.fbits : Int)) := by
          rw [hEb, hpE, ← hu, hsubq, ← hFdef]; field_simp; ring
        rw [hm] at hval
        have hmax := cfVal_le_maxFinite c hv hg _ _ _ hval
        exact nearestNZ_intro c _ _ sign X _ E k (signed_eq sign X) hval hXlo hXhi (by omega) rfl hkq hno hmax
      · exfalso
        have hes2 : 2 ≤ c.es := by
          rcases gen_cases c hv hg with h2 | ⟨_, _, hs', _, _, hF4⟩
          · exact h2
          · exact absurd ⟨hs', by omega⟩ hsupF
        have hov := overflows_nosup c hv hes2 hsupF X
        rw [hno] at hov
        have hge : (((2 ^ (c.fbits + 1) - 1 : Nat) : ℚ) + 1 / 2) * pow2 ((c.emax : Int) - 1 - c.bias - (c.fbits : Int)) ≤ X := by
          have hEe : (c.emax : Int) - 1 - c.bias - (c.fbits : Int) = E - (c.fbits : Int) - 1 := by omega
          have hU : pow2 ((c.emax : Int) - 1 - c.bias - (c.fbits : Int)) = u / 2 := by
            rw [hEe, hu, pow2_sub (E - (c.fbits : Int)) 1]
            rw [show pow2 1 = 2 by rw [pow2_eq_zpow]; norm_num]
          have hK1 : ((2 ^ (c.fbits + 1) - 1 : Nat) : ℚ) = 2 * F - 1 := by
            rw [Nat.cast_sub (two_pow_pos _), hFdef]; push_cast; rw [pow_succ]; ring
          rw [hU, hK1]
          rw [hpE] at hXlo
          nlinarith
        rw [decide_eq_true hge] at hov; cases hov
  · -- subnormal result
    have hsub : c.sub = true := by
      cases hs : c.sub
      · exact absurd (hlo2 hs) hn
      · rfl
    have hElt : E < c.minExpNormal := by omega
    have e1' : ¬ (E < c.minExpSubnormal) := by have := hlo1 hsub; omega
    have hsrs := srs_eq c (by omega) hes20
    obtain ⟨adj, hadj⟩ : ∃ adj : Nat, adj = (-(E + c.srs)).toNat := ⟨_, rfl⟩
    have hadjv : (adj : Int) = 1 - c.bias - E := by rw [hadj, hsrs, hmn]; omega
    have hul : ulpAt c X = pow2 (1 - c.bias - (c.fbits : Int)) := by
      unfold ulpAt; simp only [hfl]; rw [if_pos (by omega)]
    rw [hul] at hXk
    obtain ⟨U, hU⟩ : ∃ U : ℚ, U = pow2 (1 - c.bias - (c.fbits : Int)) := ⟨_, rfl⟩
    have hUpos : 0 < U := by rw [hU]; exact pow2_pos _
    have hsigk : sig = k * 2 ^ (ss + radix - c.fbits + adj) := by
      apply hexact adj k
      rw [hXk]; congr 2; omega
    have hminN : pow2 (1 - c.bias) = F * U := by
      rw [hU, hFdef, pow2_sub (1 - c.bias), pow2_natCast]; field_simp
    rw [← hU] at hXk hul
    have hk2q : (k : ℚ) < F := by
      have h1 : pow2 (E + 1) ≤ pow2 (1 - c.bias) := pow2_le_pow2.mpr (by omega)
      have : (k : ℚ) * U < F * U := by rw [← hXk, ← hminN]; exact lt_of_lt_of_le hXhi h1
      exact lt_of_mul_lt_mul_right this (le_of_lt hUpos)
    have hkn2 : k < 2 ^ c.fbits := by rw [hFdef] at hk2q; exact_mod_cast hk2q
    have hconv : convertFinite c o sign scale sig = assembleWide c sign E sig (ss + radix - c.fbits + adj) := by
      unfold convertFinite
      simp only [hss, hradix, ← hE, e1', e3, hsub, hElt, true_and, and_self, if_true, if_false, hwide, ← hadj,
        not_true_eq_false, false_and]
    rw [hconv, hsigk, assembleWide_exact c hv hbt sign E k _ (by omega) (by omega), if_pos hElt,
      Nat.mod_eq_of_lt hkn2]
    have fc := fields_of_compose c hv sign 0 k (two_pow_pos _) hkn2
    refine ⟨fc.1, ?_⟩
    have hval := cfVal_compose_subnormal c hv hsub sign k hkn2
    rw [← hU] at hval
    have hmax := cfVal_le_maxFinite c hv hg _ _ _ hval
    refine nearestNZ_intro_ulp c _ _ sign X _ U k (signed_eq sign X) hXpos hval hul hUpos (by rw [hsub]; rfl) rfl ?_ hno hmax
    left
    rw [hXk]
    have : (k : ℚ) * U / U = (k : ℚ) := by field_simp
    rw [this]; constructor <;> norm_num

end UVerif.Cfloat

namespace UVerif.Cfloat

/-- **convert(blocktriple → cfloat), both branches**: the ≤ 64-bit branch rounds (`convert_master`); the > 64-bit
    branch is correct for the early exits (underflow, flush, overflow) and for exactly representable results -/
theorem convert_master_all (c : Cfg) (hv : c.valid = true) (hg : Gen c) (hes20 : c.es ≤ 20) (hbt : 0 < c.bt)
    (o : Op) (sign : Bool) (scale : Int) (sig : Nat) (X : ℚ)
    (hsig : 2 ^ (o.radix c.fbits) ≤ sig) (hrad : c.fbits ≤ o.radix c.fbits)
    (hRL : RoundsLike c.fbits (o.radix c.fbits) scale sig X)
    (hw : ¬ o.bfbits c.fbits < 65 → exactlyRepresentable c X = true)
    (hss : c.sat = true → c.sup = true → overflows c X = false)
    (hsn : c.sat = true → c.sup = false → roundsToInfPattern c X = false) :
    convertFinite c o sign scale sig < 2 ^ c.nbits ∧
    nearestNZ c ((if sign then -1 else 1) * X) (convertFinite c o sign scale sig) = true := by
  by_cases hnarrow : o.bfbits c.fbits < 65
  · exact convert_master c hv hg hes20 o sign scale sig X hnarrow hsig hrad hRL hss hsn
  · have hex := hw hnarrow
    have hXpos : 0 < X := lt_of_lt_of_le (pow2_pos _) hRL.1
    obtain ⟨_, hno, _⟩ := exactlyRepresentable_facts c X hXpos hex
    have hmn : c.minExpNormal = 1 - c.bias := rfl
    have hms : c.minExpSubnormal = 1 - c.bias - (c.fbits : Int) := rfl
    by_cases h1 : c.maxExp < scale + sigScale (o.radix c.fbits) sig
    · exfalso
      have hXlo : pow2 (c.maxExp + 1) ≤ X := le_trans (pow2_le_pow2.mpr (by omega)) hRL.1
      have := overflows_of_ge_gen c hv hg X hXlo
      rw [hno] at this; cases this
    · cases hsub : c.sub
      · by_cases h3 : c.minExpNormal ≤ scale + sigScale (o.radix c.fbits) sig
        · exact master_wide c hv hg hes20 hbt o sign scale sig X hnarrow hsig hrad hRL hex (by omega)
            (fun h => by rw [hsub] at h; cases h) (fun _ => h3)
        · exact master_flush c hv hsub o sign scale sig X hRL (by omega)
      · by_cases h4 : c.minExpSubnormal ≤ scale + sigScale (o.radix c.fbits) sig
        · exact master_wide c hv hg hes20 hbt o sign scale sig X hnarrow hsig hrad hRL hex (by omega)
            (fun _ => h4) (fun h => by rw [hsub] at h; cases h)
        · exact master_underflow c hv hsub hg hes20 o sign scale sig X hsig hrad hRL (by omega)

end UVerif.Cfloat
