/-
  UVerifProofs.Lemmas.ConvDD — helper lemmas for the dd / qd conversion theorems (Props/C03ConvDD, C04ConvDD):
  `ofInt` (static_cast<double>(int64)) as a rounding on integer units, `truncInt`, the exact widening float → double.
-/
import UVerifProofs.Lemmas.F64Lift
import UVerifProofs.Lemmas.Signed
import UVerifProofs.Lemmas.F64Split
import UVerif.Model.ConvDD
import Mathlib.Tactic.Ring
import Mathlib.Tactic.Linarith

namespace UVerif.ConvDDLemmas
open UVerif UVerif.F64

theorem shl_eq_mul (n k : Nat) : n <<< k = n * 2 ^ k := Nat.shiftLeft_eq n k

/-- `2^k · m` is a float when `m < 2^p`. -/
theorem isFloatN_small_mul {p m : Nat} (hm : m < 2 ^ p) (k : Nat) : IsFloatN p (m * 2 ^ k) :=
  isFloatN_mul_two_pow (isFloatN_of_lt hm) k

/-- `static_cast<double>(z)` for an integer below `2^p` in magnitude is exact:  the units are `z · 2^q`. -/
theorem ofInt_exact (f : Fmt) (hp : 1 ≤ f.p) (hpt : f.p + f.q ≤ f.top) {z : Int} (hz : z.natAbs < 2 ^ f.p) :
    (ofInt f z).isFinite = true ∧ (ofInt f z).toInt = z * ((2 ^ f.q : Nat) : Int) ∧ IsFloat f.p (ofInt f z).toInt := by
  unfold ofInt
  by_cases h0 : z = 0
  · subst h0
    simp [pzero, F.isFinite, F.toInt, isFloat_zero]
  · simp only [h0, if_false]
    have hfl : IsFloatN f.p (z.natAbs * 2 ^ f.q) := isFloatN_small_mul hz f.q
    rw [shl_eq_mul, rnNat_exact hp hfl]
    have hsz : size (z.natAbs * 2 ^ f.q) ≤ f.top := by
      apply size_le.2
      calc z.natAbs * 2 ^ f.q < 2 ^ f.p * 2 ^ f.q := Nat.mul_lt_mul_of_pos_right hz (Nat.two_pow_pos _)
        _ = 2 ^ (f.p + f.q) := (Nat.pow_add 2 f.p f.q).symm
        _ ≤ 2 ^ f.top := Nat.pow_le_pow_right (by omega) hpt
    unfold pack
    simp only [hsz, if_true]
    refine ⟨rfl, ?_, ?_⟩
    · rcases Int.lt_or_le z 0 with hn | hn
      · simp only [F.toInt, hn, decide_true, if_true]
        push_cast
        rw [abs_of_neg hn]; ring
      · have hnn : ¬ z < 0 := by omega
        simp only [F.toInt, hnn, decide_false, Bool.false_eq_true, if_false]
        push_cast
        rw [abs_of_nonneg hn]
    · unfold IsFloat
      rcases Int.lt_or_le z 0 with hn | hn
      · simp only [F.toInt, hn, decide_true, if_true, Int.natAbs_neg, Int.natAbs_natCast]; exact hfl
      · have hnn : ¬ z < 0 := by omega
        simp only [F.toInt, hnn, decide_false, Bool.false_eq_true, if_false, Int.natAbs_natCast]; exact hfl

/-- exact widening float → double: same value (units rescaled), still representable. -/
theorem widen32_toInt (x : F) (hx : x.isFinite = true) :
    (ConvDD.widen32 x).isFinite = true ∧
    (ConvDD.widen32 x).toInt = x.toInt * ((2 ^ (binary64.q - binary32.q) : Nat) : Int) := by
  cases x with
  | fin s n =>
    refine ⟨rfl, ?_⟩
    simp only [ConvDD.widen32, F.toInt, shl_eq_mul]
    cases s <;> simp
  | inf s => simp [F.isFinite] at hx
  | nan => simp [F.isFinite] at hx

theorem isFloatN_mono {p p' n : Nat} (h : IsFloatN p n) (hp : p ≤ p') : IsFloatN p' n := by
  obtain ⟨e, hd, hb⟩ := h
  exact ⟨e, hd, le_trans hb (Nat.pow_le_pow_right (by omega) (by omega))⟩

/-- a power of two below the top binade is at most the largest finite magnitude -/
theorem two_pow_le_maxMag (f : Fmt) (hp : 1 ≤ f.p) (hpt : f.p ≤ f.top) {k : Nat} (hk : k + 1 ≤ f.top) : 2 ^ k ≤ maxMag f := by
  unfold maxMag
  have h1 : 2 ^ (f.p - 1) ≤ 2 ^ f.p - 1 := by
    have : 2 ^ f.p = 2 ^ (f.p - 1) * 2 := by rw [← Nat.pow_succ]; congr 1; omega
    have := Nat.two_pow_pos (f.p - 1)
    omega
  calc 2 ^ k ≤ 2 ^ (f.top - 1) := Nat.pow_le_pow_right (by omega) (by omega)
    _ = 2 ^ (f.p - 1) * 2 ^ (f.top - f.p) := by rw [← Nat.pow_add]; congr 1; omega
    _ ≤ (2 ^ f.p - 1) * 2 ^ (f.top - f.p) := Nat.mul_le_mul_right _ h1

/-- `static_cast<double>(z)` is `roundInt` on the units `z · 2^q` -/
theorem ofInt_eq_roundInt (f : Fmt) (z : Int) : ofInt f z = roundInt f (z * ((2 ^ f.q : Nat) : Int)) false := by
  have hpos : (0 : Int) < ((2 ^ f.q : Nat) : Int) := by exact_mod_cast Nat.two_pow_pos f.q
  unfold ofInt roundInt
  by_cases h0 : z = 0
  · subst h0; simp [pzero]
  · have hne : z * ((2 ^ f.q : Nat) : Int) ≠ 0 := mul_ne_zero h0 (ne_of_gt hpos)
    simp only [h0, hne, if_false]
    have hs : decide (z < 0) = decide (z * ((2 ^ f.q : Nat) : Int) < 0) := by
      by_cases hv : z < 0
      · have h' : z * ((2 ^ f.q : Nat) : Int) < 0 := mul_neg_of_neg_of_pos hv hpos
        rw [decide_eq_true hv, decide_eq_true h']
      · have h' : ¬ z * ((2 ^ f.q : Nat) : Int) < 0 := by
          have : 0 ≤ z * ((2 ^ f.q : Nat) : Int) := mul_nonneg (by omega) (le_of_lt hpos)
          omega
        rw [decide_eq_false hv, decide_eq_false h']
    rw [hs, shl_eq_mul, Int.natAbs_mul, Int.natAbs_natCast]

/-- the head of an integer conversion is the correctly rounded integer (in units) -/
theorem ofInt_spec (f : Fmt) (hp : 1 ≤ f.p) (hpt : f.p ≤ f.top) {z : Int} (h : z.natAbs * 2 ^ f.q ≤ maxMag f) :
    (ofInt f z).Rep f ∧ (ofInt f z).toInt = rnInt f.p (z * ((2 ^ f.q : Nat) : Int)) := by
  rw [ofInt_eq_roundInt]
  have hm : (z * ((2 ^ f.q : Nat) : Int)).natAbs ≤ maxMag f := by
    rw [Int.natAbs_mul, Int.natAbs_natCast]; exact h
  obtain ⟨h1, h2⟩ := roundInt_spec f hp hpt _ false hm
  exact ⟨⟨h1, by rw [h2]; exact rnInt_isFloat _ _⟩, h2⟩

/-- integers of at most `k` bits are in range when `k + q < top` -/
theorem int_in_range (f : Fmt) (hp : 1 ≤ f.p) (hpt : f.p ≤ f.top) (k : Nat) (hk : k + f.q + 1 ≤ f.top) {v : Int}
    (hv : v.natAbs ≤ 2 ^ k) : v.natAbs * 2 ^ f.q ≤ maxMag f :=
  calc v.natAbs * 2 ^ f.q ≤ 2 ^ k * 2 ^ f.q := Nat.mul_le_mul_right _ hv
    _ = 2 ^ (k + f.q) := (Nat.pow_add 2 k f.q).symm
    _ ≤ maxMag f := two_pow_le_maxMag f hp hpt hk

/-- a finite value with positive units is `fin false n` -/
theorem eq_fin_of_pos {x : F} (hf : x.isFinite = true) {n : Nat} (hn : 0 < n) (h : x.toInt = (n : Int)) : x = .fin false n := by
  cases x with
  | fin s m =>
    cases s
    · simp only [F.toInt, Bool.false_eq_true, if_false] at h
      have : m = n := by exact_mod_cast h
      rw [this]
    · simp only [F.toInt, if_true] at h
      omega
  | inf s => simp [F.isFinite] at hf
  | nan => simp [F.isFinite] at hf

/-- `static_cast<uint64_t>` of the exact double of a non-negative integer below 2^63 and below 2^p returns the integer -/
theorem toU64_ofInt_small (v : Nat) (hv : v < 2 ^ ConvDD.b64.p) (hv0 : v ≠ 0) :
    ofInt ConvDD.b64 (v : Int) = .fin false (v * 2 ^ ConvDD.b64.q) ∧ ConvDD.toU64 (.fin false (v * 2 ^ ConvDD.b64.q)) = v := by
  have hp53 : ConvDD.b64.p = 53 := by decide
  have hv63 : v < 2 ^ 63 := by
    rw [hp53] at hv; exact lt_trans hv (by decide)
  constructor
  · obtain ⟨h1, h2, _⟩ := ofInt_exact ConvDD.b64 (by decide) (by decide) (z := (v : Int)) (by simpa using hv)
    have hpos : 0 < v * 2 ^ ConvDD.b64.q := Nat.mul_pos (Nat.pos_of_ne_zero hv0) (Nat.two_pow_pos _)
    exact eq_fin_of_pos h1 hpos (by rw [h2]; push_cast; ring)
  · have hsh : (v * 2 ^ ConvDD.b64.q) >>> ConvDD.b64.q = v := by
      rw [Nat.shiftRight_eq_div_pow, Nat.mul_div_cancel _ (Nat.two_pow_pos _)]
    have hlt : (v : Int) < (2 ^ 63 : Int) := by exact_mod_cast hv63
    have hge : -(2 ^ 63 : Int) ≤ (v : Int) := by omega
    unfold ConvDD.toU64 toI64 truncInt
    simp only [Bool.false_eq_true, if_false, hsh]
    rw [if_pos hlt, if_pos ⟨hge, hlt⟩, ofSigned_natCast]
    exact Nat.mod_eq_of_lt (lt_trans hv63 (by decide))

end UVerif.ConvDDLemmas

namespace UVerif.ConvDDLemmas
open UVerif UVerif.F64

/-- `truncInt` of a finite value whose units are a multiple of 2^q -/
theorem truncInt_of_mul (f : Fmt) {x : F} (hf : x.isFinite = true) {r : Int} (h : x.toInt = r * ((2 ^ f.q : Nat) : Int)) :
    truncInt f x = some r := by
  have hU : 0 < 2 ^ f.q := Nat.two_pow_pos _
  have hUz : (0 : Int) < ((2 ^ f.q : Nat) : Int) := by exact_mod_cast hU
  cases x with
  | fin s n =>
    unfold truncInt
    simp only [Nat.shiftRight_eq_div_pow]
    cases s
    · simp only [F.toInt, Bool.false_eq_true, if_false] at h ⊢
      have hr : 0 ≤ r := by
        by_contra hc
        have : r * ((2 ^ f.q : Nat) : Int) < 0 := mul_neg_of_neg_of_pos (by omega) hUz
        omega
      obtain ⟨k, rfl⟩ := Int.eq_ofNat_of_zero_le hr
      have : n = k * 2 ^ f.q := by exact_mod_cast h
      rw [this, Nat.mul_div_cancel _ hU]
    · simp only [F.toInt, if_true] at h ⊢
      have hr : r ≤ 0 := by
        by_contra hc
        have : 0 < r * ((2 ^ f.q : Nat) : Int) := mul_pos (by omega) hUz
        omega
      obtain ⟨k, hk⟩ := Int.eq_ofNat_of_zero_le (show 0 ≤ -r by omega)
      have hn : (n : Int) = (k : Int) * ((2 ^ f.q : Nat) : Int) := by
        have : (n : Int) = (-r) * ((2 ^ f.q : Nat) : Int) := by rw [neg_mul]; omega
        rw [this, hk]
      have : n = k * 2 ^ f.q := by exact_mod_cast hn
      rw [this, Nat.mul_div_cancel _ hU]
      congr 1
      omega
  | inf s => simp [F.isFinite] at hf
  | nan => simp [F.isFinite] at hf

end UVerif.ConvDDLemmas

namespace UVerif.ConvDDLemmas
open UVerif UVerif.F64

theorem wrapI64_small {z : Int} (h1 : -(2 ^ 63 : Int) ≤ z) (h2 : z < (2 ^ 63 : Int)) : wrapI64 z = z := by
  unfold wrapI64
  simp only
  by_cases hz : 0 ≤ z
  · have : z % (2 ^ 64 : Int) = z := Int.emod_eq_of_lt hz (by omega)
    rw [this, if_pos h2]
  · have : z % (2 ^ 64 : Int) = z + 2 ^ 64 := by
      have h := Int.emod_eq_of_lt (a := z + 2 ^ 64) (b := 2 ^ 64) (by omega) (by omega)
      rw [Int.add_emod_right] at h
      exact h
    rw [this, if_neg (by omega)]
    ring

theorem wrapI64_sub_pow {z : Int} (h1 : (2 ^ 63 : Int) ≤ z) (h2 : z < (2 ^ 64 : Int)) : wrapI64 z = z - 2 ^ 64 := by
  unfold wrapI64
  simp only
  have : z % (2 ^ 64 : Int) = z := Int.emod_eq_of_lt (by omega) h2
  rw [this, if_neg (by omega)]

/-- `qd = int64`: x0 is the correctly rounded integer, x1 the exact remainder — the two limbs sum to v for EVERY int64
    (the x86 conversion of 2^63 to int64 gives −2^63, and the wrapping subtraction repairs it). -/
theorem qdFromI64_exact (v : Int) (h1 : -(2 ^ 63 : Int) ≤ v) (h2 : v < (2 ^ 63 : Int)) (hv0 : v ≠ 0) (p2 p3 : F) :
    (ConvDD.qdFromI64 v p2 p3).1.Rep binary64 ∧ (ConvDD.qdFromI64 v p2 p3).2.1.Rep binary64 ∧
    (ConvDD.qdFromI64 v p2 p3).1.toInt + (ConvDD.qdFromI64 v p2 p3).2.1.toInt = v * ((2 ^ binary64.q : Nat) : Int) ∧
    (ConvDD.qdFromI64 v p2 p3).1.toInt = rnInt binary64.p (v * ((2 ^ binary64.q : Nat) : Int)) ∧
    (ConvDD.qdFromI64 v p2 p3).2.2 = (p2, p3) := by
  have hp1 : 1 ≤ binary64.p := by decide
  have hpt : binary64.p ≤ binary64.top := by decide
  have hp53 : binary64.p = 53 := by decide
  have hk : 64 + binary64.q + 1 ≤ binary64.top := by decide
  have hpq : binary64.p + binary64.q ≤ binary64.top := by decide
  generalize hq : binary64.q = q at *
  have hUn : 0 < 2 ^ q := Nat.two_pow_pos q
  set U : Int := ((2 ^ q : Nat) : Int) with hU
  have hUpos : (0 : Int) < U := by rw [hU]; exact_mod_cast hUn
  have hvabs : v.natAbs ≤ 2 ^ 63 := by omega
  have hrange : v.natAbs * 2 ^ binary64.q ≤ maxMag binary64 :=
    int_in_range binary64 hp1 hpt 64 (by rw [hq]; exact hk) (le_trans hvabs (by decide))
  obtain ⟨hx0rep, hx0⟩ := ofInt_spec binary64 hp1 hpt hrange
  rw [hq] at hx0
  -- the rounded head is a multiple of the unit
  have hdvd : U ∣ rnInt binary64.p (v * U) := rnInt_dvd (Dvd.intro_left v rfl)
  obtain ⟨r, hr⟩ := hdvd
  -- |v - r| ≤ 2^10
  have hclose := rnInt_close binary64.p (v * U)
  have hzabs : (v * U).natAbs = v.natAbs * 2 ^ q := by rw [Int.natAbs_mul, hU, Int.natAbs_natCast]
  have hsz : size (v * U).natAbs ≤ 64 + q := by
    rw [hzabs]; apply size_le.2
    calc v.natAbs * 2 ^ q ≤ 2 ^ 63 * 2 ^ q := Nat.mul_le_mul_right _ hvabs
      _ < 2 ^ 64 * 2 ^ q := Nat.mul_lt_mul_of_pos_right (by decide) hUn
      _ = 2 ^ (64 + q) := (Nat.pow_add 2 64 q).symm
  have hpow : 2 ^ (size (v * U).natAbs - binary64.p) ≤ 2048 * 2 ^ q := by
    calc 2 ^ (size (v * U).natAbs - binary64.p) ≤ 2 ^ (11 + q) := Nat.pow_le_pow_right (by omega) (by rw [hp53]; omega)
      _ = 2048 * 2 ^ q := by rw [Nat.pow_add]
  have hdiff : (v * U - rnInt binary64.p (v * U)).natAbs = (v - r).natAbs * 2 ^ q := by
    rw [hr, show v * U - U * r = (v - r) * U by ring, Int.natAbs_mul, hU, Int.natAbs_natCast]
  have hvr : (v - r).natAbs ≤ 1024 := by
    rw [hdiff] at hclose
    have : 2 * ((v - r).natAbs * 2 ^ q) ≤ 2048 * 2 ^ q := le_trans hclose hpow
    have h' : (2 * (v - r).natAbs) * 2 ^ q ≤ 2048 * 2 ^ q := by rw [Nat.mul_assoc]; exact this
    have := Nat.le_of_mul_le_mul_right h' hUn
    omega
  -- the conversion back to int64 and the wrapping subtraction
  have htr : truncInt binary64 (ofInt binary64 v) = some r :=
    truncInt_of_mul binary64 hx0rep.1 (by rw [hq, hx0, hr]; ring)
  have hd : wrapI64 (v - toI64 binary64 (ofInt binary64 v)) = v - r := by
    unfold toI64
    rw [htr]
    simp only
    by_cases hin : -(2 ^ 63 : Int) ≤ r ∧ r < (2 ^ 63 : Int)
    · rw [if_pos hin]
      exact wrapI64_small (by omega) (by omega)
    · rw [if_neg hin]
      -- r = 2^63 (it cannot be below −2^63 − 1: |v − r| ≤ 1024 only excludes, so both sides are treated)
      have hr63 : r ≥ 2 ^ 63 ∨ r < -(2 ^ 63 : Int) := by omega
      rcases hr63 with hge | hlt
      · have := wrapI64_sub_pow (z := v - -(2 ^ 63 : Int)) (by omega) (by omega)
        rw [this]
        -- r ≤ 2^63 by monotonicity of rounding
        have hfl : IsFloat binary64.p ((2 ^ 63 : Int) * U) := by
          unfold IsFloat
          rw [Int.natAbs_mul, hU, Int.natAbs_natCast]
          have : ((2 : Int) ^ 63).natAbs = 2 ^ 63 := by decide
          rw [this, ← Nat.pow_add]
          exact isFloatN_two_pow _ _ hp1
        have hle := rnInt_le_of_le hp1 hfl (show v * U ≤ (2 ^ 63 : Int) * U from mul_le_mul_of_nonneg_right (by omega) (le_of_lt hUpos))
        rw [hr, mul_comm U r] at hle
        have : r ≤ 2 ^ 63 := le_of_mul_le_mul_right hle hUpos
        omega
      · exfalso
        have hfl : IsFloat binary64.p (-(2 ^ 63 : Int) * U) := by
          unfold IsFloat
          rw [Int.natAbs_mul, hU, Int.natAbs_natCast]
          have : (-(2 : Int) ^ 63).natAbs = 2 ^ 63 := by decide
          rw [this, ← Nat.pow_add]
          exact isFloatN_two_pow _ _ hp1
        have hge := rnInt_ge_of_ge hp1 hfl (show -(2 ^ 63 : Int) * U ≤ v * U from mul_le_mul_of_nonneg_right (by omega) (le_of_lt hUpos))
        rw [hr, mul_comm U r] at hge
        have : -(2 ^ 63 : Int) ≤ r := le_of_mul_le_mul_right hge hUpos
        omega
  -- the tail is exact
  have hdabs : (v - r).natAbs < 2 ^ binary64.p := by
    rw [hp53]; exact lt_of_le_of_lt hvr (by decide)
  obtain ⟨hx1fin, hx1, hx1fl⟩ := ofInt_exact binary64 hp1 (by rw [hq]; exact hpq) (z := v - r) hdabs
  rw [hq] at hx1
  have e : ConvDD.qdFromI64 v p2 p3 = (ofInt binary64 v, ofInt binary64 (v - r), p2, p3) := by
    unfold ConvDD.qdFromI64
    rw [if_neg hv0]
    simp only
    show (ofInt binary64 v, ofInt binary64 (wrapI64 (v - toI64 binary64 (ofInt binary64 v))), p2, p3) = _
    rw [hd]
  rw [e]
  refine ⟨hx0rep, ⟨hx1fin, hx1fl⟩, ?_, hx0, rfl⟩
  show (ofInt binary64 v).toInt + (ofInt binary64 (v - r)).toInt = v * U
  rw [hx0, hx1, hr]; ring

end UVerif.ConvDDLemmas

namespace UVerif.ConvDDLemmas
open UVerif UVerif.F64

/-- `double(long double)` of a value on the 2^-1074 grid (z units of 2^-1074, i.e. z·2^K x87 units): the correctly rounded
    integer, provided the rounded magnitude does not overflow -/
theorem narrowLD_grid {x : F} (hf : x.isFinite = true) {z : Int}
    (h : x.toInt = z * ((2 ^ (ConvDD.x87.q - ConvDD.b64.q) : Nat) : Int)) (hr : z.natAbs ≤ maxMag ConvDD.b64) :
    (ConvDD.narrowLD x).isFinite = true ∧ (ConvDD.narrowLD x).toInt = rnInt ConvDD.b64.p z := by
  have hp1 : 1 ≤ ConvDD.b64.p := by decide
  have hpt : ConvDD.b64.p ≤ ConvDD.b64.top := by decide
  set K := ConvDD.x87.q - ConvDD.b64.q with hK
  have hKpos : 0 < 2 ^ K := Nat.two_pow_pos K
  have hKz : (0 : Int) < ((2 ^ K : Nat) : Int) := by exact_mod_cast hKpos
  cases x with
  | fin s n =>
    have hn : n = z.natAbs * 2 ^ K := by
      have := congrArg Int.natAbs h
      rw [F.toInt_fin_natAbs, Int.natAbs_mul, Int.natAbs_natCast] at this
      exact this
    have hrr : rnNat ConvDD.b64.p z.natAbs ≤ maxMag ConvDD.b64 := rnNat_le_of_le hp1 (maxMag_isFloatN _) hr
    have e : ConvDD.narrowLD (.fin s n) = .fin s (rnNat ConvDD.b64.p z.natAbs) := by
      simp only [ConvDD.narrowLD]
      rw [← hK]
      unfold roundShr
      rw [hn, rnShr_mul_two_pow, pack_of_le ConvDD.b64 hpt _ hrr]
    rw [e]
    refine ⟨rfl, ?_⟩
    -- sign bookkeeping: s is the sign of z unless z = 0
    by_cases hz : z = 0
    · subst hz
      simp [F.toInt, rnNat_zero, rnInt_zero]
    · cases s
      · simp only [F.toInt, Bool.false_eq_true, if_false] at h ⊢
        have hzpos : 0 < z := by
          by_contra hc
          have : z * ((2 ^ K : Nat) : Int) < 0 := mul_neg_of_neg_of_pos (by omega) hKz
          omega
        rw [rnInt_of_nonneg (le_of_lt hzpos)]
      · simp only [F.toInt, if_true] at h ⊢
        have hzneg : z < 0 := by
          by_contra hc
          have : 0 < z * ((2 ^ K : Nat) : Int) := mul_pos (by omega) hKz
          have hn0 : (0 : Int) ≤ (n : Int) := Int.natCast_nonneg n
          omega
        rw [rnInt_of_neg hzneg]
  | inf s => simp [F.isFinite] at hf
  | nan => simp [F.isFinite] at hf

theorem widenLD_toInt {x : F} (hf : x.isFinite = true) :
    (ConvDD.widenLD x).isFinite = true ∧
    (ConvDD.widenLD x).toInt = x.toInt * ((2 ^ (ConvDD.x87.q - ConvDD.b64.q) : Nat) : Int) := by
  cases x with
  | fin s n =>
    refine ⟨rfl, ?_⟩
    simp only [ConvDD.widenLD, F.toInt, shl_eq_mul]
    cases s <;> simp
  | inf s => simp [F.isFinite] at hf
  | nan => simp [F.isFinite] at hf

end UVerif.ConvDDLemmas

namespace UVerif.ConvDDLemmas
open UVerif UVerif.F64

/-- `dd = long double` for a source on the 2^-1074 grid (z units), with at most 64 significant bits, inside the double range:
    hi = RN53(z), and the remainder z − hi (at most 11 significant bits) survives the x87 subtraction and the second narrowing
    exactly — the two limbs sum to the source. -/
theorem ddFromLD_exact {x : F} (hf : x.isFinite = true) {z : Int}
    (h : x.toInt = z * ((2 ^ (ConvDD.x87.q - ConvDD.b64.q) : Nat) : Int))
    (h64 : IsFloat 64 z) (hr : z.natAbs ≤ maxMag ConvDD.b64) :
    (ConvDD.ddFromLD x).hi.isFinite = true ∧ (ConvDD.ddFromLD x).lo.isFinite = true ∧
    (ConvDD.ddFromLD x).hi.toInt + (ConvDD.ddFromLD x).lo.toInt = z ∧
    (ConvDD.ddFromLD x).hi.toInt = rnInt ConvDD.b64.p z := by
  have hp1 : 1 ≤ ConvDD.b64.p := by decide
  have hp53 : ConvDD.b64.p = 53 := by decide
  have hx1 : 1 ≤ ConvDD.x87.p := by decide
  have hxpt : ConvDD.x87.p ≤ ConvDD.x87.top := by decide
  have hx64 : ConvDD.x87.p = 64 := by decide
  have htop : ConvDD.b64.top + (ConvDD.x87.q - ConvDD.b64.q) + 1 ≤ ConvDD.x87.top := by decide
  set K := ConvDD.x87.q - ConvDD.b64.q with hK
  set U : Int := ((2 ^ K : Nat) : Int) with hU
  -- the head
  obtain ⟨n1, v1⟩ := narrowLD_grid hf h hr
  set H := rnInt ConvDD.b64.p z with hH
  have hHabs : H.natAbs ≤ maxMag ConvDD.b64 := by
    rw [hH, rnInt_natAbs]; exact rnNat_le_of_le hp1 (maxMag_isFloatN _) hr
  have hHfl : IsFloat ConvDD.b64.p H := rnInt_isFloat _ _
  obtain ⟨w1, wv⟩ := widenLD_toInt n1
  rw [v1] at wv
  -- the remainder D = z − H
  have hDle : (z - H).natAbs ≤ z.natAbs := by
    have := rnInt_nearest (p := ConvDD.b64.p) (z := z) (f := 0) hp1 (isFloat_zero _)
    simpa using this
  have hclose := rnInt_close ConvDD.b64.p z
  have hdvdz : ((2 ^ (size z.natAbs - 64) : Nat) : Int) ∣ z := by
    have := isFloatN_canon (p := 64) (by decide) h64
    exact Int.natCast_dvd.2 this
  have hdvdH : ((2 ^ (size z.natAbs - 64) : Nat) : Int) ∣ H := rnInt_dvd hdvdz
  have hDfl : IsFloat ConvDD.b64.p (z - H) := by
    apply isFloat_of_dvd_of_le (e := size z.natAbs - 64) (Int.dvd_sub hdvdz hdvdH)
    have hpow : 2 ^ (size z.natAbs - ConvDD.b64.p) ≤ 2 ^ (ConvDD.b64.p + (size z.natAbs - 64)) :=
      Nat.pow_le_pow_right (by omega) (by rw [hp53]; omega)
    omega
  have hDfl64 : IsFloat ConvDD.x87.p ((z - H) * U) := by
    rw [hU]
    exact isFloat_mul_two_pow (isFloatN_mono hDfl (by decide)) K
  have hsubval : x.toInt - (ConvDD.widenLD (ConvDD.narrowLD x)).toInt = (z - H) * U := by
    rw [h, wv]; ring
  have hrange : (x.toInt - (ConvDD.widenLD (ConvDD.narrowLD x)).toInt).natAbs ≤ maxMag ConvDD.x87 := by
    rw [hsubval, Int.natAbs_mul, hU, Int.natAbs_natCast]
    have hz : z.natAbs < 2 ^ ConvDD.b64.top := lt_of_le_of_lt hr (maxMag_lt _ (by decide))
    calc (z - H).natAbs * 2 ^ K ≤ z.natAbs * 2 ^ K := Nat.mul_le_mul_right _ hDle
      _ ≤ 2 ^ ConvDD.b64.top * 2 ^ K := Nat.mul_le_mul_right _ (le_of_lt hz)
      _ = 2 ^ (ConvDD.b64.top + K) := (Nat.pow_add 2 _ _).symm
      _ ≤ maxMag ConvDD.x87 := two_pow_le_maxMag ConvDD.x87 hx1 hxpt htop
  obtain ⟨s1, sv⟩ := sub_exact ConvDD.x87 hx1 hxpt hf w1 hrange (by rw [hsubval]; exact hDfl64)
  rw [hsubval] at sv
  obtain ⟨l1, lv⟩ := narrowLD_grid s1.1 sv (le_trans hDle hr)
  rw [rnInt_exact hp1 hDfl] at lv
  obtain ⟨t1, tv⟩ := narrowLD_grid w1 wv hHabs
  rw [rnInt_exact hp1 hHfl] at tv
  have e : ConvDD.ddFromLD x = ⟨ConvDD.narrowLD (ConvDD.widenLD (ConvDD.narrowLD x)),
      ConvDD.narrowLD (F64.sub ConvDD.x87 x (ConvDD.widenLD (ConvDD.narrowLD x)))⟩ := rfl
  rw [e]
  refine ⟨t1, l1, ?_, tv⟩
  show (ConvDD.narrowLD (ConvDD.widenLD (ConvDD.narrowLD x))).toInt +
    (ConvDD.narrowLD (F64.sub ConvDD.x87 x (ConvDD.widenLD (ConvDD.narrowLD x)))).toInt = z
  rw [tv, lv]; ring

end UVerif.ConvDDLemmas
