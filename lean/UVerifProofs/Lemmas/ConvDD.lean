/-
  UVerifProofs.Lemmas.ConvDD — helper lemmas for the dd / qd conversion theorems (Props/C03ConvDD, C04ConvDD):
  `ofInt` (static_cast<double>(int64)) as a rounding on integer units, `truncInt`, the exact widening float → double.
-/
import UVerifProofs.Lemmas.F64Lift
import UVerifProofs.Lemmas.Signed
import UVerifProofs.Lemmas.F64Split
import UVerif.Model.ConvDD
import Mathlib.Tactic.Ring
import Mathlib.Tactic.Linarith

namespace UVerif.ConvDDLemmas
open UVerif UVerif.F64

theorem shl_eq_mul (n k : Nat) : n <<< k = n * 2 ^ k := Nat.shiftLeft_eq n k

/-- `2^k · m` is a float when `m < 2^p`. -/
theorem isFloatN_small_mul {p m : Nat} (hm : m < 2 ^ p) (k : Nat) : IsFloatN p (m * 2 ^ k) :=
  isFloatN_mul_two_pow (isFloatN_of_lt hm) k

/-- `static_cast<double>(z)` for an integer below `2^p` in magnitude is exact:  the units are `z · 2^q`. -/
theorem ofInt_exact (f : Fmt) (hp : 1 ≤ f.p) (hpt : f.p + f.q ≤ f.top) {z : Int} (hz : z.natAbs < 2 ^ f.p) :
    (ofInt f z).isFinite = true ∧ (ofInt f z).toInt = z * ((2 ^ f.q : Nat) : Int) ∧ IsFloat f.p (ofInt f z).toInt := by
  unfold ofInt
  by_cases h0 : z = 0
  · subst h0
    simp [pzero, F.isFinite, F.toInt, isFloat_zero]
  · simp only [h0, if_false]
    have hfl : IsFloatN f.p (z.natAbs * 2 ^ f.q) := isFloatN_small_mul hz f.q
    rw [shl_eq_mul, rnNat_exact hp hfl]
    have hsz : size (z.natAbs * 2 ^ f.q) ≤ f.top := by
      apply size_le.2
      calc z.natAbs * 2 ^ f.q < 2 ^ f.p * 2 ^ f.q := Nat.mul_lt_mul_of_pos_right hz (Nat.two_pow_pos _)
        _ = 2 ^ (f.p + f.q) := (Nat.pow_add 2 f.p f.q).symm
        _ ≤ 2 ^ f.top := Nat.pow_le_pow_right (by omega) hpt
    unfold pack
    simp only [hsz, if_true]
    refine ⟨rfl, ?_, ?_⟩
    · rcases Int.lt_or_le z 0 with hn | hn
      · simp only [F.toInt, hn, decide_true, if_true]
        push_cast
        rw [abs_of_neg hn]; ring
      · have hnn : ¬ z < 0 := by omega
        simp only [F.toInt, hnn, decide_false, Bool.false_eq_true, if_false]
        push_cast
        rw [abs_of_nonneg hn]
    · unfold IsFloat
      rcases Int.lt_or_le z 0 with hn | hn
      · simp only [F.toInt, hn, decide_true, if_true, Int.natAbs_neg, Int.natAbs_natCast]; exact hfl
      · have hnn : ¬ z < 0 := by omega
        simp only [F.toInt, hnn, decide_false, Bool.false_eq_true, if_false, Int.natAbs_natCast]; exact hfl

/-- exact widening float → double: same value (units rescaled), still representable. -/
theorem widen32_toInt (x : F) (hx : x.isFinite = true) :
    (ConvDD.widen32 x).isFinite = true ∧
    (ConvDD.widen32 x).toInt = x.toInt * ((2 ^ (binary64.q - binary32.q) : Nat) : Int) := by
  cases x with
  | fin s n =>
    refine ⟨rfl, ?_⟩
    simp only [ConvDD.widen32, F.toInt, shl_eq_mul]
    cases s <;> simp
  | inf s => simp [F.isFinite] at hx
  | nan => simp [F.isFinite] at hx

theorem isFloatN_mono {p p' n : Nat} (h : IsFloatN p n) (hp : p ≤ p') : IsFloatN p' n := by
  obtain ⟨e, hd, hb⟩ := h
  exact ⟨e, hd, le_trans hb (Nat.pow_le_pow_right (by omega) (by omega))⟩

/-- a power of two below the top binade is at most the largest finite magnitude -/
theorem two_pow_le_maxMag (f : Fmt) (hp : 1 ≤ f.p) (hpt : f.p ≤ f.top) {k : Nat} (hk : k + 1 ≤ f.top) : 2 ^ k ≤ maxMag f := by
  unfold maxMag
  have h1 : 2 ^ (f.p - 1) ≤ 2 ^ f.p - 1 := by
    have : 2 ^ f.p = 2 ^ (f.p - 1) * 2 := by rw [← Nat.pow_succ]; congr 1; omega
    have := Nat.two_pow_pos (f.p - 1)
    omega
  calc 2 ^ k ≤ 2 ^ (f.top - 1) := Nat.pow_le_pow_right (by omega) (by omega)
    _ = 2 ^ (f.p - 1) * 2 ^ (f.top - f.p) := by rw [← Nat.pow_add]; congr 1; omega
    _ ≤ (2 ^ f.p - 1) * 2 ^ (f.top - f.p) := Nat.mul_le_mul_right _ h1

/-- `static_cast<double>(z)` is `roundInt` on the units `z · 2^q` -/
theorem ofInt_eq_roundInt (f : Fmt) (z : Int) : ofInt f z = roundInt f (z * ((2 ^ f.q : Nat) : Int)) false := by
  have hpos : (0 : Int) < ((2 ^ f.q : Nat) : Int) := by exact_mod_cast Nat.two_pow_pos f.q
  unfold ofInt roundInt
  by_cases h0 : z = 0
  · subst h0; simp [pzero]
  · have hne : z * ((2 ^ f.q : Nat) : Int) ≠ 0 := mul_ne_zero h0 (ne_of_gt hpos)
    simp only [h0, hne, if_false]
    have hs : decide (z < 0) = decide (z * ((2 ^ f.q : Nat) : Int) < 0) := by
      by_cases hv : z < 0
      · have h' : z * ((2 ^ f.q : Nat) : Int) < 0 := mul_neg_of_neg_of_pos hv hpos
        rw [decide_eq_true hv, decide_eq_true h']
      · have h' : ¬ z * ((2 ^ f.q : Nat) : Int) < 0 := by
          have : 0 ≤ z * ((2 ^ f.q : Nat) : Int) := mul_nonneg (by omega) (le_of_lt hpos)
          omega
        rw [decide_eq_false hv, decide_eq_false h']
    rw [hs, shl_eq_mul, Int.natAbs_mul, Int.natAbs_natCast]

/-- the head of an integer conversion is the correctly rounded integer (in units) -/
theorem ofInt_spec (f : Fmt) (hp : 1 ≤ f.p) (hpt : f.p ≤ f.top) {z : Int} (h : z.natAbs * 2 ^ f.q ≤ maxMag f) :
    (ofInt f z).Rep f ∧ (ofInt f z).toInt = rnInt f.p (z * ((2 ^ f.q : Nat) : Int)) := by
  rw [ofInt_eq_roundInt]
  have hm : (z * ((2 ^ f.q : Nat) : Int)).natAbs ≤ maxMag f := by
    rw [Int.natAbs_mul, Int.natAbs_natCast]; exact h
  obtain ⟨h1, h2⟩ := roundInt_spec f hp hpt _ false hm
  exact ⟨⟨h1, by rw [h2]; exact rnInt_isFloat _ _⟩, h2⟩

/-- integers of at most `k` bits are in range when `k + q < top` -/
theorem int_in_range (f : Fmt) (hp : 1 ≤ f.p) (hpt : f.p ≤ f.top) (k : Nat) (hk : k + f.q + 1 ≤ f.top) {v : Int}
    (hv : v.natAbs ≤ 2 ^ k) : v.natAbs * 2 ^ f.q ≤ maxMag f :=
  calc v.natAbs * 2 ^ f.q ≤ 2 ^ k * 2 ^ f.q := Nat.mul_le_mul_right _ hv
    _ = 2 ^ (k + f.q) := (Nat.pow_add 2 k f.q).symm
    _ ≤ maxMag f := two_pow_le_maxMag f hp hpt hk

/-- a finite value with positive units is `fin false n` -/
theorem eq_fin_of_pos {x : F} (hf : x.isFinite = true) {n : Nat} (hn : 0 < n) (h : x.toInt = (n : Int)) : x = .fin false n := by
  cases x with
  | fin s m =>
    cases s
    · simp only [F.toInt, Bool.false_eq_true, if_false] at h
      have : m = n := by exact_mod_cast h
      rw [this]
    · simp only [F.toInt, if_true] at h
      omega
  | inf s => simp [F.isFinite] at hf
  | nan => simp [F.isFinite] at hf

end UVerif.ConvDDLemmas

namespace UVerif.ConvDDLemmas
open UVerif UVerif.F64

/-- `truncInt` of a finite value whose units are a multiple of 2^q -/
theorem truncInt_of_mul (f : Fmt) {x : F} (hf : x.isFinite = true) {r : Int} (h : x.toInt = r * ((2 ^ f.q : Nat) : Int)) :
    truncInt f x = some r := by
  have hU : 0 < 2 ^ f.q := Nat.two_pow_pos _
  have hUz : (0 : Int) < ((2 ^ f.q : Nat) : Int) := by exact_mod_cast hU
  cases x with
  | fin s n =>
    unfold truncInt
    simp only [Nat.shiftRight_eq_div_pow]
    cases s
    · simp only [F.toInt, Bool.false_eq_true, if_false] at h ⊢
      have hr : 0 ≤ r := by
        by_contra hc
        have : r * ((2 ^ f.q : Nat) : Int) < 0 := mul_neg_of_neg_of_pos (by omega) hUz
        omega
      obtain ⟨k, rfl⟩ := Int.eq_ofNat_of_zero_le hr
      have : n = k * 2 ^ f.q := by exact_mod_cast h
      rw [this, Nat.mul_div_cancel _ hU]
    · simp only [F.toInt, if_true] at h ⊢
      have hr : r ≤ 0 := by
        by_contra hc
        have : 0 < r * ((2 ^ f.q : Nat) : Int) := mul_pos (by omega) hUz
        omega
      obtain ⟨k, hk⟩ := Int.eq_ofNat_of_zero_le (show 0 ≤ -r by omega)
      have hn : (n : Int) = (k : Int) * ((2 ^ f.q : Nat) : Int) := by
        have : (n : Int) = (-r) * ((2 ^ f.q : Nat) : Int) := by rw [neg_mul]; omega
        rw [this, hk]
      have : n = k * 2 ^ f.q := by exact_mod_cast hn
      rw [this, Nat.mul_div_cancel _ hU]
      congr 1
      omega
  | inf s => simp [F.isFinite] at hf
  | nan => simp [F.isFinite] at hf

end UVerif.ConvDDLemmas

namespace UVerif.ConvDDLemmas
open UVerif UVerif.F64

theorem wrapI64_small {z : Int} (h1 : -(2 ^ 63 : Int) ≤ z) (h2 : z < (2 ^ 63 : Int)) : wrapI64 z = z := by
  unfold wrapI64
  simp only
  by_cases hz : 0 ≤ z
  · have : z % (2 ^ 64 : Int) = z := Int.emod_eq_of_lt hz (by omega)
    rw [this, if_pos h2]
  · have : z % (2 ^ 64 : Int) = z + 2 ^ 64 := by
      have h := Int.emod_eq_of_lt (a := z + 2 ^ 64) (b := 2 ^ 64) (by omega) (by omega)
      rw [Int.add_emod_right] at h
      exact h
    rw [this, if_neg (by omega)]
    ring

theorem wrapI64_sub_pow {z : Int} (h1 : (2 ^ 63 : Int) ≤ z) (h2 : z < (2 ^ 64 : Int)) : wrapI64 z = z - 2 ^ 64 := by
  unfold wrapI64
  simp only
  have : z % (2 ^ 64 : Int) = z := Int.emod_eq_of_lt (by omega) h2
  rw [this, if_neg (by omega)]

/-- `static_cast<double>(z)` of an integer whose units are a float in range: exact -/
theorem ofInt_float (f : Fmt) (hp : 1 ≤ f.p) (hpt : f.p ≤ f.top) {z : Int} (hr : z.natAbs * 2 ^ f.q ≤ maxMag f)
    (hfl : IsFloat f.p (z * ((2 ^ f.q : Nat) : Int))) :
    (ofInt f z).Rep f ∧ (ofInt f z).toInt = z * ((2 ^ f.q : Nat) : Int) := by
  obtain ⟨h1, h2⟩ := ofInt_spec f hp hpt hr
  rw [rnInt_exact hp hfl] at h2
  exact ⟨h1, h2⟩

/-- the inline quick_two_sum `s = a + b; r = b - (s - a)` (no finiteness test) of the integer conversions:
    exact when `|b| ≤ |a|` or `a = 0` -/
theorem inlineQuickTwoSum_spec (f : Fmt) (ok : f.Ok) {a b : F} (ha : a.Rep f) (hb : b.Rep f)
    (hab : b.mag ≤ a.mag ∨ a.toInt = 0) (hg : a.mag + b.mag ≤ maxMag f) :
    (add f a b).Rep f ∧ (sub f b (sub f (add f a b) a)).Rep f ∧
    (add f a b).toInt + (sub f b (sub f (add f a b) a)).toInt = a.toInt + b.toInt ∧
    (add f a b).toInt = rnInt f.p (a.toInt + b.toInt) := by
  have hp : 1 ≤ f.p := by have := ok.hp2; omega
  have hpt := ok.hpt
  rcases hab with hab | ha0
  · have h := quickTwoSum_spec f ok ha hb hab hg
    have hfin : (add f a b).isFinite = true := h.1.1
    have e : quickTwoSum f a b = (add f a b, sub f b (sub f (add f a b) a)) := by
      unfold quickTwoSum; simp [hfin]
    rw [e] at h
    exact h
  · rw [F.mag_eq_natAbs a, F.mag_eq_natAbs b] at hg
    have hbr : (a.toInt + b.toInt).natAbs ≤ maxMag f := by rw [ha0, zero_add]; omega
    obtain ⟨hs, hsv⟩ := add_exact f hp hpt ha.1 hb.1 hbr (by rw [ha0, zero_add]; exact hb.2)
    rw [ha0, zero_add] at hsv
    obtain ⟨hz, hzv⟩ := sub_exact f hp hpt hs.1 ha.1 (by rw [hsv, ha0, sub_zero]; omega) (by rw [hsv, ha0, sub_zero]; exact hb.2)
    rw [hsv, ha0, sub_zero] at hzv
    obtain ⟨ht, htv⟩ := sub_exact f hp hpt hb.1 hz.1 (by rw [hzv, sub_self]; simp) (by rw [hzv, sub_self]; exact isFloat_zero _)
    rw [hzv, sub_self] at htv
    refine ⟨hs, ht, ?_, ?_⟩
    · rw [hsv, htv, ha0]; ring
    · rw [hsv, ha0, zero_add, rnInt_exact hp hb.2]

/-- **dd / qd from a 64-bit integer** (`convert_signed`, `convert_unsigned`): the halves `v − low` (a multiple of 2^32 with at
    most 33 significant bits) and `low = v mod 2^32` are exact doubles, `|v − low| ≥ 2^32 > low` unless `v − low = 0`, so the
    inline quick_two_sum returns the correctly rounded head and the EXACT remainder: the two limbs sum to `v` for every
    `−2^63 ≤ v < 2^64`.  Any format with `p ≥ 33` and room for 2^65 units. -/
theorem ofInt64_exact (f : Fmt) (ok : f.Ok) (h33 : 33 ≤ f.p) (hk : 65 + f.q + 1 ≤ f.top)
    (v : Int) (h1 : -(2 ^ 63 : Int) ≤ v) (h2 : v < (2 ^ 64 : Int)) :
    (DD.ofInt64 f v).hi.Rep f ∧ (DD.ofInt64 f v).lo.Rep f ∧
    (DD.ofInt64 f v).hi.toInt + (DD.ofInt64 f v).lo.toInt = v * ((2 ^ f.q : Nat) : Int) ∧
    (DD.ofInt64 f v).hi.toInt = rnInt f.p (v * ((2 ^ f.q : Nat) : Int)) := by
  have hp : 1 ≤ f.p := by omega
  have hpt := ok.hpt
  unfold DD.ofInt64
  by_cases h0 : v = 0
  · subst h0; simp [pzero_rep, pzero_toInt, rnInt_zero]
  · rw [if_neg h0]
    simp only
    have hUn : 0 < 2 ^ f.q := Nat.two_pow_pos _
    generalize hlow : v % (2 ^ 32 : Int) = low
    have hl0 : 0 ≤ low := by rw [← hlow]; exact Int.emod_nonneg _ (by norm_num)
    have hl1 : low < 2 ^ 32 := by rw [← hlow]; exact Int.emod_lt_of_pos _ (by norm_num)
    obtain ⟨k, hkdef⟩ : ∃ k : Int, v - low = k * 2 ^ 32 := ⟨v / 2 ^ 32, by rw [← hlow]; omega⟩
    have hkabs : k.natAbs ≤ 2 ^ 32 := by omega
    have hHabs : (v - low).natAbs ≤ 2 ^ 65 := by omega
    have hlabs : low.natAbs ≤ 2 ^ 65 := by omega
    have hp33 : 2 ^ 33 ≤ 2 ^ f.p := Nat.pow_le_pow_right (by decide) h33
    -- the two halves are exact
    have hHfl : IsFloat f.p ((v - low) * ((2 ^ f.q : Nat) : Int)) := by
      have e : (v - low) * ((2 ^ f.q : Nat) : Int) = k * ((2 ^ (32 + f.q) : Nat) : Int) := by
        rw [hkdef]; push_cast; rw [pow_add]; ring
      rw [e]
      exact isFloat_mul_two_pow (isFloat_of_natAbs_lt (by omega)) _
    have hLfl : IsFloat f.p (low * ((2 ^ f.q : Nat) : Int)) :=
      isFloat_mul_two_pow (isFloat_of_natAbs_lt (by omega)) _
    obtain ⟨hHrep, hHv⟩ := ofInt_float f hp hpt (int_in_range f hp hpt 65 hk hHabs) hHfl
    obtain ⟨hLrep, hLv⟩ := ofInt_float f hp hpt (int_in_range f hp hpt 65 hk hlabs) hLfl
    -- ordering / range for the inline quick_two_sum
    have hmagH : (ofInt f (v - low)).mag = (v - low).natAbs * 2 ^ f.q := by
      rw [F.mag_eq_natAbs, hHv, Int.natAbs_mul, Int.natAbs_natCast]
    have hmagL : (ofInt f low).mag = low.natAbs * 2 ^ f.q := by
      rw [F.mag_eq_natAbs, hLv, Int.natAbs_mul, Int.natAbs_natCast]
    have hab : (ofInt f low).mag ≤ (ofInt f (v - low)).mag ∨ (ofInt f (v - low)).toInt = 0 := by
      by_cases hk0 : k = 0
      · right; rw [hHv, hkdef, hk0]; simp
      · left; rw [hmagH, hmagL]; exact Nat.mul_le_mul_right _ (by omega)
    have hg : (ofInt f (v - low)).mag + (ofInt f low).mag ≤ maxMag f := by
      rw [hmagH, hmagL, ← Nat.add_mul]
      calc ((v - low).natAbs + low.natAbs) * 2 ^ f.q ≤ 2 ^ 65 * 2 ^ f.q := Nat.mul_le_mul_right _ (by omega)
        _ = 2 ^ (65 + f.q) := (Nat.pow_add 2 65 f.q).symm
        _ ≤ maxMag f := two_pow_le_maxMag f hp hpt hk
    obtain ⟨r1, r2, r3, r4⟩ := inlineQuickTwoSum_spec f ok hHrep hLrep hab hg
    have esum : (ofInt f (v - low)).toInt + (ofInt f low).toInt = v * ((2 ^ f.q : Nat) : Int) := by
      rw [hHv, hLv]; ring
    rw [esum] at r3 r4
    exact ⟨r1, r2, r3, r4⟩

end UVerif.ConvDDLemmas

namespace UVerif.ConvDDLemmas
open UVerif UVerif.F64

/-- `double(long double)` of a value on the 2^-1074 grid (z units of 2^-1074, i.e. z·2^K x87 units): the correctly rounded
    integer, provided the rounded magnitude does not overflow -/
theorem narrowLD_grid {x : F} (hf : x.isFinite = true) {z : Int}
    (h : x.toInt = z * ((2 ^ (ConvDD.x87.q - ConvDD.b64.q) : Nat) : Int)) (hr : z.natAbs ≤ maxMag ConvDD.b64) :
    (ConvDD.narrowLD x).isFinite = true ∧ (ConvDD.narrowLD x).toInt = rnInt ConvDD.b64.p z := by
  have hp1 : 1 ≤ ConvDD.b64.p := by decide
  have hpt : ConvDD.b64.p ≤ ConvDD.b64.top := by decide
  set K := ConvDD.x87.q - ConvDD.b64.q with hK
  have hKpos : 0 < 2 ^ K := Nat.two_pow_pos K
  have hKz : (0 : Int) < ((2 ^ K : Nat) : Int) := by exact_mod_cast hKpos
  cases x with
  | fin s n =>
    have hn : n = z.natAbs * 2 ^ K := by
      have := congrArg Int.natAbs h
      rw [F.toInt_fin_natAbs, Int.natAbs_mul, Int.natAbs_natCast] at this
      exact this
    have hrr : rnNat ConvDD.b64.p z.natAbs ≤ maxMag ConvDD.b64 := rnNat_le_of_le hp1 (maxMag_isFloatN _) hr
    have e : ConvDD.narrowLD (.fin s n) = .fin s (rnNat ConvDD.b64.p z.natAbs) := by
      simp only [ConvDD.narrowLD]
      rw [← hK]
      unfold roundShr
      rw [hn, rnShr_mul_two_pow, pack_of_le ConvDD.b64 hpt _ hrr]
    rw [e]
    refine ⟨rfl, ?_⟩
    -- sign bookkeeping: s is the sign of z unless z = 0
    by_cases hz : z = 0
    · subst hz
      simp [F.toInt, rnNat_zero, rnInt_zero]
    · cases s
      · simp only [F.toInt, Bool.false_eq_true, if_false] at h ⊢
        have hzpos : 0 < z := by
          by_contra hc
          have : z * ((2 ^ K : Nat) : Int) < 0 := mul_neg_of_neg_of_pos (by omega) hKz
          omega
        rw [rnInt_of_nonneg (le_of_lt hzpos)]
      · simp only [F.toInt, if_true] at h ⊢
        have hzneg : z < 0 := by
          by_contra hc
          have : 0 < z * ((2 ^ K : Nat) : Int) := mul_pos (by omega) hKz
          have hn0 : (0 : Int) ≤ (n : Int) := Int.natCast_nonneg n
          omega
        rw [rnInt_of_neg hzneg]
  | inf s => simp [F.isFinite] at hf
  | nan => simp [F.isFinite] at hf

theorem widenLD_toInt {x : F} (hf : x.isFinite = true) :
    (ConvDD.widenLD x).isFinite = true ∧
    (ConvDD.widenLD x).toInt = x.toInt * ((2 ^ (ConvDD.x87.q - ConvDD.b64.q) : Nat) : Int) := by
  cases x with
  | fin s n =>
    refine ⟨rfl, ?_⟩
    simp only [ConvDD.widenLD, F.toInt, shl_eq_mul]
    cases s <;> simp
  | inf s => simp [F.isFinite] at hf
  | nan => simp [F.isFinite] at hf

end UVerif.ConvDDLemmas

namespace UVerif.ConvDDLemmas
open UVerif UVerif.F64

/-- `dd = long double` for a source on the 2^-1074 grid (z units), with at most 64 significant bits, inside the double range:
    hi = RN53(z), and the remainder z − hi (at most 11 significant bits) survives the x87 subtraction and the second narrowing
    exactly — the two limbs sum to the source. -/
theorem ddFromLD_exact {x : F} (hf : x.isFinite = true) {z : Int}
    (h : x.toInt = z * ((2 ^ (ConvDD.x87.q - ConvDD.b64.q) : Nat) : Int))
    (h64 : IsFloat 64 z) (hr : z.natAbs ≤ maxMag ConvDD.b64) :
    (ConvDD.ddFromLD x).hi.isFinite = true ∧ (ConvDD.ddFromLD x).lo.isFinite = true ∧
    (ConvDD.ddFromLD x).hi.toInt + (ConvDD.ddFromLD x).lo.toInt = z ∧
    (ConvDD.ddFromLD x).hi.toInt = rnInt ConvDD.b64.p z := by
  have hp1 : 1 ≤ ConvDD.b64.p := by decide
  have hp53 : ConvDD.b64.p = 53 := by decide
  have hx1 : 1 ≤ ConvDD.x87.p := by decide
  have hxpt : ConvDD.x87.p ≤ ConvDD.x87.top := by decide
  have hx64 : ConvDD.x87.p = 64 := by decide
  have htop : ConvDD.b64.top + (ConvDD.x87.q - ConvDD.b64.q) + 1 ≤ ConvDD.x87.top := by decide
  set K := ConvDD.x87.q - ConvDD.b64.q with hK
  set U : Int := ((2 ^ K : Nat) : Int) with hU
  -- the head
  obtain ⟨n1, v1⟩ := narrowLD_grid hf h hr
  set H := rnInt ConvDD.b64.p z with hH
  have hHabs : H.natAbs ≤ maxMag ConvDD.b64 := by
    rw [hH, rnInt_natAbs]; exact rnNat_le_of_le hp1 (maxMag_isFloatN _) hr
  have hHfl : IsFloat ConvDD.b64.p H := rnInt_isFloat _ _
  obtain ⟨w1, wv⟩ := widenLD_toInt n1
  rw [v1] at wv
  -- the remainder D = z − H
  have hDle : (z - H).natAbs ≤ z.natAbs := by
    have := rnInt_nearest (p := ConvDD.b64.p) (z := z) (f := 0) hp1 (isFloat_zero _)
    simpa using this
  have hclose := rnInt_close ConvDD.b64.p z
  have hdvdz : ((2 ^ (size z.natAbs - 64) : Nat) : Int) ∣ z := by
    have := isFloatN_canon (p := 64) (by decide) h64
    exact Int.natCast_dvd.2 this
  have hdvdH : ((2 ^ (size z.natAbs - 64) : Nat) : Int) ∣ H := rnInt_dvd hdvdz
  have hDfl : IsFloat ConvDD.b64.p (z - H) := by
    apply isFloat_of_dvd_of_le (e := size z.natAbs - 64) (Int.dvd_sub hdvdz hdvdH)
    have hpow : 2 ^ (size z.natAbs - ConvDD.b64.p) ≤ 2 ^ (ConvDD.b64.p + (size z.natAbs - 64)) :=
      Nat.pow_le_pow_right (by omega) (by rw [hp53]; omega)
    omega
  have hDfl64 : IsFloat ConvDD.x87.p ((z - H) * U) := by
    rw [hU]
    exact isFloat_mul_two_pow (isFloatN_mono hDfl (by decide)) K
  have hsubval : x.toInt - (ConvDD.widenLD (ConvDD.narrowLD x)).toInt = (z - H) * U := by
    rw [h, wv]; ring
  have hrange : (x.toInt - (ConvDD.widenLD (ConvDD.narrowLD x)).toInt).natAbs ≤ maxMag ConvDD.x87 := by
    rw [hsubval, Int.natAbs_mul, hU, Int.natAbs_natCast]
    have hz : z.natAbs < 2 ^ ConvDD.b64.top := lt_of_le_of_lt hr (maxMag_lt _ (by decide))
    calc (z - H).natAbs * 2 ^ K ≤ z.natAbs * 2 ^ K := Nat.mul_le_mul_right _ hDle
      _ ≤ 2 ^ ConvDD.b64.top * 2 ^ K := Nat.mul_le_mul_right _ (le_of_lt hz)
      _ = 2 ^ (ConvDD.b64.top + K) := (Nat.pow_add 2 _ _).symm
      _ ≤ maxMag ConvDD.x87 := two_pow_le_maxMag ConvDD.x87 hx1 hxpt htop
  obtain ⟨s1, sv⟩ := sub_exact ConvDD.x87 hx1 hxpt hf w1 hrange (by rw [hsubval]; exact hDfl64)
  rw [hsubval] at sv
  obtain ⟨l1, lv⟩ := narrowLD_grid s1.1 sv (le_trans hDle hr)
  rw [rnInt_exact hp1 hDfl] at lv
  obtain ⟨t1, tv⟩ := narrowLD_grid w1 wv hHabs
  rw [rnInt_exact hp1 hHfl] at tv
  have e : ConvDD.ddFromLD x = ⟨ConvDD.narrowLD (ConvDD.widenLD (ConvDD.narrowLD x)),
      ConvDD.narrowLD (F64.sub ConvDD.x87 x (ConvDD.widenLD (ConvDD.narrowLD x)))⟩ := by
    unfold ConvDD.ddFromLD
    simp only [t1, if_true]
  rw [e]
  refine ⟨t1, l1, ?_, tv⟩
  show (ConvDD.narrowLD (ConvDD.widenLD (ConvDD.narrowLD x))).toInt +
    (ConvDD.narrowLD (F64.sub ConvDD.x87 x (ConvDD.widenLD (ConvDD.narrowLD x)))).toInt = z
  rw [tv, lv]; ring

end UVerif.ConvDDLemmas

/-! ### truncation toward zero of a normalised dd (`convert_to_signed` / `convert_to_unsigned`) -/

namespace UVerif.ConvDDLemmas
open UVerif UVerif.F64


def sg (s : Bool) (k : Nat) : Int := if s then -(k : Int) else (k : Int)

/-- quotient of a non-negative integer from a remainder witness -/
theorem ediv_of_rem {V U k r : Int} (hU : 0 < U) (e : V = k * U + r) (h0 : 0 ≤ r) (h1 : r < U) : V / U = k :=
  ((Int.ediv_emod_unique hU).2 ⟨by rw [e]; ring, h0, h1⟩).1

theorem tdiv_of_rem_nonneg {V U k r : Int} (hU : 0 < U) (hV : 0 ≤ V) (e : V = k * U + r) (h0 : 0 ≤ r) (h1 : r < U) :
    Int.tdiv V U = k := by
  rw [Int.tdiv_eq_ediv_of_nonneg hV]; exact ediv_of_rem hU e h0 h1

theorem tdiv_of_rem_nonpos {V U k r : Int} (hU : 0 < U) (hV : V ≤ 0) (e : -V = k * U + r) (h0 : 0 ≤ r) (h1 : r < U) :
    Int.tdiv V U = -k := by
  have : V = -(-V) := by ring
  rw [this, Int.neg_tdiv, tdiv_of_rem_nonneg hU (by omega) e h0 h1]


/-- the correction term of `convert_to_signed` on sign/magnitude pairs: head `(s, n)`, tail `(t, m)`, unit `U` -/
def adj (U : Nat) (s : Bool) (n : Nat) (t : Bool) (m : Nat) : Int :=
  if n % U = 0 then
    (if (!s && decide (0 < n)) && (t && decide (0 < m % U)) then -1 else 0)
      + (if (s && decide (0 < n)) && (!t && decide (0 < m % U)) then 1 else 0)
  else 0

theorem trunc_adjust (U n m : Nat) (hU : 0 < U) (s t : Bool)
    (hz : n = 0 → m = 0) (hint : n % U = 0 → n ≠ 0 → m < n)
    (hfrac : n % U ≠ 0 → m < n % U ∧ n % U + m < U) :
    sg s (n / U) + sg t (m / U) + adj U s n t m = Int.tdiv (sg s n + sg t m) (U : Int) := by
  have hUz : (0 : Int) < (U : Int) := by exact_mod_cast hU
  have hn := Nat.div_add_mod n U
  have hm := Nat.div_add_mod m U
  have hr := Nat.mod_lt n hU
  have hc := Nat.mod_lt m hU
  unfold adj
  generalize n / U = a at *
  generalize n % U = r at *
  generalize m / U = b at *
  generalize m % U = c at *
  have hnz : (n : Int) = (a : Int) * U + r := by rw [← hn]; push_cast; ring
  have hmz : (m : Int) = (b : Int) * U + c := by rw [← hm]; push_cast; ring
  symm
  by_cases hr0 : r = 0
  · -- integer head
    subst hr0
    simp only [if_true]
    by_cases hn0 : n = 0
    · have hm0 := hz hn0
      have ha : a = 0 := by
        rcases Nat.eq_zero_or_pos a with h | h
        · exact h
        · exfalso; have : 0 < U * a := Nat.mul_pos hU h; omega
      have hb : b = 0 := by
        rcases Nat.eq_zero_or_pos b with h | h
        · exact h
        · exfalso; have : 0 < U * b := Nat.mul_pos hU h; omega
      subst hn0; subst hm0; subst ha; subst hb
      cases s <;> cases t <;> simp [sg]
    · have hlt := hint rfl hn0
      have hnpos : 0 < n := Nat.pos_of_ne_zero hn0
      have hltz : (m : Int) < (n : Int) := by exact_mod_cast hlt
      have hcz : (c : Int) < (U : Int) := by exact_mod_cast hc
      cases s <;> cases t
      · -- + +
        simp only [sg, hnpos, Bool.not_false, Bool.false_eq_true, if_false, decide_true, Bool.true_and, Bool.false_and, Bool.and_false, add_zero]
        exact (tdiv_of_rem_nonneg (k := (a : Int) + b) (r := (c : Int)) hUz (by omega) (by rw [hnz, hmz]; push_cast; ring) (by omega) hcz).trans (by ring)
      · -- + −
        by_cases hc0 : c = 0
        · subst hc0
          simp only [sg, hnpos, Bool.not_false, Bool.not_true, if_true, Bool.false_eq_true, if_false, decide_true, Bool.true_and, Bool.false_and, Bool.and_false, lt_self_iff_false, decide_false, add_zero]
          exact (tdiv_of_rem_nonneg (k := (a : Int) - b) (r := 0) hUz (by omega) (by rw [hnz, hmz]; push_cast; ring) (by omega) hUz).trans (by ring)
        · have hcpos : 0 < c := Nat.pos_of_ne_zero hc0
          simp only [sg, hnpos, hcpos, Bool.not_false, Bool.not_true, if_true, Bool.false_eq_true, if_false, decide_true, Bool.true_and, Bool.false_and, Bool.and_false, Bool.and_self, add_zero]
          exact (tdiv_of_rem_nonneg (k := (a : Int) - b - 1) (r := (U : Int) - c) hUz (by omega) (by rw [hnz, hmz]; push_cast; ring) (by omega) (by omega)).trans (by ring)
      · -- − +
        by_cases hc0 : c = 0
        · subst hc0
          simp only [sg, hnpos, Bool.not_false, Bool.not_true, if_true, Bool.false_eq_true, if_false, decide_true, Bool.true_and, Bool.false_and, Bool.and_false, lt_self_iff_false, decide_false, add_zero, zero_add]
          exact (tdiv_of_rem_nonpos (k := (a : Int) - b) (r := 0) hUz (by omega) (by rw [hnz, hmz]; push_cast; ring) (by omega) hUz).trans (by ring)
        · have hcpos : 0 < c := Nat.pos_of_ne_zero hc0
          simp only [sg, hnpos, hcpos, Bool.not_false, Bool.not_true, if_true, Bool.false_eq_true, if_false, decide_true, Bool.true_and, Bool.false_and, Bool.and_false, Bool.and_self, add_zero, zero_add]
          exact (tdiv_of_rem_nonpos (k := (a : Int) - b - 1) (r := (U : Int) - c) hUz (by omega) (by rw [hnz, hmz]; push_cast; ring) (by omega) (by omega)).trans (by ring)
      · -- − −
        simp only [sg, hnpos, Bool.not_true, if_true, Bool.false_eq_true, if_false, decide_true, Bool.true_and, Bool.false_and, Bool.and_false, add_zero]
        exact (tdiv_of_rem_nonpos (k := (a : Int) + b) (r := (c : Int)) hUz (by omega) (by rw [hnz, hmz]; push_cast; ring) (by omega) hcz).trans (by ring)
  · -- fractional head: the tail cannot reach the next integer
    obtain ⟨h1, h2⟩ := hfrac hr0
    have hrpos : 0 < r := Nat.pos_of_ne_zero hr0
    have hb : b = 0 := by
      rcases Nat.eq_zero_or_pos b with h | h
      · exact h
      · exfalso
        have : U ≤ U * b := Nat.le_mul_of_pos_right U h
        omega
    subst hb
    have hmc : m = c := by omega
    subst hmc
    simp only [hr0, if_false, add_zero]
    have h1z : (m : Int) < (r : Int) := by exact_mod_cast h1
    have h2z : (r : Int) + m < (U : Int) := by exact_mod_cast h2
    cases s <;> cases t
    · simp only [sg, Bool.false_eq_true, if_false]
      exact (tdiv_of_rem_nonneg (k := (a : Int)) (r := (r : Int) + m) hUz (by omega) (by rw [hnz]; ring) (by omega) h2z).trans (by simp)
    · simp only [sg, Bool.false_eq_true, if_false, if_true]
      exact (tdiv_of_rem_nonneg (k := (a : Int)) (r := (r : Int) - m) hUz (by rw [hnz]; nlinarith [mul_nonneg (Int.natCast_nonneg a) (le_of_lt hUz)]) (by rw [hnz]; ring) (by omega) (by omega)).trans (by simp)
    · simp only [sg, Bool.false_eq_true, if_false, if_true]
      exact (tdiv_of_rem_nonpos (k := (a : Int)) (r := (r : Int) - m) hUz (by rw [hnz]; nlinarith [mul_nonneg (Int.natCast_nonneg a) (le_of_lt hUz)]) (by rw [hnz]; ring) (by omega) (by omega)).trans (by simp)
    · simp only [sg, if_true]
      exact (tdiv_of_rem_nonpos (k := (a : Int)) (r := (r : Int) + m) hUz (by omega) (by rw [hnz]; ring) (by omega) h2z).trans (by simp)



theorem sg_eq_toInt (s : Bool) (n : Nat) : sg s n = (F.fin s n).toInt := rfl

theorem flt_fin_pzero (s : Bool) (n : Nat) : flt (.fin s n) pzero = (s && decide (0 < n)) := by
  cases s <;> simp [flt, pzero, F.toInt]

theorem fgt_fin_pzero (s : Bool) (n : Nat) : fgt (.fin s n) pzero = (!s && decide (0 < n)) := by
  cases s <;> simp [fgt, flt, pzero, F.toInt]

/-- the model's correction term is `adj` -/
theorem tailAdjust_eq_adj (f : Fmt) (s t : Bool) (n m : Nat) :
    DD.tailAdjust f (.fin s n) (.fin t m) = adj (2 ^ f.q) s n t m := by
  unfold DD.tailAdjust adj
  simp only [isIntegral, fracPart, flt_fin_pzero, fgt_fin_pzero, beq_iff_eq]

/-- what normalisation `2|lo| ≤ ulp(hi)` gives for the truncation: a fractional head keeps the tail inside its integer
    interval; an integer head dominates the tail -/
theorem norm_trunc_facts {p n m : Nat} (q : Nat) (hp : 1 ≤ p) (hfl : IsFloatN p n) (norm : 2 * m ≤ ulpNat p n) :
    (n = 0 → m = 0) ∧ (n ≠ 0 → 2 * m ≤ n) ∧ (n % 2 ^ q ≠ 0 → m < n % 2 ^ q ∧ n % 2 ^ q + m < 2 ^ q) := by
  unfold ulpNat at norm
  refine ⟨?_, ?_, ?_⟩
  · intro h0; subst h0
    have : size 0 = 0 := by simp [size]
    rw [this] at norm
    simp at norm; omega
  · intro hn0
    have h1 : 2 ^ (size n - p) ≤ 2 ^ (size n - 1) := Nat.pow_le_pow_right (by decide) (by omega)
    have h2 := two_pow_size_le hn0
    omega
  · intro hr
    set e := size n - p with he
    have hd : 2 ^ e ∣ n := isFloatN_canon hp hfl
    have heq : e < q := by
      by_contra hc
      have : 2 ^ q ∣ 2 ^ e := Nat.pow_dvd_pow 2 (by omega)
      exact hr (Nat.mod_eq_zero_of_dvd (Nat.dvd_trans this hd))
    have hU : 2 ^ e ∣ 2 ^ q := Nat.pow_dvd_pow 2 (by omega)
    have hdr : 2 ^ e ∣ n % 2 ^ q := (Nat.dvd_mod_iff hU).2 hd
    have hrpos : 0 < n % 2 ^ q := Nat.pos_of_ne_zero hr
    have hrlt : n % 2 ^ q < 2 ^ q := Nat.mod_lt _ (Nat.two_pow_pos q)
    have h1 : 2 ^ e ≤ n % 2 ^ q := Nat.le_of_dvd hrpos hdr
    have h2 : 2 ^ e ≤ 2 ^ q - n % 2 ^ q := Nat.le_of_dvd (by omega) (Nat.dvd_sub hU hdr)
    have hepos : 0 < 2 ^ e := Nat.two_pow_pos e
    omega

theorem toI64_fin (f : Fmt) (s : Bool) (n : Nat) :
    toI64 f (.fin s n) = (if -(2 ^ 63 : Int) ≤ sg s (n / 2 ^ f.q) ∧ sg s (n / 2 ^ f.q) < (2 ^ 63 : Int) then sg s (n / 2 ^ f.q) else -(2 ^ 63 : Int)) := by
  unfold toI64 truncInt sg
  simp only [Nat.shiftRight_eq_div_pow]

theorem sg_bound (s : Bool) {k B : Nat} (h : k ≤ B) : -(B : Int) ≤ sg s k ∧ sg s k ≤ (B : Int) := by
  unfold sg; cases s <;> simp <;> omega

/-- **`(long long)dd` is the value truncated toward zero** — for every finite dd whose tail is at most half an ulp of the head
    (normalised), with `|hi| ≤ 2^63` and `|hi + lo| < 2^63`; every float format. -/
theorem toInt64_trunc (f : Fmt) (hp : 1 ≤ f.p) (s t : Bool) (n m : Nat) (hfl : IsFloatN f.p n)
    (norm : 2 * m ≤ ulpNat f.p n) (hn : n ≤ 2 ^ 63 * 2 ^ f.q)
    (hr : ((F.fin s n).toInt + (F.fin t m).toInt).natAbs < 2 ^ 63 * 2 ^ f.q) :
    DD.toInt64 f ⟨.fin s n, .fin t m⟩ = Int.tdiv ((F.fin s n).toInt + (F.fin t m).toInt) ((2 ^ f.q : Nat) : Int) := by
  have hU : 0 < 2 ^ f.q := Nat.two_pow_pos _
  obtain ⟨hz, hdom, hfrac⟩ := norm_trunc_facts f.q hp hfl norm
  have key := trunc_adjust (2 ^ f.q) n m hU s t hz (fun _ h0 => by have := hdom h0; omega) hfrac
  rw [sg_eq_toInt s n, sg_eq_toInt t m] at key
  -- magnitudes of the three terms
  have hTh := sg_bound s (Nat.div_le_of_le_mul (by rw [Nat.mul_comm]; exact hn) : n / 2 ^ f.q ≤ 2 ^ 63)
  have hm2 : m ≤ 2 ^ 62 * 2 ^ f.q := by
    by_cases h0 : n = 0
    · rw [hz h0]; exact Nat.zero_le _
    · have := hdom h0
      have e : 2 ^ 63 * 2 ^ f.q = 2 * (2 ^ 62 * 2 ^ f.q) := by
        have : (2 : Nat) ^ 63 = 2 * 2 ^ 62 := by norm_num
        rw [this, Nat.mul_assoc]
      omega
  have hTl := sg_bound t (Nat.div_le_of_le_mul (by rw [Nat.mul_comm]; exact hm2) : m / 2 ^ f.q ≤ 2 ^ 62)
  have hR : (Int.tdiv ((F.fin s n).toInt + (F.fin t m).toInt) ((2 ^ f.q : Nat) : Int)).natAbs < 2 ^ 63 := by
    rw [Int.natAbs_tdiv, Int.natAbs_natCast]
    exact Nat.div_lt_of_lt_mul (by rw [Nat.mul_comm]; exact hr)
  have hadj : -1 ≤ adj (2 ^ f.q) s n t m ∧ adj (2 ^ f.q) s n t m ≤ 1 := by
    unfold adj
    split_ifs <;> simp
  unfold DD.toInt64
  simp only
  rw [tailAdjust_eq_adj, toI64_fin, toI64_fin, ← key]
  generalize sg s (n / 2 ^ f.q) = Th at *
  generalize sg t (m / 2 ^ f.q) = Tl at *
  generalize adj (2 ^ f.q) s n t m = A at *
  rw [← key] at hR
  have hTl' : -(2 ^ 63 : Int) ≤ Tl ∧ Tl < (2 ^ 63 : Int) := by
    obtain ⟨a, b⟩ := hTl; push_cast at a b; constructor <;> omega
  rw [if_pos hTl']
  push_cast at hTh
  unfold wrapI64
  simp only
  split_ifs <;> omega


theorem ofNatExact_toInt (f : Fmt) (c : Nat) : (ofNatExact f c).toInt = ((c * 2 ^ f.q : Nat) : Int) := by
  simp [ofNatExact, F.toInt, Nat.shiftLeft_eq]

/-- the head of an unsigned read as a 64-bit pattern is congruent to the truncated head modulo 2^64
    (`hi < 2^63 ? uint64_t(int64_t(hi)) : uint64_t(hi)`), for `−2^63 ≤ trunc(hi) ≤ 2^64` -/
theorem uhead_congr (f : Fmt) (s : Bool) (n : Nat) (hlo : s = true → n / 2 ^ f.q ≤ 2 ^ 63) (hhi : n / 2 ^ f.q ≤ 2 ^ 64) :
    (((if flt (.fin s n) (ofNatExact f (2 ^ 63)) then ofSigned 64 (toI64 f (.fin s n)) else toU64 f (.fin s n) : Nat) : Int)
      - sg s (n / 2 ^ f.q)) % (2 ^ 64 : Int) = 0 := by
  have hU : 0 < 2 ^ f.q := Nat.two_pow_pos _
  have hflt : flt (.fin s n) (ofNatExact f (2 ^ 63)) = decide (sg s n < ((2 ^ 63 * 2 ^ f.q : Nat) : Int)) := by
    unfold flt
    rw [ofNatExact_toInt]
    simp [ofNatExact, sg_eq_toInt]
  rw [hflt]
  have hdm := Nat.div_add_mod n (2 ^ f.q)
  have hml := Nat.mod_lt n hU
  by_cases hc : sg s n < ((2 ^ 63 * 2 ^ f.q : Nat) : Int)
  · -- below 2^63: through int64_t
    rw [decide_eq_true hc, if_pos rfl, toI64_fin]
    have hlt : sg s (n / 2 ^ f.q) < (2 ^ 63 : Int) := by
      cases s
      · simp only [sg, Bool.false_eq_true, if_false] at hc ⊢
        have h1 : n < 2 ^ 63 * 2 ^ f.q := by exact_mod_cast hc
        have : n / 2 ^ f.q < 2 ^ 63 := Nat.div_lt_of_lt_mul (by rw [Nat.mul_comm]; exact h1)
        exact_mod_cast this
      · simp only [sg, if_true]
        have : (0 : Int) ≤ ((n / 2 ^ f.q : Nat) : Int) := Int.natCast_nonneg _
        omega
    have hge : -(2 ^ 63 : Int) ≤ sg s (n / 2 ^ f.q) := by
      cases s
      · simp only [sg, Bool.false_eq_true, if_false]
        have : (0 : Int) ≤ ((n / 2 ^ f.q : Nat) : Int) := Int.natCast_nonneg _
        omega
      · simp only [sg, if_true]
        have := hlo rfl
        have : ((n / 2 ^ f.q : Nat) : Int) ≤ (2 ^ 63 : Int) := by exact_mod_cast this
        omega
    rw [if_pos ⟨hge, hlt⟩]
    generalize sg s (n / 2 ^ f.q) = T at *
    unfold ofSigned
    have e : (((2 : Nat) ^ 64 : Nat) : Int) = 18446744073709551616 := by norm_num
    rw [e]
    omega
  · -- from 2^63 on: through uint64_t
    rw [decide_eq_false hc, if_neg (by simp)]
    have hs : s = false := by
      cases s
      · rfl
      · exfalso; apply hc
        simp only [sg, if_true]
        have h1 : (0 : Int) ≤ (n : Int) := Int.natCast_nonneg n
        have h2 : (0 : Int) ≤ ((2 ^ 63 * 2 ^ f.q : Nat) : Int) := Int.natCast_nonneg _
        have h3 : 0 < 2 ^ 63 * 2 ^ f.q := Nat.mul_pos (by norm_num) hU
        have h4 : (0 : Int) < ((2 ^ 63 * 2 ^ f.q : Nat) : Int) := by exact_mod_cast h3
        omega
    subst hs
    simp only [sg, Bool.false_eq_true, if_false] at hc ⊢
    have h1 : 2 ^ 63 * 2 ^ f.q ≤ n := by
      have : ¬ n < 2 ^ 63 * 2 ^ f.q := by intro h; exact hc (by exact_mod_cast h)
      omega
    have hz : 2 ^ 63 ≤ n / 2 ^ f.q := (Nat.le_div_iff_mul_le hU).2 h1
    unfold toU64 truncInt
    simp only [Bool.false_eq_true, if_false, Nat.shiftRight_eq_div_pow]
    generalize n / 2 ^ f.q = z at *
    have hz' : ¬ ((z : Int) < (2 ^ 63 : Int)) := by
      have : (2 ^ 63 : Int) ≤ (z : Int) := by exact_mod_cast hz
      omega
    rw [if_neg hz']
    have hzi : (z : Int) ≤ (2 ^ 64 : Int) := by exact_mod_cast hhi
    have hzl : (2 ^ 63 : Int) ≤ (z : Int) := by exact_mod_cast hz
    unfold ofSigned
    have e : (((2 : Nat) ^ 64 : Nat) : Int) = 18446744073709551616 := by norm_num
    rw [e]
    split_ifs <;> omega

/-- **`(unsigned long long)dd` is the value truncated toward zero** — for every finite normalised dd with
    `−1 < hi + lo < 2^64` and `|hi| ≤ 2^64` (values in [2^63, 2^64) included since the repair); every float format. -/
theorem toUInt64_trunc (f : Fmt) (hp : 1 ≤ f.p) (s t : Bool) (n m : Nat) (hfl : IsFloatN f.p n)
    (norm : 2 * m ≤ ulpNat f.p n) (hn : n ≤ 2 ^ 64 * 2 ^ f.q)
    (hlo : -((2 ^ f.q : Nat) : Int) < (F.fin s n).toInt + (F.fin t m).toInt)
    (hhi : (F.fin s n).toInt + (F.fin t m).toInt < ((2 ^ 64 * 2 ^ f.q : Nat) : Int)) :
    ((DD.toUInt64 f ⟨.fin s n, .fin t m⟩ : Nat) : Int)
      = Int.tdiv ((F.fin s n).toInt + (F.fin t m).toInt) ((2 ^ f.q : Nat) : Int) := by
  have hU : 0 < 2 ^ f.q := Nat.two_pow_pos _
  have hUz : (0 : Int) < ((2 ^ f.q : Nat) : Int) := by exact_mod_cast hU
  obtain ⟨hz, hdom, hfrac⟩ := norm_trunc_facts f.q hp hfl norm
  have key := trunc_adjust (2 ^ f.q) n m hU s t hz (fun _ h0 => by have := hdom h0; omega) hfrac
  rw [sg_eq_toInt s n, sg_eq_toInt t m] at key
  -- a negative head is tiny: |hi| < 2 units
  have hneg : s = true → n / 2 ^ f.q ≤ 2 ^ 63 := by
    intro hs; subst hs
    have hv : (F.fin t m).toInt ≤ (m : Int) := by
      have : (0 : Int) ≤ (m : Int) := Int.natCast_nonneg m
      cases t
      · simp [F.toInt]
      · simp only [F.toInt, if_true]; omega
    have hh : (F.fin true n).toInt = -(n : Int) := by simp [F.toInt]
    rw [hh] at hlo
    have h2m : 2 * (m : Int) ≤ (n : Int) := by
      by_cases h0 : n = 0
      · rw [hz h0, h0]; simp
      · have := hdom h0; exact_mod_cast this
    have hlt : (n : Int) < ((2 * 2 ^ f.q : Nat) : Int) := by
      have e : ((2 * 2 ^ f.q : Nat) : Int) = 2 * ((2 ^ f.q : Nat) : Int) := by push_cast; ring
      rw [e]
      generalize ((2 ^ f.q : Nat) : Int) = Uz at *
      omega
    have : n < 2 * 2 ^ f.q := by exact_mod_cast hlt
    have : n / 2 ^ f.q < 2 := Nat.div_lt_of_lt_mul (by rw [Nat.mul_comm]; exact this)
    omega
  have hTh64 : n / 2 ^ f.q ≤ 2 ^ 64 := Nat.div_le_of_le_mul (by rw [Nat.mul_comm]; exact hn)
  have hm2 : m ≤ 2 ^ 63 * 2 ^ f.q := by
    by_cases h0 : n = 0
    · rw [hz h0]; exact Nat.zero_le _
    · have := hdom h0
      have e : 2 ^ 64 * 2 ^ f.q = 2 * (2 ^ 63 * 2 ^ f.q) := by
        have : (2 : Nat) ^ 64 = 2 * 2 ^ 63 := by norm_num
        rw [this, Nat.mul_assoc]
      omega
  have hTl := sg_bound t (Nat.div_le_of_le_mul (by rw [Nat.mul_comm]; exact hm2) : m / 2 ^ f.q ≤ 2 ^ 63)
  -- 0 ≤ R < 2^64
  have hR0 : 0 ≤ Int.tdiv ((F.fin s n).toInt + (F.fin t m).toInt) ((2 ^ f.q : Nat) : Int) := by
    by_cases hv : 0 ≤ (F.fin s n).toInt + (F.fin t m).toInt
    · exact Int.tdiv_nonneg hv (le_of_lt hUz)
    · have h0 := tdiv_of_rem_nonpos (V := (F.fin s n).toInt + (F.fin t m).toInt) (U := ((2 ^ f.q : Nat) : Int)) (k := 0)
        (r := -((F.fin s n).toInt + (F.fin t m).toInt)) hUz (by omega) (by ring) (by omega) (by omega)
      rw [h0]; simp
  have hR1 : Int.tdiv ((F.fin s n).toInt + (F.fin t m).toInt) ((2 ^ f.q : Nat) : Int) < (2 ^ 64 : Int) := by
    have hna : (Int.tdiv ((F.fin s n).toInt + (F.fin t m).toInt) ((2 ^ f.q : Nat) : Int)).natAbs < 2 ^ 64 := by
      rw [Int.natAbs_tdiv, Int.natAbs_natCast]
      apply Nat.div_lt_of_lt_mul
      rw [Nat.mul_comm]
      have hle : ((2 ^ f.q : Nat) : Int) ≤ ((2 ^ 64 * 2 ^ f.q : Nat) : Int) := by
        have : 2 ^ f.q ≤ 2 ^ 64 * 2 ^ f.q := Nat.le_mul_of_pos_left _ (by norm_num)
        exact_mod_cast this
      have : (((F.fin s n).toInt + (F.fin t m).toInt).natAbs : Int) < ((2 ^ 64 * 2 ^ f.q : Nat) : Int) := by
        generalize ((2 ^ 64 * 2 ^ f.q : Nat) : Int) = B at *
        generalize ((2 ^ f.q : Nat) : Int) = Uz at *
        omega
      exact_mod_cast this
    omega
  have hcong := uhead_congr f s n hneg hTh64
  unfold DD.toUInt64
  simp only
  rw [tailAdjust_eq_adj, toI64_fin (s := t)]
  have hTl' : -(2 ^ 63 : Int) ≤ sg t (m / 2 ^ f.q) ∧ sg t (m / 2 ^ f.q) < (2 ^ 63 : Int) ∨ sg t (m / 2 ^ f.q) = 2 ^ 63 := by
    obtain ⟨a, b⟩ := hTl; push_cast at a b
    by_cases h : sg t (m / 2 ^ f.q) = 2 ^ 63
    · right; exact h
    · left; constructor <;> omega
  rw [← key] at hR0 hR1 ⊢
  generalize ((if flt (F.fin s n) (ofNatExact f (2 ^ 63)) = true then ofSigned 64 (toI64 f (F.fin s n)) else toU64 f (F.fin s n) : Nat) : Int) = H at *
  generalize sg s (n / 2 ^ f.q) = Th at *
  generalize sg t (m / 2 ^ f.q) = Tl at *
  generalize adj (2 ^ f.q) s n t m = A at *
  unfold ofSigned
  have e : (((2 : Nat) ^ 64 : Nat) : Int) = 18446744073709551616 := by norm_num
  rw [e]
  rcases hTl' with h | h
  · rw [if_pos h]; omega
  · have : ¬ (-(2 ^ 63 : Int) ≤ Tl ∧ Tl < (2 ^ 63 : Int)) := by omega
    rw [if_neg this]; omega


theorem nez_fin (s : Bool) (n : Nat) : nez (.fin s n) = decide (n ≠ 0) := by
  by_cases h : n = 0
  · subst h; cases s <;> simp [nez, feq, pzero, F.toInt]
  · cases s <;> simp [nez, feq, pzero, F.toInt, h]

theorem toI64_zero (f : Fmt) (z : Bool) : toI64 f (.fin z 0) = 0 := by
  cases z <;> simp [toI64, truncInt]

theorem ofSigned_wrapI64 (z : Int) : ofSigned 64 (wrapI64 z) = ofSigned 64 z := by
  unfold ofSigned wrapI64
  have e : (((2 : Nat) ^ 64 : Nat) : Int) = 18446744073709551616 := by norm_num
  rw [e]
  simp only
  split_ifs <;> omega

theorem ofSigned_lt (z : Int) : ofSigned 64 z < 18446744073709551616 := by
  unfold ofSigned
  have e : (((2 : Nat) ^ 64 : Nat) : Int) = 18446744073709551616 := by norm_num
  rw [e]
  omega

theorem ofSigned_mod (z : Int) : ofSigned 64 z % 18446744073709551616 = ofSigned 64 z :=
  Nat.mod_eq_of_lt (ofSigned_lt z)

/-- a qd whose two lower limbs are zero reads like the dd of its two leading limbs -/
theorem qdToInt_two_limbs (s t z2 z3 : Bool) (n m : Nat) :
    ConvDD.qdToInt 64 true (.fin s n, .fin t m, .fin z2 0, .fin z3 0) = ofSigned 64 (DD.toInt64 ConvDD.b64 ⟨.fin s n, .fin t m⟩) := by
  unfold ConvDD.qdToInt DD.toInt64
  rw [ofSigned_wrapI64]
  simp only [List.foldl, ConvDD.qdToIntStep, Bool.not_true, Bool.false_and, Bool.false_eq_true, if_false, fracPart, nez_fin,
    toI64_zero, Nat.zero_mod, add_zero, zero_add, flt_fin_pzero, fgt_fin_pzero]
  rw [tailAdjust_eq_adj]
  unfold adj
  by_cases hr : n % 2 ^ ConvDD.b64.q = 0
  · by_cases hc : m % 2 ^ ConvDD.b64.q = 0
    · simp [hr, hc, ofSigned_mod]
    · simp only [hr, hc, ofSigned_mod, if_true, decide_true, decide_false, ne_eq, not_true_eq_false, not_false_eq_true,
        Bool.not_false, Bool.and_true, Bool.true_and, Bool.false_eq_true, if_false, add_zero]
      norm_num [ofSigned_mod]
      congr 1; ring
  · cases s <;> simp [hr, ofSigned_mod]


/-- a normalised pair whose sum stays below `2^K` in magnitude has its head at most `2^K` -/
theorem head_le_of_sum_lt {p n m : Nat} (K : Nat) (hp : 1 ≤ p) (hfl : IsFloatN p n) (norm : 2 * m ≤ ulpNat p n)
    (h : n < 2 ^ K + m) : n ≤ 2 ^ K := by
  by_contra hc
  have hgt : 2 ^ K < n := by omega
  have hn0 : n ≠ 0 := by have := Nat.two_pow_pos K; omega
  have hsz : K + 1 ≤ size n := by
    by_contra h2
    have : size n ≤ K := by omega
    have := size_le.1 this
    omega
  unfold ulpNat at norm
  have hd : 2 ^ (size n - p) ∣ n := isFloatN_canon hp hfl
  have hgpos : 0 < 2 ^ (size n - p) := Nat.two_pow_pos _
  rcases Nat.lt_or_ge (size n) (K + 2) with h1 | h1
  · -- same binade as 2^K .. 2^(K+1)
    have hsK : size n = K + 1 := by omega
    have hgK : 2 ^ (size n - p) ∣ 2 ^ K := Nat.pow_dvd_pow 2 (by omega)
    have hdiff : 2 ^ (size n - p) ∣ n - 2 ^ K := Nat.dvd_sub hd hgK
    have : 2 ^ (size n - p) ≤ n - 2 ^ K := Nat.le_of_dvd (by omega) hdiff
    omega
  · have h2 := two_pow_size_le hn0
    have h3 : 2 ^ (size n - p) ≤ 2 ^ (size n - 1) := Nat.pow_le_pow_right (by decide) (by omega)
    have h4 : 2 ^ (K + 1) ≤ 2 ^ (size n - 1) := Nat.pow_le_pow_right (by decide) (by omega)
    have h5 : 2 ^ (K + 1) = 2 * 2 ^ K := by rw [Nat.pow_succ]; ring
    omega

theorem natAbs_sum_ge (s t : Bool) (n m : Nat) : n ≤ ((F.fin s n).toInt + (F.fin t m).toInt).natAbs + m := by
  cases s <;> cases t <;> simp only [F.toInt, Bool.false_eq_true, if_false, if_true] <;> omega

/-- `toInt64_trunc` with the bound on the head derived from the bound on the value -/
theorem toInt64_trunc' (f : Fmt) (hp : 1 ≤ f.p) (s t : Bool) (n m : Nat) (hfl : IsFloatN f.p n)
    (norm : 2 * m ≤ ulpNat f.p n)
    (hr : ((F.fin s n).toInt + (F.fin t m).toInt).natAbs < 2 ^ 63 * 2 ^ f.q) :
    DD.toInt64 f ⟨.fin s n, .fin t m⟩ = Int.tdiv ((F.fin s n).toInt + (F.fin t m).toInt) ((2 ^ f.q : Nat) : Int) := by
  have h1 := natAbs_sum_ge s t n m
  have hn : n ≤ 2 ^ 63 * 2 ^ f.q := by
    rw [← Nat.pow_add]
    apply head_le_of_sum_lt (63 + f.q) hp hfl norm
    rw [Nat.pow_add]; omega
  exact toInt64_trunc f hp s t n m hfl norm hn hr

/-- `toUInt64_trunc` with the bound on the head derived from the bounds on the value -/
theorem toUInt64_trunc' (f : Fmt) (hp : 1 ≤ f.p) (s t : Bool) (n m : Nat) (hfl : IsFloatN f.p n)
    (norm : 2 * m ≤ ulpNat f.p n)
    (hlo : -((2 ^ f.q : Nat) : Int) < (F.fin s n).toInt + (F.fin t m).toInt)
    (hhi : (F.fin s n).toInt + (F.fin t m).toInt < ((2 ^ 64 * 2 ^ f.q : Nat) : Int)) :
    ((DD.toUInt64 f ⟨.fin s n, .fin t m⟩ : Nat) : Int)
      = Int.tdiv ((F.fin s n).toInt + (F.fin t m).toInt) ((2 ^ f.q : Nat) : Int) := by
  have h1 := natAbs_sum_ge s t n m
  have hle : ((2 ^ f.q : Nat) : Int) ≤ ((2 ^ 64 * 2 ^ f.q : Nat) : Int) := by
    have : 2 ^ f.q ≤ 2 ^ 64 * 2 ^ f.q := Nat.le_mul_of_pos_left _ (by norm_num)
    exact_mod_cast this
  have habs : ((F.fin s n).toInt + (F.fin t m).toInt).natAbs < 2 ^ 64 * 2 ^ f.q := by
    have : ((((F.fin s n).toInt + (F.fin t m).toInt).natAbs : Nat) : Int) < ((2 ^ 64 * 2 ^ f.q : Nat) : Int) := by
      generalize ((2 ^ 64 * 2 ^ f.q : Nat) : Int) = B at *
      generalize ((2 ^ f.q : Nat) : Int) = Uz at *
      omega
    exact_mod_cast this
  have hn : n ≤ 2 ^ 64 * 2 ^ f.q := by
    rw [← Nat.pow_add]
    apply head_le_of_sum_lt (64 + f.q) hp hfl norm
    rw [Nat.pow_add]; omega
  exact toUInt64_trunc f hp s t n m hfl norm hn hlo hhi

end UVerif.ConvDDLemmas

