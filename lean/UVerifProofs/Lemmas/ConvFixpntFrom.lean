/-
  UVerifProofs.Lemmas.ConvFixpntFrom — helper lemmas for the native → fixpnt conversions of
  UVerif.Model.ConvFixpnt (`fromSigned`, `fromUnsigned`, `fromIeee`) against UVerif.Spec.ConvFixpnt.
-/
import UVerif.Model.ConvFixpnt
import UVerif.Spec.ConvFixpnt
import UVerif.Spec.F64
import UVerifProofs.Lemmas.Signed
import UVerifProofs.Lemmas.Bits
import UVerifProofs.Lemmas.Pow2
import UVerifProofs.Lemmas.Rne
import UVerifProofs.Lemmas.LnsRound
import UVerifProofs.Lemmas.Fixpnt
import UVerifProofs.Lemmas.F64Round
import Mathlib.Tactic.SplitIfs
import Mathlib.Tactic.NormNum
import Mathlib.Algebra.Order.Floor.Ring
import Mathlib.Data.Rat.Floor
import Mathlib.Tactic.Ring
import Mathlib.Tactic.Linarith
import Mathlib.Tactic.Positivity
import Mathlib.Tactic.FieldSimp
import Mathlib.Tactic.Push

set_option linter.unusedVariables false
set_option linter.unusedSimpArgs false

namespace UVerif.ConvFixpntLemmas
open UVerif

/-! ### patterns of negated / scaled naturals -/

/-- `twosComp n x` is the n-bit pattern of −x -/
theorem twosComp_eq_ofSigned (n x : Nat) : twosComp n x = ofSigned n (-(x : Int)) := by
  unfold twosComp
  rw [← ofSigned_neg n x]
  apply ofSigned_congr
  have h := (modEq_toSigned n x).dvd
  have e : -toSigned n x - -(x : Int) = (x : Int) - toSigned n x := by ring
  rw [e]; exact h

/-- copying the low `n − r` bits to position `r` is multiplication by 2^r modulo 2^n -/
theorem mod_shl_eq (n r a : Nat) (hr : r ≤ n) : (a % 2 ^ (n - r)) <<< r = (a * 2 ^ r) % 2 ^ n := by
  rw [Nat.shiftLeft_eq]
  have hp : 2 ^ n = 2 ^ (n - r) * 2 ^ r := by rw [← Nat.pow_add]; congr 1; omega
  rw [hp, Nat.mul_mod_mul_right]

/-- the bit-copy loop of the signed-integer conversion: the low min(sz, n − r) bits of an sz-bit magnitude -/
theorem copy_eq (n r sz a : Nat) (hr : r ≤ n) (ha : a < 2 ^ sz) :
    ((a % 2 ^ sz) % 2 ^ (min sz (n - r))) <<< r = (a * 2 ^ r) % 2 ^ n := by
  rw [Nat.mod_eq_of_lt ha]
  by_cases h : n - r ≤ sz
  · rw [Nat.min_eq_right h]; exact mod_shl_eq n r a hr
  · have h' : sz ≤ n - r := by omega
    rw [Nat.min_eq_left h', Nat.mod_eq_of_lt ha, Nat.shiftLeft_eq]
    have hlt : a * 2 ^ r < 2 ^ n := by
      have hp : 2 ^ n = 2 ^ (n - r) * 2 ^ r := by rw [← Nat.pow_add]; congr 1; omega
      rw [hp]
      exact Nat.mul_lt_mul_of_lt_of_le (Nat.lt_of_lt_of_le ha (Nat.pow_le_pow_right (by omega) h'))
        (Nat.le_refl _) (Nat.two_pow_pos r)
    rw [Nat.mod_eq_of_lt hlt]

theorem natAbs_lt_of_range {sz : Nat} {v : Int} (hsz : 0 < sz) (h1 : -((2 ^ (sz - 1) : Nat) : Int) ≤ v)
    (h2 : v < ((2 ^ (sz - 1) : Nat) : Int)) : v.natAbs < 2 ^ sz := by
  have hp : 2 ^ sz = 2 ^ (sz - 1) * 2 := by rw [← Nat.pow_succ]; congr 1; omega
  have h0 := Nat.two_pow_pos (sz - 1)
  omega

/-- Modulo result of the signed conversion (the bit-copy branch), any source width -/
theorem fromSigned_copy (n r sz : Nat) (v : Int) (hr : r ≤ n) (hsz : 0 < sz)
    (h1 : -((2 ^ (sz - 1) : Nat) : Int) ≤ v) (h2 : v < ((2 ^ (sz - 1) : Nat) : Int)) :
    (if v < 0 then twosComp n (((v.natAbs % 2 ^ sz) % 2 ^ (min sz (n - r))) <<< r)
      else ((v.natAbs % 2 ^ sz) % 2 ^ (min sz (n - r))) <<< r) = ofSigned n (v * ((2 ^ r : Nat) : Int)) := by
  have ha := natAbs_lt_of_range hsz h1 h2
  rw [copy_eq n r sz v.natAbs hr ha]
  by_cases hv : v < 0
  · rw [if_pos hv, twosComp_eq_ofSigned]
    apply ofSigned_congr
    have hm := (modEq_natMod (v.natAbs * 2 ^ r) n).dvd
    have e : (v.natAbs : Int) = -v := by omega
    have e3 : ((v.natAbs * 2 ^ r : Nat) : Int) = (v.natAbs : Int) * ((2 ^ r : Nat) : Int) := by push_cast; ring
    have : -((v.natAbs * 2 ^ r % 2 ^ n : Nat) : Int) - v * ((2 ^ r : Nat) : Int)
        = ((v.natAbs * 2 ^ r : Nat) : Int) - ((v.natAbs * 2 ^ r % 2 ^ n : Nat) : Int) := by
      rw [e3, e]; ring
    rw [this]
    exact hm
  · rw [if_neg hv]
    have e : v = (v.natAbs : Int) := by omega
    have e3 : v * ((2 ^ r : Nat) : Int) = ((v.natAbs * 2 ^ r : Nat) : Int) := by
      rw [Nat.cast_mul, ← e]
    rw [e3, ofSigned_natCast]

/-! ### the Saturate thresholds of the signed conversion: `static_cast<Arith>(maxpos)`, `static_cast<Arith>(maxneg)` -/

theorem pow_split {a b : Nat} (h : b ≤ a) : 2 ^ a = 2 ^ (a - b) * 2 ^ b := by
  rw [← Nat.pow_add]; congr 1; omega

theorem pow_pred_shr (m r : Nat) (h : r ≤ m) : (2 ^ m - 1) >>> r = 2 ^ (m - r) - 1 := by
  rw [Nat.shiftRight_eq_div_pow]
  have hp := pow_split h
  have hA := Nat.two_pow_pos (m - r)
  have hB := Nat.two_pow_pos r
  have hle : 2 ^ r ≤ 2 ^ (m - r) * 2 ^ r := Nat.le_mul_of_pos_left _ hA
  have hsub : (2 ^ (m - r) - 1) * 2 ^ r = 2 ^ (m - r) * 2 ^ r - 2 ^ r := by rw [Nat.sub_mul, Nat.one_mul]
  apply Nat.div_eq_of_lt_le
  · rw [hsub, hp]; omega
  · rw [Nat.sub_add_cancel hA, hp]; omega

/-- `int(maxpos)` when the integer part fits the source type: 2^(n−r−1) − 1 -/
theorem thresh_maxpos (n r sz : Nat) (hr : r < n) (h64 : n - r ≤ 64) (hfit : n - r ≤ sz) :
    toSigned sz (ConvFixpnt.toSignedPat n r sz (ConvFixpnt.maxposP n)) = ((2 ^ (n - r - 1) : Nat) : Int) - 1 := by
  unfold ConvFixpnt.toSignedPat ConvFixpnt.maxposP ConvFixpnt.signP
  have hA := Nat.two_pow_pos (n - r - 1)
  have hs : (2 ^ (n - 1) - 1).testBit (n - 1) = false := Nat.testBit_lt_two_pow (by have := Nat.two_pow_pos (n - 1); omega)
  have hk : n - 1 - r = n - r - 1 := by omega
  have hlt1 : 2 ^ (n - r - 1) - 1 < 2 ^ (n - r) := by
    have : 2 ^ (n - r - 1) ≤ 2 ^ (n - r) := Nat.pow_le_pow_right (by omega) (by omega)
    omega
  have hlt2 : 2 ^ (n - r - 1) - 1 < 2 ^ (sz - 1) := by
    have : 2 ^ (n - r - 1) ≤ 2 ^ (sz - 1) := Nat.pow_le_pow_right (by omega) (by omega)
    omega
  have hlt3 : 2 ^ (n - r - 1) - 1 < 2 ^ sz :=
    Nat.lt_of_lt_of_le hlt2 (Nat.pow_le_pow_right (by omega) (by omega))
  rw [if_neg (show ¬ n ≤ r by omega), hs]
  simp only [Bool.false_and, Bool.false_eq_true, if_false]
  rw [if_neg (show ¬ n - r > 64 by omega), pow_pred_shr (n - 1) r (by omega), hk, Nat.mod_eq_of_lt hlt1, Nat.mod_eq_of_lt hlt3,
    Integer.toSigned_small (by omega) hlt2]
  omega

/-- `int(maxneg)` when the integer part fits the source type: −2^(n−r−1) -/
theorem thresh_maxneg (n r sz : Nat) (hr : r < n) (h64 : n - r ≤ 64) (hfit : n - r ≤ sz) :
    toSigned sz (ConvFixpnt.toSignedPat n r sz (ConvFixpnt.maxnegP n)) = -((2 ^ (n - r - 1) : Nat) : Int) := by
  unfold ConvFixpnt.toSignedPat ConvFixpnt.maxnegP ConvFixpnt.signP
  have hA := Nat.two_pow_pos (n - r - 1)
  have hs : (2 ^ (n - 1)).testBit (n - 1) = true := Nat.testBit_two_pow_self
  have hk : n - 1 - r = n - r - 1 := by omega
  have hsh : 2 ^ (n - 1) >>> r = 2 ^ (n - r - 1) := by
    rw [Nat.shiftRight_eq_div_pow, Nat.pow_div (by omega) (by omega), hk]
  have hd : 2 ^ (n - r) = 2 ^ (n - r - 1) * 2 := by rw [← Nat.pow_succ]; congr 1; omega
  have hz : 2 ^ sz = 2 ^ (sz - 1) * 2 := by rw [← Nat.pow_succ]; congr 1; omega
  have hlt1 : 2 ^ (n - r - 1) < 2 ^ (n - r) := by omega
  have hle : 2 ^ (n - r) ≤ 2 ^ sz := Nat.pow_le_pow_right (by omega) hfit
  rw [if_neg (show ¬ n ≤ r by omega), hs, if_neg (show ¬ n - r > 64 by omega), hsh]
  dsimp only
  rw [Nat.mod_eq_of_lt hlt1, Nat.mod_eq_of_lt (show 2 ^ (n - r - 1) < 2 ^ sz by omega)]
  by_cases hlt : n < sz + r
  · have hdec : decide (n < sz + r) = true := by simpa using hlt
    rw [hdec]
    simp only [Bool.and_self, if_true]
    have hle2 : 2 ^ (n - r) ≤ 2 ^ (sz - 1) := Nat.pow_le_pow_right (by omega) (by omega)
    have hfac : 2 ^ sz - 2 ^ (n - r) = 2 ^ (n - r) * (2 ^ (sz - (n - r)) - 1) := by
      rw [Nat.mul_sub, Nat.mul_one, ← Nat.pow_add]; congr 2; omega
    have hor : 2 ^ (n - r - 1) ||| (2 ^ sz - 2 ^ (n - r)) = 2 ^ sz - 2 ^ (n - r) + 2 ^ (n - r - 1) := by
      rw [hfac, Nat.or_comm]; exact (Nat.two_pow_add_eq_or_of_lt hlt1 _).symm
    rw [hor, Limbs.toSigned_of_lt (by omega) (by omega), if_neg (by omega)]
    omega
  · have hdec : decide (n < sz + r) = false := by simpa using hlt
    rw [hdec]
    simp only [Bool.and_false, Bool.false_eq_true, if_false]
    have hsz : sz = n - r := by omega
    rw [Limbs.toSigned_of_lt (by omega) (by omega), if_neg (by rw [hsz]; omega), hsz]
    omega

/-- when nbits = rbits there is no integer part: both thresholds are 0 -/
theorem thresh_zero (n sz p : Nat) : toSigned sz (ConvFixpnt.toSignedPat n n sz p) = 0 := by
  unfold ConvFixpnt.toSignedPat
  rw [if_pos (Nat.le_refl n)]
  unfold toSigned
  split
  · rfl
  · simp [Nat.zero_mod, Nat.two_pow_pos]

theorem ofSigned_maxposZ (n : Nat) (hn : 0 < n) : ofSigned n (FixpntSpec.maxposZ n) = ConvFixpnt.maxposP n := by
  unfold FixpntSpec.maxposZ ConvFixpnt.maxposP
  have hA := Nat.two_pow_pos (n - 1)
  have hz : 2 ^ n = 2 ^ (n - 1) * 2 := by rw [← Nat.pow_succ]; congr 1; omega
  have e : (((2 ^ (n - 1) : Nat) : Int) - 1) = ((2 ^ (n - 1) - 1 : Nat) : Int) := by omega
  rw [e, ofSigned_natCast, Nat.mod_eq_of_lt (by omega)]

theorem ofSigned_maxnegZ (n : Nat) (hn : 0 < n) : ofSigned n (FixpntSpec.maxnegZ n) = ConvFixpnt.maxnegP n := by
  unfold FixpntSpec.maxnegZ ConvFixpnt.maxnegP
  have hA := Nat.two_pow_pos (n - 1)
  have hz : 2 ^ n = 2 ^ (n - 1) * 2 := by rw [← Nat.pow_succ]; congr 1; omega
  have hc : ofSigned n (-((2 ^ (n - 1) : Nat) : Int)) = ofSigned n (((2 ^ (n - 1) : Nat) : Int)) := by
    apply ofSigned_congr
    refine ⟨-1, ?_⟩
    rw [hz]; push_cast; ring
  rw [hc, ofSigned_natCast, Nat.mod_eq_of_lt (by omega)]

theorem fromSigned_modulo (n r sz : Nat) (v : Int) (hr : r ≤ n) (hsz : 0 < sz)
    (h1 : -((2 ^ (sz - 1) : Nat) : Int) ≤ v) (h2 : v < ((2 ^ (sz - 1) : Nat) : Int)) :
    ConvFixpnt.fromSigned n r false sz v = ConvFixpntSpec.fromInt n r false v := by
  unfold ConvFixpnt.fromSigned ConvFixpntSpec.fromInt FixpntSpec.finish
  simp only [Bool.false_and, Bool.false_eq_true, if_false]
  by_cases hv0 : v = 0
  · subst hv0; simp [ofSigned]
  · rw [if_neg hv0]
    exact fromSigned_copy n r sz v hr hsz h1 h2

theorem maxposZ_eq (n r : Nat) (hr : r < n) :
    FixpntSpec.maxposZ n = ((2 ^ (n - r - 1) : Nat) : Int) * ((2 ^ r : Nat) : Int) - 1 := by
  unfold FixpntSpec.maxposZ
  have : 2 ^ (n - 1) = 2 ^ (n - r - 1) * 2 ^ r := by rw [← Nat.pow_add]; congr 1; omega
  rw [this]; push_cast; ring

theorem maxnegZ_eq (n r : Nat) (hr : r < n) :
    FixpntSpec.maxnegZ n = -(((2 ^ (n - r - 1) : Nat) : Int) * ((2 ^ r : Nat) : Int)) := by
  unfold FixpntSpec.maxnegZ
  have : 2 ^ (n - 1) = 2 ^ (n - r - 1) * 2 ^ r := by rw [← Nat.pow_add]; congr 1; omega
  rw [this]; push_cast; ring

/-- Saturate, signed source whose type holds the integer part of maxpos; `v = ⌊maxpos⌋` excluded unless rbits = 0 -/
theorem fromSigned_saturate (n r sz : Nat) (v : Int) (hn : 0 < n) (hr : r ≤ n) (hsz : 0 < sz)
    (h1 : -((2 ^ (sz - 1) : Nat) : Int) ≤ v) (h2 : v < ((2 ^ (sz - 1) : Nat) : Int))
    (h64 : n - r ≤ 64) (hfit : n - r ≤ sz)
    (hg : r = 0 ∨ v = 0 ∨ v ≠ ((2 ^ (n - r - 1) : Nat) : Int) - 1) :
    ConvFixpnt.fromSigned n r true sz v = ConvFixpntSpec.fromInt n r true v := by
  unfold ConvFixpnt.fromSigned ConvFixpntSpec.fromInt FixpntSpec.finish
  simp only [Bool.true_and, decide_eq_true_eq, if_true]
  have hP1 : (0 : Int) < ((2 ^ (n - 1) : Nat) : Int) := by exact_mod_cast Nat.two_pow_pos (n - 1)
  by_cases hv0 : v = 0
  · subst hv0
    rw [if_pos rfl, Int.zero_mul, Fixpnt.clamp_inside' (by unfold FixpntSpec.maxnegZ; omega) (by unfold FixpntSpec.maxposZ; omega)]
    simp [ofSigned]
  rw [if_neg hv0]
  have hR : (0 : Int) < ((2 ^ r : Nat) : Int) := by exact_mod_cast Nat.two_pow_pos r
  rcases Nat.lt_or_ge r n with hlt | hge
  · -- there is an integer part
    rw [thresh_maxpos n r sz hlt h64 hfit, thresh_maxneg n r sz hlt h64 hfit]
    have hK : (0 : Int) < ((2 ^ (n - r - 1) : Nat) : Int) := by exact_mod_cast Nat.two_pow_pos (n - r - 1)
    have emp := maxposZ_eq n r hlt
    have emn := maxnegZ_eq n r hlt
    by_cases hA : v ≥ ((2 ^ (n - r - 1) : Nat) : Int) - 1
    · rw [if_pos hA]
      have hle : FixpntSpec.maxposZ n ≤ v * ((2 ^ r : Nat) : Int) := by
        rw [emp]
        by_cases hB : v ≥ ((2 ^ (n - r - 1) : Nat) : Int)
        · have := Int.mul_le_mul_of_nonneg_right hB (Int.le_of_lt hR)
          omega
        · have hveq : v = ((2 ^ (n - r - 1) : Nat) : Int) - 1 := by omega
          rcases hg with h0 | h0 | h0
          · subst h0; simp only [Nat.pow_zero, Nat.cast_one, Int.mul_one]; omega
          · exact absurd h0 hv0
          · exact absurd hveq h0
      rw [Fixpnt.clamp_le_maxpos hle, ofSigned_maxposZ n hn]
    · rw [if_neg hA]
      have hlt' : v * ((2 ^ r : Nat) : Int) ≤ (((2 ^ (n - r - 1) : Nat) : Int) - 2) * ((2 ^ r : Nat) : Int) :=
        Int.mul_le_mul_of_nonneg_right (by omega) (Int.le_of_lt hR)
      have hnp : ¬ FixpntSpec.maxposZ n ≤ v * ((2 ^ r : Nat) : Int) := by
        rw [emp]; rw [Int.sub_mul] at hlt'; omega
      by_cases hC : v ≤ -((2 ^ (n - r - 1) : Nat) : Int)
      · rw [if_pos hC]
        have hle : v * ((2 ^ r : Nat) : Int) ≤ FixpntSpec.maxnegZ n := by
          rw [emn]
          have := Int.mul_le_mul_of_nonneg_right hC (Int.le_of_lt hR)
          rw [Int.neg_mul] at this
          exact this
        rw [Fixpnt.clamp_le_maxneg hnp hle, ofSigned_maxnegZ n hn]
      · rw [if_neg hC]
        have hge' : (-((2 ^ (n - r - 1) : Nat) : Int) + 1) * ((2 ^ r : Nat) : Int) ≤ v * ((2 ^ r : Nat) : Int) :=
          Int.mul_le_mul_of_nonneg_right (by omega) (Int.le_of_lt hR)
        have hnn : ¬ v * ((2 ^ r : Nat) : Int) ≤ FixpntSpec.maxnegZ n := by
          rw [emn]; rw [Int.add_mul, Int.neg_mul, Int.one_mul] at hge'; omega
        rw [Fixpnt.clamp_inside hnp hnn]
        exact fromSigned_copy n r sz v hr hsz h1 h2
  · -- nbits = rbits: every non-zero integer is out of range
    have hrn : r = n := by omega
    subst hrn
    rw [thresh_zero, thresh_zero]
    have hz : 2 ^ r = 2 ^ (r - 1) * 2 := by rw [← Nat.pow_succ]; congr 1; omega
    have hzi : ((2 ^ r : Nat) : Int) = ((2 ^ (r - 1) : Nat) : Int) * 2 := by rw [hz]; push_cast; ring
    by_cases hA : v ≥ 0
    · rw [if_pos hA]
      have hle : FixpntSpec.maxposZ r ≤ v * ((2 ^ r : Nat) : Int) := by
        unfold FixpntSpec.maxposZ
        have := Int.mul_le_mul_of_nonneg_right (show (1 : Int) ≤ v by omega) (Int.le_of_lt hR)
        omega
      rw [Fixpnt.clamp_le_maxpos hle, ofSigned_maxposZ r hn]
    · rw [if_neg hA, if_pos (by omega)]
      have hm := Int.mul_le_mul_of_nonneg_right (show v ≤ -1 by omega) (Int.le_of_lt hR)
      have hnp : ¬ FixpntSpec.maxposZ r ≤ v * ((2 ^ r : Nat) : Int) := by
        unfold FixpntSpec.maxposZ; omega
      have hle : v * ((2 ^ r : Nat) : Int) ≤ FixpntSpec.maxnegZ r := by
        unfold FixpntSpec.maxnegZ; omega
      rw [Fixpnt.clamp_le_maxneg hnp hle, ofSigned_maxnegZ r hn]

/-- unsigned source, Modulo, integer part at most 64 bits -/
theorem fromUnsigned_modulo (n r sz v : Nat) (hr : r ≤ n) (h64 : n - r ≤ 64) :
    ConvFixpnt.fromUnsigned n r false sz v = ConvFixpntSpec.fromInt n r false (v : Int) := by
  unfold ConvFixpnt.fromUnsigned ConvFixpntSpec.fromInt FixpntSpec.finish
  simp only [Bool.false_and, Bool.false_eq_true, if_false]
  by_cases hv0 : v = 0
  · subst hv0; simp [ofSigned]
  · rw [if_neg hv0, if_pos h64, mod_shl_eq n r v hr]
    have e : (v : Int) * ((2 ^ r : Nat) : Int) = ((v * 2 ^ r : Nat) : Int) := by push_cast; ring
    rw [e, ofSigned_natCast]

/-! ### float / double sources -/

/-- the rounding / shifting tail of `convert<float|double>`; `d` = radixPoint − rbits, the (signed) number of source
    fraction bits below the target's least significant bit -/
def ieeeTail (n fb : Nat) (s : Bool) (fraction : Nat) (d : Int) : Nat :=
  let shiftRight : Int := min d 64
  if shiftRight > (fb : Int) + 1 then 0
  else if shiftRight > 0 then ConvFixpnt.setbits64 n (ConvFixpnt.neg64 s (Lns.Model.roundGRS fraction shiftRight.toNat))
  else
    let sl := (-shiftRight).toNat
    if sl < 64 - fb then ConvFixpnt.setbits64 n (ConvFixpnt.neg64 s (fraction <<< sl))
    else
      let x := (fraction <<< sl) % 2 ^ n
      if s then twosComp n x else x

/-- a normal source in Modulo mode reaches the tail -/
theorem fromIeee_modulo_eq_tail (n r ew fb bits : Nat) (hexp : 0 < (bits >>> fb) % 2 ^ ew) :
    ConvFixpnt.fromIeee n r false ew fb bits =
      ieeeTail n fb (bits.testBit (ew + fb)) (bits % 2 ^ fb + 2 ^ fb)
        ((fb : Int) - ((((bits >>> fb) % 2 ^ ew : Nat) : Int) - (((2 ^ (ew - 1) : Nat) : Int) - 1)) - (r : Int)) := by
  unfold ConvFixpnt.fromIeee ieeeTail
  simp only [Bool.false_and, Bool.false_eq_true, if_false]
  rw [if_neg (by omega)]
  simp only [gt_iff_lt, hexp, if_true]

def sgnQ (s : Bool) (q : Rat) : Rat := if s then -q else q
def sgnZ (s : Bool) (z : Int) : Int := if s then -z else z

theorem rneShr_zero (x : Nat) : rneShr x 0 = x := by
  simp [rneShr, Nat.mod_one]

theorem rneShr_small {x k : Nat} (h : 2 * x < 2 ^ k) : rneShr x k = 0 := by
  have hx : x < 2 ^ k := by omega
  unfold rneShr
  rw [Nat.shiftRight_eq_div_pow, Nat.div_eq_of_lt hx, Nat.mod_eq_of_lt hx]
  simp [h]

theorem rne_sgn_div (s : Bool) (x k : Nat) :
    rne (sgnQ s ((x : Rat) / ((2 ^ k : Nat) : Rat))) = sgnZ s (rneShr x k) := by
  cases s
  · simp only [sgnQ, sgnZ, Bool.false_eq_true, if_false]
    exact LnsLemmas.rne_div_two_pow x k
  · simp only [sgnQ, sgnZ, if_true]
    have h := rne_neg_div x (2 ^ k) (Nat.two_pow_pos k)
    have e : -((x : Rat) / ((2 ^ k : Nat) : Rat)) = (((-(x : Int) : Int)) : Rat) / ((2 ^ k : Nat) : Rat) := by
      push_cast; ring
    rw [e, h]
    have := LnsLemmas.rne_div_two_pow x k
    rw [Int.cast_natCast, this]

theorem ofSigned_mod (n m : Nat) (z : Int) (h : n ≤ m) : ofSigned m z % 2 ^ n = ofSigned n z := by
  apply eq_ofSigned_of_modEq (Nat.mod_lt _ (Nat.two_pow_pos n))
  exact (modEq_natMod (ofSigned m z) n).trans (modEq_of_le h (modEq_ofSigned m z))

/-- `setbits( s ? ~q + 1 : q )` on a uint64_t, for nbits ≤ 64: the pattern of ±q -/
theorem setbits64_neg64 (n q : Nat) (s : Bool) (hn : n ≤ 64) :
    ConvFixpnt.setbits64 n (ConvFixpnt.neg64 s q) = ofSigned n (sgnZ s (q : Int)) := by
  unfold ConvFixpnt.setbits64 ConvFixpnt.neg64
  have hdvd : 2 ^ n ∣ 2 ^ 64 := Nat.pow_dvd_pow 2 hn
  cases s
  · simp only [Bool.false_eq_true, if_false, sgnZ]
    rw [Nat.mod_mod, Nat.mod_mod_of_dvd _ hdvd, ofSigned_natCast]
  · simp only [if_true, sgnZ]
    rw [Nat.mod_mod]
    have e : (2 ^ 64 - q % 2 ^ 64) % 2 ^ 64 = twosComp 64 q := rfl
    rw [e, twosComp_eq_ofSigned, ofSigned_mod n 64 _ hn]

/-- bit projection + `twosComplement()` in nbits: the pattern of ±X, any nbits -/
theorem project_neg (n X : Nat) (s : Bool) :
    (if s then twosComp n (X % 2 ^ n) else X % 2 ^ n) = ofSigned n (sgnZ s (X : Int)) := by
  cases s
  · simp only [Bool.false_eq_true, if_false, sgnZ]
    rw [ofSigned_natCast]
  · simp only [if_true, sgnZ]
    rw [twosComp_eq_ofSigned]
    apply ofSigned_congr
    have h := (modEq_natMod X n).dvd
    have e : -((X % 2 ^ n : Nat) : Int) - -(X : Int) = (X : Int) - ((X % 2 ^ n : Nat) : Int) := by ring
    rw [e]; exact h

theorem pow2_neg_nat (k : Nat) (x : Rat) : x * pow2 (-(k : Int)) = x / ((2 ^ k : Nat) : Rat) := by
  rw [pow2_eq_zpow, zpow_neg, zpow_natCast, div_eq_mul_inv]; push_cast; rfl

/-- the tail computes the source scaled by 2^rbits, rounded to nearest (ties to even), modulo 2^nbits — nbits ≤ 64 -/
theorem ieeeTail_spec (n fb : Nat) (s : Bool) (fr : Nat) (d : Int) (hfb : fb + 1 < 64) (hfr : fr < 2 ^ (fb + 1))
    (hn : n ≤ 64) :
    ieeeTail n fb s fr d = ofSigned n (rne (sgnQ s ((fr : Rat) * pow2 (-d)))) := by
  unfold ieeeTail
  simp only []
  by_cases hA : min d 64 > (fb : Int) + 1
  · rw [if_pos hA]
    obtain ⟨k, rfl⟩ : ∃ k : Nat, d = (k : Int) := ⟨d.toNat, by omega⟩
    have hk : fb + 2 ≤ k := by omega
    have hsm : 2 * fr < 2 ^ k := by
      have : 2 ^ (fb + 2) ≤ 2 ^ k := Nat.pow_le_pow_right (by omega) hk
      have e : 2 ^ (fb + 2) = 2 * 2 ^ (fb + 1) := by rw [Nat.pow_succ]; ring
      omega
    rw [pow2_neg_nat, rne_sgn_div, rneShr_small hsm]
    cases s <;> simp [sgnZ, ofSigned]
  · rw [if_neg hA]
    by_cases hB : min d 64 > 0
    · rw [if_pos hB]
      obtain ⟨k, rfl⟩ : ∃ k : Nat, d = (k : Int) := ⟨d.toNat, by omega⟩
      have hk : 1 ≤ k := by omega
      have hmin : (min (k : Int) 64).toNat = k := by omega
      rw [hmin, LnsLemmas.roundGRS_eq_rneShr fr k hk, setbits64_neg64 n _ s hn, pow2_neg_nat, rne_sgn_div]
    · rw [if_neg hB]
      obtain ⟨sl, rfl⟩ : ∃ sl : Nat, d = -(sl : Int) := ⟨(-d).toNat, by omega⟩
      have hmin : (-(min (-(sl : Int)) 64)).toNat = sl := by omega
      have hval : rne (sgnQ s ((fr : Rat) * pow2 (-(-(sl : Int))))) = sgnZ s ((fr <<< sl : Nat) : Int) := by
        have e : (fr : Rat) * pow2 (-(-(sl : Int))) = ((fr <<< sl : Nat) : Rat) / ((2 ^ 0 : Nat) : Rat) := by
          rw [Int.neg_neg, pow2_natCast, Nat.shiftLeft_eq]; push_cast; ring
        rw [e, rne_sgn_div, rneShr_zero]
      rw [hmin, hval]
      by_cases hC : sl < 64 - fb
      · rw [if_pos hC, setbits64_neg64 n _ s hn]
      · rw [if_neg hC]
        exact project_neg n (fr <<< sl) s

theorem sgnQ_mul (s : Bool) (a c : Rat) : sgnQ s a * c = sgnQ s (a * c) := by
  cases s <;> simp [sgnQ]

/-- the textbook value of a normal pattern: (−1)^s · (2^fb + fraction) · 2^(exponent − bias − fb) -/
theorem valOf_normal (ew fb bits : Nat) (hexp : 0 < (bits >>> fb) % 2 ^ ew) :
    SpecF64.valOf (fb + 1) ew bits =
      sgnQ (bits.testBit (ew + fb)) (((bits % 2 ^ fb + 2 ^ fb : Nat) : Rat) *
        pow2 ((((bits >>> fb) % 2 ^ ew : Nat) : Int) - (((2 ^ (ew - 1) : Nat) : Int) - 1) - (fb : Int))) := by
  unfold SpecF64.valOf SpecF64.valMag SpecF64.magOf SpecF64.signOf SpecF64.eminQ dyadic sgnQ
  simp only [Nat.add_sub_cancel]
  have hE : (bits % 2 ^ (fb + ew)) >>> fb = (bits >>> fb) % 2 ^ ew := by
    rw [Nat.shiftRight_eq_div_pow, Nat.shiftRight_eq_div_pow, Nat.pow_add, Nat.mod_mul_right_div_self]
  have hF : bits % 2 ^ (fb + ew) % 2 ^ fb = bits % 2 ^ fb :=
    Nat.mod_mod_of_dvd _ (Nat.pow_dvd_pow 2 (by omega))
  rw [hE, hF, if_neg (show ¬ ((bits >>> fb) % 2 ^ ew = 0) by omega), Nat.add_comm fb ew]
  have hx : (3 : Int) - ((2 ^ (ew - 1) : Nat) : Int) - ((fb + 1 : Nat) : Int) + (((bits >>> fb) % 2 ^ ew : Nat) : Int) - 1
      = (((bits >>> fb) % 2 ^ ew : Nat) : Int) - (((2 ^ (ew - 1) : Nat) : Int) - 1) - (fb : Int) := by
    push_cast; ring
  rw [hx, Nat.add_comm (2 ^ fb) (bits % 2 ^ fb)]
  push_cast
  rfl

/-- the tail in terms of the exact source value -/
theorem ieeeTail_valOf (n r ew fb bits : Nat) (hn : n ≤ 64) (hfb : fb + 1 < 64) (hexp : 0 < (bits >>> fb) % 2 ^ ew) :
    ieeeTail n fb (bits.testBit (ew + fb)) (bits % 2 ^ fb + 2 ^ fb)
        ((fb : Int) - ((((bits >>> fb) % 2 ^ ew : Nat) : Int) - (((2 ^ (ew - 1) : Nat) : Int) - 1)) - (r : Int))
      = ofSigned n (rne (SpecF64.valOf (fb + 1) ew bits * ((2 ^ r : Nat) : Rat))) := by
  have hfr : bits % 2 ^ fb + 2 ^ fb < 2 ^ (fb + 1) := by
    have := Nat.mod_lt bits (Nat.two_pow_pos fb)
    rw [Nat.pow_succ]; omega
  rw [ieeeTail_spec n fb _ _ _ hfb hfr hn, valOf_normal ew fb bits hexp]
  rw [sgnQ_mul, mul_assoc, ← pow2_natCast, ← pow2_add]
  congr 5
  ring

/-- float / double → fixpnt, Modulo, nbits ≤ 64, normal source: correctly rounded then wrapped -/
theorem fromIeee_modulo (n r ew fb bits : Nat) (hn : n ≤ 64) (hfb : fb + 1 < 64) (hexp : 0 < (bits >>> fb) % 2 ^ ew) :
    ConvFixpnt.fromIeee n r false ew fb bits = ConvFixpntSpec.fromRat n r false (SpecF64.valOf (fb + 1) ew bits) := by
  rw [fromIeee_modulo_eq_tail n r ew fb bits hexp, ieeeTail_valOf n r ew fb bits hn hfb hexp]
  unfold ConvFixpntSpec.fromRat FixpntSpec.finish
  simp only [Bool.false_eq_true, if_false]

/-! ### `to_native<float>` of maxpos / maxneg (the Saturate thresholds of the floating-point conversion) -/

open F64 in
/-- an addition whose exact result is a float of the format is exact -/
theorem add_fin_exact (fmt : Fmt) (hp : 1 ≤ fmt.p) (a b : Nat) (hf : IsFloatN fmt.p (a + b)) (hs : size (a + b) ≤ fmt.top) :
    F64.add fmt (.fin false a) (.fin false b) = .fin false (a + b) := by
  simp only [F64.add, F.toInt, Bool.false_eq_true, if_false, Bool.and_self]
  unfold roundInt
  by_cases h0 : a + b = 0
  · have hz : ((a : Int) + (b : Int)) = 0 := by omega
    rw [if_pos hz, h0]
  · rw [if_neg (by omega)]
    have hna : ((a : Int) + (b : Int)).natAbs = a + b := by omega
    have hneg : decide ((a : Int) + (b : Int) < 0) = false := by
      rw [decide_eq_false_iff_not]; omega
    rw [hna, hneg, rnNat_exact hp hf]
    unfold pack
    rw [if_pos hs]

open F64 in
/-- the accumulation loop of `to_native` is exact as long as every partial sum is a float of the target format -/
theorem toNative_fold (fmt : Fmt) (hp : 1 ≤ fmt.p) (r mag : Nat) (hr : r ≤ fmt.q) :
    ∀ k, (∀ j, j ≤ k → IsFloatN fmt.p (mag % 2 ^ j)) → k + (fmt.q - r) ≤ fmt.top →
      (List.range k).foldl
        (fun acc i => if mag.testBit i then F64.add fmt acc (.fin false (2 ^ (i + fmt.q - r))) else acc) (F.fin false 0)
        = F.fin false ((mag % 2 ^ k) * 2 ^ (fmt.q - r)) := by
  intro k
  induction k with
  | zero => intro _ _; simp [Nat.mod_one]
  | succ k ih =>
    intro hfl hsz
    rw [List.range_succ, List.foldl_append, ih (fun j hj => hfl j (by omega)) (by omega)]
    simp only [List.foldl_cons, List.foldl_nil]
    have hsplit : mag % 2 ^ (k + 1) = (mag / 2 ^ k % 2) * 2 ^ k + mag % 2 ^ k := LnsLemmas.split_bit mag k
    have htb := LnsLemmas.testBit_eq_div mag k
    by_cases hb : mag / 2 ^ k % 2 = 1
    · have htb' : mag.testBit k = true := by rw [htb]; simpa using hb
      rw [htb', if_pos rfl]
      have he : k + fmt.q - r = k + (fmt.q - r) := by omega
      have hsum : mag % 2 ^ k * 2 ^ (fmt.q - r) + 2 ^ (k + fmt.q - r) = mag % 2 ^ (k + 1) * 2 ^ (fmt.q - r) := by
        rw [hsplit, hb, he, Nat.pow_add]; ring
      have hlt : mag % 2 ^ (k + 1) * 2 ^ (fmt.q - r) < 2 ^ (k + 1 + (fmt.q - r)) := by
        rw [Nat.pow_add 2 (k + 1) (fmt.q - r)]
        exact Nat.mul_lt_mul_of_lt_of_le (Nat.mod_lt _ (Nat.two_pow_pos _)) (Nat.le_refl _) (Nat.two_pow_pos _)
      rw [add_fin_exact fmt hp _ _ (by rw [hsum]; exact isFloatN_mul_two_pow (hfl (k + 1) (Nat.le_refl _)) _)
        (by rw [hsum]; exact Nat.le_trans (size_le.2 hlt) hsz), hsum]
    · have hb0 : mag / 2 ^ k % 2 = 0 := by omega
      have htb' : mag.testBit k = false := by rw [htb]; simpa using hb
      rw [htb']
      simp only [Bool.false_eq_true, if_false]
      rw [hsplit, hb0, Nat.zero_mul, Nat.zero_add]

open F64 in
/-- `float(maxpos)` is exact when maxpos has at most p significant bits (nbits − 1 ≤ p) -/
theorem toNative_maxpos (fmt : Fmt) (hp : 1 ≤ fmt.p) (n r : Nat) (hn : 0 < n) (hr : r ≤ fmt.q) (hnp : n - 1 ≤ fmt.p)
    (hsz : n + (fmt.q - r) ≤ fmt.top) :
    ConvFixpnt.toNative fmt n r (ConvFixpnt.maxposP n) = F.fin false ((2 ^ (n - 1) - 1) * 2 ^ (fmt.q - r)) := by
  unfold ConvFixpnt.toNative ConvFixpnt.maxposP ConvFixpnt.signP
  have hA := Nat.two_pow_pos (n - 1)
  have hz : 2 ^ n = 2 ^ (n - 1) * 2 := by rw [← Nat.pow_succ]; congr 1; omega
  have hs : (2 ^ (n - 1) - 1).testBit (n - 1) = false := Nat.testBit_lt_two_pow (by omega)
  have hm : (2 ^ (n - 1) - 1) % 2 ^ n = 2 ^ (n - 1) - 1 := Nat.mod_eq_of_lt (by omega)
  simp only [hs, Bool.false_eq_true, if_false]
  rw [hm, toNative_fold fmt hp r (2 ^ (n - 1) - 1) hr n ?_ hsz, hm]
  intro j _
  apply isFloatN_of_lt
  have h1 : (2 ^ (n - 1) - 1) % 2 ^ j ≤ 2 ^ (n - 1) - 1 := Nat.mod_le _ _
  have h2 : 2 ^ (n - 1) ≤ 2 ^ fmt.p := Nat.pow_le_pow_right (by omega) hnp
  omega

open F64 in
/-- `float(maxneg)` is always exact (a power of two) -/
theorem toNative_maxneg (fmt : Fmt) (hp : 1 ≤ fmt.p) (n r : Nat) (hn : 0 < n) (hr : r ≤ fmt.q)
    (hsz : n + (fmt.q - r) ≤ fmt.top) :
    ConvFixpnt.toNative fmt n r (ConvFixpnt.maxnegP n) = F.fin true (2 ^ (n - 1) * 2 ^ (fmt.q - r)) := by
  unfold ConvFixpnt.toNative ConvFixpnt.maxnegP ConvFixpnt.signP
  have hA := Nat.two_pow_pos (n - 1)
  have hz : 2 ^ n = 2 ^ (n - 1) * 2 := by rw [← Nat.pow_succ]; congr 1; omega
  have hs : (2 ^ (n - 1)).testBit (n - 1) = true := Nat.testBit_two_pow_self
  have hlt : 2 ^ (n - 1) < 2 ^ n := by omega
  have hm : twosComp n (2 ^ (n - 1)) = 2 ^ (n - 1) := by
    unfold twosComp
    rw [Nat.mod_eq_of_lt hlt, Nat.mod_eq_of_lt (by omega)]; omega
  simp only [hs, if_true]
  rw [hm, toNative_fold fmt hp r (2 ^ (n - 1)) hr n ?_ hsz, Nat.mod_eq_of_lt hlt]
  · rfl
  intro j hj
  rcases Nat.lt_or_ge j n with hjl | hjg
  · have hd : 2 ^ j ∣ 2 ^ (n - 1) := Nat.pow_dvd_pow 2 (by omega)
    rw [Nat.mod_eq_zero_of_dvd hd]; exact isFloatN_zero _
  · have : j = n := by omega
    subst this
    rw [Nat.mod_eq_of_lt hlt]; exact isFloatN_two_pow _ _ hp

/-! ### monotonicity of `rne` against integers -/

theorem le_rne {z : Int} {q : Rat} (h : (z : Rat) ≤ q) : z ≤ rne q := by
  have hf : z ≤ q.floor := by
    show z ≤ ⌊q⌋
    exact Int.le_floor.mpr h
  unfold rne
  simp only
  split_ifs <;> omega

theorem rne_le {z : Int} {q : Rat} (h : q ≤ (z : Rat)) : rne q ≤ z := by
  rcases eq_or_lt_of_le h with he | hl
  · subst he
    have hfl : ((z : Rat)).floor = z := by
      show ⌊(z : Rat)⌋ = z
      exact Int.floor_intCast z
    unfold rne
    simp only [hfl, sub_self]
    norm_num
  · have hf : q.floor < z := by
      show ⌊q⌋ < z
      exact Int.floor_lt.mpr hl
    unfold rne
    simp only
    split_ifs <;> omega

/-! ### float / double sources, Saturate -/

open F64 in
/-- a normal finite source in Saturate mode: two comparisons against `float(maxpos)`, `float(maxneg)`, then the tail -/
theorem fromIeee_saturate_eq (n r ew fb bits : Nat) (hexp : 0 < (bits >>> fb) % 2 ^ ew)
    (hfin : (bits >>> fb) % 2 ^ ew < 2 ^ ew - 1) :
    ConvFixpnt.fromIeee n r true ew fb bits =
      (let s := bits.testBit (ew + fb)
       let fr := bits % 2 ^ fb + 2 ^ fb
       let e := (bits >>> fb) % 2 ^ ew
       let vR := ConvFixpnt.valUnits s (fr <<< (e - 1)) (Fmt.ieee (fb + 1) ew).q
       let fmp := ConvFixpnt.toNative binary32 n r (ConvFixpnt.maxposP n)
       let fmn := ConvFixpnt.toNative binary32 n r (ConvFixpnt.maxnegP n)
       if vR ≥ ConvFixpnt.valUnits fmp.sign fmp.mag binary32.q then ConvFixpnt.maxposP n
       else if vR ≤ ConvFixpnt.valUnits fmn.sign fmn.mag binary32.q then ConvFixpnt.maxnegP n
       else ieeeTail n fb s fr
        ((fb : Int) - ((((bits >>> fb) % 2 ^ ew : Nat) : Int) - (((2 ^ (ew - 1) : Nat) : Int) - 1)) - (r : Int))) := by
  unfold ConvFixpnt.fromIeee ieeeTail F64.ofBits
  have h2 : ¬ ((bits >>> fb) % 2 ^ ew = 2 ^ ew - 1) := by omega
  have h3 : ¬ ((bits >>> fb) % 2 ^ ew = 0) := by omega
  simp only [Nat.add_sub_cancel, h2, h3, if_false, false_and, decide_false, Bool.not_false, Bool.true_and, Bool.false_and,
    Bool.false_or, F.mag, gt_iff_lt, hexp, if_true, decide_eq_true_eq, Nat.add_comm (2 ^ fb) (bits % 2 ^ fb)]

open F64 in
/-- the source value as the model's range test sees it (`src.mag` units of 2^−q) is the exact value -/
theorem valUnits_eq_valOf (ew fb bits : Nat) (hew : 2 ≤ ew) (hexp : 0 < (bits >>> fb) % 2 ^ ew) :
    ConvFixpnt.valUnits (bits.testBit (ew + fb)) ((bits % 2 ^ fb + 2 ^ fb) <<< ((bits >>> fb) % 2 ^ ew - 1))
        (Fmt.ieee (fb + 1) ew).q = SpecF64.valOf (fb + 1) ew bits := by
  rw [valOf_normal ew fb bits hexp]
  unfold ConvFixpnt.valUnits sgnQ Fmt.ieee
  simp only
  generalize (bits >>> fb) % 2 ^ ew = e at hexp ⊢
  generalize bits % 2 ^ fb + 2 ^ fb = fr
  have h2 : 2 ≤ 2 ^ (ew - 1) := by
    have : 2 ^ 1 ≤ 2 ^ (ew - 1) := Nat.pow_le_pow_right (by omega) (by omega)
    simpa using this
  have hx : ((e : Int) - (((2 ^ (ew - 1) : Nat) : Int) - 1) - (fb : Int))
      = ((e - 1 : Nat) : Int) + -((2 ^ (ew - 1) + (fb + 1) - 3 : Nat) : Int) := by omega
  have hv : (fr : Rat) * pow2 ((e : Int) - (((2 ^ (ew - 1) : Nat) : Int) - 1) - (fb : Int))
      = ((fr <<< (e - 1) : Nat) : Rat) / ((2 ^ (2 ^ (ew - 1) + (fb + 1) - 3) : Nat) : Rat) := by
    rw [hx, pow2_add, pow2_natCast, ← mul_assoc, pow2_neg_nat, Nat.shiftLeft_eq]
    push_cast; ring
  rw [hv]
  cases bits.testBit (ew + fb)
  · simp only [Bool.false_eq_true, if_false]
  · simp only [if_true]; ring

theorem maxposZ_cast (n : Nat) : ((FixpntSpec.maxposZ n : Int) : Rat) = ((2 ^ (n - 1) - 1 : Nat) : Rat) := by
  unfold FixpntSpec.maxposZ
  rw [Nat.cast_sub (Nat.two_pow_pos (n - 1))]; push_cast; ring

theorem maxnegZ_cast (n : Nat) : ((FixpntSpec.maxnegZ n : Int) : Rat) = -((2 ^ (n - 1) : Nat) : Rat) := by
  unfold FixpntSpec.maxnegZ; push_cast; ring

theorem maxnegZ_lt_maxposZ (n : Nat) : FixpntSpec.maxnegZ n < FixpntSpec.maxposZ n := by
  unfold FixpntSpec.maxnegZ FixpntSpec.maxposZ
  have : (0 : Int) < ((2 ^ (n - 1) : Nat) : Int) := by exact_mod_cast Nat.two_pow_pos (n - 1)
  omega

open F64 in
/-- float / double → fixpnt, Saturate, nbits ≤ 25 (so that `float(maxpos)` is exact), normal finite source -/
theorem fromIeee_saturate (n r ew fb bits : Nat) (hn : 0 < n) (hn25 : n ≤ 25) (hr : r ≤ n) (hew : 2 ≤ ew)
    (hfb : fb + 1 < 64) (hexp : 0 < (bits >>> fb) % 2 ^ ew) (hfin : (bits >>> fb) % 2 ^ ew < 2 ^ ew - 1) :
    ConvFixpnt.fromIeee n r true ew fb bits = ConvFixpntSpec.fromRat n r true (SpecF64.valOf (fb + 1) ew bits) := by
  have hq : binary32.q = 149 := by decide
  have hp : binary32.p = 24 := by decide
  have htop : binary32.top = 277 := by decide
  rw [fromIeee_saturate_eq n r ew fb bits hexp hfin]
  simp only
  rw [valUnits_eq_valOf ew fb bits hew hexp,
    toNative_maxpos binary32 (by rw [hp]; omega) n r hn (by rw [hq]; omega) (by rw [hp]; omega) (by rw [hq, htop]; omega),
    toNative_maxneg binary32 (by rw [hp]; omega) n r hn (by rw [hq]; omega) (by rw [hq, htop]; omega),
    ieeeTail_valOf n r ew fb bits (by omega) hfb hexp, hq]
  unfold ConvFixpntSpec.fromRat FixpntSpec.finish ConvFixpnt.valUnits
  simp only [F.sign, F.mag, Bool.false_eq_true, if_false, if_true]
  generalize SpecF64.valOf (fb + 1) ew bits = x
  have hR : (0 : Rat) < ((2 ^ r : Nat) : Rat) := by exact_mod_cast Nat.two_pow_pos r
  have hsplit : ((2 ^ 149 : Nat) : Rat) = ((2 ^ (149 - r) : Nat) : Rat) * ((2 ^ r : Nat) : Rat) := by
    have : 2 ^ 149 = 2 ^ (149 - r) * 2 ^ r := by rw [← Nat.pow_add]; congr 1; omega
    rw [this]; push_cast; ring
  have hQ : (0 : Rat) < ((2 ^ (149 - r) : Nat) : Rat) := by exact_mod_cast Nat.two_pow_pos (149 - r)
  have hTP : (((2 ^ (n - 1) - 1) * 2 ^ (149 - r) : Nat) : Rat) / ((2 ^ 149 : Nat) : Rat)
      = ((2 ^ (n - 1) - 1 : Nat) : Rat) / ((2 ^ r : Nat) : Rat) := by
    rw [hsplit, Nat.cast_mul]; field_simp
  have hTN : -((2 ^ (n - 1) * 2 ^ (149 - r) : Nat) : Rat) / ((2 ^ 149 : Nat) : Rat)
      = -((2 ^ (n - 1) : Nat) : Rat) / ((2 ^ r : Nat) : Rat) := by
    rw [hsplit, Nat.cast_mul]; field_simp
  rw [hTP, hTN]
  by_cases hA : x ≥ ((2 ^ (n - 1) - 1 : Nat) : Rat) / ((2 ^ r : Nat) : Rat)
  · rw [if_pos hA]
    have hy : ((FixpntSpec.maxposZ n : Int) : Rat) ≤ x * ((2 ^ r : Nat) : Rat) := by
      rw [maxposZ_cast]; exact (div_le_iff₀ hR).mp hA
    rw [Fixpnt.clamp_le_maxpos (le_rne hy), ofSigned_maxposZ n hn]
  · rw [if_neg hA]
    have hy : x * ((2 ^ r : Nat) : Rat) ≤ ((FixpntSpec.maxposZ n : Int) : Rat) := by
      rw [maxposZ_cast]
      have := (lt_div_iff₀ hR).mp (lt_of_not_ge hA)
      exact le_of_lt this
    have hle := rne_le hy
    by_cases hB : x ≤ -((2 ^ (n - 1) : Nat) : Rat) / ((2 ^ r : Nat) : Rat)
    · rw [if_pos hB]
      have hy2 : x * ((2 ^ r : Nat) : Rat) ≤ ((FixpntSpec.maxnegZ n : Int) : Rat) := by
        rw [maxnegZ_cast]; exact (le_div_iff₀ hR).mp hB
      have hle2 := rne_le hy2
      have := maxnegZ_lt_maxposZ n
      rw [Fixpnt.clamp_le_maxneg (by omega) hle2, ofSigned_maxnegZ n hn]
    · rw [if_neg hB]
      have hy2 : ((FixpntSpec.maxnegZ n : Int) : Rat) ≤ x * ((2 ^ r : Nat) : Rat) := by
        rw [maxnegZ_cast]
        have := (div_lt_iff₀ hR).mp (lt_of_not_ge hB)
        exact le_of_lt this
      rw [Fixpnt.clamp_inside' (le_rne hy2) hle]

/-! ### zero and subnormal sources (Modulo) -/

/-- rawExponent = 0 (zero or subnormal source) and bias ≥ rbits + 2: the code returns 0 -/
theorem fromIeee_modulo_subnormal (n r ew fb bits : Nat) (hfb : fb + 1 < 64) (he : (bits >>> fb) % 2 ^ ew = 0)
    (hbias : r + 3 ≤ 2 ^ (ew - 1)) :
    ConvFixpnt.fromIeee n r false ew fb bits = 0 := by
  unfold ConvFixpnt.fromIeee
  simp only [Bool.false_and, Bool.false_eq_true, if_false, he, true_and, gt_iff_lt, Nat.lt_irrefl]
  split
  · rfl
  · rw [if_pos (by omega)]

/-- … and the exact value scaled by 2^rbits is below 1/2 in magnitude -/
theorem valOf_subnormal_round (r ew fb bits : Nat) (he : (bits >>> fb) % 2 ^ ew = 0) (hbias : r + 3 ≤ 2 ^ (ew - 1)) :
    rne (SpecF64.valOf (fb + 1) ew bits * ((2 ^ r : Nat) : Rat)) = 0 := by
  unfold SpecF64.valOf SpecF64.valMag SpecF64.magOf SpecF64.signOf SpecF64.eminQ dyadic
  simp only [Nat.add_sub_cancel]
  have hE : (bits % 2 ^ (fb + ew)) >>> fb = (bits >>> fb) % 2 ^ ew := by
    rw [Nat.shiftRight_eq_div_pow, Nat.shiftRight_eq_div_pow, Nat.pow_add, Nat.mod_mul_right_div_self]
  have hF : bits % 2 ^ (fb + ew) % 2 ^ fb = bits % 2 ^ fb :=
    Nat.mod_mod_of_dvd _ (Nat.pow_dvd_pow 2 (by omega))
  rw [hE, hF, if_pos he]
  obtain ⟨k, hk⟩ : ∃ k : Nat, (3 : Int) - ((2 ^ (ew - 1) : Nat) : Int) - ((fb + 1 : Nat) : Int) + (r : Int) = -(k : Int) ∧ fb + 1 ≤ k :=
    ⟨2 ^ (ew - 1) + fb - 2 - r, by omega, by omega⟩
  have hfr : 2 * (bits % 2 ^ fb) < 2 ^ k := by
    have h1 := Nat.mod_lt bits (Nat.two_pow_pos fb)
    have h2 : 2 ^ (fb + 1) ≤ 2 ^ k := Nat.pow_le_pow_right (by omega) hk.2
    rw [Nat.pow_succ] at h2; omega
  have hval : ∀ s : Bool, (if s = true then -((((bits % 2 ^ fb : Nat) : Int) : Rat) * pow2 (3 - ((2 ^ (ew - 1) : Nat) : Int) - ((fb + 1 : Nat) : Int)))
        else (((bits % 2 ^ fb : Nat) : Int) : Rat) * pow2 (3 - ((2 ^ (ew - 1) : Nat) : Int) - ((fb + 1 : Nat) : Int))) * ((2 ^ r : Nat) : Rat)
      = sgnQ s (((bits % 2 ^ fb : Nat) : Rat) / ((2 ^ k : Nat) : Rat)) := by
    intro s
    have : pow2 (3 - ((2 ^ (ew - 1) : Nat) : Int) - ((fb + 1 : Nat) : Int)) * ((2 ^ r : Nat) : Rat) = pow2 (-(k : Int)) := by
      rw [← pow2_natCast, ← pow2_add, hk.1]
    have h2 := pow2_neg_nat k ((bits % 2 ^ fb : Nat) : Rat)
    cases s
    · simp only [Bool.false_eq_true, if_false, sgnQ, Int.cast_natCast]; rw [mul_assoc, this, h2]
    · simp only [if_true, sgnQ, Int.cast_natCast]; rw [neg_mul, mul_assoc, this, h2]
  rw [hval, rne_sgn_div, rneShr_small hfr]
  cases bits.testBit (fb + ew) <;> simp [sgnZ]

/-- every FINITE source (zero, subnormal, normal), Modulo, nbits ≤ 64, bias ≥ rbits + 2 -/
theorem fromIeee_modulo_finite (n r ew fb bits : Nat) (hn : n ≤ 64) (hfb : fb + 1 < 64)
    (hbias : r + 3 ≤ 2 ^ (ew - 1)) :
    ConvFixpnt.fromIeee n r false ew fb bits = ConvFixpntSpec.fromRat n r false (SpecF64.valOf (fb + 1) ew bits) := by
  by_cases he : (bits >>> fb) % 2 ^ ew = 0
  · rw [fromIeee_modulo_subnormal n r ew fb bits hfb he hbias]
    unfold ConvFixpntSpec.fromRat FixpntSpec.finish
    simp only [Bool.false_eq_true, if_false]
    rw [valOf_subnormal_round r ew fb bits he hbias]
    simp [ofSigned]
  · exact fromIeee_modulo n r ew fb bits hn hfb (by omega)

/-! ### unsigned sources, Saturate -/

/-- `static_cast<unsigned>(maxpos)`: the raw pattern 2^(nbits−1) − 1, when it fits the source type -/
theorem uthresh_maxpos (n sz : Nat) (hn : 0 < n) (hn64 : n ≤ 64) (hfit : n - 1 ≤ sz) :
    ConvFixpnt.toUnsignedPat n sz (ConvFixpnt.maxposP n) = 2 ^ (n - 1) - 1 := by
  unfold ConvFixpnt.toUnsignedPat ConvFixpnt.toLongLong ConvFixpnt.maxposP
  have hA := Nat.two_pow_pos (n - 1)
  have h1 : 2 ^ (n - 1) ≤ 2 ^ sz := Nat.pow_le_pow_right (by omega) hfit
  have h2 : 2 ^ (n - 1) ≤ 2 ^ 64 := Nat.pow_le_pow_right (by omega) (by omega)
  split
  · rw [Integer.toSigned_small hn (by omega), ofSigned_natCast, Nat.mod_eq_of_lt (by omega), Nat.mod_eq_of_lt (by omega)]
  · rw [Nat.mod_eq_of_lt (by omega), Nat.mod_eq_of_lt (by omega)]

/-- Saturate, unsigned source at or above the raw maxpos pattern: maxpos, as the property demands -/
theorem fromUnsigned_saturate_top (n r sz v : Nat) (hn : 0 < n) (hn64 : n ≤ 64) (hfit : n - 1 ≤ sz)
    (hv : 2 ^ (n - 1) - 1 ≤ v) :
    ConvFixpnt.fromUnsigned n r true sz v = ConvFixpntSpec.fromInt n r true (v : Int) := by
  unfold ConvFixpnt.fromUnsigned ConvFixpntSpec.fromInt FixpntSpec.finish
  simp only [Bool.true_and, decide_eq_true_eq, if_true]
  have hP1 : (0 : Int) < ((2 ^ (n - 1) : Nat) : Int) := by exact_mod_cast Nat.two_pow_pos (n - 1)
  by_cases hv0 : v = 0
  · subst hv0
    rw [if_pos rfl, Nat.cast_zero, Int.zero_mul,
      Fixpnt.clamp_inside' (by unfold FixpntSpec.maxnegZ; omega) (by unfold FixpntSpec.maxposZ; omega)]
    simp [ofSigned]
  · rw [if_neg hv0, uthresh_maxpos n sz hn hn64 hfit, if_pos (by omega)]
    have hR : (1 : Int) ≤ ((2 ^ r : Nat) : Int) := by exact_mod_cast Nat.two_pow_pos r
    have hle : FixpntSpec.maxposZ n ≤ (v : Int) * ((2 ^ r : Nat) : Int) := by
      unfold FixpntSpec.maxposZ
      have h1 : ((2 ^ (n - 1) : Nat) : Int) - 1 ≤ (v : Int) := by omega
      have h2 : (v : Int) * 1 ≤ (v : Int) * ((2 ^ r : Nat) : Int) := Int.mul_le_mul_of_nonneg_left hR (by omega)
      omega
    rw [Fixpnt.clamp_le_maxpos hle, ofSigned_maxposZ n hn]

end UVerif.ConvFixpntLemmas
