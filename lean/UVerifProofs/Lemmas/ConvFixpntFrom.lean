/-
  UVerifProofs.Lemmas.ConvFixpntFrom — helper lemmas for the native → fixpnt conversions of
  UVerif.Model.ConvFixpnt (`fromSigned`, `fromUnsigned`, `fromIeee`) against UVerif.Spec.ConvFixpnt.
-/
import UVerif.Model.ConvFixpnt
import UVerif.Spec.ConvFixpnt
import UVerif.Spec.F64
import UVerifProofs.Lemmas.Signed
import UVerifProofs.Lemmas.Bits
import UVerifProofs.Lemmas.Pow2
import UVerifProofs.Lemmas.Rne
import UVerifProofs.Lemmas.LnsRound
import UVerifProofs.Lemmas.Fixpnt
import UVerifProofs.Lemmas.F64Round
import UVerifProofs.Lemmas.DDNorm
import Mathlib.Tactic.SplitIfs
import Mathlib.Tactic.NormNum
import Mathlib.Algebra.Order.Floor.Ring
import Mathlib.Data.Rat.Floor
import Mathlib.Tactic.Ring
import Mathlib.Tactic.Linarith
import Mathlib.Tactic.Positivity
import Mathlib.Tactic.FieldSimp
import Mathlib.Tactic.Push

set_option linter.unusedVariables false
set_option linter.unusedSimpArgs false

namespace UVerif.ConvFixpntLemmas
open UVerif

/-! ### patterns of negated / scaled naturals -/

/-- `twosComp n x` is the n-bit pattern of −x -/
theorem twosComp_eq_ofSigned (n x : Nat) : twosComp n x = ofSigned n (-(x : Int)) := by
  unfold twosComp
  rw [← ofSigned_neg n x]
  apply ofSigned_congr
  have h := (modEq_toSigned n x).dvd
  have e : -toSigned n x - -(x : Int) = (x : Int) - toSigned n x := by ring
  rw [e]; exact h

/-- copying the low `n − r` bits to position `r` is multiplication by 2^r modulo 2^n -/
theorem mod_shl_eq (n r a : Nat) (hr : r ≤ n) : (a % 2 ^ (n - r)) <<< r = (a * 2 ^ r) % 2 ^ n := by
  rw [Nat.shiftLeft_eq]
  have hp : 2 ^ n = 2 ^ (n - r) * 2 ^ r := by rw [← Nat.pow_add]; congr 1; omega
  rw [hp, Nat.mul_mod_mul_right]

/-- the bit-copy loop of the signed-integer conversion: the low min(sz, n − r) bits of an sz-bit magnitude -/
theorem copy_eq (n r sz a : Nat) (hr : r ≤ n) (ha : a < 2 ^ sz) :
    ((a % 2 ^ sz) % 2 ^ (min sz (n - r))) <<< r = (a * 2 ^ r) % 2 ^ n := by
  rw [Nat.mod_eq_of_lt ha]
  by_cases h : n - r ≤ sz
  · rw [Nat.min_eq_right h]; exact mod_shl_eq n r a hr
  · have h' : sz ≤ n - r := by omega
    rw [Nat.min_eq_left h', Nat.mod_eq_of_lt ha, Nat.shiftLeft_eq]
    have hlt : a * 2 ^ r < 2 ^ n := by
      have hp : 2 ^ n = 2 ^ (n - r) * 2 ^ r := by rw [← Nat.pow_add]; congr 1; omega
      rw [hp]
      exact Nat.mul_lt_mul_of_lt_of_le (Nat.lt_of_lt_of_le ha (Nat.pow_le_pow_right (by omega) h'))
        (Nat.le_refl _) (Nat.two_pow_pos r)
    rw [Nat.mod_eq_of_lt hlt]

theorem natAbs_lt_of_range {sz : Nat} {v : Int} (hsz : 0 < sz) (h1 : -((2 ^ (sz - 1) : Nat) : Int) ≤ v)
    (h2 : v < ((2 ^ (sz - 1) : Nat) : Int)) : v.natAbs < 2 ^ sz := by
  have hp : 2 ^ sz = 2 ^ (sz - 1) * 2 := by rw [← Nat.pow_succ]; congr 1; omega
  have h0 := Nat.two_pow_pos (sz - 1)
  omega

/-- Modulo result of the signed conversion (the bit-copy branch), any source width -/
theorem fromSigned_copy (n r sz : Nat) (v : Int) (hr : r ≤ n) (hsz : 0 < sz)
    (h1 : -((2 ^ (sz - 1) : Nat) : Int) ≤ v) (h2 : v < ((2 ^ (sz - 1) : Nat) : Int)) :
    (if v < 0 then twosComp n (((v.natAbs % 2 ^ sz) % 2 ^ (min sz (n - r))) <<< r)
      else ((v.natAbs % 2 ^ sz) % 2 ^ (min sz (n - r))) <<< r) = ofSigned n (v * ((2 ^ r : Nat) : Int)) := by
  have ha := natAbs_lt_of_range hsz h1 h2
  rw [copy_eq n r sz v.natAbs hr ha]
  by_cases hv : v < 0
  · rw [if_pos hv, twosComp_eq_ofSigned]
    apply ofSigned_congr
    have hm := (modEq_natMod (v.natAbs * 2 ^ r) n).dvd
    have e : (v.natAbs : Int) = -v := by omega
    have e3 : ((v.natAbs * 2 ^ r : Nat) : Int) = (v.natAbs : Int) * ((2 ^ r : Nat) : Int) := by push_cast; ring
    have : -((v.natAbs * 2 ^ r % 2 ^ n : Nat) : Int) - v * ((2 ^ r : Nat) : Int)
        = ((v.natAbs * 2 ^ r : Nat) : Int) - ((v.natAbs * 2 ^ r % 2 ^ n : Nat) : Int) := by
      rw [e3, e]; ring
    rw [this]
    exact hm
  · rw [if_neg hv]
    have e : v = (v.natAbs : Int) := by omega
    have e3 : v * ((2 ^ r : Nat) : Int) = ((v.natAbs * 2 ^ r : Nat) : Int) := by
      rw [Nat.cast_mul, ← e]
    rw [e3, ofSigned_natCast]

/-! ### the Saturate thresholds of the signed conversion: `static_cast<Arith>(maxpos)`, `static_cast<Arith>(maxneg)` -/

theorem pow_split {a b : Nat} (h : b ≤ a) : 2 ^ a = 2 ^ (a - b) * 2 ^ b := by
  rw [← Nat.pow_add]; congr 1; omega

theorem pow_pred_shr (m r : Nat) (h : r ≤ m) : (2 ^ m - 1) >>> r = 2 ^ (m - r) - 1 := by
  rw [Nat.shiftRight_eq_div_pow]
  have hp := pow_split h
  have hA := Nat.two_pow_pos (m - r)
  have hB := Nat.two_pow_pos r
  have hle : 2 ^ r ≤ 2 ^ (m - r) * 2 ^ r := Nat.le_mul_of_pos_left _ hA
  have hsub : (2 ^ (m - r) - 1) * 2 ^ r = 2 ^ (m - r) * 2 ^ r - 2 ^ r := by rw [Nat.sub_mul, Nat.one_mul]
  apply Nat.div_eq_of_lt_le
  · rw [hsub, hp]; omega
  · rw [Nat.sub_add_cancel hA, hp]; omega

/-- the pattern `static_cast<Arith>(maxpos)` when the integer part fits the source type: 2^(n−r−1) − 1 (maxpos is not negative:
    no sign extension, no truncation increment) -/
theorem pat_maxpos (n r sz : Nat) (hr : r < n) (h64 : n - r ≤ 64) (hfit : n - r ≤ sz) :
    ConvFixpnt.toSignedPat n r sz (ConvFixpnt.maxposP n) = 2 ^ (n - r - 1) - 1 := by
  unfold ConvFixpnt.toSignedPat ConvFixpnt.maxposP ConvFixpnt.signP
  have hA := Nat.two_pow_pos (n - r - 1)
  have hs : (2 ^ (n - 1) - 1).testBit (n - 1) = false := Nat.testBit_lt_two_pow (by have := Nat.two_pow_pos (n - 1); omega)
  have hk : n - 1 - r = n - r - 1 := by omega
  have hlt1 : 2 ^ (n - r - 1) - 1 < 2 ^ (n - r) := by
    have : 2 ^ (n - r - 1) ≤ 2 ^ (n - r) := Nat.pow_le_pow_right (by omega) (by omega)
    omega
  have hlt3 : 2 ^ (n - r - 1) - 1 < 2 ^ sz := by
    have : 2 ^ (n - r - 1) ≤ 2 ^ sz := Nat.pow_le_pow_right (by omega) (by omega)
    omega
  rw [if_neg (show ¬ n ≤ r by omega), hs]
  simp only [Bool.false_and, Bool.false_eq_true, if_false]
  rw [if_neg (show ¬ n - r > 64 by omega), pow_pred_shr (n - 1) r (by omega), hk, Nat.mod_eq_of_lt hlt1, Nat.mod_eq_of_lt hlt3]

/-- `int(maxpos)` when the integer part fits the source type: 2^(n−r−1) − 1 -/
theorem thresh_maxpos (n r sz : Nat) (hr : r < n) (h64 : n - r ≤ 64) (hfit : n - r ≤ sz) :
    toSigned sz (ConvFixpnt.toSignedPat n r sz (ConvFixpnt.maxposP n)) = ((2 ^ (n - r - 1) : Nat) : Int) - 1 := by
  have hA := Nat.two_pow_pos (n - r - 1)
  have hlt2 : 2 ^ (n - r - 1) - 1 < 2 ^ (sz - 1) := by
    have : 2 ^ (n - r - 1) ≤ 2 ^ (sz - 1) := Nat.pow_le_pow_right (by omega) (by omega)
    omega
  rw [pat_maxpos n r sz hr h64 hfit, Integer.toSigned_small (by omega) hlt2]
  omega

/-- `int(maxneg)` when the integer part fits the source type: −2^(n−r−1) -/
theorem thresh_maxneg (n r sz : Nat) (hr : r < n) (h64 : n - r ≤ 64) (hfit : n - r ≤ sz) :
    toSigned sz (ConvFixpnt.toSignedPat n r sz (ConvFixpnt.maxnegP n)) = -((2 ^ (n - r - 1) : Nat) : Int) := by
  unfold ConvFixpnt.toSignedPat ConvFixpnt.maxnegP ConvFixpnt.signP
  have hA := Nat.two_pow_pos (n - r - 1)
  have hs : (2 ^ (n - 1)).testBit (n - 1) = true := Nat.testBit_two_pow_self
  have hk : n - 1 - r = n - r - 1 := by omega
  have hsh : 2 ^ (n - 1) >>> r = 2 ^ (n - r - 1) := by
    rw [Nat.shiftRight_eq_div_pow, Nat.pow_div (by omega) (by omega), hk]
  have hd : 2 ^ (n - r) = 2 ^ (n - r - 1) * 2 := by rw [← Nat.pow_succ]; congr 1; omega
  have hz : 2 ^ sz = 2 ^ (sz - 1) * 2 := by rw [← Nat.pow_succ]; congr 1; omega
  have hlt1 : 2 ^ (n - r - 1) < 2 ^ (n - r) := by omega
  have hle : 2 ^ (n - r) ≤ 2 ^ sz := Nat.pow_le_pow_right (by omega) hfit
  have hfr : 2 ^ (n - 1) % 2 ^ r = 0 := Nat.mod_eq_zero_of_dvd (Nat.pow_dvd_pow 2 (by omega))
  rw [if_neg (show ¬ n ≤ r by omega), hs, if_neg (show ¬ n - r > 64 by omega), hsh, hfr]
  simp only [ne_eq, not_true_eq_false, decide_false, Bool.and_false, Bool.false_eq_true, if_false]
  rw [Nat.mod_eq_of_lt hlt1, Nat.mod_eq_of_lt (show 2 ^ (n - r - 1) < 2 ^ sz by omega)]
  by_cases hlt : n < sz + r
  · have hdec : decide (n < sz + r) = true := by simpa using hlt
    rw [hdec]
    simp only [Bool.and_self, if_true]
    have hle2 : 2 ^ (n - r) ≤ 2 ^ (sz - 1) := Nat.pow_le_pow_right (by omega) (by omega)
    have hfac : 2 ^ sz - 2 ^ (n - r) = 2 ^ (n - r) * (2 ^ (sz - (n - r)) - 1) := by
      rw [Nat.mul_sub, Nat.mul_one, ← Nat.pow_add]; congr 2; omega
    have hor : 2 ^ (n - r - 1) ||| (2 ^ sz - 2 ^ (n - r)) = 2 ^ sz - 2 ^ (n - r) + 2 ^ (n - r - 1) := by
      rw [hfac, Nat.or_comm]; exact (Nat.two_pow_add_eq_or_of_lt hlt1 _).symm
    rw [hor, Limbs.toSigned_of_lt (by omega) (by omega), if_neg (by omega)]
    omega
  · have hdec : decide (n < sz + r) = false := by simpa using hlt
    rw [hdec]
    simp only [Bool.and_false, Bool.false_eq_true, if_false]
    have hsz : sz = n - r := by omega
    rw [Limbs.toSigned_of_lt (by omega) (by omega), if_neg (by rw [hsz]; omega), hsz]
    omega

/-- when nbits = rbits there is no integer part: both thresholds are 0 -/
theorem thresh_zero (n sz p : Nat) : toSigned sz (ConvFixpnt.toSignedPat n n sz p) = 0 := by
  unfold ConvFixpnt.toSignedPat
  rw [if_pos (Nat.le_refl n)]
  unfold toSigned
  split
  · rfl
  · simp [Nat.zero_mod, Nat.two_pow_pos]

theorem ofSigned_maxposZ (n : Nat) (hn : 0 < n) : ofSigned n (FixpntSpec.maxposZ n) = ConvFixpnt.maxposP n := by
  unfold FixpntSpec.maxposZ ConvFixpnt.maxposP
  have hA := Nat.two_pow_pos (n - 1)
  have hz : 2 ^ n = 2 ^ (n - 1) * 2 := by rw [← Nat.pow_succ]; congr 1; omega
  have e : (((2 ^ (n - 1) : Nat) : Int) - 1) = ((2 ^ (n - 1) - 1 : Nat) : Int) := by omega
  rw [e, ofSigned_natCast, Nat.mod_eq_of_lt (by omega)]

theorem ofSigned_maxnegZ (n : Nat) (hn : 0 < n) : ofSigned n (FixpntSpec.maxnegZ n) = ConvFixpnt.maxnegP n := by
  unfold FixpntSpec.maxnegZ ConvFixpnt.maxnegP
  have hA := Nat.two_pow_pos (n - 1)
  have hz : 2 ^ n = 2 ^ (n - 1) * 2 := by rw [← Nat.pow_succ]; congr 1; omega
  have hc : ofSigned n (-((2 ^ (n - 1) : Nat) : Int)) = ofSigned n (((2 ^ (n - 1) : Nat) : Int)) := by
    apply ofSigned_congr
    refine ⟨-1, ?_⟩
    rw [hz]; push_cast; ring
  rw [hc, ofSigned_natCast, Nat.mod_eq_of_lt (by omega)]

theorem fromSigned_modulo (n r sz : Nat) (v : Int) (hr : r ≤ n) (hsz : 0 < sz)
    (h1 : -((2 ^ (sz - 1) : Nat) : Int) ≤ v) (h2 : v < ((2 ^ (sz - 1) : Nat) : Int)) :
    ConvFixpnt.fromSigned n r false sz v = ConvFixpntSpec.fromInt n r false v := by
  unfold ConvFixpnt.fromSigned ConvFixpntSpec.fromInt FixpntSpec.finish
  simp only [Bool.false_and, Bool.false_eq_true, if_false]
  by_cases hv0 : v = 0
  · subst hv0; simp [ofSigned]
  · rw [if_neg hv0]
    exact fromSigned_copy n r sz v hr hsz h1 h2

theorem maxposZ_eq (n r : Nat) (hr : r < n) :
    FixpntSpec.maxposZ n = ((2 ^ (n - r - 1) : Nat) : Int) * ((2 ^ r : Nat) : Int) - 1 := by
  unfold FixpntSpec.maxposZ
  have : 2 ^ (n - 1) = 2 ^ (n - r - 1) * 2 ^ r := by rw [← Nat.pow_add]; congr 1; omega
  rw [this]; push_cast; ring

theorem maxnegZ_eq (n r : Nat) (hr : r < n) :
    FixpntSpec.maxnegZ n = -(((2 ^ (n - r - 1) : Nat) : Int) * ((2 ^ r : Nat) : Int)) := by
  unfold FixpntSpec.maxnegZ
  have : 2 ^ (n - 1) = 2 ^ (n - r - 1) * 2 ^ r := by rw [← Nat.pow_add]; congr 1; omega
  rw [this]; push_cast; ring

theorem maxnegZ_lt_maxposZ' (n : Nat) : FixpntSpec.maxnegZ n < FixpntSpec.maxposZ n := by
  unfold FixpntSpec.maxnegZ FixpntSpec.maxposZ
  have : (0 : Int) < ((2 ^ (n - 1) : Nat) : Int) := by exact_mod_cast Nat.two_pow_pos (n - 1)
  omega

/-- Saturate, signed source of a native type (at most 64 bits): the clamp of `v · 2^rbits`, for EVERY value of the type.
    When the integer part of the target is wider than the source type the range test is not compiled and every value fits. -/
theorem fromSigned_saturate (n r sz : Nat) (v : Int) (hn : 0 < n) (hr : r ≤ n) (hsz : 0 < sz) (hsz64 : sz ≤ 64)
    (h1 : -((2 ^ (sz - 1) : Nat) : Int) ≤ v) (h2 : v < ((2 ^ (sz - 1) : Nat) : Int)) :
    ConvFixpnt.fromSigned n r true sz v = ConvFixpntSpec.fromInt n r true v := by
  unfold ConvFixpnt.fromSigned ConvFixpntSpec.fromInt FixpntSpec.finish
  simp only [Bool.true_and, Bool.and_eq_true, decide_eq_true_eq, if_true]
  have hP1 : (0 : Int) < ((2 ^ (n - 1) : Nat) : Int) := by exact_mod_cast Nat.two_pow_pos (n - 1)
  by_cases hv0 : v = 0
  · subst hv0
    rw [if_pos rfl, Int.zero_mul, Fixpnt.clamp_inside' (by unfold FixpntSpec.maxnegZ; omega) (by unfold FixpntSpec.maxposZ; omega)]
    simp [ofSigned]
  rw [if_neg hv0]
  have hR : (0 : Int) < ((2 ^ r : Nat) : Int) := by exact_mod_cast Nat.two_pow_pos r
  by_cases hfit : n - r ≤ sz
  · have h64 : n - r ≤ 64 := by omega
    rcases Nat.lt_or_ge r n with hlt | hge
    · -- there is an integer part
      rw [thresh_maxpos n r sz hlt h64 hfit, thresh_maxneg n r sz hlt h64 hfit]
      have hK : (0 : Int) < ((2 ^ (n - r - 1) : Nat) : Int) := by exact_mod_cast Nat.two_pow_pos (n - r - 1)
      have emp := maxposZ_eq n r hlt
      have emn := maxnegZ_eq n r hlt
      by_cases hA : v > ((2 ^ (n - r - 1) : Nat) : Int) - 1
      · rw [if_pos ⟨hfit, hA⟩]
        have hle : FixpntSpec.maxposZ n ≤ v * ((2 ^ r : Nat) : Int) := by
          rw [emp]
          have := Int.mul_le_mul_of_nonneg_right (show ((2 ^ (n - r - 1) : Nat) : Int) ≤ v by omega) (Int.le_of_lt hR)
          omega
        rw [Fixpnt.clamp_le_maxpos hle, ofSigned_maxposZ n hn]
      · rw [if_neg (fun h => hA h.2)]
        have hlt' : v * ((2 ^ r : Nat) : Int) ≤ (((2 ^ (n - r - 1) : Nat) : Int) - 1) * ((2 ^ r : Nat) : Int) :=
          Int.mul_le_mul_of_nonneg_right (by omega) (Int.le_of_lt hR)
        have hin : v * ((2 ^ r : Nat) : Int) ≤ FixpntSpec.maxposZ n := by
          rw [emp]; rw [Int.sub_mul, Int.one_mul] at hlt'; omega
        by_cases hC : v ≤ -((2 ^ (n - r - 1) : Nat) : Int)
        · rw [if_pos ⟨hfit, hC⟩]
          have hle : v * ((2 ^ r : Nat) : Int) ≤ FixpntSpec.maxnegZ n := by
            rw [emn]
            have := Int.mul_le_mul_of_nonneg_right hC (Int.le_of_lt hR)
            rw [Int.neg_mul] at this
            exact this
          have hnp : ¬ FixpntSpec.maxposZ n ≤ v * ((2 ^ r : Nat) : Int) := by
            have := maxnegZ_lt_maxposZ' n; omega
          rw [Fixpnt.clamp_le_maxneg hnp hle, ofSigned_maxnegZ n hn]
        · rw [if_neg (fun h => hC h.2)]
          have hge' : (-((2 ^ (n - r - 1) : Nat) : Int) + 1) * ((2 ^ r : Nat) : Int) ≤ v * ((2 ^ r : Nat) : Int) :=
            Int.mul_le_mul_of_nonneg_right (by omega) (Int.le_of_lt hR)
          have hge2 : FixpntSpec.maxnegZ n ≤ v * ((2 ^ r : Nat) : Int) := by
            rw [emn]; rw [Int.add_mul, Int.neg_mul, Int.one_mul] at hge'; omega
          rw [Fixpnt.clamp_inside' hge2 hin]
          exact fromSigned_copy n r sz v hr hsz h1 h2
    · -- nbits = rbits: every non-zero integer is out of range
      have hrn : r = n := by omega
      subst hrn
      rw [thresh_zero, thresh_zero]
      have hz : 2 ^ r = 2 ^ (r - 1) * 2 := by rw [← Nat.pow_succ]; congr 1; omega
      have hzi : ((2 ^ r : Nat) : Int) = ((2 ^ (r - 1) : Nat) : Int) * 2 := by rw [hz]; push_cast; ring
      by_cases hA : v > 0
      · rw [if_pos ⟨hfit, hA⟩]
        have hle : FixpntSpec.maxposZ r ≤ v * ((2 ^ r : Nat) : Int) := by
          unfold FixpntSpec.maxposZ
          have := Int.mul_le_mul_of_nonneg_right (show (1 : Int) ≤ v by omega) (Int.le_of_lt hR)
          omega
        rw [Fixpnt.clamp_le_maxpos hle, ofSigned_maxposZ r hn]
      · rw [if_neg (fun h => hA h.2), if_pos ⟨hfit, by omega⟩]
        have hm := Int.mul_le_mul_of_nonneg_right (show v ≤ -1 by omega) (Int.le_of_lt hR)
        have hnp : ¬ FixpntSpec.maxposZ r ≤ v * ((2 ^ r : Nat) : Int) := by
          unfold FixpntSpec.maxposZ; omega
        have hle : v * ((2 ^ r : Nat) : Int) ≤ FixpntSpec.maxnegZ r := by
          unfold FixpntSpec.maxnegZ; omega
        rw [Fixpnt.clamp_le_maxneg hnp hle, ofSigned_maxnegZ r hn]
  · -- the integer part of the target is wider than the source type: no range test, and every value of the type is in range
    rw [if_neg (fun h => hfit h.1), if_neg (fun h => hfit h.1)]
    have hlt : r < n := by omega
    have hpw : ((2 ^ (sz - 1) : Nat) : Int) * 2 ≤ ((2 ^ (n - r - 1) : Nat) : Int) := by
      have : 2 ^ (sz - 1) * 2 ≤ 2 ^ (n - r - 1) := by
        rw [← Nat.pow_succ]; exact Nat.pow_le_pow_right (by omega) (by omega)
      exact_mod_cast this
    have hS : (0 : Int) < ((2 ^ (sz - 1) : Nat) : Int) := by exact_mod_cast Nat.two_pow_pos (sz - 1)
    have emp := maxposZ_eq n r hlt
    have emn := maxnegZ_eq n r hlt
    have hup : v * ((2 ^ r : Nat) : Int) ≤ (((2 ^ (n - r - 1) : Nat) : Int) - 1) * ((2 ^ r : Nat) : Int) :=
      Int.mul_le_mul_of_nonneg_right (by omega) (Int.le_of_lt hR)
    have hlo : (-((2 ^ (n - r - 1) : Nat) : Int)) * ((2 ^ r : Nat) : Int) ≤ v * ((2 ^ r : Nat) : Int) :=
      Int.mul_le_mul_of_nonneg_right (by omega) (Int.le_of_lt hR)
    have hin : v * ((2 ^ r : Nat) : Int) ≤ FixpntSpec.maxposZ n := by
      rw [emp]; rw [Int.sub_mul, Int.one_mul] at hup; omega
    have hge2 : FixpntSpec.maxnegZ n ≤ v * ((2 ^ r : Nat) : Int) := by
      rw [emn]; rw [Int.neg_mul] at hlo; exact hlo
    rw [Fixpnt.clamp_inside' hge2 hin]
    exact fromSigned_copy n r sz v hr hsz h1 h2

/-- unsigned source, Modulo, integer part at most 64 bits -/
theorem fromUnsigned_modulo (n r sz v : Nat) (hr : r ≤ n) (h64 : n - r ≤ 64) :
    ConvFixpnt.fromUnsigned n r false sz v = ConvFixpntSpec.fromInt n r false (v : Int) := by
  unfold ConvFixpnt.fromUnsigned ConvFixpntSpec.fromInt FixpntSpec.finish
  simp only [Bool.false_and, Bool.false_eq_true, if_false]
  by_cases hv0 : v = 0
  · subst hv0; simp [ofSigned]
  · rw [if_neg hv0, if_pos h64, mod_shl_eq n r v hr]
    have e : (v : Int) * ((2 ^ r : Nat) : Int) = ((v * 2 ^ r : Nat) : Int) := by push_cast; ring
    rw [e, ofSigned_natCast]

/-! ### float / double sources -/

/-- the rounding / shifting tail of `convert<float|double>`; `d` = radixPoint − rbits, the (signed) number of source
    fraction bits below the target's least significant bit -/
def ieeeTail (n fb : Nat) (sat s : Bool) (fraction : Nat) (d : Int) : Nat :=
  let shiftRight : Int := min d 64
  if shiftRight > (fb : Int) + 1 then 0
  else if shiftRight > 0 then
    let x := ConvFixpnt.setbits64 n (Lns.Model.roundGRS fraction shiftRight.toNat)
    let y := if s then twosComp n x else x
    if sat && !s && ConvFixpnt.signP n y then ConvFixpnt.maxposP n else y
  else
    let sl := (-shiftRight).toNat
    if sl < 64 - fb then
      let x := ConvFixpnt.setbits64 n (fraction <<< sl)
      if s then twosComp n x else x
    else
      let x := (fraction <<< sl) % 2 ^ n
      if s then twosComp n x else x

/-- a normal source in Modulo mode reaches the tail -/
theorem fromIeee_modulo_eq_tail (n r ew fb bits : Nat) (hexp : 0 < (bits >>> fb) % 2 ^ ew) :
    ConvFixpnt.fromIeee n r false ew fb bits =
      ieeeTail n fb false (bits.testBit (ew + fb)) (bits % 2 ^ fb + 2 ^ fb)
        ((fb : Int) - ((((bits >>> fb) % 2 ^ ew : Nat) : Int) - (((2 ^ (ew - 1) : Nat) : Int) - 1)) - (r : Int)) := by
  unfold ConvFixpnt.fromIeee ieeeTail
  simp only [Bool.false_and, Bool.false_eq_true, if_false]
  rw [if_neg (by omega)]
  simp only [gt_iff_lt, hexp, if_true]

def sgnQ (s : Bool) (q : Rat) : Rat := if s then -q else q
def sgnZ (s : Bool) (z : Int) : Int := if s then -z else z

theorem rneShr_zero (x : Nat) : rneShr x 0 = x := by
  simp [rneShr, Nat.mod_one]

theorem rneShr_small {x k : Nat} (h : 2 * x < 2 ^ k) : rneShr x k = 0 := by
  have hx : x < 2 ^ k := by omega
  unfold rneShr
  rw [Nat.shiftRight_eq_div_pow, Nat.div_eq_of_lt hx, Nat.mod_eq_of_lt hx]
  simp [h]

theorem rne_sgn_div (s : Bool) (x k : Nat) :
    rne (sgnQ s ((x : Rat) / ((2 ^ k : Nat) : Rat))) = sgnZ s (rneShr x k) := by
  cases s
  · simp only [sgnQ, sgnZ, Bool.false_eq_true, if_false]
    exact LnsLemmas.rne_div_two_pow x k
  · simp only [sgnQ, sgnZ, if_true]
    have h := rne_neg_div x (2 ^ k) (Nat.two_pow_pos k)
    have e : -((x : Rat) / ((2 ^ k : Nat) : Rat)) = (((-(x : Int) : Int)) : Rat) / ((2 ^ k : Nat) : Rat) := by
      push_cast; ring
    rw [e, h]
    have := LnsLemmas.rne_div_two_pow x k
    rw [Int.cast_natCast, this]

theorem ofSigned_mod (n m : Nat) (z : Int) (h : n ≤ m) : ofSigned m z % 2 ^ n = ofSigned n z := by
  apply eq_ofSigned_of_modEq (Nat.mod_lt _ (Nat.two_pow_pos n))
  exact (modEq_natMod (ofSigned m z) n).trans (modEq_of_le h (modEq_ofSigned m z))

/-- `setbits(uint64_t)` of a word that fits 64 bits: the low nbits bits, any nbits -/
theorem setbits64_small (n q : Nat) (hq : q < 2 ^ 64) : ConvFixpnt.setbits64 n q = q % 2 ^ n := by
  unfold ConvFixpnt.setbits64; rw [Nat.mod_eq_of_lt hq]

theorem rneShr_le_succ (x k : Nat) : rneShr x k ≤ x >>> k + 1 := by
  unfold rneShr; simp only; split_ifs <;> omega

/-- bit projection + `twosComplement()` in nbits: the pattern of ±X, any nbits -/
theorem project_neg (n X : Nat) (s : Bool) :
    (if s then twosComp n (X % 2 ^ n) else X % 2 ^ n) = ofSigned n (sgnZ s (X : Int)) := by
  cases s
  · simp only [Bool.false_eq_true, if_false, sgnZ]
    rw [ofSigned_natCast]
  · simp only [if_true, sgnZ]
    rw [twosComp_eq_ofSigned]
    apply ofSigned_congr
    have h := (modEq_natMod X n).dvd
    have e : -((X % 2 ^ n : Nat) : Int) - -(X : Int) = (X : Int) - ((X % 2 ^ n : Nat) : Int) := by ring
    rw [e]; exact h

theorem pow2_neg_nat (k : Nat) (x : Rat) : x * pow2 (-(k : Int)) = x / ((2 ^ k : Nat) : Rat) := by
  rw [pow2_eq_zpow, zpow_neg, zpow_natCast, div_eq_mul_inv]; push_cast; rfl

/-- the Modulo tail computes the source scaled by 2^rbits, rounded to nearest (ties to even), modulo 2^nbits — EVERY nbits
    (`setbits(uint64_t)` of the magnitude, then `twosComplement()` in all nbits) -/
theorem ieeeTail_spec (n fb : Nat) (s : Bool) (fr : Nat) (d : Int) (hfb : fb + 1 < 64) (hfr : fr < 2 ^ (fb + 1)) :
    ieeeTail n fb false s fr d = ofSigned n (rne (sgnQ s ((fr : Rat) * pow2 (-d)))) := by
  unfold ieeeTail
  simp only [Bool.false_and, Bool.false_eq_true, if_false]
  have hfr63 : fr < 2 ^ 63 := Nat.lt_of_lt_of_le hfr (Nat.pow_le_pow_right (by omega) (by omega))
  by_cases hA : min d 64 > (fb : Int) + 1
  · rw [if_pos hA]
    obtain ⟨k, rfl⟩ : ∃ k : Nat, d = (k : Int) := ⟨d.toNat, by omega⟩
    have hk : fb + 2 ≤ k := by omega
    have hsm : 2 * fr < 2 ^ k := by
      have : 2 ^ (fb + 2) ≤ 2 ^ k := Nat.pow_le_pow_right (by omega) hk
      have e : 2 ^ (fb + 2) = 2 * 2 ^ (fb + 1) := by rw [Nat.pow_succ]; ring
      omega
    rw [pow2_neg_nat, rne_sgn_div, rneShr_small hsm]
    cases s <;> simp [sgnZ, ofSigned]
  · rw [if_neg hA]
    by_cases hB : min d 64 > 0
    · rw [if_pos hB]
      obtain ⟨k, rfl⟩ : ∃ k : Nat, d = (k : Int) := ⟨d.toNat, by omega⟩
      have hk : 1 ≤ k := by omega
      have hmin : (min (k : Int) 64).toNat = k := by omega
      have hq64 : rneShr fr k < 2 ^ 64 := by
        have h1 := rneShr_le_succ fr k
        have h2 : fr >>> k ≤ fr := by rw [Nat.shiftRight_eq_div_pow]; exact Nat.div_le_self _ _
        have h3 : (2 : Nat) ^ 63 < 2 ^ 64 := Nat.pow_lt_pow_right (by omega) (by omega)
        omega
      rw [hmin, LnsLemmas.roundGRS_eq_rneShr fr k hk, setbits64_small n _ hq64, project_neg n _ s, pow2_neg_nat, rne_sgn_div]
    · rw [if_neg hB]
      obtain ⟨sl, rfl⟩ : ∃ sl : Nat, d = -(sl : Int) := ⟨(-d).toNat, by omega⟩
      have hmin : (-(min (-(sl : Int)) 64)).toNat = sl := by omega
      have hval : rne (sgnQ s ((fr : Rat) * pow2 (-(-(sl : Int))))) = sgnZ s ((fr <<< sl : Nat) : Int) := by
        have e : (fr : Rat) * pow2 (-(-(sl : Int))) = ((fr <<< sl : Nat) : Rat) / ((2 ^ 0 : Nat) : Rat) := by
          rw [Int.neg_neg, pow2_natCast, Nat.shiftLeft_eq]; push_cast; ring
        rw [e, rne_sgn_div, rneShr_zero]
      rw [hmin, hval]
      by_cases hC : sl < 64 - fb
      · rw [if_pos hC]
        have hlt : fr <<< sl < 2 ^ 64 := by
          rw [Nat.shiftLeft_eq]
          have h1 : fr * 2 ^ sl < 2 ^ (fb + 1) * 2 ^ sl := Nat.mul_lt_mul_of_pos_right hfr (Nat.two_pow_pos sl)
          have h2 : 2 ^ (fb + 1) * 2 ^ sl ≤ 2 ^ 64 := by rw [← Nat.pow_add]; exact Nat.pow_le_pow_right (by omega) (by omega)
          omega
        rw [setbits64_small n _ hlt]
        exact project_neg n (fr <<< sl) s
      · rw [if_neg hC]
        exact project_neg n (fr <<< sl) s

/-- the Saturate tail is the Modulo tail, except that in the rounding branch a positive source whose result has the sign bit
    set (`if (!s && f.sign()) f.maxpos();`) gives maxpos -/
theorem ieeeTail_sat_eq (n fb : Nat) (s : Bool) (fr : Nat) (d : Int) :
    ieeeTail n fb true s fr d =
      if (¬ min d 64 > (fb : Int) + 1 ∧ min d 64 > 0) ∧ s = false ∧ ConvFixpnt.signP n (ieeeTail n fb false s fr d) = true
      then ConvFixpnt.maxposP n else ieeeTail n fb false s fr d := by
  unfold ieeeTail
  simp only [Bool.false_and, Bool.false_eq_true, if_false, Bool.true_and]
  by_cases hA : min d 64 > (fb : Int) + 1
  · simp [hA]
  · by_cases hB : min d 64 > 0
    · cases s <;> simp [hA, hB]
    · simp [hA, hB]

/-- outside the rounding branch the scaled source is 0 after rounding or an integer: a strict integer bound survives rounding -/
theorem rne_lt_of_not_round (fb fr : Nat) (d : Int) (hfr : fr < 2 ^ (fb + 1)) (B : Int) (hB : 0 < B)
    (hnb : ¬ (¬ min d 64 > (fb : Int) + 1 ∧ min d 64 > 0))
    (hQ : (fr : Rat) * pow2 (-d) < (B : Rat)) : rne ((fr : Rat) * pow2 (-d)) < B := by
  by_cases hA : min d 64 > (fb : Int) + 1
  · obtain ⟨k, rfl⟩ : ∃ k : Nat, d = (k : Int) := ⟨d.toNat, by omega⟩
    have hk : fb + 2 ≤ k := by omega
    have hsm : 2 * fr < 2 ^ k := by
      have : 2 ^ (fb + 2) ≤ 2 ^ k := Nat.pow_le_pow_right (by omega) hk
      have e : 2 ^ (fb + 2) = 2 * 2 ^ (fb + 1) := by rw [Nat.pow_succ]; ring
      omega
    rw [pow2_neg_nat, LnsLemmas.rne_div_two_pow, rneShr_small hsm]
    exact_mod_cast hB
  · have hd : min d 64 ≤ 0 := by
      by_contra hc
      exact hnb ⟨hA, by omega⟩
    obtain ⟨sl, rfl⟩ : ∃ sl : Nat, d = -(sl : Int) := ⟨(-d).toNat, by omega⟩
    have e : (fr : Rat) * pow2 (-(-(sl : Int))) = ((fr <<< sl : Nat) : Rat) / ((2 ^ 0 : Nat) : Rat) := by
      rw [Int.neg_neg, pow2_natCast, Nat.shiftLeft_eq]; push_cast; ring
    rw [e, LnsLemmas.rne_div_two_pow, rneShr_zero]
    rw [e] at hQ
    generalize fr <<< sl = m at hQ ⊢
    have hm : ((m : Nat) : Rat) < (B : Rat) := by
      have : ((m : Nat) : Rat) / ((2 ^ 0 : Nat) : Rat) = (m : Rat) := by push_cast; ring
      rw [this] at hQ; exact hQ
    have : ((m : Int) : Rat) < (B : Rat) := by push_cast; exact hm
    exact_mod_cast this

theorem sgnQ_mul (s : Bool) (a c : Rat) : sgnQ s a * c = sgnQ s (a * c) := by
  cases s <;> simp [sgnQ]

/-- the textbook value of a normal pattern: (−1)^s · (2^fb + fraction) · 2^(exponent − bias − fb) -/
theorem valOf_normal (ew fb bits : Nat) (hexp : 0 < (bits >>> fb) % 2 ^ ew) :
    SpecF64.valOf (fb + 1) ew bits =
      sgnQ (bits.testBit (ew + fb)) (((bits % 2 ^ fb + 2 ^ fb : Nat) : Rat) *
        pow2 ((((bits >>> fb) % 2 ^ ew : Nat) : Int) - (((2 ^ (ew - 1) : Nat) : Int) - 1) - (fb : Int))) := by
  unfold SpecF64.valOf SpecF64.valMag SpecF64.magOf SpecF64.signOf SpecF64.eminQ dyadic sgnQ
  simp only [Nat.add_sub_cancel]
  have hE : (bits % 2 ^ (fb + ew)) >>> fb = (bits >>> fb) % 2 ^ ew := by
    rw [Nat.shiftRight_eq_div_pow, Nat.shiftRight_eq_div_pow, Nat.pow_add, Nat.mod_mul_right_div_self]
  have hF : bits % 2 ^ (fb + ew) % 2 ^ fb = bits % 2 ^ fb :=
    Nat.mod_mod_of_dvd _ (Nat.pow_dvd_pow 2 (by omega))
  rw [hE, hF, if_neg (show ¬ ((bits >>> fb) % 2 ^ ew = 0) by omega), Nat.add_comm fb ew]
  have hx : (3 : Int) - ((2 ^ (ew - 1) : Nat) : Int) - ((fb + 1 : Nat) : Int) + (((bits >>> fb) % 2 ^ ew : Nat) : Int) - 1
      = (((bits >>> fb) % 2 ^ ew : Nat) : Int) - (((2 ^ (ew - 1) : Nat) : Int) - 1) - (fb : Int) := by
    push_cast; ring
  rw [hx, Nat.add_comm (2 ^ fb) (bits % 2 ^ fb)]
  push_cast
  rfl

/-- the scaled exact value of a normal source in terms of the decoded fields the tail works on -/
theorem valOf_scaled (r ew fb bits : Nat) (hexp : 0 < (bits >>> fb) % 2 ^ ew) :
    SpecF64.valOf (fb + 1) ew bits * ((2 ^ r : Nat) : Rat) =
      sgnQ (bits.testBit (ew + fb)) (((bits % 2 ^ fb + 2 ^ fb : Nat) : Rat) *
        pow2 (-((fb : Int) - ((((bits >>> fb) % 2 ^ ew : Nat) : Int) - (((2 ^ (ew - 1) : Nat) : Int) - 1)) - (r : Int)))) := by
  rw [valOf_normal ew fb bits hexp]
  rw [sgnQ_mul, mul_assoc, ← pow2_natCast, ← pow2_add]
  congr 3
  ring

/-- the tail in terms of the exact source value -/
theorem ieeeTail_valOf (n r ew fb bits : Nat) (hfb : fb + 1 < 64) (hexp : 0 < (bits >>> fb) % 2 ^ ew) :
    ieeeTail n fb false (bits.testBit (ew + fb)) (bits % 2 ^ fb + 2 ^ fb)
        ((fb : Int) - ((((bits >>> fb) % 2 ^ ew : Nat) : Int) - (((2 ^ (ew - 1) : Nat) : Int) - 1)) - (r : Int))
      = ofSigned n (rne (SpecF64.valOf (fb + 1) ew bits * ((2 ^ r : Nat) : Rat))) := by
  have hfr : bits % 2 ^ fb + 2 ^ fb < 2 ^ (fb + 1) := by
    have := Nat.mod_lt bits (Nat.two_pow_pos fb)
    rw [Nat.pow_succ]; omega
  rw [ieeeTail_spec n fb _ _ _ hfb hfr, valOf_scaled r ew fb bits hexp]

/-- float / double → fixpnt, Modulo, EVERY nbits, normal source: correctly rounded then wrapped -/
theorem fromIeee_modulo (n r ew fb bits : Nat) (hfb : fb + 1 < 64) (hexp : 0 < (bits >>> fb) % 2 ^ ew) :
    ConvFixpnt.fromIeee n r false ew fb bits = ConvFixpntSpec.fromRat n r false (SpecF64.valOf (fb + 1) ew bits) := by
  rw [fromIeee_modulo_eq_tail n r ew fb bits hexp, ieeeTail_valOf n r ew fb bits hfb hexp]
  unfold ConvFixpntSpec.fromRat FixpntSpec.finish
  simp only [Bool.false_eq_true, if_false]

/-! ### `to_native<float>` of maxpos / maxneg (the Saturate thresholds of the floating-point conversion) -/

open F64 in
/-- an addition whose exact result is a float of the format is exact -/
theorem add_fin_exact (fmt : Fmt) (hp : 1 ≤ fmt.p) (a b : Nat) (hf : IsFloatN fmt.p (a + b)) (hs : size (a + b) ≤ fmt.top) :
    F64.add fmt (.fin false a) (.fin false b) = .fin false (a + b) := by
  simp only [F64.add, F.toInt, Bool.false_eq_true, if_false, Bool.and_self]
  unfold roundInt
  by_cases h0 : a + b = 0
  · have hz : ((a : Int) + (b : Int)) = 0 := by omega
    rw [if_pos hz, h0]
  · rw [if_neg (by omega)]
    have hna : ((a : Int) + (b : Int)).natAbs = a + b := by omega
    have hneg : decide ((a : Int) + (b : Int) < 0) = false := by
      rw [decide_eq_false_iff_not]; omega
    rw [hna, hneg, rnNat_exact hp hf]
    unfold pack
    rw [if_pos hs]

open F64 in
/-- the accumulation loop of `to_native` is exact as long as every partial sum is a float of the target format -/
theorem toNative_fold (fmt : Fmt) (hp : 1 ≤ fmt.p) (r mag : Nat) (hr : r ≤ fmt.q) :
    ∀ k, (∀ j, j ≤ k → IsFloatN fmt.p (mag % 2 ^ j)) → k + (fmt.q - r) ≤ fmt.top →
      (List.range k).foldl
        (fun acc i => if mag.testBit i then F64.add fmt acc (.fin false (2 ^ (i + fmt.q - r))) else acc) (F.fin false 0)
        = F.fin false ((mag % 2 ^ k) * 2 ^ (fmt.q - r)) := by
  intro k
  induction k with
  | zero => intro _ _; simp [Nat.mod_one]
  | succ k ih =>
    intro hfl hsz
    rw [List.range_succ, List.foldl_append, ih (fun j hj => hfl j (by omega)) (by omega)]
    simp only [List.foldl_cons, List.foldl_nil]
    have hsplit : mag % 2 ^ (k + 1) = (mag / 2 ^ k % 2) * 2 ^ k + mag % 2 ^ k := LnsLemmas.split_bit mag k
    have htb := LnsLemmas.testBit_eq_div mag k
    by_cases hb : mag / 2 ^ k % 2 = 1
    · have htb' : mag.testBit k = true := by rw [htb]; simpa using hb
      rw [htb', if_pos rfl]
      have he : k + fmt.q - r = k + (fmt.q - r) := by omega
      have hsum : mag % 2 ^ k * 2 ^ (fmt.q - r) + 2 ^ (k + fmt.q - r) = mag % 2 ^ (k + 1) * 2 ^ (fmt.q - r) := by
        rw [hsplit, hb, he, Nat.pow_add]; ring
      have hlt : mag % 2 ^ (k + 1) * 2 ^ (fmt.q - r) < 2 ^ (k + 1 + (fmt.q - r)) := by
        rw [Nat.pow_add 2 (k + 1) (fmt.q - r)]
        exact Nat.mul_lt_mul_of_lt_of_le (Nat.mod_lt _ (Nat.two_pow_pos _)) (Nat.le_refl _) (Nat.two_pow_pos _)
      rw [add_fin_exact fmt hp _ _ (by rw [hsum]; exact isFloatN_mul_two_pow (hfl (k + 1) (Nat.le_refl _)) _)
        (by rw [hsum]; exact Nat.le_trans (size_le.2 hlt) hsz), hsum]
    · have hb0 : mag / 2 ^ k % 2 = 0 := by omega
      have htb' : mag.testBit k = false := by rw [htb]; simpa using hb
      rw [htb']
      simp only [Bool.false_eq_true, if_false]
      rw [hsplit, hb0, Nat.zero_mul, Nat.zero_add]

open F64 in
/-- `float(maxpos)` is exact when maxpos has at most p significant bits (nbits − 1 ≤ p) -/
theorem toNative_maxpos (fmt : Fmt) (hp : 1 ≤ fmt.p) (n r : Nat) (hn : 0 < n) (hr : r ≤ fmt.q) (hnp : n - 1 ≤ fmt.p)
    (hsz : n + (fmt.q - r) ≤ fmt.top) :
    ConvFixpnt.toNative fmt n r (ConvFixpnt.maxposP n) = F.fin false ((2 ^ (n - 1) - 1) * 2 ^ (fmt.q - r)) := by
  unfold ConvFixpnt.toNative ConvFixpnt.maxposP ConvFixpnt.signP
  have hA := Nat.two_pow_pos (n - 1)
  have hz : 2 ^ n = 2 ^ (n - 1) * 2 := by rw [← Nat.pow_succ]; congr 1; omega
  have hs : (2 ^ (n - 1) - 1).testBit (n - 1) = false := Nat.testBit_lt_two_pow (by omega)
  have hm : (2 ^ (n - 1) - 1) % 2 ^ n = 2 ^ (n - 1) - 1 := Nat.mod_eq_of_lt (by omega)
  simp only [hs, Bool.false_eq_true, if_false]
  rw [hm, toNative_fold fmt hp r (2 ^ (n - 1) - 1) hr n ?_ hsz, hm]
  intro j _
  apply isFloatN_of_lt
  have h1 : (2 ^ (n - 1) - 1) % 2 ^ j ≤ 2 ^ (n - 1) - 1 := Nat.mod_le _ _
  have h2 : 2 ^ (n - 1) ≤ 2 ^ fmt.p := Nat.pow_le_pow_right (by omega) hnp
  omega

open F64 in
/-- `float(maxneg)` is always exact (a power of two) -/
theorem toNative_maxneg (fmt : Fmt) (hp : 1 ≤ fmt.p) (n r : Nat) (hn : 0 < n) (hr : r ≤ fmt.q)
    (hsz : n + (fmt.q - r) ≤ fmt.top) :
    ConvFixpnt.toNative fmt n r (ConvFixpnt.maxnegP n) = F.fin true (2 ^ (n - 1) * 2 ^ (fmt.q - r)) := by
  unfold ConvFixpnt.toNative ConvFixpnt.maxnegP ConvFixpnt.signP
  have hA := Nat.two_pow_pos (n - 1)
  have hz : 2 ^ n = 2 ^ (n - 1) * 2 := by rw [← Nat.pow_succ]; congr 1; omega
  have hs : (2 ^ (n - 1)).testBit (n - 1) = true := Nat.testBit_two_pow_self
  have hlt : 2 ^ (n - 1) < 2 ^ n := by omega
  have hm : twosComp n (2 ^ (n - 1)) = 2 ^ (n - 1) := by
    unfold twosComp
    rw [Nat.mod_eq_of_lt hlt, Nat.mod_eq_of_lt (by omega)]; omega
  simp only [hs, if_true]
  rw [hm, toNative_fold fmt hp r (2 ^ (n - 1)) hr n ?_ hsz, Nat.mod_eq_of_lt hlt]
  · rfl
  intro j hj
  rcases Nat.lt_or_ge j n with hjl | hjg
  · have hd : 2 ^ j ∣ 2 ^ (n - 1) := Nat.pow_dvd_pow 2 (by omega)
    rw [Nat.mod_eq_zero_of_dvd hd]; exact isFloatN_zero _
  · have : j = n := by omega
    subst this
    rw [Nat.mod_eq_of_lt hlt]; exact isFloatN_two_pow _ _ hp

open F64 in
/-- an addition of two non-negative finite numbers: the rounded sum, when it does not overflow -/
theorem add_fin_round (fmt : Fmt) (a b R : Nat) (hab : a + b ≠ 0) (hR : rnNat fmt.p (a + b) = R) (hs : size R ≤ fmt.top) :
    F64.add fmt (.fin false a) (.fin false b) = .fin false R := by
  simp only [F64.add, F.toInt, Bool.false_eq_true, if_false, Bool.and_self]
  unfold roundInt
  rw [if_neg (by omega)]
  have hna : ((a : Int) + (b : Int)).natAbs = a + b := by omega
  have hneg : decide ((a : Int) + (b : Int) < 0) = false := by
    rw [decide_eq_false_iff_not]; omega
  rw [hna, hneg, hR]
  unfold pack
  rw [if_pos hs]

open F64 in
/-- the accumulation loop of `to_native` on an all-ones magnitude wider than the precision: after the bits below m (p < m) the
    accumulator holds the power of two 2^m (in units of 2^-r): the sum 2^(p+1) − 1 is a tie that rounds to the even 2^(p+1), and
    from there every addition doubles a power of two exactly -/
theorem toNative_fold_ones (fmt : Fmt) (hp : 1 ≤ fmt.p) (r mag : Nat) (hr : r ≤ fmt.q) :
    ∀ m, fmt.p < m → (∀ i, i < m → mag.testBit i = true) → m + 1 + (fmt.q - r) ≤ fmt.top →
      (List.range m).foldl
        (fun acc i => if mag.testBit i then F64.add fmt acc (.fin false (2 ^ (i + fmt.q - r))) else acc) (F.fin false 0)
        = F.fin false (2 ^ m * 2 ^ (fmt.q - r)) := by
  intro m hm
  induction m, hm using Nat.le_induction with
  | base =>
    intro hbits hsz
    have hmod : mag % 2 ^ fmt.p = 2 ^ fmt.p - 1 := by
      apply Nat.eq_of_testBit_eq
      intro i
      rw [Nat.testBit_mod_two_pow, Nat.testBit_two_pow_sub_one]
      by_cases hi : i < fmt.p
      · simp [hi, hbits i (by omega)]
      · simp [hi]
    rw [List.range_succ, List.foldl_append,
      toNative_fold fmt hp r mag hr fmt.p (fun j hj => isFloatN_of_lt (by
        have := Nat.mod_lt mag (Nat.two_pow_pos j)
        have : 2 ^ j ≤ 2 ^ fmt.p := Nat.pow_le_pow_right (by omega) hj
        omega)) (by omega), hmod]
    simp only [List.foldl_cons, List.foldl_nil]
    rw [hbits fmt.p (by omega), if_pos rfl]
    have hP := Nat.two_pow_pos fmt.p
    have hE := Nat.two_pow_pos (fmt.q - r)
    have he : fmt.p + fmt.q - r = fmt.p + (fmt.q - r) := by omega
    have hj : 2 ^ (fmt.p + 1 + (fmt.q - r)) = 2 ^ (fmt.p + 1) * 2 ^ (fmt.q - r) := by rw [Nat.pow_add]
    have hsum : (2 ^ fmt.p - 1) * 2 ^ (fmt.q - r) + 2 ^ (fmt.p + fmt.q - r)
        = 2 ^ (fmt.p + 1 + (fmt.q - r)) - 2 ^ (fmt.q - r) := by
      rw [he, hj, Nat.pow_succ, Nat.pow_add, Nat.sub_mul, Nat.one_mul]
      have : 2 ^ (fmt.q - r) ≤ 2 ^ fmt.p * 2 ^ (fmt.q - r) := Nat.le_mul_of_pos_left _ hP
      have h2 : 2 ^ fmt.p * 2 * 2 ^ (fmt.q - r) = 2 ^ fmt.p * 2 ^ (fmt.q - r) + 2 ^ fmt.p * 2 ^ (fmt.q - r) := by ring
      omega
    have hle : 2 ^ (fmt.q - r) ≤ 2 ^ (fmt.p + 1 + (fmt.q - r)) := Nat.pow_le_pow_right (by omega) (by omega)
    have hlt : 2 ^ (fmt.q - r) < 2 ^ (fmt.p + 1 + (fmt.q - r)) := Nat.pow_lt_pow_right (by omega) (by omega)
    apply add_fin_round fmt _ _ _ (by rw [hsum]; omega)
    · rw [hsum, ← hj]
      apply rnNat_tie_up hp (by omega)
      · have : fmt.p + 1 + (fmt.q - r) - fmt.p - 1 = fmt.q - r := by omega
        rw [this]; omega
      · omega
    · rw [← hj, size_two_pow]; omega
  | succ m hm ih =>
    intro hbits hsz
    rw [List.range_succ, List.foldl_append, ih (fun i hi => hbits i (by omega)) (by omega)]
    simp only [List.foldl_cons, List.foldl_nil]
    rw [hbits m (by omega), if_pos rfl]
    have he : m + fmt.q - r = m + (fmt.q - r) := by omega
    have hsum : 2 ^ m * 2 ^ (fmt.q - r) + 2 ^ (m + fmt.q - r) = 2 ^ (m + 1) * 2 ^ (fmt.q - r) := by
      rw [he, Nat.pow_add, Nat.pow_succ]; ring
    have hpw : 2 ^ (m + 1) * 2 ^ (fmt.q - r) = 2 ^ (m + 1 + (fmt.q - r)) := (Nat.pow_add 2 (m + 1) (fmt.q - r)).symm
    rw [add_fin_exact fmt hp _ _ (by rw [hsum, hpw]; exact isFloatN_two_pow _ _ hp)
      (by rw [hsum, hpw, size_two_pow]; omega), hsum]

open F64 in
/-- `float(maxpos)` when maxpos has MORE than p significant bits (p + 2 ≤ nbits): the accumulation rounds up to the power of
    two 2^(nbits−1−rbits) -/
theorem toNative_maxpos_wide (fmt : Fmt) (hp : 1 ≤ fmt.p) (n r : Nat) (hr : r ≤ fmt.q) (hnp : fmt.p + 2 ≤ n)
    (hsz : n + (fmt.q - r) ≤ fmt.top) :
    ConvFixpnt.toNative fmt n r (ConvFixpnt.maxposP n) = F.fin false (2 ^ (n - 1) * 2 ^ (fmt.q - r)) := by
  unfold ConvFixpnt.toNative ConvFixpnt.maxposP ConvFixpnt.signP
  have hA := Nat.two_pow_pos (n - 1)
  have hz : 2 ^ n = 2 ^ (n - 1) * 2 := by rw [← Nat.pow_succ]; congr 1; omega
  have hs : (2 ^ (n - 1) - 1).testBit (n - 1) = false := Nat.testBit_lt_two_pow (by omega)
  have hm : (2 ^ (n - 1) - 1) % 2 ^ n = 2 ^ (n - 1) - 1 := Nat.mod_eq_of_lt (by omega)
  simp only [hs, Bool.false_eq_true, if_false]
  rw [hm]
  obtain ⟨k, rfl⟩ : ∃ k, n = k + 1 := ⟨n - 1, by omega⟩
  simp only [Nat.add_sub_cancel] at hs ⊢
  rw [List.range_succ, List.foldl_append,
    toNative_fold_ones fmt hp r (2 ^ k - 1) hr k (by omega) (fun i hi => by
      rw [Nat.testBit_two_pow_sub_one]; simpa using hi) (by omega)]
  simp only [List.foldl_cons, List.foldl_nil, hs, Bool.false_eq_true, if_false]

/-! ### monotonicity of `rne` against integers -/

theorem le_rne {z : Int} {q : Rat} (h : (z : Rat) ≤ q) : z ≤ rne q := by
  have hf : z ≤ q.floor := by
    show z ≤ ⌊q⌋
    exact Int.le_floor.mpr h
  unfold rne
  simp only
  split_ifs <;> omega

theorem rne_le {z : Int} {q : Rat} (h : q ≤ (z : Rat)) : rne q ≤ z := by
  rcases eq_or_lt_of_le h with he | hl
  · subst he
    have hfl : ((z : Rat)).floor = z := by
      show ⌊(z : Rat)⌋ = z
      exact Int.floor_intCast z
    unfold rne
    simp only [hfl, sub_self]
    norm_num
  · have hf : q.floor < z := by
      show ⌊q⌋ < z
      exact Int.floor_lt.mpr hl
    unfold rne
    simp only
    split_ifs <;> omega

/-! ### float / double sources, Saturate -/

open F64 in
/-- a normal finite source in Saturate mode: two comparisons against `float(maxpos)`, `float(maxneg)`, then the tail -/
theorem fromIeee_saturate_eq (n r ew fb bits : Nat) (hexp : 0 < (bits >>> fb) % 2 ^ ew)
    (hfin : (bits >>> fb) % 2 ^ ew < 2 ^ ew - 1) :
    ConvFixpnt.fromIeee n r true ew fb bits =
      (let s := bits.testBit (ew + fb)
       let fr := bits % 2 ^ fb + 2 ^ fb
       let e := (bits >>> fb) % 2 ^ ew
       let vR := ConvFixpnt.valUnits s (fr <<< (e - 1)) (Fmt.ieee (fb + 1) ew).q
       let fmp := ConvFixpnt.toNative binary32 n r (ConvFixpnt.maxposP n)
       let fmn := ConvFixpnt.toNative binary32 n r (ConvFixpnt.maxnegP n)
       if vR ≥ ConvFixpnt.valUnits fmp.sign fmp.mag binary32.q then ConvFixpnt.maxposP n
       else if vR ≤ ConvFixpnt.valUnits fmn.sign fmn.mag binary32.q then ConvFixpnt.maxnegP n
       else ieeeTail n fb true s fr
        ((fb : Int) - ((((bits >>> fb) % 2 ^ ew : Nat) : Int) - (((2 ^ (ew - 1) : Nat) : Int) - 1)) - (r : Int))) := by
  unfold ConvFixpnt.fromIeee ieeeTail F64.ofBits
  have h2 : ¬ ((bits >>> fb) % 2 ^ ew = 2 ^ ew - 1) := by omega
  have h3 : ¬ ((bits >>> fb) % 2 ^ ew = 0) := by omega
  simp only [Nat.add_sub_cancel, h2, h3, if_false, false_and, decide_false, Bool.not_false, Bool.true_and, Bool.false_and,
    Bool.false_or, F.mag, gt_iff_lt, hexp, if_true, decide_eq_true_eq, Nat.add_comm (2 ^ fb) (bits % 2 ^ fb)]

open F64 in
/-- the source value as the model's range test sees it (`src.mag` units of 2^−q) is the exact value -/
theorem valUnits_eq_valOf (ew fb bits : Nat) (hew : 2 ≤ ew) (hexp : 0 < (bits >>> fb) % 2 ^ ew) :
    ConvFixpnt.valUnits (bits.testBit (ew + fb)) ((bits % 2 ^ fb + 2 ^ fb) <<< ((bits >>> fb) % 2 ^ ew - 1))
        (Fmt.ieee (fb + 1) ew).q = SpecF64.valOf (fb + 1) ew bits := by
  rw [valOf_normal ew fb bits hexp]
  unfold ConvFixpnt.valUnits sgnQ Fmt.ieee
  simp only
  generalize (bits >>> fb) % 2 ^ ew = e at hexp ⊢
  generalize bits % 2 ^ fb + 2 ^ fb = fr
  have h2 : 2 ≤ 2 ^ (ew - 1) := by
    have : 2 ^ 1 ≤ 2 ^ (ew - 1) := Nat.pow_le_pow_right (by omega) (by omega)
    simpa using this
  have hx : ((e : Int) - (((2 ^ (ew - 1) : Nat) : Int) - 1) - (fb : Int))
      = ((e - 1 : Nat) : Int) + -((2 ^ (ew - 1) + (fb + 1) - 3 : Nat) : Int) := by omega
  have hv : (fr : Rat) * pow2 ((e : Int) - (((2 ^ (ew - 1) : Nat) : Int) - 1) - (fb : Int))
      = ((fr <<< (e - 1) : Nat) : Rat) / ((2 ^ (2 ^ (ew - 1) + (fb + 1) - 3) : Nat) : Rat) := by
    rw [hx, pow2_add, pow2_natCast, ← mul_assoc, pow2_neg_nat, Nat.shiftLeft_eq]
    push_cast; ring
  rw [hv]
  cases bits.testBit (ew + fb)
  · simp only [Bool.false_eq_true, if_false]
  · simp only [if_true]; ring

theorem maxposZ_cast (n : Nat) : ((FixpntSpec.maxposZ n : Int) : Rat) = ((2 ^ (n - 1) - 1 : Nat) : Rat) := by
  unfold FixpntSpec.maxposZ
  rw [Nat.cast_sub (Nat.two_pow_pos (n - 1))]; push_cast; ring

theorem maxnegZ_cast (n : Nat) : ((FixpntSpec.maxnegZ n : Int) : Rat) = -((2 ^ (n - 1) : Nat) : Rat) := by
  unfold FixpntSpec.maxnegZ; push_cast; ring

theorem maxnegZ_lt_maxposZ (n : Nat) : FixpntSpec.maxnegZ n < FixpntSpec.maxposZ n := by
  unfold FixpntSpec.maxnegZ FixpntSpec.maxposZ
  have : (0 : Int) < ((2 ^ (n - 1) : Nat) : Int) := by exact_mod_cast Nat.two_pow_pos (n - 1)
  omega

open F64 in
/-- float / double → fixpnt, Saturate, normal finite source, for ANY nbits — given what the two single-precision thresholds are:
    `float(maxneg)` is exactly −2^(nbits−1−rbits) and `float(maxpos)` = M·2^−149 lies in [maxpos, 2^(nbits−1−rbits)].
    A source at or above float(maxpos) clamps; one below it rounds to at most 2^(nbits−1), and the repaired code replaces a
    positive result that carried into the sign bit by maxpos. -/
theorem fromIeee_saturate_of_thresholds (n r ew fb bits M : Nat) (hn : 0 < n) (hr149 : r ≤ 149) (hew : 2 ≤ ew)
    (hfb : fb + 1 < 64) (hexp : 0 < (bits >>> fb) % 2 ^ ew) (hfin : (bits >>> fb) % 2 ^ ew < 2 ^ ew - 1)
    (hmp : ConvFixpnt.toNative binary32 n r (ConvFixpnt.maxposP n) = F.fin false M)
    (hM1 : (2 ^ (n - 1) - 1) * 2 ^ (149 - r) ≤ M) (hM2 : M ≤ 2 ^ (n - 1) * 2 ^ (149 - r))
    (hmn : ConvFixpnt.toNative binary32 n r (ConvFixpnt.maxnegP n) = F.fin true (2 ^ (n - 1) * 2 ^ (149 - r))) :
    ConvFixpnt.fromIeee n r true ew fb bits = ConvFixpntSpec.fromRat n r true (SpecF64.valOf (fb + 1) ew bits) := by
  have hq : binary32.q = 149 := by decide
  rw [fromIeee_saturate_eq n r ew fb bits hexp hfin]
  simp only
  rw [valUnits_eq_valOf ew fb bits hew hexp, hmp, hmn, hq]
  unfold ConvFixpntSpec.fromRat FixpntSpec.finish ConvFixpnt.valUnits
  simp only [F.sign, F.mag, Bool.false_eq_true, if_false, if_true]
  have hfr : bits % 2 ^ fb + 2 ^ fb < 2 ^ (fb + 1) := by
    have := Nat.mod_lt bits (Nat.two_pow_pos fb)
    rw [Nat.pow_succ]; omega
  have hsc := valOf_scaled r ew fb bits hexp
  have htl := ieeeTail_valOf n r ew fb bits hfb hexp
  generalize SpecF64.valOf (fb + 1) ew bits = x at hsc htl ⊢
  generalize bits.testBit (ew + fb) = s at hsc htl ⊢
  generalize bits % 2 ^ fb + 2 ^ fb = fr at hsc htl hfr ⊢
  generalize ((fb : Int) - ((((bits >>> fb) % 2 ^ ew : Nat) : Int) - (((2 ^ (ew - 1) : Nat) : Int) - 1)) - (r : Int)) = d at hsc htl ⊢
  have hR : (0 : Rat) < ((2 ^ r : Nat) : Rat) := by exact_mod_cast Nat.two_pow_pos r
  have hsplit : ((2 ^ 149 : Nat) : Rat) = ((2 ^ (149 - r) : Nat) : Rat) * ((2 ^ r : Nat) : Rat) := by
    have : 2 ^ 149 = 2 ^ (149 - r) * 2 ^ r := by rw [← Nat.pow_add]; congr 1; omega
    rw [this]; push_cast; ring
  have hQ : (0 : Rat) < ((2 ^ (149 - r) : Nat) : Rat) := by exact_mod_cast Nat.two_pow_pos (149 - r)
  have hP : (0 : Rat) < ((2 ^ 149 : Nat) : Rat) := by exact_mod_cast Nat.two_pow_pos 149
  have hA1 := Nat.two_pow_pos (n - 1)
  -- float(maxpos) · 2^r in raw units lies in [maxpos, 2^(n−1)]
  have hMlo : ((2 ^ (n - 1) - 1 : Nat) : Rat) ≤ (M : Rat) / ((2 ^ 149 : Nat) : Rat) * ((2 ^ r : Nat) : Rat) := by
    have h : (((2 ^ (n - 1) - 1) * 2 ^ (149 - r) : Nat) : Rat) ≤ (M : Rat) := by exact_mod_cast hM1
    rw [Nat.cast_mul] at h
    rw [hsplit, div_mul_eq_mul_div, le_div_iff₀ (mul_pos hQ hR)]
    nlinarith
  have hMhi : (M : Rat) / ((2 ^ 149 : Nat) : Rat) * ((2 ^ r : Nat) : Rat) ≤ ((2 ^ (n - 1) : Nat) : Rat) := by
    have h : (M : Rat) ≤ ((2 ^ (n - 1) * 2 ^ (149 - r) : Nat) : Rat) := by exact_mod_cast hM2
    rw [Nat.cast_mul] at h
    rw [hsplit, div_mul_eq_mul_div, div_le_iff₀ (mul_pos hQ hR)]
    nlinarith
  have hTN : -((2 ^ (n - 1) * 2 ^ (149 - r) : Nat) : Rat) / ((2 ^ 149 : Nat) : Rat)
      = -((2 ^ (n - 1) : Nat) : Rat) / ((2 ^ r : Nat) : Rat) := by
    rw [hsplit, Nat.cast_mul]; field_simp
  rw [hTN]
  by_cases hA : x ≥ (M : Rat) / ((2 ^ 149 : Nat) : Rat)
  · rw [if_pos hA]
    have hy : ((FixpntSpec.maxposZ n : Int) : Rat) ≤ x * ((2 ^ r : Nat) : Rat) := by
      rw [maxposZ_cast]
      have := mul_le_mul_of_nonneg_right hA (le_of_lt hR)
      linarith
    rw [Fixpnt.clamp_le_maxpos (le_rne hy), ofSigned_maxposZ n hn]
  · rw [if_neg hA]
    have hxlt : x * ((2 ^ r : Nat) : Rat) < ((2 ^ (n - 1) : Nat) : Rat) := by
      have := mul_lt_mul_of_pos_right (lt_of_not_ge hA) hR
      linarith
    by_cases hB : x ≤ -((2 ^ (n - 1) : Nat) : Rat) / ((2 ^ r : Nat) : Rat)
    · rw [if_pos hB]
      have hy2 : x * ((2 ^ r : Nat) : Rat) ≤ ((FixpntSpec.maxnegZ n : Int) : Rat) := by
        rw [maxnegZ_cast]; exact (le_div_iff₀ hR).mp hB
      have hle2 := rne_le hy2
      have := maxnegZ_lt_maxposZ n
      rw [Fixpnt.clamp_le_maxneg (by omega) hle2, ofSigned_maxnegZ n hn]
    · rw [if_neg hB]
      have hy2 : ((FixpntSpec.maxnegZ n : Int) : Rat) ≤ x * ((2 ^ r : Nat) : Rat) := by
        rw [maxnegZ_cast]
        have := (div_lt_iff₀ hR).mp (lt_of_not_ge hB)
        exact le_of_lt this
      have hZlo := le_rne hy2
      have hZhi : rne (x * ((2 ^ r : Nat) : Rat)) ≤ ((2 ^ (n - 1) : Nat) : Int) :=
        rne_le (by rw [Int.cast_natCast]; exact le_of_lt hxlt)
      rw [ieeeTail_sat_eq, htl]
      have hpow : (0 : Rat) ≤ (fr : Rat) * pow2 (-d) := mul_nonneg (Nat.cast_nonneg fr) (le_of_lt (pow2_pos _))
      cases s
      · -- a positive source
        simp only [sgnQ, Bool.false_eq_true, if_false] at hsc
        by_cases hZ : rne (x * ((2 ^ r : Nat) : Rat)) = ((2 ^ (n - 1) : Nat) : Int)
        · have hbr : ¬ min d 64 > (fb : Int) + 1 ∧ min d 64 > 0 := by
            by_contra hnb
            have := rne_lt_of_not_round fb fr d hfr ((2 ^ (n - 1) : Nat) : Int) (by exact_mod_cast hA1) hnb
              (by rw [← hsc, Int.cast_natCast]; exact hxlt)
            rw [← hsc] at this; omega
          have hsg : ConvFixpnt.signP n (ofSigned n (rne (x * ((2 ^ r : Nat) : Rat)))) = true := by
            rw [hZ, ofSigned_natCast, Nat.mod_eq_of_lt (by
              have : 2 ^ n = 2 ^ (n - 1) * 2 := by rw [← Nat.pow_succ]; congr 1; omega
              omega)]
            unfold ConvFixpnt.signP; exact Nat.testBit_two_pow_self
          rw [if_pos ⟨hbr, rfl, hsg⟩]
          have hle : FixpntSpec.maxposZ n ≤ rne (x * ((2 ^ r : Nat) : Rat)) := by
            rw [hZ]; unfold FixpntSpec.maxposZ; omega
          rw [Fixpnt.clamp_le_maxpos hle, ofSigned_maxposZ n hn]
        · have hZnn : (0 : Int) ≤ rne (x * ((2 ^ r : Nat) : Rat)) := le_rne (by rw [hsc]; push_cast; exact hpow)
          obtain ⟨m, hm⟩ : ∃ m : Nat, rne (x * ((2 ^ r : Nat) : Rat)) = (m : Int) := ⟨_, (Int.toNat_of_nonneg hZnn).symm⟩
          have hmlt : m < 2 ^ (n - 1) := by
            have h1 : (m : Int) ≤ ((2 ^ (n - 1) : Nat) : Int) := by rw [← hm]; exact hZhi
            have h2 : (m : Int) ≠ ((2 ^ (n - 1) : Nat) : Int) := by rw [← hm]; exact hZ
            have : m ≤ 2 ^ (n - 1) := by exact_mod_cast h1
            have : m ≠ 2 ^ (n - 1) := by intro h; exact h2 (by rw [h])
            omega
          have hsg : ¬ ConvFixpnt.signP n (ofSigned n (rne (x * ((2 ^ r : Nat) : Rat)))) = true := by
            rw [hm, ofSigned_natCast, Nat.mod_eq_of_lt (by
              have : 2 ^ n = 2 ^ (n - 1) * 2 := by rw [← Nat.pow_succ]; congr 1; omega
              omega)]
            unfold ConvFixpnt.signP; rw [Nat.testBit_lt_two_pow hmlt]; simp
          rw [if_neg (fun h => hsg h.2.2)]
          have hin : rne (x * ((2 ^ r : Nat) : Rat)) ≤ FixpntSpec.maxposZ n := by
            rw [hm]; unfold FixpntSpec.maxposZ
            have : (m : Int) < ((2 ^ (n - 1) : Nat) : Int) := by exact_mod_cast hmlt
            omega
          rw [Fixpnt.clamp_inside' hZlo hin]
      · -- a negative source: the result is not positive, only the lower clamp matters and it was tested
        simp only [sgnQ, if_true] at hsc
        rw [if_neg (fun h => Bool.noConfusion h.2.1)]
        have hZle : rne (x * ((2 ^ r : Nat) : Rat)) ≤ 0 := rne_le (by rw [hsc]; push_cast; linarith)
        have hin : rne (x * ((2 ^ r : Nat) : Rat)) ≤ FixpntSpec.maxposZ n := by
          unfold FixpntSpec.maxposZ
          have : (0 : Int) < ((2 ^ (n - 1) : Nat) : Int) := by exact_mod_cast hA1
          omega
        rw [Fixpnt.clamp_inside' hZlo hin]

open F64 in
/-- float / double → fixpnt, Saturate, normal finite source, EVERY nbits up to the single-precision range (nbits − rbits ≤ 128,
    rbits ≤ 149: float(maxneg) does not overflow and the ulp 2^−rbits is a float): `float(maxpos)` is exact for nbits ≤ 25 and
    the power of two 2^(nbits−1−rbits) above -/
theorem fromIeee_saturate (n r ew fb bits : Nat) (hn : 0 < n) (hr : r ≤ n) (hr149 : r ≤ 149) (hnr : n - r ≤ 128) (hew : 2 ≤ ew)
    (hfb : fb + 1 < 64) (hexp : 0 < (bits >>> fb) % 2 ^ ew) (hfin : (bits >>> fb) % 2 ^ ew < 2 ^ ew - 1) :
    ConvFixpnt.fromIeee n r true ew fb bits = ConvFixpntSpec.fromRat n r true (SpecF64.valOf (fb + 1) ew bits) := by
  have hq : binary32.q = 149 := by decide
  have hp : binary32.p = 24 := by decide
  have htop : binary32.top = 277 := by decide
  have hmn := toNative_maxneg binary32 (by rw [hp]; omega) n r hn (by rw [hq]; omega) (by rw [hq, htop]; omega)
  rw [hq] at hmn
  have hA1 := Nat.two_pow_pos (n - 1)
  by_cases hn25 : n ≤ 25
  · have hmp := toNative_maxpos binary32 (by rw [hp]; omega) n r hn (by rw [hq]; omega) (by rw [hp]; omega) (by rw [hq, htop]; omega)
    rw [hq] at hmp
    exact fromIeee_saturate_of_thresholds n r ew fb bits _ hn hr149 hew hfb hexp hfin hmp (Nat.le_refl _)
      (Nat.mul_le_mul_right _ (by omega)) hmn
  · have hmp := toNative_maxpos_wide binary32 (by rw [hp]; omega) n r (by rw [hq]; omega) (by rw [hp]; omega) (by rw [hq, htop]; omega)
    rw [hq] at hmp
    exact fromIeee_saturate_of_thresholds n r ew fb bits _ hn hr149 hew hfb hexp hfin hmp
      (Nat.mul_le_mul_right _ (by omega)) (Nat.le_refl _) hmn

/-! ### zero and subnormal sources (Modulo) -/

/-- rawExponent = 0 (zero or subnormal source) and bias ≥ rbits + 2: the code returns 0 -/
theorem fromIeee_modulo_subnormal (n r ew fb bits : Nat) (hfb : fb + 1 < 64) (he : (bits >>> fb) % 2 ^ ew = 0)
    (hbias : r + 3 ≤ 2 ^ (ew - 1)) :
    ConvFixpnt.fromIeee n r false ew fb bits = 0 := by
  unfold ConvFixpnt.fromIeee
  simp only [Bool.false_and, Bool.false_eq_true, if_false, he, true_and, gt_iff_lt, Nat.lt_irrefl]
  split
  · rfl
  · rw [if_pos (by omega)]

/-- … and the exact value scaled by 2^rbits is below 1/2 in magnitude -/
theorem valOf_subnormal_round (r ew fb bits : Nat) (he : (bits >>> fb) % 2 ^ ew = 0) (hbias : r + 3 ≤ 2 ^ (ew - 1)) :
    rne (SpecF64.valOf (fb + 1) ew bits * ((2 ^ r : Nat) : Rat)) = 0 := by
  unfold SpecF64.valOf SpecF64.valMag SpecF64.magOf SpecF64.signOf SpecF64.eminQ dyadic
  simp only [Nat.add_sub_cancel]
  have hE : (bits % 2 ^ (fb + ew)) >>> fb = (bits >>> fb) % 2 ^ ew := by
    rw [Nat.shiftRight_eq_div_pow, Nat.shiftRight_eq_div_pow, Nat.pow_add, Nat.mod_mul_right_div_self]
  have hF : bits % 2 ^ (fb + ew) % 2 ^ fb = bits % 2 ^ fb :=
    Nat.mod_mod_of_dvd _ (Nat.pow_dvd_pow 2 (by omega))
  rw [hE, hF, if_pos he]
  obtain ⟨k, hk⟩ : ∃ k : Nat, (3 : Int) - ((2 ^ (ew - 1) : Nat) : Int) - ((fb + 1 : Nat) : Int) + (r : Int) = -(k : Int) ∧ fb + 1 ≤ k :=
    ⟨2 ^ (ew - 1) + fb - 2 - r, by omega, by omega⟩
  have hfr : 2 * (bits % 2 ^ fb) < 2 ^ k := by
    have h1 := Nat.mod_lt bits (Nat.two_pow_pos fb)
    have h2 : 2 ^ (fb + 1) ≤ 2 ^ k := Nat.pow_le_pow_right (by omega) hk.2
    rw [Nat.pow_succ] at h2; omega
  have hval : ∀ s : Bool, (if s = true then -((((bits % 2 ^ fb : Nat) : Int) : Rat) * pow2 (3 - ((2 ^ (ew - 1) : Nat) : Int) - ((fb + 1 : Nat) : Int)))
        else (((bits % 2 ^ fb : Nat) : Int) : Rat) * pow2 (3 - ((2 ^ (ew - 1) : Nat) : Int) - ((fb + 1 : Nat) : Int))) * ((2 ^ r : Nat) : Rat)
      = sgnQ s (((bits % 2 ^ fb : Nat) : Rat) / ((2 ^ k : Nat) : Rat)) := by
    intro s
    have : pow2 (3 - ((2 ^ (ew - 1) : Nat) : Int) - ((fb + 1 : Nat) : Int)) * ((2 ^ r : Nat) : Rat) = pow2 (-(k : Int)) := by
      rw [← pow2_natCast, ← pow2_add, hk.1]
    have h2 := pow2_neg_nat k ((bits % 2 ^ fb : Nat) : Rat)
    cases s
    · simp only [Bool.false_eq_true, if_false, sgnQ, Int.cast_natCast]; rw [mul_assoc, this, h2]
    · simp only [if_true, sgnQ, Int.cast_natCast]; rw [neg_mul, mul_assoc, this, h2]
  rw [hval, rne_sgn_div, rneShr_small hfr]
  cases bits.testBit (fb + ew) <;> simp [sgnZ]

/-- every FINITE source (zero, subnormal, normal), Modulo, EVERY nbits, bias ≥ rbits + 2 -/
theorem fromIeee_modulo_finite (n r ew fb bits : Nat) (hfb : fb + 1 < 64)
    (hbias : r + 3 ≤ 2 ^ (ew - 1)) :
    ConvFixpnt.fromIeee n r false ew fb bits = ConvFixpntSpec.fromRat n r false (SpecF64.valOf (fb + 1) ew bits) := by
  by_cases he : (bits >>> fb) % 2 ^ ew = 0
  · rw [fromIeee_modulo_subnormal n r ew fb bits hfb he hbias]
    unfold ConvFixpntSpec.fromRat FixpntSpec.finish
    simp only [Bool.false_eq_true, if_false]
    rw [valOf_subnormal_round r ew fb bits he hbias]
    simp [ofSigned]
  · exact fromIeee_modulo n r ew fb bits hfb (by omega)

/-! ### unsigned sources: integer parts wider than 64 bits, Saturate -/

/-- unsigned source (a native type: v < 2^64), Modulo, integer part wider than 64 bits: all 64 source bits are copied -/
theorem fromUnsigned_modulo_wide (n r sz v : Nat) (hr : r ≤ n) (h64 : ¬ n - r ≤ 64) (hv : v < 2 ^ 64) :
    ConvFixpnt.fromUnsigned n r false sz v = ConvFixpntSpec.fromInt n r false (v : Int) := by
  unfold ConvFixpnt.fromUnsigned ConvFixpntSpec.fromInt FixpntSpec.finish
  simp only [Bool.false_and, Bool.false_eq_true, if_false]
  by_cases hv0 : v = 0
  · subst hv0; simp [ofSigned]
  · rw [if_neg hv0, if_neg h64, show r + 64 - r = 64 by omega, Nat.mod_eq_of_lt hv, Nat.shiftLeft_eq]
    have e : (v : Int) * ((2 ^ r : Nat) : Int) = ((v * 2 ^ r : Nat) : Int) := by push_cast; ring
    have hlt : v * 2 ^ r < 2 ^ n := by
      have h1 : v * 2 ^ r < 2 ^ 64 * 2 ^ r := Nat.mul_lt_mul_of_pos_right hv (Nat.two_pow_pos r)
      have h2 : 2 ^ 64 * 2 ^ r ≤ 2 ^ n := by rw [← Nat.pow_add]; exact Nat.pow_le_pow_right (by omega) (by omega)
      omega
    rw [e, ofSigned_natCast, Nat.mod_eq_of_lt hlt]

/-- unsigned source held in a native type (v < 2^64), Modulo: EVERY configuration -/
theorem fromUnsigned_modulo_full (n r sz v : Nat) (hr : r ≤ n) (hv : v < 2 ^ 64) :
    ConvFixpnt.fromUnsigned n r false sz v = ConvFixpntSpec.fromInt n r false (v : Int) := by
  by_cases h64 : n - r ≤ 64
  · exact fromUnsigned_modulo n r sz v hr h64
  · exact fromUnsigned_modulo_wide n r sz v hr h64 hv

/-- Saturate, unsigned source held in a native type (v < 2^64): the clamp of `v · 2^rbits` for EVERY configuration and value.
    The range test `v > (unsigned long long)(long long)(maxpos)` is compiled when nbits − rbits ≤ 64; a wider integer part
    holds every 64-bit value. -/
theorem fromUnsigned_saturate (n r sz v : Nat) (hn : 0 < n) (hr : r ≤ n) (hv : v < 2 ^ 64) :
    ConvFixpnt.fromUnsigned n r true sz v = ConvFixpntSpec.fromInt n r true (v : Int) := by
  have hmod := fromUnsigned_modulo_full n r sz v hr hv
  unfold ConvFixpnt.fromUnsigned ConvFixpntSpec.fromInt FixpntSpec.finish at hmod ⊢
  simp only [Bool.false_and, Bool.false_eq_true, if_false] at hmod
  simp only [Bool.true_and, Bool.and_eq_true, decide_eq_true_eq, if_true]
  have hP1 : (0 : Int) < ((2 ^ (n - 1) : Nat) : Int) := by exact_mod_cast Nat.two_pow_pos (n - 1)
  have hR : (0 : Int) < ((2 ^ r : Nat) : Int) := by exact_mod_cast Nat.two_pow_pos r
  have hv0' : (0 : Int) ≤ (v : Int) := by omega
  have hnonneg : FixpntSpec.maxnegZ n ≤ (v : Int) * ((2 ^ r : Nat) : Int) := by
    have := Int.mul_nonneg hv0' (Int.le_of_lt hR)
    unfold FixpntSpec.maxnegZ; omega
  by_cases hv0 : v = 0
  · subst hv0
    rw [if_pos rfl, Nat.cast_zero, Int.zero_mul,
      Fixpnt.clamp_inside' (by unfold FixpntSpec.maxnegZ; omega) (by unfold FixpntSpec.maxposZ; omega)]
    simp [ofSigned]
  rw [if_neg hv0] at hmod ⊢
  by_cases h64 : n - r ≤ 64
  · rcases Nat.lt_or_ge r n with hlt | hge
    · rw [pat_maxpos n r 64 hlt h64 h64]
      have hK := Nat.two_pow_pos (n - r - 1)
      have emp := maxposZ_eq n r hlt
      by_cases hA : v > 2 ^ (n - r - 1) - 1
      · rw [if_pos ⟨h64, hA⟩]
        have hle : FixpntSpec.maxposZ n ≤ (v : Int) * ((2 ^ r : Nat) : Int) := by
          rw [emp]
          have hvk : ((2 ^ (n - r - 1) : Nat) : Int) ≤ (v : Int) := by exact_mod_cast (show 2 ^ (n - r - 1) ≤ v by omega)
          have := Int.mul_le_mul_of_nonneg_right hvk (Int.le_of_lt hR)
          omega
        rw [Fixpnt.clamp_le_maxpos hle, ofSigned_maxposZ n hn]
      · rw [if_neg (fun h => hA h.2)]
        have hvk : (v : Int) ≤ ((2 ^ (n - r - 1) : Nat) : Int) - 1 := by
          have : v + 1 ≤ 2 ^ (n - r - 1) := by omega
          have : ((v + 1 : Nat) : Int) ≤ ((2 ^ (n - r - 1) : Nat) : Int) := by exact_mod_cast this
          push_cast at this; omega
        have hup := Int.mul_le_mul_of_nonneg_right hvk (Int.le_of_lt hR)
        have hin : (v : Int) * ((2 ^ r : Nat) : Int) ≤ FixpntSpec.maxposZ n := by
          rw [emp]; rw [Int.sub_mul, Int.one_mul] at hup; omega
        rw [Fixpnt.clamp_inside' hnonneg hin]
        exact hmod
    · have hrn : r = n := by omega
      subst hrn
      have hz : ConvFixpnt.toSignedPat r r 64 (ConvFixpnt.maxposP r) = 0 := by
        unfold ConvFixpnt.toSignedPat; rw [if_pos (Nat.le_refl r)]
      rw [hz, if_pos ⟨h64, by omega⟩]
      have hle : FixpntSpec.maxposZ r ≤ (v : Int) * ((2 ^ r : Nat) : Int) := by
        unfold FixpntSpec.maxposZ
        have hz2 : 2 ^ r = 2 ^ (r - 1) * 2 := by rw [← Nat.pow_succ]; congr 1; omega
        have hzi : ((2 ^ r : Nat) : Int) = ((2 ^ (r - 1) : Nat) : Int) * 2 := by rw [hz2]; push_cast; ring
        have := Int.mul_le_mul_of_nonneg_right (show (1 : Int) ≤ (v : Int) by omega) (Int.le_of_lt hR)
        omega
      rw [Fixpnt.clamp_le_maxpos hle, ofSigned_maxposZ r hn]
  · rw [if_neg (fun h => h64 h.1)]
    have hin : (v : Int) * ((2 ^ r : Nat) : Int) ≤ FixpntSpec.maxposZ n := by
      unfold FixpntSpec.maxposZ
      have h1 : v * 2 ^ r < 2 ^ 64 * 2 ^ r := Nat.mul_lt_mul_of_pos_right hv (Nat.two_pow_pos r)
      have h2 : 2 ^ 64 * 2 ^ r ≤ 2 ^ (n - 1) := by rw [← Nat.pow_add]; exact Nat.pow_le_pow_right (by omega) (by omega)
      have h3 : ((v * 2 ^ r : Nat) : Int) < ((2 ^ (n - 1) : Nat) : Int) := by exact_mod_cast (show v * 2 ^ r < 2 ^ (n - 1) by omega)
      push_cast at h3 ⊢; omega
    rw [Fixpnt.clamp_inside' hnonneg hin]
    exact hmod

end UVerif.ConvFixpntLemmas
