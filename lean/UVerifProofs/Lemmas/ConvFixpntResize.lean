/-
  Lemmas about the fixpnt size adapter `fixpnt<n2,r2> = fixpnt<n1,r1>` (UVerif.ConvFixpnt.resize, the limb-list model of
  fixpnt_impl.hpp:172-218, after the four repairs of the size adapter) against the specification UVerif.ConvFixpntSpec.resize (round-half-even of value·2^r2, then wrap / clamp).

  * `spec_resize_eq`     : the Rat specification in integer terms (`resizeZ`), so that concrete witnesses are decidable on Int;
  * `signext_loop_spec`  : `_block = a.bits()` followed by the explicit sign-extension loop = the n2-bit wrap of the source value;
  * `resize_up_spec`     : r1 ≤ r2 (both width cases): assignment, then `<<= r2 − r1` in the target width = value·2^(r2−r1) wrapped;
  * `resizeRound_spec`   : r2 < r1 (both width cases, including the shift by the full width, which runs in a block one bit
                           wider): the correctly rounded (ties to even) value, wrapped into n2 bits;
  * `resizeM_spec`       : the Modulo code path, every pair of configurations;
  * `aligned_fits`       : the rounded / scaled integer fits `n1 + (r2 − r1)` bits (the width the Saturate branch compares in);
  * `resize_spec`        : every pair of configurations, both arithmetic modes.
-/
import UVerifProofs.Lemmas.Fixpnt
import UVerif.Model.ConvFixpnt
import UVerif.Spec.ConvFixpnt

namespace UVerif.ConvFixpnt
open UVerif UVerif.Limbs

/-! ### the specification in integer terms -/

/-- `ConvFixpntSpec.resize` on integers: the raw source integer `x` is scaled up exactly when the target has at least as many
    fraction bits, and divided by 2^(r1−r2) with the round-half-even increment otherwise -/
def resizeZ (n1 r1 n2 r2 : Nat) (sat : Bool) (p : Nat) : Nat :=
  let x := toSigned n1 p
  if r1 ≤ r2 then FixpntSpec.finish n2 sat (x * ((2 ^ (r2 - r1) : Nat) : Int))
  else
    let D : Int := ((2 ^ (r1 - r2) : Nat) : Int)
    FixpntSpec.finish n2 sat (x / D + rneInc (x % D) D (x / D))

/-- the exact integer the target has to hold before wrapping / clamping: value · 2^r2 rounded to nearest, ties to even -/
def alignedZ (n1 r1 r2 : Nat) (p : Nat) : Int :=
  let x := toSigned n1 p
  if r1 ≤ r2 then x * ((2 ^ (r2 - r1) : Nat) : Int)
  else
    let D : Int := ((2 ^ (r1 - r2) : Nat) : Int)
    x / D + rneInc (x % D) D (x / D)

theorem resizeZ_eq_aligned (n1 r1 n2 r2 : Nat) (sat : Bool) (p : Nat) :
    resizeZ n1 r1 n2 r2 sat p = FixpntSpec.finish n2 sat (alignedZ n1 r1 r2 p) := by
  unfold resizeZ alignedZ
  simp only
  split <;> rfl

theorem rne_intCast (z : Int) : rne (z : Rat) = z := by
  have h := rne_int_div z 1 Nat.one_pos
  simp only [Nat.cast_one, div_one, Int.ediv_one, Int.emod_one] at h
  rw [h]
  simp

/-- scaling the value by 2^r2 when r2 ≤ r1: the raw integer over 2^(r1−r2) -/
theorem value_scale_down {n1 r1 r2 : Nat} (h : r2 ≤ r1) (p : Nat) :
    ConvFixpntSpec.value n1 r1 p * ((2 ^ r2 : Nat) : Rat) = ((toSigned n1 p : Int) : Rat) / ((2 ^ (r1 - r2) : Nat) : Rat) := by
  unfold ConvFixpntSpec.value
  have e : (2 : Rat) ^ r1 = 2 ^ (r1 - r2) * 2 ^ r2 := by rw [← pow_add]; congr 1; omega
  push_cast
  rw [e]
  have h2 : (2 : Rat) ^ r2 ≠ 0 := pow_ne_zero _ (by norm_num)
  have h3 : (2 : Rat) ^ (r1 - r2) ≠ 0 := pow_ne_zero _ (by norm_num)
  field_simp

/-- scaling the value by 2^r2 when r1 ≤ r2: an integer -/
theorem value_scale_up {n1 r1 r2 : Nat} (h : r1 ≤ r2) (p : Nat) :
    ConvFixpntSpec.value n1 r1 p * ((2 ^ r2 : Nat) : Rat) = ((toSigned n1 p * ((2 ^ (r2 - r1) : Nat) : Int) : Int) : Rat) := by
  unfold ConvFixpntSpec.value
  have e : (2 : Rat) ^ r2 = 2 ^ (r2 - r1) * 2 ^ r1 := by rw [← pow_add]; congr 1; omega
  push_cast
  rw [e]
  have h2 : (2 : Rat) ^ r1 ≠ 0 := pow_ne_zero _ (by norm_num)
  field_simp

theorem spec_resize_eq (n1 r1 n2 r2 : Nat) (sat : Bool) (p : Nat) :
    ConvFixpntSpec.resize n1 r1 n2 r2 sat p = resizeZ n1 r1 n2 r2 sat p := by
  unfold ConvFixpntSpec.resize ConvFixpntSpec.fromRat resizeZ
  simp only
  by_cases h : r1 ≤ r2
  · rw [if_pos h, value_scale_up h, rne_intCast]
  · rw [if_neg h, value_scale_down (by omega), rne_int_div' _ _ (Nat.two_pow_pos _)]

/-! ### widening, same number of fraction bits -/

/-- a value inside the n-bit range is its own clamp -/
theorem clamp_of_range {n : Nat} {z : Int} (h1 : -(M2 (n - 1)) ≤ z) (h2 : z < M2 (n - 1)) : FixpntSpec.clamp n z = z := by
  apply Fixpnt.clamp_inside'
  · unfold FixpntSpec.maxnegZ; exact h1
  · unfold FixpntSpec.maxposZ; unfold M2 at h2; omega

/-- the specification of a widening that keeps the fraction bits: the sign-extended pattern, in both modes -/
theorem spec_widen_same {n1 n2 : Nat} (r : Nat) (hn1 : 0 < n1) (hle : n1 ≤ n2) (sat : Bool) (p : Nat) :
    ConvFixpntSpec.resize n1 r n2 r sat p = ofSigned n2 (toSigned n1 p) := by
  rw [spec_resize_eq]
  unfold resizeZ
  simp only
  rw [if_pos (le_refl _), Nat.sub_self, Nat.pow_zero, Nat.cast_one, mul_one]
  unfold FixpntSpec.finish
  cases sat
  · simp
  · simp only [if_true]
    obtain ⟨r1, r2⟩ := toSigned_range hn1 p
    have := BB.M2_mono (show n1 - 1 ≤ n2 - 1 by omega)
    rw [clamp_of_range (by omega) (by omega)]

/-- `_block = a.bits()` followed by the explicit sign-extension loop (which sets bits that are already set): the source value
    wrapped into n2 bits (sign extension) -/
theorem signext_loop_spec {w n1 n2 : Nat} (hw : 0 < w) (hn1 : 0 < n1) (hle : n1 ≤ n2) {src : List Nat} (hs : Canon w n1 src) :
    Canon w n2 (if (decide (n1 < n2) && BB.sign w n1 src) = true then setRange w (BB.assign w n2 n1 src) n1 n2 true
                else BB.assign w n2 n1 src) ∧
    toNat w (if (decide (n1 < n2) && BB.sign w n1 src) = true then setRange w (BB.assign w n2 n1 src) n1 n2 true
             else BB.assign w n2 n1 src) = ofSigned n2 (toSigned n1 (toNat w src)) := by
  have hn2 : 0 < n2 := by omega
  obtain ⟨ca, va⟩ := BB.assign_spec (n := n2) hw hn2 hn1 hs
  by_cases hc : (decide (n1 < n2) && BB.sign w n1 src) = true
  · rw [if_pos hc]
    simp only [Bool.and_eq_true, decide_eq_true_eq] at hc
    obtain ⟨hlt, hsg⟩ := hc
    rw [BB.sign_eq hw hn1 hs.2.1] at hsg
    obtain ⟨p1, p2, p3⟩ := setRange_props hw ca.2.1 n1 n2 true hle (by rw [ca.1]; exact nrBlocks_hi hw hn2)
    have hv : toNat w (setRange w (BB.assign w n2 n1 src) n1 n2 true) = toNat w (BB.assign w n2 n1 src) := by
      apply Nat.eq_of_testBit_eq
      intro j
      rw [p3 j]
      by_cases hj : n1 ≤ j ∧ j < n2
      · rw [if_pos hj, va, testBit_signext hn1 hle hs.2.2, if_neg (by omega), hsg]
        simp [hj.2]
      · rw [if_neg hj]
    refine ⟨⟨by rw [p1, ca.1], p2, by rw [hv]; exact ca.2.2⟩, by rw [hv, va]⟩
  · rw [if_neg hc]
    exact ⟨ca, va⟩

/-! ### at least as many fraction bits in the target: assign, then shift left in the target width -/

/-- `<<= d` of a pattern that is the n-bit wrap of `x`: the n-bit wrap of `x · 2^d` (shifting out high bits is the Modulo rule) -/
theorem shl_wrap {w n : Nat} (hw : 0 < w) (hn : 0 < n) {t : List Nat} (ht : Canon w n t) {x : Int} (hx : toNat w t = ofSigned n x)
    {d : Nat} (hd : 0 < d) :
    Canon w n (BB.shl w n t ((d : Nat) : Int)) ∧ toNat w (BB.shl w n t ((d : Nat) : Int)) = ofSigned n (x * ((2 ^ d : Nat) : Int)) := by
  have e : BB.shl w n t ((d : Nat) : Int) = BB.shlPos w n t d := by
    unfold BB.shl
    rw [if_neg (by omega), if_neg (by omega), Int.toNat_natCast]
  rw [e]
  obtain ⟨hc, hv⟩ := BB.shlPos_spec hw hn ht hd
  refine ⟨hc, ?_⟩
  rw [hv]
  apply eq_ofSigned_of_modEq (Nat.mod_lt _ (Nat.two_pow_pos n))
  refine (modEq_natMod _ n).trans ?_
  push_cast
  rw [hx]
  exact (modEq_ofSigned n x).mul_right _

/-- r1 ≤ r2, any two widths: the source value times 2^(r2−r1), wrapped into n2 bits -/
theorem resize_up_spec {w n1 r1 n2 r2 : Nat} (hw : 0 < w) (hn1 : 0 < n1) (hn2 : 0 < n2) (hr : r1 ≤ r2) {src : List Nat}
    (hs : Canon w n1 src) :
    Canon w n2 (resizeM w n1 r1 n2 r2 src) ∧
    toNat w (resizeM w n1 r1 n2 r2 src) = ofSigned n2 (toSigned n1 (toNat w src) * ((2 ^ (r2 - r1) : Nat) : Int)) := by
  unfold resizeM
  simp only
  by_cases hle : n1 ≤ n2
  · rw [if_pos hle, if_neg (by omega)]
    obtain ⟨ct, vt⟩ := signext_loop_spec hw hn1 hle hs
    by_cases hlt : r1 < r2
    · rw [if_pos hlt]
      exact shl_wrap hw hn2 ct vt (by omega)
    · rw [if_neg hlt]
      have e : r2 - r1 = 0 := by omega
      rw [e, Nat.pow_zero, Nat.cast_one, mul_one]
      exact ⟨ct, vt⟩
  · rw [if_neg hle, if_neg (by omega)]
    obtain ⟨ct, vt⟩ := BB.assign_spec (n := n2) hw hn2 hn1 hs
    by_cases hlt : r1 < r2
    · rw [if_pos hlt]
      exact shl_wrap hw hn2 ct vt (by omega)
    · rw [if_neg hlt]
      have e : r2 - r1 = 0 := by omega
      rw [e, Nat.pow_zero, Nat.cast_one, mul_one]
      exact ⟨ct, vt⟩

theorem spec_up {n1 r1 n2 r2 : Nat} (hr : r1 ≤ r2) (p : Nat) :
    ConvFixpntSpec.resize n1 r1 n2 r2 false p = ofSigned n2 (toSigned n1 p * ((2 ^ (r2 - r1) : Nat) : Int)) := by
  rw [spec_resize_eq]
  unfold resizeZ FixpntSpec.finish
  simp only [if_pos hr, Bool.false_eq_true, if_false]

/-! ### fewer fraction bits in the target: round in the source width (one bit more when every source bit is dropped) -/

/-- width of `rawbb`: `src_nbits + (src_rbits - rbits == src_nbits ? 1 : 0)` -/
def rawWidth (n1 r1 r2 : Nat) : Nat := if r1 - r2 = n1 then n1 + 1 else n1

/-- the rounded quotient of an n1-bit value by 2^k (1 ≤ k) fits the block it is computed in: `++` cannot overflow -/
theorem rounded_fits {n1 k M : Nat} (hn1 : 0 < n1) (hk : 0 < k) (hM : M = if k = n1 then n1 + 1 else n1) (hkM : k < M)
    {x : Int} (h1 : -(M2 (n1 - 1)) ≤ x) (h2 : x < M2 (n1 - 1)) (i : Int) (hi0 : 0 ≤ i) (hi1 : i ≤ 1) :
    -(M2 (M - 1)) ≤ x / ((2 ^ k : Nat) : Int) + i ∧ x / ((2 ^ k : Nat) : Int) + i < M2 (M - 1) := by
  have hD : (0 : Int) < ((2 ^ k : Nat) : Int) := by exact_mod_cast Nat.two_pow_pos k
  have hD2 : (2 : Int) ≤ ((2 ^ k : Nat) : Int) := by
    have : 2 ^ 1 ≤ 2 ^ k := Nat.pow_le_pow_right (by omega) hk
    exact_mod_cast this
  have hp := M2_pos (n1 - 1)
  have hmono : M2 (n1 - 1) ≤ M2 (M - 1) := BB.M2_mono (by split at hM <;> omega)
  have hlo : -(M2 (n1 - 1)) ≤ x / ((2 ^ k : Nat) : Int) := by
    apply (Int.le_ediv_iff_mul_le hD).mpr
    nlinarith
  refine ⟨by omega, ?_⟩
  by_cases hkn : k = n1
  · -- every bit is dropped: the quotient is 0 or -1, the block has n1 + 1 bits
    rw [if_pos hkn] at hM
    have hq : x / ((2 ^ k : Nat) : Int) < 1 := by
      apply Int.ediv_lt_of_lt_mul hD
      have : M2 (n1 - 1) ≤ ((2 ^ k : Nat) : Int) := by rw [hkn]; exact BB.M2_mono (by omega)
      omega
    have h2' : (2 : Int) ≤ M2 (M - 1) := by
      have : M - 1 = n1 := by omega
      rw [this]
      have : 2 ^ 1 ≤ 2 ^ n1 := Nat.pow_le_pow_right (by omega) hn1
      unfold M2; exact_mod_cast this
    omega
  · rw [if_neg hkn] at hM
    rw [hM] at hkM ⊢
    have hn : 2 ≤ n1 := by omega
    have hhalf : M2 (n1 - 1) = 2 * M2 (n1 - 2) := by
      have := M2_succ (n1 - 2); rwa [show n1 - 2 + 1 = n1 - 1 by omega] at this
    have hq : x / ((2 ^ k : Nat) : Int) < M2 (n1 - 2) := by
      apply Int.ediv_lt_of_lt_mul hD
      have := M2_pos (n1 - 2)
      nlinarith
    have := M2_pos (n1 - 2)
    omega

/-- `rawbb(a.bits())`, `roundingMode(k)`, arithmetic `>>= k`, `++`, `_block = rawbb` with k = r1 − r2 ≥ 1: the source value rounded
    to the nearest multiple of 2^-r2 (ties to even), wrapped into n2 bits — n2 on either side of n1, k up to and including n1 -/
theorem resizeRound_spec {w n1 r1 n2 r2 : Nat} (hw : 0 < w) (hn1 : 0 < n1) (hn2 : 0 < n2) (hr : r2 < r1) (hr1 : r1 - r2 ≤ n1)
    (h64 : Fixpnt.Ok w (rawWidth n1 r1 r2)) {src : List Nat} (hs : Canon w n1 src) :
    Canon w n2 (resizeRound w n1 r1 n2 r2 src) ∧
    toNat w (resizeRound w n1 r1 n2 r2 src) = ConvFixpntSpec.resize n1 r1 n2 r2 false (toNat w src) := by
  unfold resizeRound
  unfold rawWidth at h64
  simp only
  generalize hM : (if r1 - r2 = n1 then n1 + 1 else n1) = M at *
  generalize hraw : (if r1 - r2 = n1 then BB.assign w (n1 + 1) n1 src else src) = raw
  have hMpos : 0 < M := by rw [← hM]; split <;> omega
  have hkM : r1 - r2 < M := by rw [← hM]; split <;> omega
  -- the block the rounding runs in holds the source value
  have hrawc : Canon w M raw ∧ toInt w M raw = toInt w n1 src := by
    by_cases hk : r1 - r2 = n1
    · rw [if_pos hk] at hM hraw
      rw [← hM, ← hraw]
      exact BB.assign_widen hw hn1 (by omega) hs
    · rw [if_neg hk] at hM hraw
      rw [← hM, ← hraw]
      exact ⟨hs, rfl⟩
  obtain ⟨craw, vraw⟩ := hrawc
  have hrne := Fixpnt.roundUp_rne hw craw hMpos hkM vraw
  obtain ⟨cs, vs⟩ := BB.shr_spec hw hMpos craw hkM
  rw [vraw] at vs
  obtain ⟨ci, vi⟩ := Fixpnt.inc_modEq hw hMpos h64 cs vs (BB.roundingMode w M raw (r1 - r2))
  obtain ⟨x1, x2⟩ := BB.toInt_range (w := w) hn1 src
  obtain ⟨f1, f2⟩ := rounded_fits hn1 (show 0 < r1 - r2 by omega) hM.symm hkM x1 x2
    (if BB.roundingMode w M raw (r1 - r2) then 1 else 0) (by split <;> omega) (by split <;> omega)
  -- the pattern after `++` is the rounded value exactly
  have hexact : toSigned M (toNat w (if BB.roundingMode w M raw (r1 - r2) = true then BB.inc w M (BB.shr w M raw ((r1 - r2 : Nat) : Int))
      else BB.shr w M raw ((r1 - r2 : Nat) : Int)))
      = toInt w n1 src / ((2 ^ (r1 - r2) : Nat) : Int) + (if BB.roundingMode w M raw (r1 - r2) then 1 else 0) := by
    rw [eq_ofSigned_of_modEq ci.2.2 vi]
    exact toSigned_ofSigned_fits hMpos f1 f2
  have hspec : ConvFixpntSpec.resize n1 r1 n2 r2 false (toNat w src)
      = ofSigned n2 (toInt w n1 src / ((2 ^ (r1 - r2) : Nat) : Int) + (if BB.roundingMode w M raw (r1 - r2) then 1 else 0)) := by
    unfold ConvFixpntSpec.resize ConvFixpntSpec.fromRat FixpntSpec.finish
    simp only [Bool.false_eq_true, if_false]
    rw [value_scale_down (le_of_lt hr)]
    show ofSigned n2 (rne (((toInt w n1 src : Int) : Rat) / _)) = _
    rw [hrne]
  rw [hspec]
  obtain ⟨ca, va⟩ := BB.assign_spec (n := n2) hw hn2 hMpos ci
  exact ⟨ca, by rw [va, hexact]⟩

/-! ### every pair of configurations, Modulo -/

theorem resizeM_spec {w n1 r1 n2 r2 : Nat} (hw : 0 < w) (hn1 : 0 < n1) (hn2 : 0 < n2) (hk : r1 - r2 ≤ n1)
    (h64 : Fixpnt.Ok w (rawWidth n1 r1 r2)) {src : List Nat} (hs : Canon w n1 src) :
    Canon w n2 (resizeM w n1 r1 n2 r2 src) ∧
    toNat w (resizeM w n1 r1 n2 r2 src) = ConvFixpntSpec.resize n1 r1 n2 r2 false (toNat w src) := by
  by_cases hr : r2 < r1
  · have e : resizeM w n1 r1 n2 r2 src = resizeRound w n1 r1 n2 r2 src := by
      unfold resizeM
      simp only
      by_cases hle : n1 ≤ n2
      · rw [if_pos hle, if_pos hr]
      · rw [if_neg hle, if_pos hr]
    rw [e]
    exact resizeRound_spec hw hn1 hn2 hr hk h64 hs
  · rw [spec_up (by omega)]
    exact resize_up_spec hw hn1 hn2 (by omega) hs

/-! ### Saturate: the comparison runs on the exact aligned integer -/

theorem spec_eq_aligned (n1 r1 n2 r2 : Nat) (sat : Bool) (p : Nat) :
    ConvFixpntSpec.resize n1 r1 n2 r2 sat p = FixpntSpec.finish n2 sat (alignedZ n1 r1 r2 p) := by
  rw [spec_resize_eq, resizeZ_eq_aligned]

/-- dropping every bit of an n-bit value (division by 2^n, ties to even) gives 0 -/
theorem rne_drop_all {D : Int} {x : Int} (hD : 0 < D) (h1 : -D ≤ 2 * x) (h2 : 2 * x < D) :
    x / D + rneInc (x % D) D (x / D) = 0 := by
  unfold rneInc
  by_cases hx : 0 ≤ x
  · obtain ⟨e1, e2⟩ := (Int.ediv_emod_unique hD).mpr (show x + D * 0 = x ∧ 0 ≤ x ∧ x < D from ⟨by ring, hx, by omega⟩)
    rw [e1, e2, if_neg (by omega)]; rfl
  · obtain ⟨e1, e2⟩ := (Int.ediv_emod_unique hD).mpr (show (x + D) + D * (-1) = x ∧ 0 ≤ x + D ∧ x + D < D from ⟨by ring, by omega, by omega⟩)
    rw [e1, e2, if_pos]
    · rfl
    · by_cases h : 2 * (x + D) > D
      · exact Or.inl h
      · exact Or.inr ⟨by omega, by decide⟩

/-- the aligned integer fits `n1 + (r2 − r1)` bits: that width holds every value the Saturate branch compares -/
theorem aligned_fits {n1 r1 r2 : Nat} (hn1 : 0 < n1) (hk : r1 - r2 ≤ n1) (p : Nat) :
    -(M2 (n1 + (r2 - r1) - 1)) ≤ alignedZ n1 r1 r2 p ∧ alignedZ n1 r1 r2 p < M2 (n1 + (r2 - r1) - 1) := by
  obtain ⟨x1, x2⟩ := toSigned_range hn1 p
  unfold alignedZ
  simp only
  by_cases hr : r1 ≤ r2
  · rw [if_pos hr]
    have e : M2 (n1 + (r2 - r1) - 1) = M2 (n1 - 1) * ((2 ^ (r2 - r1) : Nat) : Int) := by
      unfold M2
      rw [show n1 + (r2 - r1) - 1 = (n1 - 1) + (r2 - r1) by omega, Nat.pow_add]
      push_cast; ring
    have hD : (0 : Int) < ((2 ^ (r2 - r1) : Nat) : Int) := by exact_mod_cast Nat.two_pow_pos _
    rw [e]
    constructor <;> nlinarith
  · rw [if_neg hr]
    have e0 : r2 - r1 = 0 := by omega
    rw [e0, Nat.add_zero]
    by_cases hkn : r1 - r2 = n1
    · have hD : (0 : Int) < ((2 ^ (r1 - r2) : Nat) : Int) := by exact_mod_cast Nat.two_pow_pos _
      have hDM : ((2 ^ (r1 - r2) : Nat) : Int) = 2 * M2 (n1 - 1) := by
        rw [hkn]
        have := M2_succ (n1 - 1); rwa [Nat.sub_add_cancel hn1] at this
      rw [rne_drop_all hD (by omega) (by omega)]
      have := M2_pos (n1 - 1)
      omega
    · have hi : (0 : Int) ≤ rneInc (toSigned n1 p % ((2 ^ (r1 - r2) : Nat) : Int)) ((2 ^ (r1 - r2) : Nat) : Int) (toSigned n1 p / ((2 ^ (r1 - r2) : Nat) : Int)) ∧
          rneInc (toSigned n1 p % ((2 ^ (r1 - r2) : Nat) : Int)) ((2 ^ (r1 - r2) : Nat) : Int) (toSigned n1 p / ((2 ^ (r1 - r2) : Nat) : Int)) ≤ 1 := by
        unfold rneInc; split <;> omega
      exact rounded_fits hn1 (show 0 < r1 - r2 by omega) (show n1 = if r1 - r2 = n1 then n1 + 1 else n1 by rw [if_neg hkn]) (by omega)
        x1 x2 _ hi.1 hi.2

/-- the widest blockbinary the adapter instantiates besides source and target: `rawbb` (Modulo path) and the comparison width of
    the Saturate branch -/
def wideWidth (n1 r1 r2 : Nat) : Nat := max (rawWidth n1 r1 r2) (n1 + (r2 - r1))

/-- the repaired size adapter, every pair of configurations, both arithmetic modes: the source value rounded to the nearest multiple
    of 2^-r2 (ties to even), then wrapped (Modulo) or clamped to [maxneg, maxpos] (Saturate) -/
theorem resize_spec {w n1 r1 n2 r2 : Nat} (hw : 0 < w) (hn1 : 0 < n1) (hn2 : 0 < n2) (hk : r1 - r2 ≤ n1)
    (h64 : Fixpnt.Ok w (wideWidth n1 r1 r2)) (sat : Bool) {src : List Nat} (hs : Canon w n1 src) (prev : List Nat) :
    Canon w n2 (resize w n1 r1 n2 r2 sat src prev) ∧
    toNat w (resize w n1 r1 n2 r2 sat src prev) = ConvFixpntSpec.resize n1 r1 n2 r2 sat (toNat w src) := by
  have h64r : Fixpnt.Ok w (rawWidth n1 r1 r2) := h64.mono (by unfold wideWidth; omega)
  have h64W : Fixpnt.Ok w (n1 + (r2 - r1)) := h64.mono (by unfold wideWidth; omega)
  obtain ⟨cm, vm⟩ := resizeM_spec (n2 := n2) hw hn1 hn2 hk h64r hs
  obtain ⟨z1, z2⟩ := aligned_fits hn1 hk (toNat w src)
  rw [spec_eq_aligned] at vm ⊢
  generalize hz : alignedZ n1 r1 r2 (toNat w src) = z at *
  have hfalse : FixpntSpec.finish n2 false z = ofSigned n2 z := by unfold FixpntSpec.finish; simp
  rw [hfalse] at vm
  unfold resize
  simp only
  generalize hW : n1 + (r2 - r1) = W at *
  have hWpos : 0 < W := by omega
  by_cases hc : (sat && decide (W > n2)) = true
  · rw [if_pos hc]
    simp only [Bool.and_eq_true, decide_eq_true_eq] at hc
    obtain ⟨hsat, hWn⟩ := hc
    subst hsat
    -- the wide Modulo result holds the aligned integer exactly
    obtain ⟨cc, vc⟩ := resizeM_spec (n2 := W) hw hn1 hWpos hk h64r hs
    rw [spec_eq_aligned, hz, show FixpntSpec.finish W false z = ofSigned W z by unfold FixpntSpec.finish; simp] at vc
    have hcz : toInt w W (resizeM w n1 r1 W r2 src) = z := by
      unfold toInt; rw [vc]; exact toSigned_ofSigned_fits hWpos z1 z2
    obtain ⟨mp, mpv⟩ := BB.maxpos_toInt (w := w) hw hn2
    obtain ⟨mn, mnv⟩ := BB.maxneg_toInt (w := w) hw hn2
    obtain ⟨sp, spv⟩ := BB.assign_widen (n := W) hw hn2 (le_of_lt hWn) mp
    obtain ⟨sn, snv⟩ := BB.assign_widen (n := W) hw hn2 (le_of_lt hWn) mn
    rw [mpv] at spv
    rw [mnv] at snv
    rw [BB.ge_spec hw hWpos h64W cc sp, BB.le_spec hw hWpos h64W cc sn, spv, snv, hcz]
    unfold FixpntSpec.finish
    simp only [if_true]
    by_cases h1 : FixpntSpec.maxposZ n2 ≤ z
    · rw [decide_eq_true h1, if_pos rfl, Fixpnt.clamp_le_maxpos h1]
      refine ⟨mp, ?_⟩
      rw [← mpv]; unfold toInt; exact (ofSigned_toSigned_of_lt mp.2.2).symm
    · rw [decide_eq_false h1, if_neg (by simp)]
      by_cases h2 : z ≤ FixpntSpec.maxnegZ n2
      · rw [decide_eq_true h2, if_pos rfl, Fixpnt.clamp_le_maxneg h1 h2]
        refine ⟨mn, ?_⟩
        rw [← mnv]; unfold toInt; exact (ofSigned_toSigned_of_lt mn.2.2).symm
      · rw [decide_eq_false h2, if_neg (by simp), Fixpnt.clamp_inside h1 h2]
        exact ⟨cm, vm⟩
  · rw [if_neg hc]
    refine ⟨cm, ?_⟩
    rw [vm]
    cases sat
    · exact hfalse.symm
    · -- Saturate, but the aligned integer always fits the target: clamp = identity
      simp only [Bool.true_and, decide_eq_true_eq] at hc
      unfold FixpntSpec.finish
      simp only [if_true]
      have := BB.M2_mono (show W - 1 ≤ n2 - 1 by omega)
      rw [clamp_of_range (by omega) (by omega)]

end UVerif.ConvFixpnt
