/-
  Lemmas about the fixpnt size adapter `fixpnt<n2,r2> = fixpnt<n1,r1>` (UVerif.ConvFixpnt.resize, the limb-list model of
  fixpnt_impl.hpp:172-211) against the specification UVerif.ConvFixpntSpec.resize (round-half-even of value·2^r2, then wrap / clamp).

  * `spec_resize_eq`     : the Rat specification in integer terms (`resizeZ`), so that concrete witnesses are decidable on Int;
  * `resize_widen_spec`  : widening with the same number of fraction bits = sign extension (value preserved, both modes);
  * `resize_narrow_spec` : narrowing with fewer fraction bits = the correctly rounded (ties to even) value, wrapped into n2 bits.
-/
import UVerifProofs.Lemmas.Fixpnt
import UVerif.Model.ConvFixpnt
import UVerif.Spec.ConvFixpnt

namespace UVerif.ConvFixpnt
open UVerif UVerif.Limbs

/-! ### the specification in integer terms -/

/-- `ConvFixpntSpec.resize` on integers: the raw source integer `x` is scaled up exactly when the target has at least as many
    fraction bits, and divided by 2^(r1−r2) with the round-half-even increment otherwise -/
def resizeZ (n1 r1 n2 r2 : Nat) (sat : Bool) (p : Nat) : Nat :=
  let x := toSigned n1 p
  if r1 ≤ r2 then FixpntSpec.finish n2 sat (x * ((2 ^ (r2 - r1) : Nat) : Int))
  else
    let D : Int := ((2 ^ (r1 - r2) : Nat) : Int)
    FixpntSpec.finish n2 sat (x / D + rneInc (x % D) D (x / D))

theorem rne_intCast (z : Int) : rne (z : Rat) = z := by
  have h := rne_int_div z 1 Nat.one_pos
  simp only [Nat.cast_one, div_one, Int.ediv_one, Int.emod_one] at h
  rw [h]
  simp

/-- scaling the value by 2^r2 when r2 ≤ r1: the raw integer over 2^(r1−r2) -/
theorem value_scale_down {n1 r1 r2 : Nat} (h : r2 ≤ r1) (p : Nat) :
    ConvFixpntSpec.value n1 r1 p * ((2 ^ r2 : Nat) : Rat) = ((toSigned n1 p : Int) : Rat) / ((2 ^ (r1 - r2) : Nat) : Rat) := by
  unfold ConvFixpntSpec.value
  have e : (2 : Rat) ^ r1 = 2 ^ (r1 - r2) * 2 ^ r2 := by rw [← pow_add]; congr 1; omega
  push_cast
  rw [e]
  have h2 : (2 : Rat) ^ r2 ≠ 0 := pow_ne_zero _ (by norm_num)
  have h3 : (2 : Rat) ^ (r1 - r2) ≠ 0 := pow_ne_zero _ (by norm_num)
  field_simp

/-- scaling the value by 2^r2 when r1 ≤ r2: an integer -/
theorem value_scale_up {n1 r1 r2 : Nat} (h : r1 ≤ r2) (p : Nat) :
    ConvFixpntSpec.value n1 r1 p * ((2 ^ r2 : Nat) : Rat) = ((toSigned n1 p * ((2 ^ (r2 - r1) : Nat) : Int) : Int) : Rat) := by
  unfold ConvFixpntSpec.value
  have e : (2 : Rat) ^ r2 = 2 ^ (r2 - r1) * 2 ^ r1 := by rw [← pow_add]; congr 1; omega
  push_cast
  rw [e]
  have h2 : (2 : Rat) ^ r1 ≠ 0 := pow_ne_zero _ (by norm_num)
  field_simp

theorem spec_resize_eq (n1 r1 n2 r2 : Nat) (sat : Bool) (p : Nat) :
    ConvFixpntSpec.resize n1 r1 n2 r2 sat p = resizeZ n1 r1 n2 r2 sat p := by
  unfold ConvFixpntSpec.resize ConvFixpntSpec.fromRat resizeZ
  simp only
  by_cases h : r1 ≤ r2
  · rw [if_pos h, value_scale_up h, rne_intCast]
  · rw [if_neg h, value_scale_down (by omega), rne_int_div' _ _ (Nat.two_pow_pos _)]

/-! ### widening, same number of fraction bits -/

/-- a value inside the n-bit range is its own clamp -/
theorem clamp_of_range {n : Nat} {z : Int} (h1 : -(M2 (n - 1)) ≤ z) (h2 : z < M2 (n - 1)) : FixpntSpec.clamp n z = z := by
  apply Fixpnt.clamp_inside'
  · unfold FixpntSpec.maxnegZ; exact h1
  · unfold FixpntSpec.maxposZ; unfold M2 at h2; omega

/-- the specification of a widening that keeps the fraction bits: the sign-extended pattern, in both modes -/
theorem spec_widen_same {n1 n2 : Nat} (r : Nat) (hn1 : 0 < n1) (hle : n1 ≤ n2) (sat : Bool) (p : Nat) :
    ConvFixpntSpec.resize n1 r n2 r sat p = ofSigned n2 (toSigned n1 p) := by
  rw [spec_resize_eq]
  unfold resizeZ
  simp only
  rw [if_pos (le_refl _), Nat.sub_self, Nat.pow_zero, Nat.cast_one, mul_one]
  unfold FixpntSpec.finish
  cases sat
  · simp
  · simp only [if_true]
    obtain ⟨r1, r2⟩ := toSigned_range hn1 p
    have := BB.M2_mono (show n1 - 1 ≤ n2 - 1 by omega)
    rw [clamp_of_range (by omega) (by omega)]

/-- the explicit sign-extension loop after `_block = a.bits()` sets bits that are already set -/
theorem resize_widen_spec {w n1 n2 : Nat} (r : Nat) (hw : 0 < w) (hn1 : 0 < n1) (hle : n1 ≤ n2) {src : List Nat}
    (hs : Canon w n1 src) (prev : List Nat) :
    Canon w n2 (resize w n1 r n2 r src prev) ∧
    toNat w (resize w n1 r n2 r src prev) = ofSigned n2 (toSigned n1 (toNat w src)) := by
  have hn2 : 0 < n2 := by omega
  obtain ⟨ca, va⟩ := BB.assign_spec (n := n2) hw hn2 hn1 hs
  unfold resize
  rw [if_pos hle]
  simp only
  by_cases hc : (decide (n1 < n2) && BB.sign w n1 src) = true
  · rw [if_pos hc]
    simp only [Bool.and_eq_true, decide_eq_true_eq] at hc
    obtain ⟨hlt, hsg⟩ := hc
    rw [BB.sign_eq hw hn1 hs.2.1] at hsg
    obtain ⟨p1, p2, p3⟩ := setRange_props hw ca.2.1 n1 n2 true hle (by rw [ca.1]; exact nrBlocks_hi hw hn2)
    have hv : toNat w (setRange w (BB.assign w n2 n1 src) n1 n2 true) = toNat w (BB.assign w n2 n1 src) := by
      apply Nat.eq_of_testBit_eq
      intro j
      rw [p3 j]
      by_cases hj : n1 ≤ j ∧ j < n2
      · rw [if_pos hj, va, testBit_signext hn1 hle hs.2.2, if_neg (by omega), hsg]
        simp [hj.2]
      · rw [if_neg hj]
    refine ⟨⟨by rw [p1, ca.1], p2, by rw [hv]; exact ca.2.2⟩, by rw [hv, va]⟩
  · rw [if_neg hc]
    exact ⟨ca, va⟩

/-! ### narrowing with fewer fraction bits -/

/-- `roundingMode(r1−r2)`, arithmetic `>>= r1−r2`, `++`, narrowing `assign`: the source value rounded to the nearest multiple of
    2^-r2 (ties to even), wrapped into n2 bits -/
theorem resize_narrow_spec {w n1 r1 n2 r2 : Nat} (hw : 0 < w) (hn2 : 0 < n2) (hlt : n2 < n1) (hr : r2 < r1) (hd : r1 - r2 < n1)
    (h64 : Fixpnt.Ok w n1) {src : List Nat} (hs : Canon w n1 src) (prev : List Nat) :
    Canon w n2 (resize w n1 r1 n2 r2 src prev) ∧
    toNat w (resize w n1 r1 n2 r2 src prev) = ConvFixpntSpec.resize n1 r1 n2 r2 false (toNat w src) := by
  have hn1 : 0 < n1 := by omega
  have hrne := Fixpnt.roundUp_rne hw hs hn1 hd (p := toInt w n1 src) rfl
  obtain ⟨cs, vs⟩ := BB.shr_spec hw hn1 hs hd
  obtain ⟨ci, vi⟩ := Fixpnt.inc_modEq hw hn1 h64 cs vs (BB.roundingMode w n1 src (r1 - r2))
  have hspec : ConvFixpntSpec.resize n1 r1 n2 r2 false (toNat w src)
      = ofSigned n2 (toInt w n1 src / ((2 ^ (r1 - r2) : Nat) : Int) + (if BB.roundingMode w n1 src (r1 - r2) then 1 else 0)) := by
    unfold ConvFixpntSpec.resize ConvFixpntSpec.fromRat FixpntSpec.finish
    simp only [Bool.false_eq_true, if_false]
    rw [value_scale_down (le_of_lt hr)]
    show ofSigned n2 (rne (((toInt w n1 src : Int) : Rat) / _)) = _
    rw [hrne]
  rw [hspec]
  unfold resize
  rw [if_neg (by omega), if_pos (by omega)]
  simp only
  exact Fixpnt.assign_wrap hw hn2 hn1 (le_of_lt hlt) ci vi

end UVerif.ConvFixpnt
