/-
  UVerifProofs.Lemmas.ConvFixpntRoundtrip — fixpnt → double → fixpnt in SATURATE arithmetic (C04, fixpnt clause).

  The double read from an encoding of at most 53 bits is exact (`toNative_fin`), its bit pattern has the fields of
  `toBits64_fields`, so its value as `SpecF64.valOf` is ±X·2^−rbits with X the magnitude of the raw integer; the Saturate
  conversion of a normal finite double is the clamp of the correctly rounded scaled value (`fromIeee_saturate`, which holds for
  every nbits since the repair "fixpnt Saturate conversion from float or double must clamp values that round up beyond maxpos");
  the scaled value is the raw integer itself, inside the range: the encoding comes back.
-/
import UVerifProofs.Lemmas.ConvFixpntFrom
import UVerifProofs.Lemmas.ConvFixpntTo

namespace UVerif.ConvFixpnt
open UVerif UVerif.Limbs UVerif.F64 UVerif.ConvFixpntLemmas

/-- the exact value of the binary64 pattern of ±X·2^(1074−r) (0 < X < 2^53, r ≤ 1022): ±X / 2^r, and the pattern is normal, finite -/
theorem valOf_toBits64_scaled (s : Bool) {X r : Nat} (hX : 0 < X) (hX53 : X < 2 ^ 53) (hr : r ≤ 1022) :
    0 < (toBits 53 11 (F.fin s (X * 2 ^ (1074 - r))) >>> 52) % 2 ^ 11 ∧
    (toBits 53 11 (F.fin s (X * 2 ^ (1074 - r))) >>> 52) % 2 ^ 11 < 2 ^ 11 - 1 ∧
    SpecF64.valOf 53 11 (toBits 53 11 (F.fin s (X * 2 ^ (1074 - r)))) * ((2 ^ r : Nat) : Rat) = sgnQ s (X : Rat) := by
  have h1 : 2 ^ X.log2 ≤ X := Nat.log2_self_le (by omega)
  have hL : X.log2 ≤ 52 := by
    by_contra hc
    have : 2 ^ 53 ≤ 2 ^ X.log2 := Nat.pow_le_pow_right (by omega) (by omega)
    omega
  obtain ⟨f1, f2, f3⟩ := toBits64_fields s (k := 1074 - r) hX hX53 (by omega) (by omega)
  generalize toBits 53 11 (F.fin s (X * 2 ^ (1074 - r))) = bits at *
  generalize hLd : X.log2 = L at *
  have hMlo : 2 ^ 52 ≤ X * 2 ^ (52 - L) := by
    have : 2 ^ 52 = 2 ^ L * 2 ^ (52 - L) := by rw [← Nat.pow_add]; congr 1; omega
    rw [this]; exact Nat.mul_le_mul_right _ h1
  refine ⟨by rw [f2]; omega, by rw [f2]; norm_num; omega, ?_⟩
  have hexp : 0 < (bits >>> 52) % 2 ^ 11 := by rw [f2]; omega
  have hv := valOf_normal 11 52 bits hexp
  rw [show (52 + 1 : Nat) = 53 from rfl] at hv
  rw [hv, show (11 + 52 : Nat) = 63 from rfl, f1, f2, f3, Nat.sub_add_cancel hMlo, sgnQ_mul]
  congr 1
  have hb : (((2 ^ (11 - 1) : Nat) : Int)) = 1024 := by norm_num
  rw [hb, Nat.cast_mul, mul_assoc, mul_assoc, ← pow2_natCast (52 - L), ← pow2_natCast r, ← pow2_add, ← pow2_add]
  have hz : ((52 - L : Nat) : Int) + ((((L + (1074 - r) - 51 : Nat)) : Int) - (1024 - 1) - ((52 : Nat) : Int) + (r : Int)) = 0 := by
    omega
  rw [hz]
  simp [pow2]

/-- fixpnt → double → fixpnt (SATURATE) is the identity for nbits ≤ 53 -/
theorem roundtrip_double_sat {n r p : Nat} (hr : r ≤ n) (hn0 : 0 < n) (hn : n ≤ 53) (hp : p < 2 ^ n) :
    fromIeee n r true 11 52 (toBits64 (toNative binary64 n r p)) = p := by
  have hq : binary64.q = 1074 := by decide
  have hP : binary64.p = 53 := by decide
  have hT : binary64.top = 2098 := by decide
  have hpw : 2 ^ n = 2 ^ (n - 1) * 2 := by rw [← Nat.pow_succ]; congr 1; omega
  have hpos := Nat.two_pow_pos (n - 1)
  have hn53 : 2 ^ n ≤ 2 ^ 53 := Nat.pow_le_pow_right (by omega) hn
  have hsg : signP n p = decide (2 ^ (n - 1) ≤ p) := by unfold signP; exact testBit_top hn0 hp
  -- the common tail: for the exact double of ±X (0 < X, the signed raw integer in range) the encoding of ±X comes back
  have key : ∀ (s : Bool) (X : Nat), 0 < X → X < 2 ^ 53 →
      FixpntSpec.maxnegZ n ≤ sgnZ s (X : Int) → sgnZ s (X : Int) ≤ FixpntSpec.maxposZ n →
      fromIeee n r true 11 52 (toBits 53 11 (F.fin s (X * 2 ^ (1074 - r)))) = ofSigned n (sgnZ s (X : Int)) := by
    intro s X hX hX53 hlo hhi
    obtain ⟨g1, g2, g3⟩ := valOf_toBits64_scaled s (r := r) hX hX53 (by omega)
    rw [fromIeee_saturate n r 11 52 _ hn0 hr (by omega) (by omega) (by decide) (by decide) g1 g2]
    unfold ConvFixpntSpec.fromRat FixpntSpec.finish
    simp only [if_true]
    rw [show (52 + 1 : Nat) = 53 from rfl, g3]
    have hrn : rne (sgnQ s (X : Rat)) = sgnZ s (X : Int) := by
      have := rne_sgn_div s X 0
      rw [rneShr_zero] at this
      simpa using this
    rw [hrn, Fixpnt.clamp_inside' hlo hhi]
  unfold toBits64
  rw [toNative_eq]
  by_cases hneg : 2 ^ (n - 1) ≤ p
  · rw [hsg, decide_eq_true hneg, if_pos rfl]
    have hmag : twosComp n p = 2 ^ n - p := by
      unfold twosComp
      rw [Nat.mod_eq_of_lt hp, Nat.mod_eq_of_lt (by omega)]
    have hmlt : twosComp n p < 2 ^ n := by rw [hmag]; omega
    rw [toNative_fin binary64 binary64_ok (by rw [hq]; omega) (by rw [hP]; exact hn) (by rw [hq, hT]; omega) hmlt, hq, hmag]
    simp only [F.neg, Bool.not_false]
    have hc : ((2 ^ n - p : Nat) : Int) = ((2 ^ n : Nat) : Int) - (p : Int) := by
      rw [Nat.cast_sub (by omega)]
    have hpwi : ((2 ^ n : Nat) : Int) = ((2 ^ (n - 1) : Nat) : Int) * 2 := by rw [hpw]; push_cast; ring
    have hpi : ((2 ^ (n - 1) : Nat) : Int) ≤ (p : Int) := by exact_mod_cast hneg
    have hpi2 : (p : Int) < ((2 ^ n : Nat) : Int) := by exact_mod_cast hp
    rw [key true (2 ^ n - p) (by omega) (by omega)
      (by simp only [sgnZ, if_true]; unfold FixpntSpec.maxnegZ; rw [hc]; omega)
      (by simp only [sgnZ, if_true]; unfold FixpntSpec.maxposZ; rw [hc]; omega)]
    simp only [sgnZ, if_true]
    rw [hc]
    have : ofSigned n (-(((2 ^ n : Nat) : Int) - (p : Int))) = ofSigned n ((p : Int)) := by
      apply ofSigned_congr
      refine ⟨-1, ?_⟩
      ring
    rw [this, ofSigned_natCast, Nat.mod_eq_of_lt hp]
  · rw [hsg, decide_eq_false hneg, if_neg (by simp), Nat.mod_eq_of_lt hp]
    rw [toNative_fin binary64 binary64_ok (by rw [hq]; omega) (by rw [hP]; exact hn) (by rw [hq, hT]; omega) hp, hq]
    by_cases h0 : p = 0
    · subst h0
      rw [Nat.zero_mul]
      have : toBits 53 11 (F.fin false 0) = 0 := by decide
      rw [this]
      unfold fromIeee
      simp
    · have hpi : (p : Int) < ((2 ^ (n - 1) : Nat) : Int) := by exact_mod_cast (show p < 2 ^ (n - 1) by omega)
      rw [key false p (by omega) (by omega)
        (by simp only [sgnZ, Bool.false_eq_true, if_false]; unfold FixpntSpec.maxnegZ; omega)
        (by simp only [sgnZ, Bool.false_eq_true, if_false]; unfold FixpntSpec.maxposZ; omega)]
      simp only [sgnZ, Bool.false_eq_true, if_false]
      rw [ofSigned_natCast, Nat.mod_eq_of_lt hp]

end UVerif.ConvFixpnt
