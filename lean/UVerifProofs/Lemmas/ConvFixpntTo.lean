/-
  Lemmas about the read-back conversions of fixpnt (UVerif.ConvFixpnt.toNative / toSignedPat / toUnsignedPat, the models of
  `to_native<TargetFloat>`, `to_signed<NativeInt>`, `to_unsigned<NativeInt>` of fixpnt_impl.hpp:773-831).

  * `toNative_loop`    : invariant of the accumulation loop — after the bits below `m` the accumulator holds
                         `mag % 2^m` in units of 2^-r exactly (every partial sum has at most nbits ≤ p significant bits);
  * `toNative_spec`    : the result is finite and its exact value is the value of the encoding;
  * `toSignedPat_floor`: the integer read is the FLOOR of the value;
  * `spec_toInt_eq`    : the specification (truncation toward zero, on Rat) in integer terms (`Int.tdiv`).
-/
import UVerifProofs.Lemmas.F64Lift
import UVerifProofs.Lemmas.Bits
import UVerifProofs.Lemmas.Pow2
import UVerif.Model.ConvFixpnt
import UVerif.Spec.ConvFixpnt
import Mathlib.Data.Rat.Floor
import UVerifProofs.Lemmas.LnsRound
import UVerifProofs.Lemmas.IeeeExact

namespace UVerif.ConvFixpnt
open UVerif UVerif.Limbs UVerif.F64

/-! ### to_native -/

/-- one iteration of `for (i = 0; i < nbits; ++i) { if (bits.at(i)) value += multiplier; multiplier *= 2; }` -/
def nativeStep (fmt : Fmt) (r mag : Nat) (acc : F) (i : Nat) : F :=
  if mag.testBit i then F64.add fmt acc (.fin false (2 ^ (i + fmt.q - r))) else acc

theorem toNative_eq (fmt : Fmt) (n r p : Nat) :
    toNative fmt n r p =
      (if signP n p then ((List.range n).foldl (nativeStep fmt r (twosComp n p)) (F.fin false 0)).neg
       else (List.range n).foldl (nativeStep fmt r (p % 2 ^ n)) (F.fin false 0)) := by
  unfold toNative nativeStep
  by_cases h : signP n p = true <;> simp [h]

/-- a magnitude of at most n ≤ p bits scaled by 2^e stays below the overflow threshold when n + e ≤ top -/
theorem scaled_le_maxMag (fmt : Fmt) (hpt : fmt.p ≤ fmt.top) {X n e : Nat} (hX : X < 2 ^ n) (hn : n ≤ fmt.p)
    (htop : n + e ≤ fmt.top) : X * 2 ^ e ≤ maxMag fmt := by
  unfold maxMag
  have hXp : X ≤ 2 ^ fmt.p - 1 := by
    have := Nat.pow_le_pow_right (show 0 < 2 by omega) hn
    omega
  by_cases he : e ≤ fmt.top - fmt.p
  · exact Nat.mul_le_mul hXp (Nat.pow_le_pow_right (by omega) he)
  · have hsplit : 2 ^ e = 2 ^ (e - (fmt.top - fmt.p)) * 2 ^ (fmt.top - fmt.p) := by
      rw [← Nat.pow_add]; congr 1; omega
    rw [hsplit, ← Nat.mul_assoc]
    apply Nat.mul_le_mul_right
    generalize hd : e - (fmt.top - fmt.p) = d
    have hnd : n + d ≤ fmt.p := by omega
    have h1 : X * 2 ^ d ≤ (2 ^ n - 1) * 2 ^ d := Nat.mul_le_mul_right _ (by omega)
    have h2 : (2 ^ n - 1) * 2 ^ d = 2 ^ (n + d) - 2 ^ d := by
      rw [Nat.sub_mul, ← Nat.pow_add, Nat.one_mul]
    have h3 : 2 ^ (n + d) ≤ 2 ^ fmt.p := Nat.pow_le_pow_right (by omega) hnd
    have h4 := Nat.two_pow_pos d
    omega

/-- the loop invariant: finite, and exactly `mag % 2^m` units of 2^-r -/
theorem toNative_loop (fmt : Fmt) (ok : fmt.Ok) {n r mag : Nat} (hr : r ≤ fmt.q) (hn : n ≤ fmt.p)
    (htop : n + fmt.q - r ≤ fmt.top) :
    ∀ m, m ≤ n →
      ((List.range m).foldl (nativeStep fmt r mag) (F.fin false 0)).isFinite = true ∧
      ((List.range m).foldl (nativeStep fmt r mag) (F.fin false 0)).toInt = (((mag % 2 ^ m) * 2 ^ (fmt.q - r) : Nat) : Int) := by
  intro m
  induction m with
  | zero =>
    intro _
    simp [F.isFinite, F.toInt, Nat.mod_one]
  | succ m ih =>
    intro hm
    obtain ⟨hf, hv⟩ := ih (by omega)
    rw [List.range_succ, List.foldl_append, List.foldl_cons, List.foldl_nil]
    generalize (List.range m).foldl (nativeStep fmt r mag) (F.fin false 0) = acc at hf hv
    unfold nativeStep
    rw [mod_two_pow_succ' mag m]
    by_cases hb : mag.testBit m = true
    · rw [if_pos hb, if_pos hb]
      have hexp : m + fmt.q - r = m + (fmt.q - r) := by omega
      have hsum : acc.toInt + (F.fin false (2 ^ (m + fmt.q - r))).toInt
          = (((mag % 2 ^ m + 2 ^ m * 1) * 2 ^ (fmt.q - r) : Nat) : Int) := by
        rw [hv, hexp]
        simp only [F.toInt, Bool.false_eq_true, if_false]
        push_cast
        rw [pow_add]; ring
      have hlt : mag % 2 ^ m + 2 ^ m * 1 < 2 ^ n := by
        have h1 := Nat.mod_lt mag (Nat.two_pow_pos m)
        have h2 : 2 ^ (m + 1) ≤ 2 ^ n := Nat.pow_le_pow_right (by omega) hm
        rw [Nat.pow_succ] at h2
        omega
      have hfl : IsFloat fmt.p (acc.toInt + (F.fin false (2 ^ (m + fmt.q - r))).toInt) := by
        rw [hsum, isFloat_natCast]
        apply isFloatN_mul_two_pow
        exact isFloatN_of_lt (Nat.lt_of_lt_of_le hlt (Nat.pow_le_pow_right (by omega) hn))
      have hmax : (acc.toInt + (F.fin false (2 ^ (m + fmt.q - r))).toInt).natAbs ≤ maxMag fmt := by
        rw [hsum, Int.natAbs_natCast]
        exact scaled_le_maxMag fmt ok.hpt hlt hn (by omega)
      obtain ⟨hrep, hval⟩ := add_exact fmt (by have := ok.hp2; omega) ok.hpt hf (b := F.fin false (2 ^ (m + fmt.q - r))) rfl hmax hfl
      exact ⟨hrep.1, by rw [hval, hsum]⟩
    · rw [if_neg hb, if_neg hb]
      exact ⟨hf, by rw [hv]; simp⟩

/-- no bit set: the accumulator is never touched (sign of zero: +0) -/
theorem toNative_loop_zero (fmt : Fmt) (r : Nat) (acc : F) : ∀ l : List Nat, l.foldl (nativeStep fmt r 0) acc = acc
  | [] => rfl
  | i :: l => by
    rw [List.foldl_cons]
    have : nativeStep fmt r 0 acc i = acc := by unfold nativeStep; simp
    rw [this]; exact toNative_loop_zero fmt r acc l

theorem toRat_of_toInt (fmt : Fmt) {r : Nat} (hr : r ≤ fmt.q) (x : F) (z : Int)
    (h : x.toInt = z * (((2 ^ (fmt.q - r) : Nat) : Int))) :
    F64.toRat fmt x = (z : Rat) / ((2 ^ r : Nat) : Rat) := by
  unfold F64.toRat
  rw [h, pow2_eq_zpow, zpow_neg, zpow_natCast]
  have e : (2 : Rat) ^ fmt.q = 2 ^ (fmt.q - r) * 2 ^ r := by rw [← pow_add]; congr 1; omega
  push_cast
  rw [e]
  have h2 : (2 : Rat) ^ r ≠ 0 := pow_ne_zero _ (by norm_num)
  have h3 : (2 : Rat) ^ (fmt.q - r) ≠ 0 := pow_ne_zero _ (by norm_num)
  field_simp

/-- the whole loop on a magnitude below 2^n -/
theorem toNative_fold (fmt : Fmt) (ok : fmt.Ok) {n r mag : Nat} (hr : r ≤ fmt.q) (hn : n ≤ fmt.p)
    (htop : n + fmt.q - r ≤ fmt.top) (hmag : mag < 2 ^ n) :
    ((List.range n).foldl (nativeStep fmt r mag) (F.fin false 0)).isFinite = true ∧
    IsFloat fmt.p ((List.range n).foldl (nativeStep fmt r mag) (F.fin false 0)).toInt ∧
    ((List.range n).foldl (nativeStep fmt r mag) (F.fin false 0)).toInt = ((mag : Int)) * (((2 ^ (fmt.q - r) : Nat) : Int)) := by
  obtain ⟨hf, hv⟩ := toNative_loop fmt ok (mag := mag) hr hn htop n (le_refl _)
  rw [Nat.mod_eq_of_lt hmag] at hv
  refine ⟨hf, ?_, by rw [hv]; push_cast; ring⟩
  rw [hv, isFloat_natCast]
  apply isFloatN_mul_two_pow
  exact isFloatN_of_lt (Nat.lt_of_lt_of_le hmag (Nat.pow_le_pow_right (by omega) hn))

/-- `to_native<TargetFloat>`: finite, and exactly the value of the encoding, whenever nbits fits the significand -/
theorem toNative_spec (fmt : Fmt) (ok : fmt.Ok) {n r p : Nat} (hr : r ≤ fmt.q) (hn0 : 0 < n) (hn : n ≤ fmt.p)
    (htop : n + fmt.q - r ≤ fmt.top) (hp : p < 2 ^ n) :
    (toNative fmt n r p).isFinite = true ∧ IsFloat fmt.p (toNative fmt n r p).toInt ∧
    F64.toRat fmt (toNative fmt n r p) = ConvFixpntSpec.value n r p := by
  rw [toNative_eq]
  have hpw : 2 ^ n = 2 ^ (n - 1) * 2 := by rw [← Nat.pow_succ]; congr 1; omega
  have hpos := Nat.two_pow_pos (n - 1)
  have hsg : signP n p = decide (2 ^ (n - 1) ≤ p) := by unfold signP; exact testBit_top hn0 hp
  have hts := toSigned_of_lt hn0 hp
  unfold ConvFixpntSpec.value
  by_cases hneg : 2 ^ (n - 1) ≤ p
  · rw [hsg, decide_eq_true hneg, if_pos rfl]
    have hmag : twosComp n p = 2 ^ n - p := by
      unfold twosComp
      rw [Nat.mod_eq_of_lt hp, Nat.mod_eq_of_lt (by omega)]
    have hmlt : twosComp n p < 2 ^ n := by rw [hmag]; omega
    obtain ⟨hf, hfl, hv⟩ := toNative_fold fmt ok hr hn htop hmlt
    generalize (List.range n).foldl (nativeStep fmt r (twosComp n p)) (F.fin false 0) = acc at hf hfl hv
    refine ⟨by rw [F.neg_isFinite]; exact hf, by rw [F.neg_toInt]; exact isFloat_neg hfl, ?_⟩
    apply toRat_of_toInt fmt hr
    rw [F.neg_toInt, hv, hts, if_neg (by omega), hmag, Nat.cast_sub (le_of_lt hp)]
    ring
  · rw [hsg, decide_eq_false hneg, if_neg (by simp)]
    rw [Nat.mod_eq_of_lt hp]
    obtain ⟨hf, hfl, hv⟩ := toNative_fold fmt ok hr hn htop hp
    refine ⟨hf, hfl, ?_⟩
    apply toRat_of_toInt fmt hr
    rw [hv, hts, if_pos (by omega)]

/-- the sign of zero: the all-zero encoding reads +0 -/
theorem toNative_zero (fmt : Fmt) (n r : Nat) : toNative fmt n r 0 = F.fin false 0 := by
  rw [toNative_eq]
  have : signP n 0 = false := by unfold signP; simp
  rw [this]
  simp only [Bool.false_eq_true, if_false, Nat.zero_mod]
  exact toNative_loop_zero fmt r _ _

/-! ### to_signed / to_unsigned -/

/-- the specification of the integer read (truncation toward zero, on Rat) in integer terms -/
theorem spec_toInt_eq (n r p : Nat) : ConvFixpntSpec.toInt n r p = (toSigned n p).tdiv (((2 ^ r : Nat) : Int)) := by
  unfold ConvFixpntSpec.toInt truncZ ConvFixpntSpec.value
  generalize toSigned n p = x
  have hD : (0 : Int) < ((2 ^ r : Nat) : Int) := by exact_mod_cast Nat.two_pow_pos r
  have hDq : (0 : Rat) < ((2 ^ r : Nat) : Rat) := by exact_mod_cast Nat.two_pow_pos r
  have hfl : ∀ y : Int, ((y : Rat) / ((2 ^ r : Nat) : Rat)).floor = y / ((2 ^ r : Nat) : Int) := by
    intro y
    show ⌊(y : Rat) / ((2 ^ r : Nat) : Rat)⌋ = _
    exact Rat.floor_intCast_div_natCast y (2 ^ r)
  by_cases hx : 0 ≤ x
  · have : (x : Rat) / ((2 ^ r : Nat) : Rat) ≥ 0 := div_nonneg (by exact_mod_cast hx) (le_of_lt hDq)
    rw [if_pos this, hfl, Int.tdiv_eq_ediv_of_nonneg hx]
  · have hxn : x < 0 := by omega
    have : ¬ ((x : Rat) / ((2 ^ r : Nat) : Rat) ≥ 0) := by
      rw [ge_iff_le, not_le]
      exact div_neg_of_neg_of_pos (by exact_mod_cast hxn) hDq
    rw [if_neg this, Rat.ceil_eq_neg_floor_neg]
    have e : -((x : Rat) / ((2 ^ r : Nat) : Rat)) = (((-x : Int)) : Rat) / ((2 ^ r : Nat) : Rat) := by
      push_cast; ring
    rw [e, hfl]
    have h1 : x = -(-x) := by ring
    conv_rhs => rw [h1, Int.neg_tdiv, Int.tdiv_eq_ediv_of_nonneg (by omega : (0 : Int) ≤ -x)]

/-- the first part of `to_signed<NativeInt>`: the integer-part bits, sign-extended (proof-side name for the value of `ll` before
    the truncation step) -/
def toSignedFloorPat (n r sz p : Nat) : Nat :=
  if n ≤ r then 0 else
  let upper := if n - r > 64 then r + 64 else n
  let ll := ((p >>> r) % 2 ^ (upper - r)) % 2 ^ sz
  if signP n p && decide (upper < sz + r) then ll ||| (2 ^ sz - 2 ^ (upper - r)) else ll

/-- `to_signed` = integer-part bits, plus one (in the unsigned type of the same width) for a negative value with a fraction -/
theorem toSignedPat_eq (n r sz p : Nat) (hr : r < n) :
    toSignedPat n r sz p =
      if signP n p && decide (p % 2 ^ r ≠ 0) then (toSignedFloorPat n r sz p + 1) % 2 ^ sz else toSignedFloorPat n r sz p := by
  unfold toSignedPat toSignedFloorPat
  simp only [if_neg (show ¬ n ≤ r by omega)]

/-- the integer-part bits, sign-extended: the FLOOR of the value -/
theorem toSignedFloorPat_floor {n r sz p : Nat} (hr : r < n) (hsz : n - r ≤ sz) (h64 : n - r ≤ 64) (hp : p < 2 ^ n) :
    toSigned sz (toSignedFloorPat n r sz p) = toSigned n p / (((2 ^ r : Nat) : Int)) := by
  have hn0 : 0 < n := by omega
  have hsz0 : 0 < sz := by omega
  generalize hk : n - r = k at hsz h64
  have hk0 : 0 < k := by omega
  have hnk : n = k + r := by omega
  have hpn : 2 ^ n = 2 ^ k * 2 ^ r := by rw [hnk, Nat.pow_add]
  have hpn1 : 2 ^ (n - 1) = 2 ^ (k - 1) * 2 ^ r := by rw [← Nat.pow_add]; congr 1; omega
  have hpk : 2 ^ k = 2 ^ (k - 1) * 2 := by rw [← Nat.pow_succ]; congr 1; omega
  have hpsz : 2 ^ sz = 2 ^ (sz - 1) * 2 := by rw [← Nat.pow_succ]; congr 1; omega
  have hrpos := Nat.two_pow_pos r
  have hH : p / 2 ^ r < 2 ^ k := Nat.div_lt_of_lt_mul (by rw [Nat.mul_comm, ← hpn]; exact hp)
  have hksz : 2 ^ k ≤ 2 ^ sz := Nat.pow_le_pow_right (by omega) hsz
  have hk1sz : 2 ^ (k - 1) ≤ 2 ^ (sz - 1) := Nat.pow_le_pow_right (by omega) (by omega)
  have hll : ((p >>> r) % 2 ^ k) % 2 ^ sz = p / 2 ^ r := by
    rw [Nat.shiftRight_eq_div_pow, Nat.mod_eq_of_lt hH, Nat.mod_eq_of_lt (by omega)]
  have hsg : signP n p = decide (2 ^ (n - 1) ≤ p) := by unfold signP; exact testBit_top hn0 hp
  unfold toSignedFloorPat
  rw [if_neg (by omega)]
  simp only
  rw [hk, if_neg (show ¬ k > 64 by omega), hk, hll, hsg, toSigned_of_lt hn0 hp]
  generalize hHd : p / 2 ^ r = H at *
  by_cases hneg : 2 ^ (n - 1) ≤ p
  · have hHge : 2 ^ (k - 1) ≤ H := by
      rw [← hHd]; exact (Nat.le_div_iff_mul_le hrpos).mpr (by rw [← hpn1]; exact hneg)
    rw [decide_eq_true hneg, if_neg (show ¬ p < 2 ^ (n - 1) by omega)]
    -- the specification side: (p − 2^n) / 2^r = H − 2^k
    have hrhs : ((p : Int) - ((2 ^ n : Nat) : Int)) / ((2 ^ r : Nat) : Int) = (H : Int) - ((2 ^ k : Nat) : Int) := by
      have hne : (((2 ^ r : Nat) : Int)) ≠ 0 := by exact_mod_cast (ne_of_gt hrpos)
      have e : ((p : Int) - ((2 ^ n : Nat) : Int)) = (p : Int) + (-((2 ^ k : Nat) : Int)) * ((2 ^ r : Nat) : Int) := by
        rw [hpn]; push_cast; ring
      rw [e, Int.add_mul_ediv_right _ _ hne, ← Int.natCast_ediv, hHd]; ring
    rw [hrhs]
    by_cases hlt : n < sz + r
    · have hklt : k < sz := by omega
      rw [decide_eq_true hlt, Bool.true_and, if_pos rfl]
      have hmask : 2 ^ sz - 2 ^ k = 2 ^ k * (2 ^ (sz - k) - 1) := by
        rw [Nat.mul_sub, ← Nat.pow_add, Nat.mul_one]; congr 2; omega
      have hor : H ||| (2 ^ sz - 2 ^ k) = 2 ^ sz - 2 ^ k + H := by
        rw [hmask, Nat.or_comm, ← Nat.two_pow_add_eq_or_of_lt hH]
      rw [hor]
      have hV : 2 ^ sz - 2 ^ k + H < 2 ^ sz := by omega
      have hk1 : 2 ^ k ≤ 2 ^ (sz - 1) := Nat.pow_le_pow_right (by omega) (by omega)
      rw [toSigned_of_lt hsz0 hV, if_neg (by omega)]
      push_cast [Nat.cast_sub hksz]
      ring
    · have hkeq : k = sz := by omega
      rw [decide_eq_false hlt, Bool.true_and, if_neg (by simp)]
      subst hkeq
      rw [toSigned_of_lt hsz0 hH, if_neg (by omega)]
  · have hHlt : H < 2 ^ (k - 1) := by
      rw [← hHd]; exact Nat.div_lt_of_lt_mul (by rw [Nat.mul_comm, ← hpn1]; omega)
    rw [decide_eq_false hneg, Bool.false_and, if_neg (by simp), if_pos (show p < 2 ^ (n - 1) by omega)]
    rw [toSigned_of_lt hsz0 (by omega), if_pos (by omega), ← Int.natCast_ediv, hHd]

/-- adding one in the unsigned type of the same width adds one to the signed reading, unless it is the largest value -/
theorem toSigned_succ {sz A : Nat} (hsz : 0 < sz) (h : toSigned sz A + 1 < M2 (sz - 1)) :
    toSigned sz ((A + 1) % 2 ^ sz) = toSigned sz A + 1 := by
  have e1 : (A + 1) % 2 ^ sz = ofSigned sz (((A + 1 : Nat)) : Int) := (ofSigned_natCast sz (A + 1)).symm
  have e2 : (((A + 1 : Nat)) : Int) = (A : Int) + 1 := by push_cast; ring
  rw [e1, e2, ← ofSigned_add_const sz A 1]
  have hlo := (toSigned_range hsz A).1
  exact toSigned_ofSigned_fits hsz (by omega) h

/-- `to_signed<NativeInt>` truncates toward zero whenever the integer part fits the target type -/
theorem toSignedPat_trunc {n r sz p : Nat} (hr : r < n) (hsz : n - r ≤ sz) (h64 : n - r ≤ 64) (hp : p < 2 ^ n) :
    toSigned sz (toSignedPat n r sz p) = (toSigned n p).tdiv (((2 ^ r : Nat) : Int)) := by
  have hn0 : 0 < n := by omega
  have hsz0 : 0 < sz := by omega
  have hfl := toSignedFloorPat_floor hr hsz h64 hp
  have hsg : signP n p = decide (2 ^ (n - 1) ≤ p) := by unfold signP; exact testBit_top hn0 hp
  have hD : (0 : Int) < ((2 ^ r : Nat) : Int) := by exact_mod_cast Nat.two_pow_pos r
  have hpn : 2 ^ n = 2 ^ (n - r) * 2 ^ r := by rw [← Nat.pow_add]; congr 1; omega
  -- 2^r divides the signed reading iff it divides the pattern
  have hdvd : (((2 ^ r : Nat) : Int)) ∣ toSigned n p ↔ p % 2 ^ r = 0 := by
    rw [toSigned_of_lt hn0 hp]
    have hbig : (((2 ^ r : Nat) : Int)) ∣ ((2 ^ n : Nat) : Int) := by
      rw [hpn]; push_cast; exact Dvd.intro_left _ rfl
    have hnat : (((2 ^ r : Nat) : Int)) ∣ (p : Int) ↔ p % 2 ^ r = 0 := by
      rw [Int.natCast_dvd_natCast]; exact Nat.dvd_iff_mod_eq_zero
    split
    · exact hnat
    · rw [← hnat]
      constructor
      · intro h; have := Int.dvd_add h hbig; simpa using this
      · intro h; exact Int.dvd_sub h hbig
  rw [toSignedPat_eq n r sz p hr, Int.tdiv_eq_ediv]
  by_cases hneg : 2 ^ (n - 1) ≤ p
  · have hX : toSigned n p < 0 := by
      rw [toSigned_of_lt hn0 hp, if_neg (by omega)]
      have : (p : Int) < ((2 ^ n : Nat) : Int) := by exact_mod_cast hp
      omega
    by_cases hfr : p % 2 ^ r = 0
    · rw [hsg, decide_eq_true hneg, Bool.true_and, if_neg (by simp [hfr]), hfl, if_pos (Or.inr (hdvd.mpr hfr))]
      simp
    · rw [hsg, decide_eq_true hneg, Bool.true_and, if_pos (by simp [hfr]),
        if_neg (by
          rintro (h | h)
          · omega
          · exact hfr (hdvd.mp h))]
      have hq : toSigned n p / ((2 ^ r : Nat) : Int) < 0 := Int.ediv_neg_of_neg_of_pos hX hD
      have hpos : (0 : Int) < M2 (sz - 1) := M2_pos _
      rw [toSigned_succ hsz0 (by rw [hfl]; omega), hfl, Int.sign_eq_one_of_pos hD]
  · have hX : 0 ≤ toSigned n p := by
      rw [toSigned_of_lt hn0 hp, if_pos (by omega)]; omega
    rw [hsg, decide_eq_false hneg, Bool.false_and, if_neg (by simp), hfl, if_pos (Or.inl hX)]
    simp

/-- `to_unsigned<NativeInt>` = `to_signed<long long>` cast to the unsigned type: for a non-negative value whose integer part
    fits, the value truncated toward zero -/
theorem toUnsignedPat_nonneg {n r sz p : Nat} (hr : r < n) (h64 : n - r ≤ 64) (hp : p < 2 ^ (n - 1)) (hsz : p / 2 ^ r < 2 ^ sz) :
    toUnsignedPat n r sz p = p / 2 ^ r := by
  have hn0 : 0 < n := by omega
  have hlt : p < 2 ^ n := Nat.lt_of_lt_of_le hp (Nat.pow_le_pow_right (by omega) (by omega))
  have hsg : signP n p = false := by
    unfold signP; rw [testBit_top hn0 hlt]; exact decide_eq_false (by omega)
  have hpn1 : 2 ^ (n - 1) = 2 ^ (n - r - 1) * 2 ^ r := by rw [← Nat.pow_add]; congr 1; omega
  have hH : p / 2 ^ r < 2 ^ (n - r - 1) := Nat.div_lt_of_lt_mul (by rw [Nat.mul_comm, ← hpn1]; exact hp)
  have h1 : 2 ^ (n - r - 1) ≤ 2 ^ (n - r) := Nat.pow_le_pow_right (by omega) (by omega)
  have h2 : 2 ^ (n - r - 1) ≤ 2 ^ 64 := Nat.pow_le_pow_right (by omega) (by omega)
  unfold toUnsignedPat toSignedPat
  rw [if_neg (show ¬ n ≤ r by omega), hsg]
  simp only [Bool.false_and, Bool.false_eq_true, if_false]
  rw [if_neg (show ¬ n - r > 64 by omega), Nat.shiftRight_eq_div_pow, Nat.mod_eq_of_lt (show p / 2 ^ r < 2 ^ (n - r) by omega),
    Nat.mod_eq_of_lt (show p / 2 ^ r < 2 ^ 64 by omega), Nat.mod_eq_of_lt hsz]

/-! ### double → fixpnt after fixpnt → double (Modulo) -/

/-- the tail of the floating-point branch of `convert`, as a function of the decoded fields -/
def ieeeTail (n : Nat) (s : Bool) (fraction fb : Nat) (shiftRight : Int) : Nat :=
  if shiftRight > (fb : Int) + 1 then 0
  else if shiftRight > 0 then
    (if s then twosComp n (setbits64 n (Lns.Model.roundGRS fraction shiftRight.toNat))
     else setbits64 n (Lns.Model.roundGRS fraction shiftRight.toNat))
  else
    if (-shiftRight).toNat < 64 - fb then
      (if s then twosComp n (setbits64 n (fraction <<< (-shiftRight).toNat)) else setbits64 n (fraction <<< (-shiftRight).toNat))
    else if s then twosComp n ((fraction <<< (-shiftRight).toNat) % 2 ^ n) else (fraction <<< (-shiftRight).toNat) % 2 ^ n

theorem fromIeee_modulo (n r ew fb bits : Nat) (h : ¬ ((bits >>> fb) % 2 ^ ew = 0 ∧ bits % 2 ^ fb = 0)) :
    fromIeee n r false ew fb bits =
      ieeeTail n (bits.testBit (ew + fb))
        (if (bits >>> fb) % 2 ^ ew > 0 then bits % 2 ^ fb + 2 ^ fb else bits % 2 ^ fb) fb
        (min ((fb : Int) - (((((bits >>> fb) % 2 ^ ew : Nat) : Int)) - ((((2 ^ (ew - 1) : Nat) : Int)) - 1)) - (r : Int)) 64) := by
  unfold fromIeee ieeeTail
  simp only [Bool.false_and, Bool.false_eq_true, if_false]
  rw [if_neg h]

/-- the fields of the binary64 pattern of a normal number X·2^k (X below 2^53, k ≥ 52) -/
theorem toBits64_fields (s : Bool) {X k : Nat} (hX : 0 < X) (hX53 : X < 2 ^ 53) (hk : 52 ≤ k) (hE : X.log2 + k - 51 < 2047) :
    (toBits 53 11 (F.fin s (X * 2 ^ k))).testBit 63 = s ∧
    (toBits 53 11 (F.fin s (X * 2 ^ k)) >>> 52) % 2 ^ 11 = X.log2 + k - 51 ∧
    toBits 53 11 (F.fin s (X * 2 ^ k)) % 2 ^ 52 = X * 2 ^ (52 - X.log2) - 2 ^ 52 := by
  have h1 : 2 ^ X.log2 ≤ X := Nat.log2_self_le (by omega)
  have h2 : X < 2 ^ (X.log2 + 1) := Nat.lt_log2_self
  have hL : X.log2 ≤ 52 := by
    by_contra hc
    have : 2 ^ 53 ≤ 2 ^ X.log2 := Nat.pow_le_pow_right (by omega) (by omega)
    omega
  generalize hLd : X.log2 = L at *
  have hlog : (X * 2 ^ k).log2 = L + k := by rw [IeeeLemmas.log2_mul_two_pow hX, hLd]
  have hge : ¬ X * 2 ^ k < 2 ^ (53 - 1) := by
    have : 2 ^ 52 ≤ 2 ^ k := Nat.pow_le_pow_right (by omega) hk
    have : 1 * 2 ^ k ≤ X * 2 ^ k := Nat.mul_le_mul_right _ hX
    omega
  -- the significand with the hidden bit
  have hM : (X * 2 ^ k) >>> (L + k + 2 - 53 - 1) = X * 2 ^ (52 - L) := by
    rw [Nat.shiftRight_eq_div_pow]
    have e1 : 2 ^ k = 2 ^ (52 - L) * 2 ^ (L + k + 2 - 53 - 1) := by rw [← Nat.pow_add]; congr 1; omega
    rw [e1, ← Nat.mul_assoc, Nat.mul_div_cancel _ (Nat.two_pow_pos _)]
  have hMlo : 2 ^ 52 ≤ X * 2 ^ (52 - L) := by
    have : 2 ^ 52 = 2 ^ L * 2 ^ (52 - L) := by rw [← Nat.pow_add]; congr 1; omega
    rw [this]; exact Nat.mul_le_mul_right _ h1
  have hMhi : X * 2 ^ (52 - L) < 2 ^ 53 := by
    have : 2 ^ 53 = 2 ^ (L + 1) * 2 ^ (52 - L) := by rw [← Nat.pow_add]; congr 1; omega
    rw [this]; exact Nat.mul_lt_mul_of_pos_right h2 (Nat.two_pow_pos _)
  have hbits : toBits 53 11 (F.fin s (X * 2 ^ k))
      = (if s then 2 ^ 63 else 0) + (L + k - 51) * 2 ^ 52 + (X * 2 ^ (52 - L) - 2 ^ 52) := by
    unfold toBits
    simp only
    rw [if_neg hge, hlog, hM, Nat.shiftLeft_eq]
    have : L + k + 2 - 53 = L + k - 51 := by omega
    rw [this]
  rw [hbits]
  generalize L + k - 51 = E at *
  generalize X * 2 ^ (52 - L) = M at *
  rw [Nat.testBit_eq_decide_div_mod_eq, Nat.shiftRight_eq_div_pow]
  have p63 : (2 : Nat) ^ 63 = 9223372036854775808 := by norm_num
  have p52 : (2 : Nat) ^ 52 = 4503599627370496 := by norm_num
  have p53 : (2 : Nat) ^ 53 = 9007199254740992 := by norm_num
  have p11 : (2 : Nat) ^ 11 = 2048 := by norm_num
  rw [p63, p52, p11]
  rw [p52] at hMlo
  rw [p53] at hMhi
  cases s
  · simp only [Bool.false_eq_true, if_false]
    refine ⟨?_, ?_, ?_⟩
    · simp only [decide_eq_false_iff_not]; omega
    · omega
    · omega
  · simp only [if_true]
    refine ⟨?_, ?_, ?_⟩
    · simp only [decide_eq_true_eq]; omega
    · omega
    · omega

/-- `setbits(uint64_t)` of a magnitude below 2^64, then `twosComplement()` for a negative source: any nbits -/
theorem setbits64_twos {n X : Nat} (s : Bool) (hX : X < 2 ^ 64) :
    (if s then twosComp n (setbits64 n X) else setbits64 n X) = if s then (2 ^ n - X % 2 ^ n) % 2 ^ n else X % 2 ^ n := by
  unfold setbits64 twosComp
  rw [Nat.mod_eq_of_lt hX, Nat.mod_mod]

/-- double → fixpnt (Modulo) of the exact double of a fixpnt magnitude: the encoding comes back -/
theorem fromIeee_of_scaled {n r : Nat} (hr : r ≤ n) (hn : n ≤ 53) (s : Bool) {X : Nat} (hX : 0 < X) (hXn : X ≤ 2 ^ (n - 1)) :
    fromIeee n r false 11 52 (toBits 53 11 (F.fin s (X * 2 ^ (1074 - r)))) =
      if s then (2 ^ n - X % 2 ^ n) % 2 ^ n else X % 2 ^ n := by
  have hn1 : 2 ^ (n - 1) ≤ 2 ^ 52 := Nat.pow_le_pow_right (by omega) (by omega)
  have hX53 : X < 2 ^ 53 := by
    have : (2 : Nat) ^ 52 < 2 ^ 53 := Nat.pow_lt_pow_right (by omega) (by omega)
    omega
  have h1 : 2 ^ X.log2 ≤ X := Nat.log2_self_le (by omega)
  have hL : X.log2 ≤ 52 := by
    by_contra hc
    have : 2 ^ 53 ≤ 2 ^ X.log2 := Nat.pow_le_pow_right (by omega) (by omega)
    omega
  obtain ⟨f1, f2, f3⟩ := toBits64_fields s (k := 1074 - r) hX hX53 (by omega) (by omega)
  generalize hb : toBits 53 11 (F.fin s (X * 2 ^ (1074 - r))) = bits at *
  generalize hLd : X.log2 = L at *
  have hMlo : 2 ^ 52 ≤ X * 2 ^ (52 - L) := by
    have : 2 ^ 52 = 2 ^ L * 2 ^ (52 - L) := by rw [← Nat.pow_add]; congr 1; omega
    rw [this]; exact Nat.mul_le_mul_right _ h1
  have hE : L + (1074 - r) - 51 = L + 1023 - r := by omega
  rw [hE] at f2
  rw [fromIeee_modulo _ _ _ _ _ (by rw [f2]; omega)]
  rw [show (11 + 52 : Nat) = 63 from rfl, f1, f2, f3, if_pos (by omega), Nat.sub_add_cancel hMlo]
  have hsr : min ((52 : Int) - ((((L + 1023 - r : Nat) : Int)) - ((((2 ^ (11 - 1) : Nat) : Int)) - 1)) - (r : Int)) 64
      = (((52 - L : Nat)) : Int) := by
    have : (((2 ^ (11 - 1) : Nat) : Int)) = 1024 := by norm_num
    rw [this]
    omega
  have hcast : ((52 : Nat) : Int) = 52 := rfl
  rw [hcast, hsr]
  have hX64 : X < 2 ^ 64 := Nat.lt_of_lt_of_le hX53 (Nat.pow_le_pow_right (by omega) (by omega))
  unfold ieeeTail
  rw [if_neg (by omega)]
  by_cases hz : 0 < 52 - L
  · rw [if_pos (by omega), Int.toNat_natCast, LnsLemmas.roundGRS_eq_rneShr _ _ (by omega),
      IeeeLemmas.rneShr_of_dvd (Dvd.intro_left _ rfl), Nat.mul_div_cancel _ (Nat.two_pow_pos _)]
    exact setbits64_twos s hX64
  · have hL52 : 52 - L = 0 := by omega
    rw [if_neg (by omega), hL52]
    simp only [Nat.cast_zero, neg_zero, Int.toNat_zero, Nat.shiftLeft_zero, Nat.pow_zero, Nat.mul_one]
    rw [if_pos (by omega)]
    exact setbits64_twos s hX64

/-- the exact structural result of `to_native` when nbits fits the precision: sign and magnitude -/
theorem toNative_fin (fmt : Fmt) (ok : fmt.Ok) {n r mag : Nat} (hr : r ≤ fmt.q) (hn : n ≤ fmt.p)
    (htop : n + fmt.q - r ≤ fmt.top) (hmag : mag < 2 ^ n) :
    (List.range n).foldl (nativeStep fmt r mag) (F.fin false 0) = F.fin false (mag * 2 ^ (fmt.q - r)) := by
  obtain ⟨_, hv⟩ := toNative_loop fmt ok (mag := mag) hr hn htop n (le_refl _)
  rw [Nat.mod_eq_of_lt hmag] at hv
  -- the sign never becomes negative: every step adds a positive number to a non-negative one
  have hsign : ∀ (l : List Nat) (acc : F), acc.sign = false → acc.isNaN = false →
      ((l.foldl (nativeStep fmt r mag) acc).sign = false ∧ (l.foldl (nativeStep fmt r mag) acc).isNaN = false) := by
    intro l
    induction l with
    | nil => intro acc h1 h2; exact ⟨h1, h2⟩
    | cons i l ih =>
      intro acc h1 h2
      rw [List.foldl_cons]
      apply ih
      · unfold nativeStep
        split
        · cases acc with
          | fin s m =>
            simp only [F.sign] at h1; subst h1
            simp only [F64.add, roundInt, F.toInt, Bool.false_eq_true, if_false, Bool.and_self]
            have hpos : (0 : Int) < (m : Int) + ((2 ^ (i + fmt.q - r) : Nat) : Int) := by
              have : (0 : Int) < ((2 ^ (i + fmt.q - r) : Nat) : Int) := by exact_mod_cast Nat.two_pow_pos _
              omega
            rw [if_neg (by omega)]
            have : ¬ ((m : Int) + ((2 ^ (i + fmt.q - r) : Nat) : Int) < 0) := by omega
            simp only [this, decide_false]
            unfold pack; split <;> rfl
          | inf s => simp only [F.sign] at h1; subst h1; simp [F64.add, F.sign]
          | nan => simp [F.isNaN] at h2
        · exact h1
      · unfold nativeStep
        split
        · cases acc with
          | fin s m =>
            simp only [F64.add, roundInt]
            split
            · rfl
            · unfold pack; split <;> rfl
          | inf s => simp [F64.add, F.isNaN]
          | nan => simp [F.isNaN] at h2
        · exact h2
  obtain ⟨hs, _⟩ := hsign (List.range n) (F.fin false 0) rfl rfl
  obtain ⟨hf, _⟩ := toNative_loop fmt ok (mag := mag) hr hn htop n (le_refl _)
  generalize (List.range n).foldl (nativeStep fmt r mag) (F.fin false 0) = acc at *
  cases acc with
  | fin s m =>
    simp only [F.sign] at hs; subst hs
    simp only [F.toInt, Bool.false_eq_true, if_false] at hv
    have : m = mag * 2 ^ (fmt.q - r) := by exact_mod_cast hv
    rw [this]
  | inf s => simp [F.isFinite] at hf
  | nan => simp [F.isFinite] at hf

/-- fixpnt → double → fixpnt (Modulo) is the identity for nbits ≤ 53 -/
theorem roundtrip_double {n r p : Nat} (hr : r ≤ n) (hn0 : 0 < n) (hn : n ≤ 53) (hp : p < 2 ^ n) :
    fromIeee n r false 11 52 (toBits64 (toNative binary64 n r p)) = p := by
  have hq : binary64.q = 1074 := by decide
  have hP : binary64.p = 53 := by decide
  have hT : binary64.top = 2098 := by decide
  have hpw : 2 ^ n = 2 ^ (n - 1) * 2 := by rw [← Nat.pow_succ]; congr 1; omega
  have hpos := Nat.two_pow_pos (n - 1)
  have hsg : signP n p = decide (2 ^ (n - 1) ≤ p) := by unfold signP; exact testBit_top hn0 hp
  unfold toBits64
  rw [toNative_eq]
  by_cases hneg : 2 ^ (n - 1) ≤ p
  · rw [hsg, decide_eq_true hneg, if_pos rfl]
    have hmag : twosComp n p = 2 ^ n - p := by
      unfold twosComp
      rw [Nat.mod_eq_of_lt hp, Nat.mod_eq_of_lt (by omega)]
    have hmlt : twosComp n p < 2 ^ n := by rw [hmag]; omega
    rw [toNative_fin binary64 binary64_ok (by rw [hq]; omega) (by rw [hP]; exact hn) (by rw [hq, hT]; omega) hmlt, hq, hmag]
    simp only [F.neg, Bool.not_false]
    rw [fromIeee_of_scaled hr hn true (by omega) (by omega)]
    simp only [if_true]
    rw [Nat.mod_eq_of_lt (show 2 ^ n - p < 2 ^ n by omega), show 2 ^ n - (2 ^ n - p) = p by omega, Nat.mod_eq_of_lt hp]
  · rw [hsg, decide_eq_false hneg, if_neg (by simp), Nat.mod_eq_of_lt hp]
    rw [toNative_fin binary64 binary64_ok (by rw [hq]; omega) (by rw [hP]; exact hn) (by rw [hq, hT]; omega) hp, hq]
    by_cases h0 : p = 0
    · subst h0
      rw [Nat.zero_mul]
      have : toBits 53 11 (F.fin false 0) = 0 := by decide
      rw [this]
      unfold fromIeee
      simp
    · rw [fromIeee_of_scaled hr hn false (by omega) (by omega)]
      simp only [Bool.false_eq_true, if_false]
      exact Nat.mod_eq_of_lt hp

end UVerif.ConvFixpnt
